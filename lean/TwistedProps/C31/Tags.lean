import TwistedProps.C31.Basic
import TwistedProps.C31.Loss
/-!
C31 — the tag-flow invariant: no reply without a question.

For a caller `u`, the tags *in flight* are those carried by its `_ask` boxes still on the way to the peer
(in the pipe, or among the boxes the peer's `dataReceived` has in hand), those held by the peer's pending
responder Deferreds, and those carried by `_answer`/`_error` boxes on the way back.  As long as `u` has not
been told `connectionLost`, the multiset of tags in flight is included in the multiset of keys of
`_outstandingRequests` (`Flow`/`InvT.incl`): a call adds its tag to both, `_commandReceived` moves a tag from
the ask pipe to the responder (or straight to the reply pipe), a responder firing moves it to the reply pipe,
dropping bytes only removes tags from flight, and `_answerReceived`/`_errorReceived` removes one occurrence
from both.  Hence `_outstandingRequests.pop(tag)` always finds its key, whatever the schedule.
-/
namespace TwistedProps.C31
open Twisted.Amp Twisted.Amp.Dispatch

def askTag : Box → Option Nat
  | .ask (some t) _ _ => some t
  | _ => none

def replyTag : Box → Option Nat
  | .reply t _ _ => some t
  | _ => none

def laterTags (l : List (Nat × Option Nat)) : List Nat := l.filterMap (·.2)

/-- keys of `_outstandingRequests` -/
def ptags (l : List (Nat × Rec)) : List Nat := l.map (·.1)

/-- the tags of caller `u` in flight; `l` = boxes `dataReceived` of side `rs` has in hand -/
def inflight (st : Net) (rs : Bool) (l : List Box) (u : Bool) : List Nat :=
  (if u = rs then [] else l.filterMap askTag) ++ (st.get u).out.filterMap askTag ++
  laterTags (st.get (!u)).laters ++
  (if u = rs then l.filterMap replyTag else []) ++ (st.get (!u)).out.filterMap replyTag

def cnt (st : Net) (rs : Bool) (l : List Box) (u : Bool) (t : Nat) : Nat := (inflight st rs l u).count t

/-- how `st'` (boxes in hand `l'`) relates to `st` (boxes in hand `l`): no exception escaped, the loss flags are
    untouched, and per caller and tag, flight grew by no more than `_outstandingRequests` did -/
structure Flow (st : Net) (rs : Bool) (l : List Box) (st' : Net) (l' : List Box) : Prop where
  halted : st'.halted = st.halted
  fr : ∀ s, (st'.get s).failReason = (st.get s).failReason
  tn : ∀ s, (st'.get s).transportNone = (st.get s).transportNone
  le : ∀ u t, cnt st' rs l' u t + (ptags (st.get u).pending).count t ≤
    cnt st rs l u t + (ptags (st'.get u).pending).count t

theorem Flow.refl (st : Net) (rs : Bool) (l : List Box) : Flow st rs l st l :=
  ⟨rfl, fun _ => rfl, fun _ => rfl, fun _ _ => Nat.le_refl _⟩

theorem Flow.trans {a b c : Net} {rs : Bool} {la lb lc : List Box} (h1 : Flow a rs la b lb) (h2 : Flow b rs lb c lc) :
    Flow a rs la c lc := by
  refine ⟨h2.halted.trans h1.halted, fun s => (h2.fr s).trans (h1.fr s), fun s => (h2.tn s).trans (h1.tn s), ?_⟩
  intro u t
  have := h1.le u t
  have := h2.le u t
  omega

/-- the state changes only in fields the invariant does not look at -/
theorem flow_of_eq {st st' : Net} (rs : Bool) (l : List Box) (hh : st'.halted = st.halted)
    (h : ∀ s, (st'.get s).out = (st.get s).out ∧ (st'.get s).laters = (st.get s).laters ∧
      (st'.get s).pending = (st.get s).pending ∧ (st'.get s).failReason = (st.get s).failReason ∧
      (st'.get s).transportNone = (st.get s).transportNone) : Flow st rs l st' l := by
  refine ⟨hh, fun s => (h s).2.2.2.1, fun s => (h s).2.2.2.2, ?_⟩
  intro u t
  simp only [cnt, inflight, (h u).1, (h (!u)).1, (h (!u)).2.1, (h u).2.2.1]
  exact Nat.le_refl _

theorem flow_logEv (st : Net) (rs : Bool) (l : List Box) (e : Ev) : Flow st rs l (logEv st e) l :=
  flow_of_eq rs l rfl (fun s => by simp)

theorem flow_set (st : Net) (rs : Bool) (l : List Box) (s : Bool) (v : Side)
    (h1 : v.out = (st.get s).out) (h2 : v.laters = (st.get s).laters) (h3 : v.pending = (st.get s).pending)
    (h4 : v.failReason = (st.get s).failReason) (h5 : v.transportNone = (st.get s).transportNone) :
    Flow st rs l (st.set s v) l := by
  refine flow_of_eq rs l (by simp) ?_
  intro u
  simp only [get_set]
  split
  · subst_vars; exact ⟨h1, h2, h3, h4, h5⟩
  · exact ⟨rfl, rfl, rfl, rfl, rfl⟩

theorem flow_loseConnection (st : Net) (rs : Bool) (l : List Box) (s : Bool) :
    Flow st rs l (loseConnection st s) l := flow_set st rs l s _ rfl rfl rfl rfl rfl

theorem flow_unhandledError (st : Net) (rs : Bool) (l : List Box) (s : Bool) :
    Flow st rs l (unhandledError st s) l := by
  unfold unhandledError; split
  · exact Flow.refl _ _ _
  · exact flow_loseConnection _ _ _ _

/-- tactic: all four side combinations, everything unfolded -/
macro "sides" s:ident u:ident : tactic => `(tactic|
  (cases $s:ident <;> cases $u:ident <;>
    simp [cnt, inflight, laterTags, write, Net.get, Net.set, List.filterMap_append, List.count_append] <;> omega))

theorem write_halted (st : Net) (s : Bool) (b : Box) : (write st s b).halted = st.halted := by simp [write]

theorem write_get (st : Net) (s : Bool) (b : Box) (u : Bool) :
    ((write st s b).get u).failReason = (st.get u).failReason ∧
    ((write st s b).get u).transportNone = (st.get u).transportNone ∧
    ((write st s b).get u).pending = (st.get u).pending := by
  cases s <;> cases u <;> simp [write, Net.get, Net.set]

theorem cnt_write (st : Net) (rs : Bool) (l : List Box) (s : Bool) (b : Box) (u : Bool) (t : Nat) :
    cnt (write st s b) rs l u t = cnt st rs l u t +
      (if u = s then ([b].filterMap askTag).count t else ([b].filterMap replyTag).count t) := by
  sides s u

macro "sides2" s:ident u:ident : tactic => `(tactic|
  (cases $s:ident <;> cases $u:ident <;>
    simp [cnt, inflight, laterTags, ptags, askTag, replyTag, write, logEv, Net.get, Net.set, List.filterMap_append,
      List.count_append, List.count_cons, List.filterMap_cons, List.filterMap_nil] <;> omega))

/-- `_sendBoxCommand` on a live transport: the new tag goes into the ask pipe and into `_outstandingRequests` -/
theorem flow_sendBoxCommand (st : Net) (rs : Bool) (l : List Box) (s : Bool) (beh : Beh) (wants : Bool) (r : Rec)
    (htn : (st.get s).transportNone = false) : Flow st rs l (sendBoxCommand st s beh wants r) l := by
  unfold sendBoxCommand
  simp only [htn, Bool.false_eq_true, if_false]
  cases wants
  · simp only [Bool.false_eq_true, if_false]
    refine ⟨by simp [write], fun u => ?_, fun u => ?_, fun u t => ?_⟩
    · cases s <;> cases u <;> simp [write, Net.get, Net.set, logEv]
    · cases s <;> cases u <;> simp [write, Net.get, Net.set, logEv]
    · sides2 s u
  · simp only [if_true]
    refine ⟨by simp [write], fun u => ?_, fun u => ?_, fun u t => ?_⟩
    · cases s <;> cases u <;> simp [write, Net.get, Net.set]
    · cases s <;> cases u <;> simp [write, Net.get, Net.set]
    · sides2 s u

/-- `transport is None` only after `failAllOutgoing` -/
def TN (st : Net) : Prop := ∀ s, (st.get s).transportNone = true → (st.get s).failReason ≠ none

theorem TN.flow {st st' : Net} {rs l l'} (h : TN st) (f : Flow st rs l st' l') : TN st' := by
  intro s hs; rw [f.tn] at hs; rw [f.fr]; exact h s hs

theorem flow_nextId (st : Net) (rs : Bool) (l : List Box) (n : Nat) : Flow st rs l { st with nextId := n } l :=
  flow_of_eq rs l rfl (fun s => by simp)

theorem flow_callPlain {st : Net} (htn : TN st) (rs : Bool) (l : List Box) (s : Bool) (beh : Beh) :
    Flow st rs l (callPlain st s beh) l := by
  have f0 : Flow st rs l (logEv { st with nextId := st.nextId + 1 } (Ev.called st.nextId s beh true)) l :=
    (flow_nextId st rs l _).trans (flow_logEv _ rs l _)
  unfold callPlain
  simp only [logEv_get, get_withNextId]
  split
  · exact f0.trans (flow_logEv _ rs l _)
  · rename_i hw
    refine f0.trans (flow_sendBoxCommand _ rs l s beh true _ ?_)
    simp only [logEv_get, get_withNextId]
    cases hh : (st.get s).transportNone
    · rfl
    · exact absurd hw (htn s hh)

theorem flow_foldCallPlain {st : Net} (htn : TN st) (rs : Bool) (l : List Box) (s : Bool) (bs : List Beh) :
    Flow st rs l (bs.foldl (fun st beh => callPlain st s beh) st) l := by
  induction bs generalizing st with
  | nil => exact Flow.refl _ _ _
  | cons b bs ih =>
    have f := flow_callPlain htn rs l s b
    exact f.trans (ih (htn.flow f))

theorem flow_fireUser {st : Net} (htn : TN st) (rs : Bool) (l : List Box) (s : Bool) (r : Rec) (o : Outcome) :
    Flow st rs l (fireUser st s r o) l := by
  unfold fireUser
  have f := flow_logEv st rs l (Ev.fired r.id o)
  exact f.trans (flow_foldCallPlain (htn.flow f) rs l s _)

theorem flow_callRemote {st : Net} (htn : TN st) (rs : Bool) (l : List Box) (s : Bool) (beh : Beh) (wants handled : Bool)
    (follow : List Beh) : Flow st rs l (callRemote st s beh wants handled follow) l := by
  have f0 : Flow st rs l (logEv { st with nextId := st.nextId + 1 } (Ev.called st.nextId s beh wants)) l :=
    (flow_nextId st rs l _).trans (flow_logEv _ rs l _)
  unfold callRemote
  simp only [logEv_get, get_withNextId]
  split
  · split
    · exact f0.trans (flow_fireUser (htn.flow f0) rs l s _ _)
    · exact f0.trans (flow_logEv _ rs l _)
  · rename_i hw
    refine f0.trans (flow_sendBoxCommand _ rs l s beh wants _ ?_)
    simp only [logEv_get, get_withNextId]
    cases hh : (st.get s).transportNone
    · rfl
    · exact absurd hw (htn s hh)

/-- the responder's result is known, given that dropping its tag, resp. moving it into the reply pipe, is a `Flow` -/
theorem flow_respond {st0 st : Net} {rs : Bool} {L l' : List Box} (s : Bool) (tag : Option Nat) (k : Kind) (n : Nat)
    (hdrop : Flow st0 rs L st l')
    (hmove : ∀ t, tag = some t → Flow st0 rs L (write st s (.reply t k n)) l') :
    Flow st0 rs L (respond st s tag k n) l' := by
  unfold respond
  split
  · rename_i t
    split
    · exact hdrop
    · simp only []
      split
      · exact (hmove t rfl).trans (flow_loseConnection _ _ _ _)
      · exact hmove t rfl
  · split
    · exact hdrop
    · exact hdrop.trans (flow_unhandledError _ _ _ _)

macro "sides3" s:ident u:ident : tactic => `(tactic|
  (cases $s:ident <;> cases $u:ident <;>
    simp [cnt, inflight, laterTags, ptags, askTag, replyTag, write, logEv, Net.get, Net.set, List.filterMap_append,
      List.count_append, List.count_cons, List.filterMap_cons, List.filterMap_nil] <;> omega))

/-- `_commandReceived`: the tag of the `_ask` box in hand goes to the responder Deferred, to the reply pipe, or nowhere -/
theorem flow_commandReceived (st : Net) (rs : Bool) (l' : List Box) (tag : Option Nat) (beh : Beh) (n : Nat) :
    Flow st rs (.ask tag beh n :: l') (commandReceived st rs tag beh n) l' := by
  have hdrop : ∀ e, Flow st rs (.ask tag beh n :: l') (logEv st e) l' := by
    intro e
    refine ⟨rfl, fun u => by simp, fun u => by simp, fun u t => ?_⟩
    cases tag <;> sides3 rs u
  have hmove : ∀ e k t, tag = some t → Flow st rs (.ask tag beh n :: l') (write (logEv st e) rs (.reply t k n)) l' := by
    intro e k t ht
    subst ht
    refine ⟨by simp [write], fun u => by simp [write_get], fun u => by simp [write_get], fun u t' => ?_⟩
    sides3 rs u
  have hsync : ∀ e k, Flow st rs (.ask tag beh n :: l') (respond (logEv st e) rs tag k n) l' :=
    fun e k => flow_respond rs tag k n (hdrop e) (hmove e k)
  unfold commandReceived
  cases beh <;> simp only []
  case nores =>
    refine flow_respond rs tag .unhandled n ?_ ?_
    · refine ⟨rfl, fun u => rfl, fun u => rfl, fun u t => ?_⟩
      cases tag <;> sides3 rs u
    · intro t ht
      subst ht
      refine ⟨by simp [write], fun u => by simp [write_get], fun u => by simp [write_get], fun u t' => ?_⟩
      sides3 rs u
  case later =>
    refine ⟨by simp, fun u => ?_, fun u => ?_, fun u t => ?_⟩
    · cases rs <;> cases u <;> simp [Net.get, Net.set, logEv]
    · cases rs <;> cases u <;> simp [Net.get, Net.set, logEv]
    · cases tag <;> sides3 rs u
  all_goals exact hsync _ _

theorem popTag_none {t : Nat} {l : List (Nat × Rec)} (h : popTag t l = none) : (ptags l).count t = 0 := by
  induction l with
  | nil => simp [ptags]
  | cons p ps ih =>
    unfold popTag at h
    split at h
    · cases h
    · rename_i hp
      split at h
      · rename_i hr
        have := ih hr
        simp only [ptags, List.map_cons, List.count_cons] at this ⊢
        simp [hp, this]
      · cases h

theorem popTag_count {t : Nat} {l : List (Nat × Rec)} {r : Rec} {rest : List (Nat × Rec)}
    (h : popTag t l = some (r, rest)) (t' : Nat) :
    (ptags l).count t' = (ptags rest).count t' + [t].count t' := by
  have := ((popTag_perm h).map (·.1)).count_eq t'
  simp only [ptags]
  rw [this]
  simp only [List.map_cons, List.count_cons, List.count_nil]
  omega

/-- the request is popped: its tag leaves `_outstandingRequests` and the reply box leaves the hand -/
theorem flow_pop (st : Net) (rs : Bool) (t : Nat) (k : Kind) (n : Nat) (l' : List Box) (rest : List (Nat × Rec))
    (hc : ∀ t', (ptags (st.get rs).pending).count t' = (ptags rest).count t' + [t].count t') :
    Flow st rs (.reply t k n :: l') (st.set rs { st.get rs with pending := rest }) l' := by
  refine ⟨by simp, fun u => ?_, fun u => ?_, fun u t' => ?_⟩
  · cases rs <;> cases u <;> simp [Net.get, Net.set]
  · cases rs <;> cases u <;> simp [Net.get, Net.set]
  · have := hc t'
    cases rs <;> cases u <;>
      simp [cnt, inflight, laterTags, ptags, askTag, replyTag, Net.get, Net.set,
        List.count_append, List.count_cons, List.filterMap_cons] at this ⊢ <;> omega

/-- **The tag-flow invariant.**  `l`: boxes `dataReceived` of side `rs` has in hand. -/
structure InvT (st : Net) (rs : Bool) (l : List Box) : Prop where
  /-- no exception has escaped -/
  nh : st.halted = false
  tn : TN st
  /-- between the steps of `connectionLost`, a side that was told about the loss has no transport -/
  lostTn : ∀ s, (st.get s).failReason ≠ none → (st.get s).transportNone = true
  /-- boxes are dispatched only to a side that has not lost its connection -/
  exLive : l ≠ [] → (st.get rs).failReason = none
  /-- the tags in flight are keys of `_outstandingRequests`, with multiplicity -/
  incl : ∀ u, (st.get u).failReason = none → ∀ t, cnt st rs l u t ≤ (ptags (st.get u).pending).count t

theorem InvT.flow {st st' : Net} {rs : Bool} {l l' : List Box} (h : InvT st rs l) (f : Flow st rs l st' l')
    (hex : l' ≠ [] → (st.get rs).failReason = none) : InvT st' rs l' := by
  refine ⟨f.halted.trans h.nh, h.tn.flow f, ?_, ?_, ?_⟩
  · intro s hs; rw [f.fr] at hs; rw [f.tn]; exact h.lostTn s hs
  · intro hl; rw [f.fr]; exact hex hl
  · intro u hu t
    rw [f.fr] at hu
    have := h.incl u hu t
    have := f.le u t
    omega

theorem cnt_nil (st : Net) (rs rs' : Bool) (u : Bool) (t : Nat) : cnt st rs [] u t = cnt st rs' [] u t := by
  simp [cnt, inflight]

theorem InvT.side {st : Net} {rs : Bool} (h : InvT st rs []) (rs' : Bool) : InvT st rs' [] :=
  ⟨h.nh, h.tn, h.lostTn, fun hl => absurd rfl hl, fun u hu t => by rw [cnt_nil st rs' rs]; exact h.incl u hu t⟩

/-- `_answerReceived`/`_errorReceived` for the reply box in hand: **`pop(tag)` finds its key** -/
theorem invT_replyReceived {st : Net} {rs : Bool} {l : List Box} {t : Nat} {k : Kind} {n : Nat}
    (h : InvT st rs (.reply t k n :: l)) : InvT (replyReceived st rs t k n) rs l := by
  have hfr : (st.get rs).failReason = none := h.exLive (by simp)
  have hin : 1 ≤ (ptags (st.get rs).pending).count t := by
    refine Nat.le_trans ?_ (h.incl rs hfr t)
    cases rs <;> simp [cnt, inflight, replyTag, List.count_append] <;> omega
  unfold replyReceived
  split
  · rename_i hpop
    have := popTag_none hpop
    omega
  · rename_i r rest hpop
    have f1 := flow_pop st rs t k n l rest (popTag_count hpop)
    have f2 := flow_fireUser (h.tn.flow f1) rs l rs r (outcomeOf k n)
    refine h.flow ?_ (fun _ => hfr)
    simp only []
    split
    · exact (f1.trans f2).trans (flow_unhandledError _ _ _ _)
    · exact f1.trans f2

theorem invT_boxReceived {st : Net} {rs : Bool} {l : List Box} {b : Box} (h : InvT st rs (b :: l)) :
    InvT (boxReceived st rs b) rs l := by
  unfold boxReceived
  simp only [h.nh, Bool.false_eq_true, if_false]
  cases b with
  | ask tag beh n => exact h.flow (flow_commandReceived st rs l tag beh n) (fun _ => h.exLive (by simp))
  | reply t k n => exact invT_replyReceived h

theorem invT_foldBox {st : Net} {rs : Bool} (l : List Box) (h : InvT st rs l) :
    InvT (l.foldl (fun st b => boxReceived st rs b) st) rs [] := by
  induction l generalizing st with
  | nil => exact h
  | cons b bs ih => exact ih (invT_boxReceived h)

theorem consume_split (l : List Box) (d n : Nat) : (consume l d n).1 ++ (consume l d n).2.1 = l := by
  induction l generalizing d n with
  | nil => simp [consume]
  | cons x xs ih =>
    unfold consume
    split
    · simp [ih]
    · simp

/-- bytes leave the pipe towards `s`: the completed boxes are in the hand of `dataReceived` -/
theorem flow_take (st : Net) (s : Bool) (r1 r2 : List Box) (d : Nat) (h : r1 ++ r2 = (st.get (!s)).out) :
    Flow st s [] (st.set (!s) { st.get (!s) with out := r2, outDone := d }) r1 := by
  refine ⟨by simp, fun u => ?_, fun u => ?_, fun u t => ?_⟩
  · cases s <;> cases u <;> simp [Net.get, Net.set]
  · cases s <;> cases u <;> simp [Net.get, Net.set]
  · cases s <;> cases u <;>
      simp [cnt, inflight, Net.get, Net.set, List.count_append] at h ⊢ <;>
      simp [← h, List.filterMap_append, List.count_append] <;> omega

/-- the boxes in hand are dropped (the receiver reads nothing any more) -/
theorem flow_dropHand (st : Net) (rs : Bool) (l : List Box) : Flow st rs l st [] := by
  refine ⟨rfl, fun u => rfl, fun u => rfl, fun u t => ?_⟩
  cases rs <;> cases u <;> simp [cnt, inflight, List.count_append] <;> omega

theorem invT_deliver {st : Net} (h : InvT st false []) (s : Bool) (n : Nat) : InvT (deliver st s n) false [] := by
  have hs := h.side s
  have f := flow_take st s _ _ (consume (st.get (!s)).out (st.get (!s)).outDone n).2.2
    (consume_split (st.get (!s)).out (st.get (!s)).outDone n)
  unfold deliver
  simp only []
  split
  · exact (hs.flow (f.trans (flow_dropHand _ _ _)) (fun hl => absurd rfl hl)).side false
  · rename_i hdeaf
    refine (invT_foldBox _ (hs.flow f (fun _ => ?_))).side false
    cases hfr : (st.get s).failReason
    · rfl
    · have := h.lostTn s (by simp [hfr])
      simp [this] at hdeaf

theorem laterTags_eraseIdx (l : List (Nat × Option Nat)) (j n : Nat) (tag : Option Nat) (h : l[j]? = some (n, tag))
    (t : Nat) : (laterTags l).count t = (laterTags (l.eraseIdx j)).count t + tag.toList.count t := by
  induction l generalizing j with
  | nil => simp at h
  | cons x xs ih =>
    cases j with
    | zero =>
      simp only [List.getElem?_cons_zero, Option.some.injEq] at h
      subst h
      cases tag <;> simp [laterTags, List.count_cons]
    | succ j =>
      simp only [List.getElem?_cons_succ] at h
      have := ih j h
      simp only [laterTags, List.eraseIdx_cons_succ, List.filterMap_cons] at this ⊢
      split <;> simp [List.count_cons, this] <;> omega

/-- the application fires a responder Deferred: its tag goes from the Deferred to the reply pipe (or nowhere) -/
theorem flow_fire (st : Net) (rs : Bool) (l : List Box) (s : Bool) (j : Nat) (k : Kind) :
    Flow st rs l (fire st s j k) l := by
  unfold fire
  split
  · exact Flow.refl _ _ _
  · rename_i n tag hj
    simp only []
    have hc := laterTags_eraseIdx _ j n tag hj
    refine flow_respond s tag k n ?_ ?_
    · refine ⟨by simp, fun u => ?_, fun u => ?_, fun u t => ?_⟩
      · cases s <;> cases u <;> simp [Net.get, Net.set, logEv]
      · cases s <;> cases u <;> simp [Net.get, Net.set, logEv]
      · have := hc t
        cases s <;> cases u <;>
          simp [cnt, inflight, logEv, Net.get, Net.set, List.count_append] at this ⊢ <;> omega
    · intro t' ht
      subst ht
      refine ⟨by simp [write], fun u => ?_, fun u => ?_, fun u t => ?_⟩
      · cases s <;> cases u <;> simp [Net.get, Net.set, logEv, write]
      · cases s <;> cases u <;> simp [Net.get, Net.set, logEv, write]
      · have := hc t
        cases s <;> cases u <;>
          simp [cnt, inflight, logEv, write, replyTag, askTag, Net.get, Net.set, List.count_append, List.filterMap_append,
            List.count_cons, List.filterMap_cons] at this ⊢ <;> omega

theorem halted_callPlain_lost {st : Net} {s : Bool} {w : Why} (h : (st.get s).failReason = some w) (beh : Beh) :
    (callPlain st s beh).halted = st.halted := by
  unfold callPlain
  simp [h]

theorem halted_foldCallPlain_lost {st : Net} {s : Bool} {w : Why} (h : (st.get s).failReason = some w) (l : List Beh) :
    (l.foldl (fun st beh => callPlain st s beh) st).halted = st.halted := by
  induction l generalizing st with
  | nil => rfl
  | cons b bs ih =>
    have h2 : ((callPlain st s b).get s).failReason = some w := by rw [(callPlain_lost h b).1]; exact h
    simp only [List.foldl_cons]
    rw [ih h2, halted_callPlain_lost h]

theorem halted_fireUser_lost {st : Net} {s : Bool} {w : Why} (h : (st.get s).failReason = some w) (r : Rec) (o : Outcome) :
    (fireUser st s r o).halted = st.halted := by
  unfold fireUser
  rw [halted_foldCallPlain_lost (w := w) (by simpa using h)]
  rfl

theorem halted_foldFail_lost {st : Net} {s : Bool} {w : Why} (h : (st.get s).failReason = some w) (todo : List (Nat × Rec)) :
    (todo.foldl (fun st p => fireUser st s p.2 (.connLost w)) st).halted = st.halted := by
  induction todo generalizing st with
  | nil => rfl
  | cons p ps ih =>
    have h2 : ((fireUser st s p.2 (.connLost w)).get s).failReason = some w := by
      rw [(fireUser_lost h p.2 _).1]; exact h
    simp only [List.foldl_cons]
    rw [ih h2, halted_fireUser_lost h]

/-- `connectionLost`: the side's own tags are no longer tracked (it reads nothing any more); the peer's are untouched -/
theorem invT_connectionLost {st : Net} (h : InvT st false []) (s : Bool) (w : Why) :
    InvT (connectionLost st s w) false [] := by
  unfold connectionLost
  split
  · exact h
  · rename_i hfr
    simp only [logEv_get]
    have h0 : (((logEv st (Ev.lost s w)).set s { st.get s with failReason := some w, pending := [] }).get s).failReason
        = some w := by simp
    obtain ⟨hget, _, _⟩ := foldFail_lost h0 (st.get s).pending
    have hhalt := halted_foldFail_lost h0 (st.get s).pending
    generalize (List.foldl (fun st p => fireUser st s p.2 (.connLost w))
      ((logEv st (.lost s w)).set s { st.get s with failReason := some w, pending := [] })
      (st.get s).pending) = st2 at hget hhalt ⊢
    have hs : (st2.get s) = { st.get s with failReason := some w, pending := [] } := by rw [hget]; simp
    have ho : (st2.get (!s)) = st.get (!s) := by rw [hget]; cases s <;> simp
    have hbool : ∀ u, u = s ∨ u = !s := by intro u; cases u <;> cases s <;> simp
    have hs' : ((st2.set s { st2.get s with transportNone := true }).get s) =
        { st.get s with failReason := some w, pending := [], transportNone := true } := by simp [hs]
    have ho' : ((st2.set s { st2.get s with transportNone := true }).get (!s)) = st.get (!s) := by
      rw [← ho]; cases s <;> simp
    refine ⟨?_, ?_, ?_, fun hl => absurd rfl hl, ?_⟩
    · rw [set_halted, hhalt]; simpa using h.nh
    · intro u hu
      rcases hbool u with rfl | rfl
      · rw [hs']; simp
      · rw [ho'] at hu ⊢; exact h.tn _ hu
    · intro u hu
      rcases hbool u with rfl | rfl
      · rw [hs']
      · rw [ho'] at hu ⊢; exact h.lostTn _ hu
    · intro u hu t
      rcases hbool u with rfl | rfl
      · rw [hs'] at hu; simp at hu
      · rw [ho'] at hu ⊢
        have := h.incl _ hu t
        simp only [cnt, inflight, Bool.not_not, ho', hs'] at this ⊢
        exact this

theorem invT_step {st : Net} (h : InvT st false []) (op : Op) : InvT (step st op) false [] := by
  unfold step
  split
  · exact h
  · have f1 := flow_logEv st false [] .sep
    have h1 := h.flow f1 (fun hl => absurd rfl hl)
    cases op with
    | call s beh wants handled follow =>
      exact h1.flow (flow_callRemote h1.tn false [] s beh wants handled follow) (fun hl => absurd rfl hl)
    | fire s j k => exact h1.flow (flow_fire _ false [] s j k) (fun hl => absurd rfl hl)
    | dlv s n => exact invT_deliver h1 s n
    | lost s w => exact invT_connectionLost h1 s w

theorem invT_init : InvT {} false [] := by
  refine ⟨rfl, ?_, ?_, fun hl => absurd rfl hl, ?_⟩
  · intro s; cases s <;> simp [Net.get]
  · intro s; cases s <;> simp [Net.get]
  · intro u _ t; cases u <;> simp [cnt, inflight, laterTags, Net.get]

theorem invT_foldStep {st : Net} (h : InvT st false []) (ops : List Op) : InvT (ops.foldl step st) false [] := by
  induction ops generalizing st with
  | nil => exact h
  | cons o os ih => exact ih (invT_step h o)

theorem invT_run (ops : List Op) : InvT (run ops) false [] := invT_foldStep invT_init ops

end TwistedProps.C31
