import TwistedProps.C44.Roundtrip
import TwistedModel.Spread.BananaConn
/-! Histories on Banana connections (C44): `_encode` with its partial output agrees with `encode`; `sendEncoded` leaves no trace
of a refused value; several expressions in one stream; the invariant of one direction of a connection under any sequence of
sends (accepted or refused) and deliveries (any sizes, empty ones included). -/
namespace TwistedProps.C44
open Twisted.Spread.Banana

/-- what `encodeP` must be, given `encode` -/
def Agrees (r : Bytes × Option Err) (x : Except Err Bytes) : Prop :=
  match x with
  | .ok bs => r = (bs, none)
  | .error er => r.2 = some er

mutual
theorem encodeP_agrees (c : Cfg) : ∀ e : Expr, Agrees (encodeP c e) (encode c e)
  | .int i => by
    simp only [encodeP, encode]
    repeat' split
    all_goals simp [Agrees]
  | .float w => by simp [encodeP, encode, Agrees]
  | .other => by simp [encodeP, encode, Agrees]
  | .bytes b => by
    simp only [encodeP, encode]
    repeat' split
    all_goals simp_all [Agrees]
  | .seq t xs => by
    have ih := encodeAllP_agrees c xs
    simp only [encodeP, encode]
    split
    · simp [Agrees]
    · revert ih
      cases encodeAll c xs with
      | error er => simp [Agrees]
      | ok body => intro ih; simp only [Agrees] at ih; simp [Agrees, ih]
theorem encodeAllP_agrees (c : Cfg) : ∀ xs : List Expr, Agrees (encodeAllP c xs) (encodeAll c xs)
  | [] => by simp [encodeAllP, encodeAll, Agrees]
  | x :: xs => by
    have h1 := encodeP_agrees c x
    have h2 := encodeAllP_agrees c xs
    simp only [encodeAllP, encodeAll]
    revert h1
    cases encode c x with
    | error er =>
      intro h1
      simp only [Agrees] at h1
      rcases hp : encodeP c x with ⟨a, o⟩
      rw [hp] at h1
      simp only at h1
      subst h1
      simp [Agrees]
    | ok a =>
      intro h1
      simp only [Agrees] at h1
      rw [h1]
      revert h2
      cases encodeAll c xs with
      | error er => intro h2; simp only [Agrees] at h2; simp [Agrees, h2]
      | ok b => intro h2; simp only [Agrees] at h2; simp [Agrees, h2]
end
/-- `sendEncoded` of a value within the limits appends exactly `encode`'s bytes to the transport -/
theorem sendEncoded_ok {c : Cfg} {e : Expr} {bs : Bytes} (h : encode c e = .ok bs) (wire : Bytes) :
    sendEncoded c wire e = (wire ++ bs, none) := by
  have := encodeP_agrees c e
  rw [h] at this
  simp only [Agrees] at this
  simp [sendEncoded, this]

/-- a refused value: the exception propagates, the transport is untouched, whatever `_encode` had written to its scratch stream -/
theorem sendEncoded_error {c : Cfg} {e : Expr} {er : Err} (h : encode c e = .error er) (wire : Bytes) :
    sendEncoded c wire e = (wire, some er) := by
  have := encodeP_agrees c e
  rw [h] at this
  simp only [Agrees] at this
  rcases hp : encodeP c e with ⟨a, o⟩
  rw [hp] at this
  simp only at this
  subst this
  simp [sendEncoded, hp]

/-- the bytes `_encode` produces for a value it accepts (`[]` for one it refuses) -/
def enc (c : Cfg) (e : Expr) : Bytes :=
  match encode c e with
  | .ok bs => bs
  | .error _ => []

/-- the stream made by the accepted values of a history, in order -/
def wireOf (c : Cfg) (log : List Expr) : Bytes := (log.map (enc c)).flatten

theorem wireOf_nil (c : Cfg) : wireOf c [] = [] := rfl
theorem wireOf_append (c : Cfg) (a b : List Expr) : wireOf c (a ++ b) = wireOf c a ++ wireOf c b := by
  simp [wireOf]
theorem wireOf_cons (c : Cfg) (e : Expr) (es : List Expr) : wireOf c (e :: es) = enc c e ++ wireOf c es := by
  simp [wireOf]

theorem encode_enc {c : Cfg} {e : Expr} (h : inLimits c.lim e = true) : encode c e = .ok (enc c e) := by
  obtain ⟨bs, hbs⟩ := (encode_spec c e).1 h
  simp [enc, hbs]

/-- **several expressions in one stream**: the loop on the encodings of `log` (all within the limits) followed by
    `tail` delivers `log.map listify` and goes on with `tail` -/
theorem batchMany (c : Cfg) (hc : 3 ≤ c.lim) (tail : Bytes) : ∀ (log : List Expr), (∀ e ∈ log, inLimits c.lim e = true) →
    loop c [] (wireOf c log ++ tail) = (loop c [] tail).prepend (log.map listify)
  | [], _ => by simp [wireOf_nil]
  | e :: es, h => by
    have he := encode_enc (h e (by simp))
    rw [wireOf_cons, List.append_assoc, batch c hc e _ [] _ he]
    simp only [delivered, applyTok_atom_nil]
    rw [batchMany c hc tail es (fun x hx => h x (by simp [hx]))]
    simp

theorem feedAll_append (c : Cfg) (cs₂ : List Bytes) : ∀ (cs₁ : List Bytes) (s : State),
    feedAll c s (cs₁ ++ cs₂) =
      match (feedAll c s cs₁).err with
      | some _ => feedAll c s cs₁
      | none => (feedAll c (feedAll c s cs₁).st cs₂).prepend (feedAll c s cs₁).outs
  | [], s => by simp [feedAll]
  | ch :: cs, s => by
    simp only [List.cons_append, feedAll]
    cases h : (feed c s ch).err with
    | some e => simp [h]
    | none =>
      simp only [feedAll_append c cs₂ cs]
      cases h2 : (feedAll c (feed c s ch).st cs).err with
      | some e => simp [h2]
      | none => simp [h2]

theorem feedAll_single (c : Cfg) (s : State) (x : Bytes) : feedAll c s [x] = feed c s x := by
  simp only [feedAll]
  cases h : (feed c s x).err with
  | some e => rfl
  | none => cases hr : feed c s x; simp_all [Result.prepend]

/-! ### one direction -/

theorem Link.send_ok {c : Cfg} {obj : Expr} (h : inLimits c.lim obj = true) (l : Link) :
    l.send c obj = ({ l with pending := l.pending ++ enc c obj, log := l.log ++ [obj] }, none) := by
  simp [Link.send, sendEncoded_ok (encode_enc h)]

theorem Link.send_refused {c : Cfg} {obj : Expr} (h : inLimits c.lim obj = false) (l : Link) :
    l.send c obj = (l, some .banana) := by
  simp [Link.send, sendEncoded_error ((encode_spec c obj).2 h)]

/-- invariant of one direction of a connection, whatever was sent, refused and delivered so far: the receiver is in the state a
    fresh decoder reaches on SOME cutting of a prefix of the stream of the accepted values; the rest of that stream is pending -/
structure LinkInv (c : Cfg) (l : Link) : Prop where
  ok : ∀ e ∈ l.log, inLimits c.lim e = true
  rep : ∃ chunks : List Bytes, feedAll c State.init chunks = { st := l.rx, outs := l.got, err := l.rerr } ∧
          chunks.flatten ++ l.pending = wireOf c l.log

theorem LinkInv.init (c : Cfg) : LinkInv c Link.init :=
  ⟨by simp [Link.init], [], by simp [feedAll, Link.init], by simp [Link.init, wireOf_nil]⟩

theorem LinkInv.send {c : Cfg} {l : Link} (h : LinkInv c l) (obj : Expr) : LinkInv c (l.send c obj).1 := by
  cases hl : inLimits c.lim obj with
  | false => rw [Link.send_refused hl]; exact h
  | true =>
    rw [Link.send_ok hl]
    obtain ⟨hok, chunks, h1, h2⟩ := h
    refine ⟨?_, chunks, h1, ?_⟩
    · intro e he
      simp only [List.mem_append, List.mem_singleton] at he
      rcases he with he | rfl
      · exact hok e he
      · exact hl
    · simp only [wireOf_append, ← h2, wireOf_cons, wireOf_nil, List.append_nil, List.append_assoc]

theorem LinkInv.deliver {c : Cfg} {l : Link} (h : LinkInv c l) (n : Nat) : LinkInv c (l.deliver c n).1 := by
  unfold Link.deliver
  cases hr : l.rerr with
  | some e => exact h
  | none =>
    obtain ⟨hok, chunks, h1, h2⟩ := h
    refine ⟨hok, chunks ++ [l.pending.take n], ?_, ?_⟩
    · rw [feedAll_append, h1, hr, feedAll_single]
      simp [Result.prepend]
    · simp only [List.flatten_append, List.flatten_cons, List.flatten_nil, List.append_nil, List.append_assoc,
        List.take_append_drop]
      exact h2

theorem LinkInv.flush {c : Cfg} {l : Link} (h : LinkInv c l) : LinkInv c (l.flush c).1 := by
  unfold Link.flush
  split
  · exact h
  · exact h.deliver _

theorem LinkInv.echoAll {c : Cfg} : ∀ (xs : List Expr) {l : Link}, LinkInv c l → LinkInv c (echoAll c l xs)
  | [], _, h => h
  | x :: xs, _, h => by
    rw [Twisted.Spread.Banana.echoAll]
    exact LinkInv.echoAll xs (h.send x)

/-- what the invariant gives (prefix limit ≥ 3): the receiver has raised nothing and has been handed a prefix of the accepted
    values (list-ified), in order; once nothing is pending it has been handed all of them and its decoder is back in its initial state -/
theorem LinkInv.sound {c : Cfg} (hc : 3 ≤ c.lim) {l : Link} (h : LinkInv c l) :
    l.rerr = none ∧ l.got <+: l.log.map listify ∧
    (l.pending = [] → l.got = l.log.map listify ∧ l.rx = State.init) := by
  obtain ⟨hok, chunks, h1, h2⟩ := h
  obtain ⟨a1, a2, a3⟩ := feedAll_eq_loop c chunks State.init (stuck_init c)
  simp only [show State.init.stack = [] from rfl, show State.init.buffer = [] from rfl, List.nil_append, h1] at a1 a2 a3
  have hall := batchMany c hc [] l.log hok
  rw [List.append_nil, loop_nil, ← h2] at hall
  have herr : (loop c [] chunks.flatten).err = none := by
    cases he : (loop c [] chunks.flatten).err with
    | none => rfl
    | some e =>
      have := (loop_append_error c l.pending _ _ [] rfl e he).1
      rw [hall] at this
      simp [R0] at this
  have happ := loop_append c l.pending _ _ [] rfl herr
  rw [hall] at happ
  have houts := congrArg Result.outs happ
  simp only [prepend_outs, R0, List.append_nil] at houts
  refine ⟨a2.trans herr, ?_, ?_⟩
  · rw [a1, houts]; exact List.prefix_append _ _
  · intro hp
    rw [hp, List.append_nil] at hall
    rw [hall] at a1 a3
    exact ⟨by simpa [R0] using a1, by simpa [R0, State.init] using a3 (by simp [R0])⟩

end TwistedProps.C44
