import TwistedModel.Spread.Banana
/-! Lemmas for C44 (Banana): base-128 digits, prefix scan, item parsing under extension of the
buffer, the `while buffer:` loop without the `self.buffer` bookkeeping (`loop`). -/
namespace TwistedProps.C44
open Twisted.Spread.Banana

/-! ### base 128 -/

/-- little-endian value of a digit string -/
def val : Bytes → Nat
  | [] => 0
  | ch :: st => ch.toNat + 128 * val st

theorem b1282intGo_eq (e i : Nat) (st : Bytes) : b1282intGo e i st = i + e * val st := by
  induction st generalizing e i with
  | nil => simp [b1282intGo, val]
  | cons ch st ih =>
    simp only [b1282intGo, val, ih]
    rw [Nat.mul_add, Nat.mul_comm ch.toNat e, Nat.add_assoc, Nat.mul_assoc]

theorem b1282int_eq_val (st : Bytes) : b1282int st = val st := by
  simp [b1282int, b1282intGo_eq]

theorem toNat_ofNat_mod128 (n : Nat) : (UInt8.ofNat (n % 128)).toNat = n % 128 := by
  simp only [UInt8.toNat_ofNat']
  omega

theorem digits_zero : digits 0 = [] := by rw [digits]; simp
theorem digits_pos {n : Nat} (h : n ≠ 0) : digits n = UInt8.ofNat (n % 128) :: digits (n / 128) := by
  rw [digits]; simp [h]

theorem val_digits (n : Nat) : val (digits n) = n := by
  induction n using Nat.strongRecOn with
  | _ n ih =>
    by_cases h : n = 0
    · subst h; simp [digits_zero, val]
    · rw [digits_pos h, val, toNat_ofNat_mod128, ih (n / 128) (by omega)]
      omega

/-- `b1282int (int2b128 n) = n` for every natural number -/
theorem b1282int_int2b128 (n : Nat) : b1282int (int2b128 n) = n := by
  rw [b1282int_eq_val, int2b128]
  split
  · next h => subst h; simp [val]
  · exact val_digits n

def low (ch : UInt8) : Bool := ch < HIGH_BIT_SET

theorem low_ofNat_mod128 (n : Nat) : low (UInt8.ofNat (n % 128)) = true := by
  simp only [low, HIGH_BIT_SET, decide_eq_true_eq, UInt8.lt_iff_toNat_lt, toNat_ofNat_mod128]
  have : (128 : UInt8).toNat = 128 := by decide
  omega

theorem digits_low (n : Nat) : ∀ d ∈ digits n, low d = true := by
  induction n using Nat.strongRecOn with
  | _ n ih =>
    by_cases h : n = 0
    · subst h; simp [digits_zero]
    · rw [digits_pos h]
      intro d hd
      rcases List.mem_cons.mp hd with rfl | hd
      · exact low_ofNat_mod128 n
      · exact ih (n / 128) (by omega) d hd

theorem int2b128_low (n : Nat) : ∀ d ∈ int2b128 n, low d = true := by
  rw [int2b128]; split
  · intro d hd; simp at hd; subst hd; decide
  · exact digits_low n

theorem digits_length (k : Nat) : ∀ n, n < 128 ^ k → (digits n).length ≤ k := by
  induction k with
  | zero => intro n h; have : n = 0 := by simpa using h
            subst this; simp [digits_zero]
  | succ k ih =>
    intro n h
    by_cases h0 : n = 0
    · subst h0; simp [digits_zero]
    · rw [digits_pos h0]
      have : n / 128 < 128 ^ k := by
        rw [Nat.pow_succ] at h
        exact Nat.div_lt_of_lt_mul (by rw [Nat.mul_comm]; exact h)
      simpa using ih _ this

theorem int2b128_length (k n : Nat) (hk : 1 ≤ k) (h : n < 128 ^ k) : (int2b128 n).length ≤ k := by
  rw [int2b128]; split
  · simpa using hk
  · exact digits_length k n h

theorem pow2_7 (lim : Nat) : (2 : Nat) ^ (lim * 7) = 128 ^ lim := by
  rw [Nat.mul_comm, Nat.pow_mul]

/-! ### the prefix scan -/

theorem scan_low_high (ds : Bytes) (tb : UInt8) (rest : Bytes) (hd : ∀ d ∈ ds, low d = true)
    (ht : low tb = false) : scan (ds ++ tb :: rest) = ds.length := by
  unfold scan
  induction ds with
  | nil => simp [show (tb < HIGH_BIT_SET) = False from by simpa [low] using ht]
  | cons d ds ih =>
    have h1 : low d = true := hd d (by simp)
    have : (d < HIGH_BIT_SET) := by simpa [low] using h1
    simp only [List.cons_append, List.takeWhile_cons, this, decide_true, if_true, List.length_cons]
    rw [ih (fun x hx => hd x (by simp [hx]))]

theorem parseItem_low_high (c : Cfg) (ds : Bytes) (tb : UInt8) (rest : Bytes)
    (hd : ∀ d ∈ ds, low d = true) (ht : low tb = false) :
    parseItem c (ds ++ tb :: rest) = parseTyped c ds tb rest := by
  unfold parseItem
  rw [scan_low_high ds tb rest hd ht]
  simp

theorem scan_cons (x : UInt8) (xs : Bytes) : scan (x :: xs) = if low x = true then scan xs + 1 else 0 := by
  unfold scan low
  by_cases h : x < HIGH_BIT_SET <;> simp [h]

theorem take_scan_low (buf : Bytes) : ∀ d ∈ buf.take (scan buf), low d = true := by
  induction buf with
  | nil => simp
  | cons x xs ih =>
    rw [scan_cons]
    by_cases h : low x = true
    · simp only [h, if_true, List.take_succ_cons]
      intro d hd
      rcases List.mem_cons.mp hd with rfl | hd
      · exact h
      · exact ih d hd
    · simp [h]

theorem drop_scan_high (buf : Bytes) (tb : UInt8) (rest : Bytes) :
    buf.drop (scan buf) = tb :: rest → low tb = false := by
  induction buf with
  | nil => simp
  | cons x xs ih =>
    rw [scan_cons]
    by_cases h : low x = true
    · simp only [h, if_true, List.drop_succ_cons]; exact ih
    · simp only [h]
      intro hh
      simp at hh
      rw [← hh.1]; simpa using h

/-- shape of a buffer in which the scan found a type byte -/
theorem drop_scan_cons {buf : Bytes} {tb : UInt8} {rest : Bytes}
    (h : buf.drop (scan buf) = tb :: rest) :
    buf = buf.take (scan buf) ++ tb :: rest ∧ (∀ d ∈ buf.take (scan buf), low d = true) ∧ low tb = false :=
  ⟨by rw [← h, List.take_append_drop], take_scan_low buf, drop_scan_high buf tb rest h⟩

theorem scan_le (buf : Bytes) : scan buf ≤ buf.length := by
  induction buf with
  | nil => simp [scan]
  | cons x xs ih => rw [scan_cons]; split <;> simp; omega

/-- shape of a buffer in which the scan found no type byte -/
theorem drop_scan_nil {buf : Bytes} (h : buf.drop (scan buf) = []) :
    scan buf = buf.length ∧ ∀ d ∈ buf, low d = true := by
  have hl : buf.length ≤ scan buf := by simpa [List.drop_eq_nil_iff] using h
  have hle : scan buf ≤ buf.length := scan_le buf
  refine ⟨by omega, ?_⟩
  have := take_scan_low buf
  rwa [List.take_of_length_le hl] at this

theorem scan_all_low (buf : Bytes) (h : ∀ d ∈ buf, low d = true) : scan buf = buf.length := by
  induction buf with
  | nil => simp [scan]
  | cons x xs ih =>
    rw [scan_cons, if_pos (h x (by simp)), ih (fun d hd => h d (by simp [hd]))]
    simp

/-! ### one item, when more bytes follow -/

theorem parseTyped_append {c : Cfg} {num : Bytes} {tb : UInt8} {rest0 : Bytes} {t : Tok} {rest : Bytes}
    (b : Bytes) (h : parseTyped c num tb rest0 = .item t rest) :
    parseTyped c num tb (rest0 ++ b) = .item t (rest ++ b) := by
  unfold parseTyped at h ⊢
  repeat' split at h
  all_goals (cases h <;>
    simp_all [LIST, STRING, INT, LONGINT, LONGNEG, NEG, VOCAB, FLOAT, List.take_append_of_le_length,
      List.drop_append_of_le_length] <;> (try (repeat' split)) <;> first | rfl | omega)

theorem parseTyped_append_error {c : Cfg} {num : Bytes} {tb : UInt8} {rest0 : Bytes} {e : Err}
    (b : Bytes) (h : parseTyped c num tb rest0 = .error e) :
    parseTyped c num tb (rest0 ++ b) = .error e := by
  unfold parseTyped at h ⊢
  repeat' split at h
  all_goals (cases h <;> simp_all [LIST, STRING, INT, LONGINT, LONGNEG, NEG, VOCAB, FLOAT])

theorem parseItem_append {c : Cfg} {a : Bytes} {t : Tok} {rest : Bytes} (b : Bytes)
    (h : parseItem c a = .item t rest) : parseItem c (a ++ b) = .item t (rest ++ b) := by
  unfold parseItem at h
  split at h
  · split at h <;> cases h
  · next tb rest0 hd =>
    obtain ⟨ha, hlow, hhigh⟩ := drop_scan_cons hd
    have : a ++ b = a.take (scan a) ++ tb :: (rest0 ++ b) := by
      conv => lhs; rw [ha]
      simp
    rw [this, parseItem_low_high c _ tb _ hlow hhigh]
    exact parseTyped_append b h

theorem parseTyped_long {c : Cfg} {num : Bytes} (tb : UInt8) (rest : Bytes) (h : num.length > c.lim) :
    parseTyped c num tb rest = .error .banana := by
  unfold parseTyped; simp [h]

theorem parseItem_append_error {c : Cfg} {a : Bytes} {e : Err} (b : Bytes)
    (h : parseItem c a = .error e) : parseItem c (a ++ b) = .error e := by
  unfold parseItem at h
  split at h
  · next hd =>
    obtain ⟨hs, hlow⟩ := drop_scan_nil hd
    split at h
    · next hlim =>
      cases h
      -- more than `lim` low bytes in `a`; whatever follows, the prefix is too long
      unfold parseItem
      have hge : a.length ≤ scan (a ++ b) := by
        have : ∀ (a b : Bytes), (∀ d ∈ a, low d = true) → a.length ≤ scan (a ++ b) := by
          intro a b hl
          induction a with
          | nil => simp
          | cons x xs ih =>
            rw [List.cons_append, scan_cons, if_pos (hl x (by simp))]
            have := ih (fun d hd => hl d (by simp [hd]))
            simp; omega
        exact this a b hlow
      split
      · rw [if_pos (by omega)]
      · apply parseTyped_long
        rw [List.length_take]
        have := scan_le (a ++ b)
        omega
    · cases h
  · next tb rest0 hd =>
    obtain ⟨ha, hlow, hhigh⟩ := drop_scan_cons hd
    have : a ++ b = a.take (scan a) ++ tb :: (rest0 ++ b) := by
      conv => lhs; rw [ha]
      simp
    rw [this, parseItem_low_high c _ tb _ hlow hhigh]
    exact parseTyped_append_error b h

end TwistedProps.C44
