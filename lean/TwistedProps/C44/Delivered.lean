import TwistedProps.C44.Roundtrip
/-! Everything the Banana decoder delivers is within the limits (C44): whatever the stream, valid or not, and however it is cut. -/
namespace TwistedProps.C44
open Twisted.Spread.Banana

/-! ### everything the decoder delivers is within the limits -/

theorem allInLimits_append (lim : Nat) : ∀ (a b : List Expr),
    allInLimits lim (a ++ b) = (allInLimits lim a && allInLimits lim b)
  | [], b => by simp [allInLimits]
  | x :: a, b => by simp [allInLimits, allInLimits_append lim a b, Bool.and_assoc]

/-- a frame of `listStack` that can only complete into a list within the limits -/
def FrameOk (lim : Nat) (f : Frame) : Prop := f.n ≤ SIZE_LIMIT ∧ allInLimits lim f.items = true
def StackOk (lim : Nat) (stk : List Frame) : Prop := ∀ f ∈ stk, FrameOk lim f
def AllOk (lim : Nat) (os : List Expr) : Prop := ∀ o ∈ os, inLimits lim o = true

theorem gotItem_ok {lim : Nat} {stk : List Frame} {v : Expr} (hs : StackOk lim stk) (hv : inLimits lim v = true) :
    StackOk lim (gotItem stk v).1 ∧ AllOk lim (gotItem stk v).2 := by
  cases stk with
  | nil => simp [gotItem, StackOk, AllOk, hv]
  | cons f fs =>
    simp only [gotItem]
    refine ⟨?_, by simp [AllOk]⟩
    intro g hg
    rcases List.mem_cons.mp hg with rfl | hg
    · have := hs f (by simp)
      exact ⟨this.1, by simp [allInLimits_append, this.2, allInLimits, hv]⟩
    · exact hs g (by simp [hg])

theorem complete_ok {lim : Nat} : ∀ (n : Nat) (stk : List Frame), stk.length = n → StackOk lim stk →
    StackOk lim (complete stk).1 ∧ AllOk lim (complete stk).2 := by
  intro n
  induction n with
  | zero =>
    intro stk hn _
    have : stk = [] := List.length_eq_zero_iff.mp hn
    subst this
    simp [complete_nil, StackOk, AllOk]
  | succ n ih =>
    intro stk hn hs
    cases stk with
    | nil => simp at hn
    | cons f fs =>
      rw [complete_cons]
      split
      · next hlen =>
        have hf := hs f (by simp)
        have hv : inLimits lim (.seq false f.items) = true := by
          simp only [inLimits, Bool.and_eq_true, decide_eq_true_eq]
          exact ⟨by rw [hlen]; exact hf.1, hf.2⟩
        have hfs : StackOk lim fs := fun g hg => hs g (by simp [hg])
        obtain ⟨g1, g2⟩ := gotItem_ok hfs hv
        have hl : (gotItem fs (.seq false f.items)).1.length = n := by
          rw [gotItem_length]; simpa using hn
        obtain ⟨c1, c2⟩ := ih _ hl g1
        refine ⟨c1, ?_⟩
        intro o ho
        rcases List.mem_append.mp ho with ho | ho
        · exact g2 o ho
        · exact c2 o ho
      · exact ⟨hs, by simp [AllOk]⟩

/-- an item the loop body may hand on -/
def TokOk (lim : Nat) : Tok → Prop
  | .openList n => n ≤ SIZE_LIMIT
  | .atom v => inLimits lim v = true

theorem applyTok_ok {lim : Nat} {stk : List Frame} {t : Tok} (hs : StackOk lim stk) (ht : TokOk lim t) :
    StackOk lim (applyTok stk t).1 ∧ AllOk lim (applyTok stk t).2 := by
  cases t with
  | openList n =>
    simp only [applyTok]
    apply complete_ok _ _ rfl
    intro g hg
    rcases List.mem_cons.mp hg with rfl | hg
    · exact ⟨ht, by simp [allInLimits]⟩
    · exact hs g hg
  | atom v =>
    simp only [applyTok]
    obtain ⟨g1, g2⟩ := gotItem_ok hs ht
    obtain ⟨c1, c2⟩ := complete_ok _ _ rfl g1
    refine ⟨c1, ?_⟩
    intro o ho
    rcases List.mem_append.mp ho with ho | ho
    · exact g2 o ho
    · exact c2 o ho

theorem val_lt (st : Bytes) (h : ∀ d ∈ st, low d = true) : val st < 128 ^ st.length := by
  induction st with
  | nil => simp [val]
  | cons d st ih =>
    have hd : d.toNat < 128 := by
      have h0 := h d (by simp)
      have h' : d < (128 : UInt8) := of_decide_eq_true h0
      simpa using UInt8.lt_iff_toNat_lt.mp h'
    have := ih (fun x hx => h x (by simp [hx]))
    simp only [val, List.length_cons, Nat.pow_succ]
    omega

theorem int_ok {lim : Nat} {num : Bytes} (hlow : ∀ d ∈ num, low d = true) (hlen : num.length ≤ lim) :
    inLimits lim (.int (b1282int num)) = true ∧ inLimits lim (.int (-(b1282int num : Int))) = true := by
  have h1 := val_lt num hlow
  have h2 : 128 ^ num.length ≤ 128 ^ lim := Nat.pow_le_pow_right (by decide) hlen
  have h3 : (b1282int num : Int) < (2 : Int) ^ (lim * 7) := by
    rw [b1282int_eq_val]
    have : val num < 2 ^ (lim * 7) := by rw [pow2_7]; omega
    exact_mod_cast this
  have h4 : (0 : Int) ≤ (b1282int num : Int) := Int.natCast_nonneg _
  generalize (b1282int num : Int) = v at h3 h4
  simp only [inLimits, smallestLongInt, largestLongInt, Bool.and_eq_true]
  refine ⟨⟨decide_eq_true ?_, decide_eq_true ?_⟩, decide_eq_true ?_, decide_eq_true ?_⟩ <;>
    (generalize (2 : Int) ^ (lim * 7) = B at h3 ⊢; omega)

theorem incoming_short {num : Nat} {word : Bytes} (h : incoming num = some word) : word.length ≤ SIZE_LIMIT := by
  unfold incoming at h
  cases hf : vocabulary.find? (fun p => p.2 == num) with
  | none => rw [hf] at h; cases h
  | some p =>
    rw [hf] at h
    have hmem := List.mem_of_find?_eq_some hf
    have key : ∀ p ∈ vocabulary, p.1.length ≤ SIZE_LIMIT := by decide
    simp at h
    rw [← h]; exact key p hmem

theorem parseTyped_ok {c : Cfg} {num : Bytes} {tb : UInt8} {rest0 : Bytes} {t : Tok} {rest : Bytes}
    (hlow : ∀ d ∈ num, low d = true) (h : parseTyped c num tb rest0 = .item t rest) : TokOk c.lim t := by
  unfold parseTyped at h
  split at h
  · cases h
  · next hlen =>
    have hlen : num.length ≤ c.lim := by omega
    obtain ⟨i1, i2⟩ := int_ok hlow hlen
    repeat' split at h
    all_goals (try cases h)
    all_goals simp only [TokOk]
    all_goals first
      | exact i1 | exact i2 | omega
      | (simp only [inLimits, decide_eq_true_eq]; exact incoming_short (by assumption))
      | (simp only [inLimits, decide_eq_true_eq, List.length_take]; omega)
      | simp [inLimits]

theorem parseItem_ok {c : Cfg} {buf : Bytes} {t : Tok} {rest : Bytes} (h : parseItem c buf = .item t rest) :
    TokOk c.lim t := by
  unfold parseItem at h
  split at h
  · split at h <;> cases h
  · exact parseTyped_ok (take_scan_low buf) h

theorem loop_ok (c : Cfg) : ∀ (n : Nat) (buf : Bytes) (stk : List Frame), buf.length = n → StackOk c.lim stk →
    StackOk c.lim (loop c stk buf).st.stack ∧ AllOk c.lim (loop c stk buf).outs := by
  intro n
  induction n using Nat.strongRecOn with
  | _ n ih =>
    intro buf stk hn hs
    by_cases hb : buf = []
    · subst hb; simpa [loop_nil, R0, AllOk] using hs
    · cases hp : parseItem c buf with
      | incomplete => simpa [loop_incomplete stk hp, R0, AllOk] using hs
      | error e => simpa [loop_error stk hp, R0, AllOk] using hs
      | item t rest =>
        rw [loop_item stk hp]
        have hlt := parseItem_rest_lt hp
        obtain ⟨a1, a2⟩ := applyTok_ok hs (parseItem_ok hp)
        obtain ⟨b1, b2⟩ := ih rest.length (by omega) rest _ rfl a1
        refine ⟨by simpa using b1, ?_⟩
        intro o ho
        simp only [prepend_outs] at ho
        rcases List.mem_append.mp ho with ho | ho
        · exact a2 o ho
        · exact b2 o ho

theorem feed_ok (c : Cfg) (s : State) (chunk : Bytes) (hs : StackOk c.lim s.stack) :
    StackOk c.lim (feed c s chunk).st.stack ∧ AllOk c.lim (feed c s chunk).outs := by
  rw [feed_eq_loop]
  split
  · exact ⟨hs, by simp [AllOk]⟩
  · exact loop_ok c _ _ _ rfl hs

theorem feedAll_ok (c : Cfg) : ∀ (chunks : List Bytes) (s : State), StackOk c.lim s.stack →
    StackOk c.lim (feedAll c s chunks).st.stack ∧ AllOk c.lim (feedAll c s chunks).outs
  | [], s, hs => ⟨hs, by simp [feedAll, AllOk]⟩
  | ch :: cs, s, hs => by
    obtain ⟨a1, a2⟩ := feed_ok c s ch hs
    simp only [feedAll]
    split
    · exact ⟨a1, a2⟩
    · obtain ⟨b1, b2⟩ := feedAll_ok c cs _ a1
      refine ⟨by simpa using b1, ?_⟩
      intro o ho
      simp only [prepend_outs] at ho
      rcases List.mem_append.mp ho with ho | ho
      · exact a2 o ho
      · exact b2 o ho

end TwistedProps.C44
