import TwistedProps.C44.Lemmas
/-! The `while buffer:` loop of `dataReceived` (C44): the `self.buffer` bookkeeping never makes
the assertion fire on a non-empty delivery, the loop commutes with extension of the buffer, and
therefore a sequence of deliveries decodes like their concatenation. -/
namespace TwistedProps.C44
open Twisted.Spread.Banana

def R0 (stk : List Frame) (buf : Bytes) (err : Option Err) : Result :=
  { st := { stack := stk, buffer := buf }, outs := [], err := err }

theorem run_unfold (c : Cfg) (stk : List Frame) (prev buf : Bytes) :
    run c stk prev buf =
      if buf = [] then R0 stk [] none
      else if prev = buf then R0 stk prev (some .assertion)
      else match parseItem c buf with
        | .incomplete => R0 stk buf none
        | .error e => R0 stk buf (some e)
        | .item t rest => (run c (applyTok stk t).1 buf rest).prepend (applyTok stk t).2 := by
  rw [run]
  split
  · rfl
  · split
    · rfl
    · split <;> simp_all [R0]

/-- the loop with the assertion out of the way -/
def loop (c : Cfg) (stk : List Frame) (buf : Bytes) : Result := run c stk (0 :: buf) buf

theorem ne_of_length_ne {a b : Bytes} (h : a.length ≠ b.length) : a ≠ b := fun e => h (e ▸ rfl)

theorem run_eq_loop (c : Cfg) (stk : List Frame) {prev buf : Bytes} (h : prev ≠ buf) :
    run c stk prev buf = loop c stk buf := by
  unfold loop
  rw [run_unfold c stk prev buf, run_unfold c stk (0 :: buf) buf]
  have h2 : (0 :: buf : Bytes) ≠ buf := ne_of_length_ne (by simp)
  simp only [h, h2, if_false]

theorem loop_unfold (c : Cfg) (stk : List Frame) (buf : Bytes) :
    loop c stk buf =
      if buf = [] then R0 stk [] none
      else match parseItem c buf with
        | .incomplete => R0 stk buf none
        | .error e => R0 stk buf (some e)
        | .item t rest => (loop c (applyTok stk t).1 rest).prepend (applyTok stk t).2 := by
  conv => lhs; unfold loop
  rw [run_unfold]
  have h2 : (0 :: buf : Bytes) ≠ buf := ne_of_length_ne (by simp)
  simp only [h2, if_false]
  split
  · rfl
  · split
    · rfl
    · rfl
    · next t rest hp =>
      have : buf ≠ rest := ne_of_length_ne (by have := parseItem_rest_lt hp; omega)
      simp only [run_eq_loop c _ this]

theorem loop_nil (c : Cfg) (stk : List Frame) : loop c stk [] = R0 stk [] none := by
  rw [loop_unfold]; simp

theorem loop_incomplete {c : Cfg} (stk : List Frame) {buf : Bytes} (h : parseItem c buf = .incomplete) :
    loop c stk buf = R0 stk buf none := by
  rw [loop_unfold]; split
  · next hb => subst hb; rfl
  · simp [h]

theorem parseItem_nil (c : Cfg) : parseItem c [] = .incomplete := by
  simp [parseItem, scan]

theorem loop_error {c : Cfg} (stk : List Frame) {buf : Bytes} {e : Err} (h : parseItem c buf = .error e) :
    loop c stk buf = R0 stk buf (some e) := by
  have hb : buf ≠ [] := by intro hb; subst hb; rw [parseItem_nil] at h; cases h
  rw [loop_unfold]; simp [hb, h]

theorem loop_item {c : Cfg} (stk : List Frame) {buf : Bytes} {t : Tok} {rest : Bytes}
    (h : parseItem c buf = .item t rest) :
    loop c stk buf = (loop c (applyTok stk t).1 rest).prepend (applyTok stk t).2 := by
  have hb : buf ≠ [] := by intro hb; subst hb; rw [parseItem_nil] at h; cases h
  rw [loop_unfold]; simp [hb, h]

/-- `dataReceived` is the loop on `self.buffer + chunk`; the assertion is dead code -/
theorem feed_eq_loop (c : Cfg) (s : State) (chunk : Bytes) :
    feed c s chunk = if chunk = [] then { st := s, outs := [], err := none }
                     else loop c s.stack (s.buffer ++ chunk) := by
  unfold feed
  split
  · rfl
  · next h =>
    apply run_eq_loop
    apply ne_of_length_ne
    have : chunk.length ≠ 0 := by simpa using h
    simp; omega

@[simp] theorem prepend_nil (r : Result) : r.prepend [] = r := by simp [Result.prepend]
@[simp] theorem prepend_prepend (a b : List Expr) (r : Result) :
    (r.prepend b).prepend a = r.prepend (a ++ b) := by simp [Result.prepend]
@[simp] theorem prepend_err (a : List Expr) (r : Result) : (r.prepend a).err = r.err := rfl
@[simp] theorem prepend_st (a : List Expr) (r : Result) : (r.prepend a).st = r.st := rfl
@[simp] theorem prepend_outs (a : List Expr) (r : Result) : (r.prepend a).outs = a ++ r.outs := rfl

/-- a state between deliveries: nothing buffered, or an item that is not all there yet -/
def Stuck (c : Cfg) (s : State) : Prop := s.buffer = [] ∨ parseItem c s.buffer = .incomplete

theorem loop_of_stuck {c : Cfg} {s : State} (h : Stuck c s) :
    loop c s.stack s.buffer = { st := s, outs := [], err := none } := by
  rcases h with h | h
  · rw [h, loop_nil]; cases s; simp_all [R0]
  · rw [loop_incomplete _ h]; cases s; simp [R0]

/-- **Extension of the buffer.**  If the loop on `a` ended without an exception, the loop on
`a ++ b` delivers the same expressions first and then continues on what was left, plus `b`. -/
theorem loop_append (c : Cfg) (b : Bytes) : ∀ (n : Nat) (a : Bytes) (stk : List Frame), a.length = n →
    (loop c stk a).err = none →
    loop c stk (a ++ b) =
      (loop c (loop c stk a).st.stack ((loop c stk a).st.buffer ++ b)).prepend (loop c stk a).outs := by
  intro n
  induction n using Nat.strongRecOn with
  | _ n ih =>
    intro a stk hn herr
    by_cases ha : a = []
    · subst ha; simp [loop_nil, R0]
    · cases hp : parseItem c a with
      | incomplete => simp [loop_incomplete stk hp, R0]
      | error e => rw [loop_error stk hp] at herr; simp [R0] at herr
      | item t rest =>
        have hlt := parseItem_rest_lt hp
        rw [loop_item stk hp] at herr ⊢
        rw [loop_item stk (parseItem_append b hp)]
        rw [ih rest.length (by omega) rest _ rfl (by simpa using herr)]
        simp

/-- an exception on `a` is the same exception, after the same expressions, on `a ++ b` -/
theorem loop_append_error (c : Cfg) (b : Bytes) : ∀ (n : Nat) (a : Bytes) (stk : List Frame), a.length = n →
    ∀ e, (loop c stk a).err = some e →
    (loop c stk (a ++ b)).err = some e ∧ (loop c stk (a ++ b)).outs = (loop c stk a).outs := by
  intro n
  induction n using Nat.strongRecOn with
  | _ n ih =>
    intro a stk hn e herr
    by_cases ha : a = []
    · subst ha; simp [loop_nil, R0] at herr
    · cases hp : parseItem c a with
      | incomplete => rw [loop_incomplete stk hp] at herr; simp [R0] at herr
      | error e' =>
        rw [loop_error stk hp] at herr ⊢
        rw [loop_error stk (parseItem_append_error b hp)]
        simpa [R0] using herr
      | item t rest =>
        have hlt := parseItem_rest_lt hp
        rw [loop_item stk hp] at herr ⊢
        rw [loop_item stk (parseItem_append b hp)]
        have := ih rest.length (by omega) rest _ rfl e (by simpa using herr)
        simp [this.1, this.2]

theorem loop_stuck (c : Cfg) : ∀ (n : Nat) (a : Bytes) (stk : List Frame), a.length = n →
    (loop c stk a).err = none → Stuck c (loop c stk a).st := by
  intro n
  induction n using Nat.strongRecOn with
  | _ n ih =>
    intro a stk hn herr
    by_cases ha : a = []
    · subst ha; simp [loop_nil, R0, Stuck]
    · cases hp : parseItem c a with
      | incomplete => rw [loop_incomplete stk hp]; right; simpa [R0] using hp
      | error e => rw [loop_error stk hp] at herr; simp [R0] at herr
      | item t rest =>
        have hlt := parseItem_rest_lt hp
        rw [loop_item stk hp] at herr ⊢
        exact ih rest.length (by omega) rest _ rfl (by simpa using herr)

/-- outputs and exception of a sequence of deliveries = those of the one-shot delivery of the
concatenation; without an exception the final states agree as well -/
theorem feedAll_eq_loop (c : Cfg) (chunks : List Bytes) : ∀ (s : State), Stuck c s →
    (feedAll c s chunks).outs = (loop c s.stack (s.buffer ++ chunks.flatten)).outs ∧
    (feedAll c s chunks).err = (loop c s.stack (s.buffer ++ chunks.flatten)).err ∧
    ((loop c s.stack (s.buffer ++ chunks.flatten)).err = none →
      (feedAll c s chunks).st = (loop c s.stack (s.buffer ++ chunks.flatten)).st) := by
  induction chunks with
  | nil => intro s hs; simp [feedAll, loop_of_stuck hs]
  | cons ch cs ih =>
    intro s hs
    rw [feedAll, feed_eq_loop]
    by_cases hch : ch = []
    · subst hch; simpa using ih s hs
    · simp only [hch, if_false, List.flatten_cons]
      rw [← List.append_assoc]
      cases herr : (loop c s.stack (s.buffer ++ ch)).err with
      | some e =>
        obtain ⟨h1, h2⟩ := loop_append_error c cs.flatten _ _ s.stack rfl e herr
        rw [List.append_assoc] at h1 h2
        simp [h1, h2, herr]
      | none =>
        have hst := loop_stuck c _ _ s.stack rfl herr
        rw [loop_append c cs.flatten _ _ s.stack rfl herr]
        obtain ⟨i1, i2, i3⟩ := ih _ hst
        simp [i1, i2]
        exact i3

theorem stuck_init (c : Cfg) : Stuck c State.init := Or.inl rfl

end TwistedProps.C44
