import TwistedProps.C44.Loop
/-! Batch round trip for C44: the loop run on `encode e ++ tail` consumes exactly `encode e`,
hands `listify e` to `gotItem`, and continues on `tail` — for every expression `encode` accepts. -/
namespace TwistedProps.C44
open Twisted.Spread.Banana

theorem toNat_ofNat_mod256 (n : Nat) : (UInt8.ofNat (n % 256)).toNat = n % 256 := by
  simp only [UInt8.toNat_ofNat']
  omega

theorem unbe64_be64 (w : UInt64) : unbe64 (be64 w) = w := by
  have hlt : w.toNat < 2 ^ 64 := w.toNat_lt
  unfold unbe64 be64
  simp only [List.foldl, toNat_ofNat_mod256]
  have : (((((((0 * 256 + w.toNat / 2 ^ 56 % 256) * 256 + w.toNat / 2 ^ 48 % 256) * 256 + w.toNat / 2 ^ 40 % 256) * 256 +
      w.toNat / 2 ^ 32 % 256) * 256 + w.toNat / 2 ^ 24 % 256) * 256 + w.toNat / 2 ^ 16 % 256) * 256 +
      w.toNat / 2 ^ 8 % 256) * 256 + w.toNat % 256 = w.toNat := by omega
  rw [this]
  exact UInt64.ofNat_toNat

theorem be64_length (w : UInt64) : (be64 w).length = 8 := rfl

theorem outgoing_incoming {word : Bytes} {id : Nat} (h : outgoing word = some id) :
    incoming id = some word ∧ id < 128 := by
  unfold outgoing at h
  cases hf : vocabulary.find? (fun p => p.1 == word) with
  | none => rw [hf] at h; cases h
  | some p =>
    rw [hf] at h
    have hmem := List.mem_of_find?_eq_some hf
    have hw := List.find?_some hf
    have key : ∀ p ∈ vocabulary, incoming p.2 = some p.1 ∧ p.2 < 128 := by decide
    have := key p hmem
    simp at h hw
    rw [← h, ← hw]; exact this


theorem take8_be64 (w : UInt64) (tail : Bytes) : (be64 w ++ tail).take 8 = be64 w := by
  simp [be64]
theorem drop8_be64 (w : UInt64) (tail : Bytes) : (be64 w ++ tail).drop 8 = tail := by
  simp [be64]

/-! ### the stack -/

theorem complete_cons (f : Frame) (fs : List Frame) :
    complete (f :: fs) =
      if f.items.length = f.n then
        ((complete (gotItem fs (.seq false f.items)).1).1,
          (gotItem fs (.seq false f.items)).2 ++ (complete (gotItem fs (.seq false f.items)).1).2)
      else (f :: fs, []) := by
  rw [complete]

theorem complete_nil : complete [] = ([], []) := by rw [complete]

theorem applyTok_atom_nil (v : Expr) : applyTok [] (.atom v) = ([], [v]) := by
  simp [applyTok, gotItem, complete_nil]

theorem applyTok_atom_cons (f : Frame) (fs : List Frame) (v : Expr) :
    applyTok (f :: fs) (.atom v) =
      if (f.items ++ [v]).length = f.n then applyTok fs (.atom (.seq false (f.items ++ [v])))
      else ({ f with items := f.items ++ [v] } :: fs, []) := by
  simp only [applyTok, gotItem, complete_cons, List.nil_append]

theorem applyTok_open (stk : List Frame) (n : Nat) :
    applyTok stk (.openList n) =
      if n = 0 then applyTok stk (.atom (.seq false [])) else ({ n := n, items := [] } :: stk, []) := by
  simp only [applyTok, complete_cons, List.length_nil]
  by_cases h : n = 0
  · subst h; simp
  · simp [h, Ne.symm h]

/-! ### the type-byte chain on well-formed input -/

theorem tb_high : low LIST = false ∧ low INT = false ∧ low STRING = false ∧ low NEG = false ∧
    low FLOAT = false ∧ low LONGINT = false ∧ low LONGNEG = false ∧ low VOCAB = false := by decide

theorem parseTyped_LIST {c : Cfg} {num rest : Bytes} (h1 : num.length ≤ c.lim) (h2 : b1282int num ≤ SIZE_LIMIT) :
    parseTyped c num LIST rest = .item (.openList (b1282int num)) rest := by
  simp [parseTyped, Nat.not_lt.mpr h1, Nat.not_lt.mpr h2]

theorem parseTyped_STRING {c : Cfg} {num rest : Bytes} (h1 : num.length ≤ c.lim) (h2 : b1282int num ≤ SIZE_LIMIT)
    (h3 : b1282int num ≤ rest.length) :
    parseTyped c num STRING rest =
      .item (.atom (.bytes (rest.take (b1282int num)))) (rest.drop (b1282int num)) := by
  simp [parseTyped, Nat.not_lt.mpr h1, Nat.not_lt.mpr h2, h3, LIST, STRING]

theorem parseTyped_INT {c : Cfg} {num rest : Bytes} (h1 : num.length ≤ c.lim) :
    parseTyped c num INT rest = .item (.atom (.int (b1282int num))) rest := by
  simp [parseTyped, Nat.not_lt.mpr h1, LIST, STRING, INT]

theorem parseTyped_LONGINT {c : Cfg} {num rest : Bytes} (h1 : num.length ≤ c.lim) :
    parseTyped c num LONGINT rest = .item (.atom (.int (b1282int num))) rest := by
  simp [parseTyped, Nat.not_lt.mpr h1, LIST, STRING, INT, LONGINT]

theorem parseTyped_LONGNEG {c : Cfg} {num rest : Bytes} (h1 : num.length ≤ c.lim) :
    parseTyped c num LONGNEG rest = .item (.atom (.int (-(b1282int num : Int)))) rest := by
  simp [parseTyped, Nat.not_lt.mpr h1, LIST, STRING, INT, LONGINT, LONGNEG]

theorem parseTyped_NEG {c : Cfg} {num rest : Bytes} (h1 : num.length ≤ c.lim) :
    parseTyped c num NEG rest = .item (.atom (.int (-(b1282int num : Int)))) rest := by
  simp [parseTyped, Nat.not_lt.mpr h1, LIST, STRING, INT, LONGINT, LONGNEG, NEG]

theorem parseTyped_VOCAB {c : Cfg} {num rest : Bytes} {word : Bytes} (h1 : num.length ≤ c.lim)
    (h2 : incoming (b1282int num) = some word) (h3 : c.pb = true) :
    parseTyped c num VOCAB rest = .item (.atom (.bytes word)) rest := by
  simp [parseTyped, Nat.not_lt.mpr h1, LIST, STRING, INT, LONGINT, LONGNEG, NEG, VOCAB, h2, h3]

theorem parseTyped_FLOAT {c : Cfg} {num rest : Bytes} (h1 : num.length ≤ c.lim) (h2 : 8 ≤ rest.length) :
    parseTyped c num FLOAT rest = .item (.atom (.float (unbe64 (rest.take 8)))) (rest.drop 8) := by
  simp [parseTyped, Nat.not_lt.mpr h1, LIST, STRING, INT, LONGINT, LONGNEG, NEG, VOCAB, FLOAT, h2]

/-! ### encoded atoms are parsed back -/

theorem longInt_bounds (lim : Nat) :
    largestLongInt lim = ((128 ^ lim : Nat) : Int) - 1 ∧ smallestLongInt lim = -((128 ^ lim : Nat) : Int) + 1 := by
  unfold largestLongInt smallestLongInt
  rw [← pow2_7]
  constructor <;> simp [Int.natCast_pow]

theorem parse_int {c : Cfg} (hc : 1 ≤ c.lim) {obj : Int} {bs : Bytes} (tail : Bytes)
    (h : encode c (.int obj) = .ok bs) : parseItem c (bs ++ tail) = .item (.atom (.int obj)) tail := by
  simp only [encode] at h
  obtain ⟨hL, hS⟩ := longInt_bounds c.lim
  have hsI : smallestInt = -2147483648 := by decide
  have hlI : largestInt = 2147483647 := by decide
  split at h
  · cases h
  · next hr =>
    rw [hL, hS] at hr
    have hlen : ∀ m : Nat, (m : Int) ≤ ((128 ^ c.lim : Nat) : Int) - 1 → (int2b128 m).length ≤ c.lim :=
      fun m hm => int2b128_length c.lim m hc (by omega)
    split at h
    · injection h with h; subst h
      rw [List.append_assoc, List.singleton_append,
        parseItem_low_high c _ _ _ (int2b128_low _) tb_high.2.2.2.2.2.2.1,
        parseTyped_LONGNEG (hlen _ (by omega)), b1282int_int2b128]
      congr 3; omega
    · split at h
      · injection h with h; subst h
        rw [List.append_assoc, List.singleton_append,
          parseItem_low_high c _ _ _ (int2b128_low _) tb_high.2.2.2.1,
          parseTyped_NEG (hlen _ (by omega)), b1282int_int2b128]
        congr 3; omega
      · split at h
        · injection h with h; subst h
          rw [List.append_assoc, List.singleton_append,
            parseItem_low_high c _ _ _ (int2b128_low _) tb_high.2.1,
            parseTyped_INT (hlen _ (by omega)), b1282int_int2b128]
          congr 3; omega
        · injection h with h; subst h
          rw [List.append_assoc, List.singleton_append,
            parseItem_low_high c _ _ _ (int2b128_low _) tb_high.2.2.2.2.2.1,
            parseTyped_LONGINT (hlen _ (by omega)), b1282int_int2b128]
          congr 3; omega

theorem parse_float {c : Cfg} {w : UInt64} {bs : Bytes} (tail : Bytes)
    (h : encode c (.float w) = .ok bs) : parseItem c (bs ++ tail) = .item (.atom (.float w)) tail := by
  simp only [encode] at h
  injection h with h; subst h
  have := parseItem_low_high c [] FLOAT (be64 w ++ tail) (by simp) tb_high.2.2.2.2.1
  simp only [List.nil_append] at this
  rw [List.cons_append, this, parseTyped_FLOAT (by simp) (by simp [be64_length]), take8_be64, drop8_be64,
    unbe64_be64]

theorem size_limit_lt : SIZE_LIMIT < 128 ^ 3 := by decide

theorem len_digits_ok {c : Cfg} (hc : 3 ≤ c.lim) {n : Nat} (h : n ≤ SIZE_LIMIT) : (int2b128 n).length ≤ c.lim := by
  have := int2b128_length 3 n (by omega) (by have := size_limit_lt; omega)
  omega

theorem parse_bytes {c : Cfg} (hc : 3 ≤ c.lim) {obj : Bytes} {bs : Bytes} (tail : Bytes)
    (h : encode c (.bytes obj) = .ok bs) : parseItem c (bs ++ tail) = .item (.atom (.bytes obj)) tail := by
  simp only [encode] at h
  split at h
  · next id hid =>
    injection h with h; subst h
    have hpb : c.pb = true := by
      cases hp : c.pb with
      | true => rfl
      | false => simp [hp] at hid
    simp only [hpb, if_true] at hid
    obtain ⟨hin, hlt⟩ := outgoing_incoming hid
    rw [List.append_assoc, List.singleton_append,
      parseItem_low_high c _ _ _ (int2b128_low _) tb_high.2.2.2.2.2.2.2,
      parseTyped_VOCAB (int2b128_length c.lim id (by omega) (by
        calc id < 128 ^ 1 := by simpa using hlt
          _ ≤ 128 ^ c.lim := Nat.pow_le_pow_right (by decide) (by omega))) (by rw [b1282int_int2b128]; exact hin) hpb]
  · split at h
    · cases h
    · next hlen =>
      injection h with h; subst h
      have hlen : obj.length ≤ SIZE_LIMIT := by omega
      rw [List.append_assoc, List.cons_append,
        parseItem_low_high c _ _ _ (int2b128_low _) tb_high.2.2.1,
        parseTyped_STRING (len_digits_ok hc hlen) (by rw [b1282int_int2b128]; exact hlen)
          (by rw [b1282int_int2b128]; simp), b1282int_int2b128]
      simp


/-! ### the batch round trip -/

theorem parse_header {c : Cfg} (hc : 3 ≤ c.lim) {n : Nat} (hn : n ≤ SIZE_LIMIT) (rest : Bytes) :
    parseItem c (int2b128 n ++ LIST :: rest) = .item (.openList n) rest := by
  rw [parseItem_low_high c _ _ _ (int2b128_low _) tb_high.1,
    parseTyped_LIST (len_digits_ok hc hn) (by rw [b1282int_int2b128]; exact hn), b1282int_int2b128]

theorem listify_seq (t : Bool) (xs : List Expr) :
    listify (.seq t xs) = .seq false (listify.listifyAll xs) := by simp [listify]
theorem listifyAll_cons (x : Expr) (xs : List Expr) :
    listify.listifyAll (x :: xs) = listify x :: listify.listifyAll xs := by simp [listify.listifyAll]
theorem listifyAll_nil : listify.listifyAll [] = [] := by simp [listify.listifyAll]
theorem listifyAll_length (xs : List Expr) : (listify.listifyAll xs).length = xs.length := by
  induction xs with
  | nil => simp [listifyAll_nil]
  | cons x xs ih => simp [listifyAll_cons, ih]

/-- what `gotItem(v)` + the completion loop do, then the loop goes on with `tail` -/
def delivered (c : Cfg) (stk : List Frame) (v : Expr) (tail : Bytes) : Result :=
  (loop c (applyTok stk (.atom v)).1 tail).prepend (applyTok stk (.atom v)).2

mutual
theorem batch (c : Cfg) (hc : 3 ≤ c.lim) : ∀ (e : Expr) (bs : Bytes) (stk : List Frame) (tail : Bytes),
    encode c e = .ok bs → loop c stk (bs ++ tail) = delivered c stk (listify e) tail
  | .int obj, bs, stk, tail, h => by
    rw [loop_item stk (parse_int (by omega) tail h)]; simp [delivered, listify]
  | .float w, bs, stk, tail, h => by
    rw [loop_item stk (parse_float tail h)]; simp [delivered, listify]
  | .bytes obj, bs, stk, tail, h => by
    rw [loop_item stk (parse_bytes hc tail h)]; simp [delivered, listify]
  | .other, bs, stk, tail, h => by simp [encode] at h
  | .seq t xs, bs, stk, tail, h => by
    simp only [encode] at h
    split at h
    · cases h
    · next hlen =>
      have hlen : xs.length ≤ SIZE_LIMIT := by omega
      split at h
      · cases h
      · next body hbody =>
        injection h with h; subst h
        rw [List.append_assoc, List.cons_append, loop_item stk (parse_header hc hlen _), applyTok_open, listify_seq]
        cases xs with
        | nil =>
          simp only [encodeAll] at hbody
          injection hbody with hbody; subst hbody
          simp [delivered, listifyAll_nil]
        | cons x xs' =>
          simp only [List.length_cons, Nat.succ_ne_zero, if_false, prepend_nil]
          have := batchAll c hc (x :: xs') body { n := xs'.length + 1, items := [] } stk tail hbody (by simp)
            (by simp)
          simpa [delivered] using this
theorem batchAll (c : Cfg) (hc : 3 ≤ c.lim) : ∀ (xs : List Expr) (body : Bytes) (f : Frame) (stk : List Frame)
    (tail : Bytes), encodeAll c xs = .ok body → xs ≠ [] → f.items.length + xs.length = f.n →
    loop c (f :: stk) (body ++ tail) = delivered c stk (.seq false (f.items ++ listify.listifyAll xs)) tail
  | [], _, _, _, _, _, hne, _ => absurd rfl hne
  | x :: xs, body, f, stk, tail, h, _, hn => by
    simp only [encodeAll] at h
    split at h
    · cases h
    · next a ha =>
      split at h
      · cases h
      · next b hb =>
        injection h with h; subst h
        rw [List.append_assoc, batch c hc x a (f :: stk) (b ++ tail) ha]
        unfold delivered
        rw [applyTok_atom_cons]
        cases xs with
        | nil =>
          simp only [encodeAll] at hb
          injection hb with hb; subst hb
          have : (f.items ++ [listify x]).length = f.n := by simp at hn ⊢; omega
          simp [this, listifyAll_cons, listifyAll_nil]
        | cons y ys =>
          have : (f.items ++ [listify x]).length ≠ f.n := by simp at hn ⊢; omega
          simp only [this, if_false, prepend_nil]
          have := batchAll c hc (y :: ys) b { f with items := f.items ++ [listify x] } stk tail hb (by simp)
            (by simp at hn ⊢; omega)
          rw [this]
          simp [listifyAll_cons, delivered]
end


/-! ### which values `_encode` accepts -/

mutual
/-- the property's precondition: integers in the supported range, byte strings and lists within
    `SIZE_LIMIT`, only the supported types (decidable) -/
def inLimits (lim : Nat) : Expr → Bool
  | .int i => decide (smallestLongInt lim ≤ i) && decide (i ≤ largestLongInt lim)
  | .float _ => true
  | .bytes b => decide (b.length ≤ SIZE_LIMIT)
  | .seq _ xs => decide (xs.length ≤ SIZE_LIMIT) && allInLimits lim xs
  | .other => false
def allInLimits (lim : Nat) : List Expr → Bool
  | [] => true
  | x :: xs => inLimits lim x && allInLimits lim xs
end

theorem vocab_short {word : Bytes} {id : Nat} (h : outgoing word = some id) : word.length ≤ SIZE_LIMIT := by
  unfold outgoing at h
  cases hf : vocabulary.find? (fun p => p.1 == word) with
  | none => rw [hf] at h; cases h
  | some p =>
    have hmem := List.mem_of_find?_eq_some hf
    have hw := List.find?_some hf
    have key : ∀ p ∈ vocabulary, p.1.length ≤ SIZE_LIMIT := by decide
    have := key p hmem
    simp at hw
    rw [← hw]; exact this

mutual
theorem encode_spec (c : Cfg) : ∀ e : Expr,
    (inLimits c.lim e = true → ∃ bs, encode c e = .ok bs) ∧
    (inLimits c.lim e = false → encode c e = .error .banana)
  | .int i => by
    simp only [inLimits, encode]
    constructor
    · intro h
      simp only [Bool.and_eq_true, decide_eq_true_eq] at h
      rw [if_neg (by omega)]
      repeat' split
      all_goals exact ⟨_, rfl⟩
    · intro h
      rw [if_pos]
      rw [Bool.and_eq_false_iff] at h
      simp only [decide_eq_false_iff_not] at h
      omega
  | .float w => by simp [inLimits, encode]
  | .other => by simp [inLimits, encode]
  | .bytes b => by
    simp only [inLimits, encode]
    constructor
    · intro h
      simp only [decide_eq_true_eq] at h
      split
      · exact ⟨_, rfl⟩
      · rw [if_neg (by omega)]; exact ⟨_, rfl⟩
    · intro h
      simp only [decide_eq_false_iff_not] at h
      split
      · next id hid =>
        exfalso
        cases hp : c.pb with
        | true => simp only [hp, if_true] at hid; exact h (vocab_short hid)
        | false => simp [hp] at hid
      · rw [if_pos (by omega)]
  | .seq t xs => by
    simp only [inLimits, encode]
    obtain ⟨h1, h2⟩ := encodeAll_spec c xs
    constructor
    · intro h
      simp only [Bool.and_eq_true, decide_eq_true_eq] at h
      rw [if_neg (by omega)]
      obtain ⟨body, hb⟩ := h1 h.2
      rw [hb]; exact ⟨_, rfl⟩
    · intro h
      by_cases hl : xs.length > SIZE_LIMIT
      · rw [if_pos hl]
      · rw [if_neg hl]
        have : allInLimits c.lim xs = false := by
          cases ha : allInLimits c.lim xs with
          | false => rfl
          | true => simp [ha] at h; omega
        rw [h2 this]
theorem encodeAll_spec (c : Cfg) : ∀ xs : List Expr,
    (allInLimits c.lim xs = true → ∃ bs, encodeAll c xs = .ok bs) ∧
    (allInLimits c.lim xs = false → encodeAll c xs = .error .banana)
  | [] => by simp [allInLimits, encodeAll]
  | x :: xs => by
    simp only [allInLimits, encodeAll]
    obtain ⟨h1, h2⟩ := encode_spec c x
    obtain ⟨g1, g2⟩ := encodeAll_spec c xs
    constructor
    · intro h
      simp only [Bool.and_eq_true] at h
      obtain ⟨a, ha⟩ := h1 h.1
      obtain ⟨b, hb⟩ := g1 h.2
      rw [ha, hb]; exact ⟨_, rfl⟩
    · intro h
      cases hx : inLimits c.lim x with
      | false => rw [h2 hx]
      | true =>
        obtain ⟨a, ha⟩ := h1 hx
        rw [ha]
        have : allInLimits c.lim xs = false := by simpa [hx] using h
        rw [g2 this]
end


end TwistedProps.C44
