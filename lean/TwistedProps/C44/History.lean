import TwistedProps.C44.Session
import TwistedProps.C44.Delivered
/-! Histories on two connected Bananas (C44): which values each side's `sendEncoded` accepted (`log`), the invariant of both
directions under every operation, the end-of-history flush. -/
namespace TwistedProps.C44
open Twisted.Spread.Banana

/-! ### logs -/

/-- the values within the limits, in order -/
def accepted (c : Cfg) (es : List Expr) : List Expr := es.filter (inLimits c.lim)

/-- what `side` was asked to send in a history -/
def sendsOf (side : Bool) : List Op → List Expr
  | [] => []
  | .send s obj :: ops => if s = side then obj :: sendsOf side ops else sendsOf side ops
  | .deliver _ _ :: ops => sendsOf side ops

theorem Link.send_log (c : Cfg) (l : Link) (obj : Expr) : (l.send c obj).1.log = l.log ++ accepted c [obj] := by
  cases h : inLimits c.lim obj with
  | false => simp [Link.send_refused h, accepted, h]
  | true => simp [Link.send_ok h, accepted, h]

theorem Link.deliver_log (c : Cfg) (l : Link) (n : Nat) : (l.deliver c n).1.log = l.log := by
  unfold Link.deliver; split <;> rfl

theorem Link.flush_log (c : Cfg) (l : Link) : (l.flush c).1.log = l.log := by
  unfold Link.flush; split
  · rfl
  · exact Link.deliver_log c l _

theorem Link.flush_pending (c : Cfg) {l : Link} (h : l.rerr = none) : (l.flush c).1.pending = [] := by
  unfold Link.flush
  split
  · assumption
  · simp [Link.deliver, h]

theorem accepted_append (c : Cfg) (a b : List Expr) : accepted c (a ++ b) = accepted c a ++ accepted c b := by
  simp [accepted]

/-! ### two connected Bananas -/

structure PairInv (c : Cfg) (p : Pair) : Prop where
  ab : LinkInv c p.ab
  ba : LinkInv c p.ba

theorem PairInv.init (c : Cfg) : PairInv c Pair.init := ⟨LinkInv.init c, LinkInv.init c⟩

theorem PairInv.step {c : Cfg} {p : Pair} (h : PairInv c p) (echo : Bool) (op : Op) : PairInv c (p.step c echo op).1 := by
  obtain ⟨hab, hba⟩ := h
  cases op with
  | send side obj =>
    cases side
    · exact ⟨hab.send obj, hba⟩
    · exact ⟨hab, hba.send obj⟩
  | deliver side n =>
    cases side
    · refine ⟨hab.deliver n, ?_⟩
      simp only [Pair.step]
      split
      · exact LinkInv.echoAll _ hba
      · exact hba
    · exact ⟨hab, hba.deliver n⟩

theorem PairInv.run {c : Cfg} (echo : Bool) : ∀ (ops : List Op) {p : Pair}, PairInv c p → PairInv c (Pair.run c echo p ops).1
  | [], _, h => h
  | op :: ops, _, h => by
    simp only [Pair.run]
    exact PairInv.run echo ops (h.step echo op)

theorem PairInv.flush {c : Cfg} {p : Pair} (h : PairInv c p) (echo : Bool) : PairInv c (p.flush c echo) := by
  obtain ⟨hab, hba⟩ := h
  refine ⟨hab.flush, ?_⟩
  simp only [Pair.flush]
  split
  · exact (LinkInv.echoAll _ hba).flush
  · exact hba.flush

theorem step_log_ab (c : Cfg) (echo : Bool) (p : Pair) (op : Op) :
    (p.step c echo op).1.ab.log = p.ab.log ++ accepted c (sendsOf false [op]) := by
  cases op with
  | send side obj => cases side <;> simp [Pair.step, sendsOf, Link.send_log, accepted]
  | deliver side n => cases side <;> simp [Pair.step, sendsOf, Link.deliver_log, accepted]

theorem step_log_ba (c : Cfg) (p : Pair) (op : Op) :
    (p.step c false op).1.ba.log = p.ba.log ++ accepted c (sendsOf true [op]) := by
  cases op with
  | send side obj => cases side <;> simp [Pair.step, sendsOf, Link.send_log, accepted]
  | deliver side n => cases side <;> simp [Pair.step, sendsOf, Link.deliver_log, accepted]

theorem sendsOf_cons (side : Bool) (op : Op) (ops : List Op) : sendsOf side (op :: ops) = sendsOf side [op] ++ sendsOf side ops := by
  cases op with
  | send s obj => by_cases h : s = side <;> simp [sendsOf, h]
  | deliver s n => simp [sendsOf]

theorem run_log_ab (c : Cfg) (echo : Bool) : ∀ (ops : List Op) (p : Pair),
    (Pair.run c echo p ops).1.ab.log = p.ab.log ++ accepted c (sendsOf false ops)
  | [], p => by simp [Pair.run, sendsOf, accepted]
  | op :: ops, p => by
    simp only [Pair.run]
    rw [run_log_ab c echo ops, step_log_ab, sendsOf_cons false op ops, accepted_append, List.append_assoc]

theorem run_log_ba (c : Cfg) : ∀ (ops : List Op) (p : Pair),
    (Pair.run c false p ops).1.ba.log = p.ba.log ++ accepted c (sendsOf true ops)
  | [], p => by simp [Pair.run, sendsOf, accepted]
  | op :: ops, p => by
    simp only [Pair.run]
    rw [run_log_ba c ops, step_log_ba, sendsOf_cons true op ops, accepted_append, List.append_assoc]

theorem flush_log_ab (c : Cfg) (echo : Bool) (p : Pair) : (p.flush c echo).ab.log = p.ab.log := by
  simp [Pair.flush, Link.flush_log]

theorem flush_log_ba (c : Cfg) (p : Pair) : (p.flush c false).ba.log = p.ba.log := by
  simp [Pair.flush, Link.flush_log]

theorem flush_pending (c : Cfg) (hc : 3 ≤ c.lim) (echo : Bool) {p : Pair} (h : PairInv c p) :
    (p.flush c echo).ab.pending = [] ∧ (p.flush c echo).ba.pending = [] := by
  obtain ⟨hab, hba⟩ := h
  constructor
  · exact Link.flush_pending c (hab.sound hc).1
  · simp only [Pair.flush]
    split
    · exact Link.flush_pending c ((LinkInv.echoAll _ hba).sound hc).1
    · exact Link.flush_pending c (hba.sound hc).1

/-! ### the echoing Banana: what it sends is an interleaving of its own values and of what it received -/

/-- `z` is an interleaving of `x` and `y` (each keeping its order), built block by block -/
inductive Merge : List Expr → List Expr → List Expr → Prop
  | nil : Merge [] [] []
  | left {x y z : List Expr} (a : List Expr) : Merge x y z → Merge (x ++ a) y (z ++ a)
  | right {x y z : List Expr} (b : List Expr) : Merge x y z → Merge x (y ++ b) (z ++ b)

theorem LinkInv.stackOk {c : Cfg} {l : Link} (h : LinkInv c l) : StackOk c.lim l.rx.stack := by
  obtain ⟨_, chunks, h1, _⟩ := h
  have := (feedAll_ok c chunks State.init (by simp [StackOk, State.init])).1
  rw [h1] at this
  exact this

theorem echoAll_log {c : Cfg} : ∀ (xs : List Expr) (l : Link), AllOk c.lim xs → (echoAll c l xs).log = l.log ++ xs
  | [], l, _ => by simp [echoAll]
  | x :: xs, l, h => by
    rw [echoAll, Link.send_ok (h x (by simp))]
    rw [echoAll_log xs _ (fun o ho => h o (by simp [ho]))]
    simp

theorem deliver_outs_ok {c : Cfg} {l : Link} (h : LinkInv c l) (n : Nat) :
    AllOk c.lim (l.deliver c n).2 ∧ (l.deliver c n).1.got = l.got ++ (l.deliver c n).2 := by
  unfold Link.deliver
  split
  · simp [AllOk]
  · exact ⟨(feed_ok c l.rx _ h.stackOk).2, rfl⟩

theorem flush_outs_ok {c : Cfg} {l : Link} (h : LinkInv c l) :
    AllOk c.lim (l.flush c).2 ∧ (l.flush c).1.got = l.got ++ (l.flush c).2 := by
  unfold Link.flush
  split
  · simp [AllOk]
  · exact deliver_outs_ok h _

theorem Link.send_got (c : Cfg) (l : Link) (obj : Expr) : (l.send c obj).1.got = l.got := by
  cases h : inLimits c.lim obj with
  | false => simp [Link.send_refused h]
  | true => simp [Link.send_ok h]

theorem step_merge {c : Cfg} {p : Pair} (hp : PairInv c p) {x : List Expr} (hm : Merge x p.ab.got p.ba.log) (op : Op) :
    Merge (x ++ accepted c (sendsOf true [op])) (p.step c true op).1.ab.got (p.step c true op).1.ba.log := by
  cases op with
  | send side obj =>
    cases side
    · simpa [Pair.step, sendsOf, accepted, Link.send_got] using hm
    · have := Merge.left (accepted c [obj]) hm
      simpa [Pair.step, sendsOf, Link.send_log] using this
  | deliver side n =>
    cases side
    · obtain ⟨d1, d2⟩ := deliver_outs_ok hp.ab n
      have := Merge.right (p.ab.deliver c n).2 hm
      simpa [Pair.step, sendsOf, accepted, d2, echoAll_log _ _ d1] using this
    · simpa [Pair.step, sendsOf, accepted, Link.deliver_log] using hm

theorem run_merge {c : Cfg} : ∀ (ops : List Op) {p : Pair}, PairInv c p → ∀ {x : List Expr}, Merge x p.ab.got p.ba.log →
    Merge (x ++ accepted c (sendsOf true ops)) (Pair.run c true p ops).1.ab.got (Pair.run c true p ops).1.ba.log
  | [], _, _, _, hm => by simpa [Pair.run, sendsOf, accepted] using hm
  | op :: ops, _, hp, _, hm => by
    simp only [Pair.run]
    have := run_merge ops (hp.step true op) (step_merge hp hm op)
    rw [sendsOf_cons true op ops, accepted_append, ← List.append_assoc]
    exact this

theorem flush_merge {c : Cfg} {p : Pair} (hp : PairInv c p) {x : List Expr} (hm : Merge x p.ab.got p.ba.log) :
    Merge x (p.flush c true).ab.got (p.flush c true).ba.log := by
  obtain ⟨d1, d2⟩ := flush_outs_ok hp.ab
  have := Merge.right (p.ab.flush c).2 hm
  simpa [Pair.flush, Link.flush_log, d2, echoAll_log _ _ d1] using this

end TwistedProps.C44
