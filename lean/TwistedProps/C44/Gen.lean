import TwistedModel.Spread.Banana
import Generated.Banana
/-!
C44 — `spread/banana.py` `int2b128` and `b1282int`, regenerated from the Python source by `harness/py2lean.py`
on every run (`lean/Generated/Banana.lean`) and proved equal to the hand model's functions of
`TwistedModel/Spread/Banana.lean`.

The translator renders `int2b128(integer, stream)` as the bytes handed to `stream`, in order (`Except PyErr`:
the `assert integer > 0`); after the assert the integer is a natural number and the `while integer:` loop
(`stream(bytes((integer & 0x7F,)))`, `integer = integer >> 7`) is the recursive `int2b128Loop`, terminating by
`integer`.  The model writes the same loop with `% 128` and `/ 128` (`digits`): `&&& 127 = % 128` and
`>>> 7 = / 128` are proved here, not assumed.  `b1282int` is the fold of the generated loop body over the bytes
(`i += ord(char) * e; e <<= 7`); the model threads the same two accumulators (`b1282intGo`, with `e * 128`).
-/
namespace TwistedProps.C44
open Twisted.Spread.Banana
open Generated.Banana (PyErr)

theorem and_127 (n : Nat) : n &&& 127 = n % 128 := Nat.and_two_pow_sub_one_eq_mod n 7

theorem shr_7 (n : Nat) : n >>> 7 = n / 128 := by rw [Nat.shiftRight_eq_div_pow]

theorem shl_7 (n : Nat) : n <<< 7 = n * 128 := by rw [Nat.shiftLeft_eq]

/-- the generated `while integer:` loop appends exactly the model's `digits` and ends with `integer = 0` -/
theorem gen_int2b128Loop_eq (n : Nat) (out : Bytes) :
    Generated.Banana.int2b128Loop n out = (0, out ++ digits n) := by
  induction n using Nat.strongRecOn generalizing out with
  | _ n ih =>
    rw [Generated.Banana.int2b128Loop, digits]
    by_cases h : n = 0
    · simp [h]
    · have hlt : n >>> 7 < n := by rw [shr_7]; omega
      simp only [ne_eq, h, not_false_eq_true, dite_true, dite_false]
      rw [ih _ hlt, and_127, shr_7, List.append_assoc]; rfl

/-- generated `int2b128` = the model's, for every integer the model covers (`n ≥ 0`) -/
theorem gen_int2b128_eq (n : Nat) : Generated.Banana.int2b128 (n : Int) = .ok (int2b128 n) := by
  unfold Generated.Banana.int2b128 int2b128
  by_cases h : n = 0
  · subst h; rfl
  · have h0 : ¬ ((n : Int) = 0) := by omega
    have hp : (n : Int) > 0 := by omega
    rw [if_neg h0, if_pos hp, if_neg h]
    simp only [Int.toNat_natCast, gen_int2b128Loop_eq, List.nil_append]; rfl

/-- the generated `int2b128` refuses negative integers with the `assert` (the model has no such case: callers pass
    `-obj` for `obj < 0`) -/
theorem gen_int2b128_negative (n : Int) (h : n < 0) : Generated.Banana.int2b128 n = .error .assertionError := by
  unfold Generated.Banana.int2b128
  rw [if_neg (by omega), if_neg (by omega)]; rfl

/-- the fold of the generated loop body carries the model's two accumulators -/
theorem gen_b1282int_fold (st : Bytes) (e i : Nat) :
    (List.foldl Generated.Banana.b1282intStep (e, i) st).2 = b1282intGo e i st := by
  induction st generalizing e i with
  | nil => rfl
  | cons ch st ih =>
    simp only [List.foldl_cons, Generated.Banana.b1282intStep, b1282intGo, shl_7]
    exact ih _ _

/-- generated `b1282int` = the model's, on every byte string -/
theorem gen_b1282int_eq (st : Bytes) : Generated.Banana.b1282int st = b1282int st := by
  unfold Generated.Banana.b1282int b1282int
  exact gen_b1282int_fold st 1 0

end TwistedProps.C44
