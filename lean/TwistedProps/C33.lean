import TwistedModel.Dns.Wire
import TwistedModel.Dns.Proto
import TwistedProps.C33.Tcp
/-!
C33 — decoding arbitrary bytes as a DNS message is total and terminates.

Model: the decode half of `TwistedModel/Dns/Wire.lean` (`Message.decode`, `parseRecords`,
`Query.decode`, `RRHeader.decode`, every `Record_*.decode`, `Name.decode`, `readPrecisely`), in which
every primitive keeps its own Python failure mode: `readPrecisely` → `EOFError`, `ord()` of a string
that is not one byte long → `TypeError`, `struct.unpack` of a string of the wrong length →
`struct.error`, a compression loop → `ValueError`, `UnknownRecord.decode` without a length / a
payload without `.data` → another exception (`Err.other`).

* Termination.  Every model function is a total Lean function.  All but one are structurally
  recursive (over the section counts, the field list of the record type, the fuel of the TXT
  loop which is the RDLENGTH).  `Name.decode`'s `while 1` loop is `decodeNameLoop`, accepted by
  Lean's termination checker with the measure (number of 14-bit offsets not yet in `visited`,
  bytes left after the position), lexicographically: following a pointer adds a fresh offset
  to `visited` (`Twisted.Dns.Wire.unvisited_lt`), reading a label moves forward.  So no byte
  string — pointer cycles included — makes it loop (`pointer_cycle_raises_ValueError` shows what
  happens instead).
* Totality of the outcome.  `message_decode_total`: for every byte string the result is a
  message, `EOFError` or `ValueError`; the `struct.error` / `TypeError` / other branches are
  unreachable because every `struct.unpack`/`ord` is applied to the result of a `readPrecisely` of
  exactly the right length.  `edns_decode_total`: the same for `_EDNSMessage.fromStr`.

* The entry points (model `TwistedModel/Dns/Proto.lean`; lemmas on the framing alone in
  `TwistedProps/C33/Tcp.lean`).
  - TCP, `DNSProtocol.dataReceived`: `tcp_dataReceived_total` / `tcp_feed_total` — from every state and
    for every segment(s) the `while self.buffer:` loop terminates (well-founded: a pass that goes round
    again has consumed a length prefix or a frame) and the only exceptions that leave it are the
    decoder's `EOFError`/`ValueError` (the `struct.unpack("!H")` failure is unreachable after the
    repaired `len(self.buffer) >= 2` guard).  `tcp_segmentation_invariance` /
    `tcp_segmentation_independent` — for every stream and every segmentation the messages handed over
    (controller or pending query), the exception and the attributes left behind are those obtained by
    cutting the stream at the 2-byte length prefixes (`frames`, `rest`) and decoding frame after frame
    (`deliverSeq`); `frames_encode` — the cuts of `writeMessage`'s encoding of packets are the packets.
    `tcp_after_error` — after an exception nothing more is ever handed over.
    `tcp_malformed_frame_like_udp`, `pointer_cycle_in_tcp_stream` — a frame that does not decode (a
    pointer cycle: `ValueError`) raises, after the messages before it were handed over, the class for
    which `datagramReceived` drops the same bytes.
  - UDP, `DNSDatagramProtocol.datagramReceived`: `datagram_decode_total`, `datagram_never_unexpected` —
    `message_decode_total` at that entry point: truncated / invalid / handed over, never the
    `except BaseException` ("Unexpected decoding error") clause, never an exception out of the method.
  Outside the model: what `controller.messageReceived` and the callbacks of a pending query's `Deferred`
  do (the protocols catch and log what the latter raise).

Level: theorems about the model; that the model's outcome classes, hand-over order and attribute values
are Python's is what the tie (`harness/corr/C33.py`: mutated encodings of every record type, pointer
cycles, bogus RDLENGTHs, random bytes through the real `Message.fromStr`; TCP streams in every
segmentation when short, bytewise / all two-cut / random segmentations when long through a real
`DNSProtocol`; datagrams through a real `DNSDatagramProtocol` with `liveMessages`/`resends` set)
checks on every run.
-/
namespace TwistedProps.C33
open Twisted.Py Twisted.Dns.Wire

/-- the result is a value, `EOFError` or `ValueError` — the two errors the DNS protocols treat as a
    malformed packet -/
def Benign {α : Type} (r : Except Err α) : Prop := ∀ e, r = .error e → e = .eof ∨ e = .value

theorem Benign.ok {α : Type} (a : α) : Benign (.ok a : Except Err α) := by intro e h; cases h
theorem Benign.eof {α : Type} : Benign (.error .eof : Except Err α) := by intro e h; cases h; exact Or.inl rfl
theorem Benign.value {α : Type} : Benign (.error .value : Except Err α) := by intro e h; cases h; exact Or.inr rfl

theorem Benign.map {α β : Type} {r : Except Err α} (f : α → β) (h : Benign r) : Benign (r.map f) := by
  cases r with
  | ok a => exact Benign.ok _
  | error e => intro e' he; simp [Except.map] at he; subst he; exact h e rfl

/-- `Name.decode` terminates (it is defined by well-founded recursion on
    (offsets not yet visited, bytes left)) and raises nothing but `EOFError` / `ValueError`. -/
theorem decodeNameLoop_benign (M : Bytes) (pos : Nat) (visited : List Nat) (acc : Bytes) (off : Nat) :
    Benign (decodeNameLoop M pos visited acc off) := by
  fun_induction decodeNameLoop M pos visited acc off <;> first
    | exact Benign.ok _ | exact Benign.value | exact Benign.eof | assumption


theorem decodeName_benign (M : Bytes) (pos : Nat) : Benign (decodeName M pos) := decodeNameLoop_benign _ _ _ _ _

/-! ### the primitives: each failure mode that is not `EOFError` is shown unreachable -/

theorem readPrecisely_len {M : Bytes} {pos l : Nat} {b : Bytes} {p : Nat}
    (h : readPrecisely M pos l = .ok (b, p)) : b.length = l := by
  unfold readPrecisely at h
  split at h
  · cases h; simp [slice]; omega
  · cases h

theorem readPrecisely_err {M : Bytes} {pos l : Nat} {e : Err} (h : readPrecisely M pos l = .error e) : e = .eof := by
  unfold readPrecisely at h
  split at h <;> cases h
  rfl

theorem readPrecisely_benign (M : Bytes) (pos l : Nat) : Benign (readPrecisely M pos l) :=
  fun _ h => Or.inl (readPrecisely_err h)

theorem readPreciselyInt_benign (M : Bytes) (pos : Nat) (l : Int) : Benign (readPreciselyInt M pos l) := by
  unfold readPreciselyInt
  split
  · exact Benign.ok _
  · exact readPrecisely_benign _ _ _

/-- `struct.unpack(fmt, readPrecisely(strio, calcsize(fmt)))` cannot raise `struct.error` -/
theorem readBE_benign (M : Bytes) (pos w : Nat) : Benign (readBE M pos w) := by
  unfold readBE
  split
  · rename_i e h; intro e' he; cases he; exact Or.inl (readPrecisely_err h)
  · rename_i b p h
    simp only [unpackBE, readPrecisely_len h, if_true]
    exact Benign.ok _

/-- `ord(readPrecisely(strio, 1))` cannot raise `TypeError` -/
theorem readByte_benign (M : Bytes) (pos : Nat) : Benign (readByte M pos) := by
  unfold readByte
  split
  · rename_i e h; intro e' he; cases he; exact Or.inl (readPrecisely_err h)
  · rename_i b p h
    have hl := readPrecisely_len h
    match b, hl with
    | [x], _ => simp only [pyOrd]; exact Benign.ok _

/-- the folding used inside `decodeNameLoop`: `ord(readPrecisely(strio, 1))` is the byte at the
    position (and `EOFError` at the end of the buffer) — `TypeError` cannot occur -/
theorem readByte_eq (M : Bytes) (pos : Nat) :
    readByte M pos = if 1 ≤ M.length - pos then .ok ((M.getD pos 0).toNat, pos + 1) else .error .eof := by
  unfold readByte readPrecisely
  by_cases h : 1 ≤ M.length - pos
  · simp only [h, if_true]
    have hs : slice M pos 1 = [M.getD pos 0] := by
      unfold slice
      have hlt : pos < M.length := by omega
      rw [List.drop_eq_getElem_cons hlt]
      simp [List.getD_eq_getElem?_getD, List.getElem?_eq_getElem hlt, List.take]
    rw [hs]
    rfl
  · simp only [h, if_false]

theorem readStr8_benign (M : Bytes) (pos : Nat) : Benign (readStr8 M pos) := by
  unfold readStr8
  split
  · rename_i e h; intro e' he; cases he; exact readByte_benign M pos _ h
  · exact readPrecisely_benign _ _ _

theorem txtLoop_benign : ∀ (fuel rem : Nat) (M : Bytes) (pos : Nat), Benign (txtLoop fuel rem M pos) := by
  intro fuel
  induction fuel with
  | zero => intro rem M pos; simp only [txtLoop]; exact Benign.ok _
  | succ fuel ih =>
    intro rem M pos
    simp only [txtLoop]
    split
    · exact Benign.ok _
    · split
      · rename_i e h; intro e' he; cases he; exact readStr8_benign M pos _ h
      · rename_i s p h
        split
        · rename_i e h2; intro e' he; cases he; exact ih _ _ _ _ h2
        · exact Benign.ok _

theorem decField_benign (k : Kind) (M : Bytes) (pos rdlen : Nat) : Benign (decField k M pos rdlen) := by
  cases k with
  | u8 => exact (readBE_benign _ _ _).map _
  | u16 => exact (readBE_benign _ _ _).map _
  | u32 => exact (readBE_benign _ _ _).map _
  | i32 => exact (readBE_benign _ _ _).map _
  | u48 => exact (readBE_benign _ _ _).map _
  | raw n => exact (readPrecisely_benign _ _ _).map _
  | name c => exact (decodeName_benign _ _).map _
  | charstr => exact (readStr8_benign _ _).map _
  | bstr => exact (readStr8_benign _ _).map _
  | lp16 =>
    simp only [decField]
    split
    · rename_i e h; intro e' he; cases he; exact readBE_benign _ _ _ _ h
    · exact (readPrecisely_benign _ _ _).map _
  | rest j => exact (readPreciselyInt_benign _ _ _).map _
  | txts => exact (txtLoop_benign _ _ _ _).map _
  | a6 =>
    simp only [decField]
    split
    · rename_i e h; intro e' he; cases he; exact readBE_benign _ _ _ _ h
    · rename_i p p1 h
      split
      · rename_i e h2
        intro e' he; cases he
        split at h2
        · exact ((readPreciselyInt_benign _ _ _).map _) _ h2
        · cases h2
      · split
        · exact (decodeName_benign _ _).map _
        · exact Benign.ok _

theorem decFields_benign : ∀ (ks : List Kind) (M : Bytes) (pos rdlen : Nat), Benign (decFields ks M pos rdlen) := by
  intro ks
  induction ks with
  | nil => intro M pos rdlen; simp only [decFields]; exact Benign.ok _
  | cons k ks ih =>
    intro M pos rdlen
    simp only [decFields]
    split
    · rename_i e h; intro e' he; cases he; exact decField_benign _ _ _ _ _ h
    · split
      · rename_i e h; intro e' he; cases he; exact ih _ _ _ _ h
      · exact Benign.ok _

theorem decodeQuery_benign (M : Bytes) (pos : Nat) : Benign (decodeQuery M pos) := by
  unfold decodeQuery
  split
  · rename_i e h; intro e' he; cases he; exact decodeName_benign _ _ _ h
  · split
    · rename_i e h; intro e' he; cases he; exact readBE_benign _ _ _ _ h
    · split
      · rename_i e h; intro e' he; cases he; exact readBE_benign _ _ _ _ h
      · exact Benign.ok _

theorem decodeRRHead_benign (M : Bytes) (pos : Nat) : Benign (decodeRRHead M pos) := by
  unfold decodeRRHead
  split
  · rename_i e h; intro e' he; cases he; exact decodeName_benign _ _ _ h
  · split
    · rename_i e h; intro e' he; cases he; exact readBE_benign _ _ _ _ h
    · split
      · rename_i e h; intro e' he; cases he; exact readBE_benign _ _ _ _ h
      · split
        · rename_i e h; intro e' he; cases he; exact readBE_benign _ _ _ _ h
        · split
          · rename_i e h; intro e' he; cases he; exact readBE_benign _ _ _ _ h
          · exact Benign.ok _

theorem decodeQueries_benign : ∀ (n : Nat) (M : Bytes) (pos : Nat), Benign (decodeQueries n M pos) := by
  intro n
  induction n with
  | zero => intro M pos; simp only [decodeQueries]; exact Benign.ok _
  | succ n ih =>
    intro M pos
    simp only [decodeQueries]
    split
    · exact Benign.ok _
    · rename_i e _ h; intro e' he; cases he; exact decodeQuery_benign _ _ _ h
    · split
      · rename_i e h; intro e' he; cases he; exact ih _ _ _ h
      · exact Benign.ok _

theorem parseRecords_benign : ∀ (n : Nat) (M : Bytes) (pos : Nat), Benign (parseRecords n M pos) := by
  intro n
  induction n with
  | zero => intro M pos; simp only [parseRecords]; exact Benign.ok _
  | succ n ih =>
    intro M pos
    simp only [parseRecords]
    split
    · exact Benign.ok _
    · rename_i e _ h; intro e' he; cases he; exact decodeRRHead_benign _ _ _ h
    · split
      · exact Benign.ok _
      · rename_i e _ h; intro e' he; cases he; exact decFields_benign _ _ _ _ _ h
      · split
        · rename_i e h; intro e' he; cases he; exact ih _ _ _ h
        · exact Benign.ok _

/-- **C33.**  For every byte string `Message.fromStr` terminates (the model is a total function:
    structural recursion everywhere except `Name.decode`, whose loop is well-founded) and returns a
    message or raises `EOFError` / `ValueError` — never `struct.error`, `TypeError` or anything else. -/
theorem message_decode_total (M : Bytes) :
    (∃ m, decodeMsg M = .ok m) ∨ decodeMsg M = .error .eof ∨ decodeMsg M = .error .value := by
  have key : Benign (decodeMsg M) := by
    unfold decodeMsg
    split
    · rename_i e h; intro e' he; cases he; exact Or.inl (readPrecisely_err h)
    · rename_i hh p0 h
      have hl := readPrecisely_len h
      simp only [hl, ne_eq, not_true_eq_false, if_false]
      split
      · rename_i e h; intro e' he; cases he; exact decodeQueries_benign _ _ _ _ h
      · split
        · exact Benign.ok _
        · split
          · rename_i e h; intro e' he; cases he; exact parseRecords_benign _ _ _ _ h
          · split
            · exact Benign.ok _
            · split
              · rename_i e h; intro e' he; cases he; exact parseRecords_benign _ _ _ _ h
              · split
                · exact Benign.ok _
                · split
                  · rename_i e h; intro e' he; cases he; exact parseRecords_benign _ _ _ _ h
                  · exact Benign.ok _
  cases h : decodeMsg M with
  | ok m => exact Or.inl ⟨m, rfl⟩
  | error e =>
    rcases key e h with rfl | rfl
    · exact Or.inr (Or.inl rfl)
    · exact Or.inr (Or.inr rfl)

/-! ### what a compression-pointer cycle does -/

/-- A name that is a compression pointer to itself: the second visit to the same offset is caught by
    the `visited` check and `ValueError` is raised (no loop). -/
theorem pointer_cycle_raises_ValueError (M : Bytes) (pos : Nat) (hp : pos < 16384) (hlen : pos + 2 ≤ M.length)
    (h0 : (M.getD pos 0).toNat = 192 + pos / 256) (h1 : (M.getD (pos + 1) 0).toNat = pos % 256) :
    decodeName M pos = .error .value := by
  have hoff : (192 + pos / 256) % 64 * 256 + pos % 256 = pos := by omega
  unfold decodeName
  rw [decodeNameLoop]
  simp only [h0, h1, hoff]
  rw [dif_pos (by omega), if_neg (by omega), if_pos (by omega), if_pos (by omega), dif_neg (by simp)]
  rw [decodeNameLoop]
  simp only [h0, h1, hoff]
  rw [dif_pos (by omega), if_neg (by omega), if_pos (by omega), if_pos (by omega), dif_pos (by simp)]

/-- the 18-byte packet `id=1, QDCOUNT=1, QNAME = pointer to offset 12 (itself)` -/
def cyclePacket : Bytes := [0, 1, 0, 0, 0, 1, 0, 0, 0, 0, 0, 0, 0xC0, 0x0C, 0, 1, 0, 1]

example : decodeName cyclePacket 12 = .error .value :=
  pointer_cycle_raises_ValueError cyclePacket 12 (by decide) (by decide) (by decide) (by decide)

/-- non-vacuity of `message_decode_total`: all three outcomes occur -/
example : decodeMsg [] = .error .eof := by rfl
example : (match decodeMsg (List.replicate 12 0) with | .ok m => m.queries.length == 0 | _ => false) = true := by decide

/-! ### `_EDNSMessage.fromStr` -/

theorem decOptions_benign : ∀ (fuel : Nat) (B : Bytes) (pos : Nat), Benign (decOptions fuel B pos) := by
  intro fuel
  induction fuel with
  | zero => intro B pos; simp only [decOptions]; exact Benign.ok _
  | succ fuel ih =>
    intro B pos
    simp only [decOptions]
    split
    · split
      · rename_i e h; intro e' he; cases he; exact Or.inl (readPrecisely_err h)
      · rename_i hh p1 h
        simp only [readPrecisely_len h, ne_eq, not_true_eq_false, if_false]
        split
        · rename_i e h; intro e' he; cases he; exact Or.inl (readPrecisely_err h)
        · split
          · rename_i e h; intro e' he; cases he; exact ih _ _ _ h
          · exact Benign.ok _
    · exact Benign.ok _

/-- the payload `Message.decode` builds for an OPT record is an `UnknownRecord` (it has `.data`) -/
def OptShape (r : RR) : Prop := r.type = 41 → ∃ u b, r.payload = some ⟨u, [.bytes b]⟩

theorem optFromRR_benign (r : RR) (h : OptShape r) (h41 : r.type = 41) : Benign (optFromRR r) := by
  obtain ⟨u, b, hp⟩ := h h41
  simp only [optFromRR, hp]
  exact (decOptions_benign _ _ _).map _

theorem optsOf_benign : ∀ (rs : List RR), (∀ r ∈ rs, OptShape r) → Benign (optsOf rs) := by
  intro rs
  induction rs with
  | nil => intro _; simp only [optsOf]; exact Benign.ok _
  | cons r rs ih =>
    intro h
    simp only [optsOf]
    split
    · rename_i h41
      split
      · rename_i e he; intro e' he'; cases he'; exact optFromRR_benign r (h r (by simp)) h41 _ he
      · exact (ih (fun x hx => h x (by simp [hx]))).map _
    · exact ih (fun x hx => h x (by simp [hx]))

theorem parseRecords_shape : ∀ (n : Nat) (M : Bytes) (pos : Nat) (rs : List RR) (p : Nat) (eof : Bool),
    parseRecords n M pos = .ok (rs, p, eof) → ∀ r ∈ rs, OptShape r := by
  intro n
  induction n with
  | zero => intro M pos rs p eof h; simp only [parseRecords] at h; cases h; intro r hr; cases hr
  | succ n ih =>
    intro M pos rs p eof h
    simp only [parseRecords] at h
    split at h
    · cases h; intro r hr; cases hr
    · cases h
    · rename_i hd p1 _
      split at h
      · cases h; intro r hr; cases hr
      · cases h
      · rename_i vals p2 hf
        split at h
        · cases h
        · rename_i rs' p' eof' hrec
          cases h
          intro r hr
          rcases List.mem_cons.mp hr with rfl | hr
          · intro h41
            simp only at h41
            rw [h41] at hf
            simp only [kindsOf, schema, Option.getD_none, decFields, decField] at hf
            split at hf
            · cases hf
            · rename_i v p3 hv
              cases hf
              simp only [Except.map] at hv
              split at hv
              · cases hv
              · cases hv; exact ⟨_, _, rfl⟩
          · exact ih _ _ _ _ _ hrec r hr

theorem decodeMsg_shape (M : Bytes) (m : Msg) (h : decodeMsg M = .ok m) : ∀ r ∈ m.additional, OptShape r := by
  unfold decodeMsg at h
  split at h
  · cases h
  · rename_i hh p0 hrd
    simp only [readPrecisely_len hrd, ne_eq, not_true_eq_false, if_false] at h
    split at h
    · cases h
    · split at h
      · cases h; intro r hr; cases hr
      · split at h
        · cases h
        · split at h
          · cases h; intro r hr; cases hr
          · split at h
            · cases h
            · split at h
              · cases h; intro r hr; cases hr
              · split at h
                · cases h
                · rename_i ad _ _ hpr
                  cases h
                  exact parseRecords_shape _ _ _ _ _ _ hpr

/-- **C33 for `_EDNSMessage.fromStr`**: a message, `EOFError` (also from a cut-off option inside an
    OPT record) or `ValueError`; the `AttributeError`/`struct.error` branches are unreachable. -/
theorem edns_decode_total (M : Bytes) :
    (∃ m, decodeEMsg M = .ok m) ∨ decodeEMsg M = .error .eof ∨ decodeEMsg M = .error .value := by
  have key : Benign (decodeEMsg M) := by
    unfold decodeEMsg
    split
    · rename_i e h
      intro e' he; cases he
      rcases message_decode_total M with ⟨m, hm⟩ | hm | hm <;> rw [hm] at h <;> cases h
      · exact Or.inl rfl
      · exact Or.inr rfl
    · rename_i m hm
      unfold fromMessage
      split
      · rename_i e he; intro e' he'; cases he'; exact optsOf_benign _ (decodeMsg_shape M m hm) _ he
      · split <;> exact Benign.ok _
  cases h : decodeEMsg M with
  | ok m => exact Or.inl ⟨m, rfl⟩
  | error e =>
    rcases key e h with rfl | rfl
    · exact Or.inr (Or.inl rfl)
    · exact Or.inr (Or.inr rfl)

/-! ## the two entry points: `DNSProtocol.dataReceived` and `DNSDatagramProtocol.datagramReceived` -/
open Twisted.Dns.Proto

theorem decodeMsg_error {M : Bytes} {e : Err} (h : decodeMsg M = .error e) : e = .eof ∨ e = .value := by
  rcases message_decode_total M with ⟨m, hm⟩ | hm | hm <;> rw [hm] at h <;> cases h
  · exact Or.inl rfl
  · exact Or.inr rfl

/-- the attributes an exception out of `dataReceived` leaves behind: `length` is set and the frame that
    does not decode is still at the head of `buffer` -/
def Stuck (s : Tcp) (e : Err) : Prop :=
  ∃ L, s.length = some L ∧ L ≤ s.buffer.length ∧ decodeMsg (s.buffer.take L) = .error e

theorem chunkStep_raise {length : Option Nat} {buffer : Bytes} {live : List Nat} {l : Option Nat} {b : Bytes} {e : Err}
    (h : chunkStep length buffer live = .raise l b e) : (e = .eof ∨ e = .value) ∧ Stuck ⟨l, b, live⟩ e := by
  unfold chunkStep at h
  split at h
  · rename_i L
    split at h
    · rename_i hL
      split at h
      · rename_i e' he
        cases h
        exact ⟨decodeMsg_error he, L, rfl, hL, he⟩
      · cases h
    · cases h
  · cases h

/-- the only exceptions that leave one pass of the loop are the decoder's `EOFError`/`ValueError`:
    `struct.unpack("!H", …)` is applied to exactly two bytes -/
theorem tcpStep_raise {length : Option Nat} {buffer : Bytes} {live : List Nat} {l : Option Nat} {b : Bytes} {e : Err}
    (h : tcpStep length buffer live = .raise l b e) : (e = .eof ∨ e = .value) ∧ Stuck ⟨l, b, live⟩ e := by
  unfold tcpStep at h
  split at h
  · split at h
    · rename_i h2
      rw [unpackBE_take2 h2] at h
      exact chunkStep_raise h
    · exact chunkStep_raise h
  · exact chunkStep_raise h

theorem tcpLoop_raised (length : Option Nat) (buffer : Bytes) (live : List Nat) (e : Err)
    (h : (tcpLoop length buffer live).raised = some e) :
    (e = .eof ∨ e = .value) ∧ Stuck (tcpLoop length buffer live).state e := by
  fun_induction tcpLoop length buffer live with
  | case1 length live => cases h
  | case2 length buffer live hne l b hs => cases h
  | case3 length buffer live hne l b e' hs =>
    cases h
    exact tcpStep_raise hs
  | case4 length buffer live hne d b' live' hs r ih => exact ih h

/-- **C33 at the TCP entry point.**  For every state of a `DNSProtocol` (any `length`, `buffer`,
    `liveMessages`) and every segment, `dataReceived` terminates (`tcpLoop` is a total function: each
    pass of `while self.buffer:` that does not leave the loop consumes a length prefix or a frame)
    and either returns or raises `EOFError`/`ValueError` — what `Message.fromStr` raised on a frame. -/
theorem tcp_dataReceived_total (s : Tcp) (data : Bytes) :
    (s.dataReceived data).raised = none ∨ (s.dataReceived data).raised = some .eof ∨
      (s.dataReceived data).raised = some .value := by
  cases h : (s.dataReceived data).raised with
  | none => exact Or.inl rfl
  | some e =>
    rcases (tcpLoop_raised _ _ _ e h).1 with rfl | rfl
    · exact Or.inr (Or.inl rfl)
    · exact Or.inr (Or.inr rfl)

/-- … and for every sequence of segments -/
theorem tcp_feed_total (cs : List Bytes) : ∀ s : Tcp,
    (s.feed cs).raised = none ∨ (s.feed cs).raised = some .eof ∨ (s.feed cs).raised = some .value := by
  induction cs with
  | nil => intro s; exact Or.inl rfl
  | cons c cs ih =>
    intro s
    simp only [Tcp.feed]
    split
    · exact tcp_dataReceived_total s c
    · exact ih _

/-- once a frame has failed to decode the connection is stuck on it: whatever arrives later, nothing
    more is handed over and the same exception is raised again (the reactor has dropped the connection
    anyway) -/
theorem stuck_dataReceived (s : Tcp) (e : Err) (h : Stuck s e) (data : Bytes) :
    s.dataReceived data =
      ⟨⟨s.length, s.buffer ++ data, s.live⟩, [], if s.buffer ++ data = [] then none else some e⟩ := by
  obtain ⟨L, hl, hL, hd⟩ := h
  unfold Tcp.dataReceived
  by_cases hb : s.buffer ++ data = []
  · rw [hb, tcpLoop_nil, if_pos rfl]
  · rw [tcpLoop, if_neg hb, if_neg hb]
    have hs : tcpStep s.length (s.buffer ++ data) s.live = .raise s.length (s.buffer ++ data) e := by
      rw [hl]
      simp only [tcpStep, chunkStep, List.length_append]
      rw [if_pos (by omega), List.take_append_of_le_length hL, hd]
    split <;> rename_i hh <;> rw [hs] at hh <;> cases hh
    rfl

theorem tcp_after_error (s : Tcp) (data : Bytes) (e : Err) (h : (s.dataReceived data).raised = some e) (data' : Bytes) :
    ((s.dataReceived data).state.dataReceived data').delivered = [] ∧
    (((s.dataReceived data).state.dataReceived data').raised = none ∨
     ((s.dataReceived data).state.dataReceived data').raised = some e) := by
  have hst : Stuck (s.dataReceived data).state e := (tcpLoop_raised _ _ _ e h).2
  rw [stuck_dataReceived _ e hst]
  refine ⟨rfl, ?_⟩
  simp only
  split
  · exact Or.inl rfl
  · exact Or.inr rfl

theorem init_eq_stateOf (live : List Nat) : Tcp.init live = stateOf [] live := by
  simp [Tcp.init, stateOf]

theorem noFrame_nil : ¬ HasFrame ([] : Bytes) := fun h => absurd h.1 (by simp)

/-- **Segmentation invariance.**  For every byte stream and every way of cutting it into segments
    (empty and 1-byte segments included), what a fresh `DNSProtocol` hands over — to the controller
    or to the pending queries in `liveMessages`, in order — and what it raises is what one gets by
    cutting the stream at the 2-byte length prefixes and decoding frame after frame up to the first
    one that does not decode; without an exception the protocol is left holding exactly the
    incomplete tail of the stream. -/
theorem tcp_segmentation_invariance (live : List Nat) (chunks : List Bytes) :
    ((Tcp.init live).feed chunks).delivered = (deliverSeq live (frames chunks.flatten)).1 ∧
    ((Tcp.init live).feed chunks).raised = (deliverSeq live (frames chunks.flatten)).2.1 ∧
    (((Tcp.init live).feed chunks).raised = none →
      ((Tcp.init live).feed chunks).state =
        stateOf (rest chunks.flatten) (deliverSeq live (frames chunks.flatten)).2.2) := by
  have h := feed_same_spec chunks [] live noFrame_nil
  rw [← init_eq_stateOf, List.nil_append] at h
  have hs := spec_eq_deliverSeq chunks.flatten live
  refine ⟨by rw [h.1, hs.1], by rw [h.2.1, hs.2.1], fun hn => ?_⟩
  rw [h.2.2 hn, ← hs.2.2]
  exact spec_state _ _ (by rw [← h.2.1]; exact hn)

/-- two segmentations of the same stream cannot be told apart -/
theorem tcp_segmentation_independent (live : List Nat) (c₁ c₂ : List Bytes) (h : c₁.flatten = c₂.flatten) :
    Same ((Tcp.init live).feed c₁) ((Tcp.init live).feed c₂) := by
  have h1 := feed_same_spec c₁ [] live noFrame_nil
  have h2 := feed_same_spec c₂ [] live noFrame_nil
  rw [h] at h1
  rw [← init_eq_stateOf] at h1 h2
  exact ⟨by rw [h1.1, h2.1], by rw [h1.2.1, h2.2.1], fun hn => by
    rw [h1.2.2 hn, h2.2.2 (by rw [h2.2.1, ← h1.2.1]; exact hn)]⟩

theorem deliverSeq_bad (fs : List Bytes) (P : Bytes) (fs' : List Bytes) (e : Err)
    (hok : ∀ f ∈ fs, ∃ m, decodeMsg f = .ok m) (hbad : decodeMsg P = .error e) : ∀ live,
    (deliverSeq live (fs ++ P :: fs')).2.1 = some e ∧ (deliverSeq live (fs ++ P :: fs')).1.length = fs.length := by
  induction fs with
  | nil => intro live; simp only [List.nil_append, deliverSeq, hbad]; exact ⟨trivial, rfl⟩
  | cons f fs ih =>
    intro live
    obtain ⟨m, hm⟩ := hok f (by simp)
    have := ih (fun x hx => hok x (by simp [hx])) (deliver m live).2
    simp only [List.cons_append, deliverSeq, hm, List.length_cons]
    exact ⟨this.1, by rw [this.2]⟩

/-- `DNSDatagramProtocol.datagramReceived` on a packet that does not decode -/
theorem datagram_of_error {P : Bytes} {e : Err} (h : decodeMsg P = .error e) (live resends : List Nat) :
    (e = .eof ∧ datagramReceived live resends P = .truncated) ∨
    (e = .value ∧ datagramReceived live resends P = .invalid) := by
  rcases decodeMsg_error h with rfl | rfl
  · exact Or.inl ⟨rfl, by simp only [datagramReceived, h]⟩
  · exact Or.inr ⟨rfl, by simp only [datagramReceived, h]⟩

/-- **A malformed message inside a TCP stream is reported like over UDP.**  Whatever the segmentation,
    if the stream cuts into frames `fs`, then `P`, then `fs'`, the frames `fs` decode and `P` does not,
    the messages of `fs` are handed over and then `dataReceived` raises exactly the exception class
    that makes `datagramReceived` drop the datagram `P` (EOFError: "Truncated packet", ValueError:
    "Invalid packet" — a compression-pointer cycle is the latter). -/
theorem tcp_malformed_frame_like_udp (live resends : List Nat) (chunks : List Bytes) (fs : List Bytes) (P : Bytes)
    (fs' : List Bytes) (e : Err) (hcut : frames chunks.flatten = fs ++ P :: fs')
    (hok : ∀ f ∈ fs, ∃ m, decodeMsg f = .ok m) (hbad : decodeMsg P = .error e) :
    ((Tcp.init live).feed chunks).raised = some e ∧ ((Tcp.init live).feed chunks).delivered.length = fs.length ∧
    ((e = .eof ∧ datagramReceived live resends P = .truncated) ∨
     (e = .value ∧ datagramReceived live resends P = .invalid)) := by
  have h := tcp_segmentation_invariance live chunks
  have hb := deliverSeq_bad fs P fs' e hok hbad live
  rw [hcut] at h
  exact ⟨by rw [h.2.1, hb.1], by rw [h.1, hb.2], datagram_of_error hbad live resends⟩

/-- **C33 at the UDP entry point.**  `datagramReceived` never reaches its
    `except BaseException: log.err(…, "Unexpected decoding error")` clause and no exception of the decoder
    leaves it: the datagram is dropped as truncated (`EOFError`) or invalid (`ValueError`), or it decodes
    and the message goes to the pending query, is ignored as a duplicate (`resends`), or goes to the
    controller. -/
theorem datagram_decode_total (live resends : List Nat) (data : Bytes) :
    (decodeMsg data = .error .eof ∧ datagramReceived live resends data = .truncated) ∨
    (decodeMsg data = .error .value ∧ datagramReceived live resends data = .invalid) ∨
    ∃ m, decodeMsg data = .ok m ∧
      (datagramReceived live resends data = .query m ∨ datagramReceived live resends data = .resend m ∨
       datagramReceived live resends data = .controller m) := by
  rcases message_decode_total data with ⟨m, hm⟩ | hm | hm
  · refine Or.inr (Or.inr ⟨m, hm, ?_⟩)
    simp only [datagramReceived, hm]
    split
    · exact Or.inl rfl
    · split
      · exact Or.inr (Or.inl rfl)
      · exact Or.inr (Or.inr rfl)
  · exact Or.inl ⟨hm, by simp only [datagramReceived, hm]⟩
  · exact Or.inr (Or.inl ⟨hm, by simp only [datagramReceived, hm]⟩)

theorem datagram_never_unexpected (live resends : List Nat) (data : Bytes) (e : Err) :
    datagramReceived live resends data ≠ .unexpected e := by
  rcases datagram_decode_total live resends data with h | h | ⟨m, _, h | h | h⟩ <;> (try rw [h.2]) <;> (try rw [h]) <;> intro hc <;> cases hc

theorem cyclePacket_decode : decodeMsg cyclePacket = .error .value := by
  have hn : decodeName cyclePacket 12 = .error .value :=
    pointer_cycle_raises_ValueError cyclePacket 12 (by decide) (by decide) (by decide) (by decide)
  have hr : readPrecisely cyclePacket 0 headerSize = .ok (cyclePacket.take 12, 12) := by rfl
  unfold decodeMsg
  rw [hr]
  have hq : decodeQueries 1 cyclePacket 12 = .error .value := by
    simp only [decodeQueries, decodeQuery, hn]
  have hl : ((cyclePacket.take 12).length ≠ headerSize) = False := by decide
  have h1 : beToNat (slice (cyclePacket.take 12) 4 2) = 1 := by rfl
  simp only [hl, if_false, h1, hq]

theorem zeros12_decodes : ∃ m, decodeMsg (List.replicate 12 0) = .ok m := by
  have h : (match decodeMsg (List.replicate 12 0) with | .ok _ => true | _ => false) = true := by decide
  cases hd : decodeMsg (List.replicate 12 0) with
  | ok m => exact ⟨m, rfl⟩
  | error e => rw [hd] at h; cases h

/-- The 18-byte pointer-cycle packet between two good messages of a TCP stream, cut into segments in any
    way whatever: the first message is handed over, then `dataReceived` raises `ValueError` — the class
    for which `datagramReceived` logs "Invalid packet" and drops the same bytes arriving over UDP. -/
theorem pointer_cycle_in_tcp_stream (live resends : List Nat) (chunks : List Bytes) (tail : Bytes) (ht : ¬ HasFrame tail)
    (h : chunks.flatten = encodeFrames [List.replicate 12 0, cyclePacket, List.replicate 12 0] ++ tail) :
    ((Tcp.init live).feed chunks).raised = some .value ∧ ((Tcp.init live).feed chunks).delivered.length = 1 ∧
    datagramReceived live resends cyclePacket = .invalid := by
  have hcut : frames chunks.flatten = [List.replicate 12 0] ++ cyclePacket :: [List.replicate 12 0] := by
    rw [h]
    exact (frames_encode _ (by intro f hf; simp at hf; rcases hf with rfl | rfl | rfl <;> decide) tail ht).1
  have := tcp_malformed_frame_like_udp live resends chunks _ _ _ _ hcut
    (by intro f hf; simp at hf; subst hf; exact zeros12_decodes) cyclePacket_decode
  refine ⟨this.1, this.2.1, ?_⟩
  rcases this.2.2 with ⟨h1, _⟩ | ⟨_, h2⟩
  · cases h1
  · exact h2

/-- non-vacuity: the stream of `pointer_cycle_in_tcp_stream` delivered byte by byte (54 one-byte
    segments — the case that used to raise `TypeError` before the repair), and in one piece with a
    dangling byte after it -/
example : ((Tcp.init []).feed ((encodeFrames [List.replicate 12 0, cyclePacket, List.replicate 12 0]).map fun b => [b])).raised
    = some .value :=
  (pointer_cycle_in_tcp_stream [] [] _ [] noFrame_nil (by decide)).1
example : ((Tcp.init [1]).feed [encodeFrames [List.replicate 12 0, cyclePacket, List.replicate 12 0] ++ [7]]).delivered.length = 1 :=
  (pointer_cycle_in_tcp_stream [1] [] _ [7] (fun h => absurd h.1 (by decide)) (by decide)).2.1

/-- non-vacuity of `tcp_segmentation_invariance`: two good frames and half of a third, in 1-byte
    segments: two messages handed over, nothing raised, the protocol holds the 5 bytes of the tail -/
example : let cs := (encodeFrames [List.replicate 12 0, List.replicate 12 0] ++ [0, 12, 1, 2, 3]).map fun b => [b]
    ((Tcp.init []).feed cs).raised = none ∧ ((Tcp.init []).feed cs).delivered.length = 2 ∧
    ((Tcp.init []).feed cs).state = ⟨some 12, [1, 2, 3], []⟩ := by
  intro cs
  have hfl : cs.flatten = encodeFrames [List.replicate 12 0, List.replicate 12 0] ++ [0, 12, 1, 2, 3] := by decide
  have hfr := frames_encode [List.replicate 12 0, List.replicate 12 0] (by intro f hf; simp at hf; subst hf; decide)
    [0, 12, 1, 2, 3] (fun h => absurd h.2 (by decide))
  have hinv := tcp_segmentation_invariance [] cs
  rw [hfl, hfr.1, hfr.2] at hinv
  obtain ⟨m, hm⟩ := zeros12_decodes
  have hr : ((Tcp.init []).feed cs).raised = none := by rw [hinv.2.1]; simp only [deliverSeq, hm]
  refine ⟨hr, by rw [hinv.1]; simp only [deliverSeq, hm, List.length_cons, List.length_nil], ?_⟩
  rw [hinv.2.2 hr]
  have hl : (deliverSeq [] [List.replicate 12 0, List.replicate 12 0]).2.2 = [] := by
    simp only [deliverSeq, hm, deliver, List.contains_nil]; rfl
  rw [hl]
  simp [stateOf, be16, beToNat]

/-- non-vacuity of `datagram_decode_total`: all outcomes occur -/
example : datagramReceived [] [] [] = .truncated := by rfl
example : datagramReceived [] [] cyclePacket = .invalid := by simp only [datagramReceived, cyclePacket_decode]
example : (match datagramReceived [0] [] (List.replicate 12 0) with | .query _ => true | _ => false) = true := by decide
example : (match datagramReceived [] [0] (List.replicate 12 0) with | .resend _ => true | _ => false) = true := by decide
example : (match datagramReceived [] [] (List.replicate 12 0) with | .controller _ => true | _ => false) = true := by decide

end TwistedProps.C33
