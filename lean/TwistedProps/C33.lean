import TwistedModel.Dns.Wire
/-!
C33 — decoding arbitrary bytes as a DNS message is total and terminates.

Model: the decode half of `TwistedModel/Dns/Wire.lean` (`Message.decode`, `parseRecords`,
`Query.decode`, `RRHeader.decode`, every `Record_*.decode`, `Name.decode`, `readPrecisely`), in which
every primitive keeps its own Python failure mode: `readPrecisely` → `EOFError`, `ord()` of a string
that is not one byte long → `TypeError`, `struct.unpack` of a string of the wrong length →
`struct.error`, a compression loop → `ValueError`, `UnknownRecord.decode` without a length / a
payload without `.data` → another exception (`Err.other`).

* Termination.  Every model function is a total Lean function.  All but one are structurally
  recursive (over the section counts, the field list of the record type, the fuel of the TXT
  loop which is the RDLENGTH).  `Name.decode`'s `while 1` loop is `decodeNameLoop`, accepted by
  Lean's termination checker with the measure (number of 14-bit offsets not yet in `visited`,
  bytes left after the position), lexicographically: following a pointer adds a fresh offset
  to `visited` (`Twisted.Dns.Wire.unvisited_lt`), reading a label moves forward.  So no byte
  string — pointer cycles included — makes it loop (`pointer_cycle_raises_ValueError` shows what
  happens instead).
* Totality of the outcome.  `message_decode_total`: for every byte string the result is a
  message, `EOFError` or `ValueError`; the `struct.error` / `TypeError` / other branches are
  unreachable because every `struct.unpack`/`ord` is applied to the result of a `readPrecisely` of
  exactly the right length.  `edns_decode_total`: the same for `_EDNSMessage.fromStr`.

Level: a theorem about the model; that the model's outcome classes are Python's is what the tie
(`harness/corr/C33.py`, mutated encodings of every record type, pointer cycles, bogus RDLENGTHs,
random bytes; real `Message.fromStr`, `DNSDatagramProtocol.datagramReceived`,
`DNSProtocol.dataReceived`) checks on every run.
-/
namespace TwistedProps.C33
open Twisted.Py Twisted.Dns.Wire

/-- the result is a value, `EOFError` or `ValueError` — the two errors the DNS protocols treat as a
    malformed packet -/
def Benign {α : Type} (r : Except Err α) : Prop := ∀ e, r = .error e → e = .eof ∨ e = .value

theorem Benign.ok {α : Type} (a : α) : Benign (.ok a : Except Err α) := by intro e h; cases h
theorem Benign.eof {α : Type} : Benign (.error .eof : Except Err α) := by intro e h; cases h; exact Or.inl rfl
theorem Benign.value {α : Type} : Benign (.error .value : Except Err α) := by intro e h; cases h; exact Or.inr rfl

theorem Benign.map {α β : Type} {r : Except Err α} (f : α → β) (h : Benign r) : Benign (r.map f) := by
  cases r with
  | ok a => exact Benign.ok _
  | error e => intro e' he; simp [Except.map] at he; subst he; exact h e rfl

/-- `Name.decode` terminates (it is defined by well-founded recursion on
    (offsets not yet visited, bytes left)) and raises nothing but `EOFError` / `ValueError`. -/
theorem decodeNameLoop_benign (M : Bytes) (pos : Nat) (visited : List Nat) (acc : Bytes) (off : Nat) :
    Benign (decodeNameLoop M pos visited acc off) := by
  fun_induction decodeNameLoop M pos visited acc off <;> first
    | exact Benign.ok _ | exact Benign.value | exact Benign.eof | assumption


theorem decodeName_benign (M : Bytes) (pos : Nat) : Benign (decodeName M pos) := decodeNameLoop_benign _ _ _ _ _

/-! ### the primitives: each failure mode that is not `EOFError` is shown unreachable -/

theorem readPrecisely_len {M : Bytes} {pos l : Nat} {b : Bytes} {p : Nat}
    (h : readPrecisely M pos l = .ok (b, p)) : b.length = l := by
  unfold readPrecisely at h
  split at h
  · cases h; simp [slice]; omega
  · cases h

theorem readPrecisely_err {M : Bytes} {pos l : Nat} {e : Err} (h : readPrecisely M pos l = .error e) : e = .eof := by
  unfold readPrecisely at h
  split at h <;> cases h
  rfl

theorem readPrecisely_benign (M : Bytes) (pos l : Nat) : Benign (readPrecisely M pos l) :=
  fun _ h => Or.inl (readPrecisely_err h)

theorem readPreciselyInt_benign (M : Bytes) (pos : Nat) (l : Int) : Benign (readPreciselyInt M pos l) := by
  unfold readPreciselyInt
  split
  · exact Benign.ok _
  · exact readPrecisely_benign _ _ _

/-- `struct.unpack(fmt, readPrecisely(strio, calcsize(fmt)))` cannot raise `struct.error` -/
theorem readBE_benign (M : Bytes) (pos w : Nat) : Benign (readBE M pos w) := by
  unfold readBE
  split
  · rename_i e h; intro e' he; cases he; exact Or.inl (readPrecisely_err h)
  · rename_i b p h
    simp only [unpackBE, readPrecisely_len h, if_true]
    exact Benign.ok _

/-- `ord(readPrecisely(strio, 1))` cannot raise `TypeError` -/
theorem readByte_benign (M : Bytes) (pos : Nat) : Benign (readByte M pos) := by
  unfold readByte
  split
  · rename_i e h; intro e' he; cases he; exact Or.inl (readPrecisely_err h)
  · rename_i b p h
    have hl := readPrecisely_len h
    match b, hl with
    | [x], _ => simp only [pyOrd]; exact Benign.ok _

/-- the folding used inside `decodeNameLoop`: `ord(readPrecisely(strio, 1))` is the byte at the
    position (and `EOFError` at the end of the buffer) — `TypeError` cannot occur -/
theorem readByte_eq (M : Bytes) (pos : Nat) :
    readByte M pos = if 1 ≤ M.length - pos then .ok ((M.getD pos 0).toNat, pos + 1) else .error .eof := by
  unfold readByte readPrecisely
  by_cases h : 1 ≤ M.length - pos
  · simp only [h, if_true]
    have hs : slice M pos 1 = [M.getD pos 0] := by
      unfold slice
      have hlt : pos < M.length := by omega
      rw [List.drop_eq_getElem_cons hlt]
      simp [List.getD_eq_getElem?_getD, List.getElem?_eq_getElem hlt, List.take]
    rw [hs]
    rfl
  · simp only [h, if_false]

theorem readStr8_benign (M : Bytes) (pos : Nat) : Benign (readStr8 M pos) := by
  unfold readStr8
  split
  · rename_i e h; intro e' he; cases he; exact readByte_benign M pos _ h
  · exact readPrecisely_benign _ _ _

theorem txtLoop_benign : ∀ (fuel rem : Nat) (M : Bytes) (pos : Nat), Benign (txtLoop fuel rem M pos) := by
  intro fuel
  induction fuel with
  | zero => intro rem M pos; simp only [txtLoop]; exact Benign.ok _
  | succ fuel ih =>
    intro rem M pos
    simp only [txtLoop]
    split
    · exact Benign.ok _
    · split
      · rename_i e h; intro e' he; cases he; exact readStr8_benign M pos _ h
      · rename_i s p h
        split
        · rename_i e h2; intro e' he; cases he; exact ih _ _ _ _ h2
        · exact Benign.ok _

theorem decField_benign (k : Kind) (M : Bytes) (pos rdlen : Nat) : Benign (decField k M pos rdlen) := by
  cases k with
  | u8 => exact (readBE_benign _ _ _).map _
  | u16 => exact (readBE_benign _ _ _).map _
  | u32 => exact (readBE_benign _ _ _).map _
  | i32 => exact (readBE_benign _ _ _).map _
  | u48 => exact (readBE_benign _ _ _).map _
  | raw n => exact (readPrecisely_benign _ _ _).map _
  | name c => exact (decodeName_benign _ _).map _
  | charstr => exact (readStr8_benign _ _).map _
  | bstr => exact (readStr8_benign _ _).map _
  | lp16 =>
    simp only [decField]
    split
    · rename_i e h; intro e' he; cases he; exact readBE_benign _ _ _ _ h
    · exact (readPrecisely_benign _ _ _).map _
  | rest j => exact (readPreciselyInt_benign _ _ _).map _
  | txts => exact (txtLoop_benign _ _ _ _).map _
  | a6 =>
    simp only [decField]
    split
    · rename_i e h; intro e' he; cases he; exact readBE_benign _ _ _ _ h
    · rename_i p p1 h
      split
      · rename_i e h2
        intro e' he; cases he
        split at h2
        · exact ((readPreciselyInt_benign _ _ _).map _) _ h2
        · cases h2
      · split
        · exact (decodeName_benign _ _).map _
        · exact Benign.ok _

theorem decFields_benign : ∀ (ks : List Kind) (M : Bytes) (pos rdlen : Nat), Benign (decFields ks M pos rdlen) := by
  intro ks
  induction ks with
  | nil => intro M pos rdlen; simp only [decFields]; exact Benign.ok _
  | cons k ks ih =>
    intro M pos rdlen
    simp only [decFields]
    split
    · rename_i e h; intro e' he; cases he; exact decField_benign _ _ _ _ _ h
    · split
      · rename_i e h; intro e' he; cases he; exact ih _ _ _ _ h
      · exact Benign.ok _

theorem decodeQuery_benign (M : Bytes) (pos : Nat) : Benign (decodeQuery M pos) := by
  unfold decodeQuery
  split
  · rename_i e h; intro e' he; cases he; exact decodeName_benign _ _ _ h
  · split
    · rename_i e h; intro e' he; cases he; exact readBE_benign _ _ _ _ h
    · split
      · rename_i e h; intro e' he; cases he; exact readBE_benign _ _ _ _ h
      · exact Benign.ok _

theorem decodeRRHead_benign (M : Bytes) (pos : Nat) : Benign (decodeRRHead M pos) := by
  unfold decodeRRHead
  split
  · rename_i e h; intro e' he; cases he; exact decodeName_benign _ _ _ h
  · split
    · rename_i e h; intro e' he; cases he; exact readBE_benign _ _ _ _ h
    · split
      · rename_i e h; intro e' he; cases he; exact readBE_benign _ _ _ _ h
      · split
        · rename_i e h; intro e' he; cases he; exact readBE_benign _ _ _ _ h
        · split
          · rename_i e h; intro e' he; cases he; exact readBE_benign _ _ _ _ h
          · exact Benign.ok _

theorem decodeQueries_benign : ∀ (n : Nat) (M : Bytes) (pos : Nat), Benign (decodeQueries n M pos) := by
  intro n
  induction n with
  | zero => intro M pos; simp only [decodeQueries]; exact Benign.ok _
  | succ n ih =>
    intro M pos
    simp only [decodeQueries]
    split
    · exact Benign.ok _
    · rename_i e _ h; intro e' he; cases he; exact decodeQuery_benign _ _ _ h
    · split
      · rename_i e h; intro e' he; cases he; exact ih _ _ _ h
      · exact Benign.ok _

theorem parseRecords_benign : ∀ (n : Nat) (M : Bytes) (pos : Nat), Benign (parseRecords n M pos) := by
  intro n
  induction n with
  | zero => intro M pos; simp only [parseRecords]; exact Benign.ok _
  | succ n ih =>
    intro M pos
    simp only [parseRecords]
    split
    · exact Benign.ok _
    · rename_i e _ h; intro e' he; cases he; exact decodeRRHead_benign _ _ _ h
    · split
      · exact Benign.ok _
      · rename_i e _ h; intro e' he; cases he; exact decFields_benign _ _ _ _ _ h
      · split
        · rename_i e h; intro e' he; cases he; exact ih _ _ _ h
        · exact Benign.ok _

/-- **C33.**  For every byte string `Message.fromStr` terminates (the model is a total function:
    structural recursion everywhere except `Name.decode`, whose loop is well-founded) and returns a
    message or raises `EOFError` / `ValueError` — never `struct.error`, `TypeError` or anything else. -/
theorem message_decode_total (M : Bytes) :
    (∃ m, decodeMsg M = .ok m) ∨ decodeMsg M = .error .eof ∨ decodeMsg M = .error .value := by
  have key : Benign (decodeMsg M) := by
    unfold decodeMsg
    split
    · rename_i e h; intro e' he; cases he; exact Or.inl (readPrecisely_err h)
    · rename_i hh p0 h
      have hl := readPrecisely_len h
      simp only [hl, ne_eq, not_true_eq_false, if_false]
      split
      · rename_i e h; intro e' he; cases he; exact decodeQueries_benign _ _ _ _ h
      · split
        · exact Benign.ok _
        · split
          · rename_i e h; intro e' he; cases he; exact parseRecords_benign _ _ _ _ h
          · split
            · exact Benign.ok _
            · split
              · rename_i e h; intro e' he; cases he; exact parseRecords_benign _ _ _ _ h
              · split
                · exact Benign.ok _
                · split
                  · rename_i e h; intro e' he; cases he; exact parseRecords_benign _ _ _ _ h
                  · exact Benign.ok _
  cases h : decodeMsg M with
  | ok m => exact Or.inl ⟨m, rfl⟩
  | error e =>
    rcases key e h with rfl | rfl
    · exact Or.inr (Or.inl rfl)
    · exact Or.inr (Or.inr rfl)

/-! ### what a compression-pointer cycle does -/

/-- A name that is a compression pointer to itself: the second visit to the same offset is caught by
    the `visited` check and `ValueError` is raised (no loop). -/
theorem pointer_cycle_raises_ValueError (M : Bytes) (pos : Nat) (hp : pos < 16384) (hlen : pos + 2 ≤ M.length)
    (h0 : (M.getD pos 0).toNat = 192 + pos / 256) (h1 : (M.getD (pos + 1) 0).toNat = pos % 256) :
    decodeName M pos = .error .value := by
  have hoff : (192 + pos / 256) % 64 * 256 + pos % 256 = pos := by omega
  unfold decodeName
  rw [decodeNameLoop]
  simp only [h0, h1, hoff]
  rw [dif_pos (by omega), if_neg (by omega), if_pos (by omega), if_pos (by omega), dif_neg (by simp)]
  rw [decodeNameLoop]
  simp only [h0, h1, hoff]
  rw [dif_pos (by omega), if_neg (by omega), if_pos (by omega), if_pos (by omega), dif_pos (by simp)]

/-- the 18-byte packet `id=1, QDCOUNT=1, QNAME = pointer to offset 12 (itself)` -/
def cyclePacket : Bytes := [0, 1, 0, 0, 0, 1, 0, 0, 0, 0, 0, 0, 0xC0, 0x0C, 0, 1, 0, 1]

example : decodeName cyclePacket 12 = .error .value :=
  pointer_cycle_raises_ValueError cyclePacket 12 (by decide) (by decide) (by decide) (by decide)

/-- non-vacuity of `message_decode_total`: all three outcomes occur -/
example : decodeMsg [] = .error .eof := by rfl
example : (match decodeMsg (List.replicate 12 0) with | .ok m => m.queries.length == 0 | _ => false) = true := by decide

/-! ### `_EDNSMessage.fromStr` -/

theorem decOptions_benign : ∀ (fuel : Nat) (B : Bytes) (pos : Nat), Benign (decOptions fuel B pos) := by
  intro fuel
  induction fuel with
  | zero => intro B pos; simp only [decOptions]; exact Benign.ok _
  | succ fuel ih =>
    intro B pos
    simp only [decOptions]
    split
    · split
      · rename_i e h; intro e' he; cases he; exact Or.inl (readPrecisely_err h)
      · rename_i hh p1 h
        simp only [readPrecisely_len h, ne_eq, not_true_eq_false, if_false]
        split
        · rename_i e h; intro e' he; cases he; exact Or.inl (readPrecisely_err h)
        · split
          · rename_i e h; intro e' he; cases he; exact ih _ _ _ h
          · exact Benign.ok _
    · exact Benign.ok _

/-- the payload `Message.decode` builds for an OPT record is an `UnknownRecord` (it has `.data`) -/
def OptShape (r : RR) : Prop := r.type = 41 → ∃ u b, r.payload = some ⟨u, [.bytes b]⟩

theorem optFromRR_benign (r : RR) (h : OptShape r) (h41 : r.type = 41) : Benign (optFromRR r) := by
  obtain ⟨u, b, hp⟩ := h h41
  simp only [optFromRR, hp]
  exact (decOptions_benign _ _ _).map _

theorem optsOf_benign : ∀ (rs : List RR), (∀ r ∈ rs, OptShape r) → Benign (optsOf rs) := by
  intro rs
  induction rs with
  | nil => intro _; simp only [optsOf]; exact Benign.ok _
  | cons r rs ih =>
    intro h
    simp only [optsOf]
    split
    · rename_i h41
      split
      · rename_i e he; intro e' he'; cases he'; exact optFromRR_benign r (h r (by simp)) h41 _ he
      · exact (ih (fun x hx => h x (by simp [hx]))).map _
    · exact ih (fun x hx => h x (by simp [hx]))

theorem parseRecords_shape : ∀ (n : Nat) (M : Bytes) (pos : Nat) (rs : List RR) (p : Nat) (eof : Bool),
    parseRecords n M pos = .ok (rs, p, eof) → ∀ r ∈ rs, OptShape r := by
  intro n
  induction n with
  | zero => intro M pos rs p eof h; simp only [parseRecords] at h; cases h; intro r hr; cases hr
  | succ n ih =>
    intro M pos rs p eof h
    simp only [parseRecords] at h
    split at h
    · cases h; intro r hr; cases hr
    · cases h
    · rename_i hd p1 _
      split at h
      · cases h; intro r hr; cases hr
      · cases h
      · rename_i vals p2 hf
        split at h
        · cases h
        · rename_i rs' p' eof' hrec
          cases h
          intro r hr
          rcases List.mem_cons.mp hr with rfl | hr
          · intro h41
            simp only at h41
            rw [h41] at hf
            simp only [kindsOf, schema, Option.getD_none, decFields, decField] at hf
            split at hf
            · cases hf
            · rename_i v p3 hv
              cases hf
              simp only [Except.map] at hv
              split at hv
              · cases hv
              · cases hv; exact ⟨_, _, rfl⟩
          · exact ih _ _ _ _ _ hrec r hr

theorem decodeMsg_shape (M : Bytes) (m : Msg) (h : decodeMsg M = .ok m) : ∀ r ∈ m.additional, OptShape r := by
  unfold decodeMsg at h
  split at h
  · cases h
  · rename_i hh p0 hrd
    simp only [readPrecisely_len hrd, ne_eq, not_true_eq_false, if_false] at h
    split at h
    · cases h
    · split at h
      · cases h; intro r hr; cases hr
      · split at h
        · cases h
        · split at h
          · cases h; intro r hr; cases hr
          · split at h
            · cases h
            · split at h
              · cases h; intro r hr; cases hr
              · split at h
                · cases h
                · rename_i ad _ _ hpr
                  cases h
                  exact parseRecords_shape _ _ _ _ _ _ hpr

/-- **C33 for `_EDNSMessage.fromStr`**: a message, `EOFError` (also from a cut-off option inside an
    OPT record) or `ValueError`; the `AttributeError`/`struct.error` branches are unreachable. -/
theorem edns_decode_total (M : Bytes) :
    (∃ m, decodeEMsg M = .ok m) ∨ decodeEMsg M = .error .eof ∨ decodeEMsg M = .error .value := by
  have key : Benign (decodeEMsg M) := by
    unfold decodeEMsg
    split
    · rename_i e h
      intro e' he; cases he
      rcases message_decode_total M with ⟨m, hm⟩ | hm | hm <;> rw [hm] at h <;> cases h
      · exact Or.inl rfl
      · exact Or.inr rfl
    · rename_i m hm
      unfold fromMessage
      split
      · rename_i e he; intro e' he'; cases he'; exact optsOf_benign _ (decodeMsg_shape M m hm) _ he
      · split <;> exact Benign.ok _
  cases h : decodeEMsg M with
  | ok m => exact Or.inl ⟨m, rfl⟩
  | error e =>
    rcases key e h with rfl | rfl
    · exact Or.inr (Or.inl rfl)
    · exact Or.inr (Or.inr rfl)

end TwistedProps.C33
