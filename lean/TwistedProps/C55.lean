import TwistedModel.Log.Format
import TwistedProps.C55.NoKI
/-!
C55 — log formatting never raises.

For every log event (any shape: any format string incl. malformed / bytes / undecodable /
non-text, flattened or not, any `log_time`, `log_system`, `log_level`, `log_namespace`,
`log_failure`, any further values), every choice of flags and of the `formatTime` callable,
and **every tape of hostile outcomes** — i.e. whatever any `str`, `repr`, `format`,
attribute/index lookup, call, `getTraceback()` or `formatTime()` on an event-supplied value
does on its n-th use: return text, return a non-text, return another hostile object, raise
an exception of any class (`Exception` or `BaseException`-only), whose own `str()` may raise —
`formatEvent`, `eventAsText`, `formatEventAsClassicLogText` and `formatUnformattableEvent`
return a text (the classic formatter: a text or `None`) and do not raise.

`Returns m` says: from every state (tape + trace) `m` ends in `.ok`.  The result type `Text`
(resp. `Option Text`) is the "returns text" half of the statement.
-/
namespace TwistedProps.C55
open Twisted.Log.Format

/-- `m` returns normally from every state: no exception escapes, whatever the tape holds -/
def Returns {α} (m : M α) : Prop := ∀ s : St, ∃ a s', m s = (.ok a, s')

theorem returns_ret {α} (a : α) : Returns (ret a) := fun s => ⟨a, s, rfl⟩

theorem returns_pure {α} (a : α) : Returns (pure a : M α) := fun s => ⟨a, s, rfl⟩

theorem returns_bind {α β} {m : M α} {f : α → M β} (hm : Returns m) (hf : ∀ a, Returns (f a)) :
    Returns (m >>= f) := by
  intro s
  obtain ⟨a, s', h⟩ := hm s
  obtain ⟨b, s'', h'⟩ := hf a s'
  refine ⟨b, s'', ?_⟩
  show Twisted.Log.Format.bind m f s = _
  simp only [Twisted.Log.Format.bind, h, h']

/-- **the shape of every guard**: `try: m except BaseException as e: h e` returns as soon as
    the handler does — `m` may do anything -/
theorem returns_tryAll {α} (m : M α) {h : Exc → M α} (hh : ∀ e, Returns (h e)) :
    Returns (tryAll m h) := by
  intro s
  unfold tryAll
  rcases hm : m s with ⟨r, s'⟩
  cases r with
  | ok a => exact ⟨a, s', rfl⟩
  | error e => exact hh e s'

/-- `safe_repr` over all items of the event: each one is individually guarded -/
theorem returns_safeReprAll (vs : List (List Val)) : Returns (safeReprAll vs) := by
  induction vs with
  | nil => exact returns_ret ()
  | cons g rest ih =>
    unfold safeReprAll
    exact returns_bind (returns_tryAll _ fun _ => returns_ret ()) fun _ => ih

/-- `formatUnformattableEvent` never raises: for every event, every error object (its `str`
    may raise anything) and every tape. -/
theorem formatUnformattableEvent_total (ev : Event) (error : Exc) :
    Returns (formatUnformattableEvent ev error) := by
  unfold formatUnformattableEvent
  exact returns_tryAll _ fun _ =>
    returns_bind (returns_safeReprAll _) fun _ => returns_ret lostMark

/-- `_formatEvent` (the event text proper) never raises -/
theorem formatEventInner_total (ev : Event) : Returns (formatEventInner ev) := by
  unfold formatEventInner
  exact returns_tryAll _ fun e => formatUnformattableEvent_total ev e

theorem safeStrExc_total (e : Exc) : Returns (safeStrExc e) := by
  unfold safeStrExc
  exact returns_tryAll _ fun _ => returns_ret safeStrMark

/-- `_formatTraceback` never raises, whatever `log_failure` is and whatever its
    `getTraceback` does (raise anything, return a non-text) -/
theorem formatTraceback_total (f : Val) : Returns (formatTraceback f) := by
  unfold formatTraceback
  exact returns_tryAll _ fun e =>
    returns_bind (safeStrExc_total e) fun t => returns_ret (unableTb ++ t)

/-- `_formatSystem` never raises: `str(log_system)`, `log_level.name`, and formatting the
    namespace and level name may do anything -/
theorem formatSystem_total (ev : Event) : Returns (formatSystem ev) := by
  unfold formatSystem
  exact returns_tryAll _ fun _ => returns_ret _

theorem withTraceback_total (ev : Event) (fl : Flags) (t : Text) :
    Returns (withTraceback ev fl t) := by
  unfold withTraceback
  split
  · exact returns_bind (formatTraceback_total _) fun tb => returns_ret _
  · exact returns_ret _

/-- the timestamp part never raises: neither an unusable `log_time` under the default
    `formatTime` nor a caller-supplied `formatTime` that raises or returns a non-text -/
theorem timeStampPart_total (ev : Event) (fl : Flags) (fn : TimeFn) :
    Returns (timeStampPart ev fl fn) := by
  unfold timeStampPart
  split
  · exact returns_tryAll _ fun _ => returns_ret _
  · exact returns_ret _

theorem systemPart_total (ev : Event) (fl : Flags) : Returns (systemPart ev fl) := by
  unfold systemPart
  split
  · exact returns_bind (formatSystem_total ev) fun s => returns_ret _
  · exact returns_ret _

/-- **C55, main theorem**: `eventAsText` returns a text and never raises — for every event,
    all three flags, the default or any caller-supplied `formatTime`, and every tape. -/
theorem eventAsText_total (ev : Event) (fl : Flags) (fn : TimeFn) :
    Returns (eventAsText ev fl fn) := by
  unfold eventAsText
  refine returns_bind (formatEventInner_total ev) fun eventText => ?_
  refine returns_bind (withTraceback_total ev fl eventText) fun eventText' => ?_
  split
  · exact returns_ret _
  · exact returns_bind (timeStampPart_total ev fl fn) fun ts =>
      returns_bind (systemPart_total ev fl) fun sys => returns_ret _

/-- `formatEvent` returns a text and never raises. -/
theorem formatEvent_total (ev : Event) : Returns (formatEvent ev) :=
  eventAsText_total ev _ _

/-- `formatEventAsClassicLogText` returns a text or `None` and never raises. -/
theorem formatEventAsClassicLogText_total (ev : Event) (fn : TimeFn) :
    Returns (formatEventAsClassicLogText ev fn) := by
  unfold formatEventAsClassicLogText
  refine returns_bind (eventAsText_total ev _ fn) fun t => ?_
  split
  · exact returns_ret _
  · exact returns_ret _

/-- The same, spelled out without `Returns`: for every tape and every event there is a text. -/
theorem eventAsText_returns_text (ev : Event) (fl : Flags) (fn : TimeFn) (tape : List Outcome) :
    ∃ (t : Text) (s' : St), eventAsText ev fl fn ⟨tape, []⟩ = (.ok t, s') :=
  eventAsText_total ev fl fn ⟨tape, []⟩

/-! ### Non-vacuity: concrete hostile events (evaluated by the kernel) -/

def isText (r : Except Exc Text × St) (expected : String) : Bool :=
  match r with
  | (.ok t, _) => t == expected.toList
  | _ => false

def isNone (r : Except Exc (Option Text) × St) : Bool :=
  match r with
  | (.ok none, _) => true
  | _ => false

def isSome (r : Except Exc (Option Text) × St) (expected : String) : Bool :=
  match r with
  | (.ok (some t), _) => t == expected.toList
  | _ => false

def raisesCls (r : Except Exc Text × St) (c : ExcClass) : Bool :=
  match r with
  | (.error e, _) => e.cls == c
  | _ => false

def hello : FormatVal := .str [.lit "hello".toList]
def ev0 : Event := ⟨hello, .absent, none, none, none, none, [], .absent⟩
/-- raise KeyboardInterrupt; the exception's own `str()` raises SystemExit -/
def ki : Outcome := .raises ⟨.keyboardInterrupt, .bad .systemExit⟩
def mark (t : Text) : String := String.ofList t

-- str(log_system) raises KeyboardInterrupt, log_time = 'x', getTraceback raises an exception
-- whose str() raises SystemExit: still a text, with every part's fallback
example : isText (eventAsText { ev0 with system := some .hostile, time := .other (.text ['x']), failure := some .hostile }
    ⟨true, true, true⟩ .default ⟨[ki, ki], []⟩)
    ("- [UNFORMATTABLE] hello\n(UNABLE TO OBTAIN TRACEBACK FROM EVENT):" ++ mark safeStrMark) = true := by decide

-- log_level whose `.name` returns an object whose `__format__` returns None; getTraceback returns None
example : isText (eventAsText { ev0 with level := some .hostile, failure := some .hostile }
    ⟨true, true, true⟩ .default ⟨[.none, .obj, .none], []⟩)
    "- [UNFORMATTABLE] hello\n(UNABLE TO OBTAIN TRACEBACK FROM EVENT):getTraceback returned NoneType, not str" = true := by
  decide

-- a caller-supplied formatTime that raises a BaseException subclass; a good namespace and level
example : isText (eventAsText { ev0 with level := some .hostile, namespace_ := some (.text "ns".toList) }
    ⟨false, true, true⟩ .custom ⟨[.raises ⟨.hostileBase, .nonText⟩, .text "info".toList], []⟩)
    "- [ns#info] hello" = true := by decide

-- `{k0.zq()!r:>{k1}}` then a lone `}`: the field is formatted (4 oracle calls), then the parser
-- raises ValueError; `repr(event)` raises GeneratorExit → "MESSAGE LOST" family
example : isText (formatEvent
    { ev0 with format := .str [.field ⟨.name "k0" false, [⟨true, true⟩], .r, .nested ['>'] ⟨.name "k1" false, [], .none, []⟩ []⟩, .bad],
               extras := [("k0", .hostile), ("k1", .text ['7'])] }
    ⟨[.obj, .obj, .text "R".toList, .raises ⟨.generatorExit, .good []⟩], []⟩)
    (mark lostMark) = true := by decide

-- … and when the reprs behave: the "Unable to format event" family
example : isText (formatEvent
    { ev0 with format := .str [.field ⟨.name "k0" false, [], .none, .plain []⟩],
               extras := [("k0", .hostile)] }
    ⟨[.raises ⟨.keyboardInterrupt, .good "stop".toList⟩, .text "r".toList], []⟩)
    (mark unableMark) = true := by decide

-- the ordinary path is not trivialised: fields, conversion, nested width
example : isText (formatEvent
    { ev0 with format := .str [.lit "a=".toList, .field ⟨.name "k0" false, [⟨true, true⟩], .r, .nested ['>'] ⟨.name "k1" false, [], .none, []⟩ []⟩],
               extras := [("k0", .hostile), ("k1", .text ['4'])] }
    ⟨[.obj, .obj, .text "R".toList], []⟩)
    "a=   R" = true := by decide

-- classic: no format → None; text with newlines is indented and terminated
example : isNone (formatEventAsClassicLogText { ev0 with format := .absent } .default ⟨[], []⟩) = true := by decide
example : isSome (formatEventAsClassicLogText { ev0 with failure := some .hostile, system := some (.text "s".toList) }
    .default ⟨[.text "tb\nx".toList], []⟩) "- [s] hello\n\ttb\n\tx\n" = true := by decide

-- formatUnformattableEvent with an error whose str() raises KeyboardInterrupt
example : isText (formatUnformattableEvent { ev0 with extras := [("k0", .hostile)] } ⟨.valueError, .bad .keyboardInterrupt⟩
    ⟨[.text "ok".toList, ki], []⟩) (mark lostMark) = true := by decide

-- bytes where a text is expected (mutation audit M55): `log_system` is `b"\xff"`, `getTraceback()` returns
-- `b"\xff"`, a caller-supplied `formatTime` returns `b"\xff"` — the bytes are described, never decoded
example : isText (eventAsText { ev0 with system := some .bytes, failure := some .hostile }
    ⟨true, true, true⟩ .custom ⟨[.bytes, .bytes], []⟩)
    "- [b'\\xff'] hello\n(UNABLE TO OBTAIN TRACEBACK FROM EVENT):getTraceback returned bytes, not str" = true := by decide

-- a bytes `log_failure` / `log_level`, a field whose value is bytes formatted with `!r` and with a width
example : isText (eventAsText
    { ev0 with format := .str [.field ⟨.name "k0" false, [], .r, .plain []⟩, .field ⟨.name "k0" false, [], .none, .plain ['>', '9']⟩],
               level := some .bytes, failure := some .bytes, extras := [("k0", .bytes)] }
    ⟨true, false, true⟩ .default ⟨[], []⟩)
    ("[UNFORMATTABLE] " ++ mark unableMark ++
      "\n(UNABLE TO OBTAIN TRACEBACK FROM EVENT):'bytes' object has no attribute 'getTraceback'") = true := by decide

/-! ### Why the guards are needed: the code before the repair

Transcription of `_formatTraceback`, `_formatSystem` and `eventAsText` as they were before the
C55 repair (tied to the unchanged tree in the first commit of this property), and the six
unguarded statements through which an exception escaped — one concrete event each.  With these
definitions `eventAsText_total` is false. -/

/-- `try: m  except Exception as e: h e`  (BaseException-only classes propagate) -/
def tryException {α} (m : M α) (h : Exc → M α) : M α := fun s =>
  match m s with
  | (.ok a, s') => (.ok a, s')
  | (.error e, s') => if e.cls.isException then h e s' else (.error e, s')

def formatTracebackOld (f : Val) : M Val :=
  tryAll (getTraceback f) (fun e => do
    let t ← excStr e                       -- `str(e)`: unguarded
    ret (.text (unableTb ++ t)))

def formatSystemOld (ev : Event) : M Text :=
  match ev.system with
  | .none | some .none => do
    let levelName ← match ev.level with
      | .none | some .none => ret (Val.text ['-'])
      | some .hostile => anyVal .getattr          -- level.name: unguarded
      | some (.text _) => raise (plainExc .attributeError)
      | some .bytes => raise (plainExc .attributeError)
    let ns := match ev.namespace_ with
      | .none => Val.text ['-']
      | some v => v
    let a ← pyFormat ns []                        -- unguarded
    let b ← pyFormat levelName []
    ret (a ++ '#' :: b)
  | some v =>
    tryException (pyStr v) (fun _ => ret "UNFORMATTABLE".toList)

def eventAsTextOld (ev : Event) (fl : Flags) (fn : TimeFn) : M Text := do
  let eventText ← formatEventInner ev
  let eventText ← (match fl.includeTraceback, ev.failure with
    | true, some f => do
      let tb ← formatTracebackOld f
      let tb ← needText tb                     -- "\n".join((eventText, traceback)): unguarded
      ret (eventText ++ '\n' :: tb)
    | _, _ => ret eventText)
  if eventText.isEmpty then ret eventText
  else do
    let timeStamp ← (if fl.includeTimestamp then do
        let t ← formatTime fn ev.time           -- unguarded
        let t ← needText t
        ret (t ++ [' '])
      else ret [])
    let system ← (if fl.includeSystem then do
        let s ← formatSystemOld ev
        ret ('[' :: s ++ [']', ' '])
      else ret [])
    ret (timeStamp ++ system ++ eventText)

def all3 : Flags := ⟨true, true, true⟩

/-- `log_time = 'x'`: `formatTime` raised TypeError out of `eventAsText` -/
theorem unfixed_time_raises :
    raisesCls (eventAsTextOld { ev0 with time := .other (.text ['x']) } all3 .default ⟨[], []⟩) .typeError = true := by
  decide

/-- a `log_level` without `.name` (here: a str): AttributeError -/
theorem unfixed_level_name_raises :
    raisesCls (eventAsTextOld { ev0 with level := some (.text "info".toList) } all3 .default ⟨[], []⟩) .attributeError = true := by
  decide

/-- a `log_namespace` whose `__format__` raises: the exception escaped -/
theorem unfixed_namespace_format_raises :
    raisesCls (eventAsTextOld { ev0 with namespace_ := some .hostile } all3 .default
      ⟨[.raises ⟨.valueError, .good []⟩], []⟩) .valueError = true := by
  decide

/-- `str(log_system)` raising a BaseException-only class passed `except Exception` -/
theorem unfixed_system_baseexception_raises :
    raisesCls (eventAsTextOld { ev0 with system := some .hostile } all3 .default
      ⟨[.raises ⟨.keyboardInterrupt, .good []⟩], []⟩) .keyboardInterrupt = true := by
  decide

/-- `getTraceback()` raises `e` and `str(e)` raises: the handler itself raised -/
theorem unfixed_traceback_str_raises :
    raisesCls (eventAsTextOld { ev0 with failure := some .hostile } all3 .default
      ⟨[.raises ⟨.hostileError, .bad .systemExit⟩], []⟩) .systemExit = true := by
  decide

/-- `getTraceback()` returns a non-text: `"\n".join` raised TypeError -/
theorem unfixed_traceback_nontext_raises :
    raisesCls (eventAsTextOld { ev0 with failure := some .hostile } all3 .default ⟨[.none], []⟩) .typeError = true := by
  decide

/-- on each of those six events the repaired code returns a text -/
theorem repaired_on_the_six_witnesses :
    isText (eventAsText { ev0 with time := .other (.text ['x']) } all3 .default ⟨[], []⟩) "- [-#-] hello" = true ∧
    isText (eventAsText { ev0 with level := some (.text "info".toList) } all3 .default ⟨[], []⟩) "- [UNFORMATTABLE] hello" = true ∧
    isText (eventAsText { ev0 with namespace_ := some .hostile } all3 .default ⟨[.raises ⟨.valueError, .good []⟩], []⟩)
      "- [UNFORMATTABLE] hello" = true ∧
    isText (eventAsText { ev0 with system := some .hostile } all3 .default ⟨[.raises ⟨.keyboardInterrupt, .good []⟩], []⟩)
      "- [UNFORMATTABLE] hello" = true ∧
    isText (eventAsText { ev0 with failure := some .hostile } all3 .default ⟨[.raises ⟨.hostileError, .bad .systemExit⟩], []⟩)
      ("- [-#-] hello\n(UNABLE TO OBTAIN TRACEBACK FROM EVENT):" ++ mark safeStrMark) = true ∧
    isText (eventAsText { ev0 with failure := some .hostile } all3 .default ⟨[.none], []⟩)
      "- [-#-] hello\n(UNABLE TO OBTAIN TRACEBACK FROM EVENT):getTraceback returned NoneType, not str" = true := by
  decide

/-! ### The legacy path: `twisted.python.log.textFromEventDict` / `_safeFormat`

`textFromEventDict` returns a text or `None` for every legacy event dict and every tape —
**except** that `_safeFormat` deliberately re-raises `KeyboardInterrupt`
(`except KeyboardInterrupt: raise`) out of its first attempt `fmtString % fmtDict`
(recorded finding `raises:_safeFormat/reraise-KeyboardInterrupt`).  The theorems make that the
*only* way out: `textFromEventDict_raises_iff` characterises every raising run,
`textFromEventDict_total` is totality under the hypothesis that the first `%` does not end in
`KeyboardInterrupt`, `textFromEventDict_total_of_noKI_tape` discharges the hypothesis for every
tape without such an outcome, and `textFromEventDict_counterexample` is the finding. -/

section LegacyPath
open Twisted.Log.Format.Legacy

theorem safeStrVal_total (v : Val) : Returns (safeStrVal v) := by
  unfold safeStrVal
  exact returns_tryAll _ fun _ => returns_ret safeStrMark

/-- `" ".join(map(safe_str, message))` never raises, whatever the `str` of each element does -/
theorem safeStrAll_total (vs : List Val) : Returns (safeStrAll vs) := by
  induction vs with
  | nil => exact returns_ret []
  | cons v rest ih =>
    unfold safeStrAll
    exact returns_bind (safeStrVal_total v) fun t => returns_bind ih fun ts => returns_ret _

theorem whyText_total (w : Option Val) : Returns (whyText w) := by
  unfold whyText
  split
  · exact returns_ret _
  · exact returns_ret _
  · split
    · exact returns_ret _
    · exact returns_ret _
  · exact safeStrVal_total _
  · exact safeStrVal_total _

/-- the guarded `failure.getTraceback()` of the legacy path never raises (raise anything, return a
    non-text, a `failure` without `getTraceback`) -/
theorem legacyTraceback_total (f : Val) : Returns (legacyTraceback f) := by
  unfold legacyTraceback
  exact returns_tryAll _ fun e =>
    returns_bind (safeStrExc_total e) fun t => returns_ret (unableLegacyTb ++ t)

/-- the three nested fallbacks of `_safeFormat` never raise: the innermost handler is a constant -/
theorem safeFormatFallback_total (ev : Legacy.Event) : Returns (safeFormatFallback ev) := by
  unfold safeFormatFallback
  exact returns_tryAll _ fun _ => returns_tryAll _ fun _ => returns_ret pathological

/-- **`_safeFormat` raises exactly when its first attempt `fmtString % fmtDict` raises
    `KeyboardInterrupt`, and then it raises that very exception** -/
theorem safeFormat_raises_iff (ev : Legacy.Event) (s : St) (e : Exc) (s' : St) :
    safeFormat ev s = (.error e, s') ↔
      percentFormat ev s = (.error e, s') ∧ e.cls = .keyboardInterrupt := by
  unfold safeFormat tryAllButKI
  rcases hp : percentFormat ev s with ⟨r, s1⟩
  cases r with
  | ok t => simp
  | error e1 =>
    by_cases hk : e1.cls = .keyboardInterrupt
    · simp only [hk, if_true]
      constructor
      · intro h; cases h; exact ⟨rfl, hk⟩
      · intro h; exact h.1
    · simp only [hk, if_false]
      obtain ⟨t, s2, hf⟩ := safeFormatFallback_total ev s1
      rw [hf]
      constructor
      · intro h; cases h
      · intro h; obtain ⟨h1, h2⟩ := h; cases h1; exact absurd h2 hk

/-- `_safeFormat` returns a text whenever the first `%` does not end in `KeyboardInterrupt` -/
theorem safeFormat_total (ev : Legacy.Event) (s : St)
    (h : ∀ e s', percentFormat ev s = (.error e, s') → e.cls ≠ .keyboardInterrupt) :
    ∃ t s', safeFormat ev s = (.ok t, s') := by
  rcases hs : safeFormat ev s with ⟨r, s'⟩
  cases r with
  | ok t => exact ⟨t, s', rfl⟩
  | error e =>
    obtain ⟨h1, h2⟩ := (safeFormat_raises_iff ev s e s').1 hs
    exact absurd h2 (h e s' h1)

/-- the event reaches `_safeFormat`: empty `message`, not (isError with a `failure`), a `format` key -/
def ReachesFormat (ev : Legacy.Event) : Prop :=
  ev.message = [] ∧ ¬(ev.isError = true ∧ ev.failure.isSome = true) ∧ ev.format ≠ .absent

/-- `textFromEventDict` on an event that reaches `_safeFormat` is `_safeFormat`'s text -/
theorem textFromEventDict_eq_of_reaches (ev : Legacy.Event) (h : ReachesFormat ev) :
    textFromEventDict ev = (safeFormat ev >>= fun t => ret (some t)) := by
  obtain ⟨hm, he, hf⟩ := h
  unfold textFromEventDict
  rw [hm]
  rcases hi : ev.isError with _ | _ <;> rcases hfa : ev.failure with _ | f <;>
    rcases hfo : ev.format with _ | _ | _ | _ <;> simp_all <;> rfl

/-- `textFromEventDict` on an event that does not reach `_safeFormat` never raises:
    the `message` join, the isError/failure/why branch and "don't know how to log this" -/
theorem textFromEventDict_total_without_format (ev : Legacy.Event) (h : ¬ReachesFormat ev) :
    Returns (textFromEventDict ev) := by
  unfold textFromEventDict
  split
  · rename_i hm
    split
    · exact returns_bind (whyText_total _) fun w =>
        returns_bind (legacyTraceback_total _) fun tb => returns_ret _
    · rename_i hne
      split
      · exact returns_ret _
      · rename_i hf
        exfalso
        apply h
        refine ⟨hm, ?_, hf⟩
        intro ⟨h1, h2⟩
        rcases hfa : ev.failure with _ | f
        · simp [hfa] at h2
        · exact hne f h1 hfa
  · exact returns_bind (safeStrAll_total _) fun ts => returns_ret _

/-- **every raising run of `textFromEventDict` is the recorded finding**: it raises iff the event
    reaches `_safeFormat` and the first `fmtString % fmtDict` raises `KeyboardInterrupt`; what it
    raises is that exception. -/
theorem textFromEventDict_raises_iff (ev : Legacy.Event) (s : St) (e : Exc) (s' : St) :
    textFromEventDict ev s = (.error e, s') ↔
      ReachesFormat ev ∧ percentFormat ev s = (.error e, s') ∧ e.cls = .keyboardInterrupt := by
  by_cases hr : ReachesFormat ev
  · rw [textFromEventDict_eq_of_reaches ev hr]
    show Twisted.Log.Format.bind (safeFormat ev) _ s = _ ↔ _
    unfold Twisted.Log.Format.bind
    rcases hs : safeFormat ev s with ⟨r, s1⟩
    cases r with
    | ok t =>
      constructor
      · intro h; cases h
      · intro ⟨_, h1, h2⟩
        have := (safeFormat_raises_iff ev s e s').2 ⟨h1, h2⟩
        rw [hs] at this; cases this
    | error e1 =>
      constructor
      · intro h
        cases h
        exact ⟨hr, (safeFormat_raises_iff ev s e s').1 hs⟩
      · intro ⟨_, h1, h2⟩
        have := (safeFormat_raises_iff ev s e s').2 ⟨h1, h2⟩
        rw [hs] at this; cases this; rfl
  · constructor
    · intro h
      obtain ⟨a, s2, h2⟩ := textFromEventDict_total_without_format ev hr s
      rw [h2] at h; cases h
    · intro ⟨h, _⟩; exact absurd h hr

/-- **C55, legacy path**: `textFromEventDict` returns a text or `None` and does not raise — for
    every legacy event dict and every state (tape) from which the first `fmtString % fmtDict` of
    `_safeFormat` does not end in `KeyboardInterrupt` (the recorded finding, see
    `textFromEventDict_counterexample`; no other exception class, at no other place, escapes). -/
theorem textFromEventDict_total (ev : Legacy.Event) (s : St)
    (h : ∀ e s', percentFormat ev s = (.error e, s') → e.cls ≠ .keyboardInterrupt) :
    ∃ r s', textFromEventDict ev s = (.ok r, s') := by
  rcases hs : textFromEventDict ev s with ⟨r, s'⟩
  cases r with
  | ok r => exact ⟨r, s', rfl⟩
  | error e =>
    obtain ⟨_, h1, h2⟩ := (textFromEventDict_raises_iff ev s e s').1 hs
    exact absurd h2 (h e s' h1)

/-- the hypothesis of `textFromEventDict_total` holds for every tape none of whose outcomes raises
    `KeyboardInterrupt`: then `textFromEventDict` returns a text or `None`, whatever else the
    values do (any other class, BaseException-only ones included, exceptions whose `str` raises —
    even `KeyboardInterrupt` from the `str` of such an exception, which only handlers evaluate) -/
theorem textFromEventDict_total_of_noKI_tape (ev : Legacy.Event) (tape : List Outcome)
    (trace : List Call) (h : TapeNoKI tape) :
    ∃ r s', textFromEventDict ev ⟨tape, trace⟩ = (.ok r, s') :=
  textFromEventDict_total ev ⟨tape, trace⟩ fun e s' he =>
    (noKI_percentFormat ev ⟨tape, trace⟩ h).2 e (by rw [he])

def raisesClsOpt (r : Except Exc (Option Text) × St) (c : ExcClass) : Bool :=
  match r with
  | (.error e, _) => e.cls == c
  | _ => false

def lev0 : Legacy.Event := ⟨[], false, .absent, none, none, []⟩

/-- **the finding**: `{'message': (), 'isError': 0, 'format': '%(a)s', 'a': <str raises
    KeyboardInterrupt>}` — `textFromEventDict` raises KeyboardInterrupt -/
theorem textFromEventDict_counterexample :
    raisesClsOpt (textFromEventDict { lev0 with format := .str [.keyed "a" 0 .s], extras := [("a", .hostile)] }
      ⟨[.raises ⟨.keyboardInterrupt, .good []⟩], []⟩) .keyboardInterrupt = true := by
  decide

/-- … also through `repr` of the whole dict (`'%s' % eventDict`) and through a bytes format -/
theorem textFromEventDict_counterexample_dict_repr :
    raisesClsOpt (textFromEventDict { lev0 with format := .str [.pos 0 .s], extras := [("a", .hostile)] }
      ⟨[.raises ⟨.keyboardInterrupt, .good []⟩], []⟩) .keyboardInterrupt = true ∧
    raisesClsOpt (textFromEventDict { lev0 with format := .bytes [.pos 0 .r], extras := [("a", .hostile)] }
      ⟨[.raises ⟨.keyboardInterrupt, .good []⟩], []⟩) .keyboardInterrupt = true := by
  decide

/-! non-vacuity of the legacy theorems -/

-- any other BaseException-only class from the first `%` is swallowed; then `repr(eventDict)` raises
-- KeyboardInterrupt *inside the handler*: still a text (second fallback)
example : isSome (textFromEventDict { lev0 with format := .str [.keyed "a" 0 .s], extras := [("a", .hostile)] }
    ⟨[.raises ⟨.systemExit, .good []⟩, ki], []⟩) (mark lostFmtMark) = true := by decide

-- a hostile format object whose repr always raises: the constant third fallback
example : isSome (textFromEventDict { lev0 with format := .other .hostile } ⟨[ki, ki], []⟩)
    "PATHOLOGICAL ERROR IN BOTH FORMAT STRING AND MESSAGE DETAILS, MESSAGE LOST" = true := by decide

-- the ordinary path is not trivialised: literal with a `%`, width, repr, ascii, str of the whole dict
example : isSome (textFromEventDict
    { lev0 with format := .str [.lit "x%".toList, .keyed "a" 4 .s, .keyed "b" 0 .r, .keyed "c" 0 .a],
                extras := [("a", .text "é".toList), ("b", .text "q\n".toList), ("c", .hostile)] }
    ⟨[.text "€".toList], []⟩) "x%   é'q\\n'\\u20ac" = true := by decide
example : isSome (textFromEventDict { lev0 with format := .str [.pos 3 .s, .lit "!".toList], extras := [("a", .hostile)] }
    ⟨[.text "r".toList], []⟩) ("  " ++ mark dictMark ++ "!") = true := by decide

-- a bytes format is not returned as bytes (the repaired `_safeFormat`): "Invalid format string …"
example : isSome (textFromEventDict { lev0 with format := .bytes [.lit "x".toList] } ⟨[], []⟩)
    (mark invalidMark) = true := by decide

-- isError + failure: `str(why)` raises KeyboardInterrupt, getTraceback returns None (raised TypeError
-- before the repair): a text with both fallbacks
example : isSome (textFromEventDict { lev0 with isError := true, failure := some .hostile, why := some .hostile }
    ⟨[ki, .none], []⟩)
    (mark safeStrMark ++ "\n(unable to obtain traceback): getTraceback returned NoneType, not str") = true := by decide

-- the message tuple: every element through `safe_str`
example : isSome (textFromEventDict { lev0 with message := [.hostile, .text "b".toList, .none, .hostile] }
    ⟨[ki, .text "s".toList], []⟩) (mark safeStrMark ++ " b None s") = true := by decide

-- nothing to log: None
example : isNone (textFromEventDict { lev0 with isError := true } ⟨[], []⟩) = true := by decide

-- bytes in the legacy dict (mutation audit M55): an undecodable `why`, `getTraceback()` returning bytes, bytes in the message
example : isSome (textFromEventDict { lev0 with isError := true, failure := some .hostile, why := some .bytes }
    ⟨[.bytes], []⟩) "b'\\xff'\n(unable to obtain traceback): getTraceback returned bytes, not str" = true := by decide
example : isSome (textFromEventDict { lev0 with message := [.bytes, .hostile] } ⟨[.bytes], []⟩)
    ("b'\\xff' " ++ mark safeStrMark) = true := by decide

-- the tape hypothesis is satisfiable by hostile tapes
example : TapeNoKI [.raises ⟨.systemExit, .bad .keyboardInterrupt⟩, .none, .obj, .raises ⟨.hostileBase, .nonText⟩] := by
  intro o ho
  simp only [List.mem_cons, List.not_mem_nil, or_false] at ho
  rcases ho with rfl | rfl | rfl | rfl <;> simp [OutcomeNoKI]

/-! the legacy path before the repair of this round: `getTraceback()` returning a non-text made
`why + "\n" + traceback` raise TypeError -/

def legacyTracebackOld (f : Val) : M Val :=
  tryAll (getTraceback f) (fun e => do
    let t ← safeStrExc e
    ret (.text (unableLegacyTb ++ t)))

def textFromEventDictErrorBranchOld (ev : Legacy.Event) (f : Val) : M (Option Text) := do
  let why ← whyText ev.why
  let tb ← legacyTracebackOld f
  let tb ← needText tb                  -- `why + "\n" + traceback`: unguarded
  ret (some (why ++ '\n' :: tb))

theorem unfixed_legacy_traceback_nontext_raises :
    raisesClsOpt (textFromEventDictErrorBranchOld { lev0 with isError := true, failure := some .hostile } .hostile
      ⟨[.none], []⟩) .typeError = true ∧
    isSome (textFromEventDict { lev0 with isError := true, failure := some .hostile } ⟨[.none], []⟩)
      "Unhandled Error\n(unable to obtain traceback): getTraceback returned NoneType, not str" = true := by
  decide

end LegacyPath

/-! ### The classic log line end to end: what `log_time`, `log_system`, `log_level` turn into -/

theorem bind_of_ok {α β} {m : M α} {f : α → M β} {s : St} {a : α} {s1 : St}
    (h : m s = (.ok a, s1)) : (m >>= f) s = f a s1 := by
  show Twisted.Log.Format.bind m f s = _
  simp only [Twisted.Log.Format.bind, h]

theorem bind_ok_inv {α β} {m : M α} {f : α → M β} {s : St} {b : β} {s' : St}
    (h : (m >>= f) s = (.ok b, s')) : ∃ a s1, m s = (.ok a, s1) ∧ f a s1 = (.ok b, s') := by
  change Twisted.Log.Format.bind m f s = _ at h
  unfold Twisted.Log.Format.bind at h
  rcases hm : m s with ⟨r, s1⟩
  rw [hm] at h
  cases r with
  | ok a => exact ⟨a, s1, rfl, h⟩
  | error e => cases h

/-- the timestamp part of the classic line is a text followed by one space; with the default
    `formatTime` the text is the formatted time or `-` (missing / `None` / unusable `log_time`) -/
theorem timeStampPart_shape (ev : Event) (fl : Flags) (fn : TimeFn) (h : fl.includeTimestamp = true)
    (s : St) :
    ∃ t s', timeStampPart ev fl fn s = (.ok (t ++ [' ']), s') ∧
      (fn = .default → t = ['-'] ∨ t = timeMark) := by
  unfold timeStampPart
  simp only [h, if_true]
  unfold tryAll
  split
  · rename_i a s' hm
    obtain ⟨v, s1, hv, h2⟩ := bind_ok_inv hm
    obtain ⟨t, s2, ht, h3⟩ := bind_ok_inv h2
    cases h3
    refine ⟨t, _, rfl, ?_⟩
    intro hfn
    subst hfn
    cases v with
    | none => cases ht
    | hostile => cases ht
    | bytes => cases ht
    | text t' =>
      cases ht
      rcases hT : ev.time with _ | _ | _ | _ | _ | _ | w
      all_goals (simp only [formatTime, hT, ret, raise] at hv)
      all_goals (first | (cases hv; simp) | (cases hv) | skip)
      cases w <;> simp only [ret, raise] at hv <;> cases hv
      simp
  · exact ⟨['-'], _, rfl, fun _ => Or.inl rfl⟩

/-- the system part is `[` system `] ` -/
theorem systemPart_shape (ev : Event) (fl : Flags) (h : fl.includeSystem = true) (s : St) :
    ∃ sys s', systemPart ev fl s = (.ok ('[' :: sys ++ [']', ' ']), s') := by
  unfold systemPart
  simp only [h, if_true]
  obtain ⟨sys, s', hs⟩ := formatSystem_total ev s
  exact ⟨sys, s', by rw [bind_of_ok hs]; rfl⟩

/-- **the classic log line, end to end**: `formatEventAsClassicLogText` returns `None` (no text
    to log) or exactly `timeStamp + " [" + system + "] " + eventText` with embedded newlines
    indented and a final newline — for every event (any `log_time`, `log_system`, `log_level`,
    `log_namespace`), the default or any hostile `formatTime`, and every tape. -/
theorem formatEventAsClassicLogText_structure (ev : Event) (fn : TimeFn) (s : St) :
    (∃ s', formatEventAsClassicLogText ev fn s = (.ok none, s')) ∨
    ∃ ts sys body s', body ≠ [] ∧ (fn = .default → ts = ['-'] ∨ ts = timeMark) ∧
      formatEventAsClassicLogText ev fn s =
        (.ok (some (indentNewlines (ts ++ ' ' :: '[' :: sys ++ ']' :: ' ' :: body) ++ ['\n'])), s') := by
  obtain ⟨t0, s0, h0⟩ := formatEventInner_total ev s
  obtain ⟨t1, s1, h1⟩ := withTraceback_total ev ⟨true, true, true⟩ t0 s0
  unfold formatEventAsClassicLogText eventAsText
  by_cases hemp : t1.isEmpty = true
  · left
    refine ⟨s1, ?_⟩
    rw [bind_of_ok (by rw [bind_of_ok h0, bind_of_ok h1]; simp only [hemp, if_true]; rfl)]
    simp only [hemp, if_true]; rfl
  · right
    obtain ⟨ts, s2, h2, hts⟩ := timeStampPart_shape ev ⟨true, true, true⟩ fn rfl s1
    obtain ⟨sys, s3, h3⟩ := systemPart_shape ev ⟨true, true, true⟩ rfl s2
    refine ⟨ts, sys, t1, s3, ?_, hts, ?_⟩
    · intro h; apply hemp; simp [h]
    · rw [bind_of_ok (a := ts ++ [' '] ++ ('[' :: sys ++ [']', ' ']) ++ t1) (s1 := s3)
        (by rw [bind_of_ok h0, bind_of_ok h1]; simp only [hemp, Bool.false_eq_true, if_false]; rw [bind_of_ok h2, bind_of_ok h3]; rfl)]
      have hne : (ts ++ [' '] ++ ('[' :: sys ++ [']', ' ']) ++ t1).isEmpty = false := by
        cases ts <;> simp
      simp only [hne]
      simp [ret]

/-- what the system part can be: `str(log_system)` when that key holds a value other than `None`
    and its `str` works; otherwise `namespace#level`; in every failing case `UNFORMATTABLE` -/
theorem formatSystem_cases (ev : Event) (s : St) :
    ∃ sys s', formatSystem ev s = (.ok sys, s') ∧
      (sys = "UNFORMATTABLE".toList ∨
       (∃ v, ev.system = some v ∧ v ≠ .none ∧ pyStr v s = (.ok sys, s')) ∨
       ((ev.system = none ∨ ev.system = some .none) ∧ ∃ a b, sys = a ++ '#' :: b)) := by
  unfold formatSystem tryAll
  split
  · rename_i a s' hm
    refine ⟨a, s', rfl, ?_⟩
    rcases hsys : ev.system with _ | v
    · right; right
      refine ⟨Or.inl rfl, ?_⟩
      rw [hsys] at hm
      simp only at hm
      rcases hl : ev.level with _ | (_ | _ | _ | _) <;> rw [hl] at hm <;> simp only at hm
      all_goals
        obtain ⟨ln, s1, _, h2⟩ := bind_ok_inv hm
        obtain ⟨x, s2, _, h3⟩ := bind_ok_inv h2
        obtain ⟨y, s3, _, h4⟩ := bind_ok_inv h3
        cases h4
        exact ⟨x, y, rfl⟩
    · cases v with
      | none =>
        right; right
        refine ⟨Or.inr rfl, ?_⟩
        rw [hsys] at hm
        simp only at hm
        rcases hl : ev.level with _ | (_ | _ | _ | _) <;> rw [hl] at hm <;> simp only at hm
        all_goals
          obtain ⟨ln, s1, _, h2⟩ := bind_ok_inv hm
          obtain ⟨x, s2, _, h3⟩ := bind_ok_inv h2
          obtain ⟨y, s3, _, h4⟩ := bind_ok_inv h3
          cases h4
          exact ⟨x, y, rfl⟩
      | text t =>
        right; left
        rw [hsys] at hm
        exact ⟨_, rfl, by simp, hm⟩
      | hostile =>
        right; left
        rw [hsys] at hm
        exact ⟨_, rfl, by simp, hm⟩
      | bytes =>
        right; left
        rw [hsys] at hm
        exact ⟨_, rfl, by simp, hm⟩
  · exact ⟨_, _, rfl, Or.inl rfl⟩

-- non-vacuity: a real time stamp, a level with a name, a multi-line traceback
example : isSome (formatEventAsClassicLogText
    { ev0 with time := .good, level := some .hostile, namespace_ := some (.text "ns".toList), failure := some .hostile }
    .default ⟨[.text "tb\nx".toList, .text "warn".toList], []⟩)
    (mark timeMark ++ " [ns#warn] hello\n\ttb\n\tx\n") = true := by decide

end TwistedProps.C55
