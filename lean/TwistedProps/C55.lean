import TwistedModel.Log.Format
/-!
C55 — log formatting never raises.

For every log event (any shape: any format string incl. malformed / bytes / undecodable /
non-text, flattened or not, any `log_time`, `log_system`, `log_level`, `log_namespace`,
`log_failure`, any further values), every choice of flags and of the `formatTime` callable,
and **every tape of hostile outcomes** — i.e. whatever any `str`, `repr`, `format`,
attribute/index lookup, call, `getTraceback()` or `formatTime()` on an event-supplied value
does on its n-th use: return text, return a non-text, return another hostile object, raise
an exception of any class (`Exception` or `BaseException`-only), whose own `str()` may raise —
`formatEvent`, `eventAsText`, `formatEventAsClassicLogText` and `formatUnformattableEvent`
return a text (the classic formatter: a text or `None`) and do not raise.

`Returns m` says: from every state (tape + trace) `m` ends in `.ok`.  The result type `Text`
(resp. `Option Text`) is the "returns text" half of the statement.
-/
namespace TwistedProps.C55
open Twisted.Log.Format

/-- `m` returns normally from every state: no exception escapes, whatever the tape holds -/
def Returns {α} (m : M α) : Prop := ∀ s : St, ∃ a s', m s = (.ok a, s')

theorem returns_ret {α} (a : α) : Returns (ret a) := fun s => ⟨a, s, rfl⟩

theorem returns_pure {α} (a : α) : Returns (pure a : M α) := fun s => ⟨a, s, rfl⟩

theorem returns_bind {α β} {m : M α} {f : α → M β} (hm : Returns m) (hf : ∀ a, Returns (f a)) :
    Returns (m >>= f) := by
  intro s
  obtain ⟨a, s', h⟩ := hm s
  obtain ⟨b, s'', h'⟩ := hf a s'
  refine ⟨b, s'', ?_⟩
  show Twisted.Log.Format.bind m f s = _
  simp only [Twisted.Log.Format.bind, h, h']

/-- **the shape of every guard**: `try: m except BaseException as e: h e` returns as soon as
    the handler does — `m` may do anything -/
theorem returns_tryAll {α} (m : M α) {h : Exc → M α} (hh : ∀ e, Returns (h e)) :
    Returns (tryAll m h) := by
  intro s
  unfold tryAll
  rcases hm : m s with ⟨r, s'⟩
  cases r with
  | ok a => exact ⟨a, s', rfl⟩
  | error e => exact hh e s'

/-- `safe_repr` over all items of the event: each one is individually guarded -/
theorem returns_safeReprAll (vs : List (List Val)) : Returns (safeReprAll vs) := by
  induction vs with
  | nil => exact returns_ret ()
  | cons g rest ih =>
    unfold safeReprAll
    exact returns_bind (returns_tryAll _ fun _ => returns_ret ()) fun _ => ih

/-- `formatUnformattableEvent` never raises: for every event, every error object (its `str`
    may raise anything) and every tape. -/
theorem formatUnformattableEvent_total (ev : Event) (error : Exc) :
    Returns (formatUnformattableEvent ev error) := by
  unfold formatUnformattableEvent
  exact returns_tryAll _ fun _ =>
    returns_bind (returns_safeReprAll _) fun _ => returns_ret lostMark

/-- `_formatEvent` (the event text proper) never raises -/
theorem formatEventInner_total (ev : Event) : Returns (formatEventInner ev) := by
  unfold formatEventInner
  exact returns_tryAll _ fun e => formatUnformattableEvent_total ev e

theorem safeStrExc_total (e : Exc) : Returns (safeStrExc e) := by
  unfold safeStrExc
  exact returns_tryAll _ fun _ => returns_ret safeStrMark

/-- `_formatTraceback` never raises, whatever `log_failure` is and whatever its
    `getTraceback` does (raise anything, return a non-text) -/
theorem formatTraceback_total (f : Val) : Returns (formatTraceback f) := by
  unfold formatTraceback
  exact returns_tryAll _ fun e =>
    returns_bind (safeStrExc_total e) fun t => returns_ret (unableTb ++ t)

/-- `_formatSystem` never raises: `str(log_system)`, `log_level.name`, and formatting the
    namespace and level name may do anything -/
theorem formatSystem_total (ev : Event) : Returns (formatSystem ev) := by
  unfold formatSystem
  exact returns_tryAll _ fun _ => returns_ret _

theorem withTraceback_total (ev : Event) (fl : Flags) (t : Text) :
    Returns (withTraceback ev fl t) := by
  unfold withTraceback
  split
  · exact returns_bind (formatTraceback_total _) fun tb => returns_ret _
  · exact returns_ret _

/-- the timestamp part never raises: neither an unusable `log_time` under the default
    `formatTime` nor a caller-supplied `formatTime` that raises or returns a non-text -/
theorem timeStampPart_total (ev : Event) (fl : Flags) (fn : TimeFn) :
    Returns (timeStampPart ev fl fn) := by
  unfold timeStampPart
  split
  · exact returns_tryAll _ fun _ => returns_ret _
  · exact returns_ret _

theorem systemPart_total (ev : Event) (fl : Flags) : Returns (systemPart ev fl) := by
  unfold systemPart
  split
  · exact returns_bind (formatSystem_total ev) fun s => returns_ret _
  · exact returns_ret _

/-- **C55, main theorem**: `eventAsText` returns a text and never raises — for every event,
    all three flags, the default or any caller-supplied `formatTime`, and every tape. -/
theorem eventAsText_total (ev : Event) (fl : Flags) (fn : TimeFn) :
    Returns (eventAsText ev fl fn) := by
  unfold eventAsText
  refine returns_bind (formatEventInner_total ev) fun eventText => ?_
  refine returns_bind (withTraceback_total ev fl eventText) fun eventText' => ?_
  split
  · exact returns_ret _
  · exact returns_bind (timeStampPart_total ev fl fn) fun ts =>
      returns_bind (systemPart_total ev fl) fun sys => returns_ret _

/-- `formatEvent` returns a text and never raises. -/
theorem formatEvent_total (ev : Event) : Returns (formatEvent ev) :=
  eventAsText_total ev _ _

/-- `formatEventAsClassicLogText` returns a text or `None` and never raises. -/
theorem formatEventAsClassicLogText_total (ev : Event) (fn : TimeFn) :
    Returns (formatEventAsClassicLogText ev fn) := by
  unfold formatEventAsClassicLogText
  refine returns_bind (eventAsText_total ev _ fn) fun t => ?_
  split
  · exact returns_ret _
  · exact returns_ret _

/-- The same, spelled out without `Returns`: for every tape and every event there is a text. -/
theorem eventAsText_returns_text (ev : Event) (fl : Flags) (fn : TimeFn) (tape : List Outcome) :
    ∃ (t : Text) (s' : St), eventAsText ev fl fn ⟨tape, []⟩ = (.ok t, s') :=
  eventAsText_total ev fl fn ⟨tape, []⟩

/-! ### Non-vacuity: concrete hostile events (evaluated by the kernel) -/

def isText (r : Except Exc Text × St) (expected : String) : Bool :=
  match r with
  | (.ok t, _) => t == expected.toList
  | _ => false

def isNone (r : Except Exc (Option Text) × St) : Bool :=
  match r with
  | (.ok none, _) => true
  | _ => false

def isSome (r : Except Exc (Option Text) × St) (expected : String) : Bool :=
  match r with
  | (.ok (some t), _) => t == expected.toList
  | _ => false

def raisesCls (r : Except Exc Text × St) (c : ExcClass) : Bool :=
  match r with
  | (.error e, _) => e.cls == c
  | _ => false

def hello : FormatVal := .str [.lit "hello".toList]
def ev0 : Event := ⟨hello, .absent, none, none, none, none, [], .absent⟩
/-- raise KeyboardInterrupt; the exception's own `str()` raises SystemExit -/
def ki : Outcome := .raises ⟨.keyboardInterrupt, .bad .systemExit⟩
def mark (t : Text) : String := String.ofList t

-- str(log_system) raises KeyboardInterrupt, log_time = 'x', getTraceback raises an exception
-- whose str() raises SystemExit: still a text, with every part's fallback
example : isText (eventAsText { ev0 with system := some .hostile, time := .other (.text ['x']), failure := some .hostile }
    ⟨true, true, true⟩ .default ⟨[ki, ki], []⟩)
    ("- [UNFORMATTABLE] hello\n(UNABLE TO OBTAIN TRACEBACK FROM EVENT):" ++ mark safeStrMark) = true := by decide

-- log_level whose `.name` returns an object whose `__format__` returns None; getTraceback returns None
example : isText (eventAsText { ev0 with level := some .hostile, failure := some .hostile }
    ⟨true, true, true⟩ .default ⟨[.none, .obj, .none], []⟩)
    "- [UNFORMATTABLE] hello\n(UNABLE TO OBTAIN TRACEBACK FROM EVENT):getTraceback returned NoneType, not str" = true := by
  decide

-- a caller-supplied formatTime that raises a BaseException subclass; a good namespace and level
example : isText (eventAsText { ev0 with level := some .hostile, namespace_ := some (.text "ns".toList) }
    ⟨false, true, true⟩ .custom ⟨[.raises ⟨.hostileBase, .nonText⟩, .text "info".toList], []⟩)
    "- [ns#info] hello" = true := by decide

-- `{k0.zq()!r:>{k1}}` then a lone `}`: the field is formatted (4 oracle calls), then the parser
-- raises ValueError; `repr(event)` raises GeneratorExit → "MESSAGE LOST" family
example : isText (formatEvent
    { ev0 with format := .str [.field ⟨.name "k0" false, [⟨true, true⟩], .r, .nested ['>'] ⟨.name "k1" false, [], .none, []⟩ []⟩, .bad],
               extras := [("k0", .hostile), ("k1", .text ['7'])] }
    ⟨[.obj, .obj, .text "R".toList, .raises ⟨.generatorExit, .good []⟩], []⟩)
    (mark lostMark) = true := by decide

-- … and when the reprs behave: the "Unable to format event" family
example : isText (formatEvent
    { ev0 with format := .str [.field ⟨.name "k0" false, [], .none, .plain []⟩],
               extras := [("k0", .hostile)] }
    ⟨[.raises ⟨.keyboardInterrupt, .good "stop".toList⟩, .text "r".toList], []⟩)
    (mark unableMark) = true := by decide

-- the ordinary path is not trivialised: fields, conversion, nested width
example : isText (formatEvent
    { ev0 with format := .str [.lit "a=".toList, .field ⟨.name "k0" false, [⟨true, true⟩], .r, .nested ['>'] ⟨.name "k1" false, [], .none, []⟩ []⟩],
               extras := [("k0", .hostile), ("k1", .text ['4'])] }
    ⟨[.obj, .obj, .text "R".toList], []⟩)
    "a=   R" = true := by decide

-- classic: no format → None; text with newlines is indented and terminated
example : isNone (formatEventAsClassicLogText { ev0 with format := .absent } .default ⟨[], []⟩) = true := by decide
example : isSome (formatEventAsClassicLogText { ev0 with failure := some .hostile, system := some (.text "s".toList) }
    .default ⟨[.text "tb\nx".toList], []⟩) "- [s] hello\n\ttb\n\tx\n" = true := by decide

-- formatUnformattableEvent with an error whose str() raises KeyboardInterrupt
example : isText (formatUnformattableEvent { ev0 with extras := [("k0", .hostile)] } ⟨.valueError, .bad .keyboardInterrupt⟩
    ⟨[.text "ok".toList, ki], []⟩) (mark lostMark) = true := by decide

/-! ### Why the guards are needed: the code before the repair

Transcription of `_formatTraceback`, `_formatSystem` and `eventAsText` as they were before the
C55 repair (tied to the unchanged tree in the first commit of this property), and the six
unguarded statements through which an exception escaped — one concrete event each.  With these
definitions `eventAsText_total` is false. -/

/-- `try: m  except Exception as e: h e`  (BaseException-only classes propagate) -/
def tryException {α} (m : M α) (h : Exc → M α) : M α := fun s =>
  match m s with
  | (.ok a, s') => (.ok a, s')
  | (.error e, s') => if e.cls.isException then h e s' else (.error e, s')

def formatTracebackOld (f : Val) : M Val :=
  tryAll (getTraceback f) (fun e => do
    let t ← excStr e                       -- `str(e)`: unguarded
    ret (.text (unableTb ++ t)))

def formatSystemOld (ev : Event) : M Text :=
  match ev.system with
  | .none | some .none => do
    let levelName ← match ev.level with
      | .none | some .none => ret (Val.text ['-'])
      | some .hostile => anyVal .getattr          -- level.name: unguarded
      | some (.text _) => raise (plainExc .attributeError)
    let ns := match ev.namespace_ with
      | .none => Val.text ['-']
      | some v => v
    let a ← pyFormat ns []                        -- unguarded
    let b ← pyFormat levelName []
    ret (a ++ '#' :: b)
  | some v =>
    tryException (pyStr v) (fun _ => ret "UNFORMATTABLE".toList)

def eventAsTextOld (ev : Event) (fl : Flags) (fn : TimeFn) : M Text := do
  let eventText ← formatEventInner ev
  let eventText ← (match fl.includeTraceback, ev.failure with
    | true, some f => do
      let tb ← formatTracebackOld f
      let tb ← needText tb                     -- "\n".join((eventText, traceback)): unguarded
      ret (eventText ++ '\n' :: tb)
    | _, _ => ret eventText)
  if eventText.isEmpty then ret eventText
  else do
    let timeStamp ← (if fl.includeTimestamp then do
        let t ← formatTime fn ev.time           -- unguarded
        let t ← needText t
        ret (t ++ [' '])
      else ret [])
    let system ← (if fl.includeSystem then do
        let s ← formatSystemOld ev
        ret ('[' :: s ++ [']', ' '])
      else ret [])
    ret (timeStamp ++ system ++ eventText)

def all3 : Flags := ⟨true, true, true⟩

/-- `log_time = 'x'`: `formatTime` raised TypeError out of `eventAsText` -/
theorem unfixed_time_raises :
    raisesCls (eventAsTextOld { ev0 with time := .other (.text ['x']) } all3 .default ⟨[], []⟩) .typeError = true := by
  decide

/-- a `log_level` without `.name` (here: a str): AttributeError -/
theorem unfixed_level_name_raises :
    raisesCls (eventAsTextOld { ev0 with level := some (.text "info".toList) } all3 .default ⟨[], []⟩) .attributeError = true := by
  decide

/-- a `log_namespace` whose `__format__` raises: the exception escaped -/
theorem unfixed_namespace_format_raises :
    raisesCls (eventAsTextOld { ev0 with namespace_ := some .hostile } all3 .default
      ⟨[.raises ⟨.valueError, .good []⟩], []⟩) .valueError = true := by
  decide

/-- `str(log_system)` raising a BaseException-only class passed `except Exception` -/
theorem unfixed_system_baseexception_raises :
    raisesCls (eventAsTextOld { ev0 with system := some .hostile } all3 .default
      ⟨[.raises ⟨.keyboardInterrupt, .good []⟩], []⟩) .keyboardInterrupt = true := by
  decide

/-- `getTraceback()` raises `e` and `str(e)` raises: the handler itself raised -/
theorem unfixed_traceback_str_raises :
    raisesCls (eventAsTextOld { ev0 with failure := some .hostile } all3 .default
      ⟨[.raises ⟨.hostileError, .bad .systemExit⟩], []⟩) .systemExit = true := by
  decide

/-- `getTraceback()` returns a non-text: `"\n".join` raised TypeError -/
theorem unfixed_traceback_nontext_raises :
    raisesCls (eventAsTextOld { ev0 with failure := some .hostile } all3 .default ⟨[.none], []⟩) .typeError = true := by
  decide

/-- on each of those six events the repaired code returns a text -/
theorem repaired_on_the_six_witnesses :
    isText (eventAsText { ev0 with time := .other (.text ['x']) } all3 .default ⟨[], []⟩) "- [-#-] hello" = true ∧
    isText (eventAsText { ev0 with level := some (.text "info".toList) } all3 .default ⟨[], []⟩) "- [UNFORMATTABLE] hello" = true ∧
    isText (eventAsText { ev0 with namespace_ := some .hostile } all3 .default ⟨[.raises ⟨.valueError, .good []⟩], []⟩)
      "- [UNFORMATTABLE] hello" = true ∧
    isText (eventAsText { ev0 with system := some .hostile } all3 .default ⟨[.raises ⟨.keyboardInterrupt, .good []⟩], []⟩)
      "- [UNFORMATTABLE] hello" = true ∧
    isText (eventAsText { ev0 with failure := some .hostile } all3 .default ⟨[.raises ⟨.hostileError, .bad .systemExit⟩], []⟩)
      ("- [-#-] hello\n(UNABLE TO OBTAIN TRACEBACK FROM EVENT):" ++ mark safeStrMark) = true ∧
    isText (eventAsText { ev0 with failure := some .hostile } all3 .default ⟨[.none], []⟩)
      "- [-#-] hello\n(UNABLE TO OBTAIN TRACEBACK FROM EVENT):getTraceback returned NoneType, not str" = true := by
  decide

end TwistedProps.C55
