import TwistedProps.C24.Numerals
/-! C24 lemmas: the reference parser's line-level functions on lines of the shape the writer
emits. -/
namespace TwistedProps.C24
open Twisted.Py Twisted.Http Twisted.Http.ClientRequest Twisted.Http.RequestParser

theorem splitOnce_append (sep : UInt8) (a b : Bytes) (h : sep ∉ a) :
    splitOnce sep (a ++ sep :: b) = some (a, b) := by
  induction a with
  | nil => simp [splitOnce]
  | cons c a ih =>
    have hc : c ≠ sep := fun e => h (by simp [e])
    have ha : sep ∉ a := fun e => h (by simp [e])
    simp [splitOnce, hc, ih ha]

theorem takeLine_cons2 (c d : UInt8) (r : Bytes) (hc : c ≠ 13) :
    takeLine (c :: d :: r) =
      match takeLine (d :: r) with
      | some p => some (c :: p.1, p.2)
      | none => none := by
  rw [takeLine]; simp only [hc, false_and, if_false]; cases takeLine (d :: r) <;> rfl

theorem takeLine_append (l rest : Bytes) (h : (13 : UInt8) ∉ l) :
    takeLine (l ++ 13 :: 10 :: rest) = some (l, rest) := by
  induction l with
  | nil => simp [takeLine]
  | cons c l ih =>
    have hc : c ≠ 13 := fun e => h (by simp [e])
    have hl : (13 : UInt8) ∉ l := fun e => h (by simp [e])
    have := ih hl
    obtain ⟨d, r, hl'⟩ : ∃ d r, l ++ 13 :: 10 :: rest = d :: r := by
      cases l with
      | nil => exact ⟨_, _, rfl⟩
      | cons a l => exact ⟨_, _, rfl⟩
    rw [List.cons_append, hl', takeLine_cons2 _ _ _ hc, ← hl', this]

/-- bytes of a line without LF only accumulate -/
theorem scanHead_line (l x cur : Bytes) (acc : List Bytes) (h : (10 : UInt8) ∉ l) :
    scanHead (l ++ x) cur acc = scanHead x (cur ++ l) acc := by
  induction l generalizing cur with
  | nil => simp
  | cons c l ih =>
    have hc : c ≠ 10 := fun e => h (by simp [e])
    have hl : (10 : UInt8) ∉ l := fun e => h (by simp [e])
    simp only [List.cons_append, scanHead, hc, false_and, if_false]
    rw [ih _ hl]; simp

theorem scanHead_crlf_line (l x : Bytes) (acc : List Bytes) (h : (10 : UInt8) ∉ l) (hne : l ≠ []) :
    scanHead (l ++ crlf ++ x) [] acc = scanHead x [] (l :: acc) := by
  rw [List.append_assoc, scanHead_line _ _ _ _ h]
  simp only [crlf, List.cons_append, List.nil_append, scanHead]
  have h13 : ¬ ((13 : UInt8) = 10 ∧ l.getLast? = some 13) := fun h => absurd h.1 (by decide)
  simp only [h13, if_false]
  have : (l ++ [13]).getLast? = some (13 : UInt8) := by simp
  simp [this, hne]

theorem scanHead_end (x : Bytes) (acc : List Bytes) :
    scanHead (crlf ++ x) [] acc = some (acc.reverse, x) := by
  simp [crlf, scanHead]

/-- the head of a message: non-empty LF-free lines, each followed by CRLF, then the empty line -/
theorem scanHead_lines (ls : List Bytes) (x : Bytes) (acc : List Bytes)
    (h : ∀ l ∈ ls, (10 : UInt8) ∉ l ∧ l ≠ []) :
    scanHead (ls.flatMap (fun l => l ++ crlf) ++ crlf ++ x) [] acc = some (acc.reverse ++ ls, x) := by
  induction ls generalizing acc with
  | nil => simp [scanHead_end]
  | cons l ls ih =>
    have hl := h l (by simp)
    simp only [List.flatMap_cons, List.append_assoc]
    have := scanHead_crlf_line l (ls.flatMap (fun l => l ++ crlf) ++ (crlf ++ x)) acc hl.1 hl.2
    simp only [List.append_assoc] at this
    rw [this]
    have := ih (l :: acc) (fun l' hl' => h l' (by simp [hl']))
    simp only [List.append_assoc] at this
    rw [this]; simp

/-! ### field values -/

/-- a field value as RFC 9110 §5.5 writes it: field-vchar / SP / HTAB bytes, no blank at either end -/
def fieldValue (v : Bytes) : Bool :=
  v.all isFieldByte && !(v.head?.any isOWS) && !(v.getLast?.any isOWS)

theorem dropWhile_ows_of_head (v : Bytes) (h : v.head?.any isOWS = false) : v.dropWhile isOWS = v := by
  cases v with
  | nil => rfl
  | cons c v => simp at h; simp [List.dropWhile, h]

theorem trimOWS_sp (v : Bytes) (h : fieldValue v = true) : trimOWS (32 :: v) = v := by
  simp only [fieldValue, Bool.and_eq_true, Bool.not_eq_true'] at h
  obtain ⟨⟨_, h1⟩, h2⟩ := h
  unfold trimOWS
  have e1 : (32 :: v).dropWhile isOWS = v := by
    have : isOWS 32 = true := by decide
    simp only [List.dropWhile, this]
    exact dropWhile_ows_of_head v h1
  rw [e1]
  have : v.reverse.head?.any isOWS = false := by simpa using h2
  rw [dropWhile_ows_of_head _ this]; simp

theorem token_no_byte (n : Bytes) (c : UInt8) (hc : isTokenByte c = false) (h : istoken n = true) : c ∉ n := by
  intro hm
  simp only [istoken, Bool.and_eq_true, List.all_eq_true] at h
  have := h.1 c hm
  rw [hc] at this; exact absurd this (by decide)

theorem istoken_isToken (n : Bytes) (h : istoken n = true) : isToken n = true := by
  simp only [istoken, Bool.and_eq_true, List.all_eq_true] at h
  simp only [isToken, Bool.and_eq_true, List.all_eq_true]
  exact ⟨h.2, fun c hc => by rw [← tokenByte_eq_tchar]; exact h.1 c hc⟩

def lineOf (p : Bytes × Bytes) : Bytes := p.1 ++ ClientRequest.ofStr ": " ++ p.2

theorem parseFieldLine_lineOf (n v : Bytes) (hn : istoken n = true) (hv : fieldValue v = true) :
    parseFieldLine (lineOf (n, v)) = some (n, v) := by
  have h58 : (58 : UInt8) ∉ n := token_no_byte n 58 (by decide) hn
  have e : lineOf (n, v) = n ++ 58 :: (32 :: v) := by
    simp [lineOf, ClientRequest.ofStr]
  rw [e]
  unfold parseFieldLine
  rw [splitOnce_append _ _ _ h58]
  simp only [trimOWS_sp v hv, istoken_isToken n hn, Bool.true_and]
  have : v.all isFieldByte = true := by
    simp only [fieldValue, Bool.and_eq_true] at hv; exact hv.1.1
  simp [this]

theorem mapM_parseFieldLine (fs : List (Bytes × Bytes))
    (h : ∀ p ∈ fs, istoken p.1 = true ∧ fieldValue p.2 = true) :
    (fs.map lineOf).mapM parseFieldLine = some fs := by
  induction fs with
  | nil => rfl
  | cons p fs ih =>
    have hp := h p (by simp)
    have := ih (fun q hq => h q (by simp [hq]))
    simp only [List.map_cons, List.mapM_cons, parseFieldLine_lineOf p.1 p.2 hp.1 hp.2, this]
    rfl

theorem validURI_spec (u : Bytes) (h : validURI u = true) :
    u.isEmpty = false ∧ u.all isVchar = true ∧ (32 : UInt8) ∉ u := by
  simp only [validURI, Bool.and_eq_true, Bool.not_eq_true'] at h
  refine ⟨h.1, ?_, ?_⟩
  · simpa [isVchar] using h.2
  · intro hm
    have := List.all_eq_true.mp h.2 32 hm
    exact absurd this (by decide)

def requestLine (m u : Bytes) : Bytes := m ++ [32] ++ u ++ [32] ++ ClientRequest.ofStr "HTTP/1.1"

theorem parseRequestLine_requestLine (m u : Bytes) (hm : istoken m = true) (hu : validURI u = true) :
    parseRequestLine (requestLine m u) = some (m, u) := by
  have h32 : (32 : UInt8) ∉ m := token_no_byte m 32 (by decide) hm
  obtain ⟨hu1, hu2, hu3⟩ := validURI_spec u hu
  have e : requestLine m u = m ++ 32 :: (u ++ 32 :: ClientRequest.ofStr "HTTP/1.1") := by
    simp [requestLine]
  rw [e]
  unfold parseRequestLine
  rw [splitOnce_append _ _ _ h32]
  simp only
  rw [splitOnce_append _ _ _ hu3]
  have : (ClientRequest.ofStr "HTTP/1.1" == RequestParser.ofStr "HTTP/1.1") = true := by decide
  simp [istoken_isToken m hm, hu1, hu2, this]

end TwistedProps.C24
