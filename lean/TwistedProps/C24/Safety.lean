import TwistedModel.Http.ClientRequest
/-! C24 lemmas: `LengthEnforcingConsumer` never forwards more than the declared length, whatever the
producer does. -/
namespace TwistedProps.C24
open Twisted.Py Twisted.Http Twisted.Http.ClientRequest

@[simp] theorem clFire_out (s : St) (ok : Bool) : (clFire s ok).out = s.out := by
  unfold clFire; split
  · rfl
  · split <;> rfl
@[simp] theorem clFire_remaining (s : St) (ok : Bool) : (clFire s ok).remaining = s.remaining := by
  unfold clFire; split
  · rfl
  · split <;> rfl
@[simp] theorem clConsumingErr_out (s : St) : (clConsumingErr s).out = s.out := by
  unfold clConsumingErr; split <;> rfl
@[simp] theorem clConsumingErr_remaining (s : St) : (clConsumingErr s).remaining = s.remaining := by
  unfold clConsumingErr; split <;> rfl

/-- one event either leaves the transport bytes and the remaining allowance alone, or forwards a
    write that fits into the allowance -/
theorem clStep_cases (s : St) (ev : Ev) :
    ((clStep s ev).out = s.out ∧ (clStep s ev).remaining = s.remaining) ∨
    (∃ d : Bytes, d.length ≤ s.remaining ∧ (clStep s ev).out = s.out ++ d ∧
      (clStep s ev).remaining = s.remaining - d.length) := by
  cases ev with
  | write d =>
    simp only [clStep]
    split
    · left; exact ⟨rfl, rfl⟩
    · split
      · rename_i hle
        right; exact ⟨d, hle, rfl, rfl⟩
      · left
        dsimp only
        split <;> simp
  | succeed =>
    left; simp only [clStep]; split <;> simp
  | fail =>
    left; simp only [clStep]; split <;> simp
  | ret =>
    left; simp only [clStep]
    split <;> split <;> simp

theorem cl_invariant (script : List Ev) (s : St) (hb body : Bytes) (n : Nat)
    (h : s.out = hb ++ body ∧ body.length + s.remaining = n) :
    ∃ body', (script.foldl clStep s).out = hb ++ body' ∧
      body'.length + (script.foldl clStep s).remaining = n := by
  induction script generalizing s body with
  | nil => exact ⟨body, h⟩
  | cons ev script ih =>
    rcases clStep_cases s ev with ⟨h1, h2⟩ | ⟨d, hle, h1, h2⟩
    · exact ih (clStep s ev) body (by rw [h1, h2]; exact h)
    · refine ih (clStep s ev) (body ++ d) ⟨by rw [h1, h.1]; simp, ?_⟩
      rw [h2, List.length_append]; omega

end TwistedProps.C24
