import TwistedProps.C24.Chunks
import TwistedProps.C24.Writer
/-! C24 lemmas: the header block written by `_writeHeaders` is read back line by line; body framing. -/
namespace TwistedProps.C24
open Twisted.Py Twisted.Http Twisted.Http.ClientRequest Twisted.Http.RequestParser

/-- the field lines of a header store, in `getAllRawHeaders()` order -/
def fieldsOf (h : HeaderStore) : List (Bytes × Bytes) := h.flatMap fun p => p.2.map fun v => (p.1, v)

def connFields (persistent : Bool) : List (Bytes × Bytes) :=
  if persistent then [] else [(ClientRequest.ofStr "Connection", ClientRequest.ofStr "close")]

/-- a valid header store: names are tokens, values are field values, and the caller supplies no
    message-framing field (the Request writes Content-Length / Transfer-Encoding itself) -/
def validStore (h : HeaderStore) : Bool :=
  h.all fun p => istoken p.1 && !isTE (p.1, []) && !isCL (p.1, []) && p.2.all fieldValue

/-- the preconditions of the property on a request: valid method token, valid target, exactly one
    Host value, valid header store -/
def validReq (r : Req) : Bool :=
  istoken r.method && validURI r.uri && (getRaw r.headers (ClientRequest.ofStr "Host")).length == 1 &&
    validStore r.headers

def validField (p : Bytes × Bytes) : Bool := istoken p.1 && fieldValue p.2

def fieldBytes (fs : List (Bytes × Bytes)) : Bytes := fs.flatMap fun f => lineOf f ++ crlf

/-- request line, field lines, empty line -/
def headOf (m u : Bytes) (fs : List (Bytes × Bytes)) : Bytes :=
  requestLine m u ++ crlf ++ fieldBytes fs ++ crlf

theorem headerLines_eq (h : HeaderStore) : headerLines h = fieldBytes (fieldsOf h) := by
  induction h with
  | nil => rfl
  | cons p h ih =>
    simp only [headerLines, fieldBytes, fieldsOf, List.flatMap_cons, List.flatMap_append] at ih ⊢
    rw [ih]
    congr 1
    simp [lineOf, List.flatMap_map]

theorem fieldBytes_append (a b : List (Bytes × Bytes)) : fieldBytes (a ++ b) = fieldBytes a ++ fieldBytes b := by
  simp [fieldBytes]

theorem headerBlock_eq (r : Req) (hv : validReq r = true) (te : List (Bytes × Bytes)) :
    headerBlock r (fieldBytes te) =
      .ok (headOf r.method r.uri (connFields r.persistent ++ te ++ fieldsOf r.headers)) := by
  simp only [validReq, Bool.and_eq_true, beq_iff_eq] at hv
  obtain ⟨⟨⟨hm, hu⟩, hh⟩, _⟩ := hv
  unfold headerBlock
  simp only [hh, ne_eq, not_true_eq_false, if_false, hm, hu, Bool.not_true, Bool.false_eq_true]
  congr 1
  rw [headerLines_eq, headOf, fieldBytes_append, fieldBytes_append]
  have e : ClientRequest.ofStr "HTTP/1.1\r\n" = ClientRequest.ofStr "HTTP/1.1" ++ crlf := by decide
  cases hp : r.persistent with
  | true => simp [connFields, requestLine, e, fieldBytes]
  | false =>
    have e2 : ClientRequest.ofStr "Connection: close\r\n" =
        fieldBytes [(ClientRequest.ofStr "Connection", ClientRequest.ofStr "close")] := by decide
    simp [connFields, requestLine, e, e2]

theorem not_mem_of_all {p : UInt8 → Bool} (l : Bytes) (c : UInt8) (h : l.all p = true) (hc : p c = false) :
    c ∉ l := by
  intro hm
  have := List.all_eq_true.mp h c hm
  rw [hc] at this; exact absurd this (by decide)

theorem requestLine_ok (m u : Bytes) (hm : istoken m = true) (hu : validURI u = true) :
    (10 : UInt8) ∉ requestLine m u ∧ requestLine m u ≠ [] := by
  have h1 : (10 : UInt8) ∉ m := token_no_byte m 10 (by decide) hm
  have h2 : (10 : UInt8) ∉ u := by
    simp only [validURI, Bool.and_eq_true] at hu
    exact not_mem_of_all u 10 hu.2 (by decide)
  have h3 : (10 : UInt8) ∉ ClientRequest.ofStr "HTTP/1.1" := by decide
  constructor
  · simp [requestLine, h1, h2, h3]
  · simp [requestLine]

theorem lineOf_ok (p : Bytes × Bytes) (h : validField p = true) :
    (10 : UInt8) ∉ lineOf p ∧ lineOf p ≠ [] := by
  simp only [validField, Bool.and_eq_true] at h
  have h1 : (10 : UInt8) ∉ p.1 := token_no_byte p.1 10 (by decide) h.1
  have h2 : (10 : UInt8) ∉ p.2 := by
    have := h.2
    simp only [fieldValue, Bool.and_eq_true] at this
    exact not_mem_of_all p.2 10 this.1.1 (by decide)
  have h3 : (10 : UInt8) ∉ ClientRequest.ofStr ": " := by decide
  constructor
  · simp [lineOf, h1, h2, h3]
  · simp [lineOf, ClientRequest.ofStr]

/-- the reference parser reads the head back, and hands the rest to the body framing rules -/
theorem parseRequest_head (m u : Bytes) (fs : List (Bytes × Bytes)) (rest : Bytes)
    (hm : istoken m = true) (hu : validURI u = true) (hf : ∀ p ∈ fs, validField p = true) :
    parseRequest (headOf m u fs ++ rest) =
      match parseBody fs rest with
      | .error e => .error e
      | .ok (fr, body) => .ok { method := m, target := u, headers := fs, framing := fr, body := body } := by
  have e : headOf m u fs ++ rest =
      ((requestLine m u :: fs.map lineOf).flatMap (fun l => l ++ crlf)) ++ crlf ++ rest := by
    simp [headOf, fieldBytes, List.flatMap_map]
  have hl : ∀ l ∈ requestLine m u :: fs.map lineOf, (10 : UInt8) ∉ l ∧ l ≠ [] := by
    intro l hl
    simp only [List.mem_cons, List.mem_map] at hl
    rcases hl with hl | ⟨p, hp, hl⟩
    · subst hl; exact requestLine_ok m u hm hu
    · subst hl; exact lineOf_ok p (hf p hp)
  unfold parseRequest
  rw [e, scanHead_lines _ _ _ hl]
  simp only [List.reverse_nil, List.nil_append]
  rw [parseRequestLine_requestLine m u hm hu,
    mapM_parseFieldLine fs (fun p hp => by
      have := hf p hp
      simpa [validField] using this)]
  dsimp only
  try (cases parseBody fs rest <;> rfl)

/-! ### framing -/

theorem isTE_name (p : Bytes × Bytes) : isTE p = isTE (p.1, []) := rfl
theorem isCL_name (p : Bytes × Bytes) : isCL p = isCL (p.1, []) := rfl

theorem fieldsOf_valid (h : HeaderStore) (hv : validStore h = true) :
    ∀ p ∈ fieldsOf h, validField p = true ∧ isTE p = false ∧ isCL p = false := by
  intro p hp
  simp only [fieldsOf, List.mem_flatMap, List.mem_map] at hp
  obtain ⟨q, hq, v, hv', rfl⟩ := hp
  have := List.all_eq_true.mp hv q hq
  simp only [Bool.and_eq_true, Bool.not_eq_true'] at this
  obtain ⟨⟨⟨h1, h2⟩, h3⟩, h4⟩ := this
  refine ⟨?_, ?_, ?_⟩
  · simp [validField, h1, List.all_eq_true.mp h4 v hv']
  · rw [isTE_name]; exact h2
  · rw [isCL_name]; exact h3

theorem filter_none {α} (p : α → Bool) (l : List α) (h : ∀ x ∈ l, p x = false) : l.filter p = [] := by
  rw [List.filter_eq_nil_iff]; intro x hx; simp [h x hx]

theorem conn_valid (persistent : Bool) :
    ∀ p ∈ connFields persistent, validField p = true ∧ isTE p = false ∧ isCL p = false := by
  intro p hp
  cases persistent with
  | true => simp [connFields] at hp
  | false =>
    simp only [connFields, Bool.false_eq_true, if_false, List.mem_singleton] at hp
    subst hp; decide

end TwistedProps.C24
