import TwistedModel.Http.ClientRequest
import TwistedModel.Http.RequestParser
/-! C24 lemmas: `"%d"` / `"%x"` numerals are read back by the reference parser; Twisted's token
table is RFC 9110's `tchar`. -/
namespace TwistedProps.C24
open Twisted.Py Twisted.Http Twisted.Http.ClientRequest Twisted.Http.RequestParser

theorem tokenByte_eq_tchar_fin :
    ∀ n : Fin 256, isTokenByte (UInt8.ofNat n.val) = isTchar (UInt8.ofNat n.val) := by decide +kernel

/-- the byte set of `_abnf._istoken` is exactly RFC 9110 §5.6.2 `tchar` -/
theorem tokenByte_eq_tchar (c : UInt8) : isTokenByte c = isTchar c := by
  have := tokenByte_eq_tchar_fin ⟨c.toNat, c.toNat_lt⟩
  simpa using this

theorem decVal_digit_fin : ∀ k : Fin 10, decVal (UInt8.ofNat (48 + k.val)) = some k.val := by decide
theorem hexVal_digit_fin : ∀ k : Fin 16, hexVal (hexDigitByte k.val) = some k.val := by decide

theorem decVal_digit (k : Nat) (h : k < 10) : decVal (UInt8.ofNat (48 + k)) = some k :=
  decVal_digit_fin ⟨k, h⟩
theorem hexVal_digit (k : Nat) (h : k < 16) : hexVal (hexDigitByte k) = some k :=
  hexVal_digit_fin ⟨k, h⟩

def stepNat (base : Nat) (digit : UInt8 → Option Nat) (acc : Option Nat) (c : UInt8) : Option Nat :=
  match acc, digit c with
  | some a, some d => some (a * base + d)
  | _, _ => none

theorem parseNat_eq (base : Nat) (digit : UInt8 → Option Nat) (b : Bytes) :
    parseNat base digit b = if b.isEmpty then none else b.foldl (stepNat base digit) (some 0) := rfl

theorem decimal_ne_nil (n : Nat) : decimal n ≠ [] := by
  rw [decimal]; split <;> simp

theorem hexLower_ne_nil (n : Nat) : hexLower n ≠ [] := by
  rw [hexLower]; split <;> simp

theorem decimal_foldl (n : Nat) : (decimal n).foldl (stepNat 10 decVal) (some 0) = some n := by
  induction n using Nat.strongRecOn with
  | _ n ih =>
    rw [decimal]
    split
    · rename_i h
      show stepNat 10 decVal (some 0) _ = some n
      unfold stepNat
      rw [decVal_digit n h]; simp only [Nat.zero_mul, Nat.zero_add]
    · rename_i h
      rw [List.foldl_append, ih (n / 10) (by omega)]
      show stepNat 10 decVal (some (n / 10)) _ = some n
      unfold stepNat
      rw [decVal_digit (n % 10) (by omega)]
      show some (n / 10 * 10 + n % 10) = some n
      congr 1; omega

theorem hexLower_foldl (n : Nat) : (hexLower n).foldl (stepNat 16 hexVal) (some 0) = some n := by
  induction n using Nat.strongRecOn with
  | _ n ih =>
    rw [hexLower]
    split
    · rename_i h
      show stepNat 16 hexVal (some 0) _ = some n
      unfold stepNat
      rw [hexVal_digit n h]; simp only [Nat.zero_mul, Nat.zero_add]
    · rename_i h
      rw [List.foldl_append, ih (n / 16) (by omega)]
      show stepNat 16 hexVal (some (n / 16)) _ = some n
      unfold stepNat
      rw [hexVal_digit (n % 16) (by omega)]
      show some (n / 16 * 16 + n % 16) = some n
      congr 1; omega

/-- `Content-Length: %d` is read back as the same number -/
theorem parseDec_decimal (n : Nat) : parseDec (decimal n) = some n := by
  unfold parseDec
  rw [parseNat_eq]
  have := decimal_ne_nil n
  cases h : decimal n with
  | nil => exact absurd h this
  | cons a l => rw [← h, decimal_foldl]; simp [h]

/-- the `%x` chunk-size is read back as the same number -/
theorem parseHex_hexLower (n : Nat) : parseHex (hexLower n) = some n := by
  unfold parseHex
  rw [parseNat_eq]
  have := hexLower_ne_nil n
  cases h : hexLower n with
  | nil => exact absurd h this
  | cons a l => rw [← h, hexLower_foldl]; simp [h]

def isDigitByte (c : UInt8) : Bool := 48 ≤ c && c ≤ 57
def isHexByte (c : UInt8) : Bool := (48 ≤ c && c ≤ 57) || (97 ≤ c && c ≤ 102)

theorem digit_fin : ∀ k : Fin 10, isDigitByte (UInt8.ofNat (48 + k.val)) = true := by decide
theorem hexdigit_fin : ∀ k : Fin 16, isHexByte (hexDigitByte k.val) = true := by decide

theorem decimal_digits (n : Nat) : ∀ c ∈ decimal n, isDigitByte c = true := by
  induction n using Nat.strongRecOn with
  | _ n ih =>
    rw [decimal]
    split
    · rename_i h
      intro c hc
      rw [List.mem_singleton] at hc; subst hc; exact digit_fin ⟨n, h⟩
    · rename_i h
      intro c hc
      simp only [List.mem_append, List.mem_singleton] at hc
      rcases hc with hc | hc
      · exact ih (n / 10) (by omega) c hc
      · subst hc; exact digit_fin ⟨n % 10, by omega⟩

theorem hexLower_digits (n : Nat) : ∀ c ∈ hexLower n, isHexByte c = true := by
  induction n using Nat.strongRecOn with
  | _ n ih =>
    rw [hexLower]
    split
    · rename_i h
      intro c hc
      rw [List.mem_singleton] at hc; subst hc; exact hexdigit_fin ⟨n, h⟩
    · rename_i h
      intro c hc
      simp only [List.mem_append, List.mem_singleton] at hc
      rcases hc with hc | hc
      · exact ih (n / 16) (by omega) c hc
      · subst hc; exact hexdigit_fin ⟨n % 16, by omega⟩

end TwistedProps.C24
