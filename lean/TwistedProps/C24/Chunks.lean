import TwistedProps.C24.Lines
/-! C24 lemmas: the chunked coding written by `ChunkedEncoder` is decoded by the reference parser. -/
namespace TwistedProps.C24
open Twisted.Py Twisted.Http Twisted.Http.ClientRequest Twisted.Http.RequestParser

theorem hexLower_no_cr (n : Nat) : (13 : UInt8) ∉ hexLower n := by
  intro h
  have := hexLower_digits n 13 h
  exact absurd this (by decide)

theorem decodeChunks_chunk (fuel : Nat) (d more acc : Bytes) (hd : d ≠ []) :
    decodeChunks (fuel + 1) (chunk d ++ more) acc = decodeChunks fuel more (acc ++ d) := by
  have e : chunk d ++ more = hexLower d.length ++ 13 :: 10 :: (d ++ 13 :: 10 :: more) := by
    simp [chunk, crlf]
  have hlen : d.length ≠ 0 := by
    intro h; exact hd (List.length_eq_zero_iff.mp h)
  rw [e, decodeChunks, takeLine_append _ _ (hexLower_no_cr _)]
  simp only [parseHex_hexLower, hlen, if_false]
  have h1 : ¬ ((d ++ 13 :: 10 :: more).length < d.length + 2) := by simp
  have h2 : ((d ++ 13 :: 10 :: more).drop d.length).take 2 = [13, 10] := by simp
  have h3 : (d ++ 13 :: 10 :: more).drop (d.length + 2) = more := by
    rw [← List.drop_drop]; simp
  have h4 : (d ++ 13 :: 10 :: more).take d.length = d := by simp
  simp only [h1, if_false, h2, h3, h4, ne_eq, not_true_eq_false]

theorem decodeChunks_last (fuel : Nat) (rest acc : Bytes) :
    decodeChunks (fuel + 1) (lastChunk ++ rest) acc = .ok (acc, rest) := by
  have e : lastChunk ++ rest = [48] ++ 13 :: 10 :: (13 :: 10 :: rest) := by
    simp [lastChunk, ClientRequest.ofStr]
  have h0 : parseHex [48] = some 0 := by decide
  have hl : takeLine (13 :: 10 :: rest) = some ([], rest) := by simp [takeLine]
  rw [e, decodeChunks, takeLine_append _ _ (by decide)]
  simp [h0, hl]

/-- every list of non-empty chunks followed by the last-chunk decodes to their concatenation -/
theorem decodeChunks_all (ws : List Bytes) (h : ∀ d ∈ ws, d ≠ []) (fuel : Nat) (hf : ws.length < fuel)
    (rest acc : Bytes) :
    decodeChunks fuel (ws.flatMap chunk ++ lastChunk ++ rest) acc = .ok (acc ++ ws.flatten, rest) := by
  induction ws generalizing fuel acc with
  | nil =>
    cases fuel with
    | zero => simp at hf
    | succ f => simpa using decodeChunks_last f rest acc
  | cons d ws ih =>
    cases fuel with
    | zero => simp at hf
    | succ f =>
      simp only [List.flatMap_cons, List.append_assoc]
      rw [decodeChunks_chunk f d _ acc (h d (by simp))]
      have := ih (fun x hx => h x (by simp [hx])) f (by simp at hf; omega) (acc ++ d)
      simp only [List.append_assoc] at this
      rw [this]; simp

theorem chunk_length_pos (d : Bytes) : 0 < (chunk d).length := by
  simp [chunk, crlf]; omega

theorem flatMap_chunk_length (ws : List Bytes) : ws.length ≤ (ws.flatMap chunk).length := by
  induction ws with
  | nil => simp
  | cons d ws ih =>
    have := chunk_length_pos d
    simp only [List.flatMap_cons, List.length_append, List.length_cons]; omega

end TwistedProps.C24
