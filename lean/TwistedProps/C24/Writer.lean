import TwistedModel.Http.ClientRequest
/-! C24 lemmas: what the writer model does on well-behaved body-producer scripts. -/
namespace TwistedProps.C24
open Twisted.Py Twisted.Http Twisted.Http.ClientRequest

/-- A well-behaved body producer: it writes `ws1` inside `startProducing`, `ws2` afterwards, and
    fires its Deferred with success once, after its last write in effect — either after
    `startProducing` returned (`early = false`) or already before it returns (`early = true`; the
    callbacks then run when it returns, i.e. still after every write). -/
def goodScript (early : Bool) (ws1 ws2 : List Bytes) : List Ev :=
  if early then ws1.map Ev.write ++ Ev.succeed :: (ws2.map Ev.write ++ [Ev.ret])
  else ws1.map Ev.write ++ Ev.ret :: (ws2.map Ev.write ++ [Ev.succeed])

def nonEmpty (ws : List Bytes) : List Bytes := ws.filter fun d => !d.isEmpty

theorem nonEmpty_append (a b : List Bytes) : nonEmpty (a ++ b) = nonEmpty a ++ nonEmpty b := by
  simp [nonEmpty]

theorem nonEmpty_flatten (ws : List Bytes) : (nonEmpty ws).flatten = ws.flatten := by
  induction ws with
  | nil => rfl
  | cons d ws ih =>
    cases d with
    | nil => simpa [nonEmpty] using ih
    | cons c d => simp only [nonEmpty] at ih ⊢; simp [ih]

theorem nonEmpty_ne (ws : List Bytes) : ∀ d ∈ nonEmpty ws, d ≠ [] := by
  intro d hd
  simp [nonEmpty] at hd
  exact hd.2

theorem ch_writes (ws : List Bytes) (s : St) (hl : s.encLive = true) :
    (ws.map Ev.write).foldl chStep s = { s with out := s.out ++ (nonEmpty ws).flatMap chunk } := by
  induction ws generalizing s with
  | nil => simp [nonEmpty]
  | cons d ws ih =>
    simp only [List.map_cons, List.foldl_cons]
    cases d with
    | nil =>
      have : chStep s (Ev.write []) = s := by simp [chStep, hl]
      rw [this, ih s hl]; simp [nonEmpty]
    | cons c d =>
      have : chStep s (Ev.write (c :: d)) = { s with out := s.out ++ chunk (c :: d) } := by
        simp [chStep, hl]
      rw [this, ih _ (by simpa using hl)]
      simp [nonEmpty]

theorem ch_good (early : Bool) (ws1 ws2 : List Bytes) (hb : Bytes) :
    ∃ s, (goodScript early ws1 ws2).foldl chStep { out := hb, registered := true } = s ∧
      s.out = hb ++ (nonEmpty (ws1 ++ ws2)).flatMap chunk ++ lastChunk ∧
      s.outcome = .ok ∧ s.registered = false := by
  refine ⟨_, rfl, ?_⟩
  have e1 := ch_writes ws1 { out := hb, registered := true } rfl
  cases early with
  | false =>
    simp only [goodScript, Bool.false_eq_true, if_false, List.foldl_append, List.foldl_cons, List.foldl_nil]
    rw [e1]
    rw [ch_writes ws2 _ (by simp [chStep])]
    simp [chStep, chFire, nonEmpty_append]
  | true =>
    simp only [goodScript, if_true, List.foldl_append, List.foldl_cons, List.foldl_nil]
    rw [e1]
    rw [ch_writes ws2 _ (by simp [chStep])]
    simp [chStep, chFire, nonEmpty_append]

theorem cl_writes (ws : List Bytes) (s : St) (hl : s.finLive = true)
    (hr : ws.flatten.length ≤ s.remaining) :
    (ws.map Ev.write).foldl clStep s =
      { s with out := s.out ++ ws.flatten, remaining := s.remaining - ws.flatten.length } := by
  induction ws generalizing s with
  | nil => simp
  | cons d ws ih =>
    simp only [List.map_cons, List.foldl_cons]
    simp only [List.flatten_cons, List.length_append] at hr
    have hd : d.length ≤ s.remaining := by omega
    have : clStep s (Ev.write d) = { s with remaining := s.remaining - d.length, out := s.out ++ d } := by
      simp [clStep, hl, hd]
    rw [this, ih _ (by simpa using hl) (by simp only; omega)]
    simp [Nat.sub_sub]

theorem cl_good (early : Bool) (ws1 ws2 : List Bytes) (hb : Bytes) :
    ∃ s, (goodScript early ws1 ws2).foldl clStep
        { out := hb, registered := true, remaining := (ws1 ++ ws2).flatten.length } = s ∧
      s.out = hb ++ (ws1 ++ ws2).flatten ∧ s.outcome = .ok ∧ s.registered = false := by
  refine ⟨_, rfl, ?_⟩
  have e1 := cl_writes ws1 { out := hb, registered := true, remaining := (ws1 ++ ws2).flatten.length } rfl
    (by simp)
  cases early with
  | false =>
    simp only [goodScript, Bool.false_eq_true, if_false, List.foldl_append, List.foldl_cons, List.foldl_nil]
    rw [e1]
    rw [cl_writes ws2 _ (by simp [clStep]) (by simp [clStep])]
    simp [clStep, clFire]
  | true =>
    simp only [goodScript, if_true, List.foldl_append, List.foldl_cons, List.foldl_nil]
    rw [e1]
    rw [cl_writes ws2 _ (by simp [clStep]) (by simp [clStep])]
    simp [clStep, clFire]

end TwistedProps.C24
