import TwistedProps.C24.Head
/-! C24 lemmas: the framing field the writer adds selects the body the writer emitted. -/
namespace TwistedProps.C24
open Twisted.Py Twisted.Http Twisted.Http.ClientRequest Twisted.Http.RequestParser

def teField : Bytes × Bytes := (ClientRequest.ofStr "Transfer-Encoding", ClientRequest.ofStr "chunked")
def clField (n : Nat) : Bytes × Bytes := (ClientRequest.ofStr "Content-Length", decimal n)

theorem digit_field_fin : ∀ k : Fin 256, isDigitByte (UInt8.ofNat k.val) = true →
    (isFieldByte (UInt8.ofNat k.val) = true ∧ isOWS (UInt8.ofNat k.val) = false) := by decide +kernel

theorem digit_field (c : UInt8) (h : isDigitByte c = true) : isFieldByte c = true ∧ isOWS c = false := by
  have := digit_field_fin ⟨c.toNat, c.toNat_lt⟩
  simp only [UInt8.ofNat_toNat] at this
  exact this h

theorem decimal_zero : decimal 0 = [48] := by rw [decimal]; simp

theorem fieldValue_decimal (n : Nat) : fieldValue (decimal n) = true := by
  have hd := decimal_digits n
  simp only [fieldValue, Bool.and_eq_true, Bool.not_eq_true', List.all_eq_true]
  refine ⟨⟨fun c hc => (digit_field c (hd c hc)).1, ?_⟩, ?_⟩
  · cases h : (decimal n).head? with
    | none => rfl
    | some c =>
      have : c ∈ decimal n := List.mem_of_mem_head? (by rw [h]; rfl)
      simp [(digit_field c (hd c this)).2]
  · cases h : (decimal n).getLast? with
    | none => rfl
    | some c =>
      have : c ∈ decimal n := List.mem_of_getLast? h
      simp [(digit_field c (hd c this)).2]

theorem clField_valid (n : Nat) : validField (clField n) = true := by
  have h1 : istoken (ClientRequest.ofStr "Content-Length") = true := by decide
  simp [validField, clField, h1, fieldValue_decimal]

theorem teField_valid : validField teField = true := by decide

/-- all fields of the emitted head are valid field lines -/
theorem fields_valid (r : Req) (hv : validReq r = true) (x : List (Bytes × Bytes))
    (hx : ∀ p ∈ x, validField p = true) :
    ∀ p ∈ connFields r.persistent ++ x ++ fieldsOf r.headers, validField p = true := by
  simp only [validReq, Bool.and_eq_true] at hv
  intro p hp
  simp only [List.mem_append] at hp
  rcases hp with (hp | hp) | hp
  · exact (conn_valid _ p hp).1
  · exact hx p hp
  · exact (fieldsOf_valid _ hv.2 p hp).1

theorem filter_fields (q : Bytes × Bytes → Bool) (r : Req) (x : List (Bytes × Bytes))
    (hc : ∀ p ∈ connFields r.persistent, q p = false) (hf : ∀ p ∈ fieldsOf r.headers, q p = false) :
    (connFields r.persistent ++ x ++ fieldsOf r.headers).filter q = x.filter q := by
  simp [List.filter_append, filter_none q _ hc, filter_none q _ hf]

theorem filter_TE (r : Req) (hv : validReq r = true) (x : List (Bytes × Bytes)) :
    (connFields r.persistent ++ x ++ fieldsOf r.headers).filter isTE = x.filter isTE := by
  simp only [validReq, Bool.and_eq_true] at hv
  exact filter_fields isTE r x (fun p hp => (conn_valid _ p hp).2.1)
    (fun p hp => (fieldsOf_valid _ hv.2 p hp).2.1)

theorem filter_CL (r : Req) (hv : validReq r = true) (x : List (Bytes × Bytes)) :
    (connFields r.persistent ++ x ++ fieldsOf r.headers).filter isCL = x.filter isCL := by
  simp only [validReq, Bool.and_eq_true] at hv
  exact filter_fields isCL r x (fun p hp => (conn_valid _ p hp).2.2)
    (fun p hp => (fieldsOf_valid _ hv.2 p hp).2.2)

theorem parseBody_none (r : Req) (hv : validReq r = true) :
    parseBody (connFields r.persistent ++ [] ++ fieldsOf r.headers) [] = .ok (.none, []) := by
  unfold parseBody
  rw [filter_TE r hv, filter_CL r hv]
  rfl

theorem isCL_clField (n : Nat) : isCL (clField n) = true := by
  rw [isCL_name]; show isCL (ClientRequest.ofStr "Content-Length", []) = true; decide
theorem isTE_clField (n : Nat) : isTE (clField n) = false := by
  rw [isTE_name]; show isTE (ClientRequest.ofStr "Content-Length", []) = false; decide

theorem parseBody_cl (r : Req) (hv : validReq r = true) (body : Bytes) :
    parseBody (connFields r.persistent ++ [clField body.length] ++ fieldsOf r.headers) body =
      .ok (.contentLength body.length, body) := by
  unfold parseBody
  rw [filter_TE r hv, filter_CL r hv]
  simp only [List.filter_cons, isTE_clField, isCL_clField, List.filter_nil, if_true]
  simp [clField, parseDec_decimal]

theorem parseBody_chunked (r : Req) (hv : validReq r = true) (ws : List Bytes) :
    parseBody (connFields r.persistent ++ [teField] ++ fieldsOf r.headers)
        ((nonEmpty ws).flatMap chunk ++ lastChunk) = .ok (.chunked, ws.flatten) := by
  unfold parseBody
  rw [filter_TE r hv, filter_CL r hv]
  have h1 : [teField].filter isTE = [teField] := by decide
  have h2 : [teField].filter isCL = [] := by decide
  have h3 : ([teField].map fun p => lower p.2) == [RequestParser.ofStr "chunked"] := by decide
  rw [h1, h2]
  simp only [h3, List.isEmpty_cons, Bool.not_false, if_true, List.isEmpty_nil, Bool.and_self]
  have := decodeChunks_all (nonEmpty ws) (nonEmpty_ne ws)
    (((nonEmpty ws).flatMap chunk ++ lastChunk).length + 1)
    (by have := flatMap_chunk_length (nonEmpty ws); simp only [List.length_append]; omega) [] []
  simp only [List.append_nil, List.nil_append] at this
  rw [this, nonEmpty_flatten]
  rfl

end TwistedProps.C24
