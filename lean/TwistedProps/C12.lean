import TwistedProps.C12.Gate
/-!
C12 — system event triggers run once each, in phase and registration order.

Model: `TwistedModel/Reactor/ThreePhase.lean` (`_ThreePhaseEvent` of `twisted/internet/base.py`).
A history is any finite list of ops `add / remove / fire / ret r / fireD d`, consumed by the top
level or by the trigger that is executing (a `fireD` consumed by a trigger is that trigger calling
`.callback/.errback` on a Deferred — `fireDIn`); `run ops` is the state after it, `(run ops).log` the
event log (`ran ph k` = the event called trigger `k` from list `ph`).  Every theorem below is
for ALL histories (no bound on length, number of triggers, nesting of registrations inside
triggers, order in which Deferreds fire), and speaks about EVERY call of a trigger:
`AllRuns P log` says `P pre ph k` holds for every decomposition `log = pre ++ ran ph k :: post`.

Preconditions, all decidable:
* `Fresh ops` — the registrations are pairwise distinct as `(callable, args, kwargs)` (keys of the
  `add` ops are pairwise distinct).  The full statement ("for any registration") is FALSE for the
  code as it is when equal triggers are registered more than once, because `removeTrigger` finds
  its victim by `==`: see `equal_registrations_counterexample` (finding `equal-registrations`,
  replayed on the implementation by harness/corr/C12.py).  Every theorem that needs `Fresh` is
  therefore named `…_partial`; nothing else is missing from them.
* `(run ops).overlapped = false` (only for the Deferred gate) — `fireEvent()` is never entered while
  an earlier firing of the same event is still waiting for its Deferreds (`state == "BEFORE"`).
-/
namespace TwistedProps.C12
open Twisted.Reactor.ThreePhase

/-! ### list facts used to read the invariants back as statements about the log -/

theorem sinceFire_subset (l : List Ev) : ∀ x ∈ sinceFire l, x ∈ l := by
  induction l with
  | nil => intro x hx; simp [sinceFire] at hx
  | cons e l ih =>
    intro x hx
    simp only [sinceFire] at hx
    split at hx
    · exact List.mem_cons_of_mem _ (ih x hx)
    · split at hx
      · exact List.mem_cons_of_mem _ hx
      · rcases List.mem_cons.1 hx with hx | hx
        · exact hx ▸ List.mem_cons_self
        · exact List.mem_cons_of_mem _ (ih x hx)

theorem sinceFire_split (p1 p2 : List Ev) : ∀ x ∈ sinceFire (p1 ++ Ev.fired :: p2), x ∈ p2 := by
  induction p1 with
  | nil =>
    intro x hx
    simp only [List.nil_append, sinceFire] at hx
    split at hx
    · exact sinceFire_subset _ x hx
    · simpa using hx
  | cons e p1 ih =>
    intro x hx
    simp only [List.cons_append, sinceFire, List.mem_append, List.mem_cons, true_or, or_true, if_true] at hx
    exact ih x hx

theorem sinceFire_last (p1 p2 : List Ev) (h : Ev.fired ∉ p2) : sinceFire (p1 ++ Ev.fired :: p2) = p2 := by
  induction p1 with
  | nil => simp [sinceFire, h]
  | cons e p1 ih =>
    simp only [List.cons_append, sinceFire, List.mem_append, List.mem_cons, true_or, or_true, if_true]
    exact ih

theorem allAdded_append (a b : List Ev) : allAdded (a ++ b) = allAdded a ++ allAdded b := by
  simp [allAdded, List.filterMap_append]

/-- a trigger registered before a `fireEvent()` and pending after it contradicts "every pending
    trigger was registered since the last `fireEvent()`" -/
theorem done_of_JP {ph pre p1 p2 k'} (hj : JP ph (pend ph pre) pre) (hn : (allAdded pre).Nodup)
    (hd : pre = p1 ++ Ev.fired :: p2) (hk : Ev.added ph k' ∈ p1) : isDone pre ph k' = true := by
  cases hdone : isDone pre ph k' with
  | true => rfl
  | false =>
    exfalso
    have hp : k' ∈ pend ph pre := by
      unfold pend
      refine List.mem_filter.2 ⟨mem_addedKeys.2 ?_, by simp [hdone]⟩
      rw [hd]; exact List.mem_append_left _ hk
    have h2 : Ev.added ph k' ∈ p2 := by
      have := hj k' hp
      rw [hd] at this
      exact sinceFire_split p1 p2 _ this
    rw [hd, allAdded_append] at hn
    have hdisj := (List.nodup_append.1 hn).2.2
    exact hdisj k' (mem_allAdded.2 ⟨ph, hk⟩) k'
      (mem_allAdded.2 ⟨ph, List.mem_cons_of_mem _ h2⟩) rfl

theorem nodup_prefix {pre post : List Ev} (h : (allAdded (pre ++ post)).Nodup) : (allAdded pre).Nodup := by
  rw [allAdded_append] at h; exact (List.nodup_append.1 h).1

/-! ### the property -/

/-- **Exactly-once, part 1.**  Whenever the event calls a trigger, that trigger is registered in
    the phase it is called from, has not been removed, and has not been called before: no trigger
    runs twice, a removed trigger never runs. -/
theorem each_trigger_runs_at_most_once_partial (ops : List Op) (hf : Fresh ops) :
    AllRuns (fun pre ph k => Ev.added ph k ∈ pre ∧ Ev.removed ph k ∉ pre ∧ Ev.ran ph k ∉ pre)
      (run ops).log := by
  refine allRuns_mono (G1_run ops hf).runs (fun pre ph k h => ⟨h.1, ?_, ?_⟩)
  · intro hh; have := isDone_iff.2 (Or.inr hh); rw [h.2.1] at this; cases this
  · intro hh; have := isDone_iff.2 (Or.inl hh); rw [h.2.1] at this; cases this

/-- **Registration order within a phase (no skipping).**  When trigger `k` of phase `ph` is called,
    every trigger registered in `ph` before `k` has already been called or has been removed. -/
theorem registration_order_partial (ops : List Op) (hf : Fresh ops) :
    AllRuns (fun pre ph k => ∀ l1 l2, addedKeys ph pre = l1 ++ k :: l2 →
        ∀ k' ∈ l1, Ev.ran ph k' ∈ pre ∨ Ev.removed ph k' ∈ pre) (run ops).log :=
  allRuns_mono (G1_run ops hf).runs (fun _ _ _ h l1 l2 hd k' hk' => isDone_iff.1 (h.2.2 l1 l2 hd k' hk'))

/-- **Phase order.**  When a during- or after-trigger is called, every before-trigger registered
    before any earlier `fireEvent()` has been called or removed; when an after-trigger is called,
    so has every during-trigger registered before any earlier `fireEvent()`. -/
theorem phase_order_partial (ops : List Op) (hf : Fresh ops) :
    AllRuns (fun pre ph _ => ∀ p1 p2, pre = p1 ++ Ev.fired :: p2 →
        (ph ≠ .before → ∀ k', Ev.added .before k' ∈ p1 → Ev.ran .before k' ∈ pre ∨ Ev.removed .before k' ∈ pre) ∧
        (ph = .after → ∀ k', Ev.added .during k' ∈ p1 → Ev.ran .during k' ∈ pre ∨ Ev.removed .during k' ∈ pre))
      (run ops).log := by
  intro pre ph k post hd p1 p2 hpre
  have h2 := (G2_run ops hf).runs pre ph k post hd
  have hn : (allAdded pre).Nodup := nodup_prefix (post := Ev.ran ph k :: post) (hd ▸ (G1_run ops hf).nodup)
  exact ⟨fun hph k' hk' => isDone_iff.1 (done_of_JP (h2.1 hph) hn hpre hk'),
         fun hph k' hk' => isDone_iff.1 (done_of_JP (h2.2 hph) hn hpre hk')⟩

/-- **The Deferred gate.**  If `fireEvent()` is never re-entered while an earlier firing still
    waits, then whenever a during- or after-trigger is called, every Deferred returned by a
    before-trigger since the last `fireEvent()` has fired — whatever the order in which they fire. -/
theorem during_waits_for_all_before_deferreds (ops : List Op) (hno : (run ops).overlapped = false) :
    AllRuns (fun pre ph _ => ph ≠ .before → ∀ p1 p2, pre = p1 ++ Ev.fired :: p2 → Ev.fired ∉ p2 →
        ∀ d, Ev.retB (some d) ∈ p2 → Ev.dfired d ∈ pre) (run ops).log := by
  intro pre ph k post hd hph p1 p2 hpre hlast d hret
  have := (G3_run ops hno).runs pre ph k post hd hph d
  rw [hpre, sinceFire_last p1 p2 hlast] at this
  rw [hpre]; exact this hret

/-- **Exactly-once, part 2 (nothing is left out).**  When the firing is complete — no trigger is
    executing and no DeferredList is waiting — every trigger of any phase that was registered
    before the (last) `fireEvent()` has been called or removed. -/
theorem each_remaining_trigger_runs_once_partial (ops : List Op) (hf : Fresh ops)
    (hidle : (run ops).ctl = .idle) (hw : (run ops).waiting = []) :
    ∀ ph p1 p2, (run ops).log = p1 ++ Ev.fired :: p2 → ∀ k, Ev.added ph k ∈ p1 →
      Ev.ran ph k ∈ (run ops).log ∨ Ev.removed ph k ∈ (run ops).log := by
  intro ph p1 p2 hlog k hk
  have g1 := G1_run ops hf
  have g2 := G2_run ops hf
  have hj : JP ph (pend ph (run ops).log) (run ops).log := by
    have hl := g1.lists ph
    cases ph
    · simp only [St.get] at hl; rw [← hl]; exact g2.jb (by simp [hidle])
    · simp only [St.get] at hl; rw [← hl]; exact g2.jd (Or.inr ⟨hidle, hw⟩)
    · simp only [St.get] at hl; rw [← hl]; exact g2.ja ⟨hidle, hw⟩
  exact isDone_iff.1 (done_of_JP hj g1.nodup hlog hk)

/-- "No DeferredList is waiting" is the observable `state == "BASE"`, absent overlapping firings. -/
theorem firing_complete_iff_state_base (ops : List Op) (hno : (run ops).overlapped = false)
    (hidle : (run ops).ctl = .idle) : (run ops).waiting = [] ↔ (run ops).inBefore = false := by
  have h := (G3_run ops hno).ctl
  unfold Ctl3 at h
  rw [hidle] at h
  simp only at h
  rcases h with ⟨h1, h2⟩ | ⟨h1, L, h2, _⟩
  · exact ⟨fun _ => h1, fun _ => h2.w⟩
  · constructor
    · intro hh; rw [h2] at hh; cases hh
    · intro hh; rw [h1] at hh; cases hh

/-- **In-trigger Deferred firing is harmless (model fidelity of `fireDIn`).**  Absent overlapping
    firings, whenever a trigger is executing no DeferredList of this event is waiting — so a
    Deferred fired from inside a trigger body (e.g. a later before-trigger firing the Deferred an
    earlier before-trigger returned) has nothing of the event attached to it and cannot start the
    during phase from inside the `while self.before` loop.  With `during_waits_for_all_before_deferreds`
    (which is over ALL histories, those with in-trigger firings included) this is the gate for
    Deferreds "fired in every order", synchronous firing during the before phase included. -/
theorem in_trigger_nothing_waits (ops : List Op) (hno : (run ops).overlapped = false)
    (hrun : (run ops).ctl ≠ .idle) : (run ops).waiting = [] := by
  have h := (G3_run ops hno).ctl
  unfold Ctl3 at h
  split at h
  · exact h.2.1
  · rename_i hi; exact absurd hi hrun
  · exact h.2.w

/-- …and such a firing only marks the Deferred as fired: lists, control state, `state`,
    DeferredLists and the pending `beforeResults` are untouched. -/
theorem in_trigger_fire_only_marks (s : St) (d : Nat) (hrun : s.ctl ≠ .idle) (hno : s.overlapped = false) :
    let t := step s (.fireD d)
    t.before = s.before ∧ t.during = s.during ∧ t.after = s.after ∧ t.ctl = s.ctl ∧
    t.inBefore = s.inBefore ∧ t.waiting = s.waiting ∧ t.results = s.results ∧ t.finished = s.finished ∧
    ∀ d', d' ∈ t.fired ↔ d' ∈ s.fired ∨ d' = d := by
  simp only [step, if_neg hrun, hno, Bool.false_eq_true, if_false, fireDIn]
  split
  · rename_i hc
    refine ⟨rfl, rfl, rfl, rfl, rfl, rfl, rfl, rfl, fun d' => ?_⟩
    simp only [St.emit]
    constructor
    · exact Or.inl
    · rintro (h | h)
      · exact h
      · subst h; simpa using hc
  · exact ⟨rfl, rfl, rfl, rfl, rfl, rfl, rfl, rfl, fun d' => by simp⟩

/-- **Exception isolation.**  A trigger that raises is, for the event, the same as one that
    returns `None`: all the theorems above hold with any mixture of raising triggers, and the
    state (hence every later call) is identical. -/
theorem exception_does_not_stop_others (s : St) : step s (.ret .raise) = step s (.ret .none) := by
  simp only [step]

def unraise : Op → Op
  | .ret .raise => .ret .none
  | op => op

theorem exception_does_not_stop_others_run (ops : List Op) : run (ops.map unraise) = run ops := by
  induction ops using snoc_induction with
  | nil => rfl
  | snoc ops op ih =>
    rw [List.map_append, List.map_singleton, run_snoc, run_snoc, ih]
    cases op with
    | ret r => cases r <;> simp [unraise, exception_does_not_stop_others]
    | _ => rfl

/-- **Removal while firing.**  In state `BEFORE`, removing a before-trigger that has already been
    called only warns and changes nothing else. -/
theorem remove_semantics (s : St) (k : Nat) (hb : s.inBefore = true) (hk : k ∈ s.finished) :
    remove s .before k = s.emit (.warned k) := by
  simp [remove, hb, hk]

/-! ### what fails without `Fresh` (finding `equal-registrations`) -/

/-- keys in the order the event called them -/
def calls (s : St) : List Nat := s.log.filterMap fun e => match e with | .ran _ k => some k | _ => none

/-- Registering a trigger and removing it again through the handle just obtained is NOT a no-op
    when an equal trigger is already registered: before-triggers A, B registered, A registered
    again and that third registration removed — the code removes the FIRST A, and the remaining
    registrations run as B, A instead of A, B. -/
theorem equal_registrations_counterexample :
    ¬ ∀ (pre post : List Op) (ph : Phase) (k : Nat),
        calls (run (pre ++ [.add ph k, .remove ph k] ++ post)) = calls (run (pre ++ post)) := by
  intro h
  have := h [.add .before 1, .add .before 2] [.fire, .ret .none, .ret .none] .before 1
  revert this
  decide

/-- without `Fresh` the key-level "never called twice" is false as well (two equal registrations) -/
theorem runs_once_counterexample :
    ¬ ∀ ops, AllRuns (fun pre ph k => Ev.ran ph k ∉ pre) (run ops).log := by
  intro h
  have := h [.add .before 1, .add .before 1, .fire, .ret .none] [.added .before 1, .added .before 1, .fired, .ran .before 1, .retB none] .before 1 [] (by decide)
  revert this
  decide

/-! ### non-vacuity: a history that exercises every clause -/

def demo : List Op :=
  [.add .before 1, .add .before 2, .add .during 3, .add .after 4, .add .during 5, .remove .during 3,
   .fire, .add .before 6, .ret (.deferred 0), .ret .raise, .ret (.deferred 1),
   .fireD 1, .add .during 7, .fireD 0, .add .after 8, .ret .none, .ret .raise, .ret .none, .ret .none]

example : Fresh demo := by decide
example : (run demo).overlapped = false := by decide
example : (run demo).ctl = .idle ∧ (run demo).waiting = [] := by decide
/-- before-triggers 1, 2 and 6 (registered by 1 while firing), then — only after Deferreds 1 and 0
    have both fired — during 5, 7 (3 was removed) and after 4, 8 -/
example : calls (run demo) = [1, 2, 6, 5, 7, 4, 8] := by decide
example : (run demo).log.filter (fun e => e matches .dfired _ ∨ e matches .ran .during _) =
    [.dfired 1, .dfired 0, .ran .during 5, .ran .during 7] := by decide
/-- the hypotheses of the gate theorem are met with two Deferreds returned and pending -/
example : ∃ pre post, (run demo).log = pre ++ Ev.ran .during 5 :: post ∧
    Ev.retB (some 0) ∈ sinceFire pre ∧ Ev.retB (some 1) ∈ sinceFire pre := by
  refine ⟨((run demo).log.take 17), ((run demo).log.drop 18), by decide, by decide, by decide⟩
/-- the model does distinguish waiting from running: before Deferred 0 fires nothing of `during` ran -/
example : calls (run (demo.take 13)) = [1, 2, 6] ∧ (run (demo.take 13)).waiting = [[0]] := by decide

/-! ### non-vacuity: Deferreds fired from inside trigger bodies -/

/-- before 1 returns Deferred 0; before 2 fires it from its own body and returns Deferred 1; before 3
    (which raises) and during 4 / after 5 are still to come; Deferred 1 is fired at top level while
    the firing waits; during 4 fires an unrelated Deferred 7 from its body -/
def demoIn : List Op :=
  [.add .before 1, .add .before 2, .add .before 3, .add .during 4, .add .after 5, .fire,
   .ret (.deferred 0), .fireD 0, .ret (.deferred 1), .ret .raise, .fireD 1, .fireD 7, .ret .none, .ret .none]

example : Fresh demoIn := by decide
example : (run demoIn).overlapped = false := by decide
example : (run demoIn).ctl = .idle ∧ (run demoIn).waiting = [] := by decide
/-- firing Deferred 0 inside before-trigger 2 does not start the during phase: 3 still runs first,
    and 4, 5 run only once Deferred 1 has fired as well (Deferred 7 is fired from inside during-trigger 4) -/
example : (run demoIn).log.filter (fun e => e matches .dfired _ ∨ e matches .ran _ _) =
    [.ran .before 1, .ran .before 2, .dfired 0, .ran .before 3, .dfired 1, .ran .during 4, .dfired 7,
     .ran .after 5] := by decide
example : (run (demoIn.take 10)).waiting = [[1]] ∧ calls (run (demoIn.take 10)) = [1, 2, 3] := by decide
example : (run (demoIn.take 8)).ctl = .runB ∧ (run (demoIn.take 8)).waiting = [] := by decide

end TwistedProps.C12
