import TwistedProps.C31.Account
import TwistedProps.C31.Loss
import TwistedProps.C31.Match
import TwistedProps.C31.Tags
/-!
C31 — AMP matches answers to questions and fails pending calls on disconnect.

Statement (fixed): for any interleaving of commands sent concurrently by both peers, responders
that answer at once, later, in any order, with declared or undeclared errors or never, and
connection loss at any point, every callRemote Deferred fires exactly once: with its own
command's response or error (undeclared errors as UnknownRemoteError), or with the
connection-loss reason if unanswered at disconnect.  Calls made after the connection is lost
fail immediately.

The theorems are about `run ops` for EVERY schedule `ops : List Op` (calls of either peer with
any responder behaviour / requiresAnswer / handled-or-not / follow-up calls made inside the
callback, firing of responder Deferreds in any order, deliveries of any numbers of bytes,
`connectionLost` of either side at any point).  Every prefix of a schedule is a schedule, so
they hold at every moment of every history, not only at its end.
-/
namespace TwistedProps.C31
open Twisted.Amp Twisted.Amp.Dispatch

/-- how many times the Deferred of call `id` has fired -/
def fireCount (log : List Ev) (id : Nat) : Nat := (firedIds log).count id

/-- **No Deferred ever fires twice** (whatever the schedule). -/
theorem never_fires_twice (ops : List Op) (id : Nat) : fireCount (run ops).log id ≤ 1 := by
  have h := (invJ_run ops).nodup
  have h2 : (firedIds (run ops).log).Nodup := by
    simp only [allIds, ids, List.map_nil, List.nil_append] at h
    exact (List.nodup_append.mp (List.nodup_append.mp h).2.1).2.1
  exact count_le_one_of_nodup _ h2 id

/-- **Every `callRemote` Deferred fires exactly once**: at any moment of any schedule, a call for
    which an answer is required has either fired exactly once and is no longer outstanding, or has
    not fired, is outstanding at its caller, and the caller has not lost its connection. -/
theorem every_callRemote_fires_exactly_once (ops : List Op) (id : Nat) (s : Bool) (beh : Beh)
    (h : Ev.called id s beh true ∈ (run ops).log) :
    (fireCount (run ops).log id = 1 ∧ id ∉ ids ((run ops).get s).pending) ∨
    (fireCount (run ops).log id = 0 ∧ id ∈ ids ((run ops).get s).pending ∧
      ((run ops).get s).failReason = none) := by
  have inv := invJ_run ops
  have hnd := inv.nodup
  simp only [allIds, ids, List.map_nil, List.nil_append] at hnd
  have hf : (firedIds (run ops).log).Nodup :=
    (List.nodup_append.mp (List.nodup_append.mp hnd).2.1).2.1
  have hdisj : ∀ x, x ∈ ids ((run ops).get s).pending → x ∉ firedIds (run ops).log := by
    intro x hx hfx
    cases s
    · exact (List.nodup_append.mp hnd).2.2 x hx x (List.mem_append_right _ hfx) rfl
    · exact (List.nodup_append.mp (List.nodup_append.mp hnd).2.1).2.2 x hx x hfx rfl
  rcases inv.acct id s beh h with h1 | h1 | h1
  · right
    refine ⟨List.count_eq_zero.mpr (hdisj id h1), h1, ?_⟩
    cases hfr : ((run ops).get s).failReason
    · rfl
    · have := inv.lostPend s (by simp [hfr])
      rw [this] at h1; simp [ids] at h1
  · simp [ids] at h1
  · left
    refine ⟨?_, fun hp => hdisj id hp h1⟩
    have := count_le_one_of_nodup _ hf id
    have h0 : 0 < (firedIds (run ops).log).count id := List.count_pos_iff.mpr h1
    unfold fireCount; omega

/-- … in particular, once a side has lost its connection each of its calls has fired exactly once. -/
theorem fired_exactly_once_after_loss (ops : List Op) (id : Nat) (s : Bool) (beh : Beh)
    (h : Ev.called id s beh true ∈ (run ops).log) (hl : ((run ops).get s).failReason ≠ none) :
    fireCount (run ops).log id = 1 := by
  rcases every_callRemote_fires_exactly_once ops id s beh h with h1 | h1
  · exact h1.1
  · exact absurd h1.2.2 hl

/-- **Unanswered at disconnect ⇒ fail with the reason**: in ANY state, `connectionLost(reason)` on a
    connected side fires every outstanding Deferred of that side with that very reason, leaves
    nothing outstanding, and keeps the reason for later calls. -/
theorem unanswered_at_disconnect_fail_with_reason (st : Net) (s : Bool) (w : Why)
    (h : (st.get s).failReason = none) :
    (∀ p ∈ (st.get s).pending, Ev.fired p.2.id (.connLost w) ∈ (connectionLost st s w).log) ∧
    ((connectionLost st s w).get s).pending = [] ∧
    ((connectionLost st s w).get s).failReason = some w := by
  have h0 : (((logEv st (Ev.lost s w)).set s { st.get s with failReason := some w, pending := [] }).get s).failReason
      = some w := by simp
  obtain ⟨h1, _, h3⟩ := foldFail_lost h0 (st.get s).pending
  have hcl : connectionLost st s w =
      ((st.get s).pending.foldl (fun st p => fireUser st s p.2 (.connLost w))
        ((logEv st (Ev.lost s w)).set s { st.get s with failReason := some w, pending := [] })).set s
        { ((st.get s).pending.foldl (fun st p => fireUser st s p.2 (.connLost w))
          ((logEv st (Ev.lost s w)).set s { st.get s with failReason := some w, pending := [] })).get s with
          transportNone := true } := by
    unfold connectionLost
    simp only [h, logEv_get]
  rw [hcl]
  refine ⟨fun p hp => by rw [set_log]; exact h3 p hp, ?_, ?_⟩
  · simp only [get_set, if_true]; rw [h1]; simp
  · simp only [get_set, if_true]; rw [h1]; simp

/-- **Calls made after the connection is lost fail immediately**: in ANY state in which side `s` has
    been told `connectionLost(reason)`, `callRemote` returns a Deferred that has already failed with
    that reason; nothing is written to the transport and nothing becomes outstanding. -/
theorem calls_after_loss_fail_immediately (st : Net) (s : Bool) (w : Why) (beh : Beh) (handled : Bool)
    (follow : List Beh) (h : (st.get s).failReason = some w) :
    Ev.fired st.nextId (.connLost w) ∈ (callRemote st s beh true handled follow).log ∧
    ((callRemote st s beh true handled follow).get s).written = (st.get s).written ∧
    ((callRemote st s beh true handled follow).get s).pending = (st.get s).pending := by
  unfold callRemote
  simp only [logEv_get, get_withNextId, h, if_true]
  have h0 : ((logEv { st with nextId := st.nextId + 1 } (Ev.called st.nextId s beh true)).get s).failReason
      = some w := by simpa using h
  obtain ⟨h1, es, h2⟩ := fireUser_lost h0 ⟨st.nextId, handled, follow⟩ (.connLost w)
  refine ⟨by rw [h2]; simp, by rw [h1]; simp, by rw [h1]; simp⟩

/-- … and a call for which no answer is required returns `None` and sends nothing. -/
theorem noanswer_call_after_loss_sends_nothing (st : Net) (s : Bool) (w : Why) (beh : Beh) (handled : Bool)
    (follow : List Beh) (h : (st.get s).failReason = some w) :
    ((callRemote st s beh false handled follow).get s).written = (st.get s).written := by
  unfold callRemote
  simp [h]

/-- **An answer goes to its own question**: whenever the Deferred of call `id` fires with `o`, then `o` is
    justified for *this* call (`Good`, TwistedProps/C31/Match.lean):
    * a response `{"n": m}` ⇒ `m = id` and the responder side produced `ok` for call `id` (its responder was
      invoked for `id` and returned, or the Deferred it returned for `id` was fired with a result);
    * a declared (fatal) error with description `m` ⇒ `m = id` and the responder side produced that declared
      (fatal) error for call `id`;
    * `UnknownRemoteError` ⇒ the responder side produced an undeclared error for call `id`;
    * `UnhandledCommand` ⇒ call `id` named a command the peer has no responder for;
    * the connection-loss reason `w` ⇒ call `id` was made by a side to which `connectionLost(w)` was delivered.
    Proof: invariant `InvW` — every `_ask` tag in a pipe, held by a pending responder Deferred or carried by an
    `_answer`/`_error` box is at most the caller's `_counter`, and any request outstanding under that tag is the
    request of that very call (new tags are `_counter + 1`, larger than every tag in flight). -/
theorem answer_goes_to_its_own_question (ops : List Op) (id : Nat) (o : Outcome)
    (h : Ev.fired id o ∈ (run ops).log) : Good (run ops).log id o :=
  (invW_run ops).firedGood id o h

/-- the response case spelled out -/
theorem response_is_own (ops : List Op) (id m : Nat) (h : Ev.fired id (.response m) ∈ (run ops).log) :
    m = id ∧ ((∃ s beh, syncKind beh = some .ok ∧ Ev.invoked s id beh ∈ (run ops).log) ∨
      Ev.laterFired id .ok ∈ (run ops).log) := by
  have := answer_goes_to_its_own_question ops id _ h
  simp only [Good, Produced] at this
  refine ⟨this.1, ?_⟩
  rcases this.2 with h1 | h1 | h1
  · exact Or.inl h1
  · exact Or.inr h1
  · simp at h1

/-- undeclared errors arrive as `UnknownRemoteError` only for the call whose own responder failed undeclared -/
theorem unknownRemote_is_own (ops : List Op) (id : Nat) (h : Ev.fired id .unknownRemote ∈ (run ops).log) :
    (∃ s beh, syncKind beh = some .unk ∧ Ev.invoked s id beh ∈ (run ops).log) ∨
      Ev.laterFired id .unk ∈ (run ops).log := by
  have := answer_goes_to_its_own_question ops id _ h
  simp only [Good, Produced] at this
  rcases this with h1 | h1 | h1
  · exact Or.inl h1
  · exact Or.inr h1
  · simp at h1

/-- a connection-loss failure is the reason of the caller's own `connectionLost` -/
theorem loss_reason_is_own (ops : List Op) (id : Nat) (w : Why) (h : Ev.fired id (.connLost w) ∈ (run ops).log) :
    ∃ s beh, Ev.called id s beh true ∈ (run ops).log ∧ Ev.lost s w ∈ (run ops).log :=
  answer_goes_to_its_own_question ops id _ h

/-- **No box without a question**: on every schedule of two honest peers no exception ever escapes into the
    reactor — `_outstandingRequests.pop(tag)` in `_answerReceived`/`_errorReceived` never raises `KeyError`
    (a reply's tag always names an outstanding request of the receiver), and `sendBox` never raises
    `ConnectionLost` out of `callRemote` (`transport is None` only after `_failAllReason` is set).
    Proof: invariant `InvT` (TwistedProps/C31/Tags.lean) — for a caller that has not been told `connectionLost`,
    the multiset of its tags in flight (in `_ask` boxes in the pipe or in the hand of the peer's `dataReceived`,
    held by the peer's pending responder Deferreds, in `_answer`/`_error` boxes on the way back) is included in
    the multiset of keys of its `_outstandingRequests`: a call adds its tag to both, the peer moves it along or
    drops it, and `pop` takes one occurrence out of both — so a tag once popped is nowhere in flight any more. -/
theorem no_box_without_question (ops : List Op) : (run ops).halted = false := (invT_run ops).nh

/-- … at every moment, every tag in flight towards or back to a connected caller is a key of its
    `_outstandingRequests` (no more often than it is outstanding) -/
theorem tags_in_flight_are_outstanding (ops : List Op) (u : Bool) (t : Nat)
    (h : ((run ops).get u).failReason = none) :
    (inflight (run ops) false [] u).count t ≤ (ptags ((run ops).get u).pending).count t :=
  (invT_run ops).incl u h t

theorem mem_firedIds {log : List Ev} {id : Nat} {o : Outcome} (h : Ev.fired id o ∈ log) : id ∈ firedIds log :=
  List.mem_filterMap.mpr ⟨_, h, rfl⟩

/-- a Deferred that fired once fired with one outcome -/
theorem fired_unique {log : List Ev} {id : Nat} (h : fireCount log id ≤ 1) {o o' : Outcome}
    (h1 : Ev.fired id o ∈ log) (h2 : Ev.fired id o' ∈ log) : o = o' := by
  induction log with
  | nil => simp at h1
  | cons e es ih =>
    have hle : fireCount es id ≤ fireCount (e :: es) id := by
      simp only [fireCount, firedIds, List.filterMap_cons]
      split
      · exact Nat.le_refl _
      · exact List.count_le_count_cons
    have hhead : ∀ {p q : Outcome}, e = Ev.fired id p → Ev.fired id q ∈ es → False := by
      intro p q he hq
      have hm := mem_firedIds hq
      have : 0 < (firedIds es).count id := List.count_pos_iff.mpr hm
      subst he
      simp only [fireCount, firedIds, List.filterMap_cons, firedId, List.count_cons_self] at h this
      omega
    rcases List.mem_cons.mp h1 with h1 | h1 <;> rcases List.mem_cons.mp h2 with h2 | h2
    · rw [← h1] at h2; cases h2; rfl
    · exact (hhead h1.symm h2).elim
    · exact (hhead h2.symm h1).elim
    · exact ih (Nat.le_trans hle h) h1 h2

theorem run_append (ops : List Op) (op : Op) : run (ops ++ [op]) = step (run ops) op := by
  simp [run, List.foldl_append]

/-- **Unanswered at disconnect ⇒ the loss reason** (schedule level): a call of side `s` that has not fired when
    `connectionLost(w)` is delivered to `s` fires, inside that `connectionLost`, with `w`. -/
theorem unanswered_at_disconnect_fires_with_the_reason (ops : List Op) (id : Nat) (s : Bool) (beh : Beh) (w : Why)
    (h : Ev.called id s beh true ∈ (run ops).log) (hn : fireCount (run ops).log id = 0) :
    Ev.fired id (.connLost w) ∈ (run (ops ++ [.lost s w])).log := by
  rcases every_callRemote_fires_exactly_once ops id s beh h with h1 | ⟨_, h2, h3⟩
  · omega
  · rw [run_append]
    unfold step
    simp only [no_box_without_question ops, Bool.false_eq_true, if_false, apply]
    obtain ⟨p, hp, hid⟩ := List.mem_map.mp h2
    have := (unanswered_at_disconnect_fail_with_reason (logEv (run ops) .sep) s w (by simpa using h3)).1 p
      (by simpa using hp)
    rw [hid] at this
    exact this

/-- **Calls made after the connection is lost fail immediately** (schedule level) -/
theorem call_after_loss_fires_at_once (ops : List Op) (s : Bool) (w : Why) (beh : Beh) (handled : Bool) (follow : List Beh)
    (h : ((run ops).get s).failReason = some w) :
    Ev.called (run ops).nextId s beh true ∈ (run (ops ++ [.call s beh true handled follow])).log ∧
    Ev.fired (run ops).nextId (.connLost w) ∈ (run (ops ++ [.call s beh true handled follow])).log ∧
    ((run (ops ++ [.call s beh true handled follow])).get s).written = ((run ops).get s).written := by
  rw [run_append]
  unfold step
  simp only [no_box_without_question ops, Bool.false_eq_true, if_false, apply]
  have := calls_after_loss_fail_immediately (logEv (run ops) .sep) s w beh handled follow (by simpa using h)
  refine ⟨?_, by simpa using this.1, by simpa using this.2.1⟩
  unfold callRemote
  simp only [logEv_get, get_withNextId, h, if_true]
  exact mem_log_fireUser _ _ _ (by simp)

/-- **C31, the whole statement in one theorem.**  For EVERY schedule `ops` (calls of either peer with any responder
    behaviour — answering at once, later, in any order, with a declared, fatal or undeclared error, never, or not
    existing —, requiresAnswer or not, handled or not, with follow-up calls made inside callbacks; deliveries of any
    numbers of bytes; `connectionLost` of either side at any point), at the end of `ops` — hence, every prefix of a
    schedule being a schedule, at every moment —:

    1. no exception has escaped (`_outstandingRequests.pop(tag)` found its key every time; `sendBox` never raised);
    2. every `callRemote` that returned a Deferred (`Ev.called id s beh true`) is in exactly one of two situations:
       * **fired exactly once**, with one outcome `o`, which is *its own* (`Good`): the response / declared error of
         the responder invocation for call `id` itself (carrying `id`), `UnknownRemoteError` only if its own responder
         failed undeclared, `UnhandledCommand` only if its command has no responder, or the connection-loss reason
         passed to its own side's `connectionLost` — and it is no longer in `_outstandingRequests`;
       * **not fired yet**: still in `_outstandingRequests` of its caller, whose connection is not lost
         (so `connectionLost` will fire it with the reason: `unanswered_at_disconnect_fail_with_reason`).
       In particular a call of a side that has been told `connectionLost` — whether made before (unanswered at
       disconnect) or after — has fired exactly once;
    3. **unanswered at disconnect**: if `connectionLost(w)` is delivered next to the caller of a call that has not
       fired, the call fires (inside that `connectionLost`) with the reason `w`;
    4. **calls made after the connection is lost fail immediately**: if the next operation is a `callRemote` on a
       side that was told `connectionLost(w)`, its Deferred (call number `nextId`) has already failed with `w` when
       `callRemote` returns, and nothing was written to the transport. -/
theorem every_callRemote_fires_exactly_once_with_its_own_answer (ops : List Op) :
    (run ops).halted = false ∧
    (∀ id s beh, Ev.called id s beh true ∈ (run ops).log →
      (∃ o, Ev.fired id o ∈ (run ops).log ∧ Good (run ops).log id o ∧
        fireCount (run ops).log id = 1 ∧ (∀ o', Ev.fired id o' ∈ (run ops).log → o' = o) ∧
        id ∉ ids ((run ops).get s).pending) ∨
      ((∀ o, Ev.fired id o ∉ (run ops).log) ∧ fireCount (run ops).log id = 0 ∧
        id ∈ ids ((run ops).get s).pending ∧ ((run ops).get s).failReason = none)) ∧
    (∀ id s beh w, Ev.called id s beh true ∈ (run ops).log → fireCount (run ops).log id = 0 →
      Ev.fired id (.connLost w) ∈ (run (ops ++ [.lost s w])).log) ∧
    (∀ s w beh handled follow, ((run ops).get s).failReason = some w →
      Ev.called (run ops).nextId s beh true ∈ (run (ops ++ [.call s beh true handled follow])).log ∧
      Ev.fired (run ops).nextId (.connLost w) ∈ (run (ops ++ [.call s beh true handled follow])).log ∧
      ((run (ops ++ [.call s beh true handled follow])).get s).written = ((run ops).get s).written) := by
  refine ⟨no_box_without_question ops, ?_,
    fun id s beh w h hn => unanswered_at_disconnect_fires_with_the_reason ops id s beh w h hn,
    fun s w beh handled follow h => call_after_loss_fires_at_once ops s w beh handled follow h⟩
  intro id s beh h
  rcases every_callRemote_fires_exactly_once ops id s beh h with ⟨h1, h2⟩ | ⟨h1, h2, h3⟩
  · left
    have hm : id ∈ firedIds (run ops).log := by
      apply List.count_pos_iff.mp
      unfold fireCount at h1; omega
    obtain ⟨e, he, hid⟩ := List.mem_filterMap.mp hm
    cases e <;> simp only [firedId, Option.some.injEq] at hid <;> try exact absurd hid (by simp)
    rename_i id' o
    subst hid
    exact ⟨o, he, answer_goes_to_its_own_question ops _ o he, h1,
      fun o' ho' => fired_unique (Nat.le_of_eq h1) ho' he, h2⟩
  · right
    refine ⟨fun o ho => ?_, h1, h2, h3⟩
    have := List.count_pos_iff.mpr (mem_firedIds ho)
    unfold fireCount at h1; omega

/-- … so once a side has been told `connectionLost`, each of its calls has fired exactly once with its own outcome -/
theorem after_loss_every_call_has_its_answer (ops : List Op) (id : Nat) (s : Bool) (beh : Beh)
    (h : Ev.called id s beh true ∈ (run ops).log) (hl : ((run ops).get s).failReason ≠ none) :
    ∃ o, Ev.fired id o ∈ (run ops).log ∧ Good (run ops).log id o ∧ fireCount (run ops).log id = 1 := by
  rcases (every_callRemote_fires_exactly_once_with_its_own_answer ops).2.1 id s beh h with ⟨o, h1, h2, h3, _⟩ | h1
  · exact ⟨o, h1, h2, h3⟩
  · exact absurd h1.2.2.2 hl

/-! ### non-vacuity: concrete schedules -/

/-- side 0 asks `later`, `ok`; the peer answers the second first, then the first with a declared error;
    a third call is still unanswered when side 0 loses the connection; a fourth is made afterwards -/
def demo : List Op :=
  [.call false .later true true [], .call false .ok true true [], .call false .later true true [.ok],
   .dlv true 1000, .dlv false 1000, .fire true 0 .err, .dlv false 1000,
   .lost false .lost, .call false .ok true true []]

example : (run demo).log.filterMap (fun e => match e with | .fired id o => some (id, o) | _ => none) =
    [(1, .response 1), (0, .declared 0), (2, .connLost .lost), (3, .connLost .lost), (4, .connLost .lost)] := by
  decide

example : Ev.called 2 false .later true ∈ (run demo).log ∧ fireCount (run demo).log 2 = 1 := by decide

example : Ev.fired 1 (.response 1) ∈ (run demo).log ∧ Ev.invoked true 1 .ok ∈ (run demo).log ∧
    Ev.fired 0 (.declared 0) ∈ (run demo).log ∧ Ev.laterFired 0 .err ∈ (run demo).log := by decide

/-- an undeclared error and a missing responder, answered in one delivery -/
example : (run [.call true .unk true true [], .call true .nores true true [], .dlv false 1000, .dlv true 1000]).log.filterMap
    (fun e => match e with | .fired id o => some (id, o) | _ => none) =
    [(0, .unknownRemote), (1, .unhandledCommand)] := by decide

example : let st := run (demo.take 7)
    (st.get false).failReason = none ∧ (st.get false).pending.map (·.2.id) = [2] := by decide

/-- the model CAN raise: a forged reply (no such question) makes `pop` raise `KeyError`, and a call on a side whose
    transport is gone without `_failAllReason` makes `sendBox` raise — `no_box_without_question` says that no schedule
    of two honest peers gets there -/
example : (replyReceived {} false 1 .ok 0).halted = true ∧
    (callRemote { a := { transportNone := true } } false .ok true true []).halted = true := by decide

example : (run demo).halted = false ∧ (run demo).log.filter (· == .sep) = List.replicate 9 .sep := by decide

/-- parts 3 and 4 of the headline on `demo`: call 2 is unanswered when side 0 loses the connection; call 4 is made afterwards -/
example : Ev.called 2 false .later true ∈ (run (demo.take 7)).log ∧ fireCount (run (demo.take 7)).log 2 = 0 ∧
    Ev.fired 2 (.connLost .lost) ∈ (run (demo.take 7 ++ [.lost false .lost])).log ∧
    ((run (demo.take 8)).get false).failReason = some .lost ∧ (run (demo.take 8)).nextId = 4 := by decide

/-- in the middle of `demo` three tags of side 0 are in flight: two held by responder Deferreds of the peer, one in an
    `_answer` box on its way back -/
example : inflight (run (demo.take 4)) false [] false = [1, 3, 2] ∧
    ptags ((run (demo.take 4)).get false).pending = [1, 2, 3] := by decide

end TwistedProps.C31
