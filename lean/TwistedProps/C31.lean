import TwistedProps.C31.Account
import TwistedProps.C31.Loss
import TwistedProps.C31.Match
/-!
C31 — AMP matches answers to questions and fails pending calls on disconnect.

Statement (fixed): for any interleaving of commands sent concurrently by both peers, responders
that answer at once, later, in any order, with declared or undeclared errors or never, and
connection loss at any point, every callRemote Deferred fires exactly once: with its own
command's response or error (undeclared errors as UnknownRemoteError), or with the
connection-loss reason if unanswered at disconnect.  Calls made after the connection is lost
fail immediately.

The theorems are about `run ops` for EVERY schedule `ops : List Op` (calls of either peer with
any responder behaviour / requiresAnswer / handled-or-not / follow-up calls made inside the
callback, firing of responder Deferreds in any order, deliveries of any numbers of bytes,
`connectionLost` of either side at any point).  Every prefix of a schedule is a schedule, so
they hold at every moment of every history, not only at its end.
-/
namespace TwistedProps.C31
open Twisted.Amp Twisted.Amp.Dispatch

/-- how many times the Deferred of call `id` has fired -/
def fireCount (log : List Ev) (id : Nat) : Nat := (firedIds log).count id

/-- **No Deferred ever fires twice** (whatever the schedule). -/
theorem never_fires_twice (ops : List Op) (id : Nat) : fireCount (run ops).log id ≤ 1 := by
  have h := (invJ_run ops).nodup
  have h2 : (firedIds (run ops).log).Nodup := by
    simp only [allIds, ids, List.map_nil, List.nil_append] at h
    exact (List.nodup_append.mp (List.nodup_append.mp h).2.1).2.1
  exact count_le_one_of_nodup _ h2 id

/-- **Every `callRemote` Deferred fires exactly once**: at any moment of any schedule, a call for
    which an answer is required has either fired exactly once and is no longer outstanding, or has
    not fired, is outstanding at its caller, and the caller has not lost its connection. -/
theorem every_callRemote_fires_exactly_once (ops : List Op) (id : Nat) (s : Bool) (beh : Beh)
    (h : Ev.called id s beh true ∈ (run ops).log) :
    (fireCount (run ops).log id = 1 ∧ id ∉ ids ((run ops).get s).pending) ∨
    (fireCount (run ops).log id = 0 ∧ id ∈ ids ((run ops).get s).pending ∧
      ((run ops).get s).failReason = none) := by
  have inv := invJ_run ops
  have hnd := inv.nodup
  simp only [allIds, ids, List.map_nil, List.nil_append] at hnd
  have hf : (firedIds (run ops).log).Nodup :=
    (List.nodup_append.mp (List.nodup_append.mp hnd).2.1).2.1
  have hdisj : ∀ x, x ∈ ids ((run ops).get s).pending → x ∉ firedIds (run ops).log := by
    intro x hx hfx
    cases s
    · exact (List.nodup_append.mp hnd).2.2 x hx x (List.mem_append_right _ hfx) rfl
    · exact (List.nodup_append.mp (List.nodup_append.mp hnd).2.1).2.2 x hx x hfx rfl
  rcases inv.acct id s beh h with h1 | h1 | h1
  · right
    refine ⟨List.count_eq_zero.mpr (hdisj id h1), h1, ?_⟩
    cases hfr : ((run ops).get s).failReason
    · rfl
    · have := inv.lostPend s (by simp [hfr])
      rw [this] at h1; simp [ids] at h1
  · simp [ids] at h1
  · left
    refine ⟨?_, fun hp => hdisj id hp h1⟩
    have := count_le_one_of_nodup _ hf id
    have h0 : 0 < (firedIds (run ops).log).count id := List.count_pos_iff.mpr h1
    unfold fireCount; omega

/-- … in particular, once a side has lost its connection each of its calls has fired exactly once. -/
theorem fired_exactly_once_after_loss (ops : List Op) (id : Nat) (s : Bool) (beh : Beh)
    (h : Ev.called id s beh true ∈ (run ops).log) (hl : ((run ops).get s).failReason ≠ none) :
    fireCount (run ops).log id = 1 := by
  rcases every_callRemote_fires_exactly_once ops id s beh h with h1 | h1
  · exact h1.1
  · exact absurd h1.2.2 hl

/-- **Unanswered at disconnect ⇒ fail with the reason**: in ANY state, `connectionLost(reason)` on a
    connected side fires every outstanding Deferred of that side with that very reason, leaves
    nothing outstanding, and keeps the reason for later calls. -/
theorem unanswered_at_disconnect_fail_with_reason (st : Net) (s : Bool) (w : Why)
    (h : (st.get s).failReason = none) :
    (∀ p ∈ (st.get s).pending, Ev.fired p.2.id (.connLost w) ∈ (connectionLost st s w).log) ∧
    ((connectionLost st s w).get s).pending = [] ∧
    ((connectionLost st s w).get s).failReason = some w := by
  have h0 : (((logEv st (Ev.lost s w)).set s { st.get s with failReason := some w, pending := [] }).get s).failReason
      = some w := by simp
  obtain ⟨h1, _, h3⟩ := foldFail_lost h0 (st.get s).pending
  have hcl : connectionLost st s w =
      ((st.get s).pending.foldl (fun st p => fireUser st s p.2 (.connLost w))
        ((logEv st (Ev.lost s w)).set s { st.get s with failReason := some w, pending := [] })).set s
        { ((st.get s).pending.foldl (fun st p => fireUser st s p.2 (.connLost w))
          ((logEv st (Ev.lost s w)).set s { st.get s with failReason := some w, pending := [] })).get s with
          transportNone := true } := by
    unfold connectionLost
    simp only [h, logEv_get]
  rw [hcl]
  refine ⟨fun p hp => by rw [set_log]; exact h3 p hp, ?_, ?_⟩
  · simp only [get_set, if_true]; rw [h1]; simp
  · simp only [get_set, if_true]; rw [h1]; simp

/-- **Calls made after the connection is lost fail immediately**: in ANY state in which side `s` has
    been told `connectionLost(reason)`, `callRemote` returns a Deferred that has already failed with
    that reason; nothing is written to the transport and nothing becomes outstanding. -/
theorem calls_after_loss_fail_immediately (st : Net) (s : Bool) (w : Why) (beh : Beh) (handled : Bool)
    (follow : List Beh) (h : (st.get s).failReason = some w) :
    Ev.fired st.nextId (.connLost w) ∈ (callRemote st s beh true handled follow).log ∧
    ((callRemote st s beh true handled follow).get s).written = (st.get s).written ∧
    ((callRemote st s beh true handled follow).get s).pending = (st.get s).pending := by
  unfold callRemote
  simp only [logEv_get, get_withNextId, h, if_true]
  have h0 : ((logEv { st with nextId := st.nextId + 1 } (Ev.called st.nextId s beh true)).get s).failReason
      = some w := by simpa using h
  obtain ⟨h1, es, h2⟩ := fireUser_lost h0 ⟨st.nextId, handled, follow⟩ (.connLost w)
  refine ⟨by rw [h2]; simp, by rw [h1]; simp, by rw [h1]; simp⟩

/-- … and a call for which no answer is required returns `None` and sends nothing. -/
theorem noanswer_call_after_loss_sends_nothing (st : Net) (s : Bool) (w : Why) (beh : Beh) (handled : Bool)
    (follow : List Beh) (h : (st.get s).failReason = some w) :
    ((callRemote st s beh false handled follow).get s).written = (st.get s).written := by
  unfold callRemote
  simp [h]

/-- **An answer goes to its own question**: whenever the Deferred of call `id` fires with `o`, then `o` is
    justified for *this* call (`Good`, TwistedProps/C31/Match.lean):
    * a response `{"n": m}` ⇒ `m = id` and the responder side produced `ok` for call `id` (its responder was
      invoked for `id` and returned, or the Deferred it returned for `id` was fired with a result);
    * a declared (fatal) error with description `m` ⇒ `m = id` and the responder side produced that declared
      (fatal) error for call `id`;
    * `UnknownRemoteError` ⇒ the responder side produced an undeclared error for call `id`;
    * `UnhandledCommand` ⇒ call `id` named a command the peer has no responder for;
    * the connection-loss reason `w` ⇒ call `id` was made by a side to which `connectionLost(w)` was delivered.
    Proof: invariant `InvW` — every `_ask` tag in a pipe, held by a pending responder Deferred or carried by an
    `_answer`/`_error` box is at most the caller's `_counter`, and any request outstanding under that tag is the
    request of that very call (new tags are `_counter + 1`, larger than every tag in flight). -/
theorem answer_goes_to_its_own_question (ops : List Op) (id : Nat) (o : Outcome)
    (h : Ev.fired id o ∈ (run ops).log) : Good (run ops).log id o :=
  (invW_run ops).firedGood id o h

/-- the response case spelled out -/
theorem response_is_own (ops : List Op) (id m : Nat) (h : Ev.fired id (.response m) ∈ (run ops).log) :
    m = id ∧ ((∃ s beh, syncKind beh = some .ok ∧ Ev.invoked s id beh ∈ (run ops).log) ∨
      Ev.laterFired id .ok ∈ (run ops).log) := by
  have := answer_goes_to_its_own_question ops id _ h
  simp only [Good, Produced] at this
  refine ⟨this.1, ?_⟩
  rcases this.2 with h1 | h1 | h1
  · exact Or.inl h1
  · exact Or.inr h1
  · simp at h1

/-- undeclared errors arrive as `UnknownRemoteError` only for the call whose own responder failed undeclared -/
theorem unknownRemote_is_own (ops : List Op) (id : Nat) (h : Ev.fired id .unknownRemote ∈ (run ops).log) :
    (∃ s beh, syncKind beh = some .unk ∧ Ev.invoked s id beh ∈ (run ops).log) ∨
      Ev.laterFired id .unk ∈ (run ops).log := by
  have := answer_goes_to_its_own_question ops id _ h
  simp only [Good, Produced] at this
  rcases this with h1 | h1 | h1
  · exact Or.inl h1
  · exact Or.inr h1
  · simp at h1

/-- a connection-loss failure is the reason of the caller's own `connectionLost` -/
theorem loss_reason_is_own (ops : List Op) (id : Nat) (w : Why) (h : Ev.fired id (.connLost w) ∈ (run ops).log) :
    ∃ s beh, Ev.called id s beh true ∈ (run ops).log ∧ Ev.lost s w ∈ (run ops).log :=
  answer_goes_to_its_own_question ops id _ h

/-
NOT PROVED (full statement kept visible):

  theorem no_box_without_question (ops : List Op) : (run ops).halted = false

i.e. `_outstandingRequests.pop(tag)` never raises `KeyError` (and `sendBox` never raises `ConnectionLost`
out of `callRemote`) on any schedule of two honest peers.  It needs the *existence and uniqueness* half of the
tag invariant (each tag in flight is held by exactly one of: an `_ask` in the pipe, a pending responder
Deferred, a reply in the pipe — so no second reply can arrive for a tag already popped); `InvW` above carries
only the half needed for matching (a tag in flight never stands for a different call).  What IS proved in its
place: no Deferred fires twice (`never_fires_twice`), so a duplicate reply could at worst raise, never
mis-deliver; and the correspondence check runs the model against the real code on every case and the oracle
fails on any exception escaping `dataReceived` / `callRemote` / `connectionLost` (key `exception-escaped`).
-/

/-! ### non-vacuity: concrete schedules -/

/-- side 0 asks `later`, `ok`; the peer answers the second first, then the first with a declared error;
    a third call is still unanswered when side 0 loses the connection; a fourth is made afterwards -/
def demo : List Op :=
  [.call false .later true true [], .call false .ok true true [], .call false .later true true [.ok],
   .dlv true 1000, .dlv false 1000, .fire true 0 .err, .dlv false 1000,
   .lost false .lost, .call false .ok true true []]

example : (run demo).log.filterMap (fun e => match e with | .fired id o => some (id, o) | _ => none) =
    [(1, .response 1), (0, .declared 0), (2, .connLost .lost), (3, .connLost .lost), (4, .connLost .lost)] := by
  decide

example : Ev.called 2 false .later true ∈ (run demo).log ∧ fireCount (run demo).log 2 = 1 := by decide

example : Ev.fired 1 (.response 1) ∈ (run demo).log ∧ Ev.invoked true 1 .ok ∈ (run demo).log ∧
    Ev.fired 0 (.declared 0) ∈ (run demo).log ∧ Ev.laterFired 0 .err ∈ (run demo).log := by decide

/-- an undeclared error and a missing responder, answered in one delivery -/
example : (run [.call true .unk true true [], .call true .nores true true [], .dlv false 1000, .dlv true 1000]).log.filterMap
    (fun e => match e with | .fired id o => some (id, o) | _ => none) =
    [(0, .unknownRemote), (1, .unhandledCommand)] := by decide

example : let st := run (demo.take 7)
    (st.get false).failReason = none ∧ (st.get false).pending.map (·.2.id) = [2] := by decide

end TwistedProps.C31
