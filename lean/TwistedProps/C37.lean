import TwistedModel.Ssh.KeyBlob
import TwistedProps.C37.Gen
import TwistedProps.C37.Wire
import TwistedProps.C37.Priv
import TwistedProps.C37.Sexpy
import TwistedProps.C37.Lsh
import TwistedProps.C37.OpenSSHv1
import TwistedProps.C37.PubText
import TwistedProps.C37.FromString
/-!
C37 — SSH wire primitives and keys round-trip.

* `getNS_NS`, `getNS_list`: length-prefixed strings decode to exactly what was encoded, for any
  bytes, with any trailing data, any number of strings.
* `getMP_MP`, `getMP_list`: multiple-precision integers likewise, for every `n ≥ 0` (negative
  numbers are refused by `MP`), including the `0x80` padding rule.
* `fromBlob_blob`: the four public-key blob layouts parse back to the same components.
* `gen_*`: `NS`, `getNS`, `MP`, `getMP` are regenerated from conch/ssh/common.py on every run (`Generated.SshWire`,
  harness/py2lean.py) and proved equal to the model's (`TwistedProps/C37/Gen.lean`); `gen_getNS_NS`, `gen_getMP_MP`
  state the wire round trips over the regenerated definitions themselves.


Every key layout Twisted assembles ITSELF is modelled and its round trip proved, for every key
(`WellFormed`: the public half is the one `cryptography` derives from the private half) and every value
of the parameters (`cryptography`'s CRT numbers, the random salt / check bytes, the comment):
* `private_blob_roundtrip`: `Key.privateBlob` / `_fromString_PRIVATE_BLOB` (RSA, DSA, ECDSA, Ed25519);
* `agentv3_roundtrip`: `_toString_AGENTV3` / `_fromString_AGENTV3` (RSA, DSA);
* `sexpy_roundtrip`, `lsh_public_roundtrip`, `lsh_private_roundtrip`: `sexpy.pack`/`parse` and the LSH
  layouts, including the p/q exchange of RSA private keys;
* `openssh_v1_roundtrip` (+ `_no_passphrase`, `_with_passphrase`): the openssh-key-v1 container with the
  cipher and the bcrypt KDF as parameters under the contract `CipherOps.Lawful`;
  `openssh_v1_wrong_check_refused_*`: two different check values are a `BadKeyError`;
  `openssh_v1_padding`: the padding loop appends 1, 2, 3, … to the block size.
* `public_openssh_roundtrip`, `public_openssh_guessed`, `public_openssh_fromString`: the OpenSSH public TEXT line
  `<type> <base64 blob> <comment>` (`_toPublicOpenSSH` / `_fromString_PUBLIC_OPENSSH`, RSA, DSA, Ed25519 — numbers of
  ANY size, any comment bytes) reads back to the same key, `_guessStringType` names its reader, and so
  `Key.fromString(line)` returns the key; base64 is CPython's (`encodebytes` chunking + the lenient `a2b_base64`),
  `bytes.split()` / `strip()` are modelled; `public_openssh_body_is_blob`: the second token is exactly base64(blob).
  ECDSA lines are written and read by `cryptography` (oracle only).
* `guess_blob`, `blob_fromString`: `_guessStringType` (prefix tests + the `getMP` field count) sends every public blob, of
  all four key types, to `_fromString_BLOB`, so `Key.fromString(key.blob())` returns the key.
* `fromString_type_case`, `fromString_empty_passphrase`, `fromString_guess`, `public_openssh_fromString_named`,
  `blob_fromString_named`, `*_guessed_empty_passphrase`, `fromString_passphrase_refused`: the entry point
  `Key.fromString(data, type, passphrase)` — the format NAME is case-insensitive (`type.upper()`), an EMPTY passphrase is no
  passphrase for the readers that take none, so a written public line / blob reads back under any spelling of its format name
  (or none) with `passphrase` None or empty; a non-empty one is refused ("key not encrypted").
"Same fingerprint": `Key.fingerprint()` is a hash of `Key.blob()`, a function of the key — an equal key has
the same one (checked on the real code by the oracle).

Outside the model (oracle only): the PEM/DER formats `cryptography` produces, the ECDSA public text line
(`cryptography`'s `public_bytes` / `load_ssh_public_key`), and the base64 / PEM armour around the v1 container and
the LSH public form.
-/
namespace TwistedProps.C37
open Twisted.Py Twisted.Ssh.Wire Twisted.Ssh.KeyBlob Twisted.Ssh.PrivKey Twisted.Ssh.Sexpy Twisted.Ssh.Lsh
  Twisted.Ssh.OpenSSHv1 Twisted.Ssh.PubText Twisted.Ssh.FromString
open Twisted.Cred.Digest (b64encode b64decode)

/-! ### NS / getNS, MP / getMP (lemmas in `C37/Wire.lean`) -/

theorem getNS_NS (s r enc : Bytes) (h : NS s = .ok enc) : getNS 1 (enc ++ r) = .ok ([s], r) := by
  have := getNS_list [s] r enc (by simp [NSs, h, bind, Except.bind, pure, Except.pure])
  simpa using this

/-- `NS` refuses nothing below 2^32 bytes. -/
theorem NS_ok (s : Bytes) (h : s.length < 4294967296) : ∃ enc, NS s = .ok enc := by
  simp [NS, h]

theorem MP_negative (n : Int) (h : n < 0) : MP n = .error .assertion := by
  have : n ≠ 0 := by omega
  simp [MP, this, h]

theorem getMP_MP (n : Nat) (r enc : Bytes) (h : MP (n : Int) = .ok enc) :
    getMP 1 (enc ++ r) = .ok ([n], r) := by
  have := getMP_list [n] r enc (by simp [MPs, h, bind, Except.bind, pure, Except.pure])
  simpa using this

/-- The encoding is canonical for SSH: a positive number never starts with a set top bit
    (it would read as negative under RFC 4251) … -/
theorem MP_top_bit_clear (n : Nat) (enc : Bytes) (h : MP (n : Int) = .ok enc) (hn : 0 < n) :
    ((enc.drop 4).headD 0).toNat &&& 128 = 0 := by
  unfold MP at h
  have h0 : ¬ (n : Int) = 0 := by omega
  have hneg : ¬ (n : Int) < 0 := by omega
  simp only [h0, hneg, if_false, Int.toNat_natCast] at h
  generalize hbn : (if ((natToBE n).headD 0).toNat &&& 128 ≠ 0 then 0 :: natToBE n else natToBE n) = bn at h
  have htop : (bn.headD 0).toNat &&& 128 = 0 := by
    rw [← hbn]; split
    · simp
    · rename_i hb; simpa using hb
  by_cases hlen : bn.length < 4294967296
  · simp only [hlen, if_true] at h
    cases h
    rw [List.drop_append_of_le_length (by simp [u32be_length])]
    simpa [u32be] using htop
  · simp [hlen] at h

/-! ### the translator-regenerated `NS` / `getNS` / `MP` / `getMP` (see `TwistedProps/C37/Gen.lean`) -/

/-- `NS` as regenerated from common.py = the model's (the model's `Err` read as the Python exception class) -/
theorem gen_NS (t : Bytes) : Generated.SshWire.NS t = (NS t).mapError errToPy := gen_NS_eq t

/-- `getNS` as regenerated from common.py (absolute cursor, slices of the whole buffer, fold over `range(count)`)
    = the model's recursion on the unread rest, for every buffer and count -/
theorem gen_getNS (s : Bytes) (count : Nat) :
    Generated.SshWire.getNS s count = (getNS count s).mapError errToPy := gen_getNS_eq s count

/-- `MP` as regenerated from common.py = the model's, for every integer -/
theorem gen_MP (number : Int) : Generated.SshWire.MP number = (MP number).mapError errToPy := gen_MP_eq number

/-- `getMP` as regenerated from common.py = the model's, for every buffer and count -/
theorem gen_getMP (s : Bytes) (count : Nat) :
    Generated.SshWire.getMP s count = (getMP count s).mapError errToPy := gen_getMP_eq s count

theorem ok_of_mapError_ok {α : Type} (x : Except Err α) (v : α)
    (h : x.mapError errToPy = .ok v) : x = .ok v := by
  cases x with
  | error e => cases h
  | ok a => cases h; rfl

/-- **getNS ∘ NS over the regenerated code**: what the translated `NS` encodes, the translated `getNS` decodes to
    exactly that string and that rest -/
theorem gen_getNS_NS (s r enc : Bytes) (h : Generated.SshWire.NS s = .ok enc) :
    Generated.SshWire.getNS (enc ++ r) 1 = .ok ([s], r) := by
  rw [gen_NS_eq] at h
  rw [gen_getNS_eq, getNS_NS s r enc (ok_of_mapError_ok _ _ h)]; rfl

/-- **getMP ∘ MP over the regenerated code**, for every `n ≥ 0` -/
theorem gen_getMP_MP (n : Nat) (r enc : Bytes) (h : Generated.SshWire.MP (n : Int) = .ok enc) :
    Generated.SshWire.getMP (enc ++ r) 1 = .ok ([n], r) := by
  rw [gen_MP_eq] at h
  rw [gen_getMP_eq, getMP_MP n r enc (ok_of_mapError_ok _ _ h)]; rfl

/-- the regenerated `MP` refuses negative numbers with the `assert` -/
theorem gen_MP_negative (n : Int) (h : n < 0) : Generated.SshWire.MP n = .error .assertionError := by
  rw [gen_MP_eq, MP_negative n h]; rfl

example : (match Generated.SshWire.MP 128 with | .ok b => b == [0, 0, 0, 2, 0, 128] | _ => false) = true := by
  decide +kernel
example : (match Generated.SshWire.getNS [0, 0, 0, 2, 1, 2, 7] 1 with | .ok r => r == ([[1, 2]], [7]) | _ => false) = true := by
  decide +kernel

/-! ### public-key blobs -/

theorem fromBlob_blob_rsa (e n : Nat) (enc : Bytes) (h : blob (.rsa e n) = .ok enc) :
    fromBlob enc = .ok (.rsa e n) := by
  simp only [blob] at h
  cases ha : NS sshRsa with
  | error x => simp [ha, bind, Except.bind] at h
  | ok a =>
    cases hb : MP (e : Int) with
    | error x => simp [ha, hb, bind, Except.bind] at h
    | ok b =>
      cases hc : MP (n : Int) with
      | error x => simp [ha, hb, hc, bind, Except.bind] at h
      | ok c =>
        simp only [ha, hb, hc, bind, Except.bind, pure, Except.pure] at h
        cases h
        have h1 := getNS1_NS sshRsa (b ++ c) a ha
        have h2 := getMP_list [e, n] [] (b ++ c)
          (by simp [MPs, hb, hc, bind, Except.bind, pure, Except.pure])
        simp only [List.append_nil, List.length_cons, List.length_nil] at h2
        unfold fromBlob
        rw [List.append_assoc, h1]
        simp [liftW, bind, Except.bind, h2, pure, Except.pure]

theorem fromBlob_blob_dsa (p q g y : Nat) (enc : Bytes) (h : blob (.dsa p q g y) = .ok enc) :
    fromBlob enc = .ok (.dsa p q g y) := by
  simp only [blob] at h
  cases ha : NS sshDss with
  | error x => simp [ha, bind, Except.bind] at h
  | ok a =>
    cases hb : MP (p : Int) with
    | error x => simp [ha, hb, bind, Except.bind] at h
    | ok b =>
      cases hc : MP (q : Int) with
      | error x => simp [ha, hb, hc, bind, Except.bind] at h
      | ok c =>
        cases hd : MP (g : Int) with
        | error x => simp [ha, hb, hc, hd, bind, Except.bind] at h
        | ok d =>
          cases he : MP (y : Int) with
          | error x => simp [ha, hb, hc, hd, he, bind, Except.bind] at h
          | ok e =>
            simp only [ha, hb, hc, hd, he, bind, Except.bind, pure, Except.pure] at h
            cases h
            have h1 := getNS1_NS sshDss (b ++ c ++ d ++ e) a ha
            have h2 := getMP_list [p, q, g, y] [] (b ++ (c ++ (d ++ e)))
              (by simp [MPs, hb, hc, hd, he, bind, Except.bind, pure, Except.pure])
            simp only [List.append_nil, List.length_cons, List.length_nil] at h2
            unfold fromBlob
            simp only [List.append_assoc] at h1 ⊢
            rw [h1]
            have hne : sshDss ≠ sshRsa := by decide
            simp [liftW, bind, Except.bind, h2, pure, Except.pure, hne]

theorem fromBlob_blob_ed25519 (k : Bytes) (enc : Bytes) (h : blob (.ed25519 k) = .ok enc) :
    fromBlob enc = .ok (.ed25519 k) := by
  simp only [blob] at h
  cases ha : NS sshEd with
  | error x => simp [ha, bind, Except.bind] at h
  | ok a =>
    cases hb : NS k with
    | error x => simp [ha, hb, bind, Except.bind] at h
    | ok b =>
      simp only [ha, hb, bind, Except.bind, pure, Except.pure] at h
      cases h
      have h1 := getNS1_NS sshEd b a ha
      have h2 := getNS1_NS k [] b hb
      simp only [List.append_nil] at h2
      unfold fromBlob
      rw [h1]
      have hne1 : sshEd ≠ sshRsa := by decide
      have hne2 : sshEd ≠ sshDss := by decide
      have hne3 : sshEd ∉ curves := by decide
      simp [liftW, bind, Except.bind, h2, pure, Except.pure, hne1, hne2, hne3]

theorem fromBlob_blob_ec (curve point : Bytes) (hc : curve ∈ curves) (enc : Bytes)
    (h : blob (.ec curve point) = .ok enc) : fromBlob enc = .ok (.ec curve point) := by
  simp only [blob] at h
  cases ha : NS curve with
  | error x => simp [ha, bind, Except.bind] at h
  | ok a =>
    cases hb : NS (curve.drop (curve.length - 8)) with
    | error x => simp [ha, hb, bind, Except.bind] at h
    | ok b =>
      cases hcc : NS point with
      | error x => simp [ha, hb, hcc, bind, Except.bind] at h
      | ok c =>
        simp only [ha, hb, hcc, bind, Except.bind, pure, Except.pure] at h
        cases h
        have h1 := getNS1_NS curve (b ++ c) a ha
        have h2 := getNS_list [curve.drop (curve.length - 8), point] [] (b ++ c)
          (by simp [NSs, hb, hcc, bind, Except.bind, pure, Except.pure])
        simp only [List.append_nil, List.length_cons, List.length_nil] at h2
        unfold fromBlob
        rw [List.append_assoc, h1]
        have hne1 : curve ≠ sshRsa := by
          intro e; subst e; revert hc; decide
        have hne2 : curve ≠ sshDss := by
          intro e; subst e; revert hc; decide
        simp [liftW, bind, Except.bind, h2, pure, Except.pure, hne1, hne2, hc]

/-- **Public blobs round-trip** for every key type (EC restricted to the three NIST curves
    Twisted supports, as `_curveTable` is). -/
theorem fromBlob_blob (k : PubKey) (enc : Bytes) (hk : ∀ c p, k = .ec c p → c ∈ curves)
    (h : blob k = .ok enc) : fromBlob enc = .ok k := by
  cases k with
  | rsa e n => exact fromBlob_blob_rsa e n enc h
  | dsa p q g y => exact fromBlob_blob_dsa p q g y enc h
  | ec c p => exact fromBlob_blob_ec c p (hk c p rfl) enc h
  | ed25519 a => exact fromBlob_blob_ed25519 a enc h


/-! ### private layouts Twisted assembles itself -/

/-- **Private blobs round-trip** (`Key.privateBlob` → `_fromString_PRIVATE_BLOB`) for RSA, DSA, ECDSA and
    Ed25519 keys, whatever CRT value `cryptography` supplied for the `u` slot and whatever follows. -/
theorem private_blob_roundtrip (G : KeyGen) (k : PrivKey) (hk : WellFormed G k) (iqmp : Nat) (enc r : Bytes)
    (h : privateBlob k iqmp = .ok enc) : fromPrivateBlob G (enc ++ r) = .ok k := by
  simp [fromPrivateBlob, parsePrivateBlob_privateBlob G k iqmp hk enc r h, Except.map, build_fieldsOf G k hk]

/-- **Agent v3 round-trips** for the key types it exists for (RSA, DSA: `toAgentV3` fails otherwise). -/
theorem agentv3_roundtrip (G : KeyGen) (k : PrivKey) (u : Nat) (enc r : Bytes)
    (h : toAgentV3 k u = .ok enc) : fromAgentV3 G (enc ++ r) = .ok k := by
  have hk : build G (fieldsOf k) = k := by
    cases k with
    | rsa => rfl
    | dsa => rfl
    | ec c pt pv => simp [toAgentV3] at h
    | ed25519 a s => simp [toAgentV3] at h
  simp [fromAgentV3, parseAgentV3_toAgentV3 k u enc r h, Except.map, hk]

/-- **sexpy**: `parse(pack([xs])) == xs` for every nested S-expression. -/
theorem sexpy_roundtrip (xs : List Sexp) : parse (packList [.list xs]) = .ok xs := parse_pack xs

/-- **LSH public keys round-trip** (RSA, DSA: `toLshPublic` is a `BadKeyError` otherwise). -/
theorem lsh_public_roundtrip (k : PubKey) (enc : Bytes) (h : toLshPublic k = .ok enc) :
    fromLshPublic enc = .ok k := by
  cases k with
  | rsa e n => exact fromLshPublic_rsa e n enc h
  | dsa p q g y => exact fromLshPublic_dsa p q g y enc h
  | ec c p => simp [toLshPublic] at h
  | ed25519 a => simp [toLshPublic] at h

/-- **LSH private keys round-trip** (RSA incl. the p/q exchange, DSA), whatever `iqmp` was written. -/
theorem lsh_private_roundtrip (G : KeyGen) (k : PrivKey) (iqmp : Nat) (enc : Bytes)
    (h : toLshPrivate k iqmp = .ok enc) : fromLshPrivate G enc = .ok k := by
  cases k with
  | rsa n e d p q => simp [fromLshPrivate, parseLshPrivate_rsa n e d p q iqmp enc h, Except.map, build]
  | dsa p q g y x => simp [fromLshPrivate, parseLshPrivate_dsa p q g y x iqmp enc h, Except.map, build]
  | ec c pt pv => simp [toLshPrivate] at h
  | ed25519 a s => simp [toLshPrivate] at h

/-- **OpenSSH v1 container round-trips**, with a passphrase (aes256-ctr + bcrypt, under the cipher
    contract) and without, for every key type, comment, salt and check value. -/
theorem openssh_v1_roundtrip (C : CipherOps) (hC : C.Lawful) (G : KeyGen) (k : PrivKey) (hk : WellFormed G k)
    (iqmp : Nat) (comment passphrase salt check enc : Bytes) (hc : check.length = 4)
    (h : toOpenSSHv1 C k iqmp comment passphrase salt check = .ok enc) :
    fromOpenSSHv1 C G enc passphrase = .ok k := by
  simp [fromOpenSSHv1, parseOpenSSHv1_toOpenSSHv1 C hC G k hk iqmp comment passphrase salt check enc hc h,
    Except.map, build_fieldsOf G k hk]

theorem openssh_v1_roundtrip_no_passphrase (C : CipherOps) (hC : C.Lawful) (G : KeyGen) (k : PrivKey)
    (hk : WellFormed G k) (iqmp : Nat) (comment salt check enc : Bytes) (hc : check.length = 4)
    (h : toOpenSSHv1 C k iqmp comment [] salt check = .ok enc) : fromOpenSSHv1 C G enc [] = .ok k :=
  openssh_v1_roundtrip C hC G k hk iqmp comment [] salt check enc hc h

theorem openssh_v1_roundtrip_with_passphrase (C : CipherOps) (hC : C.Lawful) (G : KeyGen) (k : PrivKey)
    (hk : WellFormed G k) (iqmp : Nat) (comment passphrase salt check enc : Bytes) (_hp : passphrase ≠ [])
    (hc : check.length = 4) (h : toOpenSSHv1 C k iqmp comment passphrase salt check = .ok enc) :
    fromOpenSSHv1 C G enc passphrase = .ok k :=
  openssh_v1_roundtrip C hC G k hk iqmp comment passphrase salt check enc hc h

/-- **A wrong check pair is refused** (unencrypted container): `BadKeyError`, whatever follows. -/
theorem openssh_v1_wrong_check_refused_plain (C : CipherOps) (G : KeyGen) (pub c1 c2 body enc pass : Bytes)
    (h1 : c1.length = 4) (h2 : c2.length = 4) (hne : c1 ≠ c2)
    (h : container sNone sNone [] pub (c1 ++ c2 ++ body) = .ok enc) :
    fromOpenSSHv1 C G enc pass = .error .badKey := by
  simp [fromOpenSSHv1, wrong_check_refused_plain C pub c1 c2 body enc pass h1 h2 hne h, Except.map]

/-- … and in an encrypted container (written as `_toPrivateOpenSSH_v1` does, any rounds), under the
    cipher contract. -/
theorem openssh_v1_wrong_check_refused_encrypted (C : CipherOps) (hC : C.Lawful) (G : KeyGen)
    (salt s pub c1 c2 body enc pass : Bytes) (rounds : Nat) (hr : rounds < 4294967296) (hs : NS salt = .ok s)
    (hp : pass ≠ []) (h1 : c1.length = 4) (h2 : c2.length = 4) (hne : c1 ≠ c2)
    (hlen : (c1 ++ c2 ++ body).length % 16 = 0)
    (h : container sAes256 sBcrypt (s ++ u32be rounds) pub
          (C.encrypt ((C.kdf pass salt (32 + 16) rounds).take 32) (((C.kdf pass salt (32 + 16) rounds).drop 32).take 16)
            (c1 ++ c2 ++ body)) = .ok enc) :
    fromOpenSSHv1 C G enc pass = .error .badKey := by
  simp [fromOpenSSHv1, wrong_check_refused_encrypted C hC salt s pub c1 c2 body enc pass rounds hr hs hp h1 h2 hne hlen h,
    Except.map]

/-- **Padding**: the `while len % blockSize` loop appends exactly 1, 2, 3, … up to the next multiple of the
    block size, for both block sizes the writer uses (8 without, 16 with a passphrase). -/
theorem openssh_v1_padding (l : Bytes) :
    padLoop 8 8 0 l = l ++ padding 8 l.length ∧ (padLoop 8 8 0 l).length % 8 = 0 ∧
    padLoop 16 16 0 l = l ++ padding 16 l.length ∧ (padLoop 16 16 0 l).length % 16 = 0 := by
  refine ⟨padLoop_closed8 l, ?_, padLoop_closed16 l, ?_⟩
  · rw [padLoop_closed8, List.length_append, padding_length]; omega
  · rw [padLoop_closed16, List.length_append, padding_length]; omega

/-! ### the OpenSSH public text line (lemmas in `C37/PubText.lean`) -/

/-- what `_toPublicOpenSSH` wrote, taken apart: not an ECDSA key, the blob, and the line's shape -/
theorem written_line (k : PubKey) (comment text : Bytes) (h : toPublicOpenSSH k comment = .ok text) :
    (∀ c p, k ≠ .ec c p) ∧ ∃ b R tail, blob k = .ok b ∧ fromBlob b = .ok k ∧ text = sshType k ++ R ∧
      splitWs text = sshType k :: b64encode b :: tail := by
  have hnec : ∀ c p, k ≠ .ec c p := by
    intro c p hk; subst hk; simp [toPublicOpenSSH] at h
  refine ⟨hnec, ?_⟩
  cases hb : blob k with
  | error e => cases k <;> simp [toPublicOpenSSH, hb] at h
  | ok b =>
    have ht : text = Twisted.Ssh.PubText.strip (sshType k ++ [32] ++ b64line b ++ [32] ++ comment) := by
      cases k <;> simp_all [toPublicOpenSSH]
    have hfb : fromBlob b = .ok k := fromBlob_blob k b (fun c p hk => absurd hk (hnec c p)) hb
    have hbne : b ≠ [] := by
      intro h0; subst h0
      simp [fromBlob, getNS1, liftW, bind, Except.bind] at hfb
    rw [b64line_eq] at ht
    obtain ⟨hT, hTne, _⟩ := sshType_facts k hnec
    obtain ⟨R, tail, hs, hsp⟩ := line_shape (sshType k) (b64encode b) comment hT hTne
      (fun x hx => (b64encode_not_ws b x hx).1) (b64encode_ne_nil b hbne)
    exact ⟨b, R, tail, rfl, hfb, by rw [ht, hs], by rw [ht, hs, hsp]⟩

/-- **The OpenSSH public line round-trips** (`_toPublicOpenSSH` → `_fromString_PUBLIC_OPENSSH`) for every RSA, DSA and
    Ed25519 key — numbers of any size — and every comment (any bytes, whitespace included).  ECDSA keys are
    written by `cryptography` (`toPublicOpenSSH` is `.error .opaque` for them, so `h` excludes them). -/
theorem public_openssh_roundtrip (k : PubKey) (comment text : Bytes)
    (h : toPublicOpenSSH k comment = .ok text) : fromPublicOpenSSH text = .ok k := by
  obtain ⟨hnec, b, R, tail, _, hfb, ht, hsp⟩ := written_line k comment text h
  unfold fromPublicOpenSSH
  rw [hsp]
  rw [ht, ((sshType_facts k hnec).2.2 R).1]
  simp [TwistedProps.C48.b64decode_b64encode, Twisted.Ssh.PubText.liftP, hfb]

/-- `_guessStringType` sends every written line to the public OpenSSH reader … -/
theorem public_openssh_guessed (k : PubKey) (comment text : Bytes)
    (h : toPublicOpenSSH k comment = .ok text) : guessStringType text = .ok .publicOpenssh := by
  obtain ⟨hnec, b, R, tail, _, hfb, ht, hsp⟩ := written_line k comment text h
  unfold guessStringType
  rw [ht, ((sshType_facts k hnec).2.2 R).2]
  simp

/-- … so **`Key.fromString(line)`, type guessed, returns the key**. -/
theorem public_openssh_fromString (k : PubKey) (comment text : Bytes)
    (h : toPublicOpenSSH k comment = .ok text) : fromStringGuess text = .ok k := by
  unfold fromStringGuess
  rw [public_openssh_guessed k comment text h]
  exact public_openssh_roundtrip k comment text h

/-- The line's second whitespace-separated token is exactly the base64 of `Key.blob()` and decodes to it, whatever
    the comment (so a reader that takes `split()[1]` — OpenSSH's, `cryptography`'s — sees the same blob). -/
theorem public_openssh_body_is_blob (k : PubKey) (comment text : Bytes)
    (h : toPublicOpenSSH k comment = .ok text) :
    ∃ b tail, blob k = .ok b ∧ splitWs text = sshType k :: b64encode b :: tail ∧ b64decode (b64encode b) = .ok b := by
  obtain ⟨_, b, R, tail, hb, _, _, hsp⟩ := written_line k comment text h
  exact ⟨b, tail, hb, hsp, TwistedProps.C48.b64decode_b64encode b⟩

/-- The writer refuses nothing but over-long numbers: it succeeds whenever `Key.blob()` does. -/
theorem public_openssh_writes (k : PubKey) (comment b : Bytes) (hk : ∀ c p, k ≠ .ec c p) (hb : blob k = .ok b) :
    ∃ text, toPublicOpenSSH k comment = .ok text := by
  cases k with
  | ec c p => exact absurd rfl (hk c p)
  | rsa e n => simp [toPublicOpenSSH, hb]
  | dsa p q g y => simp [toPublicOpenSSH, hb]
  | ed25519 a => simp [toPublicOpenSSH, hb]

/-- `encodebytes(b).replace(b"\n", b"")` is plain base64 of `b` (the 57-byte chunking never splits a triple). -/
theorem encodebytes_without_newlines (b : Bytes) : b64line b = b64encode b := b64line_eq b

/-- **`_guessStringType` names the blob reader for every public blob** (all four key types): `Key.fromString(key.blob())`
    dispatches to `_fromString_BLOB`. -/
theorem guess_blob (k : PubKey) (enc : Bytes) (hk : ∀ c p, k = .ec c p → c ∈ curves) (h : blob k = .ok enc) :
    guessStringType enc = .ok .blob := by
  cases k with
  | rsa e n =>
    simp only [blob] at h
    cases ha : NS sshRsa with
    | error x => simp [ha, bind, Except.bind] at h
    | ok a =>
      cases hb : MP (e : Int) with
      | error x => simp [ha, hb, bind, Except.bind] at h
      | ok b =>
        cases hc : MP (n : Int) with
        | error x => simp [ha, hb, hc, bind, Except.bind] at h
        | ok c =>
          simp only [ha, hb, hc, bind, Except.bind, pure, Except.pure] at h
          cases h
          have hA : a = [0, 0, 0, 7] ++ sshRsa := by
            have : NS sshRsa = .ok ([0, 0, 0, 7] ++ sshRsa) := rfl
            rw [this] at ha; cases ha; rfl
          have := guess_of_fields a sshRsa [b, c] ha
            (by intro x hx; simp at hx; rcases hx with rfl | rfl; exact isField_MP e _ hb; exact isField_MP n _ hc)
            (by subst hA; rfl) (by subst hA; simp [pBin, startsWith, sshRsa, List.isPrefixOf])
          simpa using this
  | dsa p q g y =>
    simp only [blob] at h
    cases ha : NS sshDss with
    | error x => simp [ha, bind, Except.bind] at h
    | ok a =>
      cases hb : MP (p : Int) with
      | error x => simp [ha, hb, bind, Except.bind] at h
      | ok b =>
        cases hc : MP (q : Int) with
        | error x => simp [ha, hb, hc, bind, Except.bind] at h
        | ok c =>
          cases hd : MP (g : Int) with
          | error x => simp [ha, hb, hc, hd, bind, Except.bind] at h
          | ok d =>
            cases he : MP (y : Int) with
            | error x => simp [ha, hb, hc, hd, he, bind, Except.bind] at h
            | ok e =>
              simp only [ha, hb, hc, hd, he, bind, Except.bind, pure, Except.pure] at h
              cases h
              have hA : a = [0, 0, 0, 7] ++ sshDss := by
                have : NS sshDss = .ok ([0, 0, 0, 7] ++ sshDss) := rfl
                rw [this] at ha; cases ha; rfl
              have := guess_of_fields a sshDss [b, c, d, e] ha
                (by intro x hx; simp at hx
                    rcases hx with rfl | rfl | rfl | rfl
                    · exact isField_MP p _ hb
                    · exact isField_MP q _ hc
                    · exact isField_MP g _ hd
                    · exact isField_MP y _ he)
                (by subst hA; rfl) (by subst hA; simp [pBin, startsWith, sshDss, List.isPrefixOf])
              simpa using this
  | ed25519 key =>
    simp only [blob] at h
    cases ha : NS sshEd with
    | error x => simp [ha, bind, Except.bind] at h
    | ok a =>
      cases hb : NS key with
      | error x => simp [ha, hb, bind, Except.bind] at h
      | ok b =>
        simp only [ha, hb, bind, Except.bind, pure, Except.pure] at h
        cases h
        have hA : a = [0, 0, 0, 11] ++ sshEd := by
          have : NS sshEd = .ok ([0, 0, 0, 11] ++ sshEd) := rfl
          rw [this] at ha; cases ha; rfl
        have := guess_of_fields a sshEd [b] ha
          (by intro x hx; simp at hx; subst hx; exact isField_NS key _ hb)
          (by subst hA; rfl) (by subst hA; simp [pBin, startsWith, sshEd, List.isPrefixOf])
        simpa using this
  | ec curve point =>
    have hcv := hk curve point rfl
    simp only [blob] at h
    cases ha : NS curve with
    | error x => simp [ha, bind, Except.bind] at h
    | ok a =>
      cases hb : NS (curve.drop (curve.length - 8)) with
      | error x => simp [ha, hb, bind, Except.bind] at h
      | ok b =>
        cases hc : NS point with
        | error x => simp [ha, hb, hc, bind, Except.bind] at h
        | ok c =>
          simp only [ha, hb, hc, bind, Except.bind, pure, Except.pure] at h
          cases h
          have hA : ∃ x, curve = [101, 99, 100, 115, 97, 45] ++ x ∧ a = [0, 0, 0, 19] ++ curve := by
            have hns := NS_curve curve hcv
            rw [hns.2] at ha; cases ha
            exact ⟨_, hns.1.choose_spec, rfl⟩
          obtain ⟨x, hx, hA⟩ := hA
          have := guess_of_fields a curve [b, c] ha
            (by intro x hx; simp at hx; rcases hx with rfl | rfl; exact isField_NS _ _ hb; exact isField_NS _ _ hc)
            (by subst hA; rfl) (by subst hA; subst hx; simp [pBin, startsWith, List.isPrefixOf])
          simpa using this

/-- … so **`Key.fromString(key.blob())`, type guessed, returns the key** (all four key types). -/
theorem blob_fromString (k : PubKey) (enc : Bytes) (hk : ∀ c p, k = .ec c p → c ∈ curves) (h : blob k = .ok enc) :
    fromStringGuess enc = .ok k := by
  unfold fromStringGuess
  rw [guess_blob k enc hk h, fromBlob_blob k enc hk h]
  rfl

/-! ### the entry point `Key.fromString(data, type, passphrase)` (model `Ssh/FromString.lean`, lemmas `C37/FromString.lean`) -/

/-- **The format name is case-insensitive**: `fromString(data, type=t)` is `fromString(data, type=t.upper())`, for every
    data, name and passphrase (so "OPENSSH"-style names, as the docstrings spell them, reach the same reader). -/
theorem fromString_type_case (data t : Bytes) (pass : Option Bytes) :
    fromString data (some (upper t)) pass = fromString data (some t) pass := by
  unfold fromString; rw [resolve_upper]

/-- **An empty passphrase is no passphrase** for every reader without a passphrase parameter: `passphrase=b""` (or `""`,
    which normalises to it) behaves as `passphrase=None`, for every data and type. -/
theorem fromString_empty_passphrase (data : Bytes) (type : Option Bytes) :
    fromString data type (some []) = fromString data type none := by
  unfold fromString; rw [truthy_empty]

/-- `fromString(data)` — no type, no passphrase — is the guessed dispatch of `PubText` (the earlier theorems apply). -/
theorem fromString_guess (data : Bytes) : fromString data none none = fromStringGuess data := by
  unfold fromString fromStringGuess resolve
  cases hg : guessStringType data with
  | error e => rfl
  | ok g => cases g <;> simp [ofGuess, takesPassphrase, truthy]

theorem resolve_named (data t : Bytes) : resolve data (some t) = .ok (readerOfUpper (upper t)) := rfl
theorem reader_public_openssh : readerOfUpper nPublicOpenssh = some .publicOpenssh := by decide
theorem reader_blob : readerOfUpper nBlob = some .blob := by decide

/-- a non-empty passphrase handed to a reader of unencrypted data is refused with BadKeyError("key not encrypted") -/
theorem fromString_passphrase_refused (data t : Bytes) (c : UInt8) (cs : Bytes)
    (ht : upper t = nPublicOpenssh ∨ upper t = nBlob) :
    fromString data (some t) (some (c :: cs)) = .error .badKey := by
  unfold fromString
  rw [resolve_named]
  rcases ht with h | h <;> rw [h]
  · simp [reader_public_openssh, takesPassphrase, truthy]
  · simp [reader_blob, takesPassphrase, truthy]

/-- **`Key.fromString(line, type=<"public_openssh" in any case>, passphrase=<None or empty>)` returns the key** for every
    written OpenSSH public line (RSA / DSA / Ed25519, any comment). -/
theorem public_openssh_fromString_named (k : PubKey) (comment text t : Bytes) (pass : Option Bytes)
    (h : toPublicOpenSSH k comment = .ok text) (ht : upper t = nPublicOpenssh) (hp : pass = none ∨ pass = some []) :
    fromString text (some t) pass = .ok k := by
  have hr : fromString text (some t) none = .ok k := by
    unfold fromString
    rw [resolve_named, ht]
    simp [reader_public_openssh, takesPassphrase, truthy, public_openssh_roundtrip k comment text h]
  rcases hp with rfl | rfl
  · exact hr
  · rw [fromString_empty_passphrase]; exact hr

/-- … and with the type guessed and an empty passphrase. -/
theorem public_openssh_fromString_guessed_empty_passphrase (k : PubKey) (comment text : Bytes) (pass : Option Bytes)
    (h : toPublicOpenSSH k comment = .ok text) (hp : pass = none ∨ pass = some []) :
    fromString text none pass = .ok k := by
  have hr : fromString text none none = .ok k := by
    rw [fromString_guess]; exact public_openssh_fromString k comment text h
  rcases hp with rfl | rfl
  · exact hr
  · rw [fromString_empty_passphrase]; exact hr

/-- **`Key.fromString(key.blob(), type=<"blob" in any case or None>, passphrase=<None or empty>)` returns the key**, all four
    key types. -/
theorem blob_fromString_named (k : PubKey) (enc t : Bytes) (pass : Option Bytes) (hk : ∀ c p, k = .ec c p → c ∈ curves)
    (h : blob k = .ok enc) (ht : upper t = nBlob) (hp : pass = none ∨ pass = some []) :
    fromString enc (some t) pass = .ok k := by
  have hr : fromString enc (some t) none = .ok k := by
    unfold fromString
    rw [resolve_named, ht]
    simp [reader_blob, takesPassphrase, truthy, fromBlob_blob k enc hk h, Twisted.Ssh.PubText.liftP]
  rcases hp with rfl | rfl
  · exact hr
  · rw [fromString_empty_passphrase]; exact hr

theorem blob_fromString_guessed_empty_passphrase (k : PubKey) (enc : Bytes) (pass : Option Bytes)
    (hk : ∀ c p, k = .ec c p → c ∈ curves) (h : blob k = .ok enc) (hp : pass = none ∨ pass = some []) :
    fromString enc none pass = .ok k := by
  have hr : fromString enc none none = .ok k := by
    rw [fromString_guess]; exact blob_fromString k enc hk h
  rcases hp with rfl | rfl
  · exact hr
  · rw [fromString_empty_passphrase]; exact hr

/-! ### Non-vacuity -/

/-- the contract is satisfiable: a toy XOR-free "cipher" (identity) is lawful … -/
def idCipher : CipherOps := ⟨fun _ _ n _ => List.replicate n 7, fun _ _ x => x, fun _ _ x => x⟩
example : idCipher.Lawful := ⟨fun _ _ _ => rfl, fun _ _ _ => rfl⟩
/-- … and so is one that really changes the bytes (add / subtract 1) -/
def incCipher : CipherOps := ⟨fun _ _ n _ => List.replicate n 7, fun _ _ x => x.map (· + 1), fun _ _ x => x.map (· - 1)⟩
example : incCipher.Lawful := ⟨fun _ _ x => by simp [incCipher, Function.comp_def], fun _ _ x => by simp [incCipher]⟩

def okIs {ε α} [DecidableEq α] (x : Except ε α) (a : α) : Bool := match x with | .ok b => decide (b = a) | .error _ => false

def toyGen : KeyGen := ⟨fun _ n => [4, UInt8.ofNat n], fun k => k.reverse⟩
def toyRsa : PrivKey := .rsa 3233 17 413 61 53

example : (match privateBlob toyRsa 38 with | .ok b => b.length == 11 + 6 + 5 + 6 + 5 + 5 + 5 | _ => false) = true := by
  decide +kernel
example : (match toAgentV3 toyRsa 38 with | .ok b => okIs (parseAgentV3 (b ++ [9])) (.rsa 3233 17 413 61 53) | _ => false) = true := by
  decide +kernel
example : (match toLshPrivate toyRsa 38 with
    | .ok b => b.take 17 == [40, 49, 49, 58, 112, 114, 105, 118, 97, 116, 101, 45, 107, 101, 121, 40, 57] | _ => false) = true := by
  decide +kernel
example : padLoop 8 8 0 [9, 9, 9, 9, 9] = [9, 9, 9, 9, 9, 1, 2, 3] := by decide
example : (match toOpenSSHv1 incCipher toyRsa 38 [104, 105] [112, 119] [1, 2, 3] [9, 8, 7, 6] with
    | .ok b => okIs (fromOpenSSHv1 incCipher toyGen b [112, 119]) toyRsa && b.length == 152 | _ => false) = true := by
  decide +kernel
example : (match toOpenSSHv1 incCipher (.ed25519 ((List.replicate 32 5).reverse) (List.replicate 32 5)) 0 [] [] [] [0, 0, 0, 1] with
    | .ok b => okIs (fromOpenSSHv1 incCipher toyGen b []) (.ed25519 (List.replicate 32 5) (List.replicate 32 5)) | _ => false) = true := by
  decide +kernel
example : (match MP 128 with | .ok b => b == [0, 0, 0, 2, 0, 128] | _ => false) = true := by decide +kernel
example : (match getMP 1 [0, 0, 0, 2, 0, 128, 7] with | .ok r => r == ([128], [7]) | _ => false) = true := by decide +kernel
/-- `ssh-rsa AAAAB3NzaC1yc2EAAAADAQABAAAAAgD/ hi`: the writer strips the comment's trailing blank … -/
example : (match toPublicOpenSSH (.rsa 65537 255) [104, 105, 32] with
  | .ok t => t == [115, 115, 104, 45, 114, 115, 97, 32, 65, 65, 65, 65, 66, 51, 78, 122, 97, 67, 49, 121, 99, 50, 69, 65, 65,
      65, 65, 68, 65, 81, 65, 66, 65, 65, 65, 65, 65, 103, 68, 47, 32, 104, 105]
  | _ => false) = true := by decide +kernel
/-- … and the reader (type guessed) takes a tab as separator and a trailing newline -/
example : (match fromStringGuess [115, 115, 104, 45, 114, 115, 97, 9, 65, 65, 65, 65, 66, 51, 78, 122, 97, 67, 49, 121, 99,
    50, 69, 65, 65, 65, 65, 68, 65, 81, 65, 66, 65, 65, 65, 65, 65, 103, 68, 47, 10] with
  | .ok k => k == .rsa 65537 255 | _ => false) = true := by decide +kernel
example : (match blob (.dsa 23 11 4 8) with | .ok b => (match fromStringGuess b with | .ok k => k == .dsa 23 11 4 8 | _ => false) | _ => false) = true := by
  decide +kernel
example : (match NS [1, 2] with | .ok b => b == [0, 0, 0, 2, 1, 2] | _ => false) = true := by decide +kernel
example : (match blob (.rsa 65537 255) with | .ok b => b.length == 24 | _ => false) = true := by decide +kernel
-- "Public_OpenSSH" / "BLOB" / "blob" name the readers; a blob read back under a mixed-case name with an empty passphrase;
-- a non-empty passphrase is refused "Public_OpenSSH" / "BLOB" / "blob" name the readers; a written line read back under a mixed-case name
example : upper [80, 117, 98, 108, 105, 99, 95, 79, 112, 101, 110, 83, 83, 72] = nPublicOpenssh := by decide
example : readerNamed [66, 76, 79, 66] = some .blob ∧ readerNamed [98, 108, 111, 98] = some .blob ∧ readerNamed [98, 108, 111] = none := by decide
example : (match blob (.dsa 23 11 4 8) with
    | .ok b => (match fromString b (some [66, 108, 111, 98]) (some []) with | .ok k => k == .dsa 23 11 4 8 | _ => false)
    | _ => false) = true := by decide +kernel
example : (match blob (.dsa 23 11 4 8) with
    | .ok b => (match fromString b (some [66, 108, 111, 98]) (some [120]) with | .error .badKey => true | _ => false)
    | _ => false) = true := by decide +kernel

end TwistedProps.C37
