import TwistedModel.Ssh.KeyBlob
import TwistedProps.C37.Gen
/-!
C37 — SSH wire primitives and public-key blobs round-trip.

* `getNS_NS`, `getNS_list`: length-prefixed strings decode to exactly what was encoded, for any
  bytes, with any trailing data, any number of strings.
* `getMP_MP`, `getMP_list`: multiple-precision integers likewise, for every `n ≥ 0` (negative
  numbers are refused by `MP`), including the `0x80` padding rule.
* `fromBlob_blob`: the four public-key blob layouts parse back to the same components.
* `gen_*`: `NS`, `getNS`, `MP`, `getMP` are regenerated from conch/ssh/common.py on every run (`Generated.SshWire`,
  harness/py2lean.py) and proved equal to the model's (`TwistedProps/C37/Gen.lean`); `gen_getNS_NS`, `gen_getMP_MP`
  state the wire round trips over the regenerated definitions themselves.

Private-key serialisation formats (OpenSSH v1 / PEM, LSH, agent v3; passphrases) are produced
by `cryptography` and are *not* modelled: that half of the property is checked by the
differential oracle in `harness/corr/C37.py` only (partial — see MANIFEST note).
-/
namespace TwistedProps.C37
open Twisted.Py Twisted.Ssh.Wire Twisted.Ssh.KeyBlob

/-! ### big-endian integers -/

theorem beToNat_snoc (bs : Bytes) (b : UInt8) : beToNat (bs ++ [b]) = beToNat bs * 256 + b.toNat := by
  simp [beToNat, List.foldl_append]

theorem beToNat_zero_cons (bs : Bytes) : beToNat (0 :: bs) = beToNat bs := by
  simp [beToNat]

/-- `int.from_bytes(int_to_bytes(n), "big") = n` -/
theorem beToNat_natToBE (n : Nat) : beToNat (natToBE n) = n := by
  induction n using Nat.strongRecOn with
  | _ n ih =>
    rw [natToBE]
    by_cases h : n = 0
    · simp [h, beToNat]
    · simp only [h, dite_false]
      rw [beToNat_snoc, ih (n / 256) (by omega), UInt8.toNat_ofNat']
      omega

theorem u32be_length (n : Nat) : (u32be n).length = 4 := rfl

/-- `struct.unpack(">L", struct.pack(">L", n)) = n` for `n < 2^32` -/
theorem beToNat_u32be (n : Nat) (h : n < 4294967296) : beToNat (u32be n) = n := by
  simp only [beToNat, u32be, List.foldl_cons, List.foldl_nil, UInt8.toNat_ofNat']
  omega

/-! ### NS / getNS -/

theorem getNS1_NS (s r enc : Bytes) (h : NS s = .ok enc) : getNS1 (enc ++ r) = .ok (s, r) := by
  unfold NS at h
  split at h
  · rename_i hlen
    cases h
    unfold getNS1
    have h4 : ¬ (u32be s.length ++ s ++ r).length < 4 := by simp [u32be_length]
    simp only [h4, if_false]
    have ht : (u32be s.length ++ s ++ r).take 4 = u32be s.length := by
      rw [List.append_assoc, List.take_append_of_le_length (by simp [u32be_length])]
      simp [u32be]
    have hd : (u32be s.length ++ s ++ r).drop 4 = s ++ r := by
      rw [List.append_assoc, List.drop_append_of_le_length (by simp [u32be_length])]
      simp [u32be]
    rw [ht, hd, beToNat_u32be _ hlen]
    simp
  · cases h

/-- encoding of a list of strings, as `b"".join(NS(x) for x in xs)` -/
def NSs : List Bytes → Except Err Bytes
  | [] => .ok []
  | x :: xs => do
      let a ← NS x
      let b ← NSs xs
      pure (a ++ b)

/-- **getNS ∘ NS**: any number of strings followed by any rest decode to exactly those
    strings and that rest. -/
theorem getNS_list (xs : List Bytes) (r enc : Bytes) (h : NSs xs = .ok enc) :
    getNS xs.length (enc ++ r) = .ok (xs, r) := by
  induction xs generalizing enc with
  | nil => cases h; simp [getNS]
  | cons x xs ih =>
    simp only [NSs] at h
    cases hx : NS x with
    | error e => simp [hx, bind, Except.bind] at h
    | ok a =>
      cases hxs : NSs xs with
      | error e => simp [hx, hxs, bind, Except.bind] at h
      | ok b =>
        simp only [hx, hxs, bind, Except.bind, pure, Except.pure] at h
        cases h
        simp only [getNS, List.length_cons, List.append_assoc]
        rw [getNS1_NS x (b ++ r) a hx]
        simp only [bind, Except.bind]
        rw [ih b hxs]
        rfl

theorem getNS_NS (s r enc : Bytes) (h : NS s = .ok enc) : getNS 1 (enc ++ r) = .ok ([s], r) := by
  have := getNS_list [s] r enc (by simp [NSs, h, bind, Except.bind, pure, Except.pure])
  simpa using this

/-- `NS` refuses nothing below 2^32 bytes. -/
theorem NS_ok (s : Bytes) (h : s.length < 4294967296) : ∃ enc, NS s = .ok enc := by
  simp [NS, h]

/-! ### MP / getMP -/

theorem MP_negative (n : Int) (h : n < 0) : MP n = .error .assertion := by
  have : n ≠ 0 := by omega
  simp [MP, this, h]

theorem getMP1_MP (n : Nat) (r enc : Bytes) (h : MP (n : Int) = .ok enc) :
    getMP1 (enc ++ r) = .ok (n, r) := by
  unfold MP at h
  by_cases h0 : (n : Int) = 0
  · simp only [h0, if_true] at h
    cases h
    have : n = 0 := by omega
    subst this
    simp [getMP1, beToNat]
  · have hneg : ¬ (n : Int) < 0 := by omega
    simp only [h0, hneg, if_false, Int.toNat_natCast] at h
    generalize hbn : (if ((natToBE n).headD 0).toNat &&& 128 ≠ 0 then 0 :: natToBE n else natToBE n) = bn at h
    have hval : beToNat bn = n := by
      rw [← hbn]; split
      · rw [beToNat_zero_cons, beToNat_natToBE]
      · exact beToNat_natToBE n
    split at h
    · rename_i hlen
      cases h
      unfold getMP1
      have h4 : ¬ (u32be bn.length ++ bn ++ r).length < 4 := by simp [u32be_length]
      simp only [h4, if_false]
      have ht : (u32be bn.length ++ bn ++ r).take 4 = u32be bn.length := by
        rw [List.append_assoc, List.take_append_of_le_length (by simp [u32be_length])]
        simp [u32be]
      have hd : (u32be bn.length ++ bn ++ r).drop 4 = bn ++ r := by
        rw [List.append_assoc, List.drop_append_of_le_length (by simp [u32be_length])]
        simp [u32be]
      rw [ht, hd, beToNat_u32be _ hlen]
      simp [hval]
    · cases h

def MPs : List Nat → Except Err Bytes
  | [] => .ok []
  | x :: xs => do
      let a ← MP (x : Int)
      let b ← MPs xs
      pure (a ++ b)

/-- **getMP ∘ MP** for any number of non-negative integers and any trailing bytes. -/
theorem getMP_list (xs : List Nat) (r enc : Bytes) (h : MPs xs = .ok enc) :
    getMP xs.length (enc ++ r) = .ok (xs, r) := by
  induction xs generalizing enc with
  | nil => cases h; simp [getMP]
  | cons x xs ih =>
    simp only [MPs] at h
    cases hx : MP (x : Int) with
    | error e => simp [hx, bind, Except.bind] at h
    | ok a =>
      cases hxs : MPs xs with
      | error e => simp [hx, hxs, bind, Except.bind] at h
      | ok b =>
        simp only [hx, hxs, bind, Except.bind, pure, Except.pure] at h
        cases h
        simp only [getMP, List.length_cons, List.append_assoc]
        rw [getMP1_MP x (b ++ r) a hx]
        simp only [bind, Except.bind]
        rw [ih b hxs]
        rfl

theorem getMP_MP (n : Nat) (r enc : Bytes) (h : MP (n : Int) = .ok enc) :
    getMP 1 (enc ++ r) = .ok ([n], r) := by
  have := getMP_list [n] r enc (by simp [MPs, h, bind, Except.bind, pure, Except.pure])
  simpa using this

/-- The encoding is canonical for SSH: a positive number never starts with a set top bit
    (it would read as negative under RFC 4251) … -/
theorem MP_top_bit_clear (n : Nat) (enc : Bytes) (h : MP (n : Int) = .ok enc) (hn : 0 < n) :
    ((enc.drop 4).headD 0).toNat &&& 128 = 0 := by
  unfold MP at h
  have h0 : ¬ (n : Int) = 0 := by omega
  have hneg : ¬ (n : Int) < 0 := by omega
  simp only [h0, hneg, if_false, Int.toNat_natCast] at h
  generalize hbn : (if ((natToBE n).headD 0).toNat &&& 128 ≠ 0 then 0 :: natToBE n else natToBE n) = bn at h
  have htop : (bn.headD 0).toNat &&& 128 = 0 := by
    rw [← hbn]; split
    · simp
    · rename_i hb; simpa using hb
  by_cases hlen : bn.length < 4294967296
  · simp only [hlen, if_true] at h
    cases h
    rw [List.drop_append_of_le_length (by simp [u32be_length])]
    simpa [u32be] using htop
  · simp [hlen] at h

/-! ### the translator-regenerated `NS` / `getNS` / `MP` / `getMP` (see `TwistedProps/C37/Gen.lean`) -/

/-- `NS` as regenerated from common.py = the model's (the model's `Err` read as the Python exception class) -/
theorem gen_NS (t : Bytes) : Generated.SshWire.NS t = (NS t).mapError errToPy := gen_NS_eq t

/-- `getNS` as regenerated from common.py (absolute cursor, slices of the whole buffer, fold over `range(count)`)
    = the model's recursion on the unread rest, for every buffer and count -/
theorem gen_getNS (s : Bytes) (count : Nat) :
    Generated.SshWire.getNS s count = (getNS count s).mapError errToPy := gen_getNS_eq s count

/-- `MP` as regenerated from common.py = the model's, for every integer -/
theorem gen_MP (number : Int) : Generated.SshWire.MP number = (MP number).mapError errToPy := gen_MP_eq number

/-- `getMP` as regenerated from common.py = the model's, for every buffer and count -/
theorem gen_getMP (s : Bytes) (count : Nat) :
    Generated.SshWire.getMP s count = (getMP count s).mapError errToPy := gen_getMP_eq s count

theorem ok_of_mapError_ok {α : Type} (x : Except Err α) (v : α)
    (h : x.mapError errToPy = .ok v) : x = .ok v := by
  cases x with
  | error e => cases h
  | ok a => cases h; rfl

/-- **getNS ∘ NS over the regenerated code**: what the translated `NS` encodes, the translated `getNS` decodes to
    exactly that string and that rest -/
theorem gen_getNS_NS (s r enc : Bytes) (h : Generated.SshWire.NS s = .ok enc) :
    Generated.SshWire.getNS (enc ++ r) 1 = .ok ([s], r) := by
  rw [gen_NS_eq] at h
  rw [gen_getNS_eq, getNS_NS s r enc (ok_of_mapError_ok _ _ h)]; rfl

/-- **getMP ∘ MP over the regenerated code**, for every `n ≥ 0` -/
theorem gen_getMP_MP (n : Nat) (r enc : Bytes) (h : Generated.SshWire.MP (n : Int) = .ok enc) :
    Generated.SshWire.getMP (enc ++ r) 1 = .ok ([n], r) := by
  rw [gen_MP_eq] at h
  rw [gen_getMP_eq, getMP_MP n r enc (ok_of_mapError_ok _ _ h)]; rfl

/-- the regenerated `MP` refuses negative numbers with the `assert` -/
theorem gen_MP_negative (n : Int) (h : n < 0) : Generated.SshWire.MP n = .error .assertionError := by
  rw [gen_MP_eq, MP_negative n h]; rfl

example : (match Generated.SshWire.MP 128 with | .ok b => b == [0, 0, 0, 2, 0, 128] | _ => false) = true := by
  decide +kernel
example : (match Generated.SshWire.getNS [0, 0, 0, 2, 1, 2, 7] 1 with | .ok r => r == ([[1, 2]], [7]) | _ => false) = true := by
  decide +kernel

/-! ### public-key blobs -/

theorem fromBlob_blob_rsa (e n : Nat) (enc : Bytes) (h : blob (.rsa e n) = .ok enc) :
    fromBlob enc = .ok (.rsa e n) := by
  simp only [blob] at h
  cases ha : NS sshRsa with
  | error x => simp [ha, bind, Except.bind] at h
  | ok a =>
    cases hb : MP (e : Int) with
    | error x => simp [ha, hb, bind, Except.bind] at h
    | ok b =>
      cases hc : MP (n : Int) with
      | error x => simp [ha, hb, hc, bind, Except.bind] at h
      | ok c =>
        simp only [ha, hb, hc, bind, Except.bind, pure, Except.pure] at h
        cases h
        have h1 := getNS1_NS sshRsa (b ++ c) a ha
        have h2 := getMP_list [e, n] [] (b ++ c)
          (by simp [MPs, hb, hc, bind, Except.bind, pure, Except.pure])
        simp only [List.append_nil, List.length_cons, List.length_nil] at h2
        unfold fromBlob
        rw [List.append_assoc, h1]
        simp [liftW, bind, Except.bind, h2, pure, Except.pure]

theorem fromBlob_blob_dsa (p q g y : Nat) (enc : Bytes) (h : blob (.dsa p q g y) = .ok enc) :
    fromBlob enc = .ok (.dsa p q g y) := by
  simp only [blob] at h
  cases ha : NS sshDss with
  | error x => simp [ha, bind, Except.bind] at h
  | ok a =>
    cases hb : MP (p : Int) with
    | error x => simp [ha, hb, bind, Except.bind] at h
    | ok b =>
      cases hc : MP (q : Int) with
      | error x => simp [ha, hb, hc, bind, Except.bind] at h
      | ok c =>
        cases hd : MP (g : Int) with
        | error x => simp [ha, hb, hc, hd, bind, Except.bind] at h
        | ok d =>
          cases he : MP (y : Int) with
          | error x => simp [ha, hb, hc, hd, he, bind, Except.bind] at h
          | ok e =>
            simp only [ha, hb, hc, hd, he, bind, Except.bind, pure, Except.pure] at h
            cases h
            have h1 := getNS1_NS sshDss (b ++ c ++ d ++ e) a ha
            have h2 := getMP_list [p, q, g, y] [] (b ++ (c ++ (d ++ e)))
              (by simp [MPs, hb, hc, hd, he, bind, Except.bind, pure, Except.pure])
            simp only [List.append_nil, List.length_cons, List.length_nil] at h2
            unfold fromBlob
            simp only [List.append_assoc] at h1 ⊢
            rw [h1]
            have hne : sshDss ≠ sshRsa := by decide
            simp [liftW, bind, Except.bind, h2, pure, Except.pure, hne]

theorem fromBlob_blob_ed25519 (k : Bytes) (enc : Bytes) (h : blob (.ed25519 k) = .ok enc) :
    fromBlob enc = .ok (.ed25519 k) := by
  simp only [blob] at h
  cases ha : NS sshEd with
  | error x => simp [ha, bind, Except.bind] at h
  | ok a =>
    cases hb : NS k with
    | error x => simp [ha, hb, bind, Except.bind] at h
    | ok b =>
      simp only [ha, hb, bind, Except.bind, pure, Except.pure] at h
      cases h
      have h1 := getNS1_NS sshEd b a ha
      have h2 := getNS1_NS k [] b hb
      simp only [List.append_nil] at h2
      unfold fromBlob
      rw [h1]
      have hne1 : sshEd ≠ sshRsa := by decide
      have hne2 : sshEd ≠ sshDss := by decide
      have hne3 : sshEd ∉ curves := by decide
      simp [liftW, bind, Except.bind, h2, pure, Except.pure, hne1, hne2, hne3]

theorem fromBlob_blob_ec (curve point : Bytes) (hc : curve ∈ curves) (enc : Bytes)
    (h : blob (.ec curve point) = .ok enc) : fromBlob enc = .ok (.ec curve point) := by
  simp only [blob] at h
  cases ha : NS curve with
  | error x => simp [ha, bind, Except.bind] at h
  | ok a =>
    cases hb : NS (curve.drop (curve.length - 8)) with
    | error x => simp [ha, hb, bind, Except.bind] at h
    | ok b =>
      cases hcc : NS point with
      | error x => simp [ha, hb, hcc, bind, Except.bind] at h
      | ok c =>
        simp only [ha, hb, hcc, bind, Except.bind, pure, Except.pure] at h
        cases h
        have h1 := getNS1_NS curve (b ++ c) a ha
        have h2 := getNS_list [curve.drop (curve.length - 8), point] [] (b ++ c)
          (by simp [NSs, hb, hcc, bind, Except.bind, pure, Except.pure])
        simp only [List.append_nil, List.length_cons, List.length_nil] at h2
        unfold fromBlob
        rw [List.append_assoc, h1]
        have hne1 : curve ≠ sshRsa := by
          intro e; subst e; revert hc; decide
        have hne2 : curve ≠ sshDss := by
          intro e; subst e; revert hc; decide
        simp [liftW, bind, Except.bind, h2, pure, Except.pure, hne1, hne2, hc]

/-- **Public blobs round-trip** for every key type (EC restricted to the three NIST curves
    Twisted supports, as `_curveTable` is). -/
theorem fromBlob_blob (k : PubKey) (enc : Bytes) (hk : ∀ c p, k = .ec c p → c ∈ curves)
    (h : blob k = .ok enc) : fromBlob enc = .ok k := by
  cases k with
  | rsa e n => exact fromBlob_blob_rsa e n enc h
  | dsa p q g y => exact fromBlob_blob_dsa p q g y enc h
  | ec c p => exact fromBlob_blob_ec c p (hk c p rfl) enc h
  | ed25519 a => exact fromBlob_blob_ed25519 a enc h

/-! ### Non-vacuity -/
example : (match MP 128 with | .ok b => b == [0, 0, 0, 2, 0, 128] | _ => false) = true := by decide +kernel
example : (match getMP 1 [0, 0, 0, 2, 0, 128, 7] with | .ok r => r == ([128], [7]) | _ => false) = true := by decide +kernel
example : (match NS [1, 2] with | .ok b => b == [0, 0, 0, 2, 1, 2] | _ => false) = true := by decide +kernel
example : (match blob (.rsa 65537 255) with | .ok b => b.length == 24 | _ => false) = true := by decide +kernel

end TwistedProps.C37
