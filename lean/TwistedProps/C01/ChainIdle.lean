import TwistedProps.C01.ChainInv
/-!
C01, chaining programs: one iteration of the chain walk preserves

* `Good up c ∧ Idle c`                         (`stepConf_goodIdle`, `loop_goodIdle`, `loop_goodIdle_append`), hence
  `Good2 up` along a whole walk                (`loop_good2`: the chain stack is empty at the end);
* `Good3 up c := Good2 up c ∧ c.chain.Nodup`   (`stepConf_good3`, `loop_good3_append`, `loop_good3`).

`Good2 up` ALONE is not preserved by one iteration (`TailUnpaused` breaks when the Deferred on top of the chain stack
occurs a second time further down and is paused by the iteration): see `stepConf_good2_false` and
`loop_good2_append_false` (a checked counterexample, chain stack `[0, 1, 0]`).
-/
namespace TwistedProps.C01
open Twisted.Defer.Core

local notation "cmodify" => Twisted.Defer.Core.modify

/-! ### heap-level forms -/

def IdleH (cells : List Cell) (chain : List Nat) : Prop :=
  ∀ (k : Nat) (ck : Cell), cells[k]? = some ck → k ∉ chain → ck.called = true → ck.paused = 0 →
    ck.result.isDref = false → ck.callbacks = []

def TailU (cells : List Cell) (l : List Nat) : Prop :=
  ∀ x ∈ l, ∀ cx : Cell, cells[x]? = some cx → cx.paused = 0

/-- `cells'` is `cells` with cell `a` mapped by `fa` and cell `b` by `fb` -/
def Upd (cells cells' : List Cell) (a b : Nat) (fa fb : Cell → Cell) : Prop :=
  ∀ k, cells'[k]? = (cells[k]?).map (fun ck => if k = a then fa ck else if k = b then fb ck else ck)

theorem Upd.get {cells cells' : List Cell} {a b : Nat} {fa fb : Cell → Cell} (h : Upd cells cells' a b fa fb)
    {k : Nat} {ck' : Cell} (hk : cells'[k]? = some ck') :
    ∃ ck, cells[k]? = some ck ∧ ck' = (if k = a then fa ck else if k = b then fb ck else ck) := by
  rw [h k] at hk
  cases hc : cells[k]? with
  | none => rw [hc] at hk; simp at hk
  | some ck =>
    rw [hc] at hk
    exact ⟨ck, rfl, (Option.some.inj hk).symm⟩

theorem upd_set {cells : List Cell} {cur : Nat} {cell : Cell} (hcell : cells[cur]? = some cell) (c0 : Cell) :
    Upd cells (cells.set cur c0) cur cur (fun _ => c0) (fun ck => ck) := by
  intro k
  rw [getElem?_set' _ _ _ _ _ hcell]
  by_cases h1 : k = cur
  · subst h1; simp [hcell]
  · simp [h1]

theorem upd_set_mod {cells : List Cell} {cur : Nat} {cell : Cell} (hcell : cells[cur]? = some cell) (c0 : Cell)
    (g : Cell → Cell) : Upd cells (cmodify (cells.set cur c0) cur g) cur cur (fun _ => g c0) (fun ck => ck) := by
  intro k
  rw [getElem?_modify, getElem?_set' _ _ _ _ _ hcell]
  by_cases h1 : k = cur
  · subst h1; simp [hcell]
  · simp [h1]

theorem upd_set_mod_mod {cells : List Cell} {cur b : Nat} {cell : Cell} (hcell : cells[cur]? = some cell)
    (hne : b ≠ cur) (c0 : Cell) (f g : Cell → Cell) :
    Upd cells (cmodify (cmodify (cells.set cur c0) b f) cur g) cur b (fun _ => g c0) f := by
  intro k
  rw [getElem?_modify, getElem?_modify, getElem?_set' _ _ _ _ _ hcell]
  by_cases h1 : k = cur
  · subst h1; simp [hcell, Ne.symm hne]
  · by_cases h2 : k = b
    · subst h2; simp [h1]
    · simp [h1, h2]

theorem upd_set_mod_mod' {cells : List Cell} {cur b : Nat} {cell : Cell} (hcell : cells[cur]? = some cell)
    (hne : b ≠ cur) (c0 : Cell) (f g : Cell → Cell) :
    Upd cells (cmodify (cmodify (cells.set cur c0) cur g) b f) cur b (fun _ => g c0) f := by
  intro k
  rw [getElem?_modify, getElem?_modify, getElem?_set' _ _ _ _ _ hcell]
  by_cases h1 : k = cur
  · subst h1; simp [hcell, Ne.symm hne]
  · by_cases h2 : k = b
    · subst h2; simp [h1]
    · simp [h1, h2]

theorem upd_steal {cells : List Cell} {cur j : Nat} {cell cj : Cell} (hcell : cells[cur]? = some cell)
    (hne : j ≠ cur) (hcj : cells[j]? = some cj) (c0 cj' : Cell) (g : Cell → Cell) :
    Upd cells (cmodify ((cells.set cur c0).set j cj') cur g) cur j (fun _ => g c0) (fun _ => cj') := by
  have hj1 : (cells.set cur c0)[j]? = some cj := by
    rw [getElem?_set' _ _ _ _ _ hcell, if_neg hne]; exact hcj
  intro k
  rw [getElem?_modify, getElem?_set' _ _ _ _ _ hj1, getElem?_set' _ _ _ _ _ hcell]
  by_cases h1 : k = cur
  · subst h1; simp [hcell, Ne.symm hne]
  · by_cases h2 : k = j
    · subst h2; simp [h1, hcj]
    · simp [h1, h2]

/-! ### transfer of `IdleH` / `TailU` along a change of at most two cells -/

theorem idle_transfer {cells cells' : List Cell} {chain chain' : List Nat} {a b : Nat} {fa fb : Cell → Cell}
    (hI : IdleH cells chain) (hU : Upd cells cells' a b fa fb)
    (hsub : ∀ k, k ∉ chain' → k ≠ a → k ≠ b → k ∉ chain)
    (hA : a ∉ chain' → ∀ ca, cells[a]? = some ca → (fa ca).called = true → (fa ca).paused = 0 →
      (fa ca).result.isDref = false → (fa ca).callbacks = [])
    (hB : b ≠ a → b ∉ chain' → ∀ cb, cells[b]? = some cb → (fb cb).called = true → (fb cb).paused = 0 →
      (fb cb).result.isDref = false → (fb cb).callbacks = []) : IdleH cells' chain' := by
  intro k ck' hk hnk hcl hp hd
  obtain ⟨ck, hck, he⟩ := hU.get hk
  by_cases h1 : k = a
  · rw [if_pos h1] at he
    subst he
    subst h1
    exact hA hnk ck hck hcl hp hd
  · rw [if_neg h1] at he
    by_cases h2 : k = b
    · rw [if_pos h2] at he
      subst he
      subst h2
      exact hB h1 hnk ck hck hcl hp hd
    · rw [if_neg h2] at he
      subst he
      exact hI k ck' hck (hsub k hnk h1 h2) hcl hp hd

theorem tailU_transfer {cells cells' : List Cell} {l l' : List Nat} {a b : Nat} {fa fb : Cell → Cell}
    (hT : TailU cells l) (hU : Upd cells cells' a b fa fb)
    (hA : a ∈ l' → ∀ ca, cells[a]? = some ca → (fa ca).paused = 0)
    (hB : b ≠ a → b ∈ l' → ∀ cb, cells[b]? = some cb → (fb cb).paused = 0)
    (hsub : ∀ x, x ∈ l' → x ≠ a → x ≠ b → x ∈ l) : TailU cells' l' := by
  intro x hx cx' hk
  obtain ⟨cx, hcx, he⟩ := hU.get hk
  by_cases h1 : x = a
  · rw [if_pos h1] at he
    subst he
    subst h1
    exact hA hx cx hcx
  · rw [if_neg h1] at he
    by_cases h2 : x = b
    · rw [if_pos h2] at he
      subst he
      subst h2
      exact hB h1 hx cx hcx
    · rw [if_neg h2] at he
      subst he
      exact hT x (hsub x hx h1 h2) cx' hcx

theorem tailU_mono {cells : List Cell} {l l' : List Nat} (hT : TailU cells l) (h : ∀ x, x ∈ l' → x ∈ l) :
    TailU cells l' := fun x hx cx hcx => hT x (h x hx) cx hcx

theorem not_mustWait_cbs {cj : Cell} (h : ¬ mustWait cj = true) : cj.callbacks = [] := by
  unfold mustWait at h
  simp at h
  exact h.2

/-- what one iteration that starts from chain `cur :: below` on heap `cells` must establish -/
def StepOK (cells : List Cell) (cur : Nat) (below : List Nat) (c' : Conf) : Prop :=
  IdleH c'.cells c'.chain ∧
  (TailU cells below → (cur :: below).Nodup → TailU c'.cells c'.chain.tail ∧ c'.chain.Nodup)

/-! ### the elementary heap changes of one iteration -/

/-- the chainee of a pending continuation of the running Deferred is paused: it is neither the running Deferred nor
    one of the unpaused Deferreds below it -/
theorem chainee_facts {up : Nat → Int} {cells : List Cell} {cur chainee : Nat} {cell : Cell} {rest : List Item}
    (hg : GoodHeap up cells) (hcell : cells[cur]? = some cell) (hp : cell.paused = 0) (hcl : cell.called = true)
    (hcbs : cell.callbacks = Item.cont chainee :: rest) :
    chainee ≠ cur ∧ ∀ l, TailU cells l → chainee ∉ l := by
  obtain ⟨hup, hhc, hnd, hnu⟩ := active_facts hg hcell hp hcl
  have hmem : Item.cont chainee ∈ cell.callbacks := by rw [hcbs]; exact List.mem_cons_self
  have h1 := contCount_pos_of_mem hmem
  have h2 := contCount_le_heapCount (k := chainee) hcell
  refine ⟨?_, ?_⟩
  · intro he
    rw [he] at h1 h2
    omega
  · intro l hT hin
    obtain ⟨cc, hcc, _⟩ := hg.contCalled cur cell chainee hcell hmem
    have h3 := hT chainee hin cc hcc
    have h4 := hg.pausedGe chainee cc hcc
    have h5 := hg.upNonneg chainee
    omega

theorem step_cont {up : Nat → Int} {cells : List Cell} {cur chainee : Nat} {below : List Nat} {cell : Cell}
    {rest : List Item} (tr : List Entry)
    (hg : GoodHeap up cells) (hI : IdleH cells (cur :: below)) (hcell : cells[cur]? = some cell)
    (hp : cell.paused = 0) (hcl : cell.called = true) (hcbs : cell.callbacks = Item.cont chainee :: rest) :
    StepOK cells cur below
      { cells := cmodify (cmodify (cells.set cur { cell with callbacks := rest }) chainee (handOver cell.result))
          cur (setResult .pyNone),
        trace := tr, chain := chainee :: cur :: below } := by
  obtain ⟨hne, hnb⟩ := chainee_facts hg hcell hp hcl hcbs
  have hU := upd_set_mod_mod hcell hne { cell with callbacks := rest } (handOver cell.result) (setResult .pyNone)
  refine ⟨idle_transfer hI hU ?_ ?_ ?_, fun hT hN => ⟨tailU_transfer hT hU ?_ ?_ ?_, ?_⟩⟩
  · intro k hk _ _ hin
    exact hk (List.mem_cons_of_mem _ hin)
  · intro h; exact absurd (List.mem_cons_of_mem _ List.mem_cons_self) h
  · intro _ h; exact absurd List.mem_cons_self h
  · intro _ _ _; exact hp
  · intro _ hin
    rcases List.mem_cons.1 hin with h | h
    · exact absurd h hne
    · exact absurd h (hnb below hT)
  · intro x hx h1 _
    rcases List.mem_cons.1 hx with h | h
    · exact absurd h h1
    · exact h
  · refine List.nodup_cons.2 ⟨?_, hN⟩
    intro hin
    rcases List.mem_cons.1 hin with h | h
    · exact hne h
    · exact hnb below hT h

theorem step_plain {cells : List Cell} {cur : Nat} {below : List Nat} {cell : Cell} (c0 : Cell) (tr : List Entry)
    (hI : IdleH cells (cur :: below)) (hcell : cells[cur]? = some cell) (hc0 : c0.paused = 0) :
    StepOK cells cur below { cells := cells.set cur c0, trace := tr, chain := cur :: below } := by
  have hU := upd_set hcell c0
  refine ⟨idle_transfer hI hU ?_ ?_ ?_, fun hT hN => ⟨tailU_transfer hT hU ?_ ?_ ?_, hN⟩⟩
  · intro k hk _ _; exact hk
  · intro h; exact absurd List.mem_cons_self h
  · intro h; exact absurd rfl h
  · intro _ _ _; exact hc0
  · intro h; exact absurd rfl h
  · intro x hx _ _; exact hx

theorem step_none {cells : List Cell} {cur : Nat} {below : List Nat} {cell : Cell} (c0 : Cell) (tr : List Entry)
    (hI : IdleH cells (cur :: below)) (hcell : cells[cur]? = some cell) (hc0 : c0.paused = 0) :
    StepOK cells cur below { cells := cmodify (cells.set cur c0) cur pauseCell, trace := tr, chain := below } := by
  have hU := upd_set_mod hcell c0 pauseCell
  refine ⟨idle_transfer hI hU ?_ ?_ ?_, fun hT hN => ⟨tailU_transfer hT hU ?_ ?_ ?_, (List.nodup_cons.1 hN).2⟩⟩
  · intro k hk h1 _ hin
    rcases List.mem_cons.1 hin with h | h
    · exact h1 h
    · exact hk h
  · intro _ _ _ _ hp' _
    have h : c0.paused + 1 = 0 := hp'
    omega
  · intro h; exact absurd rfl h
  · intro hin; exact absurd (List.mem_of_mem_tail hin) (List.nodup_cons.1 hN).1
  · intro h; exact absurd rfl h
  · intro x hx _ _; exact List.mem_of_mem_tail hx

theorem step_wait {up : Nat → Int} {cells : List Cell} {cur j : Nat} {below : List Nat} {cell cj : Cell} (c0 : Cell)
    (tr : List Entry) (hg : GoodHeap up cells)
    (hI : IdleH cells (cur :: below)) (hcell : cells[cur]? = some cell) (hc0 : c0.paused = 0)
    (hjc : j ≠ cur) (hcj : cells[j]? = some cj) (hmw : mustWait cj = true) :
    StepOK cells cur below
      { cells := cmodify (cmodify (cells.set cur c0) cur pauseCell) j (appendCont cur), trace := tr, chain := below } := by
  have hU := upd_set_mod_mod' hcell hjc c0 (appendCont cur) pauseCell
  refine ⟨idle_transfer hI hU ?_ ?_ ?_, fun hT hN => ⟨tailU_transfer hT hU ?_ ?_ ?_, (List.nodup_cons.1 hN).2⟩⟩
  · intro k hk h1 _ hin
    rcases List.mem_cons.1 hin with h | h
    · exact h1 h
    · exact hk h
  · intro _ _ _ _ hp' _
    have h : c0.paused + 1 = 0 := hp'
    omega
  · intro _ hjn cb hcb hcl' hp' hd'
    have hcb' := lookup_eq hcb hcj
    subst hcb'
    have hcl'' : cj.called = true := hcl'
    have hp'' : cj.paused = 0 := hp'
    have hd'' : cj.result.isDref = false := hd'
    have hjn' : j ∉ cur :: below := by
      intro hin
      rcases List.mem_cons.1 hin with h | h
      · exact hjc h
      · exact hjn h
    have hcbs0 := hI j cj hcj hjn' hcl'' hp'' hd''
    have hr := (hg.calledIff j cj hcj).1 hcl''
    exfalso
    unfold mustWait at hmw
    simp [hr, hd'', hp'', hcbs0] at hmw
  · intro hin; exact absurd (List.mem_of_mem_tail hin) (List.nodup_cons.1 hN).1
  · intro _ hin cb hcb
    exact hT j (List.mem_of_mem_tail hin) cb hcb
  · intro x hx _ _; exact List.mem_of_mem_tail hx

theorem step_steal {cells : List Cell} {cur j : Nat} {below : List Nat} {cell cj : Cell} (c0 : Cell)
    (tr : List Entry)
    (hI : IdleH cells (cur :: below)) (hcell : cells[cur]? = some cell) (hc0 : c0.paused = 0)
    (hjc : j ≠ cur) (hcj : cells[j]? = some cj) (hmw : ¬ mustWait cj = true) :
    StepOK cells cur below
      { cells := cmodify ((cells.set cur c0).set j (setResult .pyNone cj)) cur (setResult cj.result), trace := tr,
        chain := cur :: below } := by
  have hU := upd_steal hcell hjc hcj c0 (setResult .pyNone cj) (setResult cj.result)
  obtain ⟨_, _, hjp⟩ := not_mustWait hmw
  have hjcb := not_mustWait_cbs hmw
  refine ⟨idle_transfer hI hU ?_ ?_ ?_, fun hT hN => ⟨tailU_transfer hT hU ?_ ?_ ?_, hN⟩⟩
  · intro k hk _ _; exact hk
  · intro h; exact absurd List.mem_cons_self h
  · intro _ _ _ _ _ _ _; exact hjcb
  · intro _ _ _; exact hc0
  · intro _ _ _ _; exact hjp
  · intro x hx _ _; exact hx

/-! ### one iteration -/

theorem afterCall_step {up : Nat → Int} {cells : List Cell} {cur : Nat} {cell : Cell} {rest : List Item}
    (out : Val) (tr : List Entry) (below : List Nat)
    (hg : GoodHeap up cells) (hI : IdleH cells (cur :: below)) (hcell : cells[cur]? = some cell)
    (hp : cell.paused = 0) (hnc : out ≠ .dref cur) :
    StepOK cells cur below
      (afterCall (cells.set cur { cell with callbacks := rest, result := out }) tr cur below out) := by
  by_cases hd : out.isDref = false
  · rw [afterCall_nondref _ _ _ _ _ hd]
    exact step_plain _ tr hI hcell hp
  · cases out with
    | dref j =>
      have hjc : j ≠ cur := fun h => hnc (by rw [h])
      have hj1 : (cells.set cur { cell with callbacks := rest, result := .dref j })[j]? = cells[j]? := by
        rw [getElem?_set' _ _ _ _ _ hcell, if_neg hjc]
      unfold afterCall
      simp only [hj1]
      cases hcj : cells[j]? with
      | none =>
        simp only
        exact step_none _ tr hI hcell hp
      | some cj =>
        simp only
        by_cases hmw : mustWait cj = true
        · rw [if_pos hmw]
          exact step_wait _ tr hg hI hcell hp hjc hcj hmw
        · rw [if_neg hmw]
          exact step_steal _ tr hI hcell hp hjc hcj hmw
    | unset => simp [Val.isDref] at hd
    | pyNone => simp [Val.isDref] at hd
    | ok n => simp [Val.isDref] at hd
    | fail e => simp [Val.isDref] at hd

theorem runItem_step {up : Nat → Int} (c : Conf) (cur : Nat) (below : List Nat) (cell : Cell) (item : Item)
    (rest : List Item) (hg : GoodHeap up c.cells) (hch : ChainCalled c.cells (cur :: below))
    (hI : IdleH c.cells (cur :: below))
    (hcell : c.cells[cur]? = some cell) (hp : cell.paused = 0) (hcbs : cell.callbacks = item :: rest) :
    StepOK c.cells cur below (runItem c cur below cell item rest) := by
  have hcl : cell.called = true := hch cur List.mem_cons_self cell hcell
  obtain ⟨hup, hhc, hnd, hnu⟩ := active_facts hg hcell hp hcl
  cases item with
  | cont chainee =>
    simp only [runItem]
    exact step_cont c.trace hg hI hcell hp hcl hcbs
  | pair tag cb eb =>
    simp only [runItem]
    have hns := hg.noSelf cur cell hcell (.pair tag cb eb) (by rw [hcbs]; exact List.mem_cons_self)
    simp only [itemNoSelf] at hns
    have hres : cell.result ≠ .dref cur := by
      intro h; rw [h] at hnd; simp [Val.isDref] at hnd
    exact afterCall_step _ _ below hg hI hcell hp (slotOut_ne cur _ cb eb hns.1 hns.2 hres)

/-- one iteration: `Idle` is preserved, and so are `TailUnpaused` and duplicate-freeness of the chain stack together -/
theorem stepConf_step {up : Nat → Int} {c c' : Conf} (hg : Good up c) (hI : Idle c) (h : stepConf c = some c') :
    Idle c' ∧ (TailUnpaused c → c.chain.Nodup → TailUnpaused c' ∧ c'.chain.Nodup) := by
  unfold stepConf at h
  split at h
  · simp at h
  · rename_i cur below hchain
    have hch : ChainCalled c.cells (cur :: below) := hchain ▸ hg.2
    have hI' : IdleH c.cells (cur :: below) := by rw [← hchain]; exact hI
    have hconv : ∀ c'' : Conf, StepOK c.cells cur below c'' →
        Idle c'' ∧ (TailUnpaused c → c.chain.Nodup → TailUnpaused c'' ∧ c''.chain.Nodup) := by
      intro c'' hs
      refine ⟨hs.1, fun hT hN => ?_⟩
      have hT' : TailU c.cells (cur :: below).tail := by rw [← hchain]; exact hT
      have hN' : (cur :: below).Nodup := by rw [← hchain]; exact hN
      exact hs.2 hT' hN'
    -- a pop without any heap change
    have hpop : (∀ cell, c.cells[cur]? = some cell → cell.called = true → cell.paused = 0 →
        cell.result.isDref = false → cell.callbacks = []) → StepOK c.cells cur below { c with chain := below } := by
      intro hc
      refine ⟨?_, fun hT hN => ⟨tailU_mono hT (fun x hx => List.mem_of_mem_tail hx), (List.nodup_cons.1 hN).2⟩⟩
      intro k ck hk hnk hcl hp hd
      by_cases h1 : k = cur
      · subst h1; exact hc ck hk hcl hp hd
      · refine hI' k ck hk ?_ hcl hp hd
        intro hin
        rcases List.mem_cons.1 hin with h2 | h2
        · exact h1 h2
        · exact hnk h2
    split at h
    · rename_i hnone
      simp at h; subst h
      apply hconv; apply hpop
      intro cell hcell; rw [hnone] at hcell; cases hcell
    · rename_i cell hcell
      split at h
      · rename_i hp
        simp at h; subst h
        apply hconv; apply hpop
        intro cell' hcell' _ hp'
        have := lookup_eq hcell hcell'
        subst this
        exact absurd hp' hp
      · rename_i hp
        split at h
        · rename_i hcbs
          simp at h; subst h
          apply hconv; apply hpop
          intro cell' hcell' _ _ _
          have := lookup_eq hcell hcell'
          subst this
          exact hcbs
        · rename_i item rest hcbs
          simp at h; subst h
          apply hconv
          exact runItem_step c cur below cell item rest hg.1 hch hI' hcell (Decidable.not_not.mp hp) hcbs

/-! ### `Good ∧ Idle` -/

theorem stepConf_goodIdle {up : Nat → Int} {c c' : Conf} (hg : Good up c ∧ Idle c) (h : stepConf c = some c') :
    Good up c' ∧ Idle c' :=
  ⟨stepConf_good hg.1 h, (stepConf_step hg.1 hg.2 h).1⟩

theorem stepConf_none_chain {c : Conf} (h : stepConf c = none) : c.chain = [] := by
  unfold stepConf at h
  split at h
  · assumption
  · split at h
    · simp at h
    · split at h
      · simp at h
      · split at h <;> simp at h

theorem loop_of_none {c : Conf} (h : stepConf c = none) : loop c = c := by
  rw [loop]; split <;> simp_all

theorem loop_chain_eq_nil (c : Conf) : (loop c).chain = [] := by
  induction c using loop.induct with
  | case1 c h => rw [loop_of_none h]; exact stepConf_none_chain h
  | case2 c c' h ih => rw [loop_step h]; exact ih

theorem loop_goodIdle_append {up : Nat → Int} (c : Conf) (ext : List Nat)
    (hg : Good up { c with chain := c.chain ++ ext } ∧ Idle { c with chain := c.chain ++ ext }) :
    Good up { loop c with chain := ext } ∧ Idle { loop c with chain := ext } := by
  induction c using loop.induct with
  | case1 c h =>
    rw [loop_of_none h]
    rw [stepConf_none_chain h, List.nil_append] at hg
    exact hg
  | case2 c c' h ih =>
    rw [loop_step h]
    exact ih (stepConf_goodIdle hg (stepConf_chain_append h ext))

theorem loop_goodIdle {up : Nat → Int} (c : Conf) (hg : Good up c ∧ Idle c) : Good up (loop c) ∧ Idle (loop c) := by
  induction c using loop.induct with
  | case1 c h => rw [loop_of_none h]; exact hg
  | case2 c c' h ih =>
    rw [loop_step h]
    exact ih (stepConf_goodIdle hg h)

/-- a whole walk preserves `Good2` (the chain stack is empty at the end, so `TailUnpaused` is trivial there) -/
theorem loop_good2 {up : Nat → Int} (c : Conf) (hg : Good2 up c) : Good2 up (loop c) := by
  obtain ⟨h1, h2⟩ := loop_goodIdle c ⟨hg.1, hg.2.1⟩
  refine ⟨h1, h2, ?_⟩
  intro x hx
  rw [loop_chain_eq_nil] at hx
  simp at hx

/-! ### `Good3`: `Good2` on a duplicate-free chain stack -/

def Good3 (up : Nat → Int) (c : Conf) : Prop := Good2 up c ∧ c.chain.Nodup

theorem stepConf_good3 {up : Nat → Int} {c c' : Conf} (hg : Good3 up c) (h : stepConf c = some c') : Good3 up c' := by
  obtain ⟨⟨hgood, hI, hT⟩, hN⟩ := hg
  obtain ⟨hI', hrest⟩ := stepConf_step hgood hI h
  obtain ⟨hT', hN'⟩ := hrest hT hN
  exact ⟨⟨stepConf_good hgood h, hI', hT'⟩, hN'⟩

theorem loop_good3_append {up : Nat → Int} (c : Conf) (ext : List Nat)
    (hg : Good3 up { c with chain := c.chain ++ ext }) : Good3 up { loop c with chain := ext } := by
  induction c using loop.induct with
  | case1 c h =>
    rw [loop_of_none h]
    rw [stepConf_none_chain h, List.nil_append] at hg
    exact hg
  | case2 c c' h ih =>
    rw [loop_step h]
    exact ih (stepConf_good3 hg (stepConf_chain_append h ext))

theorem loop_good3 {up : Nat → Int} (c : Conf) (hg : Good3 up c) : Good3 up (loop c) := by
  induction c using loop.induct with
  | case1 c h => rw [loop_of_none h]; exact hg
  | case2 c c' h ih =>
    rw [loop_step h]
    exact ih (stepConf_good3 hg h)

/-! ### `Good2` alone is not an invariant of one iteration: a counterexample -/

def cexCell0 : Cell := { callbacks := [.pair 0 (.user (.retDef 2)) .passthru], result := .ok 0, called := true }
def cexCell1 : Cell := { result := .ok 0, called := true }
def cexCells : List Cell := [cexCell0, cexCell1, {}]
/-- the Deferred `0` on top of the chain stack occurs a second time at the bottom -/
def cexConf : Conf := { cells := cexCells, trace := [], chain := [0, 1, 0] }
def cexCells' : List Cell :=
  [{ cexCell0 with callbacks := [], result := .dref 2, paused := 1 }, cexCell1, { callbacks := [.cont 0] }]
def cexConf' : Conf := { cells := cexCells', trace := [⟨0, 0, .ok 0, .dref 2⟩], chain := [1, 0] }

theorem cexCells_get {k : Nat} {ck : Cell} (h : cexCells[k]? = some ck) :
    (k = 0 ∧ ck = cexCell0) ∨ (k = 1 ∧ ck = cexCell1) ∨ (k = 2 ∧ ck = {}) := by
  rcases k with _ | _ | _ | k <;> simp [cexCells] at h <;> simp [h]

theorem cex_good2 (ch : List Nat) (hch : ∀ x ∈ ch, x = 0 ∨ x = 1) (h0 : 0 ∈ ch) (h1 : 1 ∈ ch) :
    Good2 (fun _ => 0) { cells := cexCells, trace := [], chain := ch } := by
  refine ⟨⟨⟨fun _ => Int.le_refl 0, ?_, ?_, ?_, ?_, ?_⟩, ?_⟩, ?_, ?_⟩
  · intro k ck hk
    rcases cexCells_get hk with ⟨_, rfl⟩ | ⟨_, rfl⟩ | ⟨_, rfl⟩ <;> simp [cexCell0, cexCell1]
  · intro x cx c hx hmem
    rcases cexCells_get hx with ⟨_, rfl⟩ | ⟨_, rfl⟩ | ⟨_, rfl⟩ <;> simp [cexCell0, cexCell1] at hmem
  · intro k ck hk
    have hz : heapCount k cexCells = 0 := by simp [cexCells, cexCell0, cexCell1, heapCount, contCount]
    rw [hz]
    rcases cexCells_get hk with ⟨_, rfl⟩ | ⟨_, rfl⟩ | ⟨_, rfl⟩ <;> simp [cexCell0, cexCell1]
  · intro k ck hk hd
    rcases cexCells_get hk with ⟨_, rfl⟩ | ⟨_, rfl⟩ | ⟨_, rfl⟩ <;> simp [cexCell0, cexCell1, Val.isDref] at hd
  · intro x cx hx it hit
    rcases cexCells_get hx with ⟨rfl, rfl⟩ | ⟨_, rfl⟩ | ⟨_, rfl⟩ <;> simp [cexCell0, cexCell1] at hit
    subst hit
    simp [itemNoSelf]
  · intro x hx cx hcx
    rcases cexCells_get hcx with ⟨_, rfl⟩ | ⟨_, rfl⟩ | ⟨h2, rfl⟩
    · rfl
    · rfl
    · rcases hch x hx with h | h <;> omega
  · intro k ck hk hnk hcl
    rcases cexCells_get hk with ⟨rfl, rfl⟩ | ⟨rfl, rfl⟩ | ⟨_, rfl⟩
    · exact absurd h0 hnk
    · exact absurd h1 hnk
    · simp at hcl
  · intro x _ cx hcx
    rcases cexCells_get hcx with ⟨_, rfl⟩ | ⟨_, rfl⟩ | ⟨_, rfl⟩ <;> rfl

theorem cex_not_tailUnpaused (tr : List Entry) : ¬ TailUnpaused { cells := cexCells', trace := tr, chain := [1, 0] } := by
  intro h
  have := h 0 (by simp) _ rfl
  simp at this

/-- `stepConf_good2` (one iteration preserves `Good2`) is FALSE -/
theorem stepConf_good2_false :
    ¬ ∀ (up : Nat → Int) (c c' : Conf), Good2 up c → stepConf c = some c' → Good2 up c' := by
  intro h
  have hs : stepConf cexConf = some cexConf' := by decide
  exact cex_not_tailUnpaused _ (h _ _ _ (cex_good2 [0, 1, 0] (by simp) (by simp) (by simp)) hs).2.2

/-- `loop_good2_append` is FALSE -/
theorem loop_good2_append_false :
    ¬ ∀ (up : Nat → Int) (c : Conf) (ext : List Nat),
      Good2 up { c with chain := c.chain ++ ext } → Good2 up { loop c with chain := ext } := by
  intro h
  have hs : stepConf { cells := cexCells, trace := [], chain := [0] } =
      some { cells := cexCells', trace := [⟨0, 0, .ok 0, .dref 2⟩], chain := [] } := by decide
  have h2 := h _ { cells := cexCells, trace := [], chain := [0] } [1, 0]
    (cex_good2 [0, 1, 0] (by simp) (by simp) (by simp))
  rw [loop_step hs, loop_nil] at h2
  exact cex_not_tailUnpaused _ h2.2.2

end TwistedProps.C01
