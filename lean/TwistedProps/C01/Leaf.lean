import TwistedProps.C01.Order
/-!
C01, lemmas for "input = previous output": a Deferred `d` that no callable returns and whose own callables return
no Deferred ("leaf") is never waited for, never waits, never has its result taken; its result is always the
output of the last callable that ran on it.
-/
namespace TwistedProps.C01
open Twisted.Defer.Core

theorem getElem?_modify (cells : List Cell) (i k : Nat) (f : Cell → Cell) :
    (Twisted.Defer.Core.modify cells i f)[k]? = if k = i then (cells[k]?).map f else cells[k]? := by
  unfold Twisted.Defer.Core.modify
  cases h : cells[i]? with
  | none =>
    simp only
    split
    · rename_i hk; subst hk; simp [h]
    · rfl
  | some c =>
    have hi := getElem?_lt h
    simp only [List.getElem?_set]
    split
    · rename_i hk; subst hk
      rw [if_pos rfl, h]; simp [hi]
    · rename_i hk
      rw [if_neg (fun h => hk h.symm)]

theorem getElem?_set' (cells : List Cell) (i k : Nat) (c c' : Cell) (h : cells[i]? = some c) :
    (cells.set i c')[k]? = if k = i then some c' else cells[k]? := by
  have hi := getElem?_lt h
  simp only [List.getElem?_set]
  split
  · rename_i hk; subst hk; simp [hi]
  · rename_i hk
    rw [if_neg (fun h => hk h.symm)]

/-- the slot is a callable returning some Deferred -/
def _root_.Twisted.Defer.Core.Slot.returnsDeferred : Slot → Bool
  | .user (.retDef _) => true
  | _ => false

/-- the pending item neither returns Deferred `d` nor resumes it -/
def itemAvoids (d : Nat) : Item → Prop
  | .pair _ cb eb => cb ≠ .user (.retDef d) ∧ eb ≠ .user (.retDef d)
  | .cont c => c ≠ d

/-- the pending item is a pair of callables none of which returns a Deferred -/
def itemPlain : Item → Prop
  | .pair _ cb eb => cb.returnsDeferred = false ∧ eb.returnsDeferred = false
  | .cont _ => False

/-- what holds of cell number `k` when `d` is a leaf -/
def CellOK (d k : Nat) (c : Cell) : Prop :=
  (∀ it ∈ c.callbacks, itemAvoids d it) ∧ c.result ≠ .dref d ∧
  (k = d → (∀ it ∈ c.callbacks, itemPlain it) ∧ c.result.isDref = false)

/-- the `d`-part of the trace is input/output chained -/
def chained : List Entry → Prop
  | [] => True
  | [_] => True
  | e1 :: e2 :: r => e2.input = e1.output ∧ chained (e2 :: r)

def dTrace (tr : List Entry) (d : Nat) : List Entry := tr.filter (fun e => e.d == d)

theorem chained_append (l : List Entry) (e : Entry) (h : chained l)
    (hl : ∀ last, l.getLast? = some last → e.input = last.output) : chained (l ++ [e]) := by
  induction l with
  | nil => simp [chained]
  | cons a r ih =>
    cases r with
    | nil =>
      simp only [List.cons_append, List.nil_append, chained, and_true]
      exact hl a (by simp)
    | cons b r' =>
      simp only [chained] at h
      simp only [List.cons_append, chained]
      refine ⟨h.1, ?_⟩
      apply ih h.2
      intro last hlast
      apply hl
      simpa [List.getLast?_cons_cons] using hlast

structure LeafInv (F : Val → Prop) (d : Nat) (cells : List Cell) (tr : List Entry) : Prop where
  ok : ∀ k c, cells[k]? = some c → CellOK d k c
  chain : chained (dTrace tr d)
  last : ∀ c last, cells[d]? = some c → (dTrace tr d).getLast? = some last → c.result = last.output
  /-- nothing runs on an unfired Deferred -/
  fresh : ∀ c, cells[d]? = some c → c.called = false → dTrace tr d = []
  /-- until a callable has run, the result is a value the Deferred was fired with -/
  firedA : ∀ c, cells[d]? = some c → c.called = true → dTrace tr d = [] → F c.result
  /-- the first callable's input is a value the Deferred was fired with -/
  firedB : ∀ e, (dTrace tr d).head? = some e → F e.input

/-- the invariant transfers along any change that leaves cell `d` and the `d`-part of the trace alone -/
theorem LeafInv.transfer {F : Val → Prop} {d : Nat} {cells cells' : List Cell} {tr tr' : List Entry}
    (hi : LeafInv F d cells tr) (hok : ∀ k c, cells'[k]? = some c → CellOK d k c)
    (hd : cells'[d]? = cells[d]?) (ht : dTrace tr' d = dTrace tr d) : LeafInv F d cells' tr' where
  ok := hok
  chain := ht ▸ hi.chain
  last c l hc hl := hi.last c l (hd ▸ hc) (ht ▸ hl)
  fresh c hc hcl := ht ▸ hi.fresh c (hd ▸ hc) hcl
  firedA c hc hcl he := hi.firedA c (hd ▸ hc) hcl (ht ▸ he)
  firedB e he := hi.firedB e (ht ▸ he)

theorem dTrace_append (tr : List Entry) (e : Entry) (d : Nat) :
    dTrace (tr ++ [e]) d = if e.d = d then dTrace tr d ++ [e] else dTrace tr d := by
  unfold dTrace
  by_cases h : e.d = d <;> simp [List.filter_append, h]

theorem slotOut_ne (d : Nat) (res : Val) (cb eb : Slot) (hcb : cb ≠ .user (.retDef d)) (heb : eb ≠ .user (.retDef d))
    (hres : res ≠ .dref d) : slotOut (pick res cb eb) res ≠ .dref d := by
  unfold pick
  split
  · cases eb with
    | passthru => simpa [slotOut] using hres
    | user b => cases b <;> simp_all [slotOut, Beh.out]
  · cases cb with
    | passthru => simpa [slotOut] using hres
    | user b => cases b <;> simp_all [slotOut, Beh.out]

theorem slotOut_plain (res : Val) (cb eb : Slot) (hcb : cb.returnsDeferred = false) (heb : eb.returnsDeferred = false)
    (hres : res.isDref = false) : (slotOut (pick res cb eb) res).isDref = false := by
  unfold pick
  split
  · cases eb with
    | passthru => simpa [slotOut] using hres
    | user b => cases b <;> simp_all [slotOut, Beh.out, Val.isDref, Slot.returnsDeferred]
  · cases cb with
    | passthru => simpa [slotOut] using hres
    | user b => cases b <;> simp_all [slotOut, Beh.out, Val.isDref, Slot.returnsDeferred]


/-! preservation of `CellOK` by the elementary heap updates -/

theorem ok_modify {d : Nat} {cells : List Cell} (hok : ∀ k c, cells[k]? = some c → CellOK d k c) (i : Nat)
    (f : Cell → Cell) (hf : ∀ c, CellOK d i c → CellOK d i (f c)) :
    ∀ k c, (Twisted.Defer.Core.modify cells i f)[k]? = some c → CellOK d k c := by
  intro k c hk
  rw [getElem?_modify] at hk
  split at hk
  · rename_i hki; subst hki
    cases hc : cells[k]? with
    | none => simp [hc] at hk
    | some c0 => simp [hc] at hk; subst hk; exact hf c0 (hok k c0 hc)
  · exact hok k c hk

theorem ok_set {d : Nat} {cells : List Cell} (hok : ∀ k c, cells[k]? = some c → CellOK d k c) (i : Nat)
    (c0 c' : Cell) (h : cells[i]? = some c0) (hc' : CellOK d i c') :
    ∀ k c, (cells.set i c')[k]? = some c → CellOK d k c := by
  intro k c hk
  rw [getElem?_set' _ _ _ _ _ h] at hk
  split at hk
  · rename_i hki; subst hki; simp at hk; subst hk; exact hc'
  · exact hok k c hk

theorem okPause {d k : Nat} {c : Cell} (h : CellOK d k c) : CellOK d k (pauseCell c) := h

theorem okSetResult {d k : Nat} {c : Cell} (v : Val) (hv : v ≠ .dref d) (hv' : k = d → v.isDref = false)
    (h : CellOK d k c) : CellOK d k (setResult v c) :=
  ⟨h.1, hv, fun hk => ⟨(h.2.2 hk).1, hv' hk⟩⟩

theorem okHandOver {d k : Nat} {c : Cell} (v : Val) (hv : v ≠ .dref d) (hv' : k = d → v.isDref = false)
    (h : CellOK d k c) : CellOK d k (handOver v c) :=
  ⟨h.1, hv, fun hk => ⟨(h.2.2 hk).1, hv' hk⟩⟩

theorem okAppendCont {d k : Nat} {c : Cell} (cur : Nat) (hcur : cur ≠ d) (hk : k ≠ d)
    (h : CellOK d k c) : CellOK d k (appendCont cur c) := by
  refine ⟨?_, h.2.1, fun hkd => absurd hkd hk⟩
  intro it hit
  simp only [appendCont, List.mem_append, List.mem_singleton] at hit
  rcases hit with hit | hit
  · exact h.1 it hit
  · subst hit; exact hcur

/-- `afterCall` when the value returned is not Deferred `d`, and is no Deferred at all if `cur` is `d` -/
theorem afterCall_ok {d : Nat} (cells1 : List Cell) (tr : List Entry) (cur : Nat) (below : List Nat) (out : Val)
    (hok : ∀ k c, cells1[k]? = some c → CellOK d k c) (hout : out ≠ .dref d) (hcur : cur = d → out.isDref = false) :
    (∀ k c, (afterCall cells1 tr cur below out).cells[k]? = some c → CellOK d k c) ∧
    (afterCall cells1 tr cur below out).cells[d]? = cells1[d]? := by
  unfold afterCall
  split
  · rename_i j
    have hj : j ≠ d := fun h => hout (by rw [h])
    have hcd : cur ≠ d := fun h => by simpa [Val.isDref] using hcur h
    split
    · exact ⟨ok_modify hok cur pauseCell (fun _ h => okPause h), by rw [getElem?_modify, if_neg (Ne.symm hcd)]⟩
    · rename_i cj hcj
      split
      · refine ⟨ok_modify (ok_modify hok cur pauseCell (fun _ h => okPause h)) j (appendCont cur)
          (fun _ h => okAppendCont cur hcd hj h), ?_⟩
        simp only
        rw [getElem?_modify, if_neg (Ne.symm hj), getElem?_modify, if_neg (Ne.symm hcd)]
      · have hcjr : cj.result ≠ .dref d := (hok j cj hcj).2.1
        refine ⟨ok_modify (ok_set hok j cj _ hcj (okSetResult .pyNone (by simp) (by simp [Val.isDref]) (hok j cj hcj)))
          cur (setResult cj.result) (fun _ h => okSetResult _ hcjr (fun h => absurd h hcd) h), ?_⟩
        simp only
        rw [getElem?_modify, if_neg (Ne.symm hcd), getElem?_set' _ _ _ _ _ hcj, if_neg (Ne.symm hj)]
  · exact ⟨hok, rfl⟩

theorem getLast?_append_singleton (l : List Entry) (e : Entry) : (l ++ [e]).getLast? = some e := by
  simp

theorem dTrace_slotTrace_ne (slot : Slot) (tr : List Entry) (cur tag d : Nat) (res : Val) (h : cur ≠ d) :
    dTrace (slotTrace slot tr cur tag res) d = dTrace tr d := by
  cases slot with
  | passthru => rfl
  | user b => simp only [slotTrace, dTrace_append, if_neg h]

/-- one `callbacks.pop(0)` preserves the leaf invariant -/
theorem runItem_leaf (F : Val → Prop) (d : Nat) (c : Conf) (cur : Nat) (below : List Nat) (cell : Cell) (item : Item)
    (rest : List Item) (hcell : c.cells[cur]? = some cell) (hcbs : cell.callbacks = item :: rest)
    (hcalled : cur = d → cell.called = true) (hi : LeafInv F d c.cells c.trace) :
    LeafInv F d (runItem c cur below cell item rest).cells (runItem c cur below cell item rest).trace ∧
    ((runItem c cur below cell item rest).cells[d]?).map (·.called) = (c.cells[d]?).map (·.called) := by
  obtain ⟨hav, hres, hpl⟩ := hi.ok cur cell hcell
  have hitem : itemAvoids d item := hav item (by simp [hcbs])
  have hrest : ∀ it ∈ rest, itemAvoids d it := fun it h => hav it (by simp [hcbs, h])
  unfold runItem
  split
  · -- continuation: `cur` is not `d` (a leaf has no continuation pending) and neither is the chainee
    rename_i chainee
    have hch : chainee ≠ d := hitem
    have hcd : cur ≠ d := fun h => (hpl h).1 (.cont chainee) (by simp [hcbs])
    have hpop : CellOK d cur { cell with callbacks := rest } := ⟨hrest, hres, fun h => absurd h hcd⟩
    have hd : (Twisted.Defer.Core.modify (Twisted.Defer.Core.modify (c.cells.set cur { cell with callbacks := rest })
        chainee (handOver cell.result)) cur (setResult .pyNone))[d]? = c.cells[d]? := by
      rw [getElem?_modify, if_neg (Ne.symm hcd), getElem?_modify, if_neg (Ne.symm hch),
        getElem?_set' _ _ _ _ _ hcell, if_neg (Ne.symm hcd)]
    refine ⟨hi.transfer ?_ hd rfl, by simp only; rw [hd]⟩
    exact ok_modify (ok_modify (ok_set hi.ok cur cell _ hcell hpop) chainee (handOver cell.result)
        (fun _ h => okHandOver _ hres (fun h => absurd h hch) h)) cur (setResult .pyNone)
        (fun _ h => okSetResult _ (by simp) (by simp [Val.isDref]) h)
  · rename_i tag cb eb
    simp only [itemAvoids] at hitem
    have hout : slotOut (pick cell.result cb eb) cell.result ≠ .dref d := slotOut_ne d _ cb eb hitem.1 hitem.2 hres
    have hplain : cur = d → (slotOut (pick cell.result cb eb) cell.result).isDref = false := by
      intro h
      have := (hpl h).1 (.pair tag cb eb) (by simp [hcbs])
      simp only [itemPlain] at this
      exact slotOut_plain _ cb eb this.1 this.2 (hpl h).2
    have hpop : CellOK d cur { cell with callbacks := rest, result := slotOut (pick cell.result cb eb) cell.result } :=
      ⟨hrest, hout, fun h => ⟨fun it hit => (hpl h).1 it (by simp [hcbs, hit]), hplain h⟩⟩
    have hac := afterCall_ok (d := d)
      (c.cells.set cur { cell with callbacks := rest, result := slotOut (pick cell.result cb eb) cell.result })
      (slotTrace (pick cell.result cb eb) c.trace cur tag cell.result) cur below
      (slotOut (pick cell.result cb eb) cell.result) (ok_set hi.ok cur cell _ hcell hpop) hout hplain
    simp only
    rw [afterCall_trace, hac.2, getElem?_set' _ _ _ _ _ hcell]
    by_cases hcd : cur = d
    · -- a callable of the leaf itself runs
      subst hcd
      have hcl := hcalled rfl
      rw [if_pos rfl]
      refine ⟨?_, by simp [hcell, hcl]⟩
      have hdc := hac.2
      rw [getElem?_set' _ _ _ _ _ hcell, if_pos rfl] at hdc
      cases hs : pick cell.result cb eb with
      | passthru =>
        simp only [hs, slotTrace, slotOut] at hdc hac ⊢
        refine ⟨hac.1, hi.chain, ?_, ?_, ?_, hi.firedB⟩
        · intro cd last h1 h2
          rw [hdc] at h1; simp at h1; subst h1
          exact hi.last cell last hcell h2
        · intro cd h1 h2
          rw [hdc] at h1; simp at h1; subst h1
          simp [hcl] at h2
        · intro cd h1 _ h3
          rw [hdc] at h1; simp at h1; subst h1
          exact hi.firedA cell hcell hcl h3
      | user b =>
        simp only [hs, slotTrace, slotOut] at hdc hac ⊢
        have hdt : dTrace (c.trace ++ [⟨cur, tag, cell.result, b.out⟩]) cur =
            dTrace c.trace cur ++ [⟨cur, tag, cell.result, b.out⟩] := by rw [dTrace_append, if_pos rfl]
        refine ⟨hac.1, ?_, ?_, ?_, ?_, ?_⟩
        · rw [hdt]
          apply chained_append _ _ hi.chain
          intro last hlast
          exact hi.last cell last hcell hlast
        · intro cd last h1 h2
          rw [hdc] at h1; simp at h1; subst h1
          rw [hdt] at h2
          simp at h2; subst h2; rfl
        · intro cd h1 h2
          rw [hdc] at h1; simp at h1; subst h1
          simp [hcl] at h2
        · intro cd _ _ h3
          rw [hdt] at h3
          simp at h3
        · intro e he
          rw [hdt] at he
          cases hl : dTrace c.trace cur with
          | nil =>
            rw [hl] at he; simp at he; subst he
            exact hi.firedA cell hcell hcl hl
          | cons a r =>
            rw [hl] at he; simp at he; subst he
            exact hi.firedB a (by rw [hl]; rfl)
    · rw [if_neg (Ne.symm hcd)]
      refine ⟨hi.transfer hac.1 ?_ (dTrace_slotTrace_ne _ _ _ _ _ _ hcd), rfl⟩
      rw [hac.2, getElem?_set' _ _ _ _ _ hcell, if_neg (Ne.symm hcd)]

/-- the leaf invariant for a `_runCallbacks` walk: additionally, the leaf is only on the chain stack once fired -/
def LeafConf (F : Val → Prop) (d : Nat) (c : Conf) : Prop :=
  LeafInv F d c.cells c.trace ∧ (d ∈ c.chain → ∀ cd, c.cells[d]? = some cd → cd.called = true)

theorem stepConf_leaf (F : Val → Prop) (d : Nat) {c c' : Conf} (h : stepConf c = some c') (hi : LeafConf F d c) :
    LeafConf F d c' := by
  unfold stepConf at h
  split at h
  · simp at h
  · rename_i cur below hchain
    have hbelow : LeafConf F d { c with chain := below } :=
      ⟨hi.1, fun hm => hi.2 (by rw [hchain]; exact List.mem_cons_of_mem _ hm)⟩
    split at h
    · simp at h; subst h; exact hbelow
    · rename_i cell hcell
      split at h
      · simp at h; subst h; exact hbelow
      · split at h
        · simp at h; subst h; exact hbelow
        · rename_i item rest hcbs
          simp at h; subst h
          have hcalled : cur = d → cell.called = true := by
            intro hcd; subst hcd
            exact hi.2 (by rw [hchain]; simp) cell hcell
          have hr := runItem_leaf F d c cur below cell item rest hcell hcbs hcalled hi.1
          refine ⟨hr.1, ?_⟩
          intro hm cd hcd
          -- the chain stack only gained a chainee, which is not `d`; and `called` of cell `d` did not change
          have hm' : d ∈ c.chain := by
            rw [hchain]
            unfold runItem at hm
            split at hm
            · rename_i chainee
              have hav := (hi.1.ok cur cell hcell).1 (.cont chainee) (by simp [hcbs])
              simp only [List.mem_cons] at hm
              rcases hm with hm | hm | hm
              · exact absurd hm.symm hav
              · simp [hm]
              · simp [hm]
            · simp only at hm
              unfold afterCall at hm
              split at hm
              · split at hm
                · exact List.mem_cons_of_mem _ hm
                · split at hm
                  · exact List.mem_cons_of_mem _ hm
                  · exact hm
              · exact hm
          have h2 := hr.2
          rw [hcd] at h2
          cases hc0 : c.cells[d]? with
          | none => simp [hc0] at h2
          | some c0 =>
            simp [hc0] at h2
            rw [h2]
            exact hi.2 hm' c0 hc0

theorem loop_leaf (F : Val → Prop) (d : Nat) (c : Conf) (hi : LeafConf F d c) : LeafConf F d (loop c) := by
  induction c using loop.induct with
  | case1 c h => rw [loop]; split <;> simp_all
  | case2 c c' h ih =>
    rw [loop]; split
    · simp_all
    · rename_i c'' h2
      rw [h] at h2; cases h2
      exact ih (stepConf_leaf F d h hi)

end TwistedProps.C01
