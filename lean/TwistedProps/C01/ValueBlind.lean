import TwistedModel.Defer.Core
/-!
C01 — the chain-stack model never inspects a VALUE: renaming the plain values a program fires with / its callables
return (by any function `f`, injective or not) commutes with running the program.  This is what lets the check run
`None` (and any other Python object) through the model as just another opaque value.
-/
namespace TwistedProps.C01.VB
open Twisted.Defer.Core

def mapVal (f : Nat → Nat) : Val → Val
  | .ok n => .ok (f n)
  | v => v

def mapBeh (f : Nat → Nat) : Beh → Beh
  | .value n => .value (f n)
  | b => b

def mapSlot (f : Nat → Nat) : Slot → Slot
  | .passthru => .passthru
  | .user b => .user (mapBeh f b)

def mapItem (f : Nat → Nat) : Item → Item
  | .pair t cb eb => .pair t (mapSlot f cb) (mapSlot f eb)
  | .cont i => .cont i

def mapCell (f : Nat → Nat) (c : Cell) : Cell :=
  { callbacks := c.callbacks.map (mapItem f), result := mapVal f c.result, called := c.called, paused := c.paused }

def mapEntry (f : Nat → Nat) (e : Entry) : Entry :=
  { d := e.d, tag := e.tag, input := mapVal f e.input, output := mapVal f e.output }

def mapConf (f : Nat → Nat) (c : Conf) : Conf :=
  { cells := c.cells.map (mapCell f), trace := c.trace.map (mapEntry f), chain := c.chain }

def mapState (f : Nat → Nat) (s : State) : State :=
  { cells := s.cells.map (mapCell f), trace := s.trace.map (mapEntry f), nadds := s.nadds }

def mapOp (f : Nat → Nat) : Op → Op
  | .add d cb eb => .add d (mapSlot f cb) (mapSlot f eb)
  | .callback d n => .callback d (f n)
  | op => op

variable (f : Nat → Nat)

@[simp] theorem isFailure_map (v : Val) : (mapVal f v).isFailure = v.isFailure := by cases v <;> rfl
@[simp] theorem isDref_map (v : Val) : (mapVal f v).isDref = v.isDref := by cases v <;> rfl
@[simp] theorem unset_map (v : Val) : (mapVal f v == Val.unset) = (v == Val.unset) := by cases v <;> rfl
@[simp] theorem out_map (b : Beh) : (mapBeh f b).out = mapVal f b.out := by cases b <;> rfl

@[simp] theorem mustWait_map (c : Cell) : mustWait (mapCell f c) = mustWait c := by
  simp [mustWait, mapCell]

theorem pending_map (cells : List Cell) : pending (cells.map (mapCell f)) = pending cells := by
  induction cells with
  | nil => rfl
  | cons c cs ih => simp [pending, ih, mapCell]

theorem modify_map (cells : List Cell) (i : Nat) (g g' : Cell → Cell)
    (h : ∀ c, mapCell f (g c) = g' (mapCell f c)) :
    modify (cells.map (mapCell f)) i g' = (modify cells i g).map (mapCell f) := by
  unfold Twisted.Defer.Core.modify
  cases hc : cells[i]? with
  | none => simp [hc]
  | some c => simp [hc, List.map_set, h]

theorem pick_map (res : Val) (cb eb : Slot) :
    pick (mapVal f res) (mapSlot f cb) (mapSlot f eb) = mapSlot f (pick res cb eb) := by
  simp [pick]; split <;> rfl

theorem slotOut_map (s : Slot) (res : Val) : slotOut (mapSlot f s) (mapVal f res) = mapVal f (slotOut s res) := by
  cases s <;> simp [slotOut, mapSlot]

theorem slotTrace_map (s : Slot) (tr : List Entry) (cur tag : Nat) (res : Val) :
    slotTrace (mapSlot f s) (tr.map (mapEntry f)) cur tag (mapVal f res) = (slotTrace s tr cur tag res).map (mapEntry f) := by
  cases s <;> simp [slotTrace, mapSlot, mapEntry]

theorem afterCall_map (cells1 : List Cell) (tr : List Entry) (cur : Nat) (below : List Nat) (out : Val) :
    afterCall (cells1.map (mapCell f)) (tr.map (mapEntry f)) cur below (mapVal f out)
      = mapConf f (afterCall cells1 tr cur below out) := by
  cases out with
  | dref j =>
    simp only [afterCall, mapVal, List.getElem?_map]
    cases hj : cells1[j]? with
    | none =>
      simp only [Option.map_none, mapConf]
      rw [modify_map f _ _ pauseCell pauseCell (by intro c; rfl)]
    | some cj =>
      simp only [Option.map_some, mustWait_map]
      split
      · simp only [mapConf]
        rw [modify_map f _ _ pauseCell pauseCell (by intro c; rfl),
            modify_map f _ _ (appendCont cur) (appendCont cur) (by intro c; simp [mapCell, appendCont, mapItem])]
      · simp only [mapConf]
        have : (cells1.map (mapCell f)).set j (setResult Val.pyNone (mapCell f cj))
            = (cells1.set j (setResult Val.pyNone cj)).map (mapCell f) := by
          simp [List.map_set, mapCell, setResult, mapVal]
        rw [this, modify_map f _ _ (setResult cj.result) (setResult (mapCell f cj).result)
          (by intro c; simp [mapCell, setResult])]
  | unset => simp [afterCall, mapVal, mapConf]
  | pyNone => simp [afterCall, mapVal, mapConf]
  | ok n => simp [afterCall, mapVal, mapConf]
  | fail e => simp [afterCall, mapVal, mapConf]

theorem runItem_map (c : Conf) (cur : Nat) (below : List Nat) (cell : Cell) (item : Item) (rest : List Item) :
    runItem (mapConf f c) cur below (mapCell f cell) (mapItem f item) (rest.map (mapItem f))
      = mapConf f (runItem c cur below cell item rest) := by
  cases item with
  | cont chainee =>
    simp only [runItem, mapItem, mapConf]
    have h1 : (c.cells.map (mapCell f)).set cur { mapCell f cell with callbacks := rest.map (mapItem f) }
        = (c.cells.set cur { cell with callbacks := rest }).map (mapCell f) := by
      simp [List.map_set, mapCell]
    rw [h1, modify_map f _ _ (handOver cell.result) (handOver (mapCell f cell).result)
          (by intro x; simp [mapCell, handOver]),
        modify_map f _ _ (setResult .pyNone) (setResult .pyNone) (by intro x; simp [mapCell, setResult, mapVal])]
  | pair tag cb eb =>
    simp only [runItem, mapItem]
    have hres : (mapCell f cell).result = mapVal f cell.result := rfl
    rw [hres, pick_map, slotOut_map]
    have h1 : (mapConf f c).cells.set cur
          { mapCell f cell with callbacks := rest.map (mapItem f),
                                 result := mapVal f (slotOut (pick cell.result cb eb) cell.result) }
        = (c.cells.set cur { cell with callbacks := rest, result := slotOut (pick cell.result cb eb) cell.result }).map
            (mapCell f) := by
      simp [List.map_set, mapCell, mapConf]
    have h2 : (mapConf f c).trace = c.trace.map (mapEntry f) := rfl
    rw [h1, h2, slotTrace_map, afterCall_map]

theorem stepConf_map (c : Conf) : stepConf (mapConf f c) = (stepConf c).map (mapConf f) := by
  unfold stepConf
  cases hch : c.chain with
  | nil => simp [mapConf, hch]
  | cons cur below =>
    have : (mapConf f c).chain = cur :: below := by simp [mapConf, hch]
    simp only [this]
    have hc : (mapConf f c).cells[cur]? = (c.cells[cur]?).map (mapCell f) := by simp [mapConf]
    rw [hc]
    cases hcell : c.cells[cur]? with
    | none => simp [mapConf, hch]
    | some cell =>
      simp only [Option.map_some]
      have hp : (mapCell f cell).paused = cell.paused := rfl
      rw [hp]
      split
      · simp [mapConf, hch]
      · have hcb : (mapCell f cell).callbacks = cell.callbacks.map (mapItem f) := rfl
        rw [hcb]
        cases hcbs : cell.callbacks with
        | nil => simp [mapConf, hch]
        | cons item rest =>
          simp only [List.map_cons, Option.map_some]
          rw [runItem_map]

theorem measure_map (c : Conf) : (mapConf f c).measure = c.measure := by
  simp [Conf.measure, mapConf, pending_map]

theorem iterate_map (n : Nat) (c : Conf) : iterate n (mapConf f c) = mapConf f (iterate n c) := by
  induction n generalizing c with
  | zero => rfl
  | succ k ih =>
    simp only [iterate, stepConf_map]
    cases stepConf c with
    | none => rfl
    | some c' => simp [ih]

def mapHeap (h : Heap) : Heap := (h.1.map (mapCell f), h.2.map (mapEntry f))

theorem runCallbacks_map (h : Heap) (d : Nat) : runCallbacks (mapHeap f h) d = mapHeap f (runCallbacks h d) := by
  simp only [runCallbacks, mapHeap]
  have h0 : ({ cells := h.1.map (mapCell f), trace := h.2.map (mapEntry f), chain := [d] } : Conf)
      = mapConf f { cells := h.1, trace := h.2, chain := [d] } := rfl
  rw [h0, measure_map, iterate_map]
  rfl

def mapRes (r : State × Outcome) : State × Outcome := (mapState f r.1, r.2)

theorem finish_eq (cells : List Cell) (tr : List Entry) (k d : Nat) (cells2 : List Cell) (tr2 : List Entry)
    (hc : cells2 = cells.map (mapCell f)) (ht : tr2 = tr.map (mapEntry f)) :
    (coreRun (cells2, tr2) d).map (fun h => (({ cells := h.1, trace := h.2, nadds := k } : State), Outcome.ok))
      = ((coreRun (cells, tr) d).map
          (fun h => (({ cells := h.1, trace := h.2, nadds := k } : State), Outcome.ok))).map (mapRes f) := by
  subst hc ht
  simp only [coreRun, Option.map_some]
  have : ((cells.map (mapCell f), tr.map (mapEntry f)) : Heap) = mapHeap f (cells, tr) := rfl
  rw [this, runCallbacks_map]
  rfl

theorem step_map (s : State) (op : Op) : step (mapState f s) (mapOp f op) = (step s op).map (mapRes f) := by
  have hget : ∀ d : Nat, (mapState f s).cells[d]? = (s.cells[d]?).map (mapCell f) := by
    intro d; simp [mapState]
  cases op with
  | add d cb eb =>
    simp only [step, stepWith, mapOp, hget]
    cases hc : s.cells[d]? with
    | none => simp [mapRes]
    | some cell =>
      simp only [Option.map_some]
      have hcalled : (mapCell f cell).called = cell.called := rfl
      rw [hcalled]
      split
      · exact finish_eq f _ _ _ d _ _ (by simp [mapState, List.map_set, mapCell, mapItem]) rfl
      · simp [mapRes, mapState, List.map_set, mapCell, mapItem]
  | pause d =>
    simp only [step, stepWith, mapOp, hget]
    cases hc : s.cells[d]? with
    | none => simp [mapRes]
    | some cell => simp [mapRes, mapState, List.map_set, mapCell]
  | unpause d =>
    simp only [step, stepWith, mapOp, hget]
    cases hc : s.cells[d]? with
    | none => simp [mapRes]
    | some cell =>
      simp only [Option.map_some]
      have hp : (mapCell f cell).paused = cell.paused := rfl
      have hcalled : (mapCell f cell).called = cell.called := rfl
      rw [hp, hcalled]
      split
      · simp [mapRes, mapState, List.map_set, mapCell]
      · split
        · exact finish_eq f _ _ _ d _ _ (by simp [mapState, List.map_set, mapCell]) rfl
        · simp [mapRes, mapState, List.map_set, mapCell]
  | callback d n =>
    simp only [step, stepWith, mapOp, hget]
    cases hc : s.cells[d]? with
    | none => simp [mapRes]
    | some cell =>
      simp only [Option.map_some]
      have hcalled : (mapCell f cell).called = cell.called := rfl
      rw [hcalled]
      split
      · simp [mapRes]
      · exact finish_eq f _ _ _ d _ _ (by simp [mapState, List.map_set, mapCell, mapVal]) rfl
  | errback d e =>
    simp only [step, stepWith, mapOp, hget]
    cases hc : s.cells[d]? with
    | none => simp [mapRes]
    | some cell =>
      simp only [Option.map_some]
      have hcalled : (mapCell f cell).called = cell.called := rfl
      rw [hcalled]
      split
      · simp [mapRes]
      · exact finish_eq f _ _ _ d _ _ (by simp [mapState, List.map_set, mapCell, mapVal]) rfl

/-- running the renamed program = renaming the run: outcome of every operation, every Deferred's state, every
    invocation (inputs and outputs) after every operation -/
theorem history_map (s : State) (ops : List Op) :
    history (mapState f s) (ops.map (mapOp f))
      = (history s ops).map (List.map fun r => (r.1, mapState f r.2)) := by
  induction ops generalizing s with
  | nil => rfl
  | cons op ops ih =>
    simp only [history, traceWith, List.map_cons] at ih ⊢
    have hs := step_map f s op
    simp only [step] at hs
    rw [hs]
    cases hstep : stepWith coreRun s op with
    | none => rfl
    | some r =>
      obtain ⟨s2, o⟩ := r
      simp only [Option.map_some, mapRes]
      rw [ih s2]
      cases traceWith coreRun s2 ops <;> simp

theorem init_map (n : Nat) : mapState f (init n) = init n := by
  simp [mapState, init, mapCell, mapVal]

end TwistedProps.C01.VB
