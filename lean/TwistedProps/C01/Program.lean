import TwistedProps.C01.Order
/-!
C01, the order invariant lifted from one `_runCallbacks` walk to whole programs.
-/
namespace TwistedProps.C01
open Twisted.Defer.Core

/-- run++pending tag sequences: increasing per Deferred, disjoint between Deferreds, below the add counter -/
structure Inv (s : State) : Prop where
  sorted : ∀ d, (seqOf s.cells s.trace d).Pairwise (· < ·)
  disj : ∀ d d', d ≠ d' → ∀ t, t ∈ seqOf s.cells s.trace d → t ∉ seqOf s.cells s.trace d'
  bound : ∀ d, ∀ t ∈ seqOf s.cells s.trace d, t < s.nadds

theorem Inv.of_sublist {s s' : State} (hi : Inv s) (hn : s'.nadds = s.nadds)
    (hs : ∀ d, (seqOf s'.cells s'.trace d).Sublist (seqOf s.cells s.trace d)) : Inv s' where
  sorted d := (hi.sorted d).sublist (hs d)
  disj d d' hne t ht ht' := hi.disj d d' hne t ((hs d).subset ht) ((hs d').subset ht')
  bound d t ht := hn ▸ hi.bound d t ((hs d).subset ht)

/-- what the order lemmas need from an implementation of `_runCallbacks` -/
def SeqShrinks (run : Heap → Nat → Option Heap) : Prop :=
  ∀ h d h', run h d = some h' → ∀ x, (seqOf h'.1 h'.2 x).Sublist (seqOf h.1 h.2 x)

theorem coreRun_seqShrinks : SeqShrinks coreRun := by
  intro h d h' hr x
  simp only [coreRun, runCallbacks_eq_loop, Option.some.injEq] at hr
  subst hr
  exact loop_seq { cells := h.1, trace := h.2, chain := [d] } x

theorem seqOf_set_same (cells : List Cell) (tr : List Entry) (i x : Nat) (c c' : Cell)
    (h : cells[i]? = some c) (hc : c'.callbacks = c.callbacks) :
    seqOf (cells.set i c') tr x = seqOf cells tr x := by
  unfold seqOf
  rw [cellTags_set _ _ _ _ _ h]
  split
  · rename_i hx; subst hx; simp [cellTags, h, hc]
  · rfl

theorem finish_inv {run : Heap → Nat → Option Heap} (hrun : SeqShrinks run) {s' : State} (hi : Inv s')
    {d : Nat} {r : State × Outcome}
    (h : (run (s'.cells, s'.trace) d).map (fun h => (({ s' with cells := h.1, trace := h.2 } : State), Outcome.ok)) = some r) :
    Inv r.1 := by
  cases hr : run (s'.cells, s'.trace) d with
  | none => simp [hr] at h
  | some hp =>
    simp [hr] at h
    subst h
    exact hi.of_sublist rfl (fun x => hrun _ _ _ hr x)

theorem seqOf_add (s : State) (d x : Nat) (cell : Cell) (cb eb : Slot) (h : s.cells[d]? = some cell) :
    seqOf (s.cells.set d { cell with callbacks := cell.callbacks ++ [.pair s.nadds cb eb] }) s.trace x =
      if x = d then seqOf s.cells s.trace d ++ [s.nadds] else seqOf s.cells s.trace x := by
  unfold seqOf
  rw [cellTags_set _ _ _ _ _ h]
  split
  · rename_i hx; subst hx
    simp [cellTags, h, itemTags_append, itemTags]
  · rfl

theorem add_inv {s : State} (hi : Inv s) (d : Nat) (cell : Cell) (cb eb : Slot) (h : s.cells[d]? = some cell) :
    Inv { s with cells := s.cells.set d { cell with callbacks := cell.callbacks ++ [.pair s.nadds cb eb] },
                 nadds := s.nadds + 1 } := by
  constructor
  · intro x
    simp only [seqOf_add s d x cell cb eb h]
    split
    · rw [List.pairwise_append]
      refine ⟨hi.sorted d, by simp, ?_⟩
      intro a ha b hb
      simp at hb; subst hb
      exact hi.bound d a ha
    · exact hi.sorted x
  · intro x x' hne t ht ht'
    simp only [seqOf_add s d _ cell cb eb h] at ht ht'
    split at ht
    · rename_i hx; subst hx
      rw [if_neg (fun h => hne h.symm)] at ht'
      rcases List.mem_append.1 ht with ht | ht
      · exact hi.disj _ _ hne t ht ht'
      · simp at ht; subst ht
        exact Nat.lt_irrefl _ (hi.bound x' _ ht')
    · split at ht'
      · rename_i hx hx'; subst hx'
        rcases List.mem_append.1 ht' with ht' | ht'
        · exact hi.disj _ _ hne t ht ht'
        · simp at ht'; subst ht'
          exact Nat.lt_irrefl _ (hi.bound x _ ht)
      · exact hi.disj _ _ hne t ht ht'
  · intro x t ht
    simp only [seqOf_add s d x cell cb eb h] at ht
    split at ht
    · rcases List.mem_append.1 ht with ht | ht
      · exact Nat.lt_succ_of_lt (hi.bound d t ht)
      · simp at ht; subst ht; exact Nat.lt_succ_self _
    · exact Nat.lt_succ_of_lt (hi.bound x t ht)

theorem set_same_inv {s : State} (hi : Inv s) (d : Nat) (cell c' : Cell) (h : s.cells[d]? = some cell)
    (hc : c'.callbacks = cell.callbacks) : Inv { s with cells := s.cells.set d c' } :=
  hi.of_sublist rfl (fun x => by
    show (seqOf (s.cells.set d c') s.trace x).Sublist _
    rw [seqOf_set_same _ _ _ _ _ _ h hc]; exact List.Sublist.refl _)

/-- every operation of a program preserves the order invariant -/
theorem stepWith_inv {run : Heap → Nat → Option Heap} (hrun : SeqShrinks run) {s : State} (hi : Inv s)
    {op : Op} {r : State × Outcome} (h : stepWith run s op = some r) : Inv r.1 := by
  unfold stepWith at h
  cases op with
  | add d cb eb =>
    simp only at h
    split at h
    · simp at h; subst h; exact hi
    · rename_i cell hcell
      split at h
      · exact finish_inv hrun (add_inv hi d cell cb eb hcell) h
      · simp at h; subst h; exact add_inv hi d cell cb eb hcell
  | pause d =>
    simp only at h
    split at h
    · simp at h; subst h; exact hi
    · rename_i cell hcell
      simp at h; subst h
      exact set_same_inv hi d cell _ hcell rfl
  | unpause d =>
    simp only at h
    split at h
    · simp at h; subst h; exact hi
    · rename_i cell hcell
      split at h
      · simp at h; subst h; exact set_same_inv hi d cell _ hcell rfl
      · split at h
        · exact finish_inv hrun (set_same_inv hi d cell { cell with paused := cell.paused - 1 } hcell rfl) h
        · simp at h; subst h; exact set_same_inv hi d cell _ hcell rfl
  | callback d n =>
    simp only at h
    split at h
    · simp at h; subst h; exact hi
    · rename_i cell hcell
      split at h
      · simp at h; subst h; exact hi
      · exact finish_inv hrun (set_same_inv hi d cell { cell with called := true, result := .ok n } hcell rfl) h
  | errback d e =>
    simp only at h
    split at h
    · simp at h; subst h; exact hi
    · rename_i cell hcell
      split at h
      · simp at h; subst h; exact hi
      · exact finish_inv hrun (set_same_inv hi d cell { cell with called := true, result := .fail e } hcell rfl) h

theorem execWith_inv {run : Heap → Nat → Option Heap} (hrun : SeqShrinks run) {s s' : State} (hi : Inv s)
    {ops : List Op} (h : execWith run s ops = some s') : Inv s' := by
  induction ops generalizing s with
  | nil => simp [execWith] at h; subst h; exact hi
  | cons op ops ih =>
    simp only [execWith] at h
    split at h
    · simp at h
    · rename_i s1 o hs
      exact ih (stepWith_inv hrun hi (r := (s1, o)) hs) h

theorem init_inv (n : Nat) : Inv (init n) := by
  have hseq : ∀ d, seqOf (init n).cells (init n).trace d = [] := by
    intro d
    simp only [seqOf, traceTags, init, cellTags]
    split
    · simp
    · rename_i c hc
      simp [List.getElem?_replicate] at hc
      obtain ⟨_, hc⟩ := hc
      subst hc
      simp [itemTags]
  constructor
  · intro d; rw [hseq]; exact List.Pairwise.nil
  · intro d d' _ t ht; rw [hseq] at ht; simp at ht
  · intro d t ht; rw [hseq] at ht; simp at ht

/-! from the invariant to statements about the trace alone -/

theorem mem_traceTags {tr : List Entry} {d t : Nat} : t ∈ traceTags tr d ↔ ∃ e ∈ tr, e.d = d ∧ e.tag = t := by
  simp [traceTags]
  constructor
  · rintro ⟨e, ⟨he, hd⟩, ht⟩; exact ⟨e, he, hd, ht⟩
  · rintro ⟨e, he, hd, ht⟩; exact ⟨e, ⟨he, hd⟩, ht⟩

theorem traceTags_cons (e : Entry) (r : List Entry) (d : Nat) :
    traceTags (e :: r) d = if e.d = d then e.tag :: traceTags r d else traceTags r d := by
  unfold traceTags
  by_cases h : e.d = d <;> simp [List.filter_cons, h]

theorem nodup_of_perDeferred (tr : List Entry)
    (h1 : ∀ d, (traceTags tr d).Pairwise (· < ·))
    (h2 : ∀ d d', d ≠ d' → ∀ t, t ∈ traceTags tr d → t ∉ traceTags tr d') :
    (tr.map (·.tag)).Nodup := by
  induction tr with
  | nil => simp
  | cons e r ih =>
    have hsub : ∀ d, (traceTags r d).Sublist (traceTags (e :: r) d) := by
      intro d; rw [traceTags_cons]; split
      · exact List.sublist_cons_self _ _
      · exact List.Sublist.refl _
    simp only [List.map_cons, List.nodup_cons]
    refine ⟨?_, ih (fun d => (h1 d).sublist (hsub d))
      (fun d d' hne t ht ht' => h2 d d' hne t ((hsub d).subset ht) ((hsub d').subset ht'))⟩
    intro hmem
    simp only [List.mem_map] at hmem
    obtain ⟨e', he', htag⟩ := hmem
    by_cases hd : e'.d = e.d
    · have hp := h1 e.d
      rw [traceTags_cons, if_pos rfl, List.pairwise_cons] at hp
      have : e'.tag ∈ traceTags r e.d := mem_traceTags.2 ⟨e', he', hd, rfl⟩
      have := hp.1 _ this
      omega
    · have ha : e.tag ∈ traceTags (e :: r) e.d := mem_traceTags.2 ⟨e, by simp, rfl, rfl⟩
      have hb : e.tag ∈ traceTags (e :: r) e'.d := mem_traceTags.2 ⟨e', by simp [he'], rfl, htag⟩
      exact h2 e.d e'.d (fun h => hd h.symm) _ ha hb

end TwistedProps.C01
