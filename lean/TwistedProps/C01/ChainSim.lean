import TwistedProps.C01.ChainDefs
/-!
C01, chaining programs: the recursive reference interpreter against the chain-stack walk (heap level).
-/
namespace TwistedProps.C01
open Twisted.Defer.Core
open Twisted.Defer (Spec.run Spec.specRun Spec.fuelFor)

/-! ### small facts about `loop` -/

theorem loop_measure_le (c : Conf) : (loop c).measure ≤ c.measure := by
  induction c using loop.induct with
  | case1 c h => rw [loop]; split <;> simp_all
  | case2 c c' h ih =>
    rw [loop_step h]
    have := stepConf_decreases h
    omega

theorem loop_chain_nil (c : Conf) : (loop c).chain = [] := by
  induction c using loop.induct with
  | case1 c h =>
    have hl : loop c = c := by rw [loop]; split <;> simp_all
    rw [hl]
    unfold stepConf at h
    split at h
    · assumption
    · split at h
      · simp at h
      · split at h
        · simp at h
        · split at h <;> simp at h
  | case2 c c' h ih => rw [loop_step h]; exact ih

theorem pending_loop_le (cells : List Cell) (tr : List Entry) (x : Nat) :
    pending (loop { cells := cells, trace := tr, chain := [x] }).cells ≤ pending cells := by
  have h1 := loop_measure_le { cells := cells, trace := tr, chain := [x] }
  have h2 := loop_chain_nil { cells := cells, trace := tr, chain := [x] }
  simp only [Conf.measure, h2, List.length_nil, List.length_cons] at h1
  omega

/-! ### a Deferred that was stolen from stays quiet -/

def NoCont (j : Nat) (cells : List Cell) : Prop := ∀ (x : Nat) (cx : Cell), cells[x]? = some cx → Item.cont j ∉ cx.callbacks

theorem NoCont.set {j : Nat} {cells : List Cell} (h : NoCont j cells) (i : Nat) (c0 c' : Cell)
    (h0 : cells[i]? = some c0) (hc : Item.cont j ∉ c'.callbacks) : NoCont j (cells.set i c') := by
  intro x cx hx
  rw [getElem?_set' _ _ _ _ _ h0] at hx
  split at hx
  · simp at hx; subst hx; exact hc
  · exact h x cx hx

theorem NoCont.modify {j : Nat} {cells : List Cell} (h : NoCont j cells) (i : Nat) (f : Cell → Cell)
    (hf : ∀ c, Item.cont j ∉ c.callbacks → Item.cont j ∉ (f c).callbacks) : NoCont j (modify cells i f) := by
  intro x cx hx
  rw [getElem?_modify] at hx
  split at hx
  · cases hc : cells[x]? with
    | none => simp [hc] at hx
    | some c0 => simp [hc] at hx; subst hx; exact hf c0 (h x c0 hc)
  · exact h x cx hx

/-- Deferred `j` is fired, not paused, holds a plain result, has no callbacks, is not on the chain stack and nobody
    holds a continuation for it -/
def Quiet (j : Nat) (c : Conf) : Prop :=
  (∃ cj, c.cells[j]? = some cj ∧ mustWait cj = false) ∧ j ∉ c.chain ∧ NoCont j c.cells

theorem mustWait_setResult_none (cj : Cell) (h : mustWait cj = false) : mustWait (setResult .pyNone cj) = false := by
  simp only [mustWait, setResult, Bool.or_eq_false_iff] at h ⊢
  refine ⟨⟨⟨by decide, by simp [Val.isDref]⟩, h.1.2⟩, h.2⟩

theorem afterCall_quiet (j : Nat) (cells1 : List Cell) (tr : List Entry) (cur : Nat) (below : List Nat) (out : Val)
    (hcur : j ≠ cur) (hb : j ∉ below) (hj : ∃ cj, cells1[j]? = some cj ∧ mustWait cj = false) (hn : NoCont j cells1) :
    Quiet j (afterCall cells1 tr cur below out) := by
  obtain ⟨cj, hcj, hmw⟩ := hj
  unfold afterCall
  split
  · rename_i j'
    split
    · refine ⟨⟨cj, ?_, hmw⟩, hb, hn.modify cur pauseCell (fun c h => h)⟩
      simp only; rw [getElem?_modify, if_neg hcur]; exact hcj
    · rename_i cj' hcj'
      split
      · rename_i hw
        have hjj : j ≠ j' := by
          intro he; subst he; rw [hcj] at hcj'; cases hcj'; rw [hmw] at hw; simp at hw
        refine ⟨⟨cj, ?_, hmw⟩, hb, ?_⟩
        · simp only; rw [getElem?_modify, if_neg hjj, getElem?_modify, if_neg hcur]; exact hcj
        · show NoCont j (Twisted.Defer.Core.modify (Twisted.Defer.Core.modify cells1 cur pauseCell) j' (appendCont cur))
          apply NoCont.modify (hn.modify cur pauseCell (fun c h => h))
          intro c hc
          simp only [appendCont, List.mem_append, List.mem_singleton, Item.cont.injEq, not_or]
          exact ⟨hc, hcur⟩
      · refine ⟨?_, by simp [hcur, hb], ?_⟩
        · by_cases hjj : j = j'
          · subst hjj
            rw [hcj] at hcj'; cases hcj'
            refine ⟨setResult .pyNone cj, ?_, mustWait_setResult_none cj hmw⟩
            simp only; rw [getElem?_modify, if_neg hcur, getElem?_set' _ _ _ _ _ hcj, if_pos rfl]
          · refine ⟨cj, ?_, hmw⟩
            simp only; rw [getElem?_modify, if_neg hcur, getElem?_set' _ _ _ _ _ hcj', if_neg hjj]; exact hcj
        · exact (hn.set j' cj' (setResult .pyNone cj') hcj' (hn j' cj' hcj')).modify cur (setResult cj'.result) (fun c h => h)
  · exact ⟨⟨cj, hcj, hmw⟩, by simp [hcur, hb], hn⟩

theorem stepConf_quiet {j : Nat} {c c' : Conf} (hq : Quiet j c) (h : stepConf c = some c') : Quiet j c' := by
  obtain ⟨⟨cj, hcj, hmw⟩, hch, hn⟩ := hq
  unfold stepConf at h
  split at h
  · simp at h
  · rename_i cur below hchain
    rw [hchain] at hch
    have hcur : j ≠ cur := fun he => hch (by simp [he])
    have hb : j ∉ below := fun hm => hch (List.mem_cons_of_mem _ hm)
    have hpop : Quiet j { c with chain := below } := ⟨⟨cj, hcj, hmw⟩, hb, hn⟩
    split at h
    · simp at h; subst h; exact hpop
    · rename_i cell hcell
      split at h
      · simp at h; subst h; exact hpop
      · split at h
        · simp at h; subst h; exact hpop
        · rename_i item rest hcbs
          simp at h; subst h
          have hrest : Item.cont j ∉ rest := fun hm => hn cur cell hcell (by simp [hcbs, hm])
          unfold runItem
          split
          · rename_i chainee
            have hce : j ≠ chainee := by
              intro he; subst he; exact hn cur cell hcell (by simp [hcbs])
            refine ⟨⟨cj, ?_, hmw⟩, by simp [hcur, hce, hb], ?_⟩
            · simp only
              rw [getElem?_modify, if_neg hcur, getElem?_modify, if_neg hce, getElem?_set' _ _ _ _ _ hcell,
                if_neg hcur]
              exact hcj
            · exact ((hn.set cur cell { cell with callbacks := rest } hcell hrest).modify chainee (handOver cell.result)
                (fun c h => h)).modify cur (setResult .pyNone) (fun c h => h)
          · rename_i tag cb eb
            apply afterCall_quiet j _ _ cur below _ hcur hb
            · exact ⟨cj, by rw [getElem?_set' _ _ _ _ _ hcell, if_neg hcur]; exact hcj, hmw⟩
            · exact hn.set cur cell { cell with callbacks := rest, result := slotOut (pick cell.result cb eb) cell.result }
                hcell hrest

theorem loop_quiet {j : Nat} (c : Conf) (hq : Quiet j c) : Quiet j (loop c) := by
  induction c using loop.induct with
  | case1 c h => rw [loop]; split <;> simp_all
  | case2 c c' h ih => rw [loop_step h]; exact ih (stepConf_quiet hq h)

end TwistedProps.C01
