import TwistedModel.Defer.Core
/-!
C01, lemmas for "at most once" and "in added order": the sequence
`(tags already run on d) ++ (tags still pending on d)` only ever loses elements while `_runCallbacks` walks, and
gains a fresh largest tag at the end when the program adds a pair.
-/
namespace TwistedProps.C01
open Twisted.Defer.Core

/-- tags of the program-added pairs among pending items (continuations carry no tag) -/
def itemTags : List Item → List Nat
  | [] => []
  | .pair t _ _ :: r => t :: itemTags r
  | .cont _ :: r => itemTags r

/-- tags of the callables already invoked for Deferred `d`, in invocation order -/
def traceTags (tr : List Entry) (d : Nat) : List Nat := (tr.filter (fun e => e.d == d)).map (·.tag)

/-- tags still pending on Deferred `d` -/
def cellTags (cells : List Cell) (d : Nat) : List Nat :=
  match cells[d]? with
  | none => []
  | some c => itemTags c.callbacks

def seqOf (cells : List Cell) (tr : List Entry) (d : Nat) : List Nat := traceTags tr d ++ cellTags cells d

theorem itemTags_append (a b : List Item) : itemTags (a ++ b) = itemTags a ++ itemTags b := by
  induction a with
  | nil => rfl
  | cons x xs ih => cases x <;> simp [itemTags, ih]

theorem getElem?_lt {α} {l : List α} {i : Nat} {c : α} (h : l[i]? = some c) : i < l.length := by
  rcases Nat.lt_or_ge i l.length with hlt | hge
  · exact hlt
  · simp [List.getElem?_eq_none hge] at h

theorem cellTags_set (cells : List Cell) (i d : Nat) (c c' : Cell) (h : cells[i]? = some c) :
    cellTags (cells.set i c') d = if d = i then itemTags c'.callbacks else cellTags cells d := by
  have hi := getElem?_lt h
  unfold cellTags
  by_cases hd : d = i
  · subst hd; simp [hi]
  · simp [hd, Ne.symm hd]

theorem cellTags_modify_same (cells : List Cell) (i d : Nat) (f : Cell → Cell)
    (hf : ∀ c, itemTags (f c).callbacks = itemTags c.callbacks) :
    cellTags (modify cells i f) d = cellTags cells d := by
  unfold Twisted.Defer.Core.modify
  cases h : cells[i]? with
  | none => rfl
  | some c =>
    simp only
    rw [cellTags_set _ _ _ _ _ h]
    split
    · rename_i hd; subst hd; simp [cellTags, h, hf]
    · rfl

theorem afterCall_trace (cells1 : List Cell) (tr : List Entry) (cur : Nat) (below : List Nat) (out : Val) :
    (afterCall cells1 tr cur below out).trace = tr := by
  unfold afterCall
  split
  · split
    · rfl
    · split <;> rfl
  · rfl

theorem afterCall_cellTags (cells1 : List Cell) (tr : List Entry) (cur : Nat) (below : List Nat) (out : Val) (d : Nat) :
    cellTags (afterCall cells1 tr cur below out).cells d = cellTags cells1 d := by
  unfold afterCall
  split
  · split
    · exact cellTags_modify_same _ _ _ _ (by intro; rfl)
    · rename_i j cj hcj
      split
      · simp only
        rw [cellTags_modify_same _ _ _ _ (by intro c; simp [appendCont, itemTags_append, itemTags])]
        exact cellTags_modify_same _ _ _ _ (by intro; rfl)
      · simp only
        rw [cellTags_modify_same _ _ _ _ (by intro; rfl)]
        rw [cellTags_set _ _ _ _ _ hcj]
        split
        · rename_i hd; subst hd; simp [cellTags, hcj, setResult]
        · rfl
  · rfl

theorem traceTags_append (tr : List Entry) (e : Entry) (d : Nat) :
    traceTags (tr ++ [e]) d = if e.d = d then traceTags tr d ++ [e.tag] else traceTags tr d := by
  unfold traceTags
  by_cases h : e.d = d
  · simp [List.filter_append, h]
  · simp [List.filter_append, h]

/-- one `callbacks.pop(0)`: for every Deferred the run++pending sequence stays the same or loses the popped tag -/
theorem runItem_seq (c : Conf) (cur : Nat) (below : List Nat) (cell : Cell) (item : Item) (rest : List Item)
    (hcell : c.cells[cur]? = some cell) (hcbs : cell.callbacks = item :: rest) (d : Nat) :
    (seqOf (runItem c cur below cell item rest).cells (runItem c cur below cell item rest).trace d).Sublist
      (seqOf c.cells c.trace d) := by
  have hcur : cellTags c.cells cur = itemTags (item :: rest) := by simp [cellTags, hcell, hcbs]
  unfold runItem
  split
  · -- continuation
    rename_i chainee
    simp only [seqOf]
    rw [cellTags_modify_same _ _ _ _ (by intro; rfl), cellTags_modify_same _ _ _ _ (by intro; rfl),
      cellTags_set _ _ _ _ _ hcell]
    split
    · rename_i hd; subst hd; rw [hcur]; simp [itemTags]
    · exact List.Sublist.refl _
  · rename_i tag cb eb
    simp only [seqOf, afterCall_trace, afterCall_cellTags]
    rw [cellTags_set _ _ _ _ _ hcell]
    cases hs : pick cell.result cb eb with
    | passthru =>
      simp only [slotTrace]
      split
      · rename_i hd; subst hd; rw [hcur]
        simp only [itemTags]
        exact List.Sublist.append_left (List.sublist_cons_self _ _) _
      · exact List.Sublist.refl _
    | user b =>
      simp only [slotTrace, traceTags_append]
      split
      · rename_i hd; subst hd; rw [hcur]
        simp [itemTags]
      · rename_i hd
        rw [if_neg (fun h => hd h.symm)]
        exact List.Sublist.refl _

theorem stepConf_seq {c c' : Conf} (h : stepConf c = some c') (d : Nat) :
    (seqOf c'.cells c'.trace d).Sublist (seqOf c.cells c.trace d) := by
  unfold stepConf at h
  split at h
  · simp at h
  · rename_i cur below hchain
    split at h
    · simp at h; subst h; exact List.Sublist.refl _
    · rename_i cell hcell
      split at h
      · simp at h; subst h; exact List.Sublist.refl _
      · split at h
        · simp at h; subst h; exact List.Sublist.refl _
        · rename_i item rest hcbs
          simp at h; subst h
          exact runItem_seq c cur below cell item rest hcell hcbs d

theorem loop_seq (c : Conf) (d : Nat) :
    (seqOf (loop c).cells (loop c).trace d).Sublist (seqOf c.cells c.trace d) := by
  induction c using loop.induct with
  | case1 c h => rw [loop]; split <;> simp_all
  | case2 c c' h ih =>
    rw [loop]; split
    · simp_all
    · rename_i c'' h2
      rw [h] at h2; cases h2
      exact List.Sublist.trans ih (stepConf_seq h d)

end TwistedProps.C01
