import TwistedModel.Defer.Spec
import TwistedProps.C01.Leaf
/-!
C01, refinement lemmas: the chain-stack walk against the recursive reference interpreter.
-/
namespace TwistedProps.C01
open Twisted.Defer.Core
open Twisted.Defer (Spec.run Spec.specRun Spec.fuelFor)

/-- a cell of a heap in which nothing chains: pairs of callables that return no Deferred, a non-Deferred result -/
def cellPlain (c : Cell) : Prop := (∀ it ∈ c.callbacks, itemPlain it) ∧ c.result.isDref = false

def Plain (cells : List Cell) : Prop := ∀ (k : Nat) (c : Cell), cells[k]? = some c → cellPlain c

theorem afterCall_nondref (cells1 : List Cell) (tr : List Entry) (cur : Nat) (below : List Nat) (out : Val)
    (h : out.isDref = false) :
    afterCall cells1 tr cur below out = { cells := cells1, trace := tr, chain := cur :: below } := by
  unfold afterCall
  cases out <;> simp_all [Val.isDref]

theorem loop_nil (cells : List Cell) (tr : List Entry) :
    loop { cells := cells, trace := tr, chain := [] } = { cells := cells, trace := tr, chain := [] } := by
  rw [loop]; split
  · rfl
  · rename_i c' h; simp [stepConf] at h

theorem loop_step {c c' : Conf} (h : stepConf c = some c') : loop c = loop c' := by
  rw [loop]; split
  · rename_i h2; rw [h] at h2; simp at h2
  · rename_i c'' h2; rw [h] at h2; cases h2; rfl

theorem Plain.set {cells : List Cell} (hp : Plain cells) (i : Nat) (c0 c' : Cell) (h : cells[i]? = some c0)
    (hc : cellPlain c') : Plain (cells.set i c') := by
  intro k c hk
  rw [getElem?_set' _ _ _ _ _ h] at hk
  split at hk
  · simp at hk; subst hk; exact hc
  · exact hp k c hk

/-- On a heap in which nothing chains, the recursive interpreter and the chain-stack walk do the same thing. -/
theorem spec_eq_loop_plain : ∀ (fuel : Nat) (cells : List Cell) (tr : List Entry) (d : Nat), Plain cells →
    (match cells[d]? with | some c => c.callbacks.length | none => 0) < fuel →
    Spec.run fuel [] (cells, tr) d =
      some ((loop { cells := cells, trace := tr, chain := [d] }).cells,
            (loop { cells := cells, trace := tr, chain := [d] }).trace) ∧
    Plain (loop { cells := cells, trace := tr, chain := [d] }).cells := by
  intro fuel
  induction fuel with
  | zero => intro cells tr d _ hf; omega
  | succ fuel ih =>
    intro cells tr d hp hf
    rw [Spec.run]
    simp only [List.contains_nil, Bool.false_eq_true, if_false]
    cases hcell : cells[d]? with
    | none =>
      have hs : stepConf { cells := cells, trace := tr, chain := [d] } = some { cells := cells, trace := tr, chain := [] } := by
        simp [stepConf, hcell]
      rw [loop_step hs, loop_nil]
      exact ⟨rfl, hp⟩
    | some cell =>
      simp only
      by_cases hpz : cell.paused ≠ 0
      · have hs : stepConf { cells := cells, trace := tr, chain := [d] } = some { cells := cells, trace := tr, chain := [] } := by
          simp [stepConf, hcell, hpz]
        rw [loop_step hs, loop_nil, if_pos hpz]
        exact ⟨rfl, hp⟩
      · rw [if_neg hpz]
        cases hcbs : cell.callbacks with
        | nil =>
          have hs : stepConf { cells := cells, trace := tr, chain := [d] } = some { cells := cells, trace := tr, chain := [] } := by
            simp [stepConf, hcell, hpz, hcbs]
          rw [loop_step hs, loop_nil]
          exact ⟨rfl, hp⟩
        | cons item rest =>
          have hpc := hp d cell hcell
          have hit : itemPlain item := hpc.1 item (by simp [hcbs])
          cases item with
          | cont c => exact absurd hit (by simp [itemPlain])
          | pair tag cb eb =>
            simp only [itemPlain] at hit
            have hout : (slotOut (pick cell.result cb eb) cell.result).isDref = false :=
              slotOut_plain _ cb eb hit.1 hit.2 hpc.2
            have hs : stepConf { cells := cells, trace := tr, chain := [d] } =
                some { cells := cells.set d { cell with callbacks := rest, result := slotOut (pick cell.result cb eb) cell.result },
                       trace := slotTrace (pick cell.result cb eb) tr d tag cell.result, chain := [d] } := by
              simp [stepConf, hcell, hpz, hcbs, runItem, afterCall_nondref _ _ _ _ _ hout]
            have hp1 : Plain (cells.set d { cell with callbacks := rest, result := slotOut (pick cell.result cb eb) cell.result }) :=
              hp.set d cell _ hcell ⟨fun it hi => hpc.1 it (by simp [hcbs, hi]), hout⟩
            have hf1 : (match (cells.set d { cell with callbacks := rest, result := slotOut (pick cell.result cb eb) cell.result })[d]? with
                | some c => c.callbacks.length | none => 0) < fuel := by
              rw [getElem?_set' _ _ _ _ _ hcell, if_pos rfl]
              simp only
              rw [hcell] at hf
              simp only [hcbs, List.length_cons] at hf
              omega
            have := ih _ (slotTrace (pick cell.result cb eb) tr d tag cell.result) d hp1 hf1
            rw [loop_step hs]
            refine ⟨?_, this.2⟩
            rw [← this.1]
            simp only
            cases hv : slotOut (pick cell.result cb eb) cell.result with
            | dref j => rw [hv] at hout; simp [Val.isDref] at hout
            | unset => rfl
            | pyNone => rfl
            | ok n => rfl
            | fail e => rfl


theorem length_le_pending : ∀ (cells : List Cell) (d : Nat) (c : Cell), cells[d]? = some c →
    c.callbacks.length ≤ pending cells := by
  intro cells
  induction cells with
  | nil => intro d c h; simp at h
  | cons x xs ih =>
    intro d c h
    cases d with
    | zero => simp at h; subst h; simp [pending]
    | succ k =>
      simp at h
      have := ih k c h
      simp only [pending]; omega

/-- on a heap in which nothing chains, the executable reference interpreter (with its own fuel) answers exactly
    what the chain-stack implementation answers -/
theorem specRun_eq_coreRun (h : Heap) (d : Nat) (hp : Plain h.1) :
    Spec.specRun h d = coreRun h d ∧ ∀ h', coreRun h d = some h' → Plain h'.1 := by
  have hf : (match h.1[d]? with | some c => c.callbacks.length | none => 0) < Spec.fuelFor h := by
    unfold Spec.fuelFor
    cases hc : h.1[d]? with
    | none => simp only; omega
    | some c =>
      simp only
      have := length_le_pending h.1 d c hc
      omega
  have := spec_eq_loop_plain (Spec.fuelFor h) h.1 h.2 d hp hf
  constructor
  · simp only [Spec.specRun, coreRun, runCallbacks_eq_loop]
    exact this.1
  · intro h' hh
    simp only [coreRun, runCallbacks_eq_loop, Option.some.injEq] at hh
    subst hh
    exact this.2

/-- the operation installs no callable that returns a Deferred -/
def opPlain : Op → Bool
  | .add _ cb eb => !cb.returnsDeferred && !eb.returnsDeferred
  | _ => true

/-- the program never chains Deferreds (decidable, static) -/
def noChaining (prog : List Op) : Bool := prog.all opPlain

theorem finish_plain {s' : State} {d : Nat} (hp : Plain s'.cells) :
    (Spec.specRun (s'.cells, s'.trace) d).map
        (fun h => (({ s' with cells := h.1, trace := h.2 } : State), Outcome.ok)) =
      (coreRun (s'.cells, s'.trace) d).map
        (fun h => (({ s' with cells := h.1, trace := h.2 } : State), Outcome.ok)) ∧
    ∀ r, (coreRun (s'.cells, s'.trace) d).map
        (fun h => (({ s' with cells := h.1, trace := h.2 } : State), Outcome.ok)) = some r → Plain r.1.cells := by
  have := specRun_eq_coreRun (s'.cells, s'.trace) d hp
  refine ⟨by rw [this.1], ?_⟩
  intro r hr
  cases hc : coreRun (s'.cells, s'.trace) d with
  | none => simp [hc] at hr
  | some h' =>
    simp [hc] at hr
    subst hr
    exact this.2 h' hc

/-- one operation of a non-chaining program: both interpreters take the same step, and nothing starts to chain -/
theorem stepWith_plain {s : State} (hp : Plain s.cells) {op : Op} (hop : opPlain op = true) :
    stepWith Spec.specRun s op = stepWith coreRun s op ∧
    ∀ r, stepWith coreRun s op = some r → Plain r.1.cells := by
  unfold stepWith
  cases op with
  | add x cb eb =>
    simp only
    cases hcell : s.cells[x]? with
    | none => exact ⟨by first | rfl | trivial, fun r hr => by simp at hr; subst hr; exact hp⟩
    | some cell =>
      simp only [opPlain, Bool.and_eq_true, Bool.not_eq_true'] at hop
      have hpc := hp x cell hcell
      have hp1 : Plain (s.cells.set x { cell with callbacks := cell.callbacks ++ [.pair s.nadds cb eb] }) := by
        apply hp.set x cell _ hcell
        refine ⟨?_, hpc.2⟩
        intro it hit
        simp only [List.mem_append, List.mem_singleton] at hit
        rcases hit with hit | hit
        · exact hpc.1 it hit
        · subst hit; exact hop
      simp only
      split
      · exact finish_plain (s' := { s with cells := _, nadds := s.nadds + 1 }) hp1
      · exact ⟨by first | rfl | trivial, fun r hr => by simp at hr; subst hr; exact hp1⟩
  | pause x =>
    simp only
    cases hcell : s.cells[x]? with
    | none => exact ⟨by first | rfl | trivial, fun r hr => by simp at hr; subst hr; exact hp⟩
    | some cell =>
      refine ⟨by first | rfl | trivial, fun r hr => ?_⟩
      simp at hr; subst hr
      exact hp.set x cell _ hcell (hp x cell hcell)
  | unpause x =>
    simp only
    cases hcell : s.cells[x]? with
    | none => exact ⟨by first | rfl | trivial, fun r hr => by simp at hr; subst hr; exact hp⟩
    | some cell =>
      have hp1 : Plain (s.cells.set x { cell with paused := cell.paused - 1 }) :=
        hp.set x cell _ hcell (hp x cell hcell)
      simp only
      split
      · exact ⟨by first | rfl | trivial, fun r hr => by simp at hr; subst hr; exact hp1⟩
      · split
        · exact finish_plain (s' := { s with cells := _ }) hp1
        · exact ⟨by first | rfl | trivial, fun r hr => by simp at hr; subst hr; exact hp1⟩
  | callback x n =>
    simp only
    cases hcell : s.cells[x]? with
    | none => exact ⟨by first | rfl | trivial, fun r hr => by simp at hr; subst hr; exact hp⟩
    | some cell =>
      simp only
      split
      · exact ⟨by first | rfl | trivial, fun r hr => by simp at hr; subst hr; exact hp⟩
      · exact finish_plain (s' := { s with cells := _ })
          (hp.set x cell _ hcell ⟨(hp x cell hcell).1, by simp [Val.isDref]⟩)
  | errback x e =>
    simp only
    cases hcell : s.cells[x]? with
    | none => exact ⟨by first | rfl | trivial, fun r hr => by simp at hr; subst hr; exact hp⟩
    | some cell =>
      simp only
      split
      · exact ⟨by first | rfl | trivial, fun r hr => by simp at hr; subst hr; exact hp⟩
      · exact finish_plain (s' := { s with cells := _ })
          (hp.set x cell _ hcell ⟨(hp x cell hcell).1, by simp [Val.isDref]⟩)

theorem traceWith_plain {s : State} (hp : Plain s.cells) {ops : List Op} (hops : ∀ op ∈ ops, opPlain op = true) :
    traceWith Spec.specRun s ops = traceWith coreRun s ops := by
  induction ops generalizing s with
  | nil => rfl
  | cons op ops ih =>
    have h1 := stepWith_plain hp (hops op (by simp))
    simp only [traceWith, h1.1]
    cases hs : stepWith coreRun s op with
    | none => rfl
    | some r =>
      obtain ⟨s1, o⟩ := r
      simp only
      rw [ih (h1.2 (s1, o) hs) (fun op' h' => hops op' (by simp [h']))]

theorem init_plain (n : Nat) : Plain (init n).cells := by
  intro k c hc
  simp [init, List.getElem?_replicate] at hc
  rw [← hc.2]
  exact ⟨by simp, by simp [Val.isDref]⟩


/-! ### the chain stack is a call stack -/

theorem afterCall_chain_append (cells1 : List Cell) (tr : List Entry) (cur : Nat) (below ext : List Nat) (out : Val) :
    afterCall cells1 tr cur (below ++ ext) out =
      { afterCall cells1 tr cur below out with chain := (afterCall cells1 tr cur below out).chain ++ ext } := by
  unfold afterCall
  split
  · split
    · rfl
    · split <;> rfl
  · rfl

theorem runItem_chain_append (c : Conf) (cur : Nat) (below ext : List Nat) (cell : Cell) (item : Item)
    (rest : List Item) (ch : List Nat) :
    runItem { c with chain := ch } cur (below ++ ext) cell item rest =
      { runItem c cur below cell item rest with chain := (runItem c cur below cell item rest).chain ++ ext } := by
  unfold runItem
  split
  · rfl
  · simp only [afterCall_chain_append]

/-- what `_runCallbacks` does depends only on the top of the chain stack: entries below are inert -/
theorem stepConf_chain_append {c c' : Conf} (h : stepConf c = some c') (ext : List Nat) :
    stepConf { c with chain := c.chain ++ ext } = some { c' with chain := c'.chain ++ ext } := by
  unfold stepConf at h ⊢
  split at h
  · simp at h
  · rename_i cur below hchain
    simp only [hchain, List.cons_append]
    split at h
    · rename_i hcell
      try simp only [hcell]
      simp at h; subst h; rfl
    · rename_i cell hcell
      try simp only [hcell]
      split at h
      · rename_i hp
        try rw [if_pos hp]
        simp at h; subst h; rfl
      · rename_i hp
        try rw [if_neg hp]
        split at h
        · rename_i hcbs
          try simp only [hcbs]
          simp at h; subst h; rfl
        · rename_i item rest hcbs
          try simp only [hcbs]
          simp at h; subst h
          rw [runItem_chain_append]

/-- **The chain stack is a call stack**: walking a stack `top ++ below` is walking `top` to completion and then
    walking `below` on the resulting heap — the iterative loop computes what the nested recursive calls compute. -/
theorem loop_chain_append (c : Conf) (ext : List Nat) :
    loop { c with chain := c.chain ++ ext } = loop { loop c with chain := ext } := by
  induction c using loop.induct with
  | case1 c h =>
    have hnil : c.chain = [] := by
      unfold stepConf at h
      split at h
      · assumption
      · split at h
        · simp at h
        · split at h
          · simp at h
          · split at h <;> simp at h
    have hl : loop c = c := by rw [loop]; split <;> simp_all
    rw [hl, hnil]; rfl
  | case2 c c' h ih =>
    rw [loop_step (stepConf_chain_append h ext), loop_step h]
    exact ih

end TwistedProps.C01
