import TwistedModel.Defer.Spec
import TwistedProps.C01.Refine
/-!
C01, chaining programs: definitions for the refinement of the recursive reference interpreter by the chain-stack
walk on heaps in which Deferreds wait for one another.

* `GoodHeap up cells` — the heap invariants of a program inside the statement's domain (`up k` = the number of
  user `pause()` calls on Deferred `k` not yet undone by `unpause()`; ghost):
  `called ↔ result set`; a pending continuation `cont c` belongs to a fired Deferred `c`;
  `paused ≥ user pauses + outstanding continuations`; a Deferred that holds a Deferred is paused;
  no callable returns the Deferred it is attached to.
* `Idle`, `TailUnpaused` — the chain stack is the call stack of the recursion: a fired, unpaused Deferred with a plain
  result that still has callbacks is ON the stack (its loop is running); the Deferreds below the top are not paused.
-/
namespace TwistedProps.C01
open Twisted.Defer.Core

/-- occurrences of `cont c` in a callbacks list -/
def contCount (c : Nat) : List Item → Nat
  | [] => 0
  | .cont c' :: r => (if c' = c then 1 else 0) + contCount c r
  | .pair _ _ _ :: r => contCount c r

/-- continuations of Deferred `c` outstanding anywhere in the heap -/
def heapCount (c : Nat) : List Cell → Nat
  | [] => 0
  | x :: xs => contCount c x.callbacks + heapCount c xs

/-- the item is not a callable returning the Deferred `x` it is attached to -/
def itemNoSelf (x : Nat) : Item → Prop
  | .pair _ cb eb => cb ≠ .user (.retDef x) ∧ eb ≠ .user (.retDef x)
  | .cont _ => True

structure GoodHeap (up : Nat → Int) (cells : List Cell) : Prop where
  upNonneg : ∀ k, 0 ≤ up k
  calledIff : ∀ (k : Nat) (ck : Cell), cells[k]? = some ck → (ck.called = true ↔ ck.result ≠ Val.unset)
  contCalled : ∀ (x : Nat) (cx : Cell) (c : Nat), cells[x]? = some cx → Item.cont c ∈ cx.callbacks → ∃ cc, cells[c]? = some cc ∧ cc.called = true
  pausedGe : ∀ (k : Nat) (ck : Cell), cells[k]? = some ck → up k + (heapCount k cells : Int) ≤ ck.paused
  drefPaused : ∀ (k : Nat) (ck : Cell), cells[k]? = some ck → ck.result.isDref = true → up k + 1 ≤ ck.paused
  noSelf : ∀ (x : Nat) (cx : Cell), cells[x]? = some cx → ∀ it ∈ cx.callbacks, itemNoSelf x it

/-- every Deferred on the chain stack has fired -/
def ChainCalled (cells : List Cell) (chain : List Nat) : Prop :=
  ∀ x ∈ chain, ∀ cx : Cell, cells[x]? = some cx → cx.called = true

def Good (up : Nat → Int) (c : Conf) : Prop := GoodHeap up c.cells ∧ ChainCalled c.cells c.chain

/-- a fired Deferred that is not paused and holds a plain result has no callbacks left — unless it is on the chain
    stack (its loop is running) -/
def Idle (c : Conf) : Prop :=
  ∀ (k : Nat) (ck : Cell), c.cells[k]? = some ck → k ∉ c.chain → ck.called = true → ck.paused = 0 →
    ck.result.isDref = false → ck.callbacks = []

/-- the Deferreds below the top of the chain stack are in the middle of their loop: not paused -/
def TailUnpaused (c : Conf) : Prop :=
  ∀ x ∈ c.chain.tail, ∀ cx : Cell, c.cells[x]? = some cx → cx.paused = 0

def Good2 (up : Nat → Int) (c : Conf) : Prop := Good up c ∧ Idle c ∧ TailUnpaused c

/-- between two operations of the program: the heap invariants, and every idle fired Deferred has run all its callbacks -/
def GoodRest (up : Nat → Int) (cells : List Cell) : Prop :=
  GoodHeap up cells ∧ ∀ (k : Nat) (ck : Cell), cells[k]? = some ck → ck.called = true → ck.paused = 0 →
    ck.result.isDref = false → ck.callbacks = []


/-! the static domain of the statement -/

def bump (up : Nat → Int) (d : Nat) (k : Int) : Nat → Int := fun x => if x = d then up x + k else up x

/-- ghost: user pause depth after the operation -/
def upAfter (up : Nat → Int) : Op → (Nat → Int)
  | .pause d => bump up d 1
  | .unpause d => bump up d (-1)
  | _ => up

/-- the operation is inside the statement's domain: an `unpause` undoes an earlier `pause`; an added callable does
    not return the Deferred it is added to -/
def opOK (up : Nat → Int) : Op → Bool
  | .add d cb eb => cb != .user (.retDef d) && eb != .user (.retDef d)
  | .unpause d => decide (1 ≤ up d)
  | _ => true

def domOK (up : Nat → Int) : List Op → Bool
  | [] => true
  | op :: r => opOK up op && domOK (upAfter up op) r

/-- **static exclusions of the statement**: `unpause` never outnumbers `pause` on a Deferred, no callable returns the
    Deferred it is attached to -/
def inDomain (prog : List Op) : Bool := domOK (fun _ => 0) prog

end TwistedProps.C01
