import TwistedProps.C01.ChainIdle
import TwistedProps.C01.ChainRun
/-!
C01, chaining programs, program level: every operation of a program inside the statement's domain preserves the heap
invariant `GoodHeap`, and — as long as the walk it triggers has no mid-chain return — the recursive reference
interpreter and the chain-stack implementation take the same step.  Hence they produce the same history.
-/
namespace TwistedProps.C01
open Twisted.Defer.Core
open Twisted.Defer (Spec.run Spec.specRun Spec.fuelFor)

theorem heapCount_replicate (k n : Nat) : heapCount k (List.replicate n ({} : Cell)) = 0 := by
  induction n with
  | zero => rfl
  | succ m ih => simp [List.replicate_succ, heapCount, contCount, ih]

theorem init_good (n : Nat) : GoodHeap (fun _ => 0) (init n).cells := by
  have hcell : ∀ (k : Nat) (ck : Cell), (init n).cells[k]? = some ck → ck = {} := by
    intro k ck hc
    simp [init, List.getElem?_replicate] at hc
    exact hc.2.symm
  refine ⟨fun _ => Int.le_refl _, ?_, ?_, ?_, ?_, ?_⟩
  · intro k ck hk
    rw [hcell k ck hk]
    simp
  · intro x cx c hx hm
    rw [hcell x cx hx] at hm
    simp at hm
  · intro k ck hk
    rw [hcell k ck hk]
    simp only [init, heapCount_replicate]
    simp
  · intro k ck hk hd
    rw [hcell k ck hk] at hd
    simp [Val.isDref] at hd
  · intro x cx hx it hit
    rw [hcell x cx hx] at hit
    simp at hit

/-! ### changing one cell (and the ghost user pause depth of that cell) -/

theorem GoodHeap.set1 {up up' : Nat → Int} {cells : List Cell} {d : Nat} {cell c' : Cell}
    (hg : GoodHeap up cells) (hcell : cells[d]? = some cell)
    (hcc : ∀ k, contCount k c'.callbacks = contCount k cell.callbacks)
    (hmem : ∀ c, Item.cont c ∈ c'.callbacks → Item.cont c ∈ cell.callbacks)
    (hns : ∀ it ∈ c'.callbacks, itemNoSelf d it)
    (hcalled : cell.called = true → c'.called = true)
    (hiff : c'.called = true ↔ c'.result ≠ Val.unset)
    (hup0 : ∀ k, 0 ≤ up' k)
    (hupne : ∀ k, k ≠ d → up' k = up k)
    (hpaused : cell.paused - up d ≤ c'.paused - up' d)
    (hdref : c'.result.isDref = true → up' d + 1 ≤ c'.paused) :
    GoodHeap up' (cells.set d c') := by
  have hlk : ∀ k, (cells.set d c')[k]? = if k = d then some c' else cells[k]? :=
    fun k => getElem?_set' cells d k cell c' hcell
  have hhc : ∀ k, heapCount k (cells.set d c') = heapCount k cells := by
    intro k
    have := heapCount_set k cells d cell c' hcell
    rw [hcc k] at this
    omega
  refine ⟨hup0, ?_, ?_, ?_, ?_, ?_⟩
  · intro k ck hk
    rw [hlk] at hk
    split at hk
    · cases hk; exact hiff
    · exact hg.calledIff k ck hk
  · intro x cx c hx hm
    have hold : ∃ cc, cells[c]? = some cc ∧ cc.called = true := by
      rw [hlk] at hx
      split at hx
      · cases hx; exact hg.contCalled d cell c hcell (hmem c hm)
      · exact hg.contCalled x cx c hx hm
    obtain ⟨cc, hcc1, hcc2⟩ := hold
    by_cases hcd : c = d
    · rw [hcd] at hcc1
      rw [hcell] at hcc1
      cases hcc1
      exact ⟨c', by rw [hlk, if_pos hcd], hcalled hcc2⟩
    · exact ⟨cc, by rw [hlk, if_neg hcd]; exact hcc1, hcc2⟩
  · intro k ck hk
    rw [hhc]
    rw [hlk] at hk
    split at hk
    · rename_i hkd
      cases hk
      rw [hkd]
      have := hg.pausedGe d cell hcell
      omega
    · rename_i hkd
      rw [hupne k hkd]; exact hg.pausedGe k ck hk
  · intro k ck hk hd
    rw [hlk] at hk
    split at hk
    · rename_i hkd
      cases hk
      rw [hkd]
      exact hdref hd
    · rename_i hkd
      rw [hupne k hkd]; exact hg.drefPaused k ck hk hd
  · intro k ck hk
    rw [hlk] at hk
    split at hk
    · rename_i hkd
      cases hk
      rw [hkd]
      exact hns
    · exact hg.noSelf k ck hk

/-- the ghost depth of a Deferred that does not exist is irrelevant -/
theorem GoodHeap.reup {up up' : Nat → Int} {cells : List Cell} {d : Nat}
    (hg : GoodHeap up cells) (hnone : cells[d]? = none)
    (hup0 : ∀ k, 0 ≤ up' k) (hupne : ∀ k, k ≠ d → up' k = up k) : GoodHeap up' cells := by
  have hne : ∀ (k : Nat) (ck : Cell), cells[k]? = some ck → k ≠ d := by
    intro k ck hk hkd
    rw [hkd, hnone] at hk
    cases hk
  exact ⟨hup0, hg.calledIff, hg.contCalled,
    fun k ck hk => by rw [hupne k (hne k ck hk)]; exact hg.pausedGe k ck hk,
    fun k ck hk hd => by rw [hupne k (hne k ck hk)]; exact hg.drefPaused k ck hk hd,
    hg.noSelf⟩

theorem bump_self (up : Nat → Int) (d : Nat) (z : Int) : bump up d z d = up d + z := by
  simp [bump]

theorem bump_ne (up : Nat → Int) (d : Nat) (z : Int) (k : Nat) (h : k ≠ d) : bump up d z k = up k := by
  simp [bump, h]

theorem bump_nonneg {up : Nat → Int} (h0 : ∀ k, 0 ≤ up k) (d : Nat) (z : Int) (hz : 0 ≤ up d + z) :
    ∀ k, 0 ≤ bump up d z k := by
  intro k
  by_cases hk : k = d
  · rw [hk, bump_self]; exact hz
  · rw [bump_ne _ _ _ _ hk]; exact h0 k

theorem set_self_called {cells : List Cell} {d : Nat} {cell c' : Cell} (hcell : cells[d]? = some cell)
    (hc : c'.called = true) : ∀ cd, (cells.set d c')[d]? = some cd → cd.called = true := by
  intro cd hcd
  rw [getElem?_set' _ _ _ _ _ hcell, if_pos rfl] at hcd
  cases hcd
  exact hc

/-! ### between operations: every idle fired Deferred has run all its callbacks -/

def IdleRest (cells : List Cell) : Prop :=
  ∀ (k : Nat) (ck : Cell), cells[k]? = some ck → ck.called = true → ck.paused = 0 → ck.result.isDref = false →
    ck.callbacks = []

theorem IdleRest.set {cells : List Cell} (h : IdleRest cells) {x : Nat} {cell c' : Cell} (hcell : cells[x]? = some cell)
    (hc : c'.called = true → c'.paused = 0 → c'.result.isDref = false → c'.callbacks = []) :
    IdleRest (cells.set x c') := by
  intro k ck hk
  rw [getElem?_set' _ _ _ _ _ hcell] at hk
  split at hk
  · simp only [Option.some.injEq] at hk; subst hk; exact hc
  · exact h k ck hk

theorem IdleRest.chain {cells : List Cell} (h : IdleRest cells) {x : Nat} {cell : Cell} (c' : Cell) (tr : List Entry)
    (hcell : cells[x]? = some cell) : Idle { cells := cells.set x c', trace := tr, chain := [x] } := by
  intro k ck hk hnot
  have hkx : k ≠ x := by simpa using hnot
  simp only at hk
  rw [getElem?_set' _ _ _ _ _ hcell, if_neg hkx] at hk
  exact h k ck hk

theorem init_idle (n : Nat) : IdleRest (init n).cells := by
  intro k ck hk hc
  simp [init, List.getElem?_replicate] at hk
  rw [← hk.2] at hc
  simp at hc

/-- an operation that starts `_runCallbacks` on the fired Deferred `d`: the reference interpreter computes what the
    implementation computes, and afterwards the heap is at rest again -/
theorem finish_good {up : Nat → Int} {s' : State} {d : Nat} (hg : GoodHeap up s'.cells)
    (hd : ∀ cd, s'.cells[d]? = some cd → cd.called = true)
    (hidle : Idle { cells := s'.cells, trace := s'.trace, chain := [d] }) (r : State × Outcome)
    (h : (coreRun (s'.cells, s'.trace) d).map
        (fun h => (({ s' with cells := h.1, trace := h.2 } : State), Outcome.ok)) = some r) :
    (Spec.specRun (s'.cells, s'.trace) d).map
        (fun h => (({ s' with cells := h.1, trace := h.2 } : State), Outcome.ok)) = some r ∧
    GoodRest up r.1.cells := by
  have hG : Good3 up { cells := s'.cells, trace := s'.trace, chain := [d] } := by
    refine ⟨⟨⟨hg, ?_⟩, hidle, ?_⟩, by simp⟩
    · intro x hx cx hcx
      simp only [List.mem_singleton] at hx; subst hx
      exact hd cx hcx
    · intro x hx; simp at hx
  have heq := specRun_eq_coreRun_of (up := up) (G := Good3 up) (fun c h => h.1)
    (fun c c' hg h => stepConf_good3 hg h) (fun c ext hg => loop_good3_append c ext hg)
    (h := (s'.cells, s'.trace)) (d := d) hG
  have hL := loop_good3 _ hG
  have hnil := loop_chain_nil { cells := s'.cells, trace := s'.trace, chain := [d] }
  rw [heq]
  refine ⟨h, ?_⟩
  simp only [coreRun, runCallbacks_eq_loop, Option.map_some, Option.some.injEq] at h
  subst h
  refine ⟨hL.1.1.1, ?_⟩
  intro k ck hk
  exact hL.1.2.1 k ck hk (by rw [hnil]; simp)

theorem stepWith_good_aux {up : Nat → Int} {s : State} {op : Op}
    (hgr : GoodRest up s.cells) (hop : opOK up op = true) :
    ∀ r : State × Outcome, stepWith coreRun s op = some r →
      stepWith Spec.specRun s op = some r ∧ GoodRest (upAfter up op) r.1.cells := by
  obtain ⟨hg, hi⟩ := hgr
  have hi' : IdleRest s.cells := hi
  unfold stepWith
  cases op with
  | add x cb eb =>
    simp only [upAfter]
    cases hcell : s.cells[x]? with
    | none =>
      intro r hr
      simp only [Option.some.injEq] at hr
      subst hr
      exact ⟨rfl, hg, hi⟩
    | some cell =>
      simp only [opOK, Bool.and_eq_true, bne_iff_ne, ne_eq] at hop
      have hg1 : GoodHeap up (s.cells.set x { cell with callbacks := cell.callbacks ++ [.pair s.nadds cb eb] }) := by
        refine GoodHeap.set1 hg hcell ?_ ?_ ?_ ?_ ?_ ?_ ?_ ?_ ?_
        · intro k; simp [contCount_append, contCount]
        · intro c hc
          simp only [List.mem_append, List.mem_singleton] at hc
          rcases hc with hc | hc
          · exact hc
          · cases hc
        · intro it hit
          simp only [List.mem_append, List.mem_singleton] at hit
          rcases hit with hit | hit
          · exact hg.noSelf x cell hcell it hit
          · subst hit; exact hop
        · exact id
        · exact hg.calledIff x cell hcell
        · exact hg.upNonneg
        · intro _ _; rfl
        · exact Int.le_refl _
        · exact hg.drefPaused x cell hcell
      simp only
      split
      · rename_i hcl
        exact finish_good (s' := { s with cells := _, nadds := s.nadds + 1 }) hg1
          (set_self_called hcell hcl) (hi'.chain _ _ hcell)
      · rename_i hcl
        intro r hr
        simp only [Option.some.injEq] at hr
        subst hr
        exact ⟨rfl, hg1, hi'.set hcell (fun h => absurd h hcl)⟩
  | pause x =>
    simp only [upAfter]
    have hup0 := bump_nonneg hg.upNonneg x 1 (by have := hg.upNonneg x; omega)
    cases hcell : s.cells[x]? with
    | none =>
      intro r hr
      simp only [Option.some.injEq] at hr
      subst hr
      exact ⟨rfl, hg.reup hcell hup0 (bump_ne up x 1), hi⟩
    | some cell =>
      intro r hr
      simp only [Option.some.injEq] at hr
      subst hr
      refine ⟨rfl, ?_, ?_⟩
      · refine GoodHeap.set1 hg hcell ?_ ?_ ?_ ?_ ?_ hup0 (bump_ne up x 1) ?_ ?_
        · intro k; rfl
        · intro c hc; exact hc
        · exact hg.noSelf x cell hcell
        · exact id
        · exact hg.calledIff x cell hcell
        · simp only [bump_self]; omega
        · intro hd
          have := hg.drefPaused x cell hcell hd
          simp only [bump_self]; omega
      · refine hi'.set hcell ?_
        intro _ hp
        have h1 := hg.pausedGe x cell hcell
        have h2 := hg.upNonneg x
        simp only at hp
        omega
  | unpause x =>
    simp only [upAfter]
    simp only [opOK, decide_eq_true_eq] at hop
    have hup0 := bump_nonneg hg.upNonneg x (-1) (by omega)
    cases hcell : s.cells[x]? with
    | none =>
      intro r hr
      simp only [Option.some.injEq] at hr
      subst hr
      exact ⟨rfl, hg.reup hcell hup0 (bump_ne up x (-1)), hi⟩
    | some cell =>
      have hg1 : GoodHeap (bump up x (-1)) (s.cells.set x { cell with paused := cell.paused - 1 }) := by
        refine GoodHeap.set1 hg hcell ?_ ?_ ?_ ?_ ?_ hup0 (bump_ne up x (-1)) ?_ ?_
        · intro k; rfl
        · intro c hc; exact hc
        · exact hg.noSelf x cell hcell
        · exact id
        · exact hg.calledIff x cell hcell
        · simp only [bump_self]; omega
        · intro hd
          have := hg.drefPaused x cell hcell hd
          simp only [bump_self]; omega
      simp only
      split
      · rename_i hne
        intro r hr
        simp only [Option.some.injEq] at hr
        subst hr
        exact ⟨rfl, hg1, hi'.set hcell (fun _ hp => absurd hp hne)⟩
      · split
        · rename_i hcl
          exact finish_good (s' := { s with cells := _ }) hg1 (set_self_called hcell hcl) (hi'.chain _ _ hcell)
        · rename_i hcl
          intro r hr
          simp only [Option.some.injEq] at hr
          subst hr
          exact ⟨rfl, hg1, hi'.set hcell (fun h => absurd h hcl)⟩
  | callback x n =>
    simp only [upAfter]
    cases hcell : s.cells[x]? with
    | none =>
      intro r hr
      simp only [Option.some.injEq] at hr
      subst hr
      exact ⟨rfl, hg, hi⟩
    | some cell =>
      simp only
      split
      · intro r hr
        simp only [Option.some.injEq] at hr
        subst hr
        exact ⟨rfl, hg, hi⟩
      · have hg1 : GoodHeap up (s.cells.set x { cell with called := true, result := .ok n }) := by
          refine GoodHeap.set1 hg hcell ?_ ?_ ?_ ?_ ?_ hg.upNonneg ?_ ?_ ?_
          · intro k; rfl
          · intro c hc; exact hc
          · exact hg.noSelf x cell hcell
          · intro _; rfl
          · simp
          · intro _ _; rfl
          · exact Int.le_refl _
          · intro hd; simp [Val.isDref] at hd
        exact finish_good (s' := { s with cells := _ }) hg1 (set_self_called hcell rfl) (hi'.chain _ _ hcell)
  | errback x e =>
    simp only [upAfter]
    cases hcell : s.cells[x]? with
    | none =>
      intro r hr
      simp only [Option.some.injEq] at hr
      subst hr
      exact ⟨rfl, hg, hi⟩
    | some cell =>
      simp only
      split
      · intro r hr
        simp only [Option.some.injEq] at hr
        subst hr
        exact ⟨rfl, hg, hi⟩
      · have hg1 : GoodHeap up (s.cells.set x { cell with called := true, result := .fail e }) := by
          refine GoodHeap.set1 hg hcell ?_ ?_ ?_ ?_ ?_ hg.upNonneg ?_ ?_ ?_
          · intro k; rfl
          · intro c hc; exact hc
          · exact hg.noSelf x cell hcell
          · intro _; rfl
          · simp
          · intro _ _; rfl
          · exact Int.le_refl _
          · intro hd; simp [Val.isDref] at hd
        exact finish_good (s' := { s with cells := _ }) hg1 (set_self_called hcell rfl) (hi'.chain _ _ hcell)

/-- one operation of a program inside the domain: the reference interpreter and the implementation take the same
    step; and the heap invariants survive (with the ghost user pause depth updated) -/
theorem stepWith_good {up : Nat → Int} {s : State} {op : Op}
    (hg : GoodRest up s.cells) (hop : opOK up op = true) {r : State × Outcome}
    (h : stepWith coreRun s op = some r) :
    stepWith Spec.specRun s op = some r ∧ GoodRest (upAfter up op) r.1.cells :=
  stepWith_good_aux hg hop r h

/-- the implementation answers every operation (`coreRun` never gives up) -/
theorem stepWith_core_some (s : State) (op : Op) : ∃ r, stepWith coreRun s op = some r := by
  unfold stepWith coreRun
  cases op <;> simp only <;> repeat' split
  all_goals first
    | exact ⟨_, rfl⟩
    | simp

/-! ### programs -/

theorem traceWith_good {up : Nat → Int} {s : State} {ops : List Op}
    (hg : GoodRest up s.cells) (hd : domOK up ops = true) :
    traceWith Spec.specRun s ops = traceWith coreRun s ops := by
  induction ops generalizing up s with
  | nil => rfl
  | cons op ops ih =>
    simp only [domOK, Bool.and_eq_true] at hd
    obtain ⟨r, hr⟩ := stepWith_core_some s op
    obtain ⟨s1, o⟩ := r
    have h1 := stepWith_good hg hd.1 hr
    simp only [traceWith, h1.1, hr]
    rw [ih h1.2 hd.2]

theorem init_rest (n : Nat) : GoodRest (fun _ => 0) (init n).cells := ⟨init_good n, init_idle n⟩

/-- **Recursion = chain stack, for whole programs**: inside the static domain the recursive reference interpreter and
    the chain-stack implementation produce the same history (outcomes and states after every operation). -/
theorem history_good (n : Nat) (prog : List Op) (hdom : inDomain prog = true) :
    Twisted.Defer.Spec.history (init n) prog = history (init n) prog :=
  traceWith_good (init_rest n) hdom

/-- the heap invariants hold after every program of the domain -/
theorem exec_good : ∀ {up : Nat → Int} {s : State} (ops : List Op), GoodRest up s.cells → domOK up ops = true →
    ∀ s', exec s ops = some s' → ∃ up', GoodRest up' s'.cells := by
  intro up s ops
  induction ops generalizing up s with
  | nil => intro hg _ s' h; simp [exec, execWith] at h; subst h; exact ⟨up, hg⟩
  | cons op ops ih =>
    intro hg hd s' h
    simp only [domOK, Bool.and_eq_true] at hd
    simp only [exec, execWith] at h
    split at h
    · simp at h
    · rename_i s1 o hs
      exact ih (stepWith_good hg hd.1 (r := (s1, o)) hs).2 hd.2 s' h

end TwistedProps.C01
