import TwistedProps.C01.ChainDefs
/-!
C01, chaining programs: one iteration of the chain walk preserves the heap invariant `Good up`.
-/
namespace TwistedProps.C01
open Twisted.Defer.Core

local notation "cmodify" => Twisted.Defer.Core.modify

/-! ### counting continuations -/

theorem contCount_append (k : Nat) (a b : List Item) : contCount k (a ++ b) = contCount k a + contCount k b := by
  induction a with
  | nil => simp [contCount]
  | cons x xs ih =>
    cases x with
    | pair t cb eb => simpa [contCount] using ih
    | cont c => simp only [List.cons_append, contCount, ih]; omega

theorem contCount_pos_of_mem {k : Nat} {l : List Item} (h : Item.cont k ∈ l) : 0 < contCount k l := by
  induction l with
  | nil => simp at h
  | cons x xs ih =>
    simp only [List.mem_cons] at h
    rcases h with h | h
    · subst h; simp [contCount]; omega
    · have := ih h
      cases x with
      | pair t cb eb => simpa [contCount] using this
      | cont c => simp only [contCount]; omega

theorem contCount_le_heapCount {k : Nat} : ∀ {cells : List Cell} {i : Nat} {c : Cell}, cells[i]? = some c →
    contCount k c.callbacks ≤ heapCount k cells := by
  intro cells
  induction cells with
  | nil => intro i c h; simp at h
  | cons x xs ih =>
    intro i c h
    cases i with
    | zero => simp at h; subst h; simp [heapCount]
    | succ n =>
      simp at h
      have := ih h
      simp only [heapCount]; omega

theorem heapCount_set (k : Nat) (cells : List Cell) (i : Nat) (c c' : Cell) (h : cells[i]? = some c) :
    heapCount k (cells.set i c') + contCount k c.callbacks = heapCount k cells + contCount k c'.callbacks := by
  induction cells generalizing i with
  | nil => simp at h
  | cons x xs ih =>
    cases i with
    | zero =>
      simp at h
      subst h
      simp [heapCount]
      omega
    | succ n =>
      simp at h
      have := ih n h
      simp [heapCount]
      omega

theorem heapCount_modify_same (k : Nat) (cells : List Cell) (i : Nat) (f : Cell → Cell)
    (hf : ∀ c, (f c).callbacks = c.callbacks) : heapCount k (cmodify cells i f) = heapCount k cells := by
  unfold Twisted.Defer.Core.modify
  cases h : cells[i]? with
  | none => rfl
  | some c =>
    have := heapCount_set k cells i c (f c) h
    rw [hf] at this
    simp only
    omega

theorem heapCount_modify_appendCont (k : Nat) (cells : List Cell) (j cur : Nat) (cj : Cell) (h : cells[j]? = some cj) :
    heapCount k (cmodify cells j (appendCont cur)) = heapCount k cells + (if cur = k then 1 else 0) := by
  unfold Twisted.Defer.Core.modify
  simp only [h]
  have := heapCount_set k cells j cj (appendCont cur cj) h
  simp only [appendCont, contCount_append, contCount] at this
  simp only [appendCont]
  omega

theorem heapCount_pop_pair (k : Nat) {cells : List Cell} {cur : Nat} {cell c' : Cell} {tag : Nat} {cb eb : Slot}
    {rest : List Item} (hcell : cells[cur]? = some cell) (hcbs : cell.callbacks = Item.pair tag cb eb :: rest)
    (hc' : c'.callbacks = rest) : heapCount k (cells.set cur c') = heapCount k cells := by
  have := heapCount_set k cells cur cell c' hcell
  simp only [hcbs, hc', contCount] at this
  omega

theorem slotOut_ne_unset (res : Val) (cb eb : Slot) (hres : res ≠ .unset) : slotOut (pick res cb eb) res ≠ .unset := by
  unfold pick
  split
  · cases eb with
    | passthru => simpa [slotOut] using hres
    | user b => cases b <;> simp [slotOut, Beh.out]
  · cases cb with
    | passthru => simpa [slotOut] using hres
    | user b => cases b <;> simp [slotOut, Beh.out]

theorem not_mustWait {cj : Cell} (h : ¬ mustWait cj = true) :
    cj.result ≠ .unset ∧ cj.result.isDref = false ∧ cj.paused = 0 := by
  unfold mustWait at h
  simp at h
  exact ⟨h.1.1.1, h.1.1.2, h.1.2⟩

/-! ### transfer of the invariant along a change of at most two cells -/

/-- what must hold of the new content `c'` of cell `k` (old content `c`) -/
def CellStep (up : Nat → Int) (cells : List Cell) (k : Nat) (c c' : Cell) : Prop :=
  c'.called = c.called ∧ (c'.called = true ↔ c'.result ≠ Val.unset) ∧
  (∀ x, Item.cont x ∈ c'.callbacks → Item.cont x ∈ c.callbacks ∨ ∃ cc, cells[x]? = some cc ∧ cc.called = true) ∧
  (c'.result.isDref = true → up k + 1 ≤ c'.paused) ∧
  (∀ it ∈ c'.callbacks, itemNoSelf k it)

theorem cellStep_refl {up : Nat → Int} {cells : List Cell} {k : Nat} {ck : Cell} (hg : GoodHeap up cells)
    (hk : cells[k]? = some ck) : CellStep up cells k ck ck :=
  ⟨rfl, hg.calledIff k ck hk, fun _ hx => Or.inl hx, hg.drefPaused k ck hk, hg.noSelf k ck hk⟩

theorem GoodHeap.transfer2 {up : Nat → Int} {cells cells' : List Cell} (hg : GoodHeap up cells) (a b : Nat)
    (ca : Cell) (fa fb : Cell → Cell) (ha : cells[a]? = some ca)
    (hlk : ∀ k, cells'[k]? = (cells[k]?).map (fun ck => if k = a then fa ck else if k = b then fb ck else ck))
    (hA : CellStep up cells a ca (fa ca) ∧ up a + (heapCount a cells' : Int) ≤ (fa ca).paused)
    (hB : b ≠ a → ∀ cb, cells[b]? = some cb →
      CellStep up cells b cb (fb cb) ∧ up b + (heapCount b cells' : Int) ≤ (fb cb).paused)
    (hO : ∀ k, k ≠ a → k ≠ b → heapCount k cells' ≤ heapCount k cells) :
    GoodHeap up cells' ∧ (∀ k : Nat, (cells'[k]?).map Cell.called = (cells[k]?).map Cell.called) := by
  have hpt : ∀ k ck, cells[k]? = some ck →
      CellStep up cells k ck (if k = a then fa ck else if k = b then fb ck else ck) ∧
      up k + (heapCount k cells' : Int) ≤ (if k = a then fa ck else if k = b then fb ck else ck).paused := by
    intro k ck hk
    by_cases h1 : k = a
    · subst h1
      rw [if_pos rfl]
      rw [ha] at hk
      cases hk
      exact hA
    · rw [if_neg h1]
      by_cases h2 : k = b
      · subst h2; rw [if_pos rfl]; exact hB h1 ck hk
      · rw [if_neg h2]
        refine ⟨cellStep_refl hg hk, ?_⟩
        have h3 := hg.pausedGe k ck hk
        have h4 := hO k h1 h2
        omega
  have hget : ∀ k ck', cells'[k]? = some ck' →
      ∃ ck, cells[k]? = some ck ∧ ck' = (if k = a then fa ck else if k = b then fb ck else ck) := by
    intro k ck' hk
    rw [hlk] at hk
    cases hc : cells[k]? with
    | none => rw [hc] at hk; simp at hk
    | some ck =>
      rw [hc] at hk
      exact ⟨ck, rfl, (Option.some.inj hk).symm⟩
  have hcalled : ∀ k : Nat, (cells'[k]?).map Cell.called = (cells[k]?).map Cell.called := by
    intro k
    rw [hlk]
    cases hc : cells[k]? with
    | none => rfl
    | some ck =>
      have := (hpt k ck hc).1.1
      simp [this]
  refine ⟨⟨hg.upNonneg, ?_, ?_, ?_, ?_, ?_⟩, hcalled⟩
  · intro k ck' hk
    obtain ⟨ck, hck, rfl⟩ := hget k ck' hk
    exact (hpt k ck hck).1.2.1
  · intro x cx' c hx hmem
    obtain ⟨cx, hcx, rfl⟩ := hget x cx' hx
    have hcc : ∃ cc, cells[c]? = some cc ∧ cc.called = true := by
      rcases (hpt x cx hcx).1.2.2.1 c hmem with h | h
      · exact hg.contCalled x cx c hcx h
      · exact h
    obtain ⟨cc, hcc, hccl⟩ := hcc
    have h5 := hcalled c
    rw [hcc] at h5
    cases hc' : cells'[c]? with
    | none => rw [hc'] at h5; simp at h5
    | some cc' =>
      rw [hc'] at h5
      simp at h5
      exact ⟨cc', rfl, by rw [h5, hccl]⟩
  · intro k ck' hk
    obtain ⟨ck, hck, rfl⟩ := hget k ck' hk
    exact (hpt k ck hck).2
  · intro k ck' hk
    obtain ⟨ck, hck, rfl⟩ := hget k ck' hk
    exact (hpt k ck hck).1.2.2.2.1
  · intro k ck' hk
    obtain ⟨ck, hck, rfl⟩ := hget k ck' hk
    exact (hpt k ck hck).1.2.2.2.2

theorem chainCalled_of_called {cells cells' : List Cell} {chain : List Nat}
    (hcalled : ∀ k : Nat, (cells'[k]?).map Cell.called = (cells[k]?).map Cell.called)
    (hc : ChainCalled cells chain) : ChainCalled cells' chain := by
  intro x hx cx' hcx'
  have h5 := hcalled x
  rw [hcx'] at h5
  cases hc0 : cells[x]? with
  | none => rw [hc0] at h5; simp at h5
  | some cx =>
    rw [hc0] at h5
    simp at h5
    rw [h5]
    exact hc x hx cx hc0

/-! ### the Deferred being run -/

theorem active_facts {up : Nat → Int} {cells : List Cell} {cur : Nat} {cell : Cell} (hg : GoodHeap up cells)
    (hcell : cells[cur]? = some cell) (hp : cell.paused = 0) (hcl : cell.called = true) :
    up cur = 0 ∧ heapCount cur cells = 0 ∧ cell.result.isDref = false ∧ cell.result ≠ Val.unset := by
  have h1 := hg.upNonneg cur
  have h2 := hg.pausedGe cur cell hcell
  have h3 := hg.drefPaused cur cell hcell
  have h4 := (hg.calledIff cur cell hcell).1 hcl
  refine ⟨by omega, by omega, ?_, h4⟩
  cases hd : cell.result.isDref with
  | false => rfl
  | true => have := h3 hd; omega

theorem lookup_eq {cells : List Cell} {k : Nat} {c c' : Cell} (h : cells[k]? = some c) (h' : cells[k]? = some c') :
    c' = c := by
  rw [h] at h'; exact (Option.some.inj h').symm

/-! ### the elementary heap changes of one iteration -/

/-- `_CONTINUE`: hand the result over to the chainee -/
theorem good_cont {up : Nat → Int} {cells : List Cell} {cur chainee : Nat} {cell : Cell} {rest : List Item}
    (hg : GoodHeap up cells) (hcell : cells[cur]? = some cell) (hp : cell.paused = 0) (hcl : cell.called = true)
    (hcbs : cell.callbacks = Item.cont chainee :: rest) (cells' : List Cell)
    (hc' : cells' = cmodify (cmodify (cells.set cur { cell with callbacks := rest }) chainee (handOver cell.result))
      cur (setResult .pyNone)) :
    (GoodHeap up cells' ∧ (∀ k : Nat, (cells'[k]?).map Cell.called = (cells[k]?).map Cell.called)) ∧
    ∃ cc, cells[chainee]? = some cc ∧ cc.called = true := by
  obtain ⟨hup, hhc, hnd, hnu⟩ := active_facts hg hcell hp hcl
  have hmem : Item.cont chainee ∈ cell.callbacks := by rw [hcbs]; exact List.mem_cons_self
  have hsub : ∀ it, it ∈ rest → it ∈ cell.callbacks := fun it h => by rw [hcbs]; exact List.mem_cons_of_mem _ h
  have hne : chainee ≠ cur := by
    intro he
    rw [he] at hmem
    have h1 := contCount_pos_of_mem hmem
    have h2 := contCount_le_heapCount (k := cur) hcell
    omega
  obtain ⟨cc, hcc, hccl⟩ := hg.contCalled cur cell chainee hcell hmem
  refine ⟨?_, cc, hcc, hccl⟩
  have hcount : ∀ k, heapCount k cells' + (if chainee = k then 1 else 0) = heapCount k cells := by
    intro k
    rw [hc', heapCount_modify_same _ _ _ _ (by intro; rfl), heapCount_modify_same _ _ _ _ (by intro; rfl)]
    have := heapCount_set k cells cur cell { cell with callbacks := rest } hcell
    simp only [hcbs, contCount] at this
    omega
  have hlk : ∀ k, cells'[k]? = (cells[k]?).map (fun ck =>
      if k = cur then setResult .pyNone { cell with callbacks := rest }
      else if k = chainee then handOver cell.result ck else ck) := by
    intro k
    rw [hc', getElem?_modify, getElem?_modify, getElem?_set' _ _ _ _ _ hcell]
    by_cases h1 : k = cur
    · subst h1; simp [hcell, Ne.symm hne]
    · by_cases h2 : k = chainee
      · subst h2; simp [h1]
      · simp [h1, h2]
  refine hg.transfer2 cur chainee cell (fun _ => setResult .pyNone { cell with callbacks := rest })
    (handOver cell.result) hcell hlk ⟨⟨rfl, ?_, ?_, ?_, ?_⟩, ?_⟩ ?_ ?_
  · simp [setResult, hcl]
  · intro x hx; exact Or.inl (hsub _ hx)
  · simp [setResult, Val.isDref]
  · intro it hit; exact hg.noSelf cur cell hcell it (hsub _ hit)
  · have := hcount cur
    simp only [setResult]
    split at this <;> omega
  · intro _ cb hcb
    have hcb' := lookup_eq hcb hcc
    subst hcb'
    refine ⟨⟨rfl, ?_, fun x hx => Or.inl hx, ?_, hg.noSelf chainee cc hcc⟩, ?_⟩
    · simp [handOver, hccl, hnu]
    · intro h; simp only [handOver] at h; rw [hnd] at h; cases h
    · have h1 := hcount chainee
      rw [if_pos rfl] at h1
      have h2 := hg.pausedGe chainee cc hcc
      simp only [handOver]
      omega
  · intro k _ _
    have := hcount k
    split at this <;> omega

/-- a callable returned a value that is not a Deferred -/
theorem good_pair_plain {up : Nat → Int} {cells : List Cell} {cur : Nat} {cell : Cell} {rest : List Item} {tag : Nat}
    {cb eb : Slot} {out : Val}
    (hg : GoodHeap up cells) (hcell : cells[cur]? = some cell) (hp : cell.paused = 0) (hcl : cell.called = true)
    (hcbs : cell.callbacks = Item.pair tag cb eb :: rest) (hou : out ≠ .unset) (hd : out.isDref = false)
    (cells' : List Cell) (hc' : cells' = cells.set cur { cell with callbacks := rest, result := out }) :
    GoodHeap up cells' ∧ (∀ k : Nat, (cells'[k]?).map Cell.called = (cells[k]?).map Cell.called) := by
  obtain ⟨hup, hhc, hnd, hnu⟩ := active_facts hg hcell hp hcl
  have hsub : ∀ it, it ∈ rest → it ∈ cell.callbacks := fun it h => by rw [hcbs]; exact List.mem_cons_of_mem _ h
  have hcount : ∀ k, heapCount k cells' = heapCount k cells := by
    intro k; rw [hc']; exact heapCount_pop_pair k hcell hcbs rfl
  have hlk : ∀ k, cells'[k]? = (cells[k]?).map (fun ck =>
      if k = cur then { cell with callbacks := rest, result := out }
      else if k = cur then ck else ck) := by
    intro k
    rw [hc', getElem?_set' _ _ _ _ _ hcell]
    by_cases h1 : k = cur
    · subst h1; simp [hcell]
    · simp [h1]
  refine hg.transfer2 cur cur cell (fun _ => { cell with callbacks := rest, result := out })
    (fun ck => ck) hcell hlk ⟨⟨rfl, ?_, ?_, ?_, ?_⟩, ?_⟩ (fun h => absurd rfl h) ?_
  · exact ⟨fun _ => hou, fun _ => hcl⟩
  · intro x hx; exact Or.inl (hsub _ hx)
  · intro h; simp only at h; rw [hd] at h; cases h
  · intro it hit; exact hg.noSelf cur cell hcell it (hsub _ hit)
  · have := hcount cur
    simp only
    omega
  · intro k _ _
    have := hcount k
    omega

/-- a callable returned a Deferred outside the heap -/
theorem good_pair_none {up : Nat → Int} {cells : List Cell} {cur : Nat} {cell : Cell} {rest : List Item} {tag : Nat}
    {cb eb : Slot} {j : Nat}
    (hg : GoodHeap up cells) (hcell : cells[cur]? = some cell) (hp : cell.paused = 0) (hcl : cell.called = true)
    (hcbs : cell.callbacks = Item.pair tag cb eb :: rest)
    (cells' : List Cell)
    (hc' : cells' = cmodify (cells.set cur { cell with callbacks := rest, result := .dref j }) cur pauseCell) :
    GoodHeap up cells' ∧ (∀ k : Nat, (cells'[k]?).map Cell.called = (cells[k]?).map Cell.called) := by
  obtain ⟨hup, hhc, hnd, hnu⟩ := active_facts hg hcell hp hcl
  have hsub : ∀ it, it ∈ rest → it ∈ cell.callbacks := fun it h => by rw [hcbs]; exact List.mem_cons_of_mem _ h
  have hcount : ∀ k, heapCount k cells' = heapCount k cells := by
    intro k; rw [hc', heapCount_modify_same _ _ _ _ (by intro; rfl)]; exact heapCount_pop_pair k hcell hcbs rfl
  have hlk : ∀ k, cells'[k]? = (cells[k]?).map (fun ck =>
      if k = cur then pauseCell { cell with callbacks := rest, result := .dref j }
      else if k = cur then ck else ck) := by
    intro k
    rw [hc', getElem?_modify, getElem?_set' _ _ _ _ _ hcell]
    by_cases h1 : k = cur
    · subst h1; simp [hcell]
    · simp [h1]
  refine hg.transfer2 cur cur cell (fun _ => pauseCell { cell with callbacks := rest, result := .dref j })
    (fun ck => ck) hcell hlk ⟨⟨rfl, ?_, ?_, ?_, ?_⟩, ?_⟩ (fun h => absurd rfl h) ?_
  · simp [pauseCell, hcl]
  · intro x hx; exact Or.inl (hsub _ hx)
  · intro _; simp only [pauseCell]; omega
  · intro it hit; exact hg.noSelf cur cell hcell it (hsub _ hit)
  · have := hcount cur
    simp only [pauseCell]
    omega
  · intro k _ _
    have := hcount k
    omega

/-- a callable returned a Deferred that must be waited for -/
theorem good_pair_wait {up : Nat → Int} {cells : List Cell} {cur : Nat} {cell : Cell} {rest : List Item} {tag : Nat}
    {cb eb : Slot} {j : Nat} {cj : Cell}
    (hg : GoodHeap up cells) (hcell : cells[cur]? = some cell) (hp : cell.paused = 0) (hcl : cell.called = true)
    (hcbs : cell.callbacks = Item.pair tag cb eb :: rest) (hjc : j ≠ cur) (hcj : cells[j]? = some cj)
    (cells' : List Cell)
    (hc' : cells' = cmodify (cmodify (cells.set cur { cell with callbacks := rest, result := .dref j }) cur pauseCell)
      j (appendCont cur)) :
    GoodHeap up cells' ∧ (∀ k : Nat, (cells'[k]?).map Cell.called = (cells[k]?).map Cell.called) := by
  obtain ⟨hup, hhc, hnd, hnu⟩ := active_facts hg hcell hp hcl
  have hsub : ∀ it, it ∈ rest → it ∈ cell.callbacks := fun it h => by rw [hcbs]; exact List.mem_cons_of_mem _ h
  have hj2 : (cmodify (cells.set cur { cell with callbacks := rest, result := .dref j }) cur pauseCell)[j]? = some cj := by
    rw [getElem?_modify, if_neg hjc, getElem?_set' _ _ _ _ _ hcell, if_neg hjc]; exact hcj
  have hcount : ∀ k, heapCount k cells' = heapCount k cells + (if cur = k then 1 else 0) := by
    intro k
    rw [hc', heapCount_modify_appendCont k _ j cur cj hj2, heapCount_modify_same _ _ _ _ (by intro; rfl),
      heapCount_pop_pair k hcell hcbs rfl]
  have hlk : ∀ k, cells'[k]? = (cells[k]?).map (fun ck =>
      if k = cur then pauseCell { cell with callbacks := rest, result := .dref j }
      else if k = j then appendCont cur ck else ck) := by
    intro k
    rw [hc', getElem?_modify, getElem?_modify, getElem?_set' _ _ _ _ _ hcell]
    by_cases h1 : k = cur
    · subst h1; simp [hcell, Ne.symm hjc]
    · by_cases h2 : k = j
      · subst h2; simp [h1]
      · simp [h1, h2]
  refine hg.transfer2 cur j cell (fun _ => pauseCell { cell with callbacks := rest, result := .dref j })
    (appendCont cur) hcell hlk ⟨⟨rfl, ?_, ?_, ?_, ?_⟩, ?_⟩ ?_ ?_
  · simp [pauseCell, hcl]
  · intro x hx; exact Or.inl (hsub _ hx)
  · intro _; simp only [pauseCell]; omega
  · intro it hit; exact hg.noSelf cur cell hcell it (hsub _ hit)
  · have := hcount cur
    rw [if_pos rfl] at this
    simp only [pauseCell]
    omega
  · intro _ cb' hcb
    refine ⟨⟨rfl, hg.calledIff j cb' hcb, ?_, hg.drefPaused j cb' hcb, ?_⟩, ?_⟩
    · intro x hx
      simp only [appendCont, List.mem_append, List.mem_singleton] at hx
      rcases hx with hx | hx
      · exact Or.inl hx
      · cases hx; exact Or.inr ⟨cell, hcell, hcl⟩
    · intro it hit
      simp only [appendCont, List.mem_append, List.mem_singleton] at hit
      rcases hit with hit | hit
      · exact hg.noSelf j cb' hcb it hit
      · subst hit; trivial
    · have h1 := hcount j
      rw [if_neg (Ne.symm hjc)] at h1
      have h2 := hg.pausedGe j cb' hcb
      simp only [appendCont]
      omega
  · intro k h1 _
    have := hcount k
    rw [if_neg (Ne.symm h1)] at this
    omega

/-- a callable returned a Deferred whose result can be taken -/
theorem good_pair_steal {up : Nat → Int} {cells : List Cell} {cur : Nat} {cell : Cell} {rest : List Item} {tag : Nat}
    {cb eb : Slot} {j : Nat} {cj : Cell}
    (hg : GoodHeap up cells) (hcell : cells[cur]? = some cell) (hp : cell.paused = 0) (hcl : cell.called = true)
    (hcbs : cell.callbacks = Item.pair tag cb eb :: rest) (hjc : j ≠ cur) (hcj : cells[j]? = some cj)
    (hmw : ¬ mustWait cj = true)
    (cells' : List Cell)
    (hc' : cells' = cmodify ((cells.set cur { cell with callbacks := rest, result := .dref j }).set j
      (setResult .pyNone cj)) cur (setResult cj.result)) :
    GoodHeap up cells' ∧ (∀ k : Nat, (cells'[k]?).map Cell.called = (cells[k]?).map Cell.called) := by
  obtain ⟨hup, hhc, hnd, hnu⟩ := active_facts hg hcell hp hcl
  obtain ⟨hjr, hjd, hjp⟩ := not_mustWait hmw
  have hsub : ∀ it, it ∈ rest → it ∈ cell.callbacks := fun it h => by rw [hcbs]; exact List.mem_cons_of_mem _ h
  have hj1 : (cells.set cur { cell with callbacks := rest, result := .dref j })[j]? = some cj := by
    rw [getElem?_set' _ _ _ _ _ hcell, if_neg hjc]; exact hcj
  have hcount : ∀ k, heapCount k cells' = heapCount k cells := by
    intro k
    rw [hc', heapCount_modify_same _ _ _ _ (by intro; rfl)]
    have h1 := heapCount_set k _ j cj (setResult .pyNone cj) hj1
    simp only [setResult] at h1
    have h2 := heapCount_pop_pair k (c' := { cell with callbacks := rest, result := .dref j }) hcell hcbs rfl
    simp only [setResult]
    omega
  have hlk : ∀ k, cells'[k]? = (cells[k]?).map (fun ck =>
      if k = cur then setResult cj.result { cell with callbacks := rest, result := .dref j }
      else if k = j then setResult .pyNone cj else ck) := by
    intro k
    rw [hc', getElem?_modify, getElem?_set' _ _ _ _ _ hj1, getElem?_set' _ _ _ _ _ hcell]
    by_cases h1 : k = cur
    · subst h1; simp [hcell, Ne.symm hjc]
    · by_cases h2 : k = j
      · subst h2; simp [h1, hcj]
      · simp [h1, h2]
  refine hg.transfer2 cur j cell (fun _ => setResult cj.result { cell with callbacks := rest, result := .dref j })
    (fun _ => setResult .pyNone cj) hcell hlk ⟨⟨rfl, ?_, ?_, ?_, ?_⟩, ?_⟩ ?_ ?_
  · exact ⟨fun _ => hjr, fun _ => hcl⟩
  · intro x hx; exact Or.inl (hsub _ hx)
  · intro h; simp only [setResult] at h; rw [hjd] at h; cases h
  · intro it hit; exact hg.noSelf cur cell hcell it (hsub _ hit)
  · have := hcount cur
    simp only [setResult]
    omega
  · intro _ cb' hcb
    have hcb' := lookup_eq hcb hcj
    subst hcb'
    refine ⟨⟨rfl, ?_, fun x hx => Or.inl hx, ?_, hg.noSelf j cj hcj⟩, ?_⟩
    · have := (hg.calledIff j cj hcj).2 hjr
      simp [setResult, this]
    · simp [setResult, Val.isDref]
    · have h1 := hcount j
      have h2 := hg.pausedGe j cj hcj
      simp only [setResult]
      omega
  · intro k _ _
    have := hcount k
    omega

/-! ### one iteration -/

theorem afterCall_good {up : Nat → Int} {cells : List Cell} {cur : Nat} {cell : Cell} {rest : List Item} {tag : Nat}
    {cb eb : Slot} (out : Val) (tr : List Entry) (below : List Nat)
    (hg : GoodHeap up cells) (hch : ChainCalled cells (cur :: below)) (hcell : cells[cur]? = some cell)
    (hp : cell.paused = 0) (hcl : cell.called = true) (hcbs : cell.callbacks = Item.pair tag cb eb :: rest)
    (hou : out ≠ .unset) (hnc : out ≠ .dref cur) :
    Good up (afterCall (cells.set cur { cell with callbacks := rest, result := out }) tr cur below out) := by
  have hbelow : ChainCalled cells below := fun x hx => hch x (List.mem_cons_of_mem _ hx)
  by_cases hd : out.isDref = false
  · rw [afterCall_nondref _ _ _ _ _ hd]
    obtain ⟨h1, h2⟩ := good_pair_plain hg hcell hp hcl hcbs hou hd _ rfl
    exact ⟨h1, chainCalled_of_called h2 hch⟩
  · cases out with
    | dref j =>
      have hjc : j ≠ cur := fun h => hnc (by rw [h])
      have hj1 : (cells.set cur { cell with callbacks := rest, result := .dref j })[j]? = cells[j]? := by
        rw [getElem?_set' _ _ _ _ _ hcell, if_neg hjc]
      unfold afterCall
      simp only [hj1]
      cases hcj : cells[j]? with
      | none =>
        simp only
        obtain ⟨h1, h2⟩ := good_pair_none (j := j) hg hcell hp hcl hcbs _ rfl
        exact ⟨h1, chainCalled_of_called h2 hbelow⟩
      | some cj =>
        simp only
        by_cases hmw : mustWait cj = true
        · rw [if_pos hmw]
          obtain ⟨h1, h2⟩ := good_pair_wait hg hcell hp hcl hcbs hjc hcj _ rfl
          exact ⟨h1, chainCalled_of_called h2 hbelow⟩
        · rw [if_neg hmw]
          obtain ⟨h1, h2⟩ := good_pair_steal hg hcell hp hcl hcbs hjc hcj hmw _ rfl
          exact ⟨h1, chainCalled_of_called h2 hch⟩
    | unset => simp [Val.isDref] at hd
    | pyNone => simp [Val.isDref] at hd
    | ok n => simp [Val.isDref] at hd
    | fail e => simp [Val.isDref] at hd

theorem runItem_good {up : Nat → Int} (c : Conf) (cur : Nat) (below : List Nat) (cell : Cell) (item : Item)
    (rest : List Item) (hg : GoodHeap up c.cells) (hch : ChainCalled c.cells (cur :: below))
    (hcell : c.cells[cur]? = some cell) (hp : cell.paused = 0) (hcbs : cell.callbacks = item :: rest) :
    Good up (runItem c cur below cell item rest) := by
  have hcl : cell.called = true := hch cur List.mem_cons_self cell hcell
  obtain ⟨hup, hhc, hnd, hnu⟩ := active_facts hg hcell hp hcl
  cases item with
  | cont chainee =>
    simp only [runItem]
    obtain ⟨⟨h1, h2⟩, cc, hcc, hccl⟩ := good_cont hg hcell hp hcl hcbs _ rfl
    refine ⟨h1, ?_⟩
    apply chainCalled_of_called h2
    intro x hx cx hcx
    simp only [List.mem_cons] at hx
    rcases hx with hx | hx
    · subst hx
      rw [lookup_eq hcc hcx]; exact hccl
    · exact hch x (List.mem_cons.2 hx) cx hcx
  | pair tag cb eb =>
    simp only [runItem]
    have hns := hg.noSelf cur cell hcell (.pair tag cb eb) (by rw [hcbs]; exact List.mem_cons_self)
    simp only [itemNoSelf] at hns
    have hres : cell.result ≠ .dref cur := by
      intro h; rw [h] at hnd; simp [Val.isDref] at hnd
    exact afterCall_good _ _ below hg hch hcell hp hcl hcbs (slotOut_ne_unset _ cb eb hnu)
      (slotOut_ne cur _ cb eb hns.1 hns.2 hres)

theorem stepConf_good {up : Nat → Int} {c c' : Conf} (hg : Good up c) (h : stepConf c = some c') : Good up c' := by
  unfold stepConf at h
  split at h
  · simp at h
  · rename_i cur below hchain
    have hch : ChainCalled c.cells (cur :: below) := hchain ▸ hg.2
    have hbelow : Good up { c with chain := below } :=
      ⟨hg.1, fun x hx => hch x (List.mem_cons_of_mem _ hx)⟩
    split at h
    · simp at h; subst h; exact hbelow
    · rename_i cell hcell
      split at h
      · simp at h; subst h; exact hbelow
      · rename_i hp
        split at h
        · simp at h; subst h; exact hbelow
        · rename_i item rest hcbs
          simp at h; subst h
          exact runItem_good c cur below cell item rest hg.1 hch hcell (Decidable.not_not.mp hp) hcbs

/-! ### the walk -/

theorem loop_good_append {up : Nat → Int} (c : Conf) (ext : List Nat)
    (hg : Good up { c with chain := c.chain ++ ext }) : Good up { loop c with chain := ext } := by
  induction c using loop.induct with
  | case1 c h =>
    have hnil : c.chain = [] := by
      unfold stepConf at h
      split at h
      · assumption
      · split at h
        · simp at h
        · split at h
          · simp at h
          · split at h <;> simp at h
    have hl : loop c = c := by rw [loop]; split <;> simp_all
    rw [hl]
    rw [hnil, List.nil_append] at hg
    exact hg
  | case2 c c' h ih =>
    rw [loop_step h]
    exact ih (stepConf_good hg (stepConf_chain_append h ext))

theorem loop_good {up : Nat → Int} (c : Conf) (hg : Good up c) : Good up (loop c) := by
  induction c using loop.induct with
  | case1 c h =>
    have hl : loop c = c := by rw [loop]; split <;> simp_all
    rw [hl]; exact hg
  | case2 c c' h ih =>
    rw [loop_step h]
    exact ih (stepConf_good hg h)

/-- the program level form -/
theorem coreRun_good {up : Nat → Int} {h h' : Heap} {d : Nat} (hg : GoodHeap up h.1)
    (hd : ∀ cd, h.1[d]? = some cd → cd.called = true) (hr : coreRun h d = some h') : GoodHeap up h'.1 := by
  simp only [coreRun, runCallbacks_eq_loop, Option.some.injEq] at hr
  subst hr
  refine (loop_good { cells := h.1, trace := h.2, chain := [d] } ⟨hg, ?_⟩).1
  intro x hx cx hcx
  simp at hx
  subst hx
  exact hd cx hcx

end TwistedProps.C01
