import TwistedProps.C01.Leaf
/-!
C01, the leaf invariant lifted to whole programs.
-/
namespace TwistedProps.C01
open Twisted.Defer.Core

/-- the add operation keeps `d` a leaf: it installs no callable returning `d`, and on `d` itself no callable
    returning any Deferred -/
def opLeafOK (d : Nat) : Op → Bool
  | .add x cb eb =>
    cb != .user (.retDef d) && eb != .user (.retDef d) && (x != d || (!cb.returnsDeferred && !eb.returnsDeferred))
  | _ => true

/-- `d` is a leaf of the program (decidable, static) -/
def isLeaf (d : Nat) (prog : List Op) : Bool := prog.all (opLeafOK d)

/-- a value the program fires `d` with -/
def Fired (d : Nat) (prog : List Op) (v : Val) : Prop :=
  (∃ n, v = .ok n ∧ Op.callback d n ∈ prog) ∨ (∃ e, v = .fail e ∧ Op.errback d e ∈ prog)

theorem LeafInv.transfer' {F : Val → Prop} {d : Nat} {cells cells' : List Cell} {tr : List Entry}
    (hi : LeafInv F d cells tr) (hok : ∀ k c, cells'[k]? = some c → CellOK d k c)
    (hd : ∀ cd', cells'[d]? = some cd' → ∃ cd, cells[d]? = some cd ∧ cd'.result = cd.result ∧ cd'.called = cd.called) :
    LeafInv F d cells' tr where
  ok := hok
  chain := hi.chain
  last c l hc hl := by
    obtain ⟨cd, h1, h2, _⟩ := hd c hc
    rw [h2]; exact hi.last cd l h1 hl
  fresh c hc hcl := by
    obtain ⟨cd, h1, _, h3⟩ := hd c hc
    exact hi.fresh cd h1 (h3 ▸ hcl)
  firedA c hc hcl he := by
    obtain ⟨cd, h1, h2, h3⟩ := hd c hc
    rw [h2]; exact hi.firedA cd h1 (h3 ▸ hcl) he
  firedB := hi.firedB

theorem coreRun_leaf {F : Val → Prop} {d : Nat} {h h' : Heap} {x : Nat} (hr : coreRun h x = some h')
    (hi : LeafInv F d h.1 h.2) (hcalled : x = d → ∀ cd, h.1[d]? = some cd → cd.called = true) :
    LeafInv F d h'.1 h'.2 := by
  simp only [coreRun, runCallbacks_eq_loop, Option.some.injEq] at hr
  subst hr
  refine (loop_leaf F d { cells := h.1, trace := h.2, chain := [x] } ⟨hi, ?_⟩).1
  intro hm
  simp at hm
  exact hcalled hm.symm

theorem finish_leaf {F : Val → Prop} {d : Nat} {s' : State} {x : Nat} {r : State × Outcome}
    (hi : LeafInv F d s'.cells s'.trace) (hcalled : x = d → ∀ cd, s'.cells[d]? = some cd → cd.called = true)
    (h : (coreRun (s'.cells, s'.trace) x).map
      (fun h => (({ s' with cells := h.1, trace := h.2 } : State), Outcome.ok)) = some r) :
    LeafInv F d r.1.cells r.1.trace := by
  cases hr : coreRun (s'.cells, s'.trace) x with
  | none => simp [hr] at h
  | some hp =>
    simp [hr] at h
    subst h
    exact coreRun_leaf hr hi hcalled

/-- replacing cell `x` by one with the same result and `called` (and acceptable callbacks) keeps the invariant -/
theorem set_leaf {F : Val → Prop} {d : Nat} {cells : List Cell} {tr : List Entry} (hi : LeafInv F d cells tr)
    (x : Nat) (cell c' : Cell) (hcell : cells[x]? = some cell) (hok : CellOK d x c')
    (hr : c'.result = cell.result) (hc : c'.called = cell.called) : LeafInv F d (cells.set x c') tr := by
  apply hi.transfer' (ok_set hi.ok x cell c' hcell hok)
  intro cd' hcd'
  rw [getElem?_set' _ _ _ _ _ hcell] at hcd'
  split at hcd'
  · rename_i hdx; subst hdx
    simp at hcd'; subst hcd'
    exact ⟨cell, hcell, hr, hc⟩
  · exact ⟨cd', hcd', rfl, rfl⟩

theorem fire_leaf {F : Val → Prop} {d : Nat} {cells : List Cell} {tr : List Entry} (hi : LeafInv F d cells tr)
    (x : Nat) (cell : Cell) (v : Val) (hcell : cells[x]? = some cell) (hnc : cell.called = false)
    (hv : v.isDref = false) (hF : x = d → F v) :
    LeafInv F d (cells.set x { cell with called := true, result := v }) tr := by
  have hvd : v ≠ .dref d := by intro h; rw [h] at hv; simp [Val.isDref] at hv
  have hok0 := hi.ok x cell hcell
  have hok : CellOK d x { cell with called := true, result := v } := ⟨hok0.1, hvd, fun h => ⟨(hok0.2.2 h).1, hv⟩⟩
  by_cases hxd : x = d
  · subst hxd
    have hempty := hi.fresh cell hcell hnc
    have hnew : (cells.set x { cell with called := true, result := v })[x]? =
        some { cell with called := true, result := v } := by
      rw [getElem?_set' _ _ _ _ _ hcell, if_pos rfl]
    refine ⟨ok_set hi.ok x cell _ hcell hok, hi.chain, ?_, ?_, ?_, hi.firedB⟩
    · intro c l _ hl; rw [hempty] at hl; simp at hl
    · intro c hc hcl; rw [hnew] at hc; simp at hc; subst hc; simp at hcl
    · intro c hc _ _; rw [hnew] at hc; simp at hc; subst hc; exact hF rfl
  · apply hi.transfer' (ok_set hi.ok x cell _ hcell hok)
    intro cd' hcd'
    rw [getElem?_set' _ _ _ _ _ hcell, if_neg (Ne.symm hxd)] at hcd'
    exact ⟨cd', hcd', rfl, rfl⟩

theorem stepWith_leaf {F : Val → Prop} {d : Nat} {s : State} (hi : LeafInv F d s.cells s.trace)
    {op : Op} (hop : opLeafOK d op = true)
    (hF1 : ∀ n, op = .callback d n → F (.ok n)) (hF2 : ∀ e, op = .errback d e → F (.fail e))
    {r : State × Outcome} (h : stepWith coreRun s op = some r) : LeafInv F d r.1.cells r.1.trace := by
  unfold stepWith at h
  cases op with
  | add x cb eb =>
    simp only at h
    split at h
    · simp at h; subst h; exact hi
    · rename_i cell hcell
      simp only [opLeafOK, Bool.and_eq_true, bne_iff_ne, ne_eq, Bool.or_eq_true, Bool.not_eq_true'] at hop
      have hok0 := hi.ok x cell hcell
      have hok : CellOK d x { cell with callbacks := cell.callbacks ++ [.pair s.nadds cb eb] } := by
        refine ⟨?_, hok0.2.1, ?_⟩
        · intro it hit
          simp only [List.mem_append, List.mem_singleton] at hit
          rcases hit with hit | hit
          · exact hok0.1 it hit
          · subst hit; exact ⟨hop.1.1, hop.1.2⟩
        · intro hxd
          refine ⟨?_, (hok0.2.2 hxd).2⟩
          intro it hit
          simp only [List.mem_append, List.mem_singleton] at hit
          rcases hit with hit | hit
          · exact (hok0.2.2 hxd).1 it hit
          · subst hit
            rcases hop.2 with h2 | h2
            · exact absurd hxd h2
            · exact h2
      have hi1 := set_leaf hi x cell _ hcell hok rfl rfl
      split at h
      · rename_i hcalled
        refine finish_leaf (s' := { s with cells := _, nadds := s.nadds + 1 }) hi1 ?_ h
        intro hxd cd hcd
        subst hxd
        simp only at hcd
        rw [getElem?_set' _ _ _ _ _ hcell, if_pos rfl] at hcd
        simp at hcd; subst hcd; exact hcalled
      · simp at h; subst h; exact hi1
  | pause x =>
    simp only at h
    split at h
    · simp at h; subst h; exact hi
    · rename_i cell hcell
      simp at h; subst h
      exact set_leaf hi x cell _ hcell (hi.ok x cell hcell) rfl rfl
  | unpause x =>
    simp only at h
    split at h
    · simp at h; subst h; exact hi
    · rename_i cell hcell
      have hi1 : LeafInv F d (s.cells.set x { cell with paused := cell.paused - 1 }) s.trace :=
        set_leaf hi x cell _ hcell (hi.ok x cell hcell) rfl rfl
      split at h
      · simp at h; subst h; exact hi1
      · split at h
        · rename_i hcalled
          refine finish_leaf (s' := { s with cells := _ }) hi1 ?_ h
          intro hxd cd hcd
          subst hxd
          simp only at hcd
          rw [getElem?_set' _ _ _ _ _ hcell, if_pos rfl] at hcd
          simp at hcd; subst hcd; exact hcalled
        · simp at h; subst h; exact hi1
  | callback x n =>
    simp only at h
    split at h
    · simp at h; subst h; exact hi
    · rename_i cell hcell
      split at h
      · simp at h; subst h; exact hi
      · rename_i hnc
        have hi1 := fire_leaf hi x cell (.ok n) hcell (by simpa using hnc) (by simp [Val.isDref])
          (fun hxd => hF1 n (by rw [hxd]))
        refine finish_leaf (s' := { s with cells := _ }) hi1 ?_ h
        intro hxd cd hcd
        subst hxd
        simp only at hcd
        rw [getElem?_set' _ _ _ _ _ hcell, if_pos rfl] at hcd
        simp at hcd; subst hcd; rfl
  | errback x e =>
    simp only at h
    split at h
    · simp at h; subst h; exact hi
    · rename_i cell hcell
      split at h
      · simp at h; subst h; exact hi
      · rename_i hnc
        have hi1 := fire_leaf hi x cell (.fail e) hcell (by simpa using hnc) (by simp [Val.isDref])
          (fun hxd => hF2 e (by rw [hxd]))
        refine finish_leaf (s' := { s with cells := _ }) hi1 ?_ h
        intro hxd cd hcd
        subst hxd
        simp only at hcd
        rw [getElem?_set' _ _ _ _ _ hcell, if_pos rfl] at hcd
        simp at hcd; subst hcd; rfl

theorem exec_leaf {F : Val → Prop} {d : Nat} {s s' : State} (hi : LeafInv F d s.cells s.trace) {ops : List Op}
    (hops : ∀ op ∈ ops, opLeafOK d op = true)
    (hF1 : ∀ n, Op.callback d n ∈ ops → F (.ok n)) (hF2 : ∀ e, Op.errback d e ∈ ops → F (.fail e))
    (h : exec s ops = some s') : LeafInv F d s'.cells s'.trace := by
  induction ops generalizing s with
  | nil => simp [exec, execWith] at h; subst h; exact hi
  | cons op ops ih =>
    simp only [exec, execWith] at h
    split at h
    · simp at h
    · rename_i s1 o hs
      have h1 := stepWith_leaf hi (hops op (by simp)) (fun n hn => hF1 n (by simp [hn]))
        (fun e he => hF2 e (by simp [he])) (r := (s1, o)) hs
      exact ih h1 (fun op' h' => hops op' (by simp [h'])) (fun n hn => hF1 n (by simp [hn]))
        (fun e he => hF2 e (by simp [he])) h

theorem init_leaf (F : Val → Prop) (d n : Nat) : LeafInv F d (init n).cells (init n).trace := by
  have hcell : ∀ (k : Nat) (c : Cell), (init n).cells[k]? = some c → c = ({} : Cell) := by
    intro k c hc
    simp [init, List.getElem?_replicate] at hc
    exact hc.2.symm
  refine ⟨?_, by simp [init, dTrace, chained], ?_, ?_, ?_, ?_⟩
  · intro k c hc
    rw [hcell k c hc]
    exact ⟨by simp, by simp, fun _ => ⟨by simp, by simp [Val.isDref]⟩⟩
  · intro c l _ hl; simp [init, dTrace] at hl
  · intro c _ _; simp [init, dTrace]
  · intro c hc hcl; rw [hcell d c hc] at hcl; simp at hcl
  · intro e he; simp [init, dTrace] at he

end TwistedProps.C01
