import TwistedProps.C01.ChainSim
import TwistedProps.C01.ChainInv
/-!
C01, chaining programs: `Spec.run` (recursion, with the `_runningCallbacks` guard) = `loop` (chain stack) on good
heaps.  The induction replaces the recursive calls of `Spec.run` (resume → `run c`) by pushes on the chain stack, using
`loop_chain_append` (the chain stack is a call stack); the list of running Deferreds of the recursion is the part of the
chain stack below the top.
-/
namespace TwistedProps.C01
open Twisted.Defer.Core
open Twisted.Defer (Spec.run Spec.specRun Spec.fuelFor)

theorem modify_eq_set (cells : List Cell) (i : Nat) (f : Cell → Cell) (c : Cell) (h : cells[i]? = some c) :
    Twisted.Defer.Core.modify cells i f = cells.set i (f c) := by
  unfold Twisted.Defer.Core.modify
  rw [h]

/-- the Deferred on top of a good chain stack that is about to run a callback: fired, holds a plain result -/
theorem top_facts {up : Nat → Int} {cells : List Cell} {tr : List Entry} {d : Nat} {below : List Nat} {cell : Cell}
    (hg : Good up { cells := cells, trace := tr, chain := d :: below }) (hcell : cells[d]? = some cell)
    (hp : cell.paused = 0) : cell.called = true ∧ cell.result ≠ .unset ∧ cell.result.isDref = false := by
  have hc : cell.called = true := hg.2 d (by simp) cell hcell
  refine ⟨hc, (hg.1.calledIff d cell hcell).1 hc, ?_⟩
  cases hd : cell.result.isDref with
  | false => rfl
  | true =>
    have h1 := hg.1.drefPaused d cell hcell hd
    have h2 := hg.1.upNonneg d
    omega

theorem out_dref_ne {d j : Nat} {res : Val} {cb eb : Slot} (hres : res.isDref = false)
    (hns : cb ≠ .user (.retDef d) ∧ eb ≠ .user (.retDef d)) (h : slotOut (pick res cb eb) res = .dref j) : j ≠ d := by
  intro hjd
  subst hjd
  unfold pick at h
  split at h
  · cases eb with
    | passthru => simp [slotOut] at h; rw [h] at hres; simp [Val.isDref] at hres
    | user b => cases b <;> simp_all [slotOut, Beh.out]
  · cases cb with
    | passthru => simp [slotOut] at h; rw [h] at hres; simp [Val.isDref] at hres
    | user b => cases b <;> simp_all [slotOut, Beh.out]

theorem contCount_pos_of_mem' (j : Nat) : ∀ (l : List Item), Item.cont j ∈ l → 0 < contCount j l := by
  intro l
  induction l with
  | nil => intro h; simp at h
  | cons x xs ih =>
    intro h
    cases x with
    | pair t cb eb =>
      simp only [contCount]
      apply ih
      simpa using h
    | cont c =>
      simp only [contCount]
      by_cases hc : c = j
      · rw [if_pos hc]; omega
      · have : Item.cont j ∈ xs := by
          simp only [List.mem_cons, Item.cont.injEq] at h
          rcases h with h | h
          · exact absurd h.symm hc
          · exact h
        have := ih this
        omega

theorem noCont_of_heapCount (j : Nat) : ∀ (cells : List Cell), heapCount j cells = 0 → NoCont j cells := by
  intro cells
  induction cells with
  | nil => intro _ x cx hx; simp at hx
  | cons c cs ih =>
    intro h x cx hx
    simp only [heapCount] at h
    cases x with
    | zero =>
      simp at hx; subst hx
      intro hm
      have := contCount_pos_of_mem' j _ hm
      omega
    | succ k =>
      simp at hx
      exact ih (by omega) k cx hx

/-- what the reference interpreter's `addBoth(resume)`+`run j` on an idle fired Deferred produces is what the
    implementation's result stealing produces -/
theorem steal_heap (cells1 : List Cell) (d j : Nat) (cd cj : Cell) (hjd : j ≠ d) (hd : cells1[d]? = some cd)
    (hj : cells1[j]? = some cj) (hcb : cj.callbacks = []) (hp : cj.paused = 0) :
    Twisted.Defer.Core.modify (Twisted.Defer.Core.modify
        (((Twisted.Defer.Core.modify cells1 d pauseCell).set j (appendCont d cj)).set j
          { callbacks := [], result := (appendCont d cj).result, called := (appendCont d cj).called,
            paused := 0 }) d (handOver (appendCont d cj).result)) j (setResult .pyNone) =
      Twisted.Defer.Core.modify (cells1.set j (setResult .pyNone cj)) d (setResult cj.result) := by
  have h0 : (Twisted.Defer.Core.modify cells1 d pauseCell)[j]? = some cj := by
    rw [getElem?_modify, if_neg hjd]; exact hj
  have h1 : ((Twisted.Defer.Core.modify cells1 d pauseCell).set j (appendCont d cj))[j]? = some (appendCont d cj) := by
    rw [getElem?_set' _ _ _ _ _ h0, if_pos rfl]
  apply List.ext_getElem?
  intro k
  rw [getElem?_modify, getElem?_modify, getElem?_set' _ _ _ _ _ h1, getElem?_set' _ _ _ _ _ h0, getElem?_modify,
    getElem?_modify, getElem?_set' _ _ _ _ _ hj]
  by_cases hkj : k = j
  · subst hkj
    simp only [if_pos rfl, if_neg hjd]
    simp [setResult, appendCont, hcb, hp]
  · by_cases hkd : k = d
    · subst hkd
      simp only [if_neg hkj, if_pos rfl, hd]
      simp [setResult, handOver, pauseCell, appendCont]
    · simp only [if_neg hkj, if_neg hkd]


theorem idleFired_eq (cj : Cell) : Twisted.Defer.Spec.idleFired cj = !mustWait cj := by
  unfold Twisted.Defer.Spec.idleFired mustWait
  simp only [bne]
  generalize (cj.result == Val.unset) = a
  generalize cj.result.isDref = b
  generalize (cj.paused == 0) = c
  generalize cj.callbacks.isEmpty = e
  cases a <;> cases b <;> cases c <;> cases e <;> rfl

/-- the reference does not start a nested loop for a Deferred that is running or paused -/
theorem specRun_stop (f : Nat) (running : List Nat) (cells : List Cell) (tr : List Entry) (j : Nat)
    (h : j ∈ running ∨ ∃ cj, cells[j]? = some cj ∧ cj.paused ≠ 0) :
    Spec.run (f + 1) running (cells, tr) j = some (cells, tr) := by
  rw [Spec.run]
  by_cases hr : running.contains j = true
  · rw [if_pos hr]
  · rw [if_neg hr]
    rcases h with h | ⟨cj, hj, hp⟩
    · exact absurd (by simpa using h) hr
    · simp only [hj]
      rw [if_pos hp]

section
variable {up : Nat → Int} {G : Conf → Prop}
  (hG : ∀ c, G c → Good2 up c)
  (hstep : ∀ c c', G c → stepConf c = some c' → G c')
  (happ : ∀ (c : Conf) (ext : List Nat), G { c with chain := c.chain ++ ext } → G { loop c with chain := ext })
include hG hstep happ

/-- **Recursion = chain stack**, heap level.  `ext` = the Deferreds whose loops are on the call stack of the
    recursion = the chain stack below `d`.  On a configuration satisfying the invariants, the recursive reference
    interpreter (any sufficient fuel) computes exactly the heap and trace that the chain-stack walk over `[d]` computes. -/
theorem sim : ∀ (m : Nat) (cells : List Cell) (tr : List Entry) (d : Nat) (ext : List Nat), 2 * pending cells + 1 ≤ m →
      G { cells := cells, trace := tr, chain := d :: ext } → d ∉ ext →
      ∀ fuel, m + 1 ≤ fuel →
      Spec.run fuel ext (cells, tr) d = some ((loop { cells := cells, trace := tr, chain := [d] }).cells,
                                              (loop { cells := cells, trace := tr, chain := [d] }).trace) := by
  intro m
  induction m using Nat.strongRecOn with
  | _ m ih =>
    intro cells tr d ext hm hgG hdext fuel hf
    obtain ⟨f, rfl⟩ : ∃ f, fuel = f + 1 := ⟨fuel - 1, by omega⟩
    have hg2 := hG _ hgG
    have hg : Good up { cells := cells, trace := tr, chain := d :: ext } := hg2.1
    rw [Spec.run]
    have hnr : ext.contains d = false := by simpa using hdext
    simp only [hnr, Bool.false_eq_true, if_false]
    have hstop : stepConf { cells := cells, trace := tr, chain := [d] } = some { cells := cells, trace := tr, chain := [] } →
        some (cells, tr) = some ((loop { cells := cells, trace := tr, chain := [d] }).cells,
                                 (loop { cells := cells, trace := tr, chain := [d] }).trace) := by
      intro hs; rw [loop_step hs, loop_nil]
    -- a step of the walk over `[d]` is a step of the walk over `d :: ext`
    have hext : ∀ c', stepConf { cells := cells, trace := tr, chain := [d] } = some c' →
        G { c' with chain := c'.chain ++ ext } := by
      intro c' hs
      have := stepConf_chain_append hs ext
      exact hstep _ _ hgG this
    cases hcell : cells[d]? with
    | none => exact hstop (by simp [stepConf, hcell])
    | some cell =>
      simp only
      by_cases hpz : cell.paused ≠ 0
      · rw [if_pos hpz]; exact hstop (by simp [stepConf, hcell, hpz])
      · rw [if_neg hpz]
        have hp0 : cell.paused = 0 := Decidable.not_not.1 hpz
        cases hcbs : cell.callbacks with
        | nil => exact hstop (by simp [stepConf, hcell, hpz, hcbs])
        | cons item rest =>
          have hplen := length_le_pending cells d cell hcell
          rw [hcbs, List.length_cons] at hplen
          cases item with
          | cont c =>
            simp only
            generalize hH : Twisted.Defer.Core.modify (Twisted.Defer.Core.modify
              (cells.set d { cell with callbacks := rest }) c (handOver cell.result)) d (setResult .pyNone) = H1
            have hs : stepConf { cells := cells, trace := tr, chain := [d] } =
                some { cells := H1, trace := tr, chain := [c, d] } := by
              rw [← hH]; simp [stepConf, hcell, hpz, hcbs, runItem]
            have hg1 : G { cells := H1, trace := tr, chain := c :: d :: ext } := hext _ hs
            -- the chainee is waiting, hence neither `d` nor one of the running Deferreds below
            have hcnot : c ∉ d :: ext := by
              obtain ⟨cc0, hcc0, _⟩ := hg.1.contCalled d cell c hcell (by simp [hcbs])
              have h1 : up c + (heapCount c cells : Int) ≤ cc0.paused := hg.1.pausedGe c cc0 hcc0
              have h2 := hg.1.upNonneg c
              have h3 : 0 < contCount c cell.callbacks := contCount_pos_of_mem' c _ (by simp [hcbs])
              have h4 := contCount_le_heapCount (k := c) hcell
              intro hmem
              simp only [List.mem_cons] at hmem
              rcases hmem with hmem | hmem
              · subst hmem
                rw [hcell] at hcc0; cases hcc0
                omega
              · have := hg2.2.2 c (by simpa using hmem) cc0 hcc0
                omega
            have hp1 : pending H1 + 1 = pending cells := by
              rw [← hH, pending_modify_same _ _ _ (by intro; rfl), pending_modify_same _ _ _ (by intro; rfl)]
              have := pending_set cells d cell { cell with callbacks := rest } hcell
              simp only [hcbs, List.length_cons] at this
              omega
            have happ1 := loop_chain_append { cells := H1, trace := tr, chain := [c] } [d]
            have hgL := happ { cells := H1, trace := tr, chain := [c] } (d :: ext) hg1
            simp only [List.cons_append, List.nil_append] at happ1
            have hpL := pending_loop_le H1 tr c
            rw [loop_step hs, happ1]
            have hskip : stepConf { cells := H1, trace := tr, chain := [c] } = some { cells := H1, trace := tr, chain := [] } →
                Spec.run f ext (H1, tr) d =
                  some ((loop { loop { cells := H1, trace := tr, chain := [c] } with chain := [d] }).cells,
                        (loop { loop { cells := H1, trace := tr, chain := [c] } with chain := [d] }).trace) := by
              intro hsc
              rw [loop_step hsc, loop_nil] at hgL ⊢
              exact ih (m - 1) (by omega) H1 tr d ext (by omega) hgL hdext f (by omega)
            cases hc : H1[c]? with
            | none => exact hskip (by simp [stepConf, hc])
            | some cc =>
              simp only
              have hccalled : cc.called = true := (hG _ hg1).1.2 c (by simp) cc hc
              by_cases hcp : cc.paused = 0
              · rw [if_pos ⟨hcp, hccalled⟩]
                rw [ih (m - 1) (by omega) H1 tr c (d :: ext) (by omega) hg1 hcnot f (by omega)]
                simp only
                exact ih (m - 1) (by omega) _ _ d ext (by omega) hgL hdext f (by omega)
              · rw [if_neg (fun h => hcp h.1)]
                exact hskip (by simp [stepConf, hc, hcp])
          | pair tag cb eb =>
            simp only
            obtain ⟨hcalled, hrun, hnd⟩ := top_facts hg hcell hp0
            have hns : cb ≠ .user (.retDef d) ∧ eb ≠ .user (.retDef d) :=
              hg.1.noSelf d cell hcell (.pair tag cb eb) (by simp [hcbs])
            have hs0 : stepConf { cells := cells, trace := tr, chain := [d] } =
                some (afterCall (cells.set d { cell with callbacks := rest, result := slotOut (pick cell.result cb eb) cell.result })
                  (slotTrace (pick cell.result cb eb) tr d tag cell.result) d [] (slotOut (pick cell.result cb eb) cell.result)) := by
              simp [stepConf, hcell, hpz, hcbs, runItem]
            have hout_ne : ∀ j, slotOut (pick cell.result cb eb) cell.result = .dref j → j ≠ d :=
              fun j h => out_dref_ne hnd hns h
            generalize hout : slotOut (pick cell.result cb eb) cell.result = out at hs0 hout_ne ⊢
            generalize htr : slotTrace (pick cell.result cb eb) tr d tag cell.result = tr' at hs0 ⊢
            generalize hc1 : cells.set d { cell with callbacks := rest, result := out } = cells1 at hs0 ⊢
            have hp1 : pending cells1 + 1 = pending cells := by
              rw [← hc1]
              have := pending_set cells d cell { cell with callbacks := rest, result := out } hcell
              simp only [hcbs, List.length_cons] at this
              omega
            have hg1 := hext _ hs0
            have hother : ∀ j, j ≠ d → cells1[j]? = cells[j]? := by
              intro j hjd; rw [← hc1, getElem?_set' _ _ _ _ _ hcell, if_neg hjd]
            rw [loop_step hs0]
            cases out with
            | dref j =>
              simp only
              have hjd : j ≠ d := hout_ne j rfl
              cases hcj : cells1[j]? with
              | none =>
                simp only
                have hac : afterCall cells1 tr' d [] (.dref j) =
                    { cells := Twisted.Defer.Core.modify cells1 d pauseCell, trace := tr', chain := [] } := by
                  simp [afterCall, hcj]
                rw [hac, loop_nil]
              | some cj =>
                simp only
                have hcj0 : cells[j]? = some cj := by rw [← hother j hjd]; exact hcj
                rw [idleFired_eq]
                by_cases hw : mustWait cj = true
                · simp only [hw, Bool.not_true, Bool.false_eq_true, if_false]
                  have hac : afterCall cells1 tr' d [] (.dref j) =
                      { cells := Twisted.Defer.Core.modify (Twisted.Defer.Core.modify cells1 d pauseCell) j (appendCont d),
                        trace := tr', chain := [] } := by
                    simp [afterCall, hcj, hw]
                  rw [hac, loop_nil]
                  by_cases hclj : cj.called = true
                  · rw [if_pos hclj]
                    obtain ⟨f', rfl⟩ : ∃ f', f = f' + 1 := ⟨f - 1, by omega⟩
                    apply specRun_stop
                    by_cases hje : j ∈ ext
                    · exact Or.inl hje
                    · refine Or.inr ⟨appendCont d cj, ?_, ?_⟩
                      · rw [getElem?_modify, if_pos rfl, getElem?_modify, if_neg hjd, hcj]; rfl
                      · -- otherwise `j` is idle, fired, not on the stack: it has no callbacks, so it need not be waited for
                        intro hpj
                        have hpj' : cj.paused = 0 := hpj
                        have hru : cj.result ≠ .unset := (hg.1.calledIff j cj hcj0).1 hclj
                        have hdr : cj.result.isDref = false := by
                          cases hd : cj.result.isDref with
                          | false => rfl
                          | true =>
                            have h1 := hg.1.drefPaused j cj hcj0 hd
                            have h2 := hg.1.upNonneg j
                            omega
                        have hcb : cj.callbacks = [] :=
                          hg2.2.1 j cj hcj0 (by simp [hjd, hje]) hclj hpj' hdr
                        simp only [mustWait, Bool.or_eq_true, bne_iff_ne, ne_eq, beq_iff_eq, Bool.not_eq_true'] at hw
                        rcases hw with ((h' | h') | h') | h'
                        · exact hru h'
                        · rw [hdr] at h'; simp at h'
                        · exact h' hpj'
                        · rw [hcb] at h'; simp at h'
                  · rw [if_neg hclj]
                · -- the returned Deferred is idle: its result is used at once, by both
                  have hw' : mustWait cj = false := by
                    cases h : mustWait cj with
                    | false => rfl
                    | true => exact absurd h hw
                  simp only [hw', Bool.not_false, if_true]
                  have hac : afterCall cells1 tr' d [] (.dref j) =
                      { cells := Twisted.Defer.Core.modify (cells1.set j (setResult .pyNone cj)) d (setResult cj.result),
                        trace := tr', chain := [d] } := by
                    simp [afterCall, hcj, hw']
                  rw [hac] at hg1 ⊢
                  have hps : pending (Twisted.Defer.Core.modify (cells1.set j (setResult .pyNone cj)) d (setResult cj.result)) + 1
                      = pending cells := by
                    rw [pending_modify_same _ _ _ (by intro; rfl)]
                    have := pending_set cells1 j cj (setResult .pyNone cj) hcj
                    have hl : (setResult .pyNone cj).callbacks.length = cj.callbacks.length := rfl
                    rw [hl] at this
                    omega
                  exact ih (m - 1) (by omega)
                    (Twisted.Defer.Core.modify (cells1.set j (setResult .pyNone cj)) d (setResult cj.result)) tr' d ext
                    (by omega) hg1 hdext f (by omega)
            | unset =>
              simp only
              rw [afterCall_nondref _ _ _ _ _ (by simp [Val.isDref])] at hg1 ⊢
              exact ih (m - 1) (by omega) cells1 tr' d ext (by omega) hg1 hdext f (by omega)
            | pyNone =>
              simp only
              rw [afterCall_nondref _ _ _ _ _ (by simp [Val.isDref])] at hg1 ⊢
              exact ih (m - 1) (by omega) cells1 tr' d ext (by omega) hg1 hdext f (by omega)
            | ok n =>
              simp only
              rw [afterCall_nondref _ _ _ _ _ (by simp [Val.isDref])] at hg1 ⊢
              exact ih (m - 1) (by omega) cells1 tr' d ext (by omega) hg1 hdext f (by omega)
            | fail e =>
              simp only
              rw [afterCall_nondref _ _ _ _ _ (by simp [Val.isDref])] at hg1 ⊢
              exact ih (m - 1) (by omega) cells1 tr' d ext (by omega) hg1 hdext f (by omega)

/-- the executable reference interpreter (with its own fuel) answers exactly what the chain-stack implementation answers -/
theorem specRun_eq_coreRun_of {h : Heap} {d : Nat} (hg : G { cells := h.1, trace := h.2, chain := [d] }) :
    Spec.specRun h d = coreRun h d := by
  have := sim hG hstep happ (2 * pending h.1 + 1) h.1 h.2 d [] (Nat.le_refl _) hg (by simp) (Spec.fuelFor h)
    (by unfold Spec.fuelFor; omega)
  simp only [Spec.specRun, coreRun, runCallbacks_eq_loop]
  exact this

end

end TwistedProps.C01
