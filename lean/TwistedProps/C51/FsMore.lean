import TwistedProps.C52.FsLemmas
namespace Twisted.Fs

theorem endsWith_iff (n ext : Name) : endsWith n ext = true ↔ ext <:+ n := by
  unfold endsWith
  constructor
  · intro h
    simp only [Bool.and_eq_true, beq_iff_eq, decide_eq_true_eq] at h
    have := List.take_append_drop (n.length - ext.length) n
    rw [h.1] at this
    exact ⟨_, this⟩
  · rintro ⟨t, rfl⟩
    simp

theorem mem_names_iff (fs : Fs) (n : Name) : n ∈ names fs ↔ (get fs n).isSome = true := by
  induction fs with
  | nil => simp [names]
  | cons e rest ih =>
    obtain ⟨m, c⟩ := e
    simp only [names, List.map_cons, List.mem_cons, get_cons] at ih ⊢
    by_cases h : m = n
    · simp [h]
    · have : ¬ n = m := fun hh => h hh.symm
      simp [h, this, ih]

def WF (fs : Fs) : Prop := (names fs).Nodup

theorem names_erase (fs : Fs) (n : Name) : names (erase fs n) = (names fs).filter (· ≠ n) := by
  simp [names, erase, List.filter_map, Function.comp_def]

theorem WF_erase {fs : Fs} (h : WF fs) (n : Name) : WF (erase fs n) := by
  unfold WF; rw [names_erase]; exact List.Nodup.sublist List.filter_sublist h

theorem WF_set {fs : Fs} (h : WF fs) (n : Name) (c : Bytes) : WF (set fs n c) := by
  unfold WF set
  simp only [names, List.map_cons, List.nodup_cons]
  refine ⟨?_, WF_erase h n⟩
  have := names_erase fs n
  simp only [names] at this
  rw [this]; simp

theorem WF_apply {fs : Fs} (h : WF fs) (p : Prim) : WF (p.apply fs) := by
  cases p with
  | create n => exact WF_set h _ _
  | write n d =>
    simp only [Prim.apply]
    split
    · exact WF_set h _ _
    · exact h
  | remove n => exact WF_erase h _
  | rename a b =>
    simp only [Prim.apply]
    split
    · exact WF_set (WF_erase h _) _ _
    · exact h

theorem WF_run {fs : Fs} (h : WF fs) (tr : List Prim) : WF (run tr fs) := by
  induction tr generalizing fs with
  | nil => exact h
  | cons p tr ih => exact ih (WF_apply h p)

theorem WF_crashAt {fs : Fs} (h : WF fs) (tr : List Prim) (k p : Nat) : WF (crashAt tr k p fs) := by
  unfold crashAt
  split
  · exact WF_apply (WF_run h _) _
  · exact WF_run h _

theorem filter_eq_singleton {α} [DecidableEq α] (l : List α) (p : α → Bool) (s : α)
    (hn : l.Nodup) (hs : s ∈ l) (hp : p s = true) (ho : ∀ x ∈ l, x ≠ s → p x = false) :
    l.filter p = [s] := by
  induction l with
  | nil => cases hs
  | cons a l ih =>
    simp only [List.nodup_cons] at hn
    by_cases ha : a = s
    · subst ha
      have : l.filter p = [] := by
        rw [List.filter_eq_nil_iff]
        intro x hx
        have : x ≠ a := fun h => hn.1 (h ▸ hx)
        simp [ho x (List.mem_cons_of_mem _ hx) this]
      simp [hp, this]
    · have hs' : s ∈ l := by
        rcases List.mem_cons.mp hs with h | h
        · exact absurd h.symm ha
        · exact h
      have := ih hn.2 hs' (fun x hx => ho x (List.mem_cons_of_mem _ hx))
      simp [ho a (List.mem_cons_self) ha, this]

theorem globExt_nil (fs : Fs) (ext : Name) (h : ∀ n ∈ names fs, endsWith n ext = false) :
    globExt fs ext = [] := by
  unfold globExt
  have : (names fs).filter (fun n => endsWith n ext) = [] := by
    rw [List.filter_eq_nil_iff]; intro x hx; simp [h x hx]
  rw [this]; rfl

theorem globExt_singleton (fs : Fs) (ext s : Name) (hwf : WF fs) (hs : s ∈ names fs)
    (hp : endsWith s ext = true) (ho : ∀ n ∈ names fs, n ≠ s → endsWith n ext = false) :
    globExt fs ext = [s] := by
  unfold globExt
  rw [filter_eq_singleton _ _ s hwf hs hp ho]; rfl

end Twisted.Fs
