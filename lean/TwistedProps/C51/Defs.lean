import TwistedModel.Fs.DirDbm
/-!
C51 — the vocabulary of the theorems in `TwistedProps/C51.lean`.
-/
namespace TwistedProps.C51
open Twisted.Fs Twisted.Fs.DirDbm

/-- a name that is the encoding of some key -/
def IsKey (n : Name) : Prop := ∃ k, n = encodeKey k

/-- every file in the directory is the encoding of a key: no stray, no leftover -/
def Clean (fs : Fs) : Prop := ∀ m, (get fs m).isSome = true → IsKey m


/-- the database as its users see it: `db[k]` (`none` = `KeyError`) -/
def view (fs : Fs) (k : Bytes) : Option Bytes := get fs (encodeKey k)

/-- reopening = running the recovery of `DirDBM.__init__` to completion -/
def recover (fs : Fs) : Fs := run (recoverTrace fs) fs

/-- successive reopenings, each killed inside its recovery at cut `(c, p)` -/
def reopenCrashes : List (Nat × Nat) → Fs → Fs
  | [], fs => fs
  | (c, p) :: rest, fs => reopenCrashes rest (crashAt (recoverTrace fs) c p fs)

/-- … and finally one reopening that completes -/
def finalState (cuts : List (Nat × Nat)) (fs : Fs) : Fs := recover (reopenCrashes cuts fs)


end TwistedProps.C51
