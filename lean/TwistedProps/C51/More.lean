import TwistedProps.C51.Recovery
/-!
C51 — the other mutating entry points of `DirDBM` (`setdefault`, `update`, `clear`) and a `__setitem__` whose
write fails with an exception while the process lives on.
-/
namespace TwistedProps.C51
open Twisted.Fs Twisted.Fs.DirDbm TwistedProps.C52

/-- crash states of `create t; write t w; remove t` (the failing `__setitem__`), as finite maps -/
theorem fail_crash_shapes (fs : Fs) (t : Name) (w : Bytes) (k p : Nat) :
    let S := crashAt ([.create t] ++ writeP t w ++ [.remove t]) k p fs
    (∀ m, get S m = get fs m) ∨
    (∃ q, q <+: w ∧ ∀ m, get S m = if m = t then some q else get fs m) ∨
    (∀ m, get S m = if m = t then none else get fs m) := by
  intro S
  by_cases hc : w = []
  · subst hc
    rcases k with _ | _ | k
    · left; intro m; simp [S, writeP, crashAt]
    · right; left; refine ⟨[], List.prefix_refl _, ?_⟩
      intro m; simp [S, writeP, crashAt, get_apply_create]
    · right; right; intro m
      simp [S, writeP, crashAt, get_apply_create, get_apply_remove]
      by_cases h2 : m = t <;> simp [h2]
  · have hw : writeP t w = [.write t w] := by
      cases w with
      | nil => exact absurd rfl hc
      | cons x xs => simp [writeP]
    rcases k with _ | _ | _ | k
    · left; intro m; simp [S, hw, crashAt]
    · right; left; refine ⟨w.take p, List.take_prefix _ _, ?_⟩
      intro m; simp [S, hw, crashAt, get_apply_create, get_apply_write]
      by_cases h2 : m = t <;> simp [h2]
    · right; left; refine ⟨w, List.prefix_refl _, ?_⟩
      intro m; simp [S, hw, crashAt, get_apply_create, get_apply_write]
      by_cases h2 : m = t <;> simp [h2]
    · right; right; intro m
      simp [S, hw, crashAt, get_apply_create, get_apply_write, get_apply_remove]
      by_cases h2 : m = t <;> simp [h2]

theorem tmpName_eq (fs : Fs) (k : Bytes) :
    (exists_ fs (encodeKey k) = true ∧ tmpName fs k = encodeKey k ++ extRpl) ∨
    (exists_ fs (encodeKey k) = false ∧ tmpName fs k = encodeKey k ++ extNew) := by
  cases h : exists_ fs (encodeKey k) <;> simp [tmpName, h]

theorem tmp_absent {fs0 : Fs} (hcl : Clean fs0) (k : Bytes) : get fs0 (tmpName fs0 k) = none := by
  cases h : get fs0 (tmpName fs0 k) with
  | none => rfl
  | some x =>
    have hk := hcl _ (by rw [h]; rfl)
    rcases tmpName_eq fs0 k with ⟨_, e⟩ | ⟨_, e⟩
    · exact absurd e (key_ne_stray hk dot_in_rpl)
    · exact absurd e (key_ne_stray hk dot_in_new)

/-- **a set whose write fails (exception, the process lives on), killed at any point of it — handler
    included — or not at all, then any nested recovery crashes**: the recovered directory is the old one.
    (`c` beyond the end of the trace = the operation ran to its end: the handler has removed the temporary
    file, the caller got the exception.) -/
theorem set_fail_final (fs0 : Fs) (hwf : WF fs0) (hcl : Clean fs0) (k v : Bytes) (n c p : Nat)
    (cuts : List (Nat × Nat)) :
    ∀ m, get (finalState cuts (crashAt (setFailTrace fs0 k v n) c p fs0)) m = get fs0 m := by
  have ht0 := tmp_absent hcl k
  have hwfS : WF (crashAt (setFailTrace fs0 k v n) c p fs0) := WF_crashAt hwf _ _ _
  have hS := fail_crash_shapes fs0 (tmpName fs0 k) (v.take n) c p
  simp only at hS
  rw [show [Prim.create (tmpName fs0 k)] ++ writeP (tmpName fs0 k) (v.take n) ++ [Prim.remove (tmpName fs0 k)]
      = setFailTrace fs0 k v n from rfl] at hS
  have same : ∀ S : Fs, (∀ m, get S m = get fs0 m) → ∀ m, get (finalState cuts S) m = get fs0 m := by
    intro S h m
    have hc : Clean S := fun m hm => hcl m (by rw [← h m]; exact hm)
    rw [final_clean hc, h m]
  rcases hS with hS | ⟨q, _, hS⟩ | hS
  · exact same _ hS
  · rcases tmpName_eq fs0 k with ⟨hex, e⟩ | ⟨hex, e⟩
    · -- old entry + `.rpl` holding a prefix: recovery removes the `.rpl`
      rw [e] at hS ht0
      have hbr : ¬ encodeKey k = encodeKey k ++ extRpl := fun h => key_ne_stray ⟨k, rfl⟩ dot_in_rpl h
      have hex' : exists_ (crashAt (setFailTrace fs0 k v n) c p fs0) (encodeKey k) = true := by
        simp only [exists_, hS, hbr, if_false] at hex ⊢; exact hex
      have h1 := recoverTrace_strayRpl (encodeKey k) hwfS (by rw [hS]; simp)
        (fun m hm hs => hcl m (by rw [hS m] at hs; simpa [hm] using hs))
      rw [hex'] at h1
      simp only [if_true] at h1
      have hg : ∀ m, get (run [Prim.remove (encodeKey k ++ extRpl)] (crashAt (setFailTrace fs0 k v n) c p fs0)) m
          = get fs0 m := by
        intro m
        simp only [run_cons, run_nil, get_apply_remove, hS]
        by_cases hm : m = encodeKey k ++ extRpl <;> simp [hm, ht0]
      intro m
      rw [final_stray _ (by intro n d h; cases h) h1 (fun m hm => hcl m (by rw [← hg m]; exact hm)), hg m]
    · -- `.new` holding a prefix: recovery removes it
      rw [e] at hS ht0
      have h1 := recoverTrace_strayNew (encodeKey k) hwfS (by rw [hS]; simp)
        (fun m hm hs => hcl m (by rw [hS m] at hs; simpa [hm] using hs))
      have hg : ∀ m, get (run [Prim.remove (encodeKey k ++ extNew)] (crashAt (setFailTrace fs0 k v n) c p fs0)) m
          = get fs0 m := by
        intro m
        simp only [run_cons, run_nil, get_apply_remove, hS]
        by_cases hm : m = encodeKey k ++ extNew <;> simp [hm, ht0]
      intro m
      rw [final_stray _ (by intro n d h; cases h) h1 (fun m hm => hcl m (by rw [← hg m]; exact hm)), hg m]
  · refine same _ fun m => ?_
    rw [hS m]
    by_cases hm : m = tmpName fs0 k <;> simp [hm, ht0]

/-- `create t; write t w; remove t` run to its end: `t` is gone, nothing else changed -/
theorem fail_run (fs : Fs) (t : Name) (w : Bytes) (m : Name) :
    get (run ([.create t] ++ writeP t w ++ [.remove t]) fs) m = if m = t then none else get fs m := by
  by_cases hc : w = []
  · subst hc
    simp [writeP, get_apply_create, get_apply_remove]
    by_cases h2 : m = t <;> simp [h2]
  · have hw : writeP t w = [.write t w] := by
      cases w with
      | nil => exact absurd rfl hc
      | cons x xs => simp [writeP]
    simp [hw, get_apply_create, get_apply_write, get_apply_remove]
    by_cases h2 : m = t <;> simp [h2]

/-- a failed set that ran to its end (the caller got the exception and goes on): the directory is, as a finite
    map, exactly what it was, hence again a clean database from which every theorem applies -/
theorem set_fail_restores (fs0 : Fs) (hwf : WF fs0) (hcl : Clean fs0) (k v : Bytes) (n : Nat) :
    let S := run (setFailTrace fs0 k v n) fs0
    (∀ m, get S m = get fs0 m) ∧ WF S ∧ Clean S := by
  intro S
  have ht0 := tmp_absent hcl k
  have hg : ∀ m, get S m = get fs0 m := by
    intro m
    show get (run (setFailTrace fs0 k v n) fs0) m = _
    rw [show setFailTrace fs0 k v n = [Prim.create (tmpName fs0 k)] ++ writeP (tmpName fs0 k) (v.take n)
      ++ [Prim.remove (tmpName fs0 k)] from rfl, fail_run]
    by_cases hm : m = tmpName fs0 k <;> simp [hm, ht0]
  exact ⟨hg, WF_run hwf _, fun m hm => hcl m (by rw [← hg m]; exact hm)⟩

end TwistedProps.C51
