import TwistedModel.Fs.DirDbm
namespace Twisted.Fs.B64
open Twisted.Fs

theorem digit_range (n : Nat) :
    (65 ≤ digit n ∧ digit n ≤ 90) ∨ (97 ≤ digit n ∧ digit n ≤ 122) ∨ (48 ≤ digit n ∧ digit n ≤ 57) ∨
      digit n = 43 ∨ digit n = 47 := by
  unfold digit; split <;> (try split) <;> (try split) <;> (try split) <;> omega

theorem digit_inj {a b : Nat} (ha : a < 64) (hb : b < 64) (h : digit a = digit b) : a = b := by
  unfold digit at h
  split at h <;> split at h <;> (try split at h) <;> (try split at h) <;> (try split at h) <;>
    (try split at h) <;> (try split at h) <;> (try split at h) <;> omega

theorem ch_toNat (n : Nat) : (ch n).toNat = digit n := by
  have := digit_range n
  simp only [ch, UInt8.toNat_ofNat']; omega

theorem ch_inj {a b : Nat} (ha : a < 64) (hb : b < 64) (h : ch a = ch b) : a = b := by
  apply digit_inj ha hb
  rw [← ch_toNat, ← ch_toNat, h]

theorem ch_ne (n : Nat) (c : UInt8) (hc : c = 61 ∨ c = 10 ∨ c = 46 ∨ c = 95 ∨ c = 45) : ch n ≠ c := by
  intro h
  have h1 := ch_toNat n
  have h2 := digit_range n
  rw [h] at h1
  rcases hc with rfl | rfl | rfl | rfl | rfl <;> simp at h1 <;> omega

/-- the characters `b64` can produce -/
def Alpha (c : UInt8) : Prop := c = 61 ∨ ∃ n, c = ch n

theorem b64_alpha (x : Bytes) : ∀ c ∈ b64 x, Alpha c := by
  fun_induction b64 x with
  | case1 => simp
  | case2 a n =>
    intro c hc; simp only [List.mem_cons, List.not_mem_nil, or_false] at hc
    rcases hc with h | h | h | h
    · exact Or.inr ⟨_, h⟩
    · exact Or.inr ⟨_, h⟩
    · exact Or.inl h
    · exact Or.inl h
  | case3 a b n =>
    intro c hc; simp only [List.mem_cons, List.not_mem_nil, or_false] at hc
    rcases hc with h | h | h | h
    · exact Or.inr ⟨_, h⟩
    · exact Or.inr ⟨_, h⟩
    · exact Or.inr ⟨_, h⟩
    · exact Or.inl h
  | case4 a b c' rest n ih =>
    intro c hc
    simp at hc
    rcases hc with h | h | h | h | h
    · exact Or.inr ⟨_, h⟩
    · exact Or.inr ⟨_, h⟩
    · exact Or.inr ⟨_, h⟩
    · exact Or.inr ⟨_, h⟩
    · exact ih c h
end Twisted.Fs.B64

namespace Twisted.Fs.B64
open Twisted.Fs

theorem b64_eq_nil (x : Bytes) (h : b64 x = []) : x = [] := by
  fun_cases b64 x <;> simp_all [b64]

theorem b64_inj : ∀ (x y : Bytes), b64 x = b64 y → x = y
  | [], y, h => (b64_eq_nil y h.symm).symm
  | [_], [], h => by simp [b64] at h
  | [_, _], [], h => by simp [b64] at h
  | _ :: _ :: _ :: _, [], h => by simp [b64] at h
  | [a], [a'], h => by
    have ha := UInt8.toNat_lt a
    have ha' := UInt8.toNat_lt a'
    simp only [b64, List.cons.injEq] at h
    obtain ⟨h1, h2, -⟩ := h
    have h1 := ch_inj (by omega) (by omega) h1
    have h2 := ch_inj (by omega) (by omega) h2
    have : a.toNat = a'.toNat := by omega
    rw [UInt8.toNat_inj.mp this]
  | [a], [a', b'], h => by
    simp only [b64, List.cons.injEq] at h
    exact absurd h.2.2.1.symm (ch_ne _ _ (Or.inl rfl))
  | [a], a' :: b' :: c' :: rest', h => by
    simp only [b64, List.cons.injEq] at h
    exact absurd h.2.2.1.symm (ch_ne _ _ (Or.inl rfl))
  | [a, b], [a'], h => by
    simp only [b64, List.cons.injEq] at h
    exact absurd h.2.2.1 (ch_ne _ _ (Or.inl rfl))
  | [a, b], [a', b'], h => by
    have ha := UInt8.toNat_lt a
    have hb := UInt8.toNat_lt b
    have ha' := UInt8.toNat_lt a'
    have hb' := UInt8.toNat_lt b'
    simp only [b64, List.cons.injEq] at h
    obtain ⟨h1, h2, h3, -⟩ := h
    have h1 := ch_inj (by omega) (by omega) h1
    have h2 := ch_inj (by omega) (by omega) h2
    have h3 := ch_inj (by omega) (by omega) h3
    have e1 : a.toNat = a'.toNat := by omega
    have e2 : b.toNat = b'.toNat := by omega
    rw [UInt8.toNat_inj.mp e1, UInt8.toNat_inj.mp e2]
  | [a, b], a' :: b' :: c' :: rest', h => by
    simp only [b64, List.cons.injEq] at h
    exact absurd h.2.2.2.1.symm (ch_ne _ _ (Or.inl rfl))
  | a :: b :: c :: rest, [a'], h => by
    simp only [b64, List.cons.injEq] at h
    exact absurd h.2.2.1 (ch_ne _ _ (Or.inl rfl))
  | a :: b :: c :: rest, [a', b'], h => by
    simp only [b64, List.cons.injEq] at h
    exact absurd h.2.2.2.1 (ch_ne _ _ (Or.inl rfl))
  | a :: b :: c :: rest, a' :: b' :: c' :: rest', h => by
    have ha := UInt8.toNat_lt a
    have hb := UInt8.toNat_lt b
    have hc := UInt8.toNat_lt c
    have ha' := UInt8.toNat_lt a'
    have hb' := UInt8.toNat_lt b'
    have hc' := UInt8.toNat_lt c'
    simp only [b64, List.cons.injEq] at h
    obtain ⟨h1, h2, h3, h4, h5⟩ := h
    have h1 := ch_inj (by omega) (by omega) h1
    have h2 := ch_inj (by omega) (by omega) h2
    have h3 := ch_inj (by omega) (by omega) h3
    have h4 := ch_inj (by omega) (by omega) h4
    have e1 : a.toNat = a'.toNat := by omega
    have e2 : b.toNat = b'.toNat := by omega
    have e3 : c.toNat = c'.toNat := by omega
    rw [UInt8.toNat_inj.mp e1, UInt8.toNat_inj.mp e2, UInt8.toNat_inj.mp e3, b64_inj rest rest' h5]

end Twisted.Fs.B64

namespace Twisted.Fs.B64
open Twisted.Fs

theorem encodebytes_nil : encodebytes [] = [] := by
  rw [encodebytes]; simp

theorem encodebytes_ne (s : Bytes) (h : s ≠ []) :
    encodebytes s = b64 (s.take 57) ++ 10 :: encodebytes (s.drop 57) := by
  rw [encodebytes]; simp [h]

theorem b64_no (x : Bytes) (c : UInt8) (hc : c = 10 ∨ c = 46 ∨ c = 95 ∨ c = 45) : c ∉ b64 x := by
  intro hm
  rcases b64_alpha x c hm with h | ⟨n, h⟩
  · rcases hc with rfl | rfl | rfl | rfl <;> simp at h
  · refine ch_ne n c ?_ h.symm
    rcases hc with h | h | h | h <;> simp [h]

/-- splitting at the first newline is unique -/
theorem split_unique {a a' r r' : Bytes} (ha : (10 : UInt8) ∉ a) (ha' : (10 : UInt8) ∉ a')
    (h : a ++ 10 :: r = a' ++ 10 :: r') : a = a' ∧ r = r' := by
  induction a generalizing a' with
  | nil =>
    cases a' with
    | nil => simp at h; exact ⟨rfl, h⟩
    | cons x xs =>
      simp at h
      exact absurd h.1.symm (by intro hx; exact ha' (by simp [hx]))
  | cons x xs ih =>
    cases a' with
    | nil =>
      simp at h
      exact absurd h.1 (by intro hx; exact ha (by simp [hx]))
    | cons y ys =>
      simp at h
      have := ih (fun hm => ha (List.mem_cons_of_mem _ hm)) (fun hm => ha' (List.mem_cons_of_mem _ hm)) h.2
      exact ⟨by rw [h.1, this.1], this.2⟩

theorem encodebytes_eq_nil (s : Bytes) (h : encodebytes s = []) : s = [] := by
  by_cases hs : s = []
  · exact hs
  · rw [encodebytes_ne s hs] at h; simp at h

theorem encodebytes_inj (s t : Bytes) (h : encodebytes s = encodebytes t) : s = t := by
  induction hn : s.length using Nat.strongRecOn generalizing s t with
  | _ n ih =>
    by_cases hs : s = []
    · subst hs; rw [encodebytes_nil] at h; exact (encodebytes_eq_nil t h.symm).symm
    · by_cases ht : t = []
      · subst ht; rw [encodebytes_nil] at h; exact encodebytes_eq_nil s h
      · rw [encodebytes_ne s hs, encodebytes_ne t ht] at h
        have := split_unique (b64_no _ 10 (Or.inl rfl)) (b64_no _ 10 (Or.inl rfl)) h
        have h1 := b64_inj _ _ this.1
        have hlen : (s.drop 57).length < n := by
          have : 0 < s.length := List.length_pos_iff.mpr hs
          simp only [List.length_drop]; omega
        have h2 := ih _ hlen (s.drop 57) (t.drop 57) this.2 rfl
        rw [← List.take_append_drop 57 s, ← List.take_append_drop 57 t, h1, h2]

theorem encodebytes_head (s : Bytes) (hs : s ≠ []) : ∃ n rest, encodebytes s = ch n :: rest := by
  rw [encodebytes_ne s hs]
  have : s.take 57 ≠ [] := by
    cases s with
    | nil => exact absurd rfl hs
    | cons x xs => simp
  match hx : s.take 57, this with
  | [a], _ => exact ⟨_, _, by simp only [b64, List.cons_append, List.nil_append]; rfl⟩
  | [a, b], _ => exact ⟨_, _, by simp only [b64, List.cons_append, List.nil_append]; rfl⟩
  | a :: b :: c :: r, _ => exact ⟨_, _, by simp only [b64, List.cons_append, List.nil_append]; rfl⟩

theorem encodebytes_no (s : Bytes) (c : UInt8) (hc : c = 46 ∨ c = 95 ∨ c = 45) : c ∉ encodebytes s := by
  induction hn : s.length using Nat.strongRecOn generalizing s with
  | _ n ih =>
    by_cases hs : s = []
    · subst hs; rw [encodebytes_nil]; simp
    · rw [encodebytes_ne s hs]
      intro hm
      have hlen : (s.drop 57).length < n := by
        have : 0 < s.length := List.length_pos_iff.mpr hs
        simp only [List.length_drop]; omega
      rcases List.mem_append.mp hm with h | h
      · exact b64_no _ c (by rcases hc with h | h | h <;> simp [h]) h
      · rcases List.mem_cons.mp h with h | h
        · rcases hc with rfl | rfl | rfl <;> simp at h
        · exact ih _ hlen (s.drop 57) rfl h

end Twisted.Fs.B64

namespace Twisted.Fs.DirDbm
open Twisted.Fs Twisted.Fs.B64

theorem subst_inj {x y : UInt8} (hx : x ≠ 95 ∧ x ≠ 45) (hy : y ≠ 95 ∧ y ≠ 45) (h : subst x = subst y) : x = y := by
  unfold subst at h
  split at h <;> split at h <;> (try split at h) <;> (try split at h) <;> simp_all

theorem map_subst_inj : ∀ (l l' : Bytes), (∀ c ∈ l, c ≠ 95 ∧ c ≠ 45) → (∀ c ∈ l', c ≠ 95 ∧ c ≠ 45) →
    l.map subst = l'.map subst → l = l'
  | [], [], _, _, _ => rfl
  | [], _ :: _, _, _, h => by simp at h
  | _ :: _, [], _, _, h => by simp at h
  | x :: xs, y :: ys, hl, hl', h => by
    simp only [List.map_cons, List.cons.injEq] at h
    rw [subst_inj (hl x (by simp)) (hl' y (by simp)) h.1,
      map_subst_inj xs ys (fun c hc => hl c (by simp [hc])) (fun c hc => hl' c (by simp [hc])) h.2]

/-- the list `_encode` applies the two replaces to -/
def pre (k : Bytes) : Bytes := if (encodebytes k).isEmpty then [10] else encodebytes k

theorem encodeKey_eq (k : Bytes) : encodeKey k = (pre k).map subst := rfl

theorem pre_no (k : Bytes) (c : UInt8) (hc : c = 46 ∨ c = 95 ∨ c = 45) : c ∉ pre k := by
  unfold pre
  split
  · rcases hc with rfl | rfl | rfl <;> simp
  · exact encodebytes_no k c hc

theorem pre_inj (k k' : Bytes) (h : pre k = pre k') : k = k' := by
  unfold pre at h
  by_cases hk : k = [] <;> by_cases hk' : k' = []
  · rw [hk, hk']
  · subst hk
    obtain ⟨n, rest, he⟩ := encodebytes_head k' hk'
    simp [encodebytes_nil, he] at h
    exact absurd h.1.symm (ch_ne n 10 (by simp))
  · subst hk'
    obtain ⟨n, rest, he⟩ := encodebytes_head k hk
    simp [encodebytes_nil, he] at h
    exact absurd h.1 (ch_ne n 10 (by simp))
  · obtain ⟨n, rest, he⟩ := encodebytes_head k hk
    obtain ⟨n', rest', he'⟩ := encodebytes_head k' hk'
    have e1 : (encodebytes k).isEmpty = false := by rw [he]; rfl
    have e2 : (encodebytes k').isEmpty = false := by rw [he']; rfl
    simp only [e1, e2] at h
    exact encodebytes_inj k k' (by simpa using h)

/-- **Key encoding is injective**: different keys never share a file. -/
theorem encodeKey_inj (k k' : Bytes) (h : encodeKey k = encodeKey k') : k = k' := by
  rw [encodeKey_eq, encodeKey_eq] at h
  apply pre_inj
  exact map_subst_inj _ _ (fun c hc => ⟨fun h => pre_no k c (by simp [h]) hc, fun h => pre_no k c (by simp [h]) hc⟩)
    (fun c hc => ⟨fun h => pre_no k' c (by simp [h]) hc, fun h => pre_no k' c (by simp [h]) hc⟩) h

/-- **No `.` in an encoded key** (so no key file is ever taken for a `.new`/`.rpl` leftover). -/
theorem encodeKey_no_dot (k : Bytes) : (46 : UInt8) ∉ encodeKey k := by
  rw [encodeKey_eq]
  intro hm
  obtain ⟨x, hx, hs⟩ := List.mem_map.mp hm
  have hx46 : x = 46 := by
    unfold subst at hs
    split at hs
    · simp at hs
    · split at hs
      · simp at hs
      · exact hs
  exact pre_no k 46 (by simp) (hx46 ▸ hx)

theorem encodeKey_ne_nil (k : Bytes) : encodeKey k ≠ [] := by
  rw [encodeKey_eq]
  unfold pre
  by_cases hk : k = []
  · subst hk; simp [encodebytes_nil]
  · obtain ⟨n, rest, he⟩ := encodebytes_head k hk
    simp [he]

end Twisted.Fs.DirDbm
