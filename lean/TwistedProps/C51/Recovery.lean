import TwistedProps.C52
import TwistedProps.C51.FsMore
import TwistedProps.C51.KeyEnc
import TwistedProps.C51.Defs
/-!
C51 — lemmas: what recovery does to a directory with at most one leftover; the crash states of
the `.rpl` protocol; nested crashes inside recovery.
-/
namespace TwistedProps.C51
open Twisted.Fs Twisted.Fs.DirDbm TwistedProps.C52

theorem dot_in_new : (46 : UInt8) ∈ extNew := by decide
theorem dot_in_rpl : (46 : UInt8) ∈ extRpl := by decide

theorem key_not_endsWith {n ext : Name} (hk : IsKey n) (hdot : (46 : UInt8) ∈ ext) : endsWith n ext = false := by
  obtain ⟨k, rfl⟩ := hk
  cases h : endsWith (encodeKey k) ext with
  | false => rfl
  | true =>
    obtain ⟨t, ht⟩ := (endsWith_iff _ _).mp h
    exact absurd (ht ▸ List.mem_append_right t hdot) (encodeKey_no_dot k)

theorem key_ne_stray {n b ext : Name} (hk : IsKey n) (hdot : (46 : UInt8) ∈ ext) : n ≠ b ++ ext := by
  obtain ⟨k, rfl⟩ := hk
  intro h
  exact absurd (h ▸ List.mem_append_right b hdot) (encodeKey_no_dot k)

theorem endsWith_append (b e : Name) : endsWith (b ++ e) e = true :=
  (endsWith_iff _ _).mpr ⟨b, rfl⟩

theorem rpl_not_new (b : Name) : endsWith (b ++ extRpl) extNew = false := by
  cases h : endsWith (b ++ extRpl) extNew with
  | false => rfl
  | true =>
    obtain ⟨t, ht⟩ := (endsWith_iff _ _).mp h
    have := (List.append_inj' ht (by decide)).2
    exact absurd this (by decide)

theorem take_rpl (b : Name) : (b ++ extRpl).take ((b ++ extRpl).length - 4) = b := by
  have : (b ++ extRpl).length - 4 = b.length := by simp [extRpl]
  rw [this]; simp

theorem clean_names {fs : Fs} (h : Clean fs) : ∀ n ∈ names fs, IsKey n :=
  fun n hn => h n ((mem_names_iff fs n).mp hn)

/-- a clean directory needs no recovery: `__init__` performs no primitive -/
theorem recoverTrace_clean {fs : Fs} (h : Clean fs) : recoverTrace fs = [] := by
  have h1 : globExt fs extNew = [] :=
    globExt_nil fs _ fun n hn => key_not_endsWith (clean_names h n hn) dot_in_new
  have h2 : globExt fs extRpl = [] :=
    globExt_nil fs _ fun n hn => key_not_endsWith (clean_names h n hn) dot_in_rpl
  simp [recoverTrace, h1, h2, recoverRpl]

/-- one `.new` leftover among key files: recovery removes it -/
theorem recoverTrace_strayNew {fs : Fs} (b : Name) (hwf : WF fs) (hs : (get fs (b ++ extNew)).isSome = true)
    (ho : ∀ m, m ≠ b ++ extNew → (get fs m).isSome = true → IsKey m) :
    recoverTrace fs = [.remove (b ++ extNew)] := by
  have h1 : globExt fs extNew = [b ++ extNew] :=
    globExt_singleton fs _ _ hwf ((mem_names_iff _ _).mpr hs) (endsWith_append _ _)
      fun n hn hne => key_not_endsWith (ho n hne ((mem_names_iff _ _).mp hn)) dot_in_new
  have hc : Clean (run [Prim.remove (b ++ extNew)] fs) := by
    intro m hm
    simp only [run_cons, run_nil, get_apply_remove] at hm
    by_cases hmn : m = b ++ extNew
    · simp [hmn] at hm
    · simp only [hmn, if_false] at hm; exact ho m hmn hm
  have h2 : globExt (run [Prim.remove (b ++ extNew)] fs) extRpl = [] :=
    globExt_nil _ _ fun n hn => key_not_endsWith (clean_names hc n hn) dot_in_rpl
  simp only [recoverTrace, h1, List.map_cons, List.map_nil, h2, recoverRpl, List.append_nil]

/-- one `.rpl` leftover among key files: recovery removes it if the entry is still there, else renames it
    into place -/
theorem recoverTrace_strayRpl {fs : Fs} (b : Name) (hwf : WF fs) (hs : (get fs (b ++ extRpl)).isSome = true)
    (ho : ∀ m, m ≠ b ++ extRpl → (get fs m).isSome = true → IsKey m) :
    recoverTrace fs = [if exists_ fs b then .remove (b ++ extRpl) else .rename (b ++ extRpl) b] := by
  have h1 : globExt fs extNew = [] := by
    apply globExt_nil
    intro n hn
    by_cases hne : n = b ++ extRpl
    · rw [hne]; exact rpl_not_new b
    · exact key_not_endsWith (ho n hne ((mem_names_iff _ _).mp hn)) dot_in_new
  have h2 : globExt fs extRpl = [b ++ extRpl] :=
    globExt_singleton fs _ _ hwf ((mem_names_iff _ _).mpr hs) (endsWith_append _ _)
      fun n hn hne => key_not_endsWith (ho n hne ((mem_names_iff _ _).mp hn)) dot_in_rpl
  simp only [recoverTrace, h1, List.map_nil, run_nil, h2, recoverRpl, take_rpl, List.nil_append]

/-- trace of `db[k] = v` when the entry exists (`.rpl` protocol) -/
def rplTrace (b : Name) (v : Bytes) : List Prim :=
  [.create (b ++ extRpl)] ++ writeP (b ++ extRpl) v ++ [.remove b, .rename (b ++ extRpl) b]

theorem setTrace_old {fs : Fs} {k v : Bytes} (h : exists_ fs (encodeKey k) = true) :
    setTrace fs k v = rplTrace (encodeKey k) v := by
  simp [setTrace, h, rplTrace]

theorem setTrace_new {fs : Fs} {k v : Bytes} (h : exists_ fs (encodeKey k) = false) :
    setTrace fs k v = replaceTrace (encodeKey k ++ extNew) (encodeKey k) v := by
  simp [setTrace, h, replaceTrace]

/-- crash states of the `.rpl` protocol, as finite maps (r = the `.rpl` name, b = the entry) -/
theorem rpl_crash_shapes (fs : Fs) (b : Name) (v : Bytes) (k p : Nat) (hne : b ++ extRpl ≠ b) :
    let r := b ++ extRpl
    let S := crashAt (rplTrace b v) k p fs
    (∀ m, get S m = get fs m) ∨
    (∃ q, q <+: v ∧ ∀ m, get S m = if m = r then some q else get fs m) ∨
    (∀ m, get S m = if m = r then some v else if m = b then none else get fs m) ∨
    (∀ m, get S m = if m = b then some v else if m = r then none else get fs m) := by
  intro r S
  have hbr : ¬ b = r := fun h => hne h.symm
  by_cases hc : v = []
  · subst hc
    rcases k with _ | _ | _ | k
    · left; intro m; simp [S, rplTrace, writeP, crashAt]
    · right; left; refine ⟨[], List.prefix_refl _, ?_⟩
      intro m; simp [S, r, rplTrace, writeP, crashAt, get_apply_create]
    · right; right; left; intro m
      simp [S, r, rplTrace, writeP, crashAt, get_apply_create, get_apply_remove]
      by_cases h1 : m = b <;> by_cases h2 : m = b ++ extRpl <;> simp_all
    · right; right; right; intro m
      simp [S, r, rplTrace, writeP, crashAt, get_apply_create, get_apply_remove, get_apply_rename, hne]
      by_cases h1 : m = b <;> by_cases h2 : m = b ++ extRpl <;> simp_all
  · have hw : writeP (b ++ extRpl) v = [.write (b ++ extRpl) v] := by
      cases v with
      | nil => exact absurd rfl hc
      | cons x xs => simp [writeP]
    rcases k with _ | _ | _ | _ | k
    · left; intro m; simp [S, rplTrace, hw, crashAt]
    · right; left; refine ⟨v.take p, List.take_prefix _ _, ?_⟩
      intro m; simp [S, r, rplTrace, hw, crashAt, get_apply_create, get_apply_write]
      by_cases h2 : m = b ++ extRpl <;> simp [h2]
    · right; left; refine ⟨v, List.prefix_refl _, ?_⟩
      intro m; simp [S, r, rplTrace, hw, crashAt, get_apply_create, get_apply_write]
      by_cases h2 : m = b ++ extRpl <;> simp [h2]
    · right; right; left; intro m
      simp [S, r, rplTrace, hw, crashAt, get_apply_create, get_apply_write, get_apply_remove]
      by_cases h1 : m = b <;> by_cases h2 : m = b ++ extRpl <;> simp_all
    · right; right; right; intro m
      simp [S, r, rplTrace, hw, crashAt, get_apply_create, get_apply_write, get_apply_remove, get_apply_rename, hne]
      by_cases h1 : m = b <;> by_cases h2 : m = b ++ extRpl <;> simp_all

theorem crashAt_nil (c p : Nat) (fs : Fs) : crashAt [] c p fs = fs := by simp [crashAt]

/-- a one-primitive recovery (a remove or a rename): killed before it or after it, nothing in between -/
theorem crashAt_single (pr : Prim) (hw : ∀ n d, pr ≠ .write n d) (c p : Nat) (fs : Fs) :
    crashAt [pr] c p fs = fs ∨ crashAt [pr] c p fs = run [pr] fs := by
  rcases c with _ | c
  · left
    cases pr with
    | write n d => exact absurd rfl (hw n d)
    | create n => simp [crashAt]
    | remove n => simp [crashAt]
    | rename a b => simp [crashAt]
  · right; exact crashAt_ge _ _ _ _ (by simp)

theorem recover_clean {fs : Fs} (h : Clean fs) : recover fs = fs := by
  simp [recover, recoverTrace_clean h]

/-- however many reopenings are killed inside recovery, the one that completes reaches the same state -/
theorem final_of (S : Fs)
    (hS : recoverTrace S = [] ∨ ∃ pr, (∀ n d, pr ≠ Prim.write n d) ∧ recoverTrace S = [pr])
    (hR : Clean (recover S)) (cuts : List (Nat × Nat)) : finalState cuts S = recover S := by
  suffices h : ∀ cuts X, (X = S ∨ X = recover S) → finalState cuts X = recover S from h cuts S (Or.inl rfl)
  intro cuts
  induction cuts with
  | nil =>
    intro X hX
    rcases hX with rfl | rfl
    · rfl
    · exact recover_clean hR
  | cons cp rest ih =>
    obtain ⟨c, p⟩ := cp
    intro X hX
    show finalState rest (crashAt (recoverTrace X) c p X) = recover S
    apply ih
    rcases hX with rfl | rfl
    · rcases hS with h0 | ⟨pr, hw, h1⟩
      · left; rw [h0, crashAt_nil]
      · rw [h1]
        rcases crashAt_single pr hw c p X with h | h
        · left; exact h
        · right; rw [h, recover, h1]
    · right; rw [recoverTrace_clean hR, crashAt_nil]

theorem final_clean {S : Fs} (h : Clean S) (cuts : List (Nat × Nat)) : finalState cuts S = S := by
  have := final_of S (Or.inl (recoverTrace_clean h)) (by rw [recover_clean h]; exact h) cuts
  rw [this, recover_clean h]

theorem final_stray {S : Fs} (pr : Prim) (hw : ∀ n d, pr ≠ Prim.write n d) (h1 : recoverTrace S = [pr])
    (hc : Clean (run [pr] S)) (cuts : List (Nat × Nat)) : finalState cuts S = run [pr] S := by
  have hr : recover S = run [pr] S := by rw [recover, h1]
  rw [final_of S (Or.inr ⟨pr, hw, h1⟩) (hr ▸ hc) cuts, hr]

/-- **set/replace, every crash point, every nested recovery crash**: as a finite map the recovered
    directory is the old one, or the old one with the entry's file holding exactly `v`. -/
theorem set_final (fs0 : Fs) (hwf : WF fs0) (hcl : Clean fs0) (k v : Bytes) (c p : Nat)
    (cuts : List (Nat × Nat)) :
    let F := finalState cuts (crashAt (setTrace fs0 k v) c p fs0)
    (∀ m, get F m = get fs0 m) ∨ (∀ m, get F m = if m = encodeKey k then some v else get fs0 m) := by
  intro F
  have hkey : IsKey (encodeKey k) := ⟨k, rfl⟩
  have hr_ne : encodeKey k ++ extRpl ≠ encodeKey k := fun h => key_ne_stray hkey dot_in_rpl h.symm
  have hn_ne : encodeKey k ++ extNew ≠ encodeKey k := fun h => key_ne_stray hkey dot_in_new h.symm
  have hr0 : get fs0 (encodeKey k ++ extRpl) = none := by
    cases h : get fs0 (encodeKey k ++ extRpl) with
    | none => rfl
    | some x => exact absurd rfl (key_ne_stray (hcl _ (by rw [h]; rfl)) dot_in_rpl)
  have hn0 : get fs0 (encodeKey k ++ extNew) = none := by
    cases h : get fs0 (encodeKey k ++ extNew) with
    | none => rfl
    | some x => exact absurd rfl (key_ne_stray (hcl _ (by rw [h]; rfl)) dot_in_new)
  have hbr : ¬ encodeKey k = encodeKey k ++ extRpl := fun h => hr_ne h.symm
  have hbn : ¬ encodeKey k = encodeKey k ++ extNew := fun h => hn_ne h.symm
  have hwfS : WF (crashAt (setTrace fs0 k v) c p fs0) := WF_crashAt hwf _ _ _
  cases hex : exists_ fs0 (encodeKey k) with
  | true =>
    have hS := rpl_crash_shapes fs0 (encodeKey k) v c p hr_ne
    rw [← setTrace_old hex] at hS
    simp only at hS
    rcases hS with hS | ⟨q, _, hS⟩ | hS | hS
    · -- untouched
      have hc : Clean (crashAt (setTrace fs0 k v) c p fs0) := fun m hm => hcl m (by rw [← hS m]; exact hm)
      left; intro m; show get (finalState _ _) m = _; rw [final_clean hc, hS m]
    · -- old entry + `.rpl` holding a prefix: recovery removes the `.rpl`
      have hex' : exists_ (crashAt (setTrace fs0 k v) c p fs0) (encodeKey k) = true := by
        simp only [exists_, hS, hbr, if_false] at hex ⊢; exact hex
      have h1 := recoverTrace_strayRpl (encodeKey k) hwfS (by rw [hS]; simp)
        (fun m hm hs => hcl m (by rw [hS m] at hs; simpa [hm] using hs))
      rw [hex'] at h1
      simp only [if_true] at h1
      have hg : ∀ m, get (run [Prim.remove (encodeKey k ++ extRpl)] (crashAt (setTrace fs0 k v) c p fs0)) m
          = get fs0 m := by
        intro m
        simp only [run_cons, run_nil, get_apply_remove, hS]
        by_cases hm : m = encodeKey k ++ extRpl <;> simp [hm, hr0]
      left; intro m; show get (finalState _ _) m = _
      rw [final_stray _ (by intro n d h; cases h) h1 (fun m hm => hcl m (by rw [← hg m]; exact hm)), hg m]
    · -- old entry removed, `.rpl` complete: recovery renames it into place
      have hex' : exists_ (crashAt (setTrace fs0 k v) c p fs0) (encodeKey k) = false := by
        simp [exists_, hS, hbr]
      have h1 := recoverTrace_strayRpl (encodeKey k) hwfS (by rw [hS]; simp)
        (fun m hm hs => by
          rw [hS m] at hs
          by_cases hb : m = encodeKey k
          · exact hb ▸ hkey
          · exact hcl m (by simpa [hm, hb] using hs))
      rw [hex'] at h1
      simp only [Bool.false_eq_true, if_false] at h1
      have hg : ∀ m, get (run [Prim.rename (encodeKey k ++ extRpl) (encodeKey k)]
          (crashAt (setTrace fs0 k v) c p fs0)) m = if m = encodeKey k then some v else get fs0 m := by
        intro m
        simp only [run_cons, run_nil, get_apply_rename, hS, if_true]
        by_cases hb : m = encodeKey k
        · simp [hb]
        · by_cases hm : m = encodeKey k ++ extRpl <;> simp [hm, hb, hr0]
      right; intro m; show get (finalState _ _) m = _
      rw [final_stray _ (by intro n d h; cases h) h1 (fun m hm => by
        rw [hg m] at hm
        by_cases hb : m = encodeKey k
        · exact hb ▸ hkey
        · exact hcl m (by simpa [hb] using hm)), hg m]
    · -- complete
      have hg : ∀ m, get (crashAt (setTrace fs0 k v) c p fs0) m = if m = encodeKey k then some v else get fs0 m := by
        intro m; rw [hS m]
        by_cases hb : m = encodeKey k
        · simp [hb]
        · by_cases hm : m = encodeKey k ++ extRpl <;> simp [hm, hb, hr0]
      have hc : Clean (crashAt (setTrace fs0 k v) c p fs0) := fun m hm => by
        rw [hg m] at hm
        by_cases hb : m = encodeKey k
        · exact hb ▸ hkey
        · exact hcl m (by simpa [hb] using hm)
      right; intro m; show get (finalState _ _) m = _; rw [final_clean hc, hg m]
  | false =>
    have hb0 : get fs0 (encodeKey k) = none := by
      simp only [exists_] at hex
      cases h : get fs0 (encodeKey k) with
      | none => rfl
      | some x => simp [h] at hex
    have hS := replace_crash_shapes fs0 (encodeKey k ++ extNew) (encodeKey k) v c p
    rw [← setTrace_new hex] at hS
    rcases hS with hS | ⟨q, _, hS⟩ | hS
    · have hc : Clean (crashAt (setTrace fs0 k v) c p fs0) := fun m hm => hcl m (by rw [← hS m]; exact hm)
      left; intro m; show get (finalState _ _) m = _; rw [final_clean hc, hS m]
    · -- `.new` holding a prefix: recovery removes it
      have h1 := recoverTrace_strayNew (encodeKey k) hwfS (by rw [hS]; simp)
        (fun m hm hs => hcl m (by rw [hS m] at hs; simpa [hm] using hs))
      have hg : ∀ m, get (run [Prim.remove (encodeKey k ++ extNew)] (crashAt (setTrace fs0 k v) c p fs0)) m
          = get fs0 m := by
        intro m
        simp only [run_cons, run_nil, get_apply_remove, hS]
        by_cases hm : m = encodeKey k ++ extNew <;> simp [hm, hn0]
      left; intro m; show get (finalState _ _) m = _
      rw [final_stray _ (by intro n d h; cases h) h1 (fun m hm => hcl m (by rw [← hg m]; exact hm)), hg m]
    · have hg : ∀ m, get (crashAt (setTrace fs0 k v) c p fs0) m = if m = encodeKey k then some v else get fs0 m := by
        intro m; rw [hS m]
        by_cases hb : m = encodeKey k
        · simp [hb]
        · by_cases hm : m = encodeKey k ++ extNew <;> simp [hm, hb, hn0]
      have hc : Clean (crashAt (setTrace fs0 k v) c p fs0) := fun m hm => by
        rw [hg m] at hm
        by_cases hb : m = encodeKey k
        · exact hb ▸ hkey
        · exact hcl m (by simpa [hb] using hm)
      right; intro m; show get (finalState _ _) m = _; rw [final_clean hc, hg m]

end TwistedProps.C51
