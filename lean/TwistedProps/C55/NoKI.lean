import TwistedModel.Log.Format
/-!
C55, lemmas: a computation run on a tape none of whose outcomes raises `KeyboardInterrupt` does
not raise `KeyboardInterrupt` — for the body of `_safeFormat`'s `try` (`fmtString % fmtDict`),
the only place of the legacy path where that class is let through.
-/
namespace TwistedProps.C55
open Twisted.Log.Format
open Twisted.Log.Format.Legacy

/-- the outcome is not "raise KeyboardInterrupt" -/
def OutcomeNoKI : Outcome → Prop
  | .raises e => e.cls ≠ .keyboardInterrupt
  | _ => True

/-- no outcome on the tape raises `KeyboardInterrupt` (its subclasses included: the class is what
    `except KeyboardInterrupt` tests) -/
def TapeNoKI (t : List Outcome) : Prop := ∀ o ∈ t, OutcomeNoKI o

/-- run on a KeyboardInterrupt-free tape, `m` leaves such a tape and does not raise that class -/
def NoKI {α} (m : M α) : Prop :=
  ∀ s, TapeNoKI s.tape →
    TapeNoKI (m s).2.tape ∧ ∀ e, (m s).1 = .error e → e.cls ≠ .keyboardInterrupt

theorem noKI_ret {α} (a : α) : NoKI (ret a) := fun _ h => ⟨h, fun _ he => by cases he⟩

theorem noKI_pure {α} (a : α) : NoKI (pure a : M α) := noKI_ret a

theorem noKI_raise {α} {e : Exc} (h : e.cls ≠ .keyboardInterrupt) : NoKI (raise e : M α) :=
  fun _ ht => ⟨ht, fun e' he => by cases he; exact h⟩

theorem noKI_bind {α β} {m : M α} {f : α → M β} (hm : NoKI m) (hf : ∀ a, NoKI (f a)) :
    NoKI (m >>= f) := by
  intro s hs
  show TapeNoKI (Twisted.Log.Format.bind m f s).2.tape ∧ ∀ e, (Twisted.Log.Format.bind m f s).1 = .error e → _
  obtain ⟨h1, h2⟩ := hm s hs
  unfold Twisted.Log.Format.bind
  rcases hms : m s with ⟨r, s'⟩
  rw [hms] at h1 h2
  cases r with
  | ok a => exact hf a s' h1
  | error e => exact ⟨h1, fun e' he => by cases he; exact h2 e rfl⟩

/-- the oracle step: the popped outcome is from the tape -/
theorem ask_spec (c : Call) (s : St) (hs : TapeNoKI s.tape) :
    ∃ o s', ask c s = (.ok o, s') ∧ OutcomeNoKI o ∧ TapeNoKI s'.tape := by
  unfold ask
  rcases ht : s.tape with _ | ⟨o, rest⟩
  · exact ⟨_, _, rfl, trivial, by simpa [ht] using hs⟩
  · refine ⟨o, _, rfl, hs o (by simp [ht]), fun o' ho' => hs o' (by simp [ht, ho'])⟩

theorem noKI_mustText (c : Call) : NoKI (mustText c) := by
  intro s hs
  obtain ⟨o, s', h, ho, hs'⟩ := ask_spec c s hs
  show TapeNoKI (Twisted.Log.Format.bind (ask c) _ s).2.tape ∧
    ∀ e, (Twisted.Log.Format.bind (ask c) _ s).1 = .error e → _
  unfold Twisted.Log.Format.bind
  rw [h]
  cases o with
  | text t => exact noKI_ret t s' hs'
  | none => exact noKI_raise (by decide) s' hs'
  | obj => exact noKI_raise (by decide) s' hs'
  | raises e => exact noKI_raise ho s' hs'
  | bytes => exact noKI_raise (by decide) s' hs'

theorem noKI_pyStr (v : Val) : NoKI (pyStr v) := by
  cases v with
  | none => exact noKI_ret _
  | text t => exact noKI_ret _
  | hostile => exact noKI_mustText _
  | bytes => exact noKI_ret _

theorem noKI_pyRepr (v : Val) : NoKI (pyRepr v) := by
  cases v with
  | none => exact noKI_ret _
  | text t => exact noKI_ret _
  | hostile => exact noKI_mustText _
  | bytes => exact noKI_ret _

theorem noKI_reprAll (vs : List Val) : NoKI (reprAll vs) := by
  induction vs with
  | nil => exact noKI_ret ()
  | cons v rest ih =>
    unfold reprAll
    exact noKI_bind (noKI_pyRepr v) fun _ => ih

theorem noKI_argText (ev : Legacy.Event) (c : PConv) (arg : Option Val) : NoKI (argText ev c arg) := by
  cases arg with
  | some v =>
    cases c with
    | s => exact noKI_pyStr v
    | r => exact noKI_pyRepr v
    | a => exact noKI_bind (noKI_pyRepr v) fun _ => noKI_ret _
    | num => exact noKI_raise (by decide)
    | bad => exact noKI_raise (by decide)
  | none =>
    cases c with
    | s => exact noKI_bind (noKI_reprAll _) fun _ => noKI_ret _
    | r => exact noKI_bind (noKI_reprAll _) fun _ => noKI_ret _
    | a => exact noKI_bind (noKI_reprAll _) fun _ => noKI_ret _
    | num => exact noKI_raise (by decide)
    | bad => exact noKI_raise (by decide)

theorem noKI_percentLoop (ev : Legacy.Event) (segs : List PSeg) (avail : Bool) :
    NoKI (percentLoop ev segs avail) := by
  induction segs generalizing avail with
  | nil => exact noKI_ret _
  | cons sg rest ih =>
    cases sg with
    | lit t =>
      unfold percentLoop
      exact noKI_bind (ih avail) fun _ => noKI_ret _
    | keyed k w c =>
      unfold percentLoop
      split
      · exact noKI_raise (by decide)
      · exact noKI_bind (noKI_argText ev c _) fun _ => noKI_bind (ih false) fun _ => noKI_ret _
    | pos w c =>
      unfold percentLoop
      split
      · exact noKI_bind (noKI_argText ev c _) fun _ => noKI_bind (ih false) fun _ => noKI_ret _
      · exact noKI_raise (by decide)
    | incomplete =>
      unfold percentLoop
      exact noKI_raise (by decide)

theorem noKI_bytesLoop (ev : Legacy.Event) (segs : List PSeg) (avail : Bool) :
    NoKI (bytesLoop ev segs avail) := by
  induction segs generalizing avail with
  | nil => exact noKI_ret _
  | cons sg rest ih =>
    cases sg with
    | lit t =>
      unfold bytesLoop
      exact ih avail
    | keyed k w c =>
      unfold bytesLoop
      exact noKI_raise (by decide)
    | pos w c =>
      unfold bytesLoop
      split
      · cases c with
        | s => exact noKI_raise (by decide)
        | r => exact noKI_bind (noKI_reprAll _) fun _ => ih false
        | a => exact noKI_bind (noKI_reprAll _) fun _ => ih false
        | num => exact noKI_raise (by decide)
        | bad => exact noKI_raise (by decide)
      · exact noKI_raise (by decide)
    | incomplete =>
      unfold bytesLoop
      exact noKI_raise (by decide)

/-- `fmtString % fmtDict` on a KeyboardInterrupt-free tape does not raise KeyboardInterrupt:
    every other exception it raises is a builtin `TypeError`/`ValueError`/`KeyError` -/
theorem noKI_percentFormat (ev : Legacy.Event) : NoKI (percentFormat ev) := by
  unfold percentFormat
  split
  · exact noKI_percentLoop ev _ true
  · exact noKI_bind (noKI_bytesLoop ev _ true) fun _ => noKI_raise (by decide)
  · exact noKI_raise (by decide)
  · exact noKI_raise (by decide)

end TwistedProps.C55
