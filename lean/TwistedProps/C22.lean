import TwistedProps.C22.Overlong
/-!
C22 — chunked transfer coding round-trips and rejects malformed input.

Model: `TwistedModel/Http/Chunked.lean` (`_ChunkedTransferDecoder`, `_IdentityTransferDecoder`,
`toChunk`, `_hexint`).  Lemmas per decoder state, each by induction over the list of deliveries
(so for EVERY segmentation): `TwistedProps/C22/{Bytes,Run,SizeLine,Body,Trailer}.lean`.

Headline theorems (this file):
* `decode_encode`, `decode_encode_feedAll`, `decode_toChunk` — round trip, finish exactly once with
  exactly the extra bytes, `RuntimeError` for data after the end;
* `data_loss_on_truncation` — `_DataLoss` for every proper prefix under every segmentation;
* `rejects_bad_size_line` (+ `rejects_non_hex_size`, `rejects_bad_ext_byte`,
  `rejects_overlong_size_line`), `rejects_missing_crlf_after_data` — rejection under every
  segmentation;
* `rejects_overlong_size_line_no_crlf`, `partial_size_line_tolerated` — the size line whose CRLF
  never arrives: 1025 CRLF-free bytes are refused, up to 1024 are waited on, under every segmentation;
* `identity_decoder_exact`, `identity_data_loss`, `identity_until_close_exact`,
  `identity_complete_noMoreData`, `identity_noMoreData_table`, `chunked_noMoreData_table`;
* `reentrant_noMoreData_in_finishCallback`, `reentrant_noMoreData_in_dataCallback` (+ `data_changes_only_in_body`),
  `ident_reentrant_noMoreData` — `noMoreData()` called from inside the callbacks: silent once everything has
  arrived, `_DataLoss` from `dataCallback` of the chunked decoder;
* `fromChunk_toChunk`, `fromChunk_of_hex`, `fromChunk_rejects_non_hex`, `fromChunk_rejects_missing_crlf`,
  `fromChunk_rejects_no_crlf` — the one-chunk decoder `fromChunk`.

Preconditions are the property's own: chunks non-empty, size line = hex digits [`;` extension over
`_chunkExtChars`] of at most 1023 bytes, trailer fields (with their CRLFs) at most 2¹⁶ bytes.

The bound on the size line, as the code enforces it (`maxChunkSizeLineLength = 1024`,
`eolIndex >= 1024 or (eolIndex == -1 and len(buffer) > 1024)`), is two bounds:
  * a line whose CRLF has arrived is accepted iff the CRLF starts at index ≤ 1023, i.e. the line
    WITHOUT its CRLF is at most 1023 bytes (1025 with it) — `run_sizeLine`/`decode_encode` for
    ≤ 1023, `rejects_overlong_size_line` for ≥ 1024;
  * while no CRLF has arrived, up to 1024 bytes are buffered without complaint and the 1025th is
    refused — `partial_size_line_tolerated` for ≤ 1024, `rejects_overlong_size_line_no_crlf` for ≥ 1025.
The two agree on every stream: 1024 CRLF-free bytes that are tolerated are either 1023 line bytes
plus the CR of an acceptable line, or the start of a line that is refused whatever comes next.
-/
namespace TwistedProps.C22
open Twisted.Http.Chunked

/-- one chunk on the wire: its size line (hex size, optional `;extension`, without CRLF) and its data -/
structure Chunk where
  line : Bytes
  data : Bytes

/-- the size line announces exactly the data, which is non-empty (an empty chunk is the last-chunk) -/
def Chunk.wf (c : Chunk) : Prop := lineOK c.line c.data.length ∧ 0 < c.data.length

def encChunk (c : Chunk) : Bytes := c.line ++ [CR, LF] ++ c.data ++ [CR, LF]

/-- a trailer field line (without CRLF): non-empty, no CRLF inside -/
def trailerOK (t : Bytes) : Prop := t ≠ [] ∧ noCRLF t = true

def encTrailers (ts : List Bytes) : Bytes := (ts.map (· ++ [CR, LF])).flatten

/-- bytes of the trailer fields including their CRLFs — what `_maxTrailerHeadersSize` bounds -/
def trailerSize (ts : List Bytes) : Nat := (ts.map (·.length + 2)).sum

/-- chunked-body = *chunk last-chunk trailer-section CRLF -/
def encode (chunks : List Chunk) (last : Bytes) (trailers : List Bytes) : Bytes :=
  (chunks.map encChunk).flatten ++ (last ++ [CR, LF]) ++ encTrailers trailers ++ [CR, LF]

def body (chunks : List Chunk) : Bytes := (chunks.map (·.data)).flatten

theorem run_chunk (c : Chunk) (hc : c.wf) (rest : Bytes) (cs : List Bytes) (s : Dec)
    (hst : s.state = .chunkLength) (hso : startOK s) (hb : s.buffer ++ cs.flatten = encChunk c ++ rest) :
    ∃ s' cs', s'.state = .chunkLength ∧ s'.start = 0 ∧ s'.buffer ++ cs'.flatten = rest ∧
      s'.data = s.data ++ c.data ∧ s'.fin = s.fin ∧ s'.recvTrailer = s.recvTrailer ∧ run s cs = run s' cs' := by
  obtain ⟨hl, hpos⟩ := hc
  have hb' : s.buffer ++ cs.flatten = c.line ++ CR :: LF :: (c.data ++ CR :: LF :: rest) := by
    rw [hb]; simp [encChunk]
  obtain ⟨s1, cs1, a1, a2, a3, a4, ⟨a5, a6, a7⟩, a8⟩ := run_sizeLine c.line _ _ hl cs s hst hso hb'
  have a1' : s1.state = .body := by
    rw [a1]; have : c.data.length ≠ 0 := by omega
    simp [this]
  obtain ⟨s2, cs2, b1, b2, b3, b4, b5, b6, b7⟩ := run_body _ cs1 s1 c.data a1' a3 a2 hpos a4
  obtain ⟨s3, cs3, c1, c2, c3, ⟨c4, c5, c6⟩, c7⟩ := run_crlf rest cs2 s2 b1 b2 b3
  refine ⟨s3, cs3, c1, c2, c3, ?_, ?_, ?_, ?_⟩
  · rw [c4, b4, a5]
  · rw [c5, b5, a6]
  · rw [c6, b6, a7]
  · rw [a8, b7, c7]

theorem run_chunks (rest : Bytes) : ∀ (chunks : List Chunk), (∀ c ∈ chunks, c.wf) →
    ∀ (cs : List Bytes) (s : Dec), s.state = .chunkLength → startOK s →
      s.buffer ++ cs.flatten = (chunks.map encChunk).flatten ++ rest →
      ∃ s' cs', s'.state = .chunkLength ∧ startOK s' ∧ s'.buffer ++ cs'.flatten = rest ∧
        s'.data = s.data ++ body chunks ∧ s'.fin = s.fin ∧ s'.recvTrailer = s.recvTrailer ∧
        run s cs = run s' cs' := by
  intro chunks
  induction chunks with
  | nil =>
    intro _ cs s hst hso hb
    exact ⟨s, cs, hst, hso, by simpa using hb, by simp [body], rfl, rfl, rfl⟩
  | cons c chunks ih =>
    intro hwf cs s hst hso hb
    have hb' : s.buffer ++ cs.flatten = encChunk c ++ ((chunks.map encChunk).flatten ++ rest) := by
      rw [hb]; simp
    obtain ⟨s1, cs1, a1, a2, a3, a4, a5, a6, a7⟩ := run_chunk c (hwf c (by simp)) _ cs s hst hso hb'
    obtain ⟨s2, cs2, b1, b2, b3, b4, b5, b6, b7⟩ :=
      ih (fun x hx => hwf x (by simp [hx])) cs1 s1 a1 (startOK_zero s1 a2) a3
    refine ⟨s2, cs2, b1, b2, b3, ?_, ?_, ?_, ?_⟩
    · rw [b4, a4]; simp [body]
    · rw [b5, a5]
    · rw [b6, a6]
    · rw [a7, b7]

theorem run_trailers (rest : Bytes) : ∀ (ts : List Bytes), (∀ t ∈ ts, trailerOK t) →
    ∀ (cs : List Bytes) (s : Dec), s.state = .trailer → s.start = 0 →
      s.recvTrailer + trailerSize ts ≤ maxTrailerHeadersSize →
      s.buffer ++ cs.flatten = encTrailers ts ++ rest →
      ∃ s' cs', s'.state = .trailer ∧ s'.start = 0 ∧ s'.buffer ++ cs'.flatten = rest ∧
        s'.data = s.data ∧ s'.fin = s.fin ∧ run s cs = run s' cs' := by
  intro ts
  induction ts with
  | nil =>
    intro _ cs s hst hs0 _ hb
    exact ⟨s, cs, hst, hs0, by simpa [encTrailers] using hb, rfl, rfl, rfl⟩
  | cons t ts ih =>
    intro hwf cs s hst hs0 hlim hb
    have ht := hwf t (by simp)
    have hb' : s.buffer ++ cs.flatten = t ++ CR :: LF :: (encTrailers ts ++ rest) := by
      rw [hb]; simp [encTrailers]
    have hsz : trailerSize (t :: ts) = t.length + 2 + trailerSize ts := by simp [trailerSize]
    obtain ⟨s1, cs1, a1, a2, a3, a4, a5, a6, a7⟩ :=
      run_trailerLine t _ ht.2 ht.1 cs s hst hs0 (by omega) hb'
    obtain ⟨s2, cs2, b1, b2, b3, b4, b5, b6⟩ :=
      ih (fun x hx => hwf x (by simp [hx])) cs1 s1 a1 a2 (by omega) a3
    exact ⟨s2, cs2, b1, b2, b3, by rw [b4, a4], by rw [b5, a5], by rw [a7, b6]⟩

theorem startOK_init : startOK init := startOK_zero init rfl

/-- **C22, round trip.**  For every list of non-empty chunks with acceptable size lines (any hex
    spelling of the size, any extension over the allowed bytes, line ≤ 1023 bytes), every
    last-chunk line, every list of trailer fields within the 2¹⁶-byte limit, every `extra`, and
    EVERY split `cs` of `encode … ++ extra` into deliveries (empty deliveries included): the
    decoder, driven the way `HTTPChannel` drives it, never raises, delivers exactly the body,
    calls `finishCallback` exactly once, with `e`, and `e` followed by the deliveries that were
    not handed to the decoder is exactly `extra`. -/
theorem decode_encode (chunks : List Chunk) (last : Bytes) (trailers : List Bytes) (extra : Bytes)
    (cs : List Bytes)
    (hc : ∀ c ∈ chunks, c.wf) (hl : lineOK last 0) (ht : ∀ t ∈ trailers, trailerOK t)
    (hT : trailerSize trailers ≤ maxTrailerHeadersSize)
    (hcs : cs.flatten = encode chunks last trailers ++ extra) :
    ∃ s rest e, feed init cs = .ok (s, rest) ∧ s.state = .finished ∧ s.buffer = [] ∧
      s.data = body chunks ∧ s.fin = [e] ∧ e ++ rest.flatten = extra := by
  rw [feed_eq_run init cs rfl]
  have hb : init.buffer ++ cs.flatten =
      (chunks.map encChunk).flatten ++ (last ++ CR :: LF :: (encTrailers trailers ++ CR :: LF :: extra)) := by
    rw [hcs]; simp [encode, init]
  obtain ⟨s1, cs1, a1, a2, a3, a4, a5, a6, a7⟩ := run_chunks _ chunks hc cs init rfl startOK_init hb
  obtain ⟨s2, cs2, b1, b2, b3, b4, ⟨b5, b6, b7⟩, b8⟩ := run_sizeLine last _ 0 hl cs1 s1 a1 a2 a3
  have b1' : s2.state = .trailer := by simpa using b1
  have hrecv : s2.recvTrailer = 0 := by rw [b7, a6]; rfl
  obtain ⟨s3, cs3, c1, c2, c3, c4, c5, c6⟩ := run_trailers _ trailers ht cs2 s2 b1' b3 (by omega) b4
  obtain ⟨s4, cs4, e, d1, d2, d3, d4, d5, d6⟩ := run_final extra cs3 s3 c1 c2 c3
  refine ⟨s4, cs4, e, ?_, d2, d3, ?_, ?_, d6⟩
  · rw [a7, b8, c6, d1]
  · rw [d4, c4, b5, a4]; simp [init]
  · rw [d5, c5, b6, a5]; simp [init]

/-! ### without the callers' discipline: `feedAll` -/

theorem feedAll_eq_feed_bind (s : Dec) (cs : List Bytes) :
    feedAll s cs = (feed s cs).bind fun p => feedAll p.1 p.2 := by
  induction cs generalizing s with
  | nil => simp [feed, feedAll, Except.bind]
  | cons d cs ih =>
    by_cases h : s.state = .finished
    · simp [feed, h, Except.bind]
    · simp only [feed, feedAll, h, if_false]
      cases hd : dataReceived s d with
      | error e => simp [Except.bind]
      | ok s' => simp only [Except.bind]; exact ih s'

/-- after the last chunk: an empty delivery is ignored, a non-empty one raises `RuntimeError`
    (and reaches neither callback) -/
theorem after_finished (s : Dec) (d : Bytes) (hs : s.state = .finished) (hb : s.buffer = []) :
    dataReceived s d = if d = [] then .ok s else .error (.runtime, s.append d) := by
  unfold dataReceived
  rw [loop_eq]
  by_cases hd : d = []
  · subst hd
    have : (s.append []) = s := by simp [Dec.append]
    simp [this, hb]
  · have : (s.append d).buffer ≠ [] := by simp [Dec.append, hb, hd]
    simp [hd, handler, Dec.append, hs]

theorem feedAll_finished_empties (s : Dec) (cs : List Bytes) (hs : s.state = .finished) (hb : s.buffer = [])
    (he : ∀ d ∈ cs, d = []) : feedAll s cs = .ok s := by
  induction cs with
  | nil => rfl
  | cons d cs ih =>
    have hd : d = [] := he d (by simp)
    subst hd
    rw [feedAll, after_finished s [] hs hb]
    simp only [if_true, Except.bind]
    exact ih (fun x hx => he x (by simp [hx]))

theorem feedAll_finished_data (s : Dec) (cs : List Bytes) (hs : s.state = .finished) (hb : s.buffer = [])
    (he : ∃ d ∈ cs, d ≠ []) : ∃ s', feedAll s cs = .error (.runtime, s') ∧ s'.data = s.data ∧ s'.fin = s.fin := by
  induction cs with
  | nil => simp at he
  | cons d cs ih =>
    by_cases hd : d = []
    · subst hd
      rw [feedAll, after_finished s [] hs hb]
      simp only [if_true, Except.bind]
      apply ih
      obtain ⟨x, hx, hne⟩ := he
      simp at hx
      rcases hx with rfl | hx
      · exact absurd rfl hne
      · exact ⟨x, hx, hne⟩
    · exact ⟨s.append d, by simp [feedAll, after_finished s d hs hb, hd, Except.bind], rfl, rfl⟩

/-- **Round trip, every delivery handed to the decoder.**  If nothing but empty deliveries
    follows the delivery that completes the body, `extra` is exactly the argument of the single
    `finishCallback` call. -/
theorem decode_encode_feedAll (chunks : List Chunk) (last : Bytes) (trailers : List Bytes) (extra : Bytes)
    (cs : List Bytes)
    (hc : ∀ c ∈ chunks, c.wf) (hl : lineOK last 0) (ht : ∀ t ∈ trailers, trailerOK t)
    (hT : trailerSize trailers ≤ maxTrailerHeadersSize)
    (hcs : cs.flatten = encode chunks last trailers ++ extra) :
    ∃ s rest e, feed init cs = .ok (s, rest) ∧ e ++ rest.flatten = extra ∧ s.data = body chunks ∧ s.fin = [e] ∧
      ((∀ d ∈ rest, d = []) → feedAll init cs = .ok s ∧ e = extra ∧ noMoreData s = .ok s) ∧
      ((∃ d ∈ rest, d ≠ []) → ∃ s', feedAll init cs = .error (.runtime, s') ∧ s'.data = body chunks ∧ s'.fin = [e]) := by
  obtain ⟨s, rest, e, h1, h2, h3, h4, h5, h6⟩ := decode_encode chunks last trailers extra cs hc hl ht hT hcs
  refine ⟨s, rest, e, h1, h6, h4, h5, ?_, ?_⟩
  · intro he
    refine ⟨?_, ?_, by simp [noMoreData, h2]⟩
    · rw [feedAll_eq_feed_bind, h1]; exact feedAll_finished_empties s rest h2 h3 he
    · have : rest.flatten = [] := by
        simp only [List.flatten_eq_nil_iff]; exact he
      rw [this] at h6; simpa using h6
  · intro he
    obtain ⟨s', g1, g2, g3⟩ := feedAll_finished_data s rest h2 h3 he
    exact ⟨s', by rw [feedAll_eq_feed_bind, h1]; exact g1, by rw [g2, h4], by rw [g3, h5]⟩

/-! ### truncation -/

/-- an invariant of single handler calls is an invariant of the `dataReceived` loop -/
theorem loop_inv (P : Dec → Prop)
    (hstep : ∀ s b s', s.buffer ≠ [] → handler s = .ok (b, s') → P s → P s') :
    ∀ (n : Nat) (s s' : Dec), measure s = n → loop s = .ok s' → P s → P s' := by
  intro n
  induction n using Nat.strongRecOn with
  | _ n ih =>
    intro s s' hm hl hp
    rw [loop_eq] at hl
    by_cases hne : s.buffer = []
    · simp [hne] at hl; rw [← hl]; exact hp
    · simp only [hne, if_false] at hl
      cases hh : handler s with
      | error e => simp [hh] at hl
      | ok p =>
        obtain ⟨b, s1⟩ := p
        cases b with
        | false => simp [hh] at hl; rw [← hl]; exact hstep s false s1 hne hh hp
        | true =>
          simp [hh] at hl
          exact ih (measure s1) (by rw [← hm]; exact handler_decreases s s1 hne hh) s1 s' rfl hl
            (hstep s true s1 hne hh hp)

/-- `finishCallback` has been called only if the decoder is FINISHED -/
def finInv (s : Dec) : Prop := s.state ≠ .finished → s.fin = []

theorem handler_finInv (s : Dec) (b : Bool) (s' : Dec) (h : handler s = .ok (b, s')) (hp : finInv s) :
    finInv s' := by
  unfold handler at h
  split at h
  · rename_i hst
    have hf : s.fin = [] := hp (by simp [hst])
    unfold handleChunkLength at h
    split at h
    · split at h
      · simp at h
      · simp at h; obtain ⟨_, rfl⟩ := h; intro _; exact hf
    · split at h
      · simp at h
      · split at h
        · simp at h
        · split at h
          · simp at h
          · simp at h; obtain ⟨_, rfl⟩ := h; intro _; exact hf
  · rename_i hst
    have hf : s.fin = [] := hp (by simp [hst])
    unfold handleCRLF at h
    split at h
    · split at h
      · simp at h; obtain ⟨_, rfl⟩ := h; intro _; exact hf
      · simp at h
    · simp at h; obtain ⟨_, rfl⟩ := h; intro _; exact hf
  · rename_i hst
    have hf : s.fin = [] := hp (by simp [hst])
    unfold handleTrailer at h
    split at h
    · split at h
      · simp at h
      · simp at h; obtain ⟨_, rfl⟩ := h; intro _; exact hf
    · simp at h; obtain ⟨_, rfl⟩ := h; intro hh; simp at hh
    · split at h
      · simp at h
      · simp at h; obtain ⟨_, rfl⟩ := h; intro _; exact hf
  · rename_i hst
    have hf : s.fin = [] := hp (by simp [hst])
    unfold handleBody at h
    split at h
    · simp at h; obtain ⟨_, rfl⟩ := h; intro _; exact hf
    · simp at h; obtain ⟨_, rfl⟩ := h; intro _; exact hf
  · simp at h

theorem feedAll_finInv (s : Dec) (cs : List Bytes) (s' : Dec) (h : feedAll s cs = .ok s') (hp : finInv s) :
    finInv s' := by
  induction cs generalizing s with
  | nil => simp [feedAll] at h; rw [← h]; exact hp
  | cons d cs ih =>
    simp only [feedAll] at h
    cases hd : dataReceived s d with
    | error e => simp [hd, Except.bind] at h
    | ok s1 =>
      simp only [hd, Except.bind] at h
      refine ih s1 h ?_
      exact loop_inv finInv (fun s b s' _ hh hp => handler_finInv s b s' hh hp) _ (s.append d) s1 rfl hd
        (by intro hs; exact hp hs)

theorem feed_rest_finished (s : Dec) (cs : List Bytes) (s' : Dec) (rest : List Bytes)
    (h : feed s cs = .ok (s', rest)) (hr : rest ≠ []) : s'.state = .finished := by
  induction cs generalizing s with
  | nil => simp [feed] at h; exact absurd h.2 hr
  | cons d cs ih =>
    by_cases hf : s.state = .finished
    · simp [feed, hf] at h; rw [← h.1]; exact hf
    · simp only [feed, hf, if_false] at h
      cases hd : dataReceived s d with
      | error e => simp [hd, Except.bind] at h
      | ok s1 => simp only [hd, Except.bind] at h; exact ih s1 h

theorem feed_append (s : Dec) (cs cs2 : List Bytes) :
    feed s (cs ++ cs2) = (feed s cs).bind fun p => if p.2 = [] then feed p.1 cs2 else .ok (p.1, p.2 ++ cs2) := by
  induction cs generalizing s with
  | nil => simp [feed, Except.bind]
  | cons d cs ih =>
    by_cases hf : s.state = .finished
    · simp [feed, hf, Except.bind]
    · simp only [List.cons_append, feed, hf, if_false]
      cases hd : dataReceived s d with
      | error e => simp [Except.bind]
      | ok s1 => simp only [Except.bind]; exact ih s1

/-- **Data loss.**  If the stream ends anywhere before the end of the encoding — `p` is a proper
    prefix, cut into deliveries in any way — the decoder has not finished, `finishCallback` has not
    been called, and `noMoreData()` raises `_DataLoss`. -/
theorem data_loss_on_truncation (chunks : List Chunk) (last : Bytes) (trailers : List Bytes)
    (p q : Bytes) (cs : List Bytes)
    (hc : ∀ c ∈ chunks, c.wf) (hl : lineOK last 0) (ht : ∀ t ∈ trailers, trailerOK t)
    (hT : trailerSize trailers ≤ maxTrailerHeadersSize)
    (hpq : p ++ q = encode chunks last trailers) (hq : q ≠ []) (hcs : cs.flatten = p) :
    ∃ s, feedAll init cs = .ok s ∧ s.state ≠ .finished ∧ s.fin = [] ∧ noMoreData s = .error (.dataLoss, s) := by
  have hflat : (cs ++ [q]).flatten = encode chunks last trailers ++ [] := by
    simp [hcs, hpq]
  obtain ⟨s, rest, e, h1, h2, h3, h4, h5, h6⟩ :=
    decode_encode chunks last trailers [] (cs ++ [q]) hc hl ht hT hflat
  rw [feed_append] at h1
  have he : e = [] ∧ rest.flatten = [] := by simpa using h6
  cases hf : feed init cs with
  | error err => simp [hf, Except.bind] at h1
  | ok pr =>
    obtain ⟨s1, rest1⟩ := pr
    simp only [hf, Except.bind] at h1
    by_cases hr : rest1 = []
    · subst hr
      simp only [if_true] at h1
      have hnf : s1.state ≠ .finished := by
        intro hfin
        rw [feed_finished s1 [q] hfin] at h1
        simp at h1
        have := he.2; rw [← h1.2] at this; simp at this; exact hq this
      have hall : feedAll init cs = .ok s1 := by
        rw [feedAll_eq_feed_bind, hf]; rfl
      refine ⟨s1, hall, hnf, ?_, by simp [noMoreData, hnf]⟩
      exact feedAll_finInv init cs s1 hall (fun _ => rfl) hnf
    · simp only [hr, if_false] at h1
      simp at h1
      have := he.2; rw [← h1.2] at this; simp at this; exact absurd this.2 hq

/-! ### size lines built from their parts -/

theorem splitSemi_plain (size : Bytes) (h : ∀ c ∈ size, c ≠ SEMI) : splitSemi size = (size, []) := by
  induction size with
  | nil => rfl
  | cons c size ih =>
    have hc : c ≠ SEMI := h c (by simp)
    have := ih (fun x hx => h x (by simp [hx]))
    simp [splitSemi, hc, this]

theorem splitSemi_ext (size ext : Bytes) (h : ∀ c ∈ size, c ≠ SEMI) :
    splitSemi (size ++ SEMI :: ext) = (size, ext) := by
  induction size with
  | nil => simp [splitSemi]
  | cons c size ih =>
    have hc : c ≠ SEMI := h c (by simp)
    have := ih (fun x hx => h x (by simp [hx]))
    simp [splitSemi, hc, this]

theorem noCRLF_of_no_CR (l : Bytes) (h : ∀ c ∈ l, c ≠ CR) : noCRLF l = true := by
  induction l with
  | nil => rfl
  | cons c l ih =>
    rw [noCRLF_cons]
    exact ⟨fun hh => h c (by simp) hh.1, ih (fun x hx => h x (by simp [hx]))⟩

theorem hexDigit_ne_semi (c : UInt8) (h : isHexDigit c = true) : c ≠ SEMI := by
  intro hc; subst hc; revert h; decide

theorem hexDigit_ne_CR (c : UInt8) (h : isHexDigit c = true) : c ≠ CR := by
  intro hc; subst hc; revert h; decide

theorem extChar_ne_CR (c : UInt8) (h : chunkExtChar c = true) : c ≠ CR := by
  intro hc; subst hc; revert h; decide

theorem hexDigits_all (size : Bytes) (h : isHexDigits size = true) : ∀ c ∈ size, isHexDigit c = true := by
  simp only [isHexDigits, Bool.and_eq_true, List.all_eq_true] at h
  exact h.1

/-- the optional `;extension` part of a size line -/
def extPart : Option Bytes → Bytes
  | none => []
  | some e => SEMI :: e

/-- a size line spelled `size [";" ext]`: hex digits (any case, leading zeros allowed) whose value
    is `n`, extension bytes all in `_chunkExtChars`, at most 1023 bytes -/
theorem lineOK_of_parts (size : Bytes) (ext : Option Bytes) (n : Nat)
    (hs : isHexDigits size = true) (hv : hexVal size = n)
    (he : ∀ e, ext = some e → e.all chunkExtChar = true)
    (hlen : (size ++ extPart ext).length ≤ 1023) : lineOK (size ++ extPart ext) n := by
  have hd := hexDigits_all size hs
  have hsemi : ∀ c ∈ size, c ≠ SEMI := fun c hc => hexDigit_ne_semi c (hd c hc)
  have hcr : ∀ c ∈ size, c ≠ CR := fun c hc => hexDigit_ne_CR c (hd c hc)
  cases ext with
  | none =>
    simp only [extPart, List.append_nil] at hlen ⊢
    refine ⟨noCRLF_of_no_CR _ hcr, hlen, ?_, ?_⟩
    · rw [splitSemi_plain size hsemi]; simp [hexint, hs, hv]
    · rw [splitSemi_plain size hsemi]; rfl
  | some e =>
    have hee := he e rfl
    simp only [extPart] at hlen ⊢
    refine ⟨noCRLF_of_no_CR _ ?_, hlen, ?_, ?_⟩
    · intro c hc
      simp only [List.mem_append, List.mem_cons] at hc
      rcases hc with hc | rfl | hc
      · exact hcr c hc
      · decide
      · exact extChar_ne_CR c (List.all_eq_true.mp hee c hc)
    · rw [splitSemi_ext size e hsemi]; simp [hexint, hs, hv]
    · rw [splitSemi_ext size e hsemi]; exact hee

/-! ### rejection, under every segmentation -/

theorem feedAll_error_of_feed (s : Dec) (cs : List Bytes) (e : Err × Dec) (h : feed s cs = .error e) :
    feedAll s cs = .error e := by
  rw [feedAll_eq_feed_bind, h]; rfl

/-- **Rejection of a bad chunk-size line** (after any number of good chunks): however the stream
    is cut into deliveries, `dataReceived` raises `_MalformedChunkedDataError`; the good chunks
    before it — and nothing else — have been delivered, `finishCallback` has not been called. -/
theorem rejects_bad_size_line (chunks : List Chunk) (line rest : Bytes) (cs : List Bytes)
    (hc : ∀ c ∈ chunks, c.wf) (hl : lineBad line)
    (hcs : cs.flatten = (chunks.map encChunk).flatten ++ (line ++ [CR, LF]) ++ rest) :
    ∃ s, feedAll init cs = .error (.malformed, s) ∧ feed init cs = .error (.malformed, s) ∧
      s.data = body chunks ∧ s.fin = [] := by
  have hb : init.buffer ++ cs.flatten = (chunks.map encChunk).flatten ++ (line ++ CR :: LF :: rest) := by
    rw [hcs]; simp [init]
  obtain ⟨s1, cs1, a1, a2, a3, a4, a5, a6, a7⟩ := run_chunks _ chunks hc cs init rfl startOK_init hb
  obtain ⟨s2, ⟨b1, b2, _⟩, b3⟩ := run_badLine line rest hl cs1 s1 a1 a2 a3
  have hfeed : feed init cs = .error (.malformed, s2) := by rw [feed_eq_run init cs rfl, a7, b3]
  exact ⟨s2, feedAll_error_of_feed _ _ _ hfeed, hfeed, by rw [b1, a4]; simp [init], by rw [b2, a5]; rfl⟩

/-- size not hexadecimal (empty, sign, `0x`, any non-hex byte), with or without an extension -/
theorem rejects_non_hex_size (chunks : List Chunk) (size : Bytes) (ext : Option Bytes) (rest : Bytes)
    (cs : List Bytes) (hc : ∀ c ∈ chunks, c.wf)
    (hsemi : ∀ c ∈ size, c ≠ SEMI) (hbad : isHexDigits size = false)
    (hno : noCRLF (size ++ extPart ext) = true)
    (hcs : cs.flatten = (chunks.map encChunk).flatten ++ (size ++ extPart ext ++ [CR, LF]) ++ rest) :
    ∃ s, feedAll init cs = .error (.malformed, s) ∧ s.data = body chunks ∧ s.fin = [] := by
  have hl : lineBad (size ++ extPart ext) := by
    refine ⟨hno, Or.inr (Or.inl ?_)⟩
    cases ext with
    | none => simp only [extPart, List.append_nil]; rw [splitSemi_plain size hsemi]; simp [hexint, hbad]
    | some e => simp only [extPart]; rw [splitSemi_ext size e hsemi]; simp [hexint, hbad]
  obtain ⟨s, h1, _, h3, h4⟩ := rejects_bad_size_line chunks _ rest cs hc hl hcs
  exact ⟨s, h1, h3, h4⟩

/-- a byte outside `_chunkExtChars` anywhere in the extension -/
theorem rejects_bad_ext_byte (chunks : List Chunk) (size ext : Bytes) (b : UInt8) (rest : Bytes)
    (cs : List Bytes) (hc : ∀ c ∈ chunks, c.wf)
    (hsemi : ∀ c ∈ size, c ≠ SEMI) (hb : b ∈ ext) (hbad : chunkExtChar b = false)
    (hno : noCRLF (size ++ SEMI :: ext) = true)
    (hcs : cs.flatten = (chunks.map encChunk).flatten ++ (size ++ SEMI :: ext ++ [CR, LF]) ++ rest) :
    ∃ s, feedAll init cs = .error (.malformed, s) ∧ s.data = body chunks ∧ s.fin = [] := by
  have hl : lineBad (size ++ SEMI :: ext) := by
    refine ⟨hno, Or.inr (Or.inr ?_)⟩
    rw [splitSemi_ext size ext hsemi]
    simp only [List.all_eq_false]
    exact ⟨b, hb, by simp [hbad]⟩
  obtain ⟨s, h1, _, h3, h4⟩ := rejects_bad_size_line chunks _ rest cs hc hl hcs
  exact ⟨s, h1, h3, h4⟩

/-- a size line of 1024 bytes or more -/
theorem rejects_overlong_size_line (chunks : List Chunk) (line rest : Bytes) (cs : List Bytes)
    (hc : ∀ c ∈ chunks, c.wf) (hno : noCRLF line = true) (hlen : 1024 ≤ line.length)
    (hcs : cs.flatten = (chunks.map encChunk).flatten ++ (line ++ [CR, LF]) ++ rest) :
    ∃ s, feedAll init cs = .error (.malformed, s) ∧ s.data = body chunks ∧ s.fin = [] := by
  obtain ⟨s, h1, _, h3, h4⟩ := rejects_bad_size_line chunks _ rest cs hc ⟨hno, Or.inl hlen⟩ hcs
  exact ⟨s, h1, h3, h4⟩

/-- **Rejection of an overlong size line whose CRLF never arrives** (after any number of good
    chunks): 1025 bytes in the size-line position with no CRLF among them, followed by anything
    or nothing — however the stream is cut into deliveries, `dataReceived` raises
    `_MalformedChunkedDataError` (so buffering is bounded); only the good chunks have been
    delivered, `finishCallback` has not been called. -/
theorem rejects_overlong_size_line_no_crlf (chunks : List Chunk) (junk rest : Bytes) (cs : List Bytes)
    (hc : ∀ c ∈ chunks, c.wf) (hno : noCRLF junk = true) (hlen : 1025 ≤ junk.length)
    (hcs : cs.flatten = (chunks.map encChunk).flatten ++ junk ++ rest) :
    ∃ s, feedAll init cs = .error (.malformed, s) ∧ feed init cs = .error (.malformed, s) ∧
      s.data = body chunks ∧ s.fin = [] := by
  have hb : init.buffer ++ cs.flatten = (chunks.map encChunk).flatten ++ (junk ++ rest) := by
    rw [hcs]; simp [init]
  obtain ⟨s1, cs1, a1, a2, a3, a4, a5, a6, a7⟩ := run_chunks _ chunks hc cs init rfl startOK_init hb
  obtain ⟨s2, ⟨b1, b2, _⟩, b3⟩ := run_overlongNoCRLF junk rest hno hlen cs1 s1 a1 a2 a3
  have hfeed : feed init cs = .error (.malformed, s2) := by rw [feed_eq_run init cs rfl, a7, b3]
  exact ⟨s2, feedAll_error_of_feed _ _ _ hfeed, hfeed, by rw [b1, a4]; simp [init], by rw [b2, a5]; rfl⟩

/-- **The bound is exact**: a partial size line of at most 1024 CRLF-free bytes (after any number
    of good chunks) is NOT refused, under any segmentation: every delivery is consumed without a
    raise, nothing but the good chunks is delivered, the decoder waits in CHUNK_LENGTH holding
    exactly the partial line — and if the stream ends there, `noMoreData()` raises `_DataLoss`. -/
theorem partial_size_line_tolerated (chunks : List Chunk) (part : Bytes) (cs : List Bytes)
    (hc : ∀ c ∈ chunks, c.wf) (hno : noCRLF part = true) (hlen : part.length ≤ 1024)
    (hcs : cs.flatten = (chunks.map encChunk).flatten ++ part) :
    ∃ s, feedAll init cs = .ok s ∧ s.state = .chunkLength ∧ s.buffer = part ∧
      s.data = body chunks ∧ s.fin = [] ∧ noMoreData s = .error (.dataLoss, s) := by
  have hb : init.buffer ++ cs.flatten = (chunks.map encChunk).flatten ++ part := by
    rw [hcs]; simp [init]
  obtain ⟨s1, cs1, a1, a2, a3, a4, a5, a6, a7⟩ := run_chunks _ chunks hc cs init rfl startOK_init hb
  obtain ⟨s2, ⟨b1, b2, _⟩, b3, b4, b5⟩ := run_partialLine part hno hlen cs1 s1 a1 a2 a3
  have hfeed : feed init cs = .ok (s2, []) := by rw [feed_eq_run init cs rfl, a7, b5]
  refine ⟨s2, ?_, b3, b4, by rw [b1, a4]; simp [init], by rw [b2, a5]; rfl, by simp [noMoreData, b3]⟩
  rw [feedAll_eq_feed_bind, hfeed]; rfl

/-- `noMoreData()` of the chunked decoder, for every decoder state: silent exactly in FINISHED,
    `_DataLoss` in the four others; no callback is called, nothing changes. -/
theorem chunked_noMoreData_table (s : Dec) :
    (s.state = .finished → noMoreData s = .ok s) ∧
    (s.state ≠ .finished → noMoreData s = .error (.dataLoss, s)) := by
  constructor <;> intro h <;> simp [noMoreData, h]

/-- **Rejection of chunk data not followed by CRLF**: two bytes other than `\r\n` after the
    announced number of data bytes raise `_MalformedChunkedDataError` under every segmentation;
    the data of that chunk has been delivered. -/
theorem rejects_missing_crlf_after_data (chunks : List Chunk) (c : Chunk) (x y : UInt8) (rest : Bytes)
    (cs : List Bytes) (hc : ∀ c ∈ chunks, c.wf) (hcw : c.wf) (hxy : ¬(x = CR ∧ y = LF))
    (hcs : cs.flatten = (chunks.map encChunk).flatten ++ (c.line ++ [CR, LF] ++ c.data) ++ x :: y :: rest) :
    ∃ s, feedAll init cs = .error (.malformed, s) ∧ s.data = body chunks ++ c.data ∧ s.fin = [] := by
  have hb : init.buffer ++ cs.flatten =
      (chunks.map encChunk).flatten ++ (c.line ++ CR :: LF :: (c.data ++ x :: y :: rest)) := by
    rw [hcs]; simp [init]
  obtain ⟨s1, cs1, a1, a2, a3, a4, a5, a6, a7⟩ := run_chunks _ chunks hc cs init rfl startOK_init hb
  obtain ⟨hl, hpos⟩ := hcw
  obtain ⟨s2, cs2, b1, b2, b3, b4, ⟨b5, b6, b7⟩, b8⟩ := run_sizeLine c.line _ _ hl cs1 s1 a1 a2 a3
  have b1' : s2.state = .body := by
    rw [b1]; have : c.data.length ≠ 0 := by omega
    simp [this]
  obtain ⟨s3, cs3, c1, c2, c3, c4, c5, c6, c7⟩ := run_body _ cs2 s2 c.data b1' b3 b2 hpos b4
  obtain ⟨s4, ⟨d1, d2, _⟩, d3⟩ := run_badCrlf x y rest hxy cs3 s3 c1 c3
  have hfeed : feed init cs = .error (.malformed, s4) := by rw [feed_eq_run init cs rfl, a7, b8, c7, d3]
  refine ⟨s4, feedAll_error_of_feed _ _ _ hfeed, ?_, ?_⟩
  · rw [d1, c4, b5, a4]; simp [init]
  · rw [d2, c5, b6, a5]; rfl

/-! ### `toChunk` writes acceptable chunks -/

theorem hexVal_snoc (ds : Bytes) (d : UInt8) : hexVal (ds ++ [d]) = hexVal ds * 16 + hexDigitVal d := by
  simp [hexVal, List.foldl_append]

theorem digit_facts : ∀ d : Fin 16, isHexDigit (hexDigitLower d.val) = true ∧ hexDigitVal (hexDigitLower d.val) = d.val := by
  decide

theorem toHexAux_spec : ∀ (fuel n : Nat) (acc : Bytes), n < fuel →
    ∃ ds, toHexAux fuel n acc = ds ++ acc ∧ ds ≠ [] ∧ (∀ c ∈ ds, isHexDigit c = true) ∧ hexVal ds = n := by
  intro fuel
  induction fuel with
  | zero => intro n acc h; omega
  | succ fuel ih =>
    intro n acc h
    by_cases hn : n < 16
    · have := digit_facts ⟨n, hn⟩
      refine ⟨[hexDigitLower n], by simp [toHexAux, hn], by simp, ?_, ?_⟩
      · intro c hc; simp at hc; subst hc; exact this.1
      · simp [hexVal]; exact this.2
    · obtain ⟨ds, h1, h2, h3, h4⟩ := ih (n / 16) (hexDigitLower (n % 16) :: acc) (by omega)
      have := digit_facts ⟨n % 16, by omega⟩
      refine ⟨ds ++ [hexDigitLower (n % 16)], by simp [toHexAux, hn, h1], by simp, ?_, ?_⟩
      · intro c hc
        simp only [List.mem_append, List.mem_singleton] at hc
        rcases hc with hc | rfl
        · exact h3 c hc
        · exact this.1
      · rw [hexVal_snoc, h4, this.2]; simp only; omega

theorem toHex_spec (n : Nat) : isHexDigits (toHex n) = true ∧ hexVal (toHex n) = n := by
  obtain ⟨ds, h1, h2, h3, h4⟩ := toHexAux_spec (n + 1) n [] (by omega)
  simp only [List.append_nil] at h1
  unfold toHex
  rw [h1]
  refine ⟨?_, h4⟩
  simp only [isHexDigits, Bool.and_eq_true, List.all_eq_true]
  exact ⟨h3, by cases ds <;> simp_all⟩

/-- what `toChunk(data)` writes for non-empty `data` is an acceptable chunk carrying `data`
    (`f"{len(data):x}"` is at most 1023 characters for every `data` that fits in memory) -/
theorem toChunk_wf (data : Bytes) (hne : data ≠ []) (hlen : (toHex data.length).length ≤ 1023) :
    (Chunk.mk (toHex data.length) data).wf ∧ encChunk (Chunk.mk (toHex data.length) data) = toChunk data := by
  refine ⟨⟨?_, List.length_pos_iff.mpr hne⟩, by simp [encChunk, toChunk]⟩
  have := lineOK_of_parts (toHex data.length) none data.length (toHex_spec _).1 (toHex_spec _).2
    (by intro e he; cases he) (by simpa [extPart] using hlen)
  simpa [extPart] using this

/-- **Round trip of what Twisted itself writes**: `toChunk` of each non-empty piece, then the
    terminator `b"0\r\n\r\n"`, then anything, under every segmentation. -/
theorem decode_toChunk (pieces : List Bytes) (extra : Bytes) (cs : List Bytes)
    (hp : ∀ d ∈ pieces, d ≠ [] ∧ (toHex d.length).length ≤ 1023)
    (hcs : cs.flatten = (pieces.map toChunk).flatten ++ [48, CR, LF, CR, LF] ++ extra) :
    ∃ s rest e, feed init cs = .ok (s, rest) ∧ s.state = .finished ∧ s.data = pieces.flatten ∧
      s.fin = [e] ∧ e ++ rest.flatten = extra := by
  have hl0 : lineOK [48] 0 := by
    have := lineOK_of_parts [48] none 0 (by decide) (by decide) (by intro e he; cases he) (by decide)
    simpa [extPart] using this
  obtain ⟨s, rest, e, h1, h2, _, h4, h5, h6⟩ := decode_encode
    (pieces.map fun d => Chunk.mk (toHex d.length) d) [48] [] extra cs
    (by
      intro c hc
      simp only [List.mem_map] at hc
      obtain ⟨d, hd, rfl⟩ := hc
      exact (toChunk_wf d (hp d hd).1 (hp d hd).2).1)
    hl0 (by simp) (by simp [trailerSize, maxTrailerHeadersSize])
    (by
      have hm : List.map toChunk pieces = List.map (encChunk ∘ fun d => Chunk.mk (toHex d.length) d) pieces := by
        apply List.map_congr_left
        intro d hd
        exact ((toChunk_wf d (hp d hd).1 (hp d hd).2).2).symm
      rw [hcs, hm]
      simp [encode, encTrailers, List.map_map])
  refine ⟨s, rest, e, h1, h2, ?_, h5, h6⟩
  rw [h4]; simp [body, List.map_map, Function.comp_def]

/-! ### `_IdentityTransferDecoder` -/

theorem ident_feed_inactive (s : Ident) (cs : List Bytes) (h : s.active = false) : Ident.feed s cs = .ok (s, cs) := by
  cases cs <;> simp [Ident.feed, h]

def identPart (s : Ident) (k : Nat) (d : Bytes) : Ident :=
  { s with contentLength := some (k - d.length), data := s.data ++ d }

def identDone (s : Ident) (k : Nat) (d : Bytes) : Ident :=
  { s with contentLength := some 0, active := false, data := s.data ++ d.take k, fin := s.fin ++ [d.drop k] }

theorem ident_exact_aux : ∀ (cs : List Bytes) (s : Ident) (k : Nat), s.contentLength = some k → s.active = true →
    cs ≠ [] → k ≤ cs.flatten.length →
    ∃ s' rest e, Ident.feed s cs = .ok (s', rest) ∧ s'.active = false ∧ s'.data = s.data ++ cs.flatten.take k ∧
      s'.fin = s.fin ++ [e] ∧ e ++ rest.flatten = cs.flatten.drop k := by
  intro cs
  induction cs with
  | nil => intro s k _ _ h; exact absurd rfl h
  | cons d cs ih =>
    intro s k hk ha _ hlen
    by_cases hd : d.length < k
    · have hstep : Ident.dataReceived s d = .ok (identPart s k d) := by
        simp [Ident.dataReceived, identPart, ha, hk, hd]
      simp only [List.flatten_cons, List.length_append] at hlen
      have hlen' : k - d.length ≤ cs.flatten.length := by omega
      have hcs : cs ≠ [] := by
        intro h; subst h; simp at hlen'; omega
      obtain ⟨s', rest, e, h1, h2, h3, h4, h5⟩ := ih (identPart s k d) (k - d.length) rfl ha hcs hlen'
      refine ⟨s', rest, e, ?_, h2, ?_, h4, ?_⟩
      · simp only [Ident.feed, ha, hstep, Except.bind]; simpa using h1
      · rw [h3]; simp only [List.flatten_cons, identPart]
        rw [List.take_append, List.take_of_length_le (show d.length ≤ k by omega)]; simp
      · rw [h5]; simp only [List.flatten_cons]
        rw [List.drop_append, List.drop_of_length_le (show d.length ≤ k by omega)]; simp
    · have hstep : Ident.dataReceived s d = .ok (identDone s k d) := by
        simp [Ident.dataReceived, identDone, ha, hk, hd]
      refine ⟨identDone s k d, cs, d.drop k, ?_, rfl, ?_, rfl, ?_⟩
      · simp only [Ident.feed, ha, hstep, Except.bind]
        simpa using ident_feed_inactive _ cs rfl
      · simp only [List.flatten_cons, identDone]
        rw [List.take_append_of_le_length (by omega)]
      · simp only [List.flatten_cons]
        rw [List.drop_append_of_le_length (by omega)]

/-- **Identity decoder, exact.**  With `Content-Length: n`, for every split of a stream of at least
    `n` bytes into (at least one) deliveries: exactly the first `n` bytes are delivered,
    `finishCallback` is called once, with `e`, and `e` followed by the deliveries not handed to the
    decoder is exactly what follows the first `n` bytes. -/
theorem identity_decoder_exact (n : Nat) (cs : List Bytes) (hne : cs ≠ []) (hlen : n ≤ cs.flatten.length) :
    ∃ s rest e, Ident.feed (Ident.init (some n)) cs = .ok (s, rest) ∧ s.data = cs.flatten.take n ∧
      s.fin = [e] ∧ e ++ rest.flatten = cs.flatten.drop n := by
  obtain ⟨s, rest, e, h1, _, h3, h4, h5⟩ := ident_exact_aux cs (Ident.init (some n)) n rfl rfl hne hlen
  exact ⟨s, rest, e, h1, by simpa [Ident.init] using h3, by simpa [Ident.init] using h4, h5⟩

/-- **Identity decoder, data loss.**  Fewer than `n` bytes in all: everything is delivered,
    `finishCallback` is not called, `noMoreData()` raises `_DataLoss`. -/
theorem identity_data_loss : ∀ (cs : List Bytes) (s : Ident) (k : Nat), s.contentLength = some k → s.active = true →
    cs.flatten.length < k →
    ∃ s', Ident.feedAll s cs = .ok s' ∧ s'.data = s.data ++ cs.flatten ∧ s'.fin = s.fin ∧
      ∃ s'', Ident.noMoreData s' = .error (.dataLoss, s'') ∧ s''.data = s'.data ∧ s''.fin = s'.fin := by
  intro cs
  induction cs with
  | nil =>
    intro s k hk ha hlen
    refine ⟨s, rfl, by simp, rfl, ?_⟩
    have : k ≠ 0 := by simp at hlen; omega
    exact ⟨{ s with active := false }, by simp [Ident.noMoreData, hk, this], rfl, rfl⟩
  | cons d cs ih =>
    intro s k hk ha hlen
    simp only [List.flatten_cons, List.length_append] at hlen
    have hd : d.length < k := by omega
    have hstep : Ident.dataReceived s d = .ok (identPart s k d) := by
      simp [Ident.dataReceived, identPart, ha, hk, hd]
    obtain ⟨s', h1, h2, h3, h4⟩ := ih (identPart s k d) (k - d.length) rfl ha (by omega)
    refine ⟨s', ?_, ?_, h3, h4⟩
    · simp only [Ident.feedAll, hstep, Except.bind]; exact h1
    · rw [h2]; simp [identPart]

/-! ### `_IdentityTransferDecoder` without a `Content-Length`, and `noMoreData` in every state -/

/-- the decoder after `dataCallback(b)` and nothing else -/
def identMore (s : Ident) (b : Bytes) : Ident := { s with data := s.data ++ b }

/-- `contentLength is None`: every delivery is passed on, the decoder never finishes by itself -/
theorem ident_none_feed : ∀ (cs : List Bytes) (s : Ident), s.contentLength = none → s.active = true →
    Ident.feedAll s cs = .ok (identMore s cs.flatten) ∧ Ident.feed s cs = .ok (identMore s cs.flatten, []) := by
  intro cs
  induction cs with
  | nil => intro s _ _; simp [Ident.feedAll, Ident.feed, identMore]
  | cons d cs ih =>
    intro s hn ha
    have hstep : Ident.dataReceived s d = .ok (identMore s d) := by
      simp [Ident.dataReceived, identMore, ha, hn]
    obtain ⟨h1, h2⟩ := ih (identMore s d) hn ha
    have hm : identMore (identMore s d) cs.flatten = identMore s (d :: cs).flatten := by simp [identMore]
    constructor
    · simp only [Ident.feedAll, hstep, Except.bind]; rw [h1, hm]
    · have hna : (!s.active) = false := by simp [ha]
      simp only [Ident.feed, hna, Bool.false_eq_true, if_false, hstep, Except.bind]; rw [h2, hm]

/-- **Identity decoder, body delimited by the end of the connection** (`contentLength=None`).
    For every list of deliveries (empty ones included, none at all included): every byte is handed
    to `dataCallback`, in order; `finishCallback` is not called while data arrives and no delivery is
    held back; `noMoreData()` then calls `finishCallback` exactly once, with `b""`, and raises
    `PotentialDataLoss`; after that any `dataReceived` raises `RuntimeError` and reaches no callback. -/
theorem identity_until_close_exact (cs : List Bytes) :
    ∃ s, Ident.feedAll (Ident.init none) cs = .ok s ∧ Ident.feed (Ident.init none) cs = .ok (s, []) ∧
      s.data = cs.flatten ∧ s.fin = [] ∧ s.active = true ∧
      ∃ s', Ident.noMoreData s = .error (.potentialDataLoss, s') ∧ s'.data = cs.flatten ∧ s'.fin = [[]] ∧
        s'.active = false ∧ ∀ d, Ident.dataReceived s' d = .error (.runtime, s') := by
  obtain ⟨h1, h2⟩ := ident_none_feed cs (Ident.init none) rfl rfl
  refine ⟨_, h1, h2, by simp [Ident.init, identMore], rfl, rfl, _, rfl, by simp [Ident.init, identMore], rfl, rfl, ?_⟩
  intro d; simp [Ident.dataReceived]

/-- **`_IdentityTransferDecoder.noMoreData`, the outcome for every decoder state**
    (`contentLength` ∈ {None, 0, > 0} × callbacks still set / already dropped).
    * `contentLength is None`, `finishCallback` still set: `finishCallback(b"")`, then
      `PotentialDataLoss`;
    * `contentLength == 0` (all announced bytes seen, or `Content-Length: 0`): returns normally,
      calls nothing — whether or not the callbacks are still set;
    * `contentLength > 0`: `_DataLoss`, calls nothing — whether or not the callbacks are still set.
    In every case both callbacks are dropped (`active = false`) and `dataCallback` saw nothing new.
    The one remaining state, `contentLength is None` with the callbacks already dropped, is reached
    only by a second `noMoreData()` on the same decoder; there the code calls `None(b"")`
    (`TypeError`), which no caller does and the model does not represent (see ASSUMES). -/
theorem identity_noMoreData_table (s : Ident) :
    (s.contentLength = none → s.active = true →
      Ident.noMoreData s = .error (.potentialDataLoss, { s with active := false, fin := s.fin ++ [[]] })) ∧
    (s.contentLength = some 0 → Ident.noMoreData s = .ok { s with active := false }) ∧
    (∀ k, s.contentLength = some (k + 1) → Ident.noMoreData s = .error (.dataLoss, { s with active := false })) := by
  refine ⟨?_, ?_, ?_⟩
  · intro h _; simp [Ident.noMoreData, h]
  · intro h; simp [Ident.noMoreData, h]
  · intro k h; simp [Ident.noMoreData, h]

/-- the states a decoder can be in after any successful `dataReceived` calls: the callbacks are
    dropped only together with `contentLength = 0`, and `contentLength is None` never drops them —
    so the table above covers every state reachable before the first `noMoreData()` -/
theorem ident_reachable (n : Option Nat) (cs : List Bytes) (s : Ident) (h : Ident.feedAll (Ident.init n) cs = .ok s) :
    (s.contentLength = none → s.active = true) ∧ (s.active = false → s.contentLength = some 0) := by
  suffices H : ∀ (cs : List Bytes) (s0 s : Ident), Ident.feedAll s0 cs = .ok s →
      ((s0.contentLength = none → s0.active = true) ∧ (s0.active = false → s0.contentLength = some 0)) →
      ((s.contentLength = none → s.active = true) ∧ (s.active = false → s.contentLength = some 0)) from
    H cs _ s h ⟨fun _ => rfl, fun h => by simp [Ident.init] at h⟩
  intro cs
  induction cs with
  | nil => intro s0 s h h0; simp [Ident.feedAll] at h; rw [← h]; exact h0
  | cons d cs ih =>
    intro s0 s h h0
    simp only [Ident.feedAll] at h
    cases hd : Ident.dataReceived s0 d with
    | error e => simp [hd, Except.bind] at h
    | ok s1 =>
      simp only [hd, Except.bind] at h
      refine ih s1 s h ?_
      unfold Ident.dataReceived at hd
      split at hd
      · simp at hd
      · rename_i ha
        have ha' : s0.active = true := by simpa using ha
        split at hd
        · simp at hd; subst hd; simp_all
        · split at hd
          · simp at hd; subst hd; simp_all
          · simp at hd; subst hd; simp

/-- a decoder whose callbacks are gone after a successful `dataReceived` has `contentLength == 0` -/
theorem ident_dataReceived_done (s s' : Ident) (d : Bytes) (h : Ident.dataReceived s d = .ok s')
    (hi : s'.active = false) : s'.contentLength = some 0 := by
  unfold Ident.dataReceived at h
  split at h
  · simp at h
  · split at h
    · simp at h; subst h; simp_all
    · split at h
      · simp at h; subst h; simp_all
      · simp at h; subst h; rfl

theorem ident_feed_done (s s' : Ident) (cs rest : List Bytes) (h : Ident.feed s cs = .ok (s', rest))
    (h0 : s.active = false → s.contentLength = some 0) (hi : s'.active = false) : s'.contentLength = some 0 := by
  induction cs generalizing s with
  | nil => simp [Ident.feed] at h; rw [← h.1] at hi ⊢; exact h0 hi
  | cons d cs ih =>
    by_cases ha : s.active = true
    · simp only [Ident.feed, ha, Bool.not_true] at h
      cases hd : Ident.dataReceived s d with
      | error e => simp [hd, Except.bind] at h
      | ok s1 =>
        simp only [hd, Except.bind] at h
        exact ih s1 h (ident_dataReceived_done s s1 d hd)
    · have ha' : s.active = false := by simpa using ha
      simp [Ident.feed, ha'] at h; rw [← h.1] at hi ⊢; exact h0 hi

/-- **Identity decoder, complete body, then the connection ends.**  With `Content-Length: n` and at
    least `n` bytes in (at least one) deliveries: after the single `finishCallback(e)` of
    `identity_decoder_exact`, `noMoreData()` returns normally and calls nothing more — exactly the
    first `n` bytes delivered, `finishCallback` called exactly once in all. -/
theorem identity_complete_noMoreData (n : Nat) (cs : List Bytes) (hne : cs ≠ []) (hlen : n ≤ cs.flatten.length) :
    ∃ s rest e s', Ident.feed (Ident.init (some n)) cs = .ok (s, rest) ∧ Ident.noMoreData s = .ok s' ∧
      s'.data = cs.flatten.take n ∧ s'.fin = [e] ∧ e ++ rest.flatten = cs.flatten.drop n := by
  obtain ⟨s, rest, e, h1, h2, h3, h4, h5⟩ := ident_exact_aux cs (Ident.init (some n)) n rfl rfl hne hlen
  have h0 := ident_feed_done _ s cs rest h1 (by simp [Ident.init]) h2
  refine ⟨s, rest, e, { s with active := false }, h1, (identity_noMoreData_table s).2.1 h0, ?_, ?_, h5⟩
  · simpa [Ident.init] using h3
  · simpa [Ident.init] using h4

/-- `Content-Length: 0` and not a single `dataReceived` call: `noMoreData()` returns normally and
    `finishCallback` is never called (the code calls it only from `dataReceived`) -/
theorem identity_zero_no_delivery :
    Ident.noMoreData (Ident.init (some 0)) = .ok { Ident.init (some 0) with active := false } ∧
    ({ Ident.init (some 0) with active := false } : Ident).fin = [] := ⟨rfl, rfl⟩

/-! ### Non-vacuity: the hypotheses hold on concrete, non-trivial values -/

/-- `3;x=y\r\nabc\r\n` and `0A\r\n0123456789\r\n` -/
def exChunks : List Chunk :=
  [⟨[51, 59, 120, 61, 121], [97, 98, 99]⟩, ⟨[48, 65], [48, 49, 50, 51, 52, 53, 54, 55, 56, 57]⟩]

theorem exChunks_wf : ∀ c ∈ exChunks, c.wf := by
  intro c hc
  simp only [exChunks, List.mem_cons, List.not_mem_nil, or_false] at hc
  rcases hc with rfl | rfl <;> exact ⟨⟨by decide, by decide, by decide, by decide⟩, by decide⟩

/-- last-chunk `00;z`, trailer `T: v` (and one ending in a lone CR) -/
theorem exLast_ok : lineOK [48, 48, 59, 122] 0 := ⟨by decide, by decide, by decide, by decide⟩
theorem exTrailers_ok : ∀ t ∈ [[84, 58, 32, 118], [13, 97, 13]], trailerOK t := by
  intro t ht
  simp only [List.mem_cons, List.not_mem_nil, or_false] at ht
  rcases ht with rfl | rfl <;> exact ⟨by simp, by decide⟩

/-- the stream `3;x=y\r\nabc\r\n0A\r\n0123456789\r\n00;z\r\nT: v\r\n\rA\r\r\n\r\nEX`, delivered as three pieces
    cut inside the first size line and between the final CR and LF (plus an empty delivery) -/
example : ∃ s rest e, feed init
      [[51, 59], [], [120, 61, 121, 13, 10, 97, 98, 99, 13, 10, 48, 65, 13, 10, 48, 49, 50, 51, 52, 53, 54, 55, 56, 57, 13, 10,
        48, 48, 59, 122, 13, 10, 84, 58, 32, 118, 13, 10, 13, 97, 13, 13, 10, 13], [10, 69, 88]] = .ok (s, rest) ∧
      s.state = .finished ∧ s.buffer = [] ∧ s.data = [97, 98, 99, 48, 49, 50, 51, 52, 53, 54, 55, 56, 57] ∧
      s.fin = [e] ∧ e ++ rest.flatten = [69, 88] :=
  decode_encode exChunks [48, 48, 59, 122] [[84, 58, 32, 118], [13, 97, 13]] [69, 88] _
    exChunks_wf exLast_ok exTrailers_ok (by decide) (by decide)

/-- the same stream cut short after `0A\r\n01234` -/
example : ∃ s, feedAll init [[51, 59, 120, 61, 121, 13, 10, 97], [98, 99, 13, 10, 48, 65, 13, 10, 48, 49, 50, 51, 52]] = .ok s ∧
      s.state ≠ .finished ∧ s.fin = [] ∧ noMoreData s = .error (.dataLoss, s) :=
  data_loss_on_truncation exChunks [48, 48, 59, 122] [[84, 58, 32, 118], [13, 97, 13]]
    [51, 59, 120, 61, 121, 13, 10, 97, 98, 99, 13, 10, 48, 65, 13, 10, 48, 49, 50, 51, 52]
    [53, 54, 55, 56, 57, 13, 10, 48, 48, 59, 122, 13, 10, 84, 58, 32, 118, 13, 10, 13, 97, 13, 13, 10, 13, 10] _
    exChunks_wf exLast_ok exTrailers_ok (by decide) (by decide) (by decide) (by decide)

/-- `bloop\r\n`, `-3\r\n`, `0x3\r\n`, `\r\n` (empty size) after a good chunk, cut anywhere -/
example : lineBad [98, 108, 111, 111, 112] ∧ lineBad [45, 51] ∧ lineBad [48, 120, 51] ∧ lineBad [] ∧
    lineBad [51, 59, 97, 92, 98] ∧ lineBad [51, 59, 127] ∧ lineBad [51, 59, 10] :=
  ⟨⟨by decide, by decide⟩, ⟨by decide, by decide⟩, ⟨by decide, by decide⟩, ⟨by decide, by decide⟩,
   ⟨by decide, by decide⟩, ⟨by decide, by decide⟩, ⟨by decide, by decide⟩⟩

example : ∃ s, feedAll init [[51, 59, 120, 61, 121, 13, 10, 97, 98, 99, 13], [10, 98, 108], [111, 111, 112, 13], [10, 88]] =
      .error (.malformed, s) ∧ s.data = [97, 98, 99] ∧ s.fin = [] := by
  obtain ⟨s, h1, h2, h3⟩ := rejects_non_hex_size [⟨[51, 59, 120, 61, 121], [97, 98, 99]⟩] [98, 108, 111, 111, 112] none [88]
    [[51, 59, 120, 61, 121, 13, 10, 97, 98, 99, 13], [10, 98, 108], [111, 111, 112, 13], [10, 88]]
    (by intro c hc; exact exChunks_wf c (by simp only [List.mem_singleton] at hc; subst hc; simp [exChunks]))
    (by decide) (by decide) (by decide) (by decide)
  exact ⟨s, h1, by simpa [body] using h2, h3⟩

/-- `3;a\b\r\n…`: backslash is not in `_chunkExtChars` -/
example : ∃ s, feedAll init [[51, 59, 97], [92, 98, 13, 10, 97, 98, 99, 13, 10]] = .error (.malformed, s) ∧
      s.data = body [] ∧ s.fin = [] :=
  rejects_bad_ext_byte [] [51] [97, 92, 98] 92 [97, 98, 99, 13, 10] _ (by simp) (by decide) (by decide) (by decide)
    (by decide) (by decide)

/-- `3\r\nabcXY…` -/
example : ∃ s, feedAll init [[51, 13, 10, 97, 98], [99, 88], [89, 48]] = .error (.malformed, s) ∧
      s.data = body [] ++ [97, 98, 99] ∧ s.fin = [] :=
  rejects_missing_crlf_after_data [] ⟨[51], [97, 98, 99]⟩ 88 89 [48] _ (by simp)
    ⟨⟨by decide, by decide, by decide, by decide⟩, by decide⟩ (by decide) (by decide)

/-- a 1024-byte size line exists and has no CRLF -/
example : noCRLF (List.replicate 1024 48) = true ∧ 1024 ≤ (List.replicate 1024 48 : Bytes).length := by
  refine ⟨noCRLF_of_no_CR _ ?_, by rw [List.length_replicate]; exact Nat.le_refl _⟩
  intro c hc; rw [List.mem_replicate] at hc; rw [hc.2]; decide

/-- `toChunk(b"hello world, 16+!")` = `11\r\nhello world, 16+!\r\n` -/
example : toChunk [104, 101, 108, 108, 111, 32, 119, 111, 114, 108, 100, 44, 32, 49, 54, 43, 33] =
    [49, 49, 13, 10, 104, 101, 108, 108, 111, 32, 119, 111, 114, 108, 100, 44, 32, 49, 54, 43, 33, 13, 10] := by decide

example : ∃ s rest e, feed init [[49, 13, 10, 90], [13, 10, 50, 13, 10, 90, 90, 13, 10, 48, 13], [10, 13, 10, 71, 69, 84], [32]] =
      .ok (s, rest) ∧ s.state = .finished ∧ s.data = [[90], [90, 90]].flatten ∧ s.fin = [e] ∧
      e ++ rest.flatten = [71, 69, 84, 32] :=
  decode_toChunk [[90], [90, 90]] [71, 69, 84, 32] _
    (by intro d hd; simp at hd; rcases hd with rfl | rfl <;> exact ⟨by simp, by decide⟩) (by decide)

example : ∃ s rest e, Ident.feed (Ident.init (some 3)) [[97, 98], [], [99, 100], [101]] = .ok (s, rest) ∧
      s.data = [97, 98, 99] ∧ s.fin = [e] ∧ e ++ rest.flatten = [100, 101] :=
  identity_decoder_exact 3 _ (by simp) (by decide)

/-- 1027 bytes `3;eee…e` with no CRLF, delivered as 1002 + 25 bytes (the second delivery raises),
    then the CRLF that comes too late -/
theorem exJunk_ok : noCRLF ((51 :: 59 :: List.replicate 1000 101) ++ List.replicate 25 101) = true ∧
    1025 ≤ ((51 :: 59 :: List.replicate 1000 101) ++ List.replicate 25 101 : Bytes).length := by
  refine ⟨noCRLF_of_no_CR _ ?_, by simp only [List.length_append, List.length_cons, List.length_replicate]; omega⟩
  intro c hc
  simp only [List.mem_append, List.mem_cons, List.mem_replicate] at hc
  rcases hc with (rfl | rfl | ⟨_, rfl⟩) | ⟨_, rfl⟩ <;> decide

example : ∃ s, feedAll init [51 :: 59 :: List.replicate 1000 101, List.replicate 25 101, [13, 10]] =
      .error (.malformed, s) ∧ s.data = [] ∧ s.fin = [] := by
  obtain ⟨s, h1, _, h3, h4⟩ := rejects_overlong_size_line_no_crlf []
    ((51 :: 59 :: List.replicate 1000 101) ++ List.replicate 25 101) [13, 10]
    [51 :: 59 :: List.replicate 1000 101, List.replicate 25 101, [13, 10]] (by simp) exJunk_ok.1 exJunk_ok.2
    (by simp only [List.flatten_cons, List.flatten_nil, List.map_nil, List.nil_append, List.append_nil,
          List.append_assoc])
  exact ⟨s, h1, by simpa [body] using h3, h4⟩

/-- `3;e` then a lone CR: tolerated -/
example : ∃ s, feedAll init [[51, 59], [], [101, 13]] = .ok s ∧ s.state = .chunkLength ∧ s.buffer = [51, 59, 101, 13] ∧
    s.data = body [] ∧ s.fin = [] ∧ noMoreData s = .error (.dataLoss, s) :=
  partial_size_line_tolerated [] [51, 59, 101, 13] _ (by simp) (by decide) (by decide) (by decide)

example : ∃ s, Ident.feedAll (Ident.init none) [[97, 98], [], [99]] = .ok s ∧
    Ident.feed (Ident.init none) [[97, 98], [], [99]] = .ok (s, []) ∧
    s.data = [97, 98, 99] ∧ s.fin = [] ∧ s.active = true ∧
    ∃ s', Ident.noMoreData s = .error (.potentialDataLoss, s') ∧ s'.data = [97, 98, 99] ∧ s'.fin = [[]] ∧
      s'.active = false ∧ ∀ d, Ident.dataReceived s' d = .error (.runtime, s') :=
  identity_until_close_exact [[97, 98], [], [99]]

example : ∃ s rest e s', Ident.feed (Ident.init (some 3)) [[97, 98], [99, 100], [101]] = .ok (s, rest) ∧
    Ident.noMoreData s = .ok s' ∧ s'.data = [97, 98, 99] ∧ s'.fin = [e] ∧ e ++ rest.flatten = [100, 101] :=
  identity_complete_noMoreData 3 _ (by simp) (by decide)

/-! ### re-entrant `noMoreData()` from the callbacks -/

theorem dataReceived_finInv (s s' : Dec) (d : Bytes) (h : dataReceived s d = .ok s') (hp : finInv s) : finInv s' :=
  loop_inv finInv (fun s b s' _ hh hp => handler_finInv s b s' hh hp) _ (s.append d) s' rfl h
    (by intro hs; exact hp hs)

/-- **`noMoreData()` called from `finishCallback`** (test_reentrantFinishedNoMoreData): the code sets
    `state = "FINISHED"` before it calls `finishCallback`, so from the moment `finishCallback` has been
    entered `noMoreData()` is silent — for every history of deliveries. -/
theorem reentrant_noMoreData_in_finishCallback (cs : List Bytes) (s : Dec)
    (h : feedAll init cs = .ok s) (hf : s.fin ≠ []) : noMoreData s = .ok s := by
  have hi : finInv s := feedAll_finInv init cs s h (by intro _; rfl)
  have : s.state = .finished := by
    by_cases hs : s.state = .finished
    · exact hs
    · exact absurd (hi hs) hf
  exact (chunked_noMoreData_table s).1 this

/-- one delivery: if it made `finishCallback` fire, `noMoreData()` is silent afterwards -/
theorem reentrant_noMoreData_step (s s' : Dec) (d : Bytes) (h : dataReceived s d = .ok s') (hp : finInv s)
    (hf : s'.fin ≠ []) : noMoreData s' = .ok s' := by
  have hi := dataReceived_finInv s s' d h hp
  have : s'.state = .finished := by
    by_cases hs : s'.state = .finished
    · exact hs
    · exact absurd (hi hs) hf
  exact (chunked_noMoreData_table s').1 this

/-- **`noMoreData()` called from `dataCallback`**: `dataCallback` is called by `_dataReceived_BODY` only,
    after the state has been set to CRLF or left at BODY: the last chunk has not been seen and
    `noMoreData()` reports `_DataLoss`. -/
theorem reentrant_noMoreData_in_dataCallback (s s' : Dec) (b : Bool) (hs : s.state = .body)
    (h : handler s = .ok (b, s')) :
    (s'.state = .crlf ∨ s'.state = .body) ∧ noMoreData s' = .error (.dataLoss, s') := by
  simp only [handler, hs] at h
  unfold handleBody at h
  split at h
  · simp only [Except.ok.injEq, Prod.mk.injEq] at h
    obtain ⟨_, rfl⟩ := h
    simp [noMoreData]
  · simp only [Except.ok.injEq, Prod.mk.injEq] at h
    obtain ⟨_, rfl⟩ := h
    simp [noMoreData, hs]

/-- only `_dataReceived_BODY` delivers body bytes -/
theorem data_changes_only_in_body (s s' : Dec) (b : Bool) (h : handler s = .ok (b, s')) (hd : s'.data ≠ s.data) :
    s.state = .body := by
  unfold handler at h
  split at h
  · exfalso
    unfold handleChunkLength at h
    split at h
    · split at h
      · simp at h
      · simp at h; obtain ⟨_, rfl⟩ := h; exact hd rfl
    · split at h
      · simp at h
      · split at h
        · simp at h
        · split at h
          · simp at h
          · simp at h; obtain ⟨_, rfl⟩ := h; exact hd rfl
  · exfalso
    unfold handleCRLF at h
    split at h
    · split at h
      · simp at h; obtain ⟨_, rfl⟩ := h; exact hd rfl
      · simp at h
    · simp at h; obtain ⟨_, rfl⟩ := h; exact hd rfl
  · exfalso
    unfold handleTrailer at h
    split at h
    · split at h
      · simp at h
      · simp at h; obtain ⟨_, rfl⟩ := h; exact hd rfl
    · simp at h; obtain ⟨_, rfl⟩ := h; exact hd rfl
    · split at h
      · simp at h
      · simp at h; obtain ⟨_, rfl⟩ := h; exact hd rfl
  · assumption
  · simp at h

/-- **identity decoder, `noMoreData()` beneath `dataReceived`**: the delivery that completes the body sets
    `contentLength = 0` and drops the callbacks before calling them, so a `noMoreData()` from either
    callback returns normally and changes nothing. -/
theorem ident_reentrant_noMoreData (s s' : Ident) (d : Bytes) (h : Ident.dataReceived s d = .ok s')
    (hf : s'.fin ≠ s.fin) : Ident.noMoreData s' = .ok s' := by
  unfold Ident.dataReceived at h
  split at h
  · simp at h
  · split at h
    · simp at h; subst h; exact absurd rfl hf
    · split at h
      · simp at h; subst h; exact absurd rfl hf
      · simp at h; subst h; simp [Ident.noMoreData]

/-! ### `fromChunk` -/

theorem splitCRLF_spec (pre rest : Bytes) (h : ∀ c ∈ pre, c ≠ CR) :
    splitCRLF (pre ++ CR :: LF :: rest) = some (pre, rest) := by
  induction pre with
  | nil => simp [splitCRLF]
  | cons c p ih =>
    have hc : c ≠ CR := h c (by simp)
    have := ih (fun x hx => h x (by simp [hx]))
    simp [splitCRLF, hc, this]

theorem fromChunk_of_hex (size data rest : Bytes) (hs : isHexDigits size = true) (hv : hexVal size = data.length) :
    fromChunk (size ++ [CR, LF] ++ data ++ [CR, LF] ++ rest) = some (data, rest) := by
  have hcr : ∀ c ∈ size, c ≠ CR := fun c hc => hexDigit_ne_CR c (hexDigits_all size hs c hc)
  have h1 : size ++ [CR, LF] ++ data ++ [CR, LF] ++ rest = size ++ CR :: LF :: (data ++ CR :: LF :: rest) := by simp
  rw [h1]
  unfold fromChunk
  rw [splitCRLF_spec _ _ hcr]
  simp [hexint, hs, hv]

/-- **`fromChunk` inverts `toChunk`** (whatever follows the chunk is returned untouched). -/
theorem fromChunk_toChunk (data rest : Bytes) : fromChunk (toChunk data ++ rest) = some (data, rest) := by
  have := fromChunk_of_hex (toHex data.length) data rest (toHex_spec _).1 (toHex_spec _).2
  simpa [toChunk] using this

/-- **`fromChunk` refuses a size that is not `1*HEXDIG`** — whatever precedes the first CRLF. -/
theorem fromChunk_rejects_non_hex (data pre rest : Bytes) (h : splitCRLF data = some (pre, rest))
    (hb : isHexDigits pre = false) : fromChunk data = none := by
  simp [fromChunk, h, hexint, hb]

theorem fromChunk_rejects_missing_crlf (data pre rest : Bytes) (h : splitCRLF data = some (pre, rest))
    (hc : (rest.drop (hexVal pre)).take 2 ≠ [CR, LF]) : fromChunk data = none := by
  unfold fromChunk
  rw [h]
  simp only [hexint]
  split <;> simp_all

theorem fromChunk_rejects_no_crlf (data : Bytes) (h : splitCRLF data = none) : fromChunk data = none := by
  simp [fromChunk, h]

example : fromChunk [51, 13, 10, 97, 98, 99, 13, 10, 114] = some ([97, 98, 99], [114]) := by decide
example : fromChunk [48, 120, 51, 13, 10, 97, 98, 99, 13, 10] = none ∧ fromChunk [43, 51, 13, 10, 97, 98, 99, 13, 10] = none ∧
    fromChunk [51, 32, 13, 10, 97, 98, 99, 13, 10] = none ∧ fromChunk [51, 13, 10, 97, 98, 99, 100, 13, 10] = none ∧
    fromChunk [51] = none := by decide

end TwistedProps.C22
