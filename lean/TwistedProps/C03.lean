import TwistedProps.C03.Invariant
import TwistedProps.C03.Reent
/-!
C03 — a Deferred delivers one result; cancellation follows its protocol.

Model: `TwistedModel/Defer/Cancel.lean` (one outer Deferred, any number of inner Deferreds returned
by its callbacks, cancellers as data: absent / returns / fires callback / fires errback / raises).
All theorems quantify over ALL histories of operations (any length) through `Reach` /
`execGen … h`; the invariant behind them (`Inv`, proved for every reachable state in
`TwistedProps/C03/Invariant.lean`) says: unfired ⇒ no result, nothing delivered, ignore-flag clear;
fired ⇒ exactly one result delivered, canceller cleared; the outer Deferred waits on inner `i` iff
its `result` is that Deferred, which is then unfired and carries the continuation.

`catches = false` is twisted as it is; `catches = true` the candidate repair of `Deferred.cancel`
(catch the canceller's exception).  DEFECT: for a canceller that raises the code violates the
statement (`cancel_raising_canceller_counterexample`); the repair was NOT applied because an
existing test (`test_cancelDeferredListWithException`) then leaves an unhandled `CancelledError`
(fails under trial), so the headline for the code as it is is `protocol_all_histories_partial`
and the full statement is proved for the repaired model (`protocol_all_histories_repaired`).
-/
namespace TwistedProps.C03
open Twisted.Defer.Cancel

/-- `s` is the state after some history of operations on a fresh Deferred with some canceller;
    `catches = false` is twisted as it is, `catches = true` the candidate repair of `cancel()` -/
def Reach (catches : Bool) (s : State) : Prop := ∃ spec h, s = execGen catches (init spec) h

theorem reach_inv {catches : Bool} {s : State} (h : Reach catches s) : Inv s := by
  obtain ⟨spec, hist, rfl⟩ := h
  exact exec_Inv catches _ hist (init_Inv spec)

/-- a history can always be extended: the state after one more operation is reachable -/
theorem reach_step {catches : Bool} {s : State} (h : Reach catches s) (op : Op) :
    Reach catches (stepGen catches s op).1 := by
  obtain ⟨spec, hist, rfl⟩ := h
  refine ⟨spec, hist ++ [op], ?_⟩
  have : ∀ (t : State) (l : List Op), execGen catches t (l ++ [op]) = (stepGen catches (execGen catches t l) op).1 := by
    intro t l
    induction l generalizing t with
    | nil => rfl
    | cons o os ih => simp only [List.cons_append, execGen]; exact ih _
  exact (this _ _).symm

/-! ### 1. One result -/

/-- **One result, all histories.**  After any history, with any cancellers, every Deferred has
    been given at most one result, and it has been given one exactly when it is `called`. -/
theorem one_result (catches : Bool) (spec : CancelSpec) (h : List Op) :
    let s := execGen catches (init spec) h
    s.delivered.length ≤ 1 ∧ (s.called = true ↔ s.delivered.length = 1) ∧
    ∀ (i : Nat) (inn : Inner), s.inners[i]? = some inn →
      inn.delivered.length ≤ 1 ∧ (inn.called = true ↔ inn.delivered.length = 1) := by
  intro s
  have hi : Inv s := reach_inv ⟨spec, h, rfl⟩
  refine ⟨?_, ?_, ?_⟩
  · cases hc : s.called with
    | false => simp [(hi.w.unf hc).2]
    | true => simp [(hi.w.fir hc).2.1]
  · cases hc : s.called with
    | false => simp [(hi.w.unf hc).2]
    | true => simp [(hi.w.fir hc).2.1]
  · intro i inn hg
    have hok := hi.w.inn i inn hg
    unfold InnerOK at hok
    cases hc : inn.called with
    | false => simp [(hok.1 hc).2]
    | true => simp [(hok.2 hc).2.1]

/-! ### 2. The second result is refused; exactly one is ignored after a canceller-less cancel -/

inductive Phase where
  | unfired | fired | firedIgnoreNext
  deriving DecidableEq, Repr

/-- where a Deferred is in its life, from its `called` / `_suppressAlreadyCalled` flags -/
def phaseOf (called suppress : Bool) : Phase :=
  if !called then .unfired else if suppress then .firedIgnoreNext else .fired

/-- THE PROTOCOL (written from the property statement, not from the code): next phase and
    outcome of an operation addressed to a Deferred whose canceller is `canc`. -/
def protoFire : Phase → Phase × Outcome
  | .unfired => (.fired, .ok)                   -- the one result it accepts
  | .firedIgnoreNext => (.fired, .ok)           -- silently ignored, once
  | .fired => (.fired, .alreadyCalled)

def protoCancel (canc : CancelSpec) : Phase → Phase
  | .unfired => if canc = .none then .firedIgnoreNext else .fired
  | p => p

theorem outer_fire_protocol (catches : Bool) (s : State) (r : Res) (h : Reach catches s) :
    (phaseOf (fireOuter s r).1.called (fireOuter s r).1.suppress, (fireOuter s r).2)
      = protoFire (phaseOf s.called s.suppress) ∧
    (s.called = false → (fireOuter s r).1.delivered = [r]) ∧
    (s.called = true → (fireOuter s r).1 = { s with suppress := false }) := by
  have hi := reach_inv h
  cases hc : s.called with
  | false =>
    obtain ⟨_, _, c, d, e, f, _⟩ := fireOuter_fresh s r hi.w hc
    have hs := hi.supO hc
    refine ⟨?_, fun _ => e, by simp⟩
    rw [d, f, c, hs]; rfl
  | true =>
    cases hs : s.suppress with
    | true => rw [fireOuter_called_suppress s r hc hs]; simp [phaseOf, protoFire, hc]
    | false =>
      rw [fireOuter_called_nosuppress s r hc hs]
      refine ⟨by simp [phaseOf, protoFire, hc, hs], by simp, fun _ => ?_⟩
      cases s; simp_all


theorem inner_fire_protocol (catches : Bool) (s : State) (i : Nat) (inn : Inner) (r : Res)
    (h : Reach catches s) (hg : s.inners[i]? = some inn) :
    ∃ inn', (fireInner s i r).1.inners[i]? = some inn' ∧
      (phaseOf inn'.called inn'.suppress, (fireInner s i r).2) = protoFire (phaseOf inn.called inn.suppress) ∧
      (inn.called = false → inn'.delivered = [r]) ∧
      (inn.called = true → inn'.delivered = inn.delivered ∧ inn'.cancCalls = inn.cancCalls) ∧
      -- the outer Deferred is not fired, cancelled or given a result by this
      OuterSame s (fireInner s i r).1 := by
  have hi := reach_inv h
  have hlt := lt_of_get hg
  have hok := hi.w.inn i inn hg
  cases hc : inn.called with
  | false =>
    obtain ⟨_, b, c, d⟩ := fireInner_fresh s i inn r hi.w hg hc
    obtain ⟨y, hy, hv⟩ := c.2 i (innFired inn r) (by simp [hlt])
    have hs := hi.supI i inn hg hc
    unfold SameView at hv
    refine ⟨y, hy, ?_, fun _ => ?_, by simp, b⟩
    · rw [hv.1, hv.2.2.2.2, d]; simp [innFired, phaseOf, protoFire, hs]
    · rw [hv.2.1]; simp [innFired, (hok.1 hc).2]
  | true =>
    cases hs : inn.suppress with
    | true =>
      rw [fireInner_called_suppress s i inn r hg hc hs]
      exact ⟨{ inn with suppress := false }, by simp [hlt], by simp [phaseOf, protoFire, hc], by simp,
        by simp, ⟨rfl, rfl, rfl, rfl, rfl⟩⟩
    | false =>
      rw [fireInner_called_nosuppress s i inn r hg hc hs]
      exact ⟨inn, hg, by simp [phaseOf, protoFire, hc, hs], by simp, by simp, ⟨rfl, rfl, rfl, rfl, rfl⟩⟩

/-! ### 3. `cancel()` on an unfired Deferred -/

/-- `cancel()` on the unfired outer Deferred: canceller called exactly once (if there is one),
    the Deferred is fired — with the canceller's result if it fired it, else `CancelledError` —
    `cancel()` returns normally, and one late result will be ignored iff there was no canceller.
    Hypothesis `hr`: in twisted as it is, the canceller does not raise (see the counterexample). -/
theorem cancel_unfired_outer (catches : Bool) (s : State) (h : Reach catches s) (hc : s.called = false)
    (hr : ¬ (s.canc = .raises ∧ catches = false)) :
    (cancelOuterGen catches s).2 = .ok ∧
    (cancelOuterGen catches s).1.cancCalls = s.cancCalls + (if s.canc = .none then 0 else 1) ∧
    (cancelOuterGen catches s).1.delivered = [cancelDelivery s.canc] ∧
    phaseOf (cancelOuterGen catches s).1.called (cancelOuterGen catches s).1.suppress
      = protoCancel s.canc (phaseOf s.called s.suppress) := by
  have hi := reach_inv h
  obtain ⟨_, _, c, d, e, f, g⟩ := cancelOuter_unfired catches s hi.w hc hr
  refine ⟨c, f, e, ?_⟩
  rw [d, g, hc, hi.supO hc]
  by_cases hn : s.canc = .none <;> simp [phaseOf, protoCancel, hn]

/-- the same for an unfired inner Deferred (cancelled directly, or through the outer one that
    waits on it); additionally the outer Deferred's own canceller is not involved -/
theorem cancel_unfired_inner (catches : Bool) (s : State) (i : Nat) (inn : Inner) (h : Reach catches s)
    (hg : s.inners[i]? = some inn) (hc : inn.called = false)
    (hr : ¬ (inn.canc = .raises ∧ catches = false)) :
    (cancelInnerGen catches s i).2 = .ok ∧
    OuterSame s (cancelInnerGen catches s i).1 ∧
    ∃ inn', (cancelInnerGen catches s i).1.inners[i]? = some inn' ∧
      inn'.cancCalls = inn.cancCalls + (if inn.canc = .none then 0 else 1) ∧
      inn'.delivered = [cancelDelivery inn.canc] ∧
      phaseOf inn'.called inn'.suppress = protoCancel inn.canc (phaseOf inn.called inn.suppress) := by
  have hi := reach_inv h
  have hlt := lt_of_get hg
  have hok := hi.w.inn i inn hg
  have hd : inn.delivered = [] := (hok.1 hc).2
  have hs := hi.supI i inn hg hc
  obtain ⟨_, b, c, d⟩ := cancelInner_unfired catches s i inn hi.w hg hc
  obtain ⟨y, hy, hv⟩ := c.2 i (cancelTarget catches inn) (by simp [hlt])
  unfold SameView at hv
  refine ⟨?_, b, y, hy, ?_, ?_, ?_⟩
  · rw [d]; unfold cancelOutcome; simp [hr]
  · rw [hv.2.2.1]; unfold cancelTarget
    rcases canc_cases inn.canc with hcc | hcc | ⟨v, hcc⟩ | ⟨e, hcc⟩ | hcc <;> simp only [hcc]
    · simp [innFired]
    · simp [innFired]
    · simp [innFired]
    · simp [innFired]
    · have : catches = true := by
        cases catches with
        | true => rfl
        | false => exact absurd ⟨hcc, rfl⟩ hr
      simp [this, innFired]
  · rw [hv.2.1]; unfold cancelTarget
    rcases canc_cases inn.canc with hcc | hcc | ⟨v, hcc⟩ | ⟨e, hcc⟩ | hcc <;> simp only [hcc]
    · simp [innFired, hd, cancelDelivery]
    · simp [innFired, hd, cancelDelivery]
    · simp [innFired, hd, cancelDelivery]
    · simp [innFired, hd, cancelDelivery]
    · have : catches = true := by
        cases catches with
        | true => rfl
        | false => exact absurd ⟨hcc, rfl⟩ hr
      simp [this, innFired, hd, cancelDelivery]
  · rw [hv.1, hv.2.2.2.2, hc, hs]; unfold cancelTarget
    rcases canc_cases inn.canc with hcc | hcc | ⟨v, hcc⟩ | ⟨e, hcc⟩ | hcc <;> simp only [hcc]
    · simp [innFired, phaseOf, protoCancel]
    · simp [innFired, phaseOf, protoCancel, hs]
    · simp [innFired, phaseOf, protoCancel, hs]
    · simp [innFired, phaseOf, protoCancel, hs]
    · have : catches = true := by
        cases catches with
        | true => rfl
        | false => exact absurd ⟨hcc, rfl⟩ hr
      simp [this, innFired, phaseOf, protoCancel, hs]

/-! ### 4. `cancel()` on a fired Deferred -/

/-- fired and waiting on inner Deferred `i`: `cancel()` is exactly `inner_i.cancel()`, and that
    Deferred is unfired (so §3 applies to it: its canceller runs once, it gets `CancelledError`
    unless its canceller fired it) -/
theorem cancel_fired_waiting_forwards (catches : Bool) (s : State) (i : Nat) (h : Reach catches s)
    (hc : s.called = true) (hres : s.result = .dref i) :
    stepGen catches s .cancel = stepGen catches s (.cancelInner i) ∧
    ∃ inn, s.inners[i]? = some inn ∧ inn.called = false := by
  have hi := reach_inv h
  refine ⟨cancelOuterGen_called_dref catches s i hc hres, ?_⟩
  have hch := hi.w.chain
  rw [hres] at hch
  obtain ⟨inn, hg, hcc, _⟩ := hch.2.1
  exact ⟨inn, hg, hcc⟩

/-- fired and not waiting on another Deferred: `cancel()` has no effect at all -/
theorem cancel_fired_not_waiting_noop (catches : Bool) (s : State) (hc : s.called = true)
    (hres : ∀ i, s.result ≠ .dref i) : stepGen catches s .cancel = (s, .ok) :=
  cancelOuterGen_called_other catches s hc hres

/-- likewise for a fired inner Deferred (they never wait on anything) -/
theorem cancel_fired_inner_noop (catches : Bool) (s : State) (i : Nat) (inn : Inner)
    (hg : s.inners[i]? = some inn) (hc : inn.called = true) :
    stepGen catches s (.cancelInner i) = (s, .ok) :=
  cancelInnerGen_called catches s i inn hg hc


/-! ### 5. Operations addressed to another Deferred do not fire, cancel or re-fire this one -/

/-- operations on inner Deferreds, adding callbacks, and `cancel()` once fired leave the outer
    Deferred's `called`, delivered result, ignore-flag, canceller and canceller count alone -/
theorem outer_untouched (catches : Bool) (s : State) (op : Op) (h : Reach catches s)
    (hop : (∀ v, op ≠ .callback v) ∧ (∀ e, op ≠ .errback e) ∧ (op = .cancel → s.called = true)) :
    OuterSame s (stepGen catches s op).1 := by
  have hi := reach_inv h
  have cI : ∀ i, OuterSame s (cancelInnerGen catches s i).1 := by
    intro i
    cases hg : s.inners[i]? with
    | none => rw [cancelInnerGen_none catches s i hg]; exact ⟨rfl, rfl, rfl, rfl, rfl⟩
    | some inn =>
      cases hc : inn.called with
      | true => rw [cancelInnerGen_called catches s i inn hg hc]; exact ⟨rfl, rfl, rfl, rfl, rfl⟩
      | false => exact (cancelInner_unfired catches s i inn hi.w hg hc).2.1
  cases op with
  | callback v => exact absurd rfl (hop.1 v)
  | errback e => exact absurd rfl (hop.2.1 e)
  | cancel =>
    have hc := hop.2.2 rfl
    show OuterSame s (cancelOuterGen catches s).1
    cases hres : s.result with
    | dref i => rw [cancelOuterGen_called_dref catches s i hc hres]; exact cI i
    | unset => rw [cancelOuterGen_called_other catches s hc (by simp [hres])]; exact ⟨rfl, rfl, rfl, rfl, rfl⟩
    | res r => rw [cancelOuterGen_called_other catches s hc (by simp [hres])]; exact ⟨rfl, rfl, rfl, rfl, rfl⟩
  | add both spec => exact (addInner_spec s both spec hi.w).2.1
  | fireInner i isErr n => exact (fireInner_inv s i _ hi.w).2.1
  | cancelInner i => exact cI i

/-- the observable part of inner Deferred `i` is untouched by operations on the outer Deferred
    (unless that is a `cancel()` forwarded to `i`) and by adding callbacks -/
theorem inner_untouched (catches : Bool) (s : State) (op : Op) (i : Nat) (inn : Inner)
    (h : Reach catches s) (hg : s.inners[i]? = some inn)
    (hop : (∀ j b n, op ≠ .fireInner j b n) ∧ (∀ j, op ≠ .cancelInner j) ∧
           (op = .cancel → s.called = false ∨ ∀ j, s.result ≠ .dref j)) :
    ∃ inn', (stepGen catches s op).1.inners[i]? = some inn' ∧ SameView inn inn' := by
  have hi := reach_inv h
  have hlt := lt_of_get hg
  cases op with
  | callback v => exact (fireOuter_inv s _ hi.w).2.1.2 i inn hg
  | errback e => exact (fireOuter_inv s _ hi.w).2.1.2 i inn hg
  | fireInner j b n => exact absurd rfl (hop.1 j b n)
  | cancelInner j => exact absurd rfl (hop.2.1 j)
  | add both spec =>
    exact (addInner_spec s both spec hi.w).2.2.2 i inn (by rw [List.getElem?_append_left hlt]; exact hg)
  | cancel =>
    show ∃ inn', (cancelOuterGen catches s).1.inners[i]? = some inn' ∧ SameView inn inn'
    cases hc : s.called with
    | false =>
      by_cases hr : s.canc = .raises ∧ catches = false
      · obtain ⟨h1, h2⟩ := hr
        subst h2
        rw [cancelOuter_unfired_raises s hc h1]
        exact ⟨inn, hg, rfl, rfl, rfl, rfl, rfl⟩
      · exact (cancelOuter_unfired catches s hi.w hc hr).2.1.2 i inn hg
    | true =>
      rcases hop.2.2 rfl with h' | h'
      · rw [hc] at h'; cases h'
      · rw [cancelOuterGen_called_other catches s hc h']
        exact ⟨inn, hg, rfl, rfl, rfl, rfl, rfl⟩

/-- **The result is never replaced.**  Once the outer Deferred has fired, no further history of
    operations of any kind changes `called` or the result it was given. -/
theorem result_never_replaced (catches : Bool) (s : State) (h : Reach catches s) (hc : s.called = true)
    (more : List Op) :
    (execGen catches s more).called = true ∧ (execGen catches s more).delivered = s.delivered := by
  induction more generalizing s with
  | nil => exact ⟨hc, rfl⟩
  | cons op ops ih =>
    have key : (stepGen catches s op).1.called = true ∧ (stepGen catches s op).1.delivered = s.delivered := by
      by_cases hf : (∃ v, op = .callback v) ∨ (∃ e, op = .errback e)
      · rcases hf with ⟨v, rfl⟩ | ⟨e, rfl⟩
        · have := (outer_fire_protocol catches s (.val v) h).2.2 hc
          show (fireOuter s (.val v)).1.called = true ∧ (fireOuter s (.val v)).1.delivered = s.delivered
          rw [this]; exact ⟨hc, rfl⟩
        · have := (outer_fire_protocol catches s (.err e) h).2.2 hc
          show (fireOuter s (.err e)).1.called = true ∧ (fireOuter s (.err e)).1.delivered = s.delivered
          rw [this]; exact ⟨hc, rfl⟩
      · have hu := outer_untouched catches s op h
          ⟨fun v hv => hf (Or.inl ⟨v, hv⟩), fun e he => hf (Or.inr ⟨e, he⟩), fun _ => hc⟩
        unfold OuterSame at hu
        exact ⟨by rw [hu.1]; exact hc, hu.2.1⟩
    have := ih (stepGen catches s op).1 (reach_step h op) key.1
    simp only [execGen]
    exact ⟨this.1, by rw [this.2, key.2]⟩

/-! ### 6. The defect of the code as it is, and the headline -/

/-- **Counterexample (twisted as it is).**  The statement's "cancel() on an unfired Deferred …
    unless the canceller fired it, errbacks it with CancelledError" is FALSE for a canceller that
    raises: `Deferred(canceller=raises).cancel()` lets the exception out and leaves the Deferred
    unfired.  (Replayed on the implementation by the check: corpus case `spec=r ops=x`.) -/
theorem cancel_raising_canceller_counterexample :
    ¬ (∀ (spec : CancelSpec) (h : List Op), (exec (init spec) h).called = false →
        (step (exec (init spec) h) .cancel).1.called = true ∧ (step (exec (init spec) h) .cancel).2 = .ok) := by
  intro H
  have := H .raises [] rfl
  revert this
  decide

/-- the same through forwarding: the outer Deferred waits on an inner one whose canceller raises -/
theorem cancel_forwarded_raising_counterexample :
    ((trace (init .none) [.callback 1, .add false .raises, .cancel]).map
        (fun p => (p.1, p.2.inners.map (·.called)))) =
      [(.ok, []), (.ok, [false]), (.cancellerRaised, [false])] := by
  decide

/-- the rules of the property statement, at one state -/
structure ProtocolAt (catches : Bool) (s : State) : Prop where
  /-- callback/errback on the outer Deferred: accepted once, then AlreadyCalledError, except one ignored -/
  fire_outer : ∀ r, (phaseOf (fireOuter s r).1.called (fireOuter s r).1.suppress, (fireOuter s r).2)
      = protoFire (phaseOf s.called s.suppress) ∧
    (s.called = false → (fireOuter s r).1.delivered = [r]) ∧
    (s.called = true → (fireOuter s r).1 = { s with suppress := false })
  /-- … and on every inner Deferred -/
  fire_inner : ∀ i inn r, s.inners[i]? = some inn →
    ∃ inn', (fireInner s i r).1.inners[i]? = some inn' ∧
      (phaseOf inn'.called inn'.suppress, (fireInner s i r).2) = protoFire (phaseOf inn.called inn.suppress) ∧
      (inn.called = false → inn'.delivered = [r]) ∧
      (inn.called = true → inn'.delivered = inn.delivered ∧ inn'.cancCalls = inn.cancCalls) ∧
      OuterSame s (fireInner s i r).1
  /-- cancel() on the unfired outer Deferred whose canceller does not let an exception escape -/
  cancel_unfired_outer : s.called = false → ¬ (s.canc = .raises ∧ catches = false) →
    (cancelOuterGen catches s).2 = .ok ∧
    (cancelOuterGen catches s).1.cancCalls = s.cancCalls + (if s.canc = .none then 0 else 1) ∧
    (cancelOuterGen catches s).1.delivered = [cancelDelivery s.canc] ∧
    phaseOf (cancelOuterGen catches s).1.called (cancelOuterGen catches s).1.suppress
      = protoCancel s.canc (phaseOf s.called s.suppress)
  /-- … and on an unfired inner Deferred -/
  cancel_unfired_inner : ∀ i inn, s.inners[i]? = some inn → inn.called = false →
    ¬ (inn.canc = .raises ∧ catches = false) →
    (cancelInnerGen catches s i).2 = .ok ∧ OuterSame s (cancelInnerGen catches s i).1 ∧
    ∃ inn', (cancelInnerGen catches s i).1.inners[i]? = some inn' ∧
      inn'.cancCalls = inn.cancCalls + (if inn.canc = .none then 0 else 1) ∧
      inn'.delivered = [cancelDelivery inn.canc] ∧
      phaseOf inn'.called inn'.suppress = protoCancel inn.canc (phaseOf inn.called inn.suppress)
  /-- cancel() on a fired Deferred waiting on another: cancels that one (which is unfired) -/
  cancel_waiting : ∀ i, s.called = true → s.result = .dref i →
    stepGen catches s .cancel = stepGen catches s (.cancelInner i) ∧
    ∃ inn, s.inners[i]? = some inn ∧ inn.called = false
  /-- cancel() on a fired Deferred not waiting: no effect -/
  cancel_fired : s.called = true → (∀ i, s.result ≠ .dref i) → stepGen catches s .cancel = (s, .ok)
  cancel_fired_inner : ∀ i inn, s.inners[i]? = some inn → inn.called = true →
    stepGen catches s (.cancelInner i) = (s, .ok)

theorem protocolAt_of_reach (catches : Bool) (s : State) (h : Reach catches s) : ProtocolAt catches s :=
  { fire_outer := fun r => outer_fire_protocol catches s r h
    fire_inner := fun i inn r hg => inner_fire_protocol catches s i inn r h hg
    cancel_unfired_outer := fun hc hr => cancel_unfired_outer catches s h hc hr
    cancel_unfired_inner := fun i inn hg hc hr => cancel_unfired_inner catches s i inn h hg hc hr
    cancel_waiting := fun i hc hres => cancel_fired_waiting_forwards catches s i h hc hres
    cancel_fired := fun hc hres => cancel_fired_not_waiting_noop catches s hc hres
    cancel_fired_inner := fun i inn hg hc => cancel_fired_inner_noop catches s i inn hg hc }

/-- **C03 for twisted as it is, all histories (partial).**  After ANY history of
    callback / errback / cancel / add-callback-returning-a-Deferred / fire-or-cancel-inner
    operations, of any length, with any cancellers, every rule of the statement holds for the next
    operation — EXCEPT that the two `cancel_unfired_*` rules carry the hypothesis "the canceller of
    the Deferred being cancelled does not raise".  What is missing for full strength is exactly
    that case, and it is false in the code (`cancel_raising_canceller_counterexample`). -/
theorem protocol_all_histories_partial (spec : CancelSpec) (h : List Op) :
    ProtocolAt false (exec (init spec) h) :=
  protocolAt_of_reach false _ ⟨spec, h, rfl⟩

/-- **C03 at full strength for the candidate repair** (`cancel()` catches the canceller's
    exception): every rule, every history, every canceller including one that raises — the
    hypothesis of the `cancel_unfired_*` rules is vacuous (`catches = true`). -/
theorem protocol_all_histories_repaired (spec : CancelSpec) (h : List Op) :
    ProtocolAt true (execRepaired (init spec) h) ∧
    ∀ (c : CancelSpec), ¬ (c = .raises ∧ true = false) :=
  ⟨protocolAt_of_reach true _ ⟨spec, h, rfl⟩, fun _ hc => by cases hc.2⟩

/-! ### Non-vacuity (concrete histories through the executable model) -/

-- canceller-less cancel, then one ignored result, then AlreadyCalledError twice
example : ((trace (init .none) [.cancel, .callback 1, .callback 2, .errback 3]).map (·.1),
    (exec (init .none) [.cancel, .callback 1, .callback 2, .errback 3]).delivered)
    = ([.ok, .ok, .alreadyCalled, .alreadyCalled], [.cancelled]) := by decide
-- a canceller that fires: called once, its result stands, nothing is ignored afterwards
example : ((trace (init (.firesOk 7)) [.cancel, .cancel, .callback 1]).map (·.1),
    (exec (init (.firesOk 7)) [.cancel, .cancel, .callback 1]).delivered,
    (exec (init (.firesOk 7)) [.cancel, .cancel, .callback 1]).cancCalls)
    = ([.ok, .ok, .alreadyCalled], [.val 7], 1) := by decide
-- fired and waiting on an inner Deferred: cancel is forwarded, the inner's canceller runs once,
-- the inner gets CancelledError, the outer resumes with it; its own canceller is not called
example : (let s := exec (init .noop) [.add false .noop, .callback 1, .cancel, .cancel]
    (s.cancCalls, s.result, s.inners.map (fun x => (x.cancCalls, x.delivered))))
    = (0, .res .cancelled, [(1, [.cancelled])]) := by decide
-- a reachable state where the outer Deferred is waiting (hypotheses of `cancel_waiting` are satisfiable)
example : (exec (init .none) [.add false .none, .callback 1]).result = .dref 0 ∧
    (exec (init .none) [.add false .none, .callback 1]).called = true := by decide
-- `result_never_replaced` has a non-trivial instance: fired with 1, then cancel / errback / chaining
example : (exec (init .none) [.callback 1]).called = true ∧
    (exec (exec (init .none) [.callback 1]) [.cancel, .errback 2, .add true .noop, .cancel, .fireInner 0 false 5]).delivered
      = [.val 1] := by decide
-- the repair: a raising canceller no longer leaves the Deferred unfired
example : ((execRepaired (init .raises) [.cancel]).delivered, (execRepaired (init .raises) [.cancel]).cancCalls)
    = ([.cancelled], 1) := by decide

section Reentrant
open Twisted.Defer
/-! ### 7. Re-entrant operations: callbacks that fire / cancel the Deferred whose chain is running

Model `TwistedModel/Defer/Reenter.lean` (ONE Deferred, any canceller, callbacks that call `callback()`,
`errback()` or `cancel()` on it from inside its callback chain).  Added by the white-box mutation audit
(mutant m05 set `called` only after the callbacks had run). -/

/-- `s` is the state after some history on a fresh Deferred -/
def ReachR (s : Reenter.State) : Prop := ∃ spec h, s = Reenter.exec (Reenter.init spec) h

theorem reachR_inv {s : Reenter.State} (h : ReachR s) : Reent.Inv s := by
  obtain ⟨spec, hist, rfl⟩ := h
  exact Reent.exec_inv _ hist (Reent.init_inv spec)

/-- **One result, with re-entrant callbacks, all histories.** -/
theorem reent_one_result (spec : CancelSpec) (h : List Reenter.Op) :
    let s := Reenter.exec (Reenter.init spec) h
    s.delivered.length ≤ 1 ∧ (s.called = true ↔ s.delivered.length = 1) := by
  intro s
  have hi : Reent.Inv s := reachR_inv ⟨spec, h, rfl⟩
  cases hc : s.called with
  | false => simp [(hi.unf hc).1]
  | true => simp [(hi.fir hc).1]

/-- **The result is never replaced, whatever the callbacks do.**  Once fired, any further operation —
    including one that makes re-entrant callbacks run — leaves `called` and the delivered result alone, and a
    further `callback()` from outside is refused (or is the one that is ignored). -/
theorem reent_result_never_replaced (s : Reenter.State) (h : ReachR s) (hc : s.called = true) (op : Reenter.Op) :
    (Reenter.step s op).1.called = true ∧ (Reenter.step s op).1.delivered = s.delivered ∧
    (Reenter.step s op).1.cancCalls = s.cancCalls ∧
    (∀ v, op = .callback v → (Reenter.step s op).2 = if s.suppress then .ok else .alreadyCalled) := by
  have hi := reachR_inv h
  have hc0 : ({ s with log := [] } : Reenter.State).called = true := hc
  cases op with
  | callback v =>
    have hstep : Reenter.step s (.callback v) = Reenter.refire { s with log := [] } := Reent.fire_called_eq _ _ hc0
    rw [hstep]; unfold Reenter.refire
    by_cases hs : s.suppress = true <;> simp [hs, hc]
  | errback e =>
    have hstep : Reenter.step s (.errback e) = Reenter.refire { s with log := [] } := Reent.fire_called_eq _ _ hc0
    rw [hstep]; unfold Reenter.refire
    by_cases hs : s.suppress = true <;> simp [hs, hc]
  | cancel =>
    have hstep : Reenter.step s .cancel = ({ s with log := [] }, .ok) := Reent.cancel_called _ hc0
    rw [hstep]; simp [hc]
  | add a =>
    have hstep : Reenter.step s (.add a) = (Reenter.runCbs (Reent.pushed { s with log := [] } a), .ok) := by
      show (Reenter.add _ a, Outcome.ok) = _
      rw [Reent.add_fired _ a hc0]
    rw [hstep]
    obtain ⟨a1, a2, a3, _⟩ := Reent.runCbs_spec (Reent.pushed { s with log := [] } a)
    exact ⟨a1.trans hc, a2, a3, fun v hv => by cases hv⟩

/-- **What the re-entrant calls get.**  During ANY operation after ANY history: at most one re-entrant
    `callback()/errback()` is swallowed; and unless an ignore was pending from an earlier canceller-less
    `cancel()`, or the operation IS the `cancel()` of the unfired canceller-less Deferred, none is: every
    re-entrant `callback()/errback()` raises AlreadyCalledError and every re-entrant `cancel()` returns with no
    effect (`Reent.refusedRec`; that nothing changes is `Reent.foldl_runAct_spec`). -/
theorem reent_records (s : Reenter.State) (h : ReachR s) (op : Reenter.Op) :
    Reent.swallowed (Reenter.step s op).1.log ≤ 1 ∧
    (s.suppress = false → ¬ (op = .cancel ∧ s.called = false ∧ s.canc = .none) →
      ∀ r ∈ (Reenter.step s op).1.log, Reent.refusedRec r) := by
  have hi := reachR_inv h
  -- the state the operation starts from: same flags, empty log
  let s0 : Reenter.State := { s with log := [] }
  have hlog : s0.log = [] := rfl
  have key : ∀ (t : Reenter.State), t.log = [] → t.called = false → t.delivered = [] → ∀ r,
      Reent.swallowed (Reenter.fire t r).1.log ≤ 1 ∧
      (t.suppress = false → ∀ x ∈ (Reenter.fire t r).1.log, Reent.refusedRec x) := by
    intro t hl hc hd r
    obtain ⟨_, _, _, _, _, _, g, k⟩ := Reent.fire_fresh t r hc hd
    rw [hl] at g k
    refine ⟨Nat.le_trans g (by simp [Reent.swallowed]; split <;> omega), fun hs x hx => ?_⟩
    rcases (k hs).2 x hx with h' | h'
    · cases h'
    · exact h'
  have nil : ∀ (t : Reenter.State), t.log = [] →
      Reent.swallowed t.log ≤ 1 ∧ ∀ r ∈ t.log, Reent.refusedRec r := by
    intro t hl; rw [hl]; exact ⟨by simp [Reent.swallowed], fun r hr => by cases hr⟩
  have hrefire : (Reenter.refire s0).1.log = [] := by
    unfold Reenter.refire; by_cases hs : s0.suppress = true <;> simp [hs, hlog]
  cases hc : s.called with
  | true =>
    have hc0 : s0.called = true := hc
    cases op with
    | callback v =>
      have hstep : Reenter.step s (.callback v) = Reenter.refire s0 := Reent.fire_called_eq _ _ hc0
      rw [hstep]
      exact ⟨(nil _ hrefire).1, fun _ _ => (nil _ hrefire).2⟩
    | errback e =>
      have hstep : Reenter.step s (.errback e) = Reenter.refire s0 := Reent.fire_called_eq _ _ hc0
      rw [hstep]
      exact ⟨(nil _ hrefire).1, fun _ _ => (nil _ hrefire).2⟩
    | cancel =>
      have hstep : Reenter.step s .cancel = (s0, .ok) := Reent.cancel_called _ hc0
      rw [hstep]; exact ⟨(nil _ hlog).1, fun _ _ => (nil _ hlog).2⟩
    | add a =>
      have hstep : Reenter.step s (.add a) = (Reenter.runCbs (Reent.pushed s0 a), .ok) := by
        show (Reenter.add s0 a, Outcome.ok) = _
        rw [Reent.add_fired _ a hc0]
      rw [hstep]
      obtain ⟨_, _, _, _, _, _, g, k⟩ := Reent.runCbs_spec (Reent.pushed s0 a)
      have hl : (Reent.pushed s0 a).log = [] := rfl
      rw [hl] at g k
      refine ⟨Nat.le_trans g (by simp [Reent.swallowed]; split <;> omega), fun hs _ x hx => ?_⟩
      rcases (k hs).2 x hx with h' | h'
      · cases h'
      · exact h'
  | false =>
    have hc0 : s0.called = false := hc
    have hd0 : s0.delivered = [] := (hi.unf hc).1
    have hs0 : s0.suppress = false := (hi.unf hc).2.1
    cases op with
    | callback v =>
      obtain ⟨a, b⟩ := key s0 hlog hc0 hd0 (.val v)
      exact ⟨a, fun _ _ => b hs0⟩
    | errback e =>
      obtain ⟨a, b⟩ := key s0 hlog hc0 hd0 (.err e)
      exact ⟨a, fun _ _ => b hs0⟩
    | add a =>
      have hstep : Reenter.step s (.add a) = (Reent.pushed s0 a, .ok) := by
        show (Reenter.add s0 a, Outcome.ok) = _
        rw [Reent.add_unfired _ a hc0]
      rw [hstep]; exact ⟨(nil _ rfl).1, fun _ _ => (nil _ rfl).2⟩
    | cancel =>
      have hstep : Reenter.step s .cancel = Reenter.cancel s0 := rfl
      rw [hstep]
      cases hcc : s.canc with
      | none =>
        rw [Reent.cancel_none s0 hc0 hcc]
        obtain ⟨a, _⟩ := key (Reent.flagged s0) rfl hc0 hd0 .cancelled
        exact ⟨a, fun _ hn => absurd ⟨rfl, rfl, rfl⟩ hn⟩
      | noop =>
        rw [Reent.cancel_noop s0 hc0 hcc]
        obtain ⟨a, b⟩ := key (Reent.bumped s0) rfl hc0 hd0 .cancelled
        exact ⟨a, fun _ _ => b hs0⟩
      | firesOk v =>
        rw [Reent.cancel_firesOk s0 v hc0 hcc]
        obtain ⟨a, b⟩ := key (Reent.bumped s0) rfl hc0 hd0 (.val v)
        exact ⟨a, fun _ _ => b hs0⟩
      | firesErr e =>
        rw [Reent.cancel_firesErr s0 e hc0 hcc]
        obtain ⟨a, b⟩ := key (Reent.bumped s0) rfl hc0 hd0 (.err e)
        exact ⟨a, fun _ _ => b hs0⟩
      | raises =>
        rw [Reent.cancel_raises s0 hc0 hcc]; exact ⟨(nil _ rfl).1, fun _ _ => (nil _ rfl).2⟩

-- non-vacuity: a callback re-fires its Deferred during a canceller-less cancel() (swallowed once), then a late
-- callback from outside is refused; and without a pending ignore both re-entrant calls are refused
example : ((Reenter.trace (Reenter.init .none) [.add (.fire (.val 9)), .add (.fire (.val 8)), .cancel, .callback 1]).map
      (fun p => (p.1, p.2.log.map (·.out), p.2.delivered)))
    = [(.ok, [], []), (.ok, [], []), (.ok, [.ok, .alreadyCalled], [.cancelled]), (.alreadyCalled, [], [.cancelled])] := by decide
example : ((Reenter.trace (Reenter.init .noop) [.add (.fire (.val 9)), .add .cancel, .callback 1, .cancel]).map
      (fun p => (p.1, p.2.log.map (·.out), p.2.delivered, p.2.cancCalls)))
    = [(.ok, [], [], 0), (.ok, [], [], 0), (.ok, [.alreadyCalled, .ok], [.val 1], 0), (.ok, [], [.val 1], 0)] := by decide

end Reentrant

end TwistedProps.C03
