import TwistedProps.C23.Head
import TwistedProps.C23.DecMono
/-! C23 lemmas: the Response seen from outside — `bodySoFar` (everything `_bodyDataReceived` was given, delivered or
still buffered), `bodyEnd` (the reason `_bodyDataFinished` was given), the consistency invariant `RespOK` with the body
protocol's log, invariance under `deliverBody`; the DONE phase (`DonePh`: parser disconnected, Deferred fired). -/
namespace TwistedProps.C23
open Twisted.Http.Client
open Twisted.Http.Chunked (Bytes Ident Dec)

/-- everything the decoder has handed to the Response so far (`_bodyDataReceived`), delivered or still buffered -/
def bodySoFar (s : S) : Bytes := s.delivered ++ s.rbuffer

/-- the reason given to `_bodyDataFinished`, if it has been called -/
def bodyEnd (s : S) : Option BodyEnd :=
  match s.rstate with
  | .deferredClose => s.rreason
  | .finished => s.lost.head?
  | _ => none

/-- the Response and the body protocol's log are consistent -/
def RespOK (s : S) : Prop :=
  match s.rstate with
  | .initial => s.delivered = [] ∧ s.lost = [] ∧ s.made = 0 ∧ s.appDelivered = false
  | .connected => s.rbuffer = [] ∧ s.lost = [] ∧ s.made = 1 ∧ s.appDelivered = true
  | .deferredClose => s.delivered = [] ∧ s.lost = [] ∧ s.made = 0 ∧ s.appDelivered = false ∧ s.rreason.isSome = true
  | .finished => s.rbuffer = [] ∧ s.lost.length = 1 ∧ s.made = 1 ∧ s.appDelivered = true

/-- what the body protocol has seen, from the Response-level view -/
theorem respOK_observed (s : S) (h : RespOK s) (B : Bytes) (e : BodyEnd) (hb : bodySoFar s = B) (he : bodyEnd s = some e) :
    (s.appDelivered = true → s.delivered = B ∧ s.lost = [e] ∧ s.made = 1) ∧
    (s.appDelivered = false → s.delivered = [] ∧ s.lost = [] ∧ s.made = 0) := by
  unfold RespOK at h; unfold bodySoFar at hb; unfold bodyEnd at he
  cases hr : s.rstate <;> simp only [hr] at h he
  · cases he
  · cases he
  · obtain ⟨h1, h2, h3, h4, h5⟩ := h
    exact ⟨fun x => by simp [h4] at x, fun _ => ⟨h1, h2, h3⟩⟩
  · obtain ⟨h1, h2, h3, h4⟩ := h
    refine ⟨fun _ => ⟨by rw [← hb, h1]; simp, ?_, h3⟩, fun x => by simp [h4] at x⟩
    cases hl : s.lost with
    | nil => simp [hl] at h2
    | cons a t =>
      simp [hl] at h2 he
      simp [h2, he]

/-- `deliverBody` changes neither what the Response was given nor the reported end -/
theorem deliverBody_view (s : S) (h : RespOK s) (ha : s.appDelivered = false) :
    RespOK (deliverBody s) ∧ bodySoFar (deliverBody s) = bodySoFar s ∧ bodyEnd (deliverBody s) = bodyEnd s ∧
      (deliverBody s).appDelivered = true := by
  unfold RespOK at h
  cases hr : s.rstate <;> simp only [hr] at h
  · obtain ⟨h1, h2, h3, h4⟩ := h
    simp [deliverBody, hr, RespOK, bodySoFar, bodyEnd, h1, h2, h3]
  · simp [ha] at h
  · obtain ⟨h1, h2, h3, h4, h5⟩ := h
    cases hq : s.rreason with
    | none => simp [hq] at h5
    | some q => simp [deliverBody, hr, RespOK, bodySoFar, bodyEnd, h1, h2, h3, hq]
  · simp [ha] at h

/-- the phase after the parser was disconnected: the request Deferred has fired with `f`, nothing moves any more -/
structure DonePh (s : S) (f : Fire) : Prop where
  hp : s.hasParser = false
  fi : s.fires = [f]
  cs : s.cstate = .waiting ∨ s.cstate = .quiescent ∨ s.cstate = .connectionLost
  ok : RespOK s
  dn : f = .response → s.deliverNow = true → s.appDelivered = true

def isDD : Event → Bool
  | .data _ => true
  | .deliver => true
  | _ => false

theorem done_data (s : S) (f : Fire) (h : DonePh s f) (b : Bytes) :
    DonePh (dataReceived s b) f ∧ bodySoFar (dataReceived s b) = bodySoFar s ∧ bodyEnd (dataReceived s b) = bodyEnd s ∧
      (dataReceived s b).appDelivered = s.appDelivered := by
  have : dataReceived s b = { s with disconnecting := true } := by
    simp [dataReceived, h.hp, giveUp, disconnectParser, escape]
  rw [this]
  exact ⟨⟨h.hp, h.fi, h.cs, h.ok, h.dn⟩, rfl, rfl, rfl⟩

theorem done_deliver (s : S) (f : Fire) (h : DonePh s f) :
    DonePh (deliver s) f ∧ bodySoFar (deliver s) = bodySoFar s ∧ bodyEnd (deliver s) = bodyEnd s ∧
      (s.appDelivered = true → (deliver s).appDelivered = true) ∧
      (f = .response → (deliver s).appDelivered = true) := by
  unfold deliver
  split
  · rename_i hc
    simp only [Bool.and_eq_true, decide_eq_true_eq, Bool.not_eq_true'] at hc
    obtain ⟨v1, v2, v3, v4⟩ := deliverBody_view s h.ok hc.2
    refine ⟨⟨?_, ?_, ?_, v1, fun _ _ => v4⟩, v2, v3, fun _ => v4, fun _ => v4⟩
    · have := h.hp; unfold deliverBody; split <;> exact this
    · have := h.fi; unfold deliverBody; split <;> exact this
    · have := h.cs; unfold deliverBody; split <;> exact this
  · rename_i hc
    refine ⟨h, rfl, rfl, fun x => x, fun hf => ?_⟩
    simp only [Bool.and_eq_true, decide_eq_true_eq, Bool.not_eq_true', not_and, Bool.not_eq_false] at hc
    exact hc (by rw [h.fi, hf])

theorem done_lost (s : S) (f : Fire) (h : DonePh s f) (r : Exc) :
    DonePh (connectionLost s r) f ∧ bodySoFar (connectionLost s r) = bodySoFar s ∧
      bodyEnd (connectionLost s r) = bodyEnd s ∧ (connectionLost s r).appDelivered = s.appDelivered := by
  rcases h.cs with hc | hc | hc
  · have : connectionLost s r = { s with cstate := .connectionLost } := by
      simp [connectionLost, hc, disconnectParser, h.hp]
    rw [this]
    exact ⟨⟨h.hp, h.fi, Or.inr (Or.inr rfl), h.ok, h.dn⟩, rfl, rfl, rfl⟩
  · have : connectionLost s r = { s with cstate := .connectionLost } := by
      simp [connectionLost, hc]
    rw [this]
    exact ⟨⟨h.hp, h.fi, Or.inr (Or.inr rfl), h.ok, h.dn⟩, rfl, rfl, rfl⟩
  · have : connectionLost s r = { s with excs := s.excs ++ [.runtimeError] } := by
      simp [connectionLost, hc]
    rw [this]
    exact ⟨⟨h.hp, h.fi, h.cs, h.ok, h.dn⟩, rfl, rfl, rfl⟩

end TwistedProps.C23
