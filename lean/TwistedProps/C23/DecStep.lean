import TwistedProps.C23.RespView
/-! C23 lemmas: one `decoder.dataReceived` as the parser sees it (`decStep`, `rawDataReceived_eq`), liveness / completion
of a decoder, the reason `HTTPClientParser.connectionLost` reports (`lostEnd`); the BODY phase invariant `BodyPh`. -/
namespace TwistedProps.C23
open Twisted.Http.Client
open Twisted.Http.Chunked (Bytes Ident Dec)

/-! ### the transfer decoder as the parser drives it -/

/-- result of one `decoder.dataReceived(data)` -/
inductive DecRes where
  | ok (D' : Decoder) (piece : Bytes) (fin : Bool)   -- `piece` handed to `_bodyDataReceived`; `fin`: finished in this call
  | err (e : Exc) (D' : Decoder) (piece : Bytes)      -- the decoder raises `e` after delivering `piece`
  | errNow (e : Exc)                                  -- no (live) decoder

def decStep (D : Decoder) (data : Bytes) : DecRes :=
  match D with
  | .none => .errNow .attributeError
  | .ident d =>
    match Ident.dataReceived d data with
    | .error _ => .errNow .runtimeError
    | .ok d' => .ok (.ident d') (d'.data.drop d.data.length) (d.active && !d'.active)
  | .chunked d =>
    match Twisted.Http.Chunked.dataReceived d data with
    | .error (e, d') =>
      .err (if e = .runtime then .runtimeError else .malformedChunk) (.chunked d') (d'.data.drop d.data.length)
    | .ok d' => .ok (.chunked d') (d'.data.drop d.data.length) (d.state ≠ .finished && d'.state = .finished)

theorem rawDataReceived_eq (s : S) (data : Bytes) : rawDataReceived s data =
    match decStep s.decoder data with
    | .errNow e => .raise e s
    | .err e D' piece => (bodyData { s with decoder := D' } piece).bind fun s => .raise e s
    | .ok D' piece fin => (bodyData { s with decoder := D' } piece).bind fun s => if fin then finished s else .ok s := by
  unfold rawDataReceived decStep
  cases s.decoder with
  | none => rfl
  | ident d =>
    simp only
    cases Ident.dataReceived d data with
    | error x => rfl
    | ok d' => simp
  | chunked d =>
    simp only
    cases Twisted.Http.Chunked.dataReceived d data with
    | error x => obtain ⟨e, d'⟩ := x; rfl
    | ok d' => simp

/-- the decoder can still take data -/
def decLive : Decoder → Prop
  | .none => False
  | .ident d => d.active = true ∧ d.contentLength ≠ some 0
  | .chunked d => d.state ≠ .finished

/-- the decoder has seen the whole body -/
def decDone : Decoder → Prop
  | .none => False
  | .ident d => d.contentLength = some 0
  | .chunked d => d.state = .finished

/-- the reason `HTTPClientParser.connectionLost(r)` gives to `_bodyDataFinished` -/
def lostEnd (D : Decoder) (r : Exc) : BodyEnd :=
  match D with
  | .none => .done
  | .ident d =>
    match d.contentLength with
    | none => .potentialDataLoss
    | some n => if n ≠ 0 then .failed [r, .dataLoss] else .done
  | .chunked d => if d.state ≠ .finished then .failed [r, .dataLoss] else .done

theorem lostEnd_done (D : Decoder) (r : Exc) (h : decDone D) : lostEnd D r = .done := by
  cases D with
  | none => rfl
  | ident d => simp [decDone] at h; simp [lostEnd, h]
  | chunked d => simp [decDone] at h; simp [lostEnd, h]

theorem decStep_live (D : Decoder) (data : Bytes) (h : decLive D) :
    match decStep D data with
    | .ok D' _ fin => (fin = false → decLive D') ∧ (fin = true → decDone D')
    | .err _ _ _ => True
    | .errNow _ => False := by
  cases D with
  | none => exact h
  | ident d =>
    obtain ⟨ha, hc⟩ := h
    simp only [decStep, Ident.dataReceived, ha]
    cases hn : d.contentLength with
    | none => simp [decLive]
    | some n =>
      simp only [Bool.not_true, Bool.false_eq_true, if_false]
      by_cases hl : data.length < n
      · simp only [hl, if_true]
        simp [decLive]; omega
      · simp only [hl, if_false]
        simp [decDone]
  | chunked d =>
    have hd : d.state ≠ .finished := h
    simp only [decStep]
    cases hr : Twisted.Http.Chunked.dataReceived d data with
    | error x => obtain ⟨e, d'⟩ := x; trivial
    | ok d' =>
      simp only
      by_cases hf : d'.state = .finished
      · simp [decDone, hf, hd]
      · simp [decLive, hf]

/-! ### the body phase -/

/-- the head is complete, the response has been given to the application, the body is being received -/
structure BodyPh (s : S) : Prop where
  lm : s.lineMode = false
  bf : s.buffer = []
  ev : s.everReceived = true
  hp : s.hasParser = true
  cs : s.cstate = .waiting
  ch : s.chained = true
  rd : s.respD = some .response
  fi : s.fires = [.response]
  rs : s.rstate = .initial ∨ s.rstate = .connected
  ok : RespOK s
  dn : s.deliverNow = true → s.appDelivered = true
  live : decLive s.decoder

theorem body_deliver (s : S) (h : BodyPh s) :
    BodyPh (deliver s) ∧ bodySoFar (deliver s) = bodySoFar s ∧ (deliver s).decoder = s.decoder ∧
      (deliver s).appDelivered = true := by
  unfold deliver
  split
  · rename_i hc
    simp only [Bool.and_eq_true, decide_eq_true_eq, Bool.not_eq_true'] at hc
    obtain ⟨v1, v2, v3, v4⟩ := deliverBody_view s h.ok hc.2
    have hr : s.rstate = .initial := by
      rcases h.rs with hr | hr
      · exact hr
      · have := h.ok; simp [RespOK, hr, hc.2] at this
    simp only [deliverBody, hr] at v1 v2 v4 ⊢
    exact ⟨⟨h.lm, h.bf, h.ev, h.hp, h.cs, h.ch, h.rd, h.fi, Or.inr rfl, v1, fun _ => rfl, h.live⟩, v2, trivial, trivial⟩
  · rename_i hc
    simp only [Bool.and_eq_true, decide_eq_true_eq, Bool.not_eq_true', not_and, Bool.not_eq_false] at hc
    exact ⟨h, rfl, rfl, hc h.fi⟩

end TwistedProps.C23
