import TwistedProps.C23.Inv
/-! C23 lemmas: the `dataReceived` path (`lrLoop` → `lineReceived` → `allHeadersReceived` / `rawDataReceived` →
decoders → `_finished` → `_finishResponse`) preserves the exactly-once invariant `InvK ∘ proj`, for EVERY byte
string delivered in EVERY state. -/
namespace TwistedProps.C23
open Twisted.Http.Client
open Twisted.Http.Chunked (Bytes Ident)

/-- the result `r` of a parser-level operation started in a state with projection `k` -/
def Good (k : K) (r : R) : Prop := PostK k (projR r)

theorem Good.of_proj_eq {k : K} {r : R} (h : InvK k) (he : proj r.state = k) : Good k r := by
  unfold Good PostK
  rw [projR_state, he]
  exact ⟨h, List.prefix_refl _⟩

theorem Good.trans {k k' : K} {r : R} (hp : k.fires <+: k'.fires) (h : Good k' r) : Good k r :=
  ⟨h.1, hp.trans h.2⟩

theorem Good.inv {k : K} {r : R} (h : Good k r) : InvK (proj r.state) := by
  have := h.1; rwa [projR_state] at this

theorem Good.pre {k : K} {r : R} (h : Good k r) : k.fires <+: r.state.fires := by
  have := h.2; rwa [projR_state] at this

theorem good_allHeaders (s : S) (h : InvK (proj s)) : Good (proj s) (allHeadersReceived s) := by
  unfold Good
  rw [proj_allHeadersReceived]
  exact inv_allHeaders _ _ h

theorem good_flushPartial (s : S) : proj (flushPartial s).state = proj s ∧
    ∀ s', flushPartial s = .ok s' → proj s' = proj s := by
  unfold flushPartial
  cases s.partialHeader with
  | none => exact ⟨rfl, fun s' h => by cases h; rfl⟩
  | some p =>
    simp only
    cases headerReceived s.isHead s.connHeaders p with
    | error e => exact ⟨rfl, fun s' h => by cases h⟩
    | ok conn => exact ⟨rfl, fun s' h => by cases h; rfl⟩

theorem good_lineReceived (s : S) (line : Bytes) (h : InvK (proj s)) : Good (proj s) (lineReceived s line) := by
  unfold lineReceived
  simp only
  generalize (if line.getLast? = some 13 then line.dropLast else line) = ln
  cases hps : s.pstate with
  | status =>
    simp only
    cases parseStatus ln with
    | error e => exact Good.of_proj_eq h rfl
    | ok code => exact Good.of_proj_eq h (by simp [R.state, proj, hps])
  | header =>
    simp only
    split
    · cases hf : flushPartial s with
      | raise e s' =>
        have := (good_flushPartial s).1; rw [hf] at this
        exact Good.of_proj_eq h this
      | ok s' =>
        have hs' := (good_flushPartial s).2 s' hf
        simp only [R.bind]
        split
        · rw [← hs']; exact good_allHeaders s' (by rw [hs']; exact h)
        · exact Good.of_proj_eq h (by rw [← hs']; rfl)
    · cases s.partialHeader with
      | none => exact Good.of_proj_eq h (by simp [R.state, proj, hps])
      | some p => exact Good.of_proj_eq h (by simp [R.state, proj, hps])
  | body => exact Good.of_proj_eq h rfl
  | done => exact Good.of_proj_eq h rfl

theorem ident_dk (d d' : Ident) (data : Bytes) (h : Ident.dataReceived d data = .ok d') :
    dkOf (.ident d') = dkOf (.ident d) := by
  unfold Ident.dataReceived at h
  split at h
  · cases h
  · cases hc : d.contentLength with
    | none => simp only [hc] at h; cases h; simp [dkOf, hc]
    | some n =>
      simp only [hc] at h
      split at h <;> (cases h; simp [dkOf, hc])

theorem bodyDataK_cases (k : K) : bodyDataK k = .ok k ∨ ∃ e, bodyDataK k = .raise e k := by
  unfold bodyDataK
  cases k.rst <;> simp

theorem good_raw_tail (s1 : S) (piece : Bytes) (c : Bool) (h : InvK (proj s1)) (hd : (proj s1).dk ≠ .none) :
    Good (proj s1) ((bodyData s1 piece).bind fun s => if c then finished s else .ok s) := by
  unfold Good
  rw [projR_bind _ _ (fun k => if c then finishedK k else .ok k)
    (fun s => by
      cases c
      · rfl
      · exact proj_finished s), proj_bodyData]
  rcases bodyDataK_cases (proj s1) with hb | ⟨e, hb⟩ <;> rw [hb]
  · simp only [RK.bind_ok]
    cases c
    · exact PostK.refl _ h
    · exact (inv_finished _ h (h.d1 hd)).1
  · exact ⟨h, List.prefix_refl _⟩

theorem good_raw_err (s1 : S) (piece : Bytes) (e : Exc) (h : InvK (proj s1)) :
    Good (proj s1) ((bodyData s1 piece).bind fun s => .raise e s) := by
  unfold Good
  rw [projR_bind _ _ (fun k => .raise e k) (fun s => rfl), proj_bodyData]
  rcases bodyDataK_cases (proj s1) with hb | ⟨e', hb⟩ <;> rw [hb] <;> exact ⟨h, List.prefix_refl _⟩

theorem good_rawDataReceived (s : S) (data : Bytes) (h : InvK (proj s)) : Good (proj s) (rawDataReceived s data) := by
  unfold rawDataReceived
  cases hd : s.decoder with
  | none => exact Good.of_proj_eq h rfl
  | ident d =>
    simp only
    cases hr : Ident.dataReceived d data with
    | error e => exact Good.of_proj_eq h rfl
    | ok d' =>
      simp only
      have hp : proj { s with decoder := .ident d' } = proj s := by
        simp [proj, ident_dk d d' data hr, hd]
      rw [← hp]
      exact good_raw_tail _ _ _ (by rw [hp]; exact h) (by rw [hp]; simp [proj, hd, dkOf]; cases d.contentLength <;> simp)
  | chunked d =>
    simp only
    have hp : ∀ d', proj { s with decoder := .chunked d' } = proj s := by
      intro d'; simp [proj, hd, dkOf]
    cases hr : Twisted.Http.Chunked.dataReceived d data with
    | error x =>
      obtain ⟨e, d'⟩ := x
      simp only
      rw [← hp d']
      exact good_raw_err _ _ _ (by rw [hp]; exact h)
    | ok d' =>
      simp only
      rw [← hp d']
      exact good_raw_tail _ _ _ (by rw [hp]; exact h) (by rw [hp]; simp [proj, hd, dkOf])


theorem good_lrLoop : ∀ (n : Nat) (buf : Bytes) (s : S), buf.length ≤ n → InvK (proj s) → Good (proj s) (lrLoop s buf) := by
  intro n
  induction n with
  | zero =>
    intro buf s hn h
    have : buf = [] := List.eq_nil_of_length_eq_zero (Nat.le_zero.mp hn)
    subst this
    unfold lrLoop
    simp only [if_true]
    exact Good.of_proj_eq h rfl
  | succ n ih =>
    intro buf s hn h
    unfold lrLoop
    split
    · exact Good.of_proj_eq h rfl
    · split
      · split
        · split <;> exact Good.of_proj_eq h rfl
        · rename_i line rest hsp
          have hlen := splitLF_length _ _ _ hsp
          split
          · exact Good.of_proj_eq h rfl
          · have hg := good_lineReceived s line h
            cases hl : lineReceived s line with
            | raise e s' =>
              rw [hl] at hg
              exact hg
            | ok s' =>
              rw [hl] at hg
              simp only
              split
              · exact hg
              · exact Good.trans hg.pre (ih rest s' (by omega) hg.inv)
      · exact good_rawDataReceived { s with buffer := [] } buf h

theorem proj_escape (r : R) : proj (escape r) = (projR r).state := by cases r <;> rfl

/-- **`dataReceived` preserves the invariant**, for every state and every byte string -/
theorem inv_dataReceived (s : S) (data : Bytes) (h : InvK (proj s)) :
    InvK (proj (dataReceived s data)) ∧ s.fires <+: (dataReceived s data).fires := by
  unfold dataReceived
  split
  · rw [proj_escape, proj_giveUp]
    have := inv_disconnectParser _ .attributeError h
    refine ⟨this.1, ?_⟩
    have h2 := this.2
    rw [← proj_giveUp s, projR_state] at h2
    cases hg : giveUp s .attributeError <;> (rw [hg] at h2; exact h2)
  · have h0 : InvK (proj { s with everReceived := true }) :=
      h.congr rfl rfl rfl rfl rfl rfl rfl rfl (fun _ => rfl)
    have hg : Good (proj { s with everReceived := true }) (parserDataReceived s data) :=
      good_lrLoop _ _ _ (Nat.le_refl _) h0
    cases hp : parserDataReceived s data with
    | ok s' =>
      rw [hp] at hg
      exact ⟨hg.inv, hg.pre⟩
    | raise e s' =>
      rw [hp] at hg
      simp only
      rw [proj_escape, proj_giveUp]
      have hi : InvK (proj s') := hg.inv
      have := inv_disconnectParser (proj s') e hi
      refine ⟨this.1, ?_⟩
      have h2 := this.2
      rw [← proj_giveUp s', projR_state] at h2
      have hpre : s.fires <+: s'.fires := hg.pre
      have h3 : s.fires <+: (giveUp s' e).state.fires := hpre.trans h2
      cases hgu : giveUp s' e <;> (rw [hgu] at h3; exact h3)

end TwistedProps.C23
