import TwistedProps.C23.HeadRun
/-! C23 lemmas: the loss of the connection in every phase and `whole_run`: the whole script (deliveries, loss, late
`deliverBody`) against the scan of everything received. -/
namespace TwistedProps.C23
open Twisted.Http.Client
open Twisted.Http.Chunked (Bytes Ident Dec)

/-- the connection is lost before the head is complete -/
theorem head_lost (h p d ev : Bool) (hs : HS) (tail : Bytes) (r : Exc) :
    DonePh (connectionLost (setHS (baseE h p d ev) hs tail) r)
      (if ev then .responseFailed [r] else .neverReceived [r]) := by
  have hE : connectionLost (setHS (baseE h p d ev) hs tail) r =
      { setHS (baseE h p d ev) hs tail with
          hasParser := false, proxying := false, cstate := .connectionLost,
          respD := some (if ev then .responseFailed [r] else .neverReceived [r]),
          fires := [if ev then .responseFailed [r] else .neverReceived [r]] } := by
    cases hi : hs.inHeader <;> cases ev <;>
      simp [connectionLost, disconnectParser, parserConnectionLost, fireResp, fireFin, setHS, baseE,
        Twisted.Http.Client.init, hi]
  rw [hE]
  refine ⟨rfl, rfl, Or.inr (Or.inr rfl), ?_, fun x => by cases ev <;> cases x⟩
  simp [RespOK, setHS, baseE, Twisted.Http.Client.init]

/-- the scan never reports a head whose framing is "interim" or "bad" -/
theorem scan_final_framing (h : Bool) (hs : HS) (buf : Bytes) (code : Int) (ph : Option Bytes)
    (conn : List (Bytes × Bytes)) (fr : Framing) (rest : Bytes) (hX : scan h hs buf = .final code ph conn fr rest) :
    framing h code conn = fr ∧ (fr = .noBody ∨ ∃ D, fr = .body D) := by
  have := lrLoop_scan (baseE h true true true) rfl _ buf hs [] (Nat.le_refl _)
  have hiH : (baseE h true true true).isHead = h := rfl
  rw [hiH, hX] at this
  obtain ⟨h1, h2, h3, _⟩ := this
  refine ⟨h1, ?_⟩
  cases fr with
  | interim => exact absurd rfl h2
  | bad e => exact absurd rfl (h3 e)
  | noBody => exact Or.inl rfl
  | body D => exact Or.inr ⟨D, rfl⟩

/-- the end of the body a decoder trace leads to when the connection is then lost with `r` -/
def Trace.body : Trace → Bytes
  | .live _ out => out
  | .done out => out
  | .failed _ _ out => out

def Trace.bodyEnd (r : Exc) : Trace → BodyEnd
  | .live D _ => lostEnd D r
  | .done _ => .done
  | .failed e D _ => lostEnd D e

/-- what the body protocol has seen at the end of the script: if `deliverBody` was ever called, exactly `B`, one
    `makeConnection`, one `connectionLost(e)`; otherwise nothing -/
def Observed (sF : S) (B : Bytes) (e : BodyEnd) : Prop :=
  (sF.appDelivered = true → sF.delivered = B ∧ sF.lost = [e] ∧ sF.made = 1) ∧
  (sF.appDelivered = false → sF.delivered = [] ∧ sF.lost = [] ∧ sF.made = 0)

/-- the whole script: deliveries / `deliverBody` calls, the loss of the connection, later `deliverBody` calls -/
def WholePost (h : Bool) (d : Bool) (noData : Bool) (r : Exc) (post : List Event) (sF : S) : HeadOut → Prop
  | .more _ _ => sF.fires = [if noData then .neverReceived [r] else .responseFailed [r]]
  | .bad e => sF.fires = [.responseFailed [e]]
  | .final _ _ _ fr rest =>
    sF.fires = [.response] ∧ ((d = true ∨ Event.deliver ∈ post) → sF.appDelivered = true) ∧
    match fr with
    | .body D => ∃ bs, bs.flatten = rest ∧ Observed sF (decRun D [] bs).body ((decRun D [] bs).bodyEnd r)
    | _ => Observed sF [] .done
  | .tooLong => True

theorem done_observed (sF : S) (f : Fire) (h : DonePh sF f) (B : Bytes) (e : BodyEnd) (hb : bodySoFar sF = B)
    (he : bodyEnd sF = some e) : Observed sF B e :=
  respOK_observed sF h.ok B e hb he

theorem whole_run (h p d : Bool) (evs post : List Event) (r : Exc) (hdd : ∀ e ∈ evs, isDD e = true)
    (hpost : ∀ e ∈ post, e = .deliver) :
    WholePost h d (payloads evs).isEmpty r post
      (run (Twisted.Http.Client.init h p false d) (evs ++ .lost r :: post))
      (scan h hs0 (payloads evs).flatten) := by
  have hpd : ∀ e ∈ post, isDD e = true := fun e he => by rw [hpost e he]; rfl
  have h0 : scan h hs0 [] = .more hs0 [] := by rw [scan_eq]; simp [splitLF, MAX_LENGTH]
  have hA := head_run h p d evs hdd false hs0 [] h0
  rw [baseE_init, List.nil_append] at hA
  rw [run_append, run_cons]
  generalize run (Twisted.Http.Client.init h p false d) evs = sA at hA ⊢
  cases hX : scan h hs0 (payloads evs).flatten with
  | tooLong => trivial
  | more hs' tail' =>
    rw [hX] at hA
    simp only [HeadPost, Bool.false_or] at hA
    subst hA
    have hl := head_lost h p d (!(payloads evs).isEmpty) hs' tail' r
    have := (done_run _ post _ hl hpd).1.fi
    simp only [WholePost]
    have hstep : step (setHS (baseE h p d !(payloads evs).isEmpty) hs' tail') (.lost r) =
        connectionLost (setHS (baseE h p d !(payloads evs).isEmpty) hs' tail') r := rfl
    rw [hstep, this]
    cases (payloads evs).isEmpty <;> rfl
  | bad e =>
    rw [hX] at hA
    simp only [HeadPost] at hA
    have hl := (done_lost sA _ hA r).1
    exact (done_run _ post _ hl hpd).1.fi
  | final code ph conn fr rest =>
    rw [hX] at hA
    obtain ⟨_, hfr⟩ := scan_final_framing h hs0 _ code ph conn fr rest hX
    simp only [HeadPost] at hA
    simp only [WholePost]
    rcases hfr with rfl | ⟨D, rfl⟩
    · obtain ⟨a1, a2, a3, a4⟩ := hA
      obtain ⟨l1, l2, l3, l4⟩ := done_lost sA _ a1 r
      obtain ⟨b1, b2, b3, b4⟩ := done_run _ post _ l1 hpd
      refine ⟨b1.fi, ?_, ?_⟩
      · intro hx
        apply b4
        rcases hx with hx | hx
        · exact Or.inl (by rw [l4]; exact a4 hx)
        · exact Or.inr ⟨rfl, hx⟩
      · exact done_observed _ _ b1 _ _ (b2.trans (l2.trans a2)) (b3.trans (l3.trans a3))
    · obtain ⟨bs, hbs, hbp, a4⟩ := hA
      simp only
      have key : ∃ sL, sL = connectionLost sA r ∧ DonePh sL .response ∧ bodySoFar sL = (decRun D [] bs).body ∧
          bodyEnd sL = some ((decRun D [] bs).bodyEnd r) ∧ sL.appDelivered = sA.appDelivered := by
        unfold BodyPost TracePost at hbp
        cases hT : decRun D [] bs with
        | live D' out =>
          rw [hT] at hbp
          obtain ⟨c1, c2, c3⟩ := hbp
          obtain ⟨l1, l2, l3, l4⟩ := body_lost sA c1 r
          exact ⟨_, rfl, l1, l2.trans c3, by rw [l3, c2]; rfl, l4⟩
        | done out =>
          rw [hT] at hbp
          obtain ⟨c1, c2, c3⟩ := hbp
          obtain ⟨l1, l2, l3, l4⟩ := done_lost sA _ c1 r
          exact ⟨_, rfl, l1, l2.trans c2, l3.trans c3, l4⟩
        | failed e D' out =>
          rw [hT] at hbp
          obtain ⟨c1, c2, c3⟩ := hbp
          obtain ⟨l1, l2, l3, l4⟩ := done_lost sA _ c1 r
          exact ⟨_, rfl, l1, l2.trans c2, l3.trans c3, l4⟩
      obtain ⟨sL, hsL, l1, l2, l3, l4⟩ := key
      show _ ∧ _ ∧ ∃ bs', _
      have hrw : step sA (.lost r) = sL := hsL.symm
      rw [hrw]
      obtain ⟨b1, b2, b3, b4⟩ := done_run _ post _ l1 hpd
      refine ⟨b1.fi, ?_, bs, hbs, done_observed _ _ b1 _ _ (b2.trans l2) (b3.trans l3)⟩
      intro hx
      apply b4
      rcases hx with hx | hx
      · exact Or.inl (by rw [l4]; exact a4 hx)
      · exact Or.inr ⟨rfl, hx⟩

end TwistedProps.C23
