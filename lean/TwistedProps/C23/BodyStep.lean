import TwistedProps.C23.DecStep
/-! C23 lemmas: a delivery in the body phase that does not finish the decoder. -/
namespace TwistedProps.C23
open Twisted.Http.Client
open Twisted.Http.Chunked (Bytes Ident Dec)

theorem body_data_nil (s : S) (h : BodyPh s) :
    BodyPh (dataReceived s []) ∧ bodySoFar (dataReceived s []) = bodySoFar s ∧ (dataReceived s []).decoder = s.decoder ∧
      (dataReceived s []).appDelivered = s.appDelivered := by
  have : dataReceived s [] = { s with everReceived := true, buffer := [] } := by
    simp only [dataReceived, h.hp, parserDataReceived, h.bf]
    rw [lrLoop]; simp
  rw [this]
  exact ⟨⟨h.lm, rfl, rfl, h.hp, h.cs, h.ch, h.rd, h.fi, h.rs, h.ok, h.dn, h.live⟩, rfl, rfl, rfl⟩

theorem body_parser_data (s : S) (h : BodyPh s) (b : Bytes) (hb : b ≠ []) :
    parserDataReceived s b = rawDataReceived { s with everReceived := true, buffer := [] } b := by
  simp only [parserDataReceived, h.bf, List.nil_append]
  rw [lrLoop]; simp [hb, h.lm]

/-- a delivery the decoder takes without finishing -/
theorem body_data_more (s : S) (h : BodyPh s) (b : Bytes) (hb : b ≠ []) (D' : Decoder) (piece : Bytes)
    (hd : decStep s.decoder b = .ok D' piece false) :
    BodyPh (dataReceived s b) ∧ bodySoFar (dataReceived s b) = bodySoFar s ++ piece ∧ (dataReceived s b).decoder = D' ∧
      (dataReceived s b).appDelivered = s.appDelivered := by
  have hl := decStep_live s.decoder b h.live
  rw [hd] at hl
  have hlive : decLive D' := hl.1 rfl
  have hrs := h.rs
  have hok := h.ok
  rcases hrs with hr | hr
  · have hE : dataReceived s b =
        { s with everReceived := true, buffer := [], decoder := D', rbuffer := s.rbuffer ++ piece } := by
      simp [dataReceived, h.hp, body_parser_data s h b hb, rawDataReceived_eq, hd, bodyData, hr, R.bind]
    rw [hE]
    refine ⟨⟨h.lm, rfl, rfl, h.hp, h.cs, h.ch, h.rd, h.fi, Or.inl hr, ?_, h.dn, hlive⟩, ?_, rfl, rfl⟩
    · simpa [RespOK, hr] using hok
    · simp [bodySoFar]
  · have hE : dataReceived s b =
        { s with everReceived := true, buffer := [], decoder := D', delivered := s.delivered ++ piece } := by
      simp [dataReceived, h.hp, body_parser_data s h b hb, rawDataReceived_eq, hd, bodyData, hr, R.bind]
    rw [hE]
    have hrb : s.rbuffer = [] := by have := hok; simp [RespOK, hr] at this; exact this.1
    refine ⟨⟨h.lm, rfl, rfl, h.hp, h.cs, h.ch, h.rd, h.fi, Or.inr hr, ?_, h.dn, hlive⟩, ?_, rfl, rfl⟩
    · simpa [RespOK, hr] using hok
    · simp [bodySoFar, hrb]

end TwistedProps.C23
