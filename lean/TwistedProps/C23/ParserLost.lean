import TwistedProps.C23.BodyStep
/-! C23 lemmas: `_bodyDataFinished` and `HTTPClientParser.connectionLost` with a body decoder installed (`pcl_view`). -/
namespace TwistedProps.C23
open Twisted.Http.Client
open Twisted.Http.Chunked (Bytes Ident Dec)

/-- what the parser-level callers need to know about a state after `_bodyDataFinished`, relative to `s` -/
def EndView (s : S) (e : BodyEnd) (s' : S) : Prop :=
  RespOK s' ∧ bodySoFar s' = bodySoFar s ∧ bodyEnd s' = some e ∧
    s'.fires = s.fires ∧ s'.hasParser = s.hasParser ∧ s'.appDelivered = s.appDelivered ∧
    s'.deliverNow = s.deliverNow

/-- `_bodyDataFinished(reason)` while the body is expected (errors are swallowed by `_ignoreDecoderErrors`) -/
theorem bodyFinished_view (s : S) (e : Option BodyEnd) (hrs : s.rstate = .initial ∨ s.rstate = .connected) (hok : RespOK s) :
    EndView s (e.getD .done) (swallow (bodyFinished s e)) ∧ (swallow (bodyFinished s e)).cstate = s.cstate := by
  rcases hrs with hr | hr
  · have h4 : s.delivered = [] ∧ s.lost = [] ∧ s.made = 0 ∧ s.appDelivered = false := by simpa [RespOK, hr] using hok
    have hE : swallow (bodyFinished s e) = { s with rstate := .deferredClose, rreason := some (e.getD .done) } := by
      simp only [bodyFinished, hr, swallow]
    rw [hE]
    refine ⟨⟨?_, rfl, by simp [bodyEnd], rfl, rfl, rfl, rfl⟩, rfl⟩
    simpa [RespOK] using h4
  · have h4 : s.rbuffer = [] ∧ s.lost = [] ∧ s.made = 1 ∧ s.appDelivered = true := by simpa [RespOK, hr] using hok
    have hE : swallow (bodyFinished s e) = { s with lost := s.lost ++ [e.getD .done], rstate := .finished } := by
      simp only [bodyFinished, hr, swallow]
    rw [hE]
    refine ⟨⟨?_, rfl, by simp [bodyEnd, h4.2.1], rfl, rfl, rfl, rfl⟩, rfl⟩
    simp [RespOK, h4]

/-- `HTTPClientParser.connectionLost(r)` while a body decoder is installed: the Response is told the end of the
    body, with the reason the decoder's `noMoreData()` dictates; nothing else changes -/
theorem pcl_view (s : S) (r : Exc) (hD : s.decoder ≠ .none)
    (hrs : s.rstate = .initial ∨ s.rstate = .connected) (hok : RespOK s)
    (hcs : s.cstate = .waiting ∨ (s.cstate = .quiescent ∧ decDone s.decoder)) :
    ∃ s', parserConnectionLost s r = .ok s' ∧ EndView s (lostEnd s.decoder r) s' ∧
      (s'.cstate = .waiting ∨ s'.cstate = .quiescent) := by
  have hcs' : s.cstate = .waiting ∨ s.cstate = .quiescent := by
    rcases hcs with hc | hc
    · exact Or.inl hc
    · exact Or.inr hc.1
  cases hdec : s.decoder with
  | none => exact absurd hdec hD
  | chunked d =>
    by_cases hf : d.state = .finished
    · have hE : parserConnectionLost s r = .ok (swallow (bodyFinished s none)) := by
        simp [parserConnectionLost, hdec, hf]
      have hv := bodyFinished_view s none hrs hok
      refine ⟨_, hE, by simpa [lostEnd, hf] using hv.1, by rw [hv.2]; exact hcs'⟩
    · have hE : parserConnectionLost s r = .ok (swallow (bodyFinished s (some (.failed [r, .dataLoss])))) := by
        simp [parserConnectionLost, hdec, hf]
      have hv := bodyFinished_view s (some (.failed [r, .dataLoss])) hrs hok
      refine ⟨_, hE, by simpa [lostEnd, hf] using hv.1, by rw [hv.2]; exact hcs'⟩
  | ident d =>
    cases hn : d.contentLength with
    | some n =>
      by_cases h0 : n = 0
      · have hE : parserConnectionLost s r =
            .ok (swallow (bodyFinished { s with decoder := .ident { d with active := false } } none)) := by
          simp [parserConnectionLost, hdec, hn, h0]
        have hv := bodyFinished_view { s with decoder := .ident { d with active := false } } none hrs hok
        refine ⟨_, hE, by simpa [lostEnd, hn, h0, EndView, bodySoFar] using hv.1, by rw [hv.2]; exact hcs'⟩
      · have hE : parserConnectionLost s r =
            .ok (swallow (bodyFinished { s with decoder := .ident { d with active := false } }
              (some (.failed [r, .dataLoss])))) := by
          simp [parserConnectionLost, hdec, hn, h0]
        have hv := bodyFinished_view { s with decoder := .ident { d with active := false } }
          (some (.failed [r, .dataLoss])) hrs hok
        refine ⟨_, hE, by simpa [lostEnd, hn, h0, EndView, bodySoFar] using hv.1, by rw [hv.2]; exact hcs'⟩
    | none =>
      have hw : s.cstate = .waiting := by
        rcases hcs with hc | hc
        · exact hc
        · have := hc.2; rw [hdec] at this; simp [decDone, hn] at this
      have hE : parserConnectionLost s r =
          .ok (swallow (bodyFinished
            { s with decoder := .ident { d with active := false, fin := d.fin ++ [[]] }, pstate := .done,
                     cstate := .quiescent } (some .potentialDataLoss))) := by
        simp [parserConnectionLost, hdec, hn, finishResponseLate, hw, R.bind]
      have hv := bodyFinished_view
        { s with decoder := .ident { d with active := false, fin := d.fin ++ [[]] }, pstate := .done,
                 cstate := .quiescent } (some .potentialDataLoss) hrs hok
      refine ⟨_, hE, by simpa [lostEnd, hn, EndView, bodySoFar] using hv.1, by rw [hv.2]; exact Or.inr rfl⟩

end TwistedProps.C23
