import TwistedProps.C23.Abs
namespace TwistedProps.C23
open Twisted.Http.Client
set_option maxRecDepth 4096

structure InvK (k : K) : Prop where
  a : k.chained = true → k.fires = k.respD.toList
  b : k.chained = false → (k.cstate = .transmitting ∧ k.fires = []) ∨
        ((k.cstate = .generationFailed ∨ k.cstate = .aborting ∨ k.cstate = .connectionLost) ∧ k.fires.length = 1 ∧
          Fire.response ∉ k.fires)
  c : k.chained = true → k.hasParser = true → k.cstate = .waiting ∨ k.cstate = .aborting
  d1 : k.dk ≠ .none → k.respD ≠ none
  d2 : k.chained = true → (k.hasParser = false ∨ k.pdone = true) → k.respD ≠ none
  e : k.cstate = .transmitting → k.chained = false ∧ k.reqPending = true ∧ k.pdone = false
  t : k.cstate = .transmitting → k.hasParser = true
  r1 : k.respD = none → k.rst = .initial

@[simp] theorem RK.state_ok (k : K) : (RK.ok k).state = k := rfl
@[simp] theorem RK.state_raise (e : Exc) (k : K) : (RK.raise e k).state = k := rfl
@[simp] theorem RK.bind_ok (k : K) (f : K → RK) : (RK.ok k).bind f = f k := rfl
@[simp] theorem RK.bind_raise (e : Exc) (k : K) (f : K → RK) : (RK.raise e k).bind f = .raise e k := rfl

def PostK (k : K) (r : RK) : Prop := InvK r.state ∧ k.fires <+: r.state.fires

/-! field lemmas: `fireFinK` and `bodyFinishedK` stay folded in the invariant proofs -/
theorem fireFinK_fields (k : K) (f : Fire) :
    (fireFinK k f).cstate = k.cstate ∧ (fireFinK k f).hasParser = k.hasParser ∧ (fireFinK k f).chained = k.chained ∧
    (fireFinK k f).fires = k.fires ++ [f] ∧ (fireFinK k f).respD = k.respD ∧ (fireFinK k f).dk = k.dk ∧
    (fireFinK k f).pdone = k.pdone ∧ (fireFinK k f).reqPending = k.reqPending ∧
    (f ≠ .response → (fireFinK k f).rst = k.rst) := by
  unfold fireFinK deliverBodyK
  simp only
  split
  · rename_i h
    split <;> simp_all
  · simp

@[simp] theorem fireFinK_cstate (k : K) (f : Fire) : (fireFinK k f).cstate = k.cstate := (fireFinK_fields k f).1
@[simp] theorem fireFinK_hasParser (k : K) (f : Fire) : (fireFinK k f).hasParser = k.hasParser := (fireFinK_fields k f).2.1
@[simp] theorem fireFinK_chained (k : K) (f : Fire) : (fireFinK k f).chained = k.chained := (fireFinK_fields k f).2.2.1
@[simp] theorem fireFinK_fires (k : K) (f : Fire) : (fireFinK k f).fires = k.fires ++ [f] := (fireFinK_fields k f).2.2.2.1
@[simp] theorem fireFinK_respD (k : K) (f : Fire) : (fireFinK k f).respD = k.respD := (fireFinK_fields k f).2.2.2.2.1
@[simp] theorem fireFinK_dk (k : K) (f : Fire) : (fireFinK k f).dk = k.dk := (fireFinK_fields k f).2.2.2.2.2.1
@[simp] theorem fireFinK_pdone (k : K) (f : Fire) : (fireFinK k f).pdone = k.pdone := (fireFinK_fields k f).2.2.2.2.2.2.1
@[simp] theorem fireFinK_reqPending (k : K) (f : Fire) : (fireFinK k f).reqPending = k.reqPending := (fireFinK_fields k f).2.2.2.2.2.2.2.1
theorem fireFinK_rst (k : K) (f : Fire) (h : f ≠ .response) : (fireFinK k f).rst = k.rst := (fireFinK_fields k f).2.2.2.2.2.2.2.2 h

theorem bodyFinishedK_fields (k : K) (b : Bool) :
    (bodyFinishedK k b).state.cstate = k.cstate ∧ (bodyFinishedK k b).state.hasParser = k.hasParser ∧
    (bodyFinishedK k b).state.chained = k.chained ∧ (bodyFinishedK k b).state.fires = k.fires ∧
    (bodyFinishedK k b).state.respD = k.respD ∧ (bodyFinishedK k b).state.dk = k.dk ∧
    (bodyFinishedK k b).state.pdone = k.pdone ∧ (bodyFinishedK k b).state.reqPending = k.reqPending ∧
    (bodyFinishedK k b).state.rst ≠ .initial := by
  unfold bodyFinishedK
  cases h : k.rst <;> simp [RK.state, h]

@[simp] theorem bodyFinishedK_cstate (k : K) (b : Bool) : (bodyFinishedK k b).state.cstate = k.cstate := (bodyFinishedK_fields k b).1
@[simp] theorem bodyFinishedK_hasParser (k : K) (b : Bool) : (bodyFinishedK k b).state.hasParser = k.hasParser := (bodyFinishedK_fields k b).2.1
@[simp] theorem bodyFinishedK_chained (k : K) (b : Bool) : (bodyFinishedK k b).state.chained = k.chained := (bodyFinishedK_fields k b).2.2.1
@[simp] theorem bodyFinishedK_fires (k : K) (b : Bool) : (bodyFinishedK k b).state.fires = k.fires := (bodyFinishedK_fields k b).2.2.2.1
@[simp] theorem bodyFinishedK_respD (k : K) (b : Bool) : (bodyFinishedK k b).state.respD = k.respD := (bodyFinishedK_fields k b).2.2.2.2.1
@[simp] theorem bodyFinishedK_dk (k : K) (b : Bool) : (bodyFinishedK k b).state.dk = k.dk := (bodyFinishedK_fields k b).2.2.2.2.2.1
@[simp] theorem bodyFinishedK_pdone (k : K) (b : Bool) : (bodyFinishedK k b).state.pdone = k.pdone := (bodyFinishedK_fields k b).2.2.2.2.2.2.1
@[simp] theorem bodyFinishedK_reqPending (k : K) (b : Bool) : (bodyFinishedK k b).state.reqPending = k.reqPending := (bodyFinishedK_fields k b).2.2.2.2.2.2.2.1

/-- a state change that keeps everything the invariant reads, except possibly moving `rst` while `respD` is set -/
theorem InvK.congr {k k' : K} (h : InvK k) (h1 : k'.cstate = k.cstate) (h2 : k'.hasParser = k.hasParser)
    (h3 : k'.chained = k.chained) (h4 : k'.fires = k.fires) (h5 : k'.respD = k.respD) (h6 : k'.dk = k.dk)
    (h7 : k'.pdone = k.pdone) (h8 : k'.reqPending = k.reqPending) (h9 : k.respD = none → k'.rst = k.rst) : InvK k' := by
  obtain ⟨a, b, c, d1, d2, e, t, r1⟩ := h
  constructor
  · rw [h3, h4, h5]; exact a
  · rw [h3, h4, h1]; exact b
  · rw [h3, h2, h1]; exact c
  · rw [h6, h5]; exact d1
  · rw [h3, h2, h7, h5]; exact d2
  · rw [h1, h3, h8, h7]; exact e
  · rw [h1, h2]; exact t
  · rw [h5]; intro hr; rw [h9 hr]; exact r1 hr

theorem PostK.refl (k : K) (h : InvK k) : PostK k (.ok k) := ⟨h, List.prefix_refl _⟩

theorem inv_disconnectParser (k : K) (reason : Exc) (h : InvK k) : PostK k (disconnectParserK k reason) := by
  obtain ⟨cs, hp, ch, fires, respD, dk, pdone, rst, rq, dn, ad, er⟩ := k
  obtain ⟨a, b, c, d1, d2, e, t, r1⟩ := h
  simp only at a b c d1 d2 e t r1
  unfold PostK
  cases hp
  · simp only [disconnectParserK]
    refine ⟨⟨a, b, c, d1, d2, e, t, r1⟩, List.prefix_refl _⟩
  · cases cs <;> cases ch <;> cases dk <;> cases pdone <;> cases respD <;>
      simp_all [disconnectParserK, parserConnectionLostK, chainK, fireRespK, finishResponseLateK] <;>
      ((first | refine ⟨⟨?_, ?_, ?_, ?_, ?_, ?_, ?_, ?_⟩, ?_⟩ | refine ⟨?_, ?_, ?_, ?_, ?_, ?_, ?_, ?_⟩) <;> (try simp_all))

theorem inv_finished (k : K) (h : InvK k) (hd : k.respD ≠ none) :
    PostK k (finishedK k) ∧ (finishedK k).state.respD = k.respD := by
  obtain ⟨cs, hp, ch, fires, respD, dk, pdone, rst, rq, dn, ad, er⟩ := k
  obtain ⟨a, b, c, d1, d2, e, t, r1⟩ := h
  simp only at a b c d1 d2 e t r1 hd
  unfold PostK
  cases respD with
  | none => exact absurd rfl hd
  | some x =>
    cases cs <;> cases hp <;> cases ch <;> cases dk <;>
      simp at a b c d1 d2 e t r1 <;>
      simp [finishedK, finishResponseK, disconnectParserK, parserConnectionLostK, chainK, fireRespK, finishResponseLateK] <;>
      (try simp_all) <;>
      ((first | refine ⟨⟨?_, ?_, ?_, ?_, ?_, ?_, ?_, ?_⟩, ?_⟩ | refine ⟨?_, ?_, ?_, ?_, ?_, ?_, ?_, ?_⟩) <;> (try simp_all))

theorem bodyFinishedK_cases (k : K) (b : Bool) :
    bodyFinishedK k b = .ok (bodyFinishedK k b).state ∨ ∃ e, bodyFinishedK k b = .raise e (bodyFinishedK k b).state := by
  unfold bodyFinishedK
  cases k.rst <;> simp

theorem inv_bodyFinished (k : K) (b : Bool) (h : InvK k) (hd : k.respD ≠ none) : InvK (bodyFinishedK k b).state :=
  h.congr (by simp) (by simp) (by simp) (by simp) (by simp) (by simp) (by simp) (by simp) (fun h => absurd h hd)

theorem inv_allHeaders (k : K) (f : FK) (h : InvK k) : PostK k (allHeadersReceivedK k f) := by
  obtain ⟨cs, hp, ch, fires, respD, dk, pdone, rst, rq, dn, ad, er⟩ := k
  obtain ⟨a, b, c, d1, d2, e, t, r1⟩ := h
  simp only at a b c d1 d2 e t r1
  unfold PostK
  cases f with
  | interim =>
    simp only [allHeadersReceivedK, RK.state_ok]
    refine ⟨⟨a, b, c, d1, ?_, ?_, t, r1⟩, List.prefix_refl _⟩
    · intro h1 h2; simp at h2; exact d2 h1 (Or.inl h2)
    · intro h1; simp [e h1]
  | bad x =>
    simp only [allHeadersReceivedK, RK.state_raise]
    exact ⟨⟨a, b, c, d1, d2, e, t, r1⟩, List.prefix_refl _⟩
  | body dk' =>
    cases cs <;> cases hp <;> cases ch <;> cases respD <;>
      simp_all [allHeadersReceivedK, fireRespK] <;>
      ((first | refine ⟨⟨?_, ?_, ?_, ?_, ?_, ?_, ?_, ?_⟩, ?_⟩ | refine ⟨?_, ?_, ?_, ?_, ?_, ?_, ?_, ?_⟩) <;> (try simp_all))
  | noBody =>
    cases respD with
    | some x =>
      have hk : InvK ⟨cs, hp, ch, fires, some x, dk, pdone, rst, rq, dn, ad, er⟩ := ⟨a, b, c, d1, d2, e, t, r1⟩
      obtain ⟨⟨i1, p1⟩, q1⟩ := inv_finished _ hk (by simp)
      simp only [allHeadersReceivedK]
      cases hf : finishedK ⟨cs, hp, ch, fires, some x, dk, pdone, rst, rq, dn, ad, er⟩ with
      | raise e k1 => rw [hf] at i1 p1; exact ⟨i1, p1⟩
      | ok k1 =>
        rw [hf] at i1 p1 q1
        simp only [RK.state_ok, RK.bind_ok] at i1 p1 q1 ⊢
        have hr1 : k1.respD ≠ none := by rw [q1]; simp
        have i2 := inv_bodyFinished k1 false i1 hr1
        have hr2 : (bodyFinishedK k1 false).state.respD = some x := by simp [q1]
        rcases bodyFinishedK_cases k1 false with h2 | ⟨e2, h2⟩ <;> rw [h2]
        · simp only [RK.bind_ok, fireRespK, hr2, RK.state_raise]
          exact ⟨i2, by simpa using p1⟩
        · simp only [RK.bind_raise, RK.state_raise]
          exact ⟨i2, by simpa using p1⟩
    | none =>
      have hdk : dk = .none := by
        cases dk <;> simp_all
      have hrst : rst = .initial := r1 rfl
      subst hdk hrst
      cases cs <;> cases hp <;> cases ch <;> cases pdone <;>
        simp_all [allHeadersReceivedK, finishedK, finishResponseK, disconnectParserK, parserConnectionLostK, chainK, fireRespK,
          finishResponseLateK, bodyFinishedK] <;>
        ((first | refine ⟨⟨?_, ?_, ?_, ?_, ?_, ?_, ?_, ?_⟩, ?_⟩ | refine ⟨?_, ?_, ?_, ?_, ?_, ?_, ?_, ?_⟩) <;> (try simp_all))

macro "kclose" : tactic => `(tactic|
  ((first | refine ⟨⟨?_, ?_, ?_, ?_, ?_, ?_, ?_, ?_⟩, ?_⟩ | refine ⟨?_, ?_, ?_, ?_, ?_, ?_, ?_, ?_⟩) <;> (try simp_all)))

def StepK (k k' : K) : Prop := InvK k' ∧ k.fires <+: k'.fires

theorem stepK_of_post {k : K} {r : RK} (h : PostK k r) : StepK k r.state := h

theorem inv_connectionLost (k : K) (reason : Exc) (h : InvK k) :
    StepK k (connectionLostK k reason) ∧ (connectionLostK k reason).fires.length = 1 := by
  obtain ⟨cs, hp, ch, fires, respD, dk, pdone, rst, rq, dn, ad, er⟩ := k
  obtain ⟨a, b, c, d1, d2, e, t, r1⟩ := h
  simp only at a b c d1 d2 e t r1
  unfold StepK
  cases cs <;> cases hp <;> cases ch <;> cases dk <;> cases pdone <;> cases respD <;>
    simp_all [connectionLostK, disconnectParserK, parserConnectionLostK, chainK, fireRespK, finishResponseLateK] <;>
    ((first | refine ⟨⟨⟨?_, ?_, ?_, ?_, ?_, ?_, ?_, ?_⟩, ?_⟩, ?_⟩ | refine ⟨⟨?_, ?_, ?_, ?_, ?_, ?_, ?_, ?_⟩, ?_⟩ | refine ⟨?_, ?_, ?_, ?_, ?_, ?_, ?_, ?_⟩) <;>
      (try simp_all [fireFinK_rst]))

theorem inv_abort (k : K) (h : InvK k) : StepK k (abortK k) := by
  obtain ⟨cs, hp, ch, fires, respD, dk, pdone, rst, rq, dn, ad, er⟩ := k
  obtain ⟨a, b, c, d1, d2, e, t, r1⟩ := h
  simp only at a b c d1 d2 e t r1
  unfold StepK
  cases cs <;> cases hp <;> cases ch <;> cases respD <;>
    simp_all [abortK, chainK] <;> kclose

theorem inv_writeFailed (k : K) (why : Exc) (h : InvK k) : StepK k (writeFailedK k why) := by
  obtain ⟨cs, hp, ch, fires, respD, dk, pdone, rst, rq, dn, ad, er⟩ := k
  obtain ⟨a, b, c, d1, d2, e, t, r1⟩ := h
  simp only at a b c d1 d2 e t r1
  unfold StepK writeFailedK
  cases rq
  · simp only [Bool.not_false, if_true]
    exact ⟨⟨a, b, c, d1, d2, e, t, r1⟩, List.prefix_refl _⟩
  · simp only [Bool.not_true, Bool.false_eq_true, if_false]
    cases cs <;> cases ch <;> simp at a b c d1 d2 e t r1 <;> (try simp) <;> (try simp_all) <;>
      ((first | refine ⟨⟨?_, ?_, ?_, ?_, ?_, ?_, ?_, ?_⟩, ?_⟩ | refine ⟨?_, ?_, ?_, ?_, ?_, ?_, ?_, ?_⟩) <;> (try simp_all [fireFinK_rst]))

theorem inv_written (k : K) (h : InvK k) : StepK k (writtenK k) := by
  obtain ⟨cs, hp, ch, fires, respD, dk, pdone, rst, rq, dn, ad, er⟩ := k
  obtain ⟨a, b, c, d1, d2, e, t, r1⟩ := h
  simp only at a b c d1 d2 e t r1
  unfold StepK writtenK
  cases rq
  · simp only [Bool.not_false, if_true]
    exact ⟨⟨a, b, c, d1, d2, e, t, r1⟩, List.prefix_refl _⟩
  · simp only [Bool.not_true, Bool.false_eq_true, if_false]
    cases cs <;> cases ch <;> cases respD <;> cases hp <;> simp at a b c d1 d2 e t r1 <;> (try simp [chainK]) <;> (try simp_all) <;> kclose

theorem inv_deliver (k : K) (h : InvK k) : StepK k (deliverK k) := by
  unfold StepK deliverK
  split
  · rename_i hc
    simp only [Bool.and_eq_true, decide_eq_true_eq] at hc
    have hr : k.respD ≠ none := by
      intro hr
      cases hch : k.chained
      · rcases h.b hch with ⟨_, h2⟩ | ⟨_, _, h3⟩
        · rw [hc.1] at h2; cases h2
        · rw [hc.1] at h3; simp at h3
      · have := h.a hch; rw [hc.1, hr] at this; cases this
    refine ⟨h.congr ?_ ?_ ?_ ?_ ?_ ?_ ?_ ?_ (fun h => absurd h hr), ?_⟩ <;>
      (unfold deliverBodyK; split <;> simp)
  · exact ⟨h, List.prefix_refl _⟩

theorem inv_cancel (k : K) (h : InvK k) : StepK k (cancelK k) := by
  unfold cancelK
  split
  · exact ⟨h, List.prefix_refl _⟩
  · rename_i hf
    have hf : k.fires = [] := by simpa using hf
    refine ⟨?_, by rw [hf]; exact List.nil_prefix⟩
    obtain ⟨cs, hp, ch, fires, respD, dk, pdone, rst, rq, dn, ad, er⟩ := k
    obtain ⟨a, b, c, d1, d2, e, t, r1⟩ := h
    simp only at a b c d1 d2 e t r1 hf
    subst hf
    cases rq <;> cases cs <;> cases hp <;> cases ch <;> cases dk <;> cases pdone <;> cases respD <;>
      simp at a b c d1 d2 e t r1 <;>
      (try simp [cancelTailK, writeFailedK, disconnectParserK, parserConnectionLostK, chainK, fireRespK, finishResponseLateK]) <;>
      (try simp_all) <;>
      (try (refine ⟨?_, ?_, ?_, ?_, ?_, ?_, ?_, ?_⟩ <;> (try simp_all [fireFinK_rst])))

end TwistedProps.C23
