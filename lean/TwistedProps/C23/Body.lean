import TwistedModel.Http.Client
/-! C23 lemmas: the `Response` body state machine (`_bodyDataReceived_*`, `_bodyDataFinished_*`, `deliverBody`). -/
namespace TwistedProps.C23
open Twisted.Http.Client
open Twisted.Http.Chunked (Bytes)

/-- `_bodyDataReceived(d)` for each `d` in turn (a raise leaves the Response as it was) -/
def feedBody (s : S) : List Bytes → S
  | [] => s
  | d :: ds => feedBody (bodyData s d).state ds

theorem feedBody_initial : ∀ (ds : List Bytes) (s : S), s.rstate = .initial →
    feedBody s ds = { s with rbuffer := s.rbuffer ++ ds.flatten } := by
  intro ds
  induction ds with
  | nil => intro s _; simp [feedBody]
  | cons d ds ih =>
    intro s h
    have h1 : (bodyData s d).state = { s with rbuffer := s.rbuffer ++ d } := by simp [bodyData, h, R.state]
    rw [feedBody, h1, ih _ (by simpa using h)]
    simp [List.append_assoc]

theorem feedBody_connected : ∀ (ds : List Bytes) (s : S), s.rstate = .connected →
    feedBody s ds = { s with delivered := s.delivered ++ ds.flatten } := by
  intro ds
  induction ds with
  | nil => intro s _; simp [feedBody]
  | cons d ds ih =>
    intro s h
    have h1 : (bodyData s d).state = { s with delivered := s.delivered ++ d } := by simp [bodyData, h, R.state]
    rw [feedBody, h1, ih _ (by simpa using h)]
    simp [List.append_assoc]

/-- a Response nobody has touched yet, with an unconnected body protocol -/
def Fresh (s : S) : Prop :=
  s.rstate = .initial ∧ s.rbuffer = [] ∧ s.delivered = [] ∧ s.lost = [] ∧ s.made = 0

/-- **deliverBody first**: data before and after `deliverBody`, then the end of the body -/
theorem body_deliver_then_finish (s : S) (hs : Fresh s) (ds1 ds2 : List Bytes) (r : Option BodyEnd) :
    let s' := (bodyFinished (feedBody (deliverBody (feedBody s ds1)) ds2) r).state
    s'.delivered = ds1.flatten ++ ds2.flatten ∧ s'.lost = [r.getD .done] ∧ s'.made = 1 ∧ s'.rstate = .finished := by
  obtain ⟨h1, h2, h3, h4, h5⟩ := hs
  simp only
  rw [feedBody_initial ds1 s h1]
  simp only [deliverBody, h1]
  rw [feedBody_connected ds2 _ rfl]
  simp [bodyFinished, R.state, h2, h3, h4, h5]

/-- **end of the body first** (`DEFERRED_CLOSE`): everything is buffered, `deliverBody` hands it over and
    reports the end at once -/
theorem body_finish_then_deliver (s : S) (hs : Fresh s) (ds : List Bytes) (r : Option BodyEnd) :
    let s' := deliverBody (bodyFinished (feedBody s ds) r).state
    s'.delivered = ds.flatten ∧ s'.lost = [r.getD .done] ∧ s'.made = 1 ∧ s'.rstate = .finished := by
  obtain ⟨h1, h2, h3, h4, h5⟩ := hs
  simp only
  rw [feedBody_initial ds s h1]
  simp [bodyFinished, R.state, deliverBody, h1, h2, h3, h4, h5]

/-- **never delivered**: the body protocol is never touched -/
theorem body_never_delivered (s : S) (hs : Fresh s) (ds : List Bytes) (r : Option BodyEnd) :
    let s' := (bodyFinished (feedBody s ds) r).state
    s'.delivered = [] ∧ s'.lost = [] ∧ s'.made = 0 ∧ s'.rstate = .deferredClose := by
  obtain ⟨h1, h2, h3, h4, h5⟩ := hs
  simp only
  rw [feedBody_initial ds s h1]
  simp [bodyFinished, R.state, h1, h3, h4, h5]

/-- after the end of the body nothing more is accepted: a second `_bodyDataFinished` and any further data raise
    and change nothing -/
theorem body_after_finish (s : S) (h : s.rstate = .deferredClose ∨ s.rstate = .finished) (d : Bytes) (r : Option BodyEnd) :
    (bodyData s d).state = s ∧ (bodyFinished s r).state = s := by
  rcases h with h | h <;> simp [bodyData, bodyFinished, R.state, h]

end TwistedProps.C23
