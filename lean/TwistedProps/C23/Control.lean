import TwistedModel.Http.Client
/-! C23 lemmas: the protocol's control events (loss, abort, cancel, request written / failed, deliverBody)
on a connection that has not delivered a response byte yet. -/
namespace TwistedProps.C23
open Twisted.Http.Client

/-- invariant of the states reachable without any `dataReceived` -/
structure NoData (s : S) : Prop where
  dec : s.decoder = .none
  ps : s.pstate = .status
  rs : s.rstate = .initial
  f1 : s.chained = true → s.fires = s.respD.toList
  f2 : s.chained = false → (s.cstate = .transmitting ∧ s.fires = [] ∧ s.respD = none) ∨
        ((s.cstate = .generationFailed ∨ s.cstate = .aborting ∨ s.cstate = .connectionLost) ∧ s.fires.length = 1)
  f3 : s.respD = none → (s.chained = true ∨ s.cstate = .transmitting) →
        s.hasParser = true ∧ (s.cstate = .waiting ∨ s.cstate = .aborting ∨ s.cstate = .transmitting)
  f5 : s.respD ≠ none → s.hasParser = false ∧ s.respD ≠ some .response
  f7 : s.cstate = .transmitting → s.reqPending = true ∧ s.chained = false
  nr : Fire.response ∉ s.fires

theorem noData_init (h p a d : Bool) : NoData (Twisted.Http.Client.init h p a d) := by
  constructor <;> cases a <;> simp [Twisted.Http.Client.init]

theorem fireFin_of_ne (s : S) (f : Fire) (h : f ≠ .response) : fireFin s f = { s with fires := s.fires ++ [f] } := by
  simp [fireFin, h]

theorem lost_noData (s : S) (r : Exc) (h : NoData s) :
    NoData (connectionLost s r) ∧ (connectionLost s r).cstate = .connectionLost := by
  obtain ⟨dec, ps, rs, f1, f2, f3, f5, f7, nr⟩ := h
  cases hc : s.cstate <;> cases hch : s.chained <;> cases hr : s.respD <;> cases hp : s.hasParser <;> cases he : s.everReceived <;>
    simp_all [connectionLost, disconnectParser, parserConnectionLost, fireResp, fireFin_of_ne, escape, chain] <;>
    (constructor <;> simp_all)

theorem abort_noData (s : S) (h : NoData s) :
    NoData (abort s) ∧ (s.cstate = .connectionLost → (abort s).cstate = .connectionLost) := by
  obtain ⟨dec, ps, rs, f1, f2, f3, f5, f7, nr⟩ := h
  cases hc : s.cstate <;> cases hch : s.chained <;> cases hr : s.respD <;> cases hp : s.hasParser <;>
    simp_all [abort, chain, fireFin_of_ne] <;>
    (constructor <;> simp_all)

theorem written_noData (s : S) (h : NoData s) :
    NoData (written s) ∧ (s.cstate = .connectionLost → (written s).cstate = .connectionLost) := by
  obtain ⟨dec, ps, rs, f1, f2, f3, f5, f7, nr⟩ := h
  cases hc : s.cstate <;> cases hch : s.chained <;> cases hr : s.respD <;> cases hp : s.hasParser <;>
    cases hq : s.reqPending <;>
    simp_all [written, chain, fireFin_of_ne] <;>
    (constructor <;> simp_all)

theorem writeFailed_noData (s : S) (w : Exc) (h : NoData s) :
    NoData (writeFailed s w) ∧ (s.cstate = .connectionLost → (writeFailed s w).cstate = .connectionLost) := by
  obtain ⟨dec, ps, rs, f1, f2, f3, f5, f7, nr⟩ := h
  cases hc : s.cstate <;> cases hch : s.chained <;> cases hr : s.respD <;> cases hp : s.hasParser <;>
    cases hq : s.reqPending <;>
    simp_all [writeFailed, fireFin_of_ne] <;>
    (constructor <;> simp_all)

theorem deliver_noData (s : S) (h : NoData s) : deliver s = s := by
  have nr := h.nr
  unfold deliver
  split
  · rename_i hh
    simp only [Bool.and_eq_true, decide_eq_true_eq] at hh
    simp [hh.1] at nr
  · rfl

theorem cancel_noData (s : S) (h : NoData s) :
    NoData (cancel s) ∧ (s.cstate = .connectionLost → (cancel s).cstate = .connectionLost) := by
  by_cases hf : s.fires = []
  · obtain ⟨dec, ps, rs, f1, f2, f3, f5, f7, nr⟩ := h
    cases hc : s.cstate <;> cases hch : s.chained <;> cases hr : s.respD <;> cases hp : s.hasParser <;>
      cases hq : s.reqPending <;> cases he : s.everReceived <;>
      simp_all [cancel, writeFailed, disconnectParser, parserConnectionLost, fireResp, escape, fireFin_of_ne] <;>
      (constructor <;> simp_all)
  · have hc : cancel s = s := by simp [cancel, hf]
    rw [hc]; exact ⟨h, fun h => h⟩

end TwistedProps.C23
