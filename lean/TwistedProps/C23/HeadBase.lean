import TwistedProps.C23.BodyRun
/-! C23 lemmas: the HEAD phase: the explicit protocol state while the head is being read (`setHS (baseE …) hs tail`),
`_giveUp` on a malformed head, liveness of the decoder `framing` installs. -/
namespace TwistedProps.C23
open Twisted.Http.Client
open Twisted.Http.Chunked (Bytes Ident Dec)

/-- the protocol after `request()` of a request that was written at once; `ev`: some delivery has happened -/
def baseE (h p d ev : Bool) : S := { Twisted.Http.Client.init h p false d with everReceived := ev }

theorem baseE_init (h p d : Bool) : setHS (baseE h p d false) hs0 [] = Twisted.Http.Client.init h p false d := rfl

theorem head_deliver (h p d ev : Bool) (hs : HS) (tail : Bytes) :
    deliver (setHS (baseE h p d ev) hs tail) = setHS (baseE h p d ev) hs tail := by
  simp [deliver, setHS, baseE, Twisted.Http.Client.init]

theorem head_parser_data (h p d ev : Bool) (hs : HS) (tail b : Bytes) :
    parserDataReceived (setHS (baseE h p d ev) hs tail) b = lrLoop (setHS (baseE h p d true) hs tail) (tail ++ b) := rfl

theorem head_hasParser (h p d ev : Bool) (hs : HS) (tail : Bytes) : (setHS (baseE h p d ev) hs tail).hasParser = true := rfl

/-- a malformed head: `_giveUp` fires the request Deferred with `ResponseFailed([the parser's exception])` -/
theorem head_giveUp (h p d : Bool) (hs : HS) (t : Bytes) (e : Exc) :
    DonePh (escape (giveUp (setHS (baseE h p d true) hs t) e)) (.responseFailed [e]) := by
  have hE : escape (giveUp (setHS (baseE h p d true) hs t) e) =
      { setHS (baseE h p d true) hs t with
          disconnecting := true, hasParser := false, proxying := false,
          respD := some (.responseFailed [e]), fires := [.responseFailed [e]] } := by
    cases hi : hs.inHeader <;>
      simp [giveUp, disconnectParser, parserConnectionLost, fireResp, fireFin, escape, setHS, baseE,
        Twisted.Http.Client.init, hi]
  rw [hE]
  refine ⟨rfl, rfl, Or.inl rfl, ?_, fun x => by cases x⟩
  simp [RespOK, setHS, baseE, Twisted.Http.Client.init]

theorem framing_body_live (h : Bool) (code : Int) (conn : List (Bytes × Bytes)) (D : Decoder)
    (hf : framing h code conn = .body D) : decLive D := by
  unfold framing at hf
  split at hf
  · cases hf
  · split at hf
    · cases hf
    · split at hf
      · split at hf
        · cases hf; simp [decLive, Twisted.Http.Chunked.init]
        · cases hf
      · split at hf
        · cases hf
        · cases hf
        · rename_i n hn0 _
          cases hf
          refine ⟨rfl, ?_⟩
          simp only [Ident.init]
          intro hc
          cases n with
          | none => cases hc
          | some k =>
            simp at hc; subst hc
            exact hn0 rfl

end TwistedProps.C23
