import TwistedProps.C23.ParserLost
/-! C23 lemmas: `_disconnectParser` / `_finished` in the body phase; the delivery that finishes the decoder, the one on
which it raises, and the loss of the connection during the body. -/
namespace TwistedProps.C23
open Twisted.Http.Client
open Twisted.Http.Chunked (Bytes Ident Dec)

theorem decDone_ne (D : Decoder) (h : decDone D) : D ≠ .none := by
  intro e; subst e; exact h

theorem decLive_ne (D : Decoder) (h : decLive D) : D ≠ .none := by
  intro e; subst e; exact h

/-- `_disconnectParser(r)` in WAITING / QUIESCENT with a body decoder installed -/
theorem disconnect_view (s : S) (r : Exc) (hp : s.hasParser = true) (hD : s.decoder ≠ .none)
    (hrs : s.rstate = .initial ∨ s.rstate = .connected) (hok : RespOK s)
    (hcs : s.cstate = .waiting ∨ (s.cstate = .quiescent ∧ decDone s.decoder)) :
    ∃ s', disconnectParser s r = .ok s' ∧ EndView { s with hasParser := false } (lostEnd s.decoder r) s' ∧
      (s'.cstate = .waiting ∨ s'.cstate = .quiescent) := by
  have hnt : s.cstate ≠ .transmitting := by
    rcases hcs with hc | hc
    · rw [hc]; simp
    · rw [hc.1]; simp
  have hE : disconnectParser s r = parserConnectionLost { s with hasParser := false, proxying := false } r := by
    simp [disconnectParser, hp, hnt]
  rw [hE]
  obtain ⟨s', h1, h2, h3⟩ := pcl_view { s with hasParser := false, proxying := false } r hD hrs hok hcs
  exact ⟨s', h1, h2, h3⟩

/-- `HTTPClientParser._finished` once the decoder has seen the whole body -/
theorem finished_view (s : S) (hp : s.hasParser = true) (hc : s.cstate = .waiting) (hD : decDone s.decoder)
    (hrs : s.rstate = .initial ∨ s.rstate = .connected) (hok : RespOK s) :
    ∃ s', finished s = .ok s' ∧ EndView { s with hasParser := false } .done s' ∧
      (s'.cstate = .waiting ∨ s'.cstate = .quiescent) := by
  by_cases hg : (hasClose s.connHeaders || !s.persistent) = true
  · have hE : finished s =
        disconnectParser { s with pstate := .done, cstate := .quiescent, disconnecting := true } .connectionDone := by
      simp only [Bool.or_eq_true] at hg
      rcases hg with hg | hg <;> simp [finished, finishResponse, hc, hp, giveUp, hg]
    rw [hE]
    obtain ⟨s', h1, h2, h3⟩ := disconnect_view { s with pstate := .done, cstate := .quiescent, disconnecting := true }
      .connectionDone hp (decDone_ne _ hD) hrs hok (Or.inr ⟨rfl, hD⟩)
    rw [lostEnd_done _ _ hD] at h2
    exact ⟨s', h1, h2, h3⟩
  · have hE : finished s =
        disconnectParser { s with pstate := .done, cstate := .quiescent, paused := false, quiet := s.quiet + 1,
                                  disconnecting := s.disconnecting || s.qRaises }
          .connectionDone := by
      simp only [Bool.or_eq_true, not_or, Bool.not_eq_true, Bool.not_eq_false'] at hg
      simp [finished, finishResponse, hc, hp, hg.1, hg.2]
    rw [hE]
    obtain ⟨s', h1, h2, h3⟩ := disconnect_view
      { s with pstate := .done, cstate := .quiescent, paused := false, quiet := s.quiet + 1,
               disconnecting := s.disconnecting || s.qRaises }
      .connectionDone hp (decDone_ne _ hD) hrs hok (Or.inr ⟨rfl, hD⟩)
    rw [lostEnd_done _ _ hD] at h2
    exact ⟨s', h1, h2, h3⟩


theorem decStep_err_ne (D : Decoder) (b : Bytes) (e : Exc) (D' : Decoder) (piece : Bytes)
    (h : decStep D b = .err e D' piece) : D' ≠ .none := by
  cases D with
  | none => simp [decStep] at h
  | ident d => simp only [decStep] at h; split at h <;> cases h
  | chunked d =>
    simp only [decStep] at h
    split at h
    · cases h; simp
    · cases h

/-- the state after `_bodyDataReceived(piece)` in the body phase -/
theorem body_piece (s : S) (h : BodyPh s) (D' : Decoder) (piece : Bytes) :
    ∃ s3, bodyData { s with everReceived := true, buffer := [], decoder := D' } piece = .ok s3 ∧
      s3.hasParser = true ∧ s3.cstate = .waiting ∧ s3.decoder = D' ∧ (s3.rstate = .initial ∨ s3.rstate = .connected) ∧
      RespOK s3 ∧ bodySoFar s3 = bodySoFar s ++ piece ∧ s3.fires = s.fires ∧ s3.appDelivered = s.appDelivered ∧
      s3.deliverNow = s.deliverNow := by
  have hok := h.ok
  rcases h.rs with hr | hr
  · refine ⟨{ s with everReceived := true, buffer := [], decoder := D', rbuffer := s.rbuffer ++ piece },
      by simp [bodyData, hr], h.hp, h.cs, rfl, Or.inl hr, ?_, ?_, rfl, rfl, rfl⟩
    · simpa [RespOK, hr] using hok
    · simp [bodySoFar]
  · have hrb : s.rbuffer = [] := by have := hok; simp [RespOK, hr] at this; exact this.1
    refine ⟨{ s with everReceived := true, buffer := [], decoder := D', delivered := s.delivered ++ piece },
      by simp [bodyData, hr], h.hp, h.cs, rfl, Or.inr hr, ?_, ?_, rfl, rfl, rfl⟩
    · simpa [RespOK, hr] using hok
    · simp [bodySoFar, hrb]

/-- the delivery with which the decoder finishes: the parser is disconnected, the Response gets `ResponseDone` -/
theorem body_data_fin (s : S) (h : BodyPh s) (b : Bytes) (hb : b ≠ []) (D' : Decoder) (piece : Bytes)
    (hd : decStep s.decoder b = .ok D' piece true) :
    DonePh (dataReceived s b) .response ∧ bodySoFar (dataReceived s b) = bodySoFar s ++ piece ∧
      bodyEnd (dataReceived s b) = some .done ∧ (dataReceived s b).appDelivered = s.appDelivered := by
  have hl := decStep_live s.decoder b h.live
  rw [hd] at hl
  have hdone : decDone D' := hl.2 rfl
  obtain ⟨s3, e1, a1, a2, a3, a4, a5, a6, a7, a8, a9⟩ := body_piece s h D' piece
  obtain ⟨s', f1, ⟨g1, g2, g3, g4, g5, g6, g7⟩, f3⟩ := finished_view s3 a1 a2 (by rw [a3]; exact hdone) a4 a5
  have hE : dataReceived s b = s' := by
    unfold dataReceived
    rw [if_neg (by rw [h.hp]; decide), body_parser_data s h b hb, rawDataReceived_eq]
    simp only [hd, e1, R.bind, f1, if_true]
  rw [hE]
  refine ⟨⟨g5, by rw [g4]; exact a7.trans h.fi, ?_, g1, ?_⟩, g2.trans a6, g3, g6.trans a8⟩
  · rcases f3 with f3 | f3
    · exact Or.inl f3
    · exact Or.inr (Or.inl f3)
  · intro _ hdn
    rw [g6]; show s3.appDelivered = true
    rw [a8]; exact h.dn (by rw [← a9, ← g7]; exact hdn)

/-- the delivery on which the decoder raises: `_giveUp`, the Response gets the failure `connectionLost` dictates -/
theorem body_data_err (s : S) (h : BodyPh s) (b : Bytes) (hb : b ≠ []) (e : Exc) (D' : Decoder) (piece : Bytes)
    (hd : decStep s.decoder b = .err e D' piece) :
    DonePh (dataReceived s b) .response ∧ bodySoFar (dataReceived s b) = bodySoFar s ++ piece ∧
      bodyEnd (dataReceived s b) = some (lostEnd D' e) ∧ (dataReceived s b).appDelivered = s.appDelivered := by
  obtain ⟨s3, e1, a1, a2, a3, a4, a5, a6, a7, a8, a9⟩ := body_piece s h D' piece
  have hne : s3.decoder ≠ .none := by rw [a3]; exact decStep_err_ne _ _ _ _ _ hd
  obtain ⟨s', f1, ⟨g1, g2, g3, g4, g5, g6, g7⟩, f3⟩ :=
    disconnect_view { s3 with disconnecting := true } e a1 hne a4 a5 (Or.inl a2)
  have hE : dataReceived s b = s' := by
    unfold dataReceived
    rw [if_neg (by rw [h.hp]; decide), body_parser_data s h b hb, rawDataReceived_eq]
    simp only [hd, e1, R.bind, giveUp, f1, escape]
  rw [hE]
  refine ⟨⟨g5, by rw [g4]; exact a7.trans h.fi, ?_, g1, ?_⟩, g2.trans a6, by rw [g3]; show some (lostEnd s3.decoder e) = _; rw [a3],
    g6.trans a8⟩
  · rcases f3 with f3 | f3
    · exact Or.inl f3
    · exact Or.inr (Or.inl f3)
  · intro _ hdn
    rw [g6]; show s3.appDelivered = true
    rw [a8]; exact h.dn (by rw [← a9, ← g7]; exact hdn)

/-- the connection is lost while the body is being received -/
theorem body_lost (s : S) (h : BodyPh s) (r : Exc) :
    DonePh (connectionLost s r) .response ∧ bodySoFar (connectionLost s r) = bodySoFar s ∧
      bodyEnd (connectionLost s r) = some (lostEnd s.decoder r) ∧ (connectionLost s r).appDelivered = s.appDelivered := by
  obtain ⟨s', f1, ⟨g1, g2, g3, g4, g5, g6, g7⟩, f3⟩ :=
    disconnect_view s r h.hp (decLive_ne _ h.live) h.rs h.ok (Or.inl h.cs)
  have hE : connectionLost s r = { s' with cstate := .connectionLost } := by
    simp [connectionLost, h.cs, f1]
  rw [hE]
  refine ⟨⟨g5, by rw [← h.fi]; exact g4, Or.inr (Or.inr rfl), g1, ?_⟩, g2, g3, g6⟩
  intro _ hdn
  show s'.appDelivered = true
  rw [g6]; exact h.dn (by rw [← g7]; exact hdn)

end TwistedProps.C23
