import TwistedModel.Http.Client
/-! C23 lemmas: the splitting lemma for the line loop of `LineReceiver.dataReceived` (`lrLoop`): one complete line is
handed to `lineReceived` and the loop goes on with what follows; a trailing partial line is buffered unchanged —
independent of how the bytes were segmented, as long as no line exceeds `MAX_LENGTH`. -/
namespace TwistedProps.C23
open Twisted.Http.Client
open Twisted.Http.Chunked (Bytes)

theorem splitLF_line (line rest : Bytes) (h : (10 : UInt8) ∉ line) : splitLF (line ++ 10 :: rest) = some (line, rest) := by
  induction line with
  | nil => simp [splitLF]
  | cons c l ih =>
    have hc : c ≠ 10 := fun e => h (by simp [e])
    have hl : (10 : UInt8) ∉ l := fun e => h (by simp [e])
    simp [splitLF, hc, ih hl]

theorem splitLF_none (buf : Bytes) (h : (10 : UInt8) ∉ buf) : splitLF buf = none := by
  induction buf with
  | nil => simp [splitLF]
  | cons c l ih =>
    have hc : c ≠ 10 := fun e => h (by simp [e])
    have hl : (10 : UInt8) ∉ l := fun e => h (by simp [e])
    simp [splitLF, hc, ih hl]

/-- a trailing partial line (no LF, at most `MAX_LENGTH` bytes) is buffered, nothing else happens -/
theorem lrLoop_partial (s : S) (buf : Bytes) (hl : s.lineMode = true) (hno : (10 : UInt8) ∉ buf)
    (hlen : buf.length ≤ MAX_LENGTH) : lrLoop s buf = .ok { s with buffer := buf } := by
  unfold lrLoop
  by_cases hb : buf = []
  · simp [hb]
  · simp only [hb, if_false, hl, if_true]
    split
    · have : ¬ buf.length ≥ MAX_LENGTH + 1 := by omega
      simp [this]
    · rename_i line rest hsp
      rw [splitLF_none buf hno] at hsp
      cases hsp

/-- **splitting lemma**: one complete line (no LF inside, at most `MAX_LENGTH` bytes) followed by `rest` -/
theorem lrLoop_line (s : S) (line rest : Bytes) (hl : s.lineMode = true) (hno : (10 : UInt8) ∉ line)
    (hlen : line.length ≤ MAX_LENGTH) :
    lrLoop s (line ++ 10 :: rest) =
      match lineReceived s line with
      | .raise e s' => .raise e { s' with buffer := if s.pstate ≠ .done && s'.pstate = .done then [] else rest }
      | .ok s' => if s.pstate ≠ .done && s'.pstate = .done then .ok { s' with buffer := [] } else lrLoop s' rest := by
  rw [lrLoop]
  have hb : line ++ 10 :: rest ≠ [] := by simp
  simp only [hb, if_false, hl, if_true]
  split
  · rename_i hsp
    rw [splitLF_line line rest hno] at hsp
    cases hsp
  · rename_i line' rest' hsp
    rw [splitLF_line line rest hno] at hsp
    cases hsp
    have : ¬ line.length > MAX_LENGTH := by omega
    simp only [this, if_false]
    rfl

end TwistedProps.C23
