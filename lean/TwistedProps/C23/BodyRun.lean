import TwistedProps.C23.BodyEnd
/-! C23 lemmas: scripts of deliveries and `deliverBody` calls in the DONE and BODY phases; the decoder trace `decRun`;
`body_run`: the Response gets exactly what the decoder emits (wire → decoder → Response). -/
namespace TwistedProps.C23
open Twisted.Http.Client
open Twisted.Http.Chunked (Bytes Ident Dec)

/-- the byte strings delivered by a script, in order -/
def payloads : List Event → List Bytes
  | [] => []
  | .data b :: evs => b :: payloads evs
  | _ :: evs => payloads evs

theorem run_cons (s : S) (e : Event) (evs : List Event) : run s (e :: evs) = run (step s e) evs := rfl

theorem run_append (s : S) (a b : List Event) : run s (a ++ b) = run (run s a) b := by
  simp [run, List.foldl_append]

/-- once the parser is disconnected, deliveries and `deliverBody` change nothing but who holds the body -/
theorem done_run (f : Fire) : ∀ (evs : List Event) (s : S), DonePh s f → (∀ e ∈ evs, isDD e = true) →
    DonePh (run s evs) f ∧ bodySoFar (run s evs) = bodySoFar s ∧ bodyEnd (run s evs) = bodyEnd s ∧
      ((s.appDelivered = true ∨ (f = .response ∧ Event.deliver ∈ evs)) → (run s evs).appDelivered = true) := by
  intro evs
  induction evs with
  | nil => intro s h _; exact ⟨h, rfl, rfl, fun x => by rcases x with x | x; exact x; simp at x⟩
  | cons e evs ih =>
    intro s h hdd
    have hdd' : ∀ e' ∈ evs, isDD e' = true := fun e' he' => hdd e' (by simp [he'])
    rw [run_cons]
    cases e with
    | data b =>
      obtain ⟨a1, a2, a3, a4⟩ := done_data s f h b
      obtain ⟨b1, b2, b3, b4⟩ := ih _ a1 hdd'
      refine ⟨b1, b2.trans a2, b3.trans a3, fun x => b4 ?_⟩
      rcases x with x | x
      · exact Or.inl (by show (dataReceived s b).appDelivered = true; rw [a4]; exact x)
      · exact Or.inr ⟨x.1, by simpa using x.2⟩
    | deliver =>
      obtain ⟨a1, a2, a3, a4, a5⟩ := done_deliver s f h
      obtain ⟨b1, b2, b3, b4⟩ := ih _ a1 hdd'
      refine ⟨b1, b2.trans a2, b3.trans a3, fun x => b4 (Or.inl ?_)⟩
      rcases x with x | x
      · exact a4 x
      · exact a5 x.1
    | lost r => have := hdd (.lost r) (by simp); simp [isDD] at this
    | written => have := hdd .written (by simp); simp [isDD] at this
    | writeFailed => have := hdd .writeFailed (by simp); simp [isDD] at this
    | abort => have := hdd .abort (by simp); simp [isDD] at this
    | cancel => have := hdd .cancel (by simp); simp [isDD] at this

/-- how far the decoder gets on a list of deliveries, driven the way the parser drives it (empty deliveries are not
    handed to it; it is dropped once it has finished or raised) -/
inductive Trace where
  | live (D : Decoder) (out : Bytes)                 -- still expecting data; `out` = everything emitted
  | done (out : Bytes)                               -- finished: `ResponseDone`
  | failed (e : Exc) (D : Decoder) (out : Bytes)     -- raised `e`

def decRun (D : Decoder) (out : Bytes) : List Bytes → Trace
  | [] => .live D out
  | b :: bs =>
    if b = [] then decRun D out bs else
    match decStep D b with
    | .ok D' piece false => decRun D' (out ++ piece) bs
    | .ok _ piece true => .done (out ++ piece)
    | .err e D' piece => .failed e D' (out ++ piece)
    | .errNow e => .failed e D out

/-- the state `sF` against the decoder trace: the Response has been given exactly what the decoder emitted and has
    been told the end exactly when the decoder finished (`ResponseDone`) or raised -/
def TracePost (tr : Trace) (sF : S) : Prop :=
  match tr with
  | .live D out => BodyPh sF ∧ sF.decoder = D ∧ bodySoFar sF = out
  | .done out => DonePh sF .response ∧ bodySoFar sF = out ∧ bodyEnd sF = some .done
  | .failed e D out => DonePh sF .response ∧ bodySoFar sF = out ∧ bodyEnd sF = some (lostEnd D e)

/-- **wire → decoder → Response**: in the body phase, whatever deliveries and `deliverBody` calls follow, the Response
    has been given exactly what the decoder emitted, and has been told the end exactly when the decoder finished
    (`ResponseDone`) or raised -/
theorem body_run : ∀ (evs : List Event) (s : S), BodyPh s → (∀ e ∈ evs, isDD e = true) →
    TracePost (decRun s.decoder (bodySoFar s) (payloads evs)) (run s evs) ∧
    ((s.appDelivered = true ∨ Event.deliver ∈ evs) → (run s evs).appDelivered = true) := by
  intro evs
  induction evs with
  | nil => intro s h _; exact ⟨⟨h, rfl, rfl⟩, fun x => by rcases x with x | x; exact x; simp at x⟩
  | cons e evs ih =>
    intro s h hdd
    have hdd' : ∀ e' ∈ evs, isDD e' = true := fun e' he' => hdd e' (by simp [he'])
    rw [run_cons]
    cases e with
    | deliver =>
      obtain ⟨a1, a2, a3, a4⟩ := body_deliver s h
      obtain ⟨b1, b2⟩ := ih _ a1 hdd'
      simp only [payloads]
      refine ⟨?_, fun _ => b2 (Or.inl a4)⟩
      have : decRun (step s .deliver).decoder (bodySoFar (step s .deliver)) (payloads evs) =
          decRun s.decoder (bodySoFar s) (payloads evs) := by
        show decRun (deliver s).decoder (bodySoFar (deliver s)) _ = _
        rw [a2, a3]
      rw [← this]; exact b1
    | data b =>
      simp only [payloads, decRun, TracePost]
      by_cases hb : b = []
      · subst hb
        obtain ⟨a1, a2, a3, a4⟩ := body_data_nil s h
        obtain ⟨b1, b2⟩ := ih _ a1 hdd'
        simp only [if_true]
        refine ⟨?_, fun x => b2 ?_⟩
        · have : decRun (step s (.data [])).decoder (bodySoFar (step s (.data []))) (payloads evs) =
              decRun s.decoder (bodySoFar s) (payloads evs) := by
            show decRun (dataReceived s []).decoder (bodySoFar (dataReceived s [])) _ = _
            rw [a2, a3]
          rw [← this]; exact b1
        · rcases x with x | x
          · exact Or.inl (by show (dataReceived s []).appDelivered = true; rw [a4]; exact x)
          · exact Or.inr (by simpa using x)
      · simp only [hb, if_false]
        have hl := decStep_live s.decoder b h.live
        cases hd : decStep s.decoder b with
        | errNow e => rw [hd] at hl; exact hl.elim
        | ok D' piece fin =>
          cases fin with
          | false =>
            obtain ⟨a1, a2, a3, a4⟩ := body_data_more s h b hb D' piece hd
            obtain ⟨b1, b2⟩ := ih _ a1 hdd'
            simp only
            refine ⟨?_, fun x => b2 ?_⟩
            · have : decRun (step s (.data b)).decoder (bodySoFar (step s (.data b))) (payloads evs) =
                  decRun D' (bodySoFar s ++ piece) (payloads evs) := by
                show decRun (dataReceived s b).decoder (bodySoFar (dataReceived s b)) _ = _
                rw [a2, a3]
              rw [← this]; exact b1
            · rcases x with x | x
              · exact Or.inl (by show (dataReceived s b).appDelivered = true; rw [a4]; exact x)
              · exact Or.inr (by simpa using x)
          | true =>
            obtain ⟨a1, a2, a3, a4⟩ := body_data_fin s h b hb D' piece hd
            obtain ⟨b1, b2, b3, b4⟩ := done_run .response evs _ a1 hdd'
            simp only
            refine ⟨⟨b1, b2.trans a2, b3.trans a3⟩, fun x => b4 ?_⟩
            rcases x with x | x
            · exact Or.inl (by show (dataReceived s b).appDelivered = true; rw [a4]; exact x)
            · exact Or.inr ⟨rfl, by simpa using x⟩
        | err e D' piece =>
          obtain ⟨a1, a2, a3, a4⟩ := body_data_err s h b hb e D' piece hd
          obtain ⟨b1, b2, b3, b4⟩ := done_run .response evs _ a1 hdd'
          simp only
          refine ⟨⟨b1, b2.trans a2, b3.trans a3⟩, fun x => b4 ?_⟩
          rcases x with x | x
          · exact Or.inl (by show (dataReceived s b).appDelivered = true; rw [a4]; exact x)
          · exact Or.inr ⟨rfl, by simpa using x⟩
    | lost r => have := hdd (.lost r) (by simp); simp [isDD] at this
    | written => have := hdd .written (by simp); simp [isDD] at this
    | writeFailed => have := hdd .writeFailed (by simp); simp [isDD] at this
    | abort => have := hdd .abort (by simp); simp [isDD] at this
    | cancel => have := hdd .cancel (by simp); simp [isDD] at this

end TwistedProps.C23
