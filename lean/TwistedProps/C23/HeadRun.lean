import TwistedProps.C23.HeadEnd
/-! C23 lemmas: `head_run` — a script of deliveries and `deliverBody` calls from the fresh protocol, against the scan of
ALL bytes delivered (segmentation independent). -/
namespace TwistedProps.C23
open Twisted.Http.Client
open Twisted.Http.Chunked (Bytes Ident Dec)

/-- what the Response has been given and told, against the decoder run over the body deliveries `bs` -/
def BodyPost (D : Decoder) (bs : List Bytes) (sF : S) : Prop := TracePost (decRun D [] bs) sF

/-- the state `sF` reached by a script of deliveries / `deliverBody` calls, against the scan of all bytes delivered -/
def HeadPost (h p d ev : Bool) (evs : List Event) (sF : S) : HeadOut → Prop
  | .more hs' tail' => sF = setHS (baseE h p d (ev || !(payloads evs).isEmpty)) hs' tail'
  | .bad e => DonePh sF (.responseFailed [e])
  | .final _ _ _ fr rest =>
    match fr with
    | .noBody => DonePh sF .response ∧ bodySoFar sF = [] ∧ bodyEnd sF = some .done ∧ (d = true → sF.appDelivered = true)
    | .body D => ∃ bs, bs.flatten = rest ∧ BodyPost D bs sF ∧ (d = true → sF.appDelivered = true)
    | _ => True
  | .tooLong => True

theorem scan_more_idem (h : Bool) (hs hs' : HS) (x tail' : Bytes) (hx : scan h hs x = .more hs' tail') :
    scan h hs' tail' = .more hs' tail' := by
  have := scan_append h [] _ x hs (Nat.le_refl _)
  rw [List.append_nil, hx] at this
  simp only [HeadOut.extend, List.append_nil] at this
  exact this.symm

theorem head_data_eq (h p d ev : Bool) (hs : HS) (tail b : Bytes) :
    dataReceived (setHS (baseE h p d ev) hs tail) b =
      match lrLoop (setHS (baseE h p d true) hs tail) (tail ++ b) with
      | .ok s => s
      | .raise e s => escape (giveUp s e) := by
  unfold dataReceived
  rw [if_neg (by rw [head_hasParser]; decide), head_parser_data]
  rfl

/-- **the head phase**: from a parser that has buffered the unterminated line `tail` in head state `hs`, a script of
    deliveries and `deliverBody` calls leads to the state the scan of ALL the bytes dictates — whatever the
    segmentation -/
theorem head_run (h p d : Bool) : ∀ (evs : List Event), (∀ e ∈ evs, isDD e = true) →
    ∀ (ev : Bool) (hs : HS) (tail : Bytes), scan h hs tail = .more hs tail →
      HeadPost h p d ev evs (run (setHS (baseE h p d ev) hs tail) evs) (scan h hs (tail ++ (payloads evs).flatten)) := by
  intro evs
  induction evs with
  | nil =>
    intro _ ev hs tail hinv
    simp only [payloads, List.flatten_nil, List.append_nil, hinv, HeadPost, run, List.foldl_nil]
    simp
  | cons e evs ih =>
    intro hdd ev hs tail hinv
    have hdd' : ∀ e' ∈ evs, isDD e' = true := fun e' he' => hdd e' (by simp [he'])
    rw [run_cons]
    cases e with
    | deliver =>
      have : step (setHS (baseE h p d ev) hs tail) .deliver = setHS (baseE h p d ev) hs tail := head_deliver h p d ev hs tail
      rw [this]
      have := ih hdd' ev hs tail hinv
      simpa [payloads, HeadPost] using this
    | data b =>
      have hsc := lrLoop_scan (baseE h p d true) rfl _ (tail ++ b) hs tail (Nat.le_refl _)
      have happ : scan h hs (tail ++ (payloads (.data b :: evs)).flatten) =
          (scan h hs (tail ++ b)).extend h (payloads evs).flatten := by
        simp only [payloads, List.flatten_cons]
        rw [← List.append_assoc]
        exact scan_append h _ _ (tail ++ b) hs (Nat.le_refl _)
      rw [happ]
      have hstep : step (setHS (baseE h p d ev) hs tail) (.data b) = _ := head_data_eq h p d ev hs tail b
      rw [hstep]
      have hiH : (baseE h p d true).isHead = h := rfl
      rw [hiH] at hsc
      cases hX : scan h hs (tail ++ b) with
      | more hs' tail' =>
        rw [hX] at hsc
        simp only at hsc
        rw [hsc]
        simp only [HeadOut.extend]
        have := ih hdd' true hs' tail' (scan_more_idem h hs hs' _ tail' hX)
        cases hY : scan h hs' (tail' ++ (payloads evs).flatten) <;> rw [hY] at this <;>
          simpa [HeadPost, payloads] using this
      | bad e =>
        rw [hX] at hsc
        obtain ⟨hs', t, hl⟩ := hsc
        rw [hl]
        simp only [HeadOut.extend, HeadPost]
        exact (done_run _ evs _ (head_giveUp h p d hs' t e) hdd').1
      | tooLong => simp only [HeadOut.extend, HeadPost]
      | final code ph conn fr rest0 =>
        rw [hX] at hsc
        obtain ⟨hfr, hni, hnb, t, hl⟩ := hsc
        rw [hl]
        simp only [HeadOut.extend, HeadPost]
        cases fr with
        | interim => trivial
        | bad e => trivial
        | noBody =>
          obtain ⟨sN, n1, n2, n3, n4, n5⟩ := head_noBody h p d code ph conn t rest0 hfr
          rw [n1]
          obtain ⟨b1, b2, b3, b4⟩ := done_run .response evs sN n2 hdd'
          exact ⟨b1, b2.trans n3, b3.trans n4, fun hd => b4 (Or.inl (n5 hd))⟩
        | body D =>
          obtain ⟨sB, m1, m2, m3, m4, m5⟩ := head_body h p d code ph conn t rest0 D hfr
          rw [m5]
          have hrun : run (match parserDataReceived sB rest0 with
              | .ok s => s
              | .raise e s => escape (giveUp s e)) evs = run sB (.data rest0 :: evs) := by
            rw [run_cons]
            show _ = run (dataReceived sB rest0) evs
            unfold dataReceived
            rw [if_neg (by rw [m1.hp]; decide)]
            rfl
          rw [hrun]
          have hdd2 : ∀ e' ∈ (Event.data rest0 :: evs), isDD e' = true := by
            intro e' he'
            simp only [List.mem_cons] at he'
            rcases he' with rfl | he'
            · rfl
            · exact hdd' e' he'
          obtain ⟨c1, c2⟩ := body_run (.data rest0 :: evs) sB m1 hdd2
          rw [m2, m3] at c1
          refine ⟨rest0 :: payloads evs, by simp, ?_, fun hd => c2 (Or.inl (by rw [m4]; exact hd))⟩
          simpa [BodyPost, payloads] using c1
    | lost r => have := hdd (.lost r) (by simp); simp [isDD] at this
    | written => have := hdd .written (by simp); simp [isDD] at this
    | writeFailed => have := hdd .writeFailed (by simp); simp [isDD] at this
    | abort => have := hdd .abort (by simp); simp [isDD] at this
    | cancel => have := hdd .cancel (by simp); simp [isDD] at this

end TwistedProps.C23
