import TwistedModel.Http.Client
/-! C23 lemmas: the control abstraction `K` of the 30-field state `S` (protocol state, the two Deferreds, which
kind of decoder, parser DONE or not, Response state) and the proof that every operation of the model acts on the
projection `proj s` as the corresponding small function on `K` (`proj` is a homomorphism).  All invariant reasoning
for the exactly-once property then happens on `K` (`TwistedProps/C23/Inv.lean`). -/
namespace TwistedProps.C23
open Twisted.Http.Client
open Twisted.Http.Chunked (Bytes Ident)

inductive DK where
  | none | identClose | other
  deriving DecidableEq, Repr

def dkOf : Decoder → DK
  | .none => .none
  | .ident d => match d.contentLength with
    | none => .identClose
    | some _ => .other
  | .chunked _ => .other

structure K where
  cstate : CState
  hasParser : Bool
  chained : Bool
  fires : List Fire
  respD : Option Fire
  dk : DK
  pdone : Bool
  rst : RState
  reqPending : Bool
  deliverNow : Bool
  appDelivered : Bool
  everReceived : Bool
  deriving DecidableEq, Repr

def proj (s : S) : K :=
  { cstate := s.cstate, hasParser := s.hasParser, chained := s.chained, fires := s.fires, respD := s.respD,
    dk := dkOf s.decoder, pdone := decide (s.pstate = .done), rst := s.rstate, reqPending := s.reqPending,
    deliverNow := s.deliverNow, appDelivered := s.appDelivered, everReceived := s.everReceived }

inductive RK where
  | ok (k : K)
  | raise (e : Exc) (k : K)

def RK.bind : RK → (K → RK) → RK
  | .ok k, f => f k
  | .raise e k, _ => .raise e k

def RK.state : RK → K
  | .ok k => k
  | .raise _ k => k

def projR : R → RK
  | .ok s => .ok (proj s)
  | .raise e s => .raise e (proj s)

theorem projR_state (r : R) : (projR r).state = proj r.state := by cases r <;> rfl

theorem projR_bind (r : R) (f : S → R) (g : K → RK) (h : ∀ s, projR (f s) = g (proj s)) :
    projR (r.bind f) = (projR r).bind g := by
  cases r with
  | ok s => exact h s
  | raise e s => rfl

/-! ### the operations on `K` -/

def deliverBodyK (k : K) : K :=
  match k.rst with
  | .initial => { k with appDelivered := true, rst := .connected }
  | .deferredClose => { k with appDelivered := true, rst := .finished }
  | _ => { k with appDelivered := true }

def bodyDataK (k : K) : RK :=
  match k.rst with
  | .initial => .ok k
  | .connected => .ok k
  | _ => .raise .runtimeError k

def bodyFinishedK (k : K) (isSome : Bool) : RK :=
  match k.rst with
  | .initial => .ok { k with rst := .deferredClose }
  | .connected => .ok { k with rst := .finished }
  | _ => .raise (if isSome then .typeError else .runtimeError) k

def fireFinK (k : K) (f : Fire) : K :=
  let k := { k with fires := k.fires ++ [f] }
  if f = .response && k.deliverNow && !k.appDelivered then deliverBodyK k else k

def fireRespK (k : K) (f : Fire) : RK :=
  match k.respD with
  | some _ => .raise .attributeError k
  | none =>
    let k := { k with respD := some f }
    .ok (if k.chained then fireFinK k f else k)

def chainK (k : K) : K :=
  let k := { k with chained := true }
  match k.respD with
  | some f => fireFinK k f
  | none => k

def finishResponseLateK (k : K) : RK :=
  match k.cstate with
  | .waiting => .ok { k with cstate := .quiescent }
  | .transmitting => .ok (chainK { k with cstate := .tar })
  | .aborting => .ok k
  | _ => .raise .runtimeError k

def parserConnectionLostK (k : K) (reason : Exc) : RK :=
  match k.dk with
  | .identClose =>
    .ok ((finishResponseLateK { k with pdone := true }).bind fun k => bodyFinishedK k true).state
  | .other => .ok (bodyFinishedK k true).state
  | .none =>
    if !k.pdone then fireRespK k (if k.everReceived then .responseFailed [reason] else .neverReceived [reason])
    else .ok k

def disconnectParserK (k : K) (reason : Exc) : RK :=
  if k.hasParser then
    let k := if k.cstate = .transmitting then chainK { k with cstate := .tar } else k
    parserConnectionLostK { k with hasParser := false } reason
  else .ok k

def finishResponseK (k : K) : RK :=
  match k.cstate with
  | .waiting =>
    let k := { k with cstate := .quiescent }
    if !k.hasParser then .ok k else disconnectParserK k .connectionDone
  | .transmitting =>
    let k := chainK { k with cstate := .tar }
    if !k.hasParser then .ok k else disconnectParserK k .connectionDone
  | .aborting => .ok k
  | _ => .raise .runtimeError k

def finishedK (k : K) : RK := finishResponseK { k with pdone := true }

inductive FK where
  | interim | noBody | bad (e : Exc) | body (dk : DK)

def fkOf : Framing → FK
  | .interim => .interim
  | .noBody => .noBody
  | .bad e => .bad e
  | .body d => .body (dkOf d)

def allHeadersReceivedK (k : K) (f : FK) : RK :=
  match f with
  | .interim => .ok { k with pdone := false }
  | .noBody => ((finishedK k).bind fun k => bodyFinishedK k false).bind fun k => fireRespK k .response
  | .bad e => .raise e k
  | .body dk => fireRespK { k with dk := dk, pdone := false } .response

def connectionLostK (k : K) (reason : Exc) : K :=
  match k.cstate with
  | .quiescent => { k with cstate := .connectionLost }
  | .generationFailed => { k with cstate := .connectionLost }
  | .tar => { k with cstate := .connectionLost }
  | .transmitting => fireFinK { k with cstate := .connectionLost } (.transmissionFailed [reason])
  | .waiting =>
    match disconnectParserK k reason with
    | .ok k => { k with cstate := .connectionLost }
    | .raise _ k => k
  | .aborting =>
    match disconnectParserK k .connectionAborted with
    | .ok k => { k with cstate := .connectionLost }
    | .raise _ k => k
  | .connectionLost => k

def abortK (k : K) : K :=
  if k.cstate = .connectionLost then k
  else
    let k := if k.cstate = .transmitting then chainK k else k
    { k with cstate := .aborting }

def writeFailedK (k : K) (why : Exc) : K :=
  if !k.reqPending then k else
  let k := { k with reqPending := false }
  if k.cstate = .transmitting then fireFinK { k with cstate := .generationFailed } (.generationFailed [why])
  else k

def writtenK (k : K) : K :=
  if !k.reqPending then k else
  let k := { k with reqPending := false }
  if k.cstate = .transmitting then chainK { k with cstate := .waiting } else k

def cancelTailK (k : K) : K := if k.fires = [] then { k with fires := [.cancelledError] } else k

def cancelK (k : K) : K :=
  if k.fires ≠ [] then k else
  cancelTailK (if k.cstate = .transmitting || k.cstate = .tar then writeFailedK k .cancelled
    else (disconnectParserK k .cancelled).state)

def deliverK (k : K) : K :=
  if k.fires = [.response] && !k.appDelivered then deliverBodyK k else k

/-! ### `proj` commutes with the operations -/

theorem proj_deliverBody (s : S) : proj (deliverBody s) = deliverBodyK (proj s) := by
  unfold deliverBody deliverBodyK
  cases h : s.rstate <;> simp [proj, h]

theorem proj_bodyData (s : S) (d : Bytes) : projR (bodyData s d) = bodyDataK (proj s) := by
  unfold bodyData bodyDataK
  cases h : s.rstate <;> simp [proj, projR, h]

theorem proj_bodyFinished (s : S) (r : Option BodyEnd) : projR (bodyFinished s r) = bodyFinishedK (proj s) r.isSome := by
  unfold bodyFinished bodyFinishedK
  cases h : s.rstate <;> simp [proj, projR, h]

theorem bodyFinishedK_state (k : K) (a b : Bool) : (bodyFinishedK k a).state = (bodyFinishedK k b).state := by
  unfold bodyFinishedK
  cases k.rst <;> rfl

theorem proj_fireFin (s : S) (f : Fire) : proj (fireFin s f) = fireFinK (proj s) f := by
  unfold fireFin fireFinK
  simp only
  split
  · rename_i h
    rw [proj_deliverBody]
    have : (f = .response && (proj s).deliverNow && !(proj s).appDelivered) = true := h
    simp only [this, if_true]
    rfl
  · rename_i h
    have : ¬ ((f = .response && (proj s).deliverNow && !(proj s).appDelivered) = true) := h
    simp only [this]
    rfl

theorem proj_fireResp (s : S) (f : Fire) : projR (fireResp s f) = fireRespK (proj s) f := by
  unfold fireResp fireRespK
  cases h : s.respD with
  | some x => simp [proj, projR, h]
  | none =>
    have h' : (proj s).respD = none := h
    simp only [h', projR]
    split
    · rename_i hc
      have hk : (proj s).chained = true := hc
      rw [if_pos hk, proj_fireFin]
      rfl
    · rename_i hc
      have hk : ¬ (proj s).chained = true := hc
      rw [if_neg hk]
      rfl

theorem proj_chain (s : S) : proj (chain s) = chainK (proj s) := by
  unfold chain chainK
  cases h : s.respD with
  | none => simp [proj, h]
  | some x =>
    have h' : (proj s).respD = some x := h
    simp only [h']
    rw [proj_fireFin]
    rfl


@[simp] theorem proj_cstate (s : S) : (proj s).cstate = s.cstate := rfl
@[simp] theorem proj_hasParser (s : S) : (proj s).hasParser = s.hasParser := rfl
@[simp] theorem proj_fires (s : S) : (proj s).fires = s.fires := rfl
@[simp] theorem proj_reqPending (s : S) : (proj s).reqPending = s.reqPending := rfl
@[simp] theorem proj_appDelivered (s : S) : (proj s).appDelivered = s.appDelivered := rfl

theorem swallow_eq (r : R) : swallow r = r.state := by cases r <;> rfl

theorem proj_finishResponseLate (s : S) : projR (finishResponseLate s) = finishResponseLateK (proj s) := by
  unfold finishResponseLate finishResponseLateK
  cases h : s.cstate <;> simp only [proj_cstate, h, projR]
  · rw [proj_chain]; rfl
  · rfl

theorem proj_swallow (r : R) : proj (swallow r) = (projR r).state := by cases r <;> rfl

theorem proj_parserConnectionLost (s : S) (reason : Exc) :
    projR (parserConnectionLost s reason) = parserConnectionLostK (proj s) reason := by
  unfold parserConnectionLost parserConnectionLostK
  cases hd : s.decoder with
  | none =>
    have hk : (proj s).dk = .none := by simp [proj, dkOf, hd]
    simp only [hk]
    by_cases hp : s.pstate = .done
    · have hp' : (proj s).pdone = true := by simp [proj, hp]
      simp [hp, hp', projR]
    · have hp' : (proj s).pdone = false := by simp [proj, hp]
      simp only [hp', ne_eq, hp, not_false_eq_true, if_true, Bool.not_false]
      rw [proj_fireResp]
      rfl
  | ident d =>
    cases hcl : d.contentLength with
    | none =>
      have hk : (proj s).dk = .identClose := by simp [proj, dkOf, hd, hcl]
      simp only [hk, hcl, projR]
      rw [proj_swallow, projR_bind _ _ (fun k => bodyFinishedK k true) (fun s => proj_bodyFinished s _),
        proj_finishResponseLate]
      simp [proj, dkOf]
    | some n =>
      have hk : (proj s).dk = .other := by simp [proj, dkOf, hd, hcl]
      simp only [hk, hcl]
      split <;> simp only [projR] <;> rw [proj_swallow, proj_bodyFinished]
      · simp [proj, dkOf, hd, hcl]
      · rw [bodyFinishedK_state _ _ true]; simp [proj, dkOf, hd, hcl]
  | chunked d =>
    have hk : (proj s).dk = .other := by simp [proj, dkOf, hd]
    simp only [hk]
    split <;> simp only [projR] <;> rw [proj_swallow, proj_bodyFinished]
    · rfl
    · rw [bodyFinishedK_state _ _ true]

theorem proj_upd_dp (x : S) : proj { x with hasParser := false, proxying := false } = { proj x with hasParser := false } := rfl
theorem proj_upd_cs (x : S) (c : CState) : proj { x with cstate := c } = { proj x with cstate := c } := rfl

theorem proj_disconnectParser (s : S) (reason : Exc) :
    projR (disconnectParser s reason) = disconnectParserK (proj s) reason := by
  unfold disconnectParser disconnectParserK
  by_cases hp : s.hasParser = true
  · rw [if_pos hp, if_pos (show (proj s).hasParser = true from hp)]
    by_cases hc : s.cstate = .transmitting
    · simp only [if_pos hc, if_pos (show (proj s).cstate = .transmitting from hc)]
      rw [proj_parserConnectionLost, proj_upd_dp, proj_chain, proj_upd_cs]
    · simp only [if_neg hc, if_neg (show ¬ (proj s).cstate = .transmitting from hc)]
      rw [proj_parserConnectionLost, proj_upd_dp]
  · rw [if_neg hp, if_neg (show ¬ (proj s).hasParser = true from hp)]; rfl

theorem proj_giveUp (s : S) (reason : Exc) : projR (giveUp s reason) = disconnectParserK (proj s) reason := by
  unfold giveUp
  rw [proj_disconnectParser]; rfl

theorem fr_tail (s1 : S) (c : Bool) :
    projR (if !s1.hasParser then .ok s1
      else if c then giveUp s1 .connectionDone
      else disconnectParser { s1 with paused := false, quiet := s1.quiet + 1,
                                      disconnecting := s1.disconnecting || s1.qRaises } .connectionDone) =
    if !(proj s1).hasParser then .ok (proj s1) else disconnectParserK (proj s1) .connectionDone := by
  by_cases hp : (!s1.hasParser) = true
  · rw [if_pos hp, if_pos (show (!(proj s1).hasParser) = true from hp)]; rfl
  · rw [if_neg hp, if_neg (show ¬ (!(proj s1).hasParser) = true from hp)]
    cases c
    · rw [if_neg (by simp), proj_disconnectParser]; rfl
    · rw [if_pos rfl, proj_giveUp]

theorem proj_finishResponse (s : S) : projR (finishResponse s) = finishResponseK (proj s) := by
  unfold finishResponse finishResponseK
  cases h : s.cstate <;> rw [show (proj s).cstate = _ from h]
  · rfl
  · refine Eq.trans (fr_tail (chain { s with cstate := .tar }) _) ?_
    rw [proj_chain, proj_upd_cs]
  · rfl
  · rfl
  · exact fr_tail { s with cstate := .quiescent } _
  · rfl
  · rfl

theorem proj_finished (s : S) : projR (finished s) = finishedK (proj s) := by
  unfold finished finishedK
  rw [proj_finishResponse]
  have : proj { s with pstate := .done } = { proj s with pdone := true } := by simp [proj]
  rw [this]

theorem proj_allHeadersReceived (s : S) :
    projR (allHeadersReceived s) = allHeadersReceivedK (proj s) (fkOf (framing s.isHead s.code s.connHeaders)) := by
  unfold allHeadersReceived allHeadersReceivedK
  cases framing s.isHead s.code s.connHeaders with
  | interim => simp [fkOf, projR, proj]
  | noBody =>
    simp only [fkOf]
    rw [projR_bind _ _ (fun k => fireRespK k .response) (fun s => proj_fireResp s _),
      projR_bind _ _ (fun k => bodyFinishedK k false) (fun s => proj_bodyFinished s none), proj_finished]
  | bad e => simp [fkOf, projR]
  | body d =>
    simp only [fkOf]
    rw [proj_fireResp]
    have : proj { s with paused := if s.proxying then true else s.paused, decoder := d, pstate := .body, lineMode := false } =
        { proj s with dk := dkOf d, pdone := false } := by simp [proj]
    rw [this]


theorem proj_connectionLost (s : S) (reason : Exc) : proj (connectionLost s reason) = connectionLostK (proj s) reason := by
  unfold connectionLost connectionLostK
  cases h : s.cstate <;> rw [show (proj s).cstate = _ from h]
  · rfl
  · exact proj_fireFin { s with cstate := .connectionLost } _
  · rfl
  · rfl
  · show proj (match disconnectParser s reason with | .ok s => _ | r => escape r) = _
    rw [← proj_disconnectParser s reason]
    cases disconnectParser s reason <;> rfl
  · show proj (match disconnectParser s .connectionAborted with | .ok s => _ | r => escape r) = _
    rw [← proj_disconnectParser s .connectionAborted]
    cases disconnectParser s .connectionAborted <;> rfl
  · simp [proj, h]

theorem proj_abort (s : S) : proj (abort s) = abortK (proj s) := by
  unfold abort abortK
  by_cases h : s.cstate = .connectionLost
  · rw [if_pos h, if_pos (show (proj s).cstate = _ from h)]
  · rw [if_neg h, if_neg (show ¬ (proj s).cstate = _ from h)]
    by_cases ht : s.cstate = .transmitting
    · show proj { (if s.cstate = .transmitting then chain { s with disconnecting := true } else _) with cstate := .aborting } =
        { (if (proj s).cstate = .transmitting then chainK (proj s) else _) with cstate := .aborting }
      rw [if_pos ht, if_pos (show (proj s).cstate = _ from ht), proj_upd_cs, proj_chain]
      rfl
    · show proj { (if s.cstate = .transmitting then _ else ({ s with disconnecting := true } : S)) with cstate := .aborting } =
        { (if (proj s).cstate = .transmitting then _ else proj s) with cstate := .aborting }
      rw [if_neg ht, if_neg (show ¬ (proj s).cstate = _ from ht)]
      rfl

theorem proj_writeFailed (s : S) (why : Exc) : proj (writeFailed s why) = writeFailedK (proj s) why := by
  unfold writeFailed writeFailedK
  by_cases hq : (!s.reqPending) = true
  · rw [if_pos hq, if_pos (show (!(proj s).reqPending) = true from hq)]
  · rw [if_neg hq, if_neg (show ¬ (!(proj s).reqPending) = true from hq)]
    by_cases ht : s.cstate = .transmitting
    · show proj (if s.cstate = .transmitting then _ else _) = (if (proj s).cstate = .transmitting then _ else _)
      rw [if_pos ht, if_pos (show (proj s).cstate = _ from ht), proj_fireFin]
      rfl
    · show proj (if s.cstate = .transmitting then _ else _) = (if (proj s).cstate = .transmitting then _ else _)
      rw [if_neg ht, if_neg (show ¬ (proj s).cstate = _ from ht)]
      rfl

theorem proj_written (s : S) : proj (written s) = writtenK (proj s) := by
  unfold written writtenK
  by_cases hq : (!s.reqPending) = true
  · rw [if_pos hq, if_pos (show (!(proj s).reqPending) = true from hq)]
  · rw [if_neg hq, if_neg (show ¬ (!(proj s).reqPending) = true from hq)]
    by_cases ht : s.cstate = .transmitting
    · show proj (if s.cstate = .transmitting then _ else _) = (if (proj s).cstate = .transmitting then _ else _)
      rw [if_pos ht, if_pos (show (proj s).cstate = _ from ht), proj_chain]
      rfl
    · show proj (if s.cstate = .transmitting then _ else _) = (if (proj s).cstate = .transmitting then _ else _)
      rw [if_neg ht, if_neg (show ¬ (proj s).cstate = _ from ht)]
      rfl

theorem proj_deliver (s : S) : proj (deliver s) = deliverK (proj s) := by
  unfold deliver deliverK
  by_cases h : (decide (s.fires = [.response]) && !s.appDelivered) = true
  · rw [if_pos h, if_pos (show (decide ((proj s).fires = [.response]) && !(proj s).appDelivered) = true from h), proj_deliverBody]
  · rw [if_neg h, if_neg (show ¬ (decide ((proj s).fires = [.response]) && !(proj s).appDelivered) = true from h)]

def cancelTail (x : S) : S := if x.fires = [] then { x with fires := [.cancelledError] } else x

theorem proj_cancelTail (x : S) : proj (cancelTail x) = cancelTailK (proj x) := by
  unfold cancelTail cancelTailK
  by_cases h : x.fires = []
  · rw [if_pos h, if_pos (show (proj x).fires = [] from h)]; rfl
  · rw [if_neg h, if_neg (show ¬ (proj x).fires = [] from h)]

theorem proj_cancel (s : S) : proj (cancel s) = cancelK (proj s) := by
  unfold cancelK
  show proj (if s.fires ≠ [] then s else cancelTail (if (s.cstate = .transmitting || s.cstate = .tar) then writeFailed s .cancelled
      else escape (disconnectParser { s with aborted := true, disconnecting := true } .cancelled))) = _
  by_cases hf : s.fires ≠ []
  · rw [if_pos hf, if_pos (show (proj s).fires ≠ [] from hf)]
  · rw [if_neg hf, if_neg (show ¬ (proj s).fires ≠ [] from hf), proj_cancelTail]
    by_cases hc : (decide (s.cstate = .transmitting) || decide (s.cstate = .tar)) = true
    · rw [if_pos hc, if_pos (show (decide ((proj s).cstate = .transmitting) || decide ((proj s).cstate = .tar)) = true from hc),
        proj_writeFailed]
    · rw [if_neg hc, if_neg (show ¬ (decide ((proj s).cstate = .transmitting) || decide ((proj s).cstate = .tar)) = true from hc)]
      have := proj_disconnectParser { s with aborted := true, disconnecting := true } .cancelled
      rw [show (proj s) = proj { s with aborted := true, disconnecting := true } from rfl, ← this]
      cases disconnectParser { s with aborted := true, disconnecting := true } .cancelled <;> rfl

end TwistedProps.C23
