import TwistedProps.C23.HeadBase
/-! C23 lemmas: `allHeadersReceived` evaluated at the end of the head: no body (`head_noBody`) / switch to the body
phase (`head_body`). -/
namespace TwistedProps.C23
open Twisted.Http.Client
open Twisted.Http.Chunked (Bytes Ident Dec)

/-- HEAD / 204 / 304 / `Content-Length: 0`: the response is complete with its head -/
theorem head_noBody (h p d : Bool) (code : Int) (ph : Option Bytes) (conn : List (Bytes × Bytes)) (t rest : Bytes)
    (hf : framing h code conn = .noBody) :
    ∃ sN, lrTail (headDone (baseE h p d true) code ph conn t) rest = .ok sN ∧ DonePh sN .response ∧
      bodySoFar sN = [] ∧ bodyEnd sN = some .done ∧ (d = true → sN.appDelivered = true) := by
  have hf' : framing (headDone (baseE h p d true) code ph conn t).isHead (headDone (baseE h p d true) code ph conn t).code
      (headDone (baseE h p d true) code ph conn t).connHeaders = .noBody := hf
  have key : ∃ sN, lrTail (headDone (baseE h p d true) code ph conn t) rest = .ok sN ∧
      sN.hasParser = false ∧ sN.fires = [.response] ∧ sN.cstate = .quiescent ∧ RespOK sN ∧
      bodySoFar sN = [] ∧ bodyEnd sN = some .done ∧ sN.appDelivered = d ∧ sN.deliverNow = d := by
    simp only [lrTail, allHeadersReceived, hf']
    cases p <;> cases d <;> cases hc : hasClose conn <;>
      simp [finished, finishResponse, giveUp, disconnectParser, parserConnectionLost, bodyFinished, fireResp, fireFin,
        deliverBody, R.bind, headDone, setHS, baseE, Twisted.Http.Client.init, hc, RespOK, bodySoFar, bodyEnd]
  obtain ⟨sN, h1, h2, h3, h4, h5, h6, h7, h8, h9⟩ := key
  exact ⟨sN, h1, ⟨h2, h3, Or.inr (Or.inl h4), h5, fun _ hx => by rw [h8, ← h9]; exact hx⟩, h6, h7, fun hd => by rw [h8]; exact hd⟩


theorem lrLoop_raw (s : S) (buf : Bytes) (h : s.lineMode = false) : lrLoop s buf = lrLoop { s with buffer := [] } buf := by
  rw [lrLoop]
  conv => rhs; rw [lrLoop]
  simp [h]

/-- the head is complete and announces a body: the parser switches to the body phase (the application gets the
    response now) and treats what followed the head in this delivery as the first delivery of the body -/
theorem head_body (h p d : Bool) (code : Int) (ph : Option Bytes) (conn : List (Bytes × Bytes)) (t rest : Bytes)
    (D : Decoder) (hf : framing h code conn = .body D) :
    ∃ sB, BodyPh sB ∧ sB.decoder = D ∧ bodySoFar sB = [] ∧ sB.appDelivered = d ∧
      lrTail (headDone (baseE h p d true) code ph conn t) rest = parserDataReceived sB rest := by
  have hf' : framing (headDone (baseE h p d true) code ph conn t).isHead (headDone (baseE h p d true) code ph conn t).code
      (headDone (baseE h p d true) code ph conn t).connHeaders = .body D := hf
  have hlive := framing_body_live h code conn D hf
  cases d with
  | false =>
    refine ⟨{ headDone (baseE h p false true) code ph conn t with
                paused := true, decoder := D, pstate := .body, lineMode := false, respD := some .response,
                fires := [.response], buffer := [] }, ?_, rfl, rfl, rfl, ?_⟩
    · refine ⟨rfl, rfl, rfl, rfl, rfl, rfl, rfl, rfl, Or.inl rfl, ?_, (fun x => by cases x), hlive⟩
      simp [RespOK, headDone, setHS, baseE, Twisted.Http.Client.init]
    · simp only [lrTail, allHeadersReceived, hf']
      simp only [parserDataReceived, List.nil_append]
      simp [fireResp, fireFin, headDone, setHS, baseE, Twisted.Http.Client.init]
      rw [lrLoop_raw _ _ rfl]
  | true =>
    refine ⟨{ headDone (baseE h p true true) code ph conn t with
                paused := false, decoder := D, pstate := .body, lineMode := false, respD := some .response,
                fires := [.response], buffer := [], appDelivered := true, made := 1, rstate := .connected }, ?_, rfl,
              rfl, rfl, ?_⟩
    · refine ⟨rfl, rfl, rfl, rfl, rfl, rfl, rfl, rfl, Or.inr rfl, ?_, fun _ => rfl, hlive⟩
      simp [RespOK, headDone, setHS, baseE, Twisted.Http.Client.init]
    · simp only [lrTail, allHeadersReceived, hf']
      simp only [parserDataReceived, List.nil_append]
      simp [fireResp, fireFin, deliverBody, headDone, setHS, baseE, Twisted.Http.Client.init]
      rw [lrLoop_raw _ _ rfl]

end TwistedProps.C23
