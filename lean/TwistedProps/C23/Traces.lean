import TwistedProps.C23.Whole
/-! C23 lemmas: the decoder traces in closed form (identity decoders) and through the C22 run `feed`
(`decRun_chunked_feed`, then `decode_encode` / `data_loss_on_truncation`). -/
namespace TwistedProps.C23
open Twisted.Http.Client
open Twisted.Http.Chunked (Bytes Ident Dec)
open TwistedProps.C22 (Chunk encode body lineOK trailerOK trailerSize)

/-! ### the decoder traces in closed form / through the C22 theorems -/

/-- **Content-Length body**: over any segmentation `bs` of the body bytes received, the identity decoder emits exactly
    their first `k` bytes and finishes iff at least `k` bytes arrived (C22 `identity_decoder_exact` /
    `identity_data_loss`, here for the parser's driving discipline) -/
theorem decRun_ident_len : ∀ (bs : List Bytes) (d : Ident) (k : Nat) (out : Bytes) (r : Exc),
    d.active = true → d.contentLength = some k → k ≠ 0 →
    (decRun (.ident d) out bs).body = out ++ bs.flatten.take k ∧
    (decRun (.ident d) out bs).bodyEnd r = if k ≤ bs.flatten.length then .done else .failed [r, .dataLoss] := by
  intro bs
  induction bs with
  | nil =>
    intro d k out r ha hk h0
    have : ¬ k ≤ 0 := by omega
    simp [decRun, Trace.body, Trace.bodyEnd, lostEnd, hk, h0, this]
  | cons b bs ih =>
    intro d k out r ha hk h0
    by_cases hb : b = []
    · subst hb
      simpa [decRun] using ih d k out r ha hk h0
    · simp only [decRun, hb, if_false, decStep, Ident.dataReceived, ha, hk]
      by_cases hlt : b.length < k
      · simp only [Bool.not_true, Bool.false_eq_true, if_false, hlt, if_true, Bool.and_false]
        have h0' : k - b.length ≠ 0 := by omega
        obtain ⟨i1, i2⟩ := ih { contentLength := some (k - b.length), active := true, data := d.data ++ b, fin := d.fin }
          (k - b.length) (out ++ (d.data ++ b).drop d.data.length) r rfl rfl h0'
        rw [i1, i2]
        have hdrop : (d.data ++ b).drop d.data.length = b := by simp
        rw [hdrop]
        refine ⟨?_, ?_⟩
        · simp only [List.flatten_cons, List.append_assoc]
          rw [List.take_append, List.take_of_length_le (show b.length ≤ k by omega)]
        · simp only [List.flatten_cons, List.length_append]
          by_cases hc : k - b.length ≤ bs.flatten.length
          · have : k ≤ b.length + bs.flatten.length := by omega
            rw [if_pos hc, if_pos this]
          · have : ¬ k ≤ b.length + bs.flatten.length := by omega
            rw [if_neg hc, if_neg this]
      · simp only [Bool.not_true, Bool.false_eq_true, if_false, hlt, Bool.not_false, Bool.and_true]
        have hdrop : (d.data ++ b.take k).drop d.data.length = b.take k := by simp
        simp only [Trace.body, Trace.bodyEnd, hdrop, List.flatten_cons, List.length_append]
        refine ⟨?_, ?_⟩
        · rw [List.take_append_of_le_length (by omega)]
        · have : k ≤ b.length + bs.flatten.length := by omega
          rw [if_pos this]

/-- **close-delimited body**: everything received is the body; the end is `PotentialDataLoss` -/
theorem decRun_ident_close : ∀ (bs : List Bytes) (d : Ident) (out : Bytes) (r : Exc),
    d.active = true → d.contentLength = none →
    (decRun (.ident d) out bs).body = out ++ bs.flatten ∧ (decRun (.ident d) out bs).bodyEnd r = .potentialDataLoss := by
  intro bs
  induction bs with
  | nil =>
    intro d out r ha hk
    simp [decRun, Trace.body, Trace.bodyEnd, lostEnd, hk]
  | cons b bs ih =>
    intro d out r ha hk
    by_cases hb : b = []
    · subst hb
      simpa [decRun] using ih d out r ha hk
    · simp only [decRun, hb, if_false, decStep, Ident.dataReceived, ha, hk]
      simp only [Bool.not_true, Bool.false_eq_true, if_false, Bool.and_false]
      obtain ⟨i1, i2⟩ := ih { contentLength := none, active := true, data := d.data ++ b, fin := d.fin }
        (out ++ (d.data ++ b).drop d.data.length) r rfl rfl
      rw [i1, i2]
      simp

theorem flatten_filter_ne (bs : List Bytes) : (bs.filter (· ≠ [])).flatten = bs.flatten := by
  induction bs with
  | nil => rfl
  | cons b bs ih =>
    rw [List.filter_cons]
    split
    · rw [List.flatten_cons, List.flatten_cons, ih]
    · rename_i hb
      have : b = [] := by simpa using hb
      subst this
      simpa using ih

theorem prefix_drop {α} (a b : List α) (h : a <+: b) : a ++ b.drop a.length = b := by
  obtain ⟨t, rfl⟩ := h
  simp

/-- **chunked body, the link to the C22 decoder run**: the trace of the decoder as the client's parser drives it is the
    C22 run `feed` over the non-empty deliveries -/
theorem decRun_chunked_feed : ∀ (bs : List Bytes) (d : Dec), d.state ≠ .finished →
    match Twisted.Http.Chunked.feed d (bs.filter (· ≠ [])) with
    | .ok (d', _) =>
      decRun (.chunked d) d.data bs = if d'.state = .finished then .done d'.data else .live (.chunked d') d'.data
    | .error (e, d') =>
      decRun (.chunked d) d.data bs =
        .failed (if e = .runtime then .runtimeError else .malformedChunk) (.chunked d') d'.data := by
  intro bs
  induction bs with
  | nil =>
    intro d hd
    simp [Twisted.Http.Chunked.feed, decRun, hd]
  | cons b bs ih =>
    intro d hd
    by_cases hb : b = []
    · subst hb
      simpa [decRun] using ih d hd
    · have hfil : (b :: bs).filter (· ≠ []) = b :: bs.filter (· ≠ []) := by simp [List.filter_cons, hb]
      rw [hfil]
      simp only [Twisted.Http.Chunked.feed, hd, if_false, decRun, hb, decStep]
      have hm := chunked_data_mono d b
      cases hr : Twisted.Http.Chunked.dataReceived d b with
      | error x =>
        obtain ⟨e, d'⟩ := x
        simp only [Except.bind]
        rw [prefix_drop _ _ (hm.2 e d' hr)]
      | ok d' =>
        simp only [Except.bind]
        by_cases hf : d'.state = .finished
        · rw [TwistedProps.C22.feed_finished d' _ hf]
          have hfin : (decide (d.state ≠ .finished) && decide (d'.state = .finished)) = true := by simp [hd, hf]
          rw [hfin]
          simp only [hf, if_true]
          rw [prefix_drop _ _ (hm.1 d' hr)]
        · have hfin : (decide (d.state ≠ .finished) && decide (d'.state = .finished)) = false := by simp [hf]
          simp only [hfin]
          rw [prefix_drop _ _ (hm.1 d' hr)]
          exact ih d' hf


/-- **chunked body, complete** (C22 `decode_encode`): whatever the segmentation of `encode chunks last trailers ++ extra`,
    the decoder emits exactly the chunk data and finishes -/
theorem decRun_chunked_complete (chunks : List Chunk) (last : Bytes) (trailers : List Bytes) (extra : Bytes)
    (bs : List Bytes) (r : Exc)
    (hc : ∀ c ∈ chunks, c.wf) (hl : lineOK last 0) (ht : ∀ t ∈ trailers, trailerOK t)
    (hT : trailerSize trailers ≤ Twisted.Http.Chunked.maxTrailerHeadersSize)
    (hbs : bs.flatten = encode chunks last trailers ++ extra) :
    (decRun (.chunked Twisted.Http.Chunked.init) [] bs).body = body chunks ∧
    (decRun (.chunked Twisted.Http.Chunked.init) [] bs).bodyEnd r = .done := by
  obtain ⟨s, rest, e, h1, h2, _, h4, _, _⟩ :=
    TwistedProps.C22.decode_encode chunks last trailers extra (bs.filter (· ≠ [])) hc hl ht hT
      (by rw [flatten_filter_ne]; exact hbs)
  have := decRun_chunked_feed bs Twisted.Http.Chunked.init (by decide)
  rw [h1] at this
  simp only [h2, if_true] at this
  have e : decRun (.chunked Twisted.Http.Chunked.init) [] bs = .done s.data := this
  rw [e]
  exact ⟨h4, rfl⟩

/-- **chunked body, truncated** (C22 `data_loss_on_truncation`): if only a proper prefix `p` of the encoding arrived, the
    decoder — in the state `dd` the C22 run over the received bytes leaves it in — has not finished (`noMoreData()` raises
    `_DataLoss`), has emitted `dd.data`, and the end is `ResponseFailed([r, _DataLoss])` -/
theorem decRun_chunked_truncated (chunks : List Chunk) (last : Bytes) (trailers : List Bytes) (p q : Bytes)
    (bs : List Bytes) (r : Exc)
    (hc : ∀ c ∈ chunks, c.wf) (hl : lineOK last 0) (ht : ∀ t ∈ trailers, trailerOK t)
    (hT : trailerSize trailers ≤ Twisted.Http.Chunked.maxTrailerHeadersSize)
    (hpq : p ++ q = encode chunks last trailers) (hq : q ≠ []) (hbs : bs.flatten = p) :
    ∃ dd, Twisted.Http.Chunked.feedAll Twisted.Http.Chunked.init (bs.filter (· ≠ [])) = .ok dd ∧
      dd.state ≠ .finished ∧ Twisted.Http.Chunked.noMoreData dd = .error (.dataLoss, dd) ∧
      (decRun (.chunked Twisted.Http.Chunked.init) [] bs).body = dd.data ∧
      (decRun (.chunked Twisted.Http.Chunked.init) [] bs).bodyEnd r = .failed [r, .dataLoss] := by
  have hcs : (bs.filter (· ≠ [])).flatten = p := by rw [flatten_filter_ne]; exact hbs
  obtain ⟨dd, d1, d2, _, d4⟩ :=
    TwistedProps.C22.data_loss_on_truncation chunks last trailers p q _ hc hl ht hT hpq hq hcs
  refine ⟨dd, d1, d2, d4, ?_⟩
  -- the disciplined run `feed` agrees with `feedAll` as the decoder never finishes
  have hfa := TwistedProps.C22.feedAll_eq_feed_bind Twisted.Http.Chunked.init (bs.filter (· ≠ []))
  rw [d1] at hfa
  have := decRun_chunked_feed bs Twisted.Http.Chunked.init (by decide)
  cases hf : Twisted.Http.Chunked.feed Twisted.Http.Chunked.init (bs.filter (· ≠ [])) with
  | error x => rw [hf] at hfa; simp [Except.bind] at hfa
  | ok pr =>
    obtain ⟨s1, rest1⟩ := pr
    rw [hf] at hfa this
    simp only [Except.bind] at hfa
    simp only at this
    have hs1 : s1.state ≠ .finished ∧ s1 = dd := by
      by_cases hr : rest1 = []
      · subst hr
        simp [Twisted.Http.Chunked.feedAll] at hfa
        exact ⟨by rw [← hfa]; exact d2, hfa.symm⟩
      · -- the decoder finished inside the prefix: then the whole encoding would have extra bytes
        exfalso
        have hfin := TwistedProps.C22.feed_rest_finished _ _ _ _ hf hr
        have hflat : ((bs.filter (· ≠ [])) ++ [q]).flatten = encode chunks last trailers ++ [] := by
          rw [List.flatten_append, hcs]; simp [hpq]
        obtain ⟨s, rest, e, g1, _, _, _, _, g6⟩ :=
          TwistedProps.C22.decode_encode chunks last trailers [] _ hc hl ht hT hflat
        rw [TwistedProps.C22.feed_append, hf] at g1
        simp only [Except.bind, hr, if_false] at g1
        simp at g1
        have he : e = [] ∧ rest.flatten = [] := by simpa using g6
        have := he.2; rw [← g1.2] at this; simp at this; exact hq this.2
    obtain ⟨hnf, rfl⟩ := hs1
    simp only [hnf, if_false] at this
    have e : decRun (.chunked Twisted.Http.Chunked.init) [] bs = .live (.chunked s1) s1.data := this
    rw [e]
    exact ⟨rfl, by simp [Trace.bodyEnd, lostEnd, hnf]⟩

end TwistedProps.C23
