import TwistedModel.Http.Client
import TwistedProps.C23.Split
/-! C23 lemmas: the head of a response as a PURE scan of the byte stream, independent of the segmentation.

`scan isHead hs buf` reads `buf` line by line with the parser's own rules (`parseStatus`, `headerReceived`, obs-fold
continuation lines, `framing`; 1xx responses are skipped) and says whether the stream contains a complete, well-formed
head (`.final`, with the framing of the body and the bytes that follow the head), is malformed (`.bad e`: the class the
parser raises), is still incomplete (`.more`, with the unterminated last line) or exceeds `LineReceiver.MAX_LENGTH`.

* `scan_append` — segmentation independence: scanning `a ++ b` = scanning `a`, then going on with `b`.
* `lrLoop_scan` — the line loop of the model (`lrLoop`, iterating `lrLoop_line` / `lrLoop_partial` over the head lines)
  computes exactly `scan`. -/
namespace TwistedProps.C23
open Twisted.Http.Client
open Twisted.Http.Chunked (Bytes)

/-- the parser's head state: `state` (STATUS / HEADER), status code, pending (foldable) header, connection headers -/
structure HS where
  inHeader : Bool
  code : Int
  partialHeader : Option Bytes
  conn : List (Bytes × Bytes)
  deriving DecidableEq, Repr

/-- a parser that has seen nothing -/
def hs0 : HS := { inHeader := false, code := 0, partialHeader := none, conn := [] }

inductive LineOut where
  | cont (hs : HS)                                  -- go on with the next line
  | bad (e : Exc)                                   -- the parser raises `e`
  | blank (code : Int) (ph : Option Bytes) (conn : List (Bytes × Bytes))   -- the empty line: `allHeadersReceived`
  deriving DecidableEq, Repr

/-- the line without the trailing CR (`if line[-1:] == b"\r": line = line[:-1]`) -/
def stripCR (line : Bytes) : Bytes := if line.getLast? = some 13 then line.dropLast else line

/-- one line of the head, by the parser's rules (`HTTPParser.lineReceived`, pure part) -/
def hsLine (isHead : Bool) (hs : HS) (line0 : Bytes) : LineOut :=
  let line := stripCR line0
  if !hs.inHeader then
    match parseStatus line with
    | .error e => .bad e
    | .ok c => .cont { hs with code := c, inHeader := true }
  else if line = [] || !(line.head? = some 32 || line.head? = some 9) then
    match (match hs.partialHeader with
           | none => Except.ok hs.conn
           | some p => headerReceived isHead hs.conn p) with
    | .error e => .bad e
    | .ok conn =>
      if line = [] then .blank hs.code hs.partialHeader conn
      else .cont { hs with conn := conn, partialHeader := some line }
  else match hs.partialHeader with
    | none => .bad .attributeError
    | some p => .cont { hs with partialHeader := some (p ++ line) }

inductive HeadOut where
  | more (hs : HS) (tail : Bytes)       -- no complete head yet; `tail` is the unterminated last line
  | bad (e : Exc)                        -- malformed head: the parser raises `e`
  | final (code : Int) (ph : Option Bytes) (conn : List (Bytes × Bytes)) (fr : Framing) (rest : Bytes)
                                         -- complete well-formed head of a final response; `rest` follows it
  | tooLong                              -- a line of more than `MAX_LENGTH` bytes
  deriving DecidableEq, Repr

/-- the head of the response in the byte stream `buf` -/
def scan (isHead : Bool) (hs : HS) (buf : Bytes) : HeadOut :=
  match _h : splitLF buf with
  | none => if buf.length > MAX_LENGTH then .tooLong else .more hs buf
  | some (line, rest) =>
    if line.length > MAX_LENGTH then .tooLong else
    match hsLine isHead hs line with
    | .bad e => .bad e
    | .cont hs' => scan isHead hs' rest
    | .blank code ph conn =>
      match framing isHead code conn with
      | .interim => scan isHead { inHeader := false, code := code, partialHeader := none, conn := [] } rest
      | .bad e => .bad e
      | fr => .final code ph conn fr rest
termination_by buf.length
decreasing_by all_goals exact splitLF_length _ _ _ _h

/-! ### segmentation independence -/

theorem splitLF_append_some (a b l r : Bytes) (h : splitLF a = some (l, r)) : splitLF (a ++ b) = some (l, r ++ b) := by
  induction a generalizing l r with
  | nil => simp [splitLF] at h
  | cons c rest ih =>
    simp only [splitLF, List.cons_append] at h ⊢
    split
    · rename_i hc; simp [hc] at h; obtain ⟨rfl, rfl⟩ := h; rfl
    · rename_i hc
      simp only [hc, if_false] at h
      cases hs : splitLF rest with
      | none => simp [hs] at h
      | some p =>
        obtain ⟨l', r'⟩ := p
        simp only [hs] at h
        simp at h; obtain ⟨rfl, rfl⟩ := h
        simp [ih l' r' hs]

theorem splitLF_some_eq (a l r : Bytes) (h : splitLF a = some (l, r)) : a = l ++ 10 :: r ∧ (10 : UInt8) ∉ l := by
  induction a generalizing l r with
  | nil => simp [splitLF] at h
  | cons c rest ih =>
    simp only [splitLF] at h
    split at h
    · rename_i hc; simp at h; obtain ⟨rfl, rfl⟩ := h; simp [hc]
    · rename_i hc
      cases hs : splitLF rest with
      | none => simp [hs] at h
      | some p =>
        obtain ⟨l', r'⟩ := p
        simp only [hs] at h
        simp at h; obtain ⟨rfl, rfl⟩ := h
        obtain ⟨h1, h2⟩ := ih l' r' hs
        refine ⟨by rw [h1]; simp, ?_⟩
        simp only [List.mem_cons, not_or]
        exact ⟨fun e => hc e.symm, h2⟩

theorem splitLF_none_iff (a : Bytes) : splitLF a = none ↔ (10 : UInt8) ∉ a := by
  constructor
  · intro h
    induction a with
    | nil => simp
    | cons c rest ih =>
      simp only [splitLF] at h
      split at h
      · cases h
      · rename_i hc
        cases hs : splitLF rest with
        | none =>
          simp only [List.mem_cons, not_or]
          exact ⟨fun e => hc e.symm, ih hs⟩
        | some p => simp [hs] at h
  · exact splitLF_none a

theorem scan_eq (isHead : Bool) (hs : HS) (buf : Bytes) : scan isHead hs buf =
    match splitLF buf with
    | none => if buf.length > MAX_LENGTH then .tooLong else .more hs buf
    | some (line, rest) =>
      if line.length > MAX_LENGTH then .tooLong else
      match hsLine isHead hs line with
      | .bad e => .bad e
      | .cont hs' => scan isHead hs' rest
      | .blank code ph conn =>
        match framing isHead code conn with
        | .interim => scan isHead { inHeader := false, code := code, partialHeader := none, conn := [] } rest
        | .bad e => .bad e
        | fr => .final code ph conn fr rest := by
  rw [scan]
  split <;> rename_i h <;> simp only [h]

/-- what scanning `a ++ b` gives, from what scanning `a` gave -/
def HeadOut.extend (isHead : Bool) (b : Bytes) : HeadOut → HeadOut
  | .more hs tail => scan isHead hs (tail ++ b)
  | .bad e => .bad e
  | .final code ph conn fr rest => .final code ph conn fr (rest ++ b)
  | .tooLong => .tooLong

theorem scan_tooLong_of_long (isHead : Bool) (hs : HS) (a : Bytes) (hno : (10 : UInt8) ∉ a) (hl : a.length > MAX_LENGTH)
    (b : Bytes) : scan isHead hs (a ++ b) = .tooLong := by
  rw [scan_eq]
  cases hsb : splitLF (a ++ b) with
  | none => simp only; rw [if_pos (by simp; omega)]
  | some p =>
    obtain ⟨l, r⟩ := p
    simp only
    obtain ⟨h1, h2⟩ := splitLF_some_eq _ _ _ hsb
    -- `a` has no LF, so `a` is a prefix of `l`
    have : a.length ≤ l.length := by
      apply Nat.le_of_not_lt
      intro hlt
      have : (a ++ b)[l.length]? = some 10 := by rw [h1]; simp
      rw [List.getElem?_append_left hlt] at this
      exact hno (List.mem_of_getElem? this)
    have hgt : l.length > MAX_LENGTH := by omega
    simp only [hgt, if_true]

/-- **segmentation independence of the head scan**: for every split of the stream into `a ++ b` -/
theorem scan_append (isHead : Bool) (b : Bytes) : ∀ (n : Nat) (a : Bytes) (hs : HS), a.length ≤ n →
    scan isHead hs (a ++ b) = (scan isHead hs a).extend isHead b := by
  intro n
  induction n with
  | zero =>
    intro a hs hn
    have : a = [] := List.eq_nil_of_length_eq_zero (Nat.le_zero.mp hn)
    subst this
    rw [scan_eq isHead hs []]
    simp [splitLF, HeadOut.extend, MAX_LENGTH]
  | succ n ih =>
    intro a hs hn
    rw [scan_eq isHead hs a]
    cases hsa : splitLF a with
    | none =>
      simp only
      split
      · rename_i hl
        simp only [HeadOut.extend]
        exact scan_tooLong_of_long isHead hs a ((splitLF_none_iff a).mp hsa) hl b
      · simp only [HeadOut.extend]
    | some p =>
      obtain ⟨l, r⟩ := p
      simp only
      rw [scan_eq isHead hs (a ++ b), splitLF_append_some a b l r hsa]
      simp only
      have hr : r.length ≤ n := by have := splitLF_length _ _ _ hsa; omega
      split
      · simp only [HeadOut.extend]
      · cases hsLine isHead hs l with
        | bad e => simp only [HeadOut.extend]
        | cont hs' => simp only; exact ih r hs' hr
        | blank code ph conn =>
          simp only
          cases hf : framing isHead code conn with
          | interim => simp only; exact ih r _ hr
          | bad e => simp only [HeadOut.extend]
          | noBody => simp only [HeadOut.extend]
          | body d => simp only [HeadOut.extend]

theorem extend_extend (isHead : Bool) (o : HeadOut) (a b : Bytes) :
    (o.extend isHead a).extend isHead b = o.extend isHead (a ++ b) := by
  cases o with
  | more hs tail =>
    show (scan isHead hs (tail ++ a)).extend isHead b = scan isHead hs (tail ++ (a ++ b))
    rw [← List.append_assoc, scan_append isHead b _ (tail ++ a) hs (Nat.le_refl _)]
  | bad e => rfl
  | final code ph conn fr rest => simp [HeadOut.extend]
  | tooLong => rfl


/-! ### the model's line loop computes the scan -/

/-- the model state whose head-parsing fields are `hs`, with `tail` buffered -/
def setHS (s : S) (hs : HS) (tail : Bytes) : S :=
  { s with pstate := if hs.inHeader then .header else .status, code := hs.code,
           partialHeader := hs.partialHeader, connHeaders := hs.conn, buffer := tail }

/-- the state in which `allHeadersReceived` runs: all header lines processed -/
def headDone (s : S) (code : Int) (ph : Option Bytes) (conn : List (Bytes × Bytes)) (t : Bytes) : S :=
  setHS s { inHeader := true, code := code, partialHeader := ph, conn := conn } t

/-- `lineReceived` on a head state is `hsLine` -/
theorem lineReceived_hsLine (s : S) (hs : HS) (t line : Bytes) :
    lineReceived (setHS s hs t) line =
      match hsLine s.isHead hs line with
      | .cont hs' => .ok (setHS s hs' t)
      | .bad e => .raise e (setHS s hs t)
      | .blank code ph conn => allHeadersReceived (headDone s code ph conn t) := by
  unfold lineReceived hsLine stripCR
  simp only
  generalize (if line.getLast? = some 13 then line.dropLast else line) = ln
  cases hi : hs.inHeader with
  | false =>
    simp only [setHS, hi]
    cases parseStatus ln with
    | error e => simp
    | ok c => simp
  | true =>
    simp only [setHS, hi]
    simp only [Bool.not_true, Bool.false_eq_true, if_false, if_true]
    split
    · rename_i hcond
      simp only [flushPartial]
      cases hp : hs.partialHeader with
      | none =>
        simp only [R.bind]
        by_cases hln : ln = []
        · simp [hln, headDone, setHS]
        · simp [hln]
      | some p =>
        simp only
        cases headerReceived s.isHead hs.conn p with
        | error e => simp [R.bind]
        | ok conn =>
          simp only [R.bind]
          by_cases hln : ln = []
          · simp [hln, headDone, setHS]
          · simp [hln]
    · cases hp : hs.partialHeader with
      | none => simp
      | some p => simp

/-- what the line loop does once the empty line has been read: `allHeadersReceived`, then the rest of the buffer -/
def lrTail (s1 : S) (rest : Bytes) : R :=
  match allHeadersReceived s1 with
  | .raise e s' => .raise e { s' with buffer := if s'.pstate = .done then [] else rest }
  | .ok s' => if s'.pstate = .done then .ok { s' with buffer := [] } else lrLoop s' rest

/-- **the line loop computes the scan** (iteration of `lrLoop_line` / `lrLoop_partial` over the head lines): on a
    parser in line mode whose head state is `hs`, whatever is in the buffer -/
theorem lrLoop_scan (s : S) (hl : s.lineMode = true) : ∀ (n : Nat) (buf : Bytes) (hs : HS) (t0 : Bytes), buf.length ≤ n →
    match scan s.isHead hs buf with
    | .more hs' tail => lrLoop (setHS s hs t0) buf = .ok (setHS s hs' tail)
    | .bad e => ∃ hs' t, lrLoop (setHS s hs t0) buf = .raise e (setHS s hs' t)
    | .final code ph conn fr rest => framing s.isHead code conn = fr ∧ fr ≠ .interim ∧ (∀ e, fr ≠ .bad e) ∧
        ∃ t, lrLoop (setHS s hs t0) buf = lrTail (headDone s code ph conn t) rest
    | .tooLong => True := by
  intro n
  induction n with
  | zero =>
    intro buf hs t0 hn
    have : buf = [] := List.eq_nil_of_length_eq_zero (Nat.le_zero.mp hn)
    subst this
    rw [scan_eq]
    simp only [splitLF, List.length_nil]
    have : ¬ (0 > MAX_LENGTH) := by simp [MAX_LENGTH]
    simp only [this, if_false]
    rw [lrLoop]; simp [setHS]
  | succ n ih =>
    intro buf hs t0 hn
    rw [scan_eq]
    have hlm : (setHS s hs t0).lineMode = true := hl
    have hps : (setHS s hs t0).pstate ≠ .done := by
      simp only [setHS]; cases hs.inHeader <;> simp
    cases hsp : splitLF buf with
    | none =>
      simp only
      by_cases hlen : buf.length > MAX_LENGTH
      · simp only [hlen, if_true]
      · simp only [hlen, if_false]
        have := lrLoop_partial (setHS s hs t0) buf hlm ((splitLF_none_iff buf).mp hsp) (by omega)
        rw [this]; simp [setHS]
    | some p =>
      obtain ⟨line, rest⟩ := p
      simp only
      obtain ⟨hb, hno⟩ := splitLF_some_eq _ _ _ hsp
      have hr : rest.length ≤ n := by have := splitLF_length _ _ _ hsp; omega
      by_cases hlen : line.length > MAX_LENGTH
      · simp only [hlen, if_true]
      · simp only [hlen, if_false]
        have hstep := lrLoop_line (setHS s hs t0) line rest hlm hno (by omega)
        rw [← hb] at hstep
        rw [lineReceived_hsLine] at hstep
        cases hh : hsLine s.isHead hs line with
        | bad e =>
          simp only [hh] at hstep ⊢
          refine ⟨hs, rest, ?_⟩
          rw [hstep]
          cases hi : hs.inHeader <;> simp [setHS, hi]
        | cont hs' =>
          simp only [hh] at hstep ⊢
          have hps' : (setHS s hs' t0).pstate ≠ .done := by
            simp only [setHS]; cases hs'.inHeader <;> simp
          have hstep' : lrLoop (setHS s hs t0) buf = lrLoop (setHS s hs' t0) rest := by
            rw [hstep]; simp [hps']
          rw [hstep']
          exact ih rest hs' t0 hr
        | blank code ph conn =>
          simp only [hh] at hstep ⊢
          cases hf : framing s.isHead code conn with
          | interim =>
            simp only
            have hall : allHeadersReceived (headDone s code ph conn t0) =
                .ok (setHS s { inHeader := false, code := code, partialHeader := none, conn := [] } t0) := by
              have : framing (headDone s code ph conn t0).isHead (headDone s code ph conn t0).code
                  (headDone s code ph conn t0).connHeaders = .interim := hf
              simp only [allHeadersReceived, this]
              simp [headDone, setHS]
            rw [hall] at hstep
            have hstep' : lrLoop (setHS s hs t0) buf =
                lrLoop (setHS s { inHeader := false, code := code, partialHeader := none, conn := [] } t0) rest := by
              rw [hstep]; simp [setHS]
            rw [hstep']
            exact ih rest _ t0 hr
          | bad e =>
            simp only
            have hall : allHeadersReceived (headDone s code ph conn t0) = .raise e (headDone s code ph conn t0) := by
              have : framing (headDone s code ph conn t0).isHead (headDone s code ph conn t0).code
                  (headDone s code ph conn t0).connHeaders = .bad e := hf
              simp only [allHeadersReceived, this]
            rw [hall] at hstep
            refine ⟨{ inHeader := true, code := code, partialHeader := ph, conn := conn }, rest, ?_⟩
            rw [hstep]
            simp [headDone, setHS]
          | noBody =>
            simp only
            refine ⟨hf, by simp, by simp, t0, ?_⟩
            rw [hstep, lrTail]
            cases allHeadersReceived (headDone s code ph conn t0) <;> simp [hps]
          | body d =>
            simp only
            refine ⟨hf, by simp, by simp, t0, ?_⟩
            rw [hstep, lrTail]
            cases allHeadersReceived (headDone s code ph conn t0) <;> simp [hps]

end TwistedProps.C23
