import TwistedProps.C22
/-! C23 lemmas about the C22 chunked decoder model: it only ever appends to what it has delivered (needed to turn the
`data` increments the client hands to `_bodyDataReceived` back into the decoder's `data`). -/
namespace TwistedProps.C23
open Twisted.Http.Chunked
open TwistedProps.C22

/-- an invariant of single handler calls holds of the decoder the loop ends with — returned or carried by the raise -/
theorem loop_inv_both (P : Dec → Prop)
    (hstep : ∀ s b s', s.buffer ≠ [] → handler s = .ok (b, s') → P s → P s') :
    ∀ (n : Nat) (s : Dec), measure s = n → P s →
      (∀ s', loop s = .ok s' → P s') ∧ (∀ e s', loop s = .error (e, s') → P s') := by
  intro n
  induction n using Nat.strongRecOn with
  | _ n ih =>
    intro s hm hp
    rw [loop_eq]
    by_cases hne : s.buffer = []
    · simp only [hne, if_true]
      exact ⟨fun s' h => (by cases h; exact hp), fun e s' h => (by cases h)⟩
    · simp only [hne, if_false]
      cases hh : handler s with
      | error e =>
        simp only
        exact ⟨fun s' h => (by cases h), fun e' s' h => (by cases h; exact hp)⟩
      | ok p =>
        obtain ⟨b, s1⟩ := p
        cases b with
        | false =>
          simp only
          exact ⟨fun s' h => (by cases h; exact hstep s false s1 hne hh hp), fun e s' h => (by cases h)⟩
        | true =>
          simp only
          exact ih (measure s1) (by rw [← hm]; exact handler_decreases s s1 hne hh) s1 rfl
            (hstep s true s1 hne hh hp)

theorem handler_data_mono (pre : Bytes) (s : Dec) (b : Bool) (s' : Dec) (h : handler s = .ok (b, s'))
    (hp : pre <+: s.data) : pre <+: s'.data := by
  unfold handler at h
  split at h
  · unfold handleChunkLength at h
    split at h
    · split at h
      · simp at h
      · simp at h; obtain ⟨_, rfl⟩ := h; exact hp
    · split at h
      · simp at h
      · split at h
        · simp at h
        · split at h
          · simp at h
          · simp at h; obtain ⟨_, rfl⟩ := h; exact hp
  · unfold handleCRLF at h
    split at h
    · split at h
      · simp at h; obtain ⟨_, rfl⟩ := h; exact hp
      · simp at h
    · simp at h; obtain ⟨_, rfl⟩ := h; exact hp
  · unfold handleTrailer at h
    split at h
    · split at h
      · simp at h
      · simp at h; obtain ⟨_, rfl⟩ := h; exact hp
    · simp at h; obtain ⟨_, rfl⟩ := h; exact hp
    · split at h
      · simp at h
      · simp at h; obtain ⟨_, rfl⟩ := h; exact hp
  · unfold handleBody at h
    split at h
    · simp at h; obtain ⟨_, rfl⟩ := h; exact hp.trans (List.prefix_append _ _)
    · simp at h; obtain ⟨_, rfl⟩ := h; exact hp.trans (List.prefix_append _ _)
  · simp at h

/-- the chunked decoder only ever appends to what it has delivered -/
theorem chunked_data_mono (d : Dec) (b : Bytes) :
    (∀ d', dataReceived d b = .ok d' → d.data <+: d'.data) ∧
    (∀ e d', dataReceived d b = .error (e, d') → d.data <+: d'.data) := by
  unfold dataReceived
  exact loop_inv_both (fun x => d.data <+: x.data) (fun s b s' _ h hp => handler_data_mono d.data s b s' h hp)
    _ (d.append b) rfl (List.prefix_refl _)

end TwistedProps.C23
