import TwistedProps.C44.Roundtrip
import TwistedProps.C44.Gen
import TwistedProps.C44.History
/-!
C44 — Banana encoding round-trips and enforces its limits.

Statement (given): for any nested list of integers in the supported range, floats and byte
strings within the size limits, encoding then decoding yields an equal structure (tuples become
lists, floats bit for bit), for any segmentation of the stream and with or without the pb
vocabulary.  Values outside the limits are refused when encoding, and oversized prefixes or
lengths are refused when decoding.

Model: `TwistedModel/Spread/Banana.lean` (transcription of `twisted/spread/banana.py` *after*
the repair `fix: Banana.dataReceived ignores an empty delivery …`; on the unrepaired tree
`feed` on an empty chunk with a partial item buffered raised `AssertionError`, which is the
witness kept in `harness/corr/C44.py: corpus()`).

Shape of the proof:
  * `segmentation_independent` — the `while buffer:` loop commutes with extension of the buffer
    (`loop_append`, `loop_append_error`), hence ANY two cuttings of the same byte stream into
    deliveries (empty deliveries included) deliver the same expressions and raise the same
    exception.  No hypothesis on the stream.
  * `batch` (in `C44/Roundtrip.lean`) — structural induction over the expression: the loop on
    `encode e ++ tail` hands `listify e` to `gotItem` and continues on `tail`.
  * `decode_encode` — the two combined, for every `e` with `inLimits` and every dialect.
  * histories (`C44/Session.lean`, `C44/History.lean`; model `TwistedModel/Spread/BananaConn.lean`): the property is about a
    *connection*, which is used again and again.  `_encode` is transcribed a second time WITH the fragments it has already
    written when it raises (`encodeP`; `encode_partial_output_agrees`), `sendEncoded` with its fresh scratch stream
    (`send_refused_leaves_no_trace`, `send_accepted`), and a history is any list of `Op`s on two connected Bananas (`Pair`):
    `sendEncoded` on either side (accepted, refused at the top, refused part-way through a structure), deliveries of any
    number of pending bytes in either direction (empty ones included), optionally the second Banana answering every expression
    from inside `expressionReceived`.  Invariant (`LinkInv`): the receiver is in the state a fresh decoder reaches on SOME cutting
    of a prefix of the stream of the accepted values; `history_safe` (every moment), `history_roundtrip` (after the flush),
    `decode_encode_many` (several expressions in one stream), `history_echo` (the answering Banana).  `mod_*`: the module-level
    helpers and their shared instance.  `decoded_within_limits` (`C44/Delivered.lean`): whatever the stream, nothing outside the
    limits is ever delivered.

Hypotheses, all decidable and all forced by the code:
  * `inLimits c.lim e` — the property's own precondition (`encode_accepts_iff` shows it is exactly
    the set of values `_encode` accepts).
  * `3 ≤ c.lim` — `SIZE_LIMIT = 655360` needs 3 base-128 digits; with `prefixLimit < 3` a list or
    string whose length needs more digits than the limit is sent but refused by the peer
    (run on the real code by the tie: corpus case `lim = 2`, 16384 bytes).  The default is 64.
  * floats are their 64-bit pattern; `struct.pack/unpack("!d")` is trusted to be `be64/unbe64`.

`gen_*`: `int2b128` and `b1282int` are regenerated from banana.py on every run (`Generated.Banana`,
harness/py2lean.py: the `while integer:` loop as a recursive function, the for-loop as a fold) and proved equal to
the model's (`TwistedProps/C44/Gen.lean`).
-/
namespace TwistedProps.C44
open Twisted.Spread.Banana

/-! ## base-128 integers -/

/-- `b1282int(int2b128(n)) == n` for every non-negative integer -/
theorem b128_roundtrip (n : Nat) : b1282int (int2b128 n) = n := b1282int_int2b128 n

example : int2b128 300 = [44, 2] ∧ b1282int [44, 2] = 300 := by
  simp [int2b128, digits, b1282int, b1282intGo]

/-- the digits never have the high bit set and, below `2^(7·k)`, there are at most `k` of them -/
theorem b128_digits (n k : Nat) (hk : 1 ≤ k) (h : n < 2 ^ (k * 7)) :
    (int2b128 n).length ≤ k ∧ ∀ d ∈ int2b128 n, d < HIGH_BIT_SET := by
  refine ⟨int2b128_length k n hk (by rwa [← pow2_7]), fun d hd => ?_⟩
  simpa [low] using int2b128_low n d hd

example : (int2b128 (2 ^ 448 - 1)).length ≤ 64 := (b128_digits _ 64 (by decide) (by decide)).1

/-! ### the translator-regenerated `int2b128` / `b1282int` (see `TwistedProps/C44/Gen.lean`) -/

/-- `int2b128` as regenerated from banana.py (the bytes handed to `stream`) = the model's, for every `n ≥ 0` -/
theorem gen_int2b128 (n : Nat) : Generated.Banana.int2b128 (n : Int) = .ok (int2b128 n) := gen_int2b128_eq n

/-- `b1282int` as regenerated from banana.py = the model's, on every byte string -/
theorem gen_b1282int (st : Bytes) : Generated.Banana.b1282int st = b1282int st := gen_b1282int_eq st

/-- **b1282int ∘ int2b128 over the regenerated code**: for every `n ≥ 0` the translated encoder succeeds and the
    translated decoder returns `n` -/
theorem gen_b128_roundtrip (n : Nat) :
    ∃ enc, Generated.Banana.int2b128 (n : Int) = .ok enc ∧ Generated.Banana.b1282int enc = n :=
  ⟨int2b128 n, gen_int2b128_eq n, by rw [gen_b1282int_eq, b1282int_int2b128]⟩

example : (match Generated.Banana.int2b128 ((300 : Nat) : Int) with | .ok b => b == [44, 2] | _ => false) = true
    ∧ Generated.Banana.b1282int [44, 2] = 300 := by
  constructor
  · rw [gen_int2b128]; simp [int2b128, digits]
  · rw [gen_b1282int]; simp [b1282int, b1282intGo]

/-! ## the assertion in `dataReceived` is dead code (after the repair) -/

theorem parseItem_ne_assertion (c : Cfg) (buf : Bytes) : parseItem c buf ≠ .error .assertion := by
  unfold parseItem
  split
  · split <;> simp
  · unfold parseTyped
    repeat' split
    all_goals simp

theorem loop_ne_assertion (c : Cfg) : ∀ (n : Nat) (buf : Bytes) (stk : List Frame), buf.length = n →
    (loop c stk buf).err ≠ some .assertion := by
  intro n
  induction n using Nat.strongRecOn with
  | _ n ih =>
    intro buf stk hn
    by_cases hb : buf = []
    · subst hb; simp [loop_nil, R0]
    · cases hp : parseItem c buf with
      | incomplete => simp [loop_incomplete stk hp, R0]
      | error e =>
        rw [loop_error stk hp]
        intro h
        simp only [R0, Option.some.injEq] at h
        subst h
        exact parseItem_ne_assertion c buf hp
      | item t rest =>
        rw [loop_item stk hp]
        have := parseItem_rest_lt hp
        simpa using ih rest.length (by omega) rest _ rfl

/-- **No delivery trips `assert self.buffer != buffer`** — whatever the state and the bytes. -/
theorem assertion_unreachable (c : Cfg) (s : State) (chunk : Bytes) :
    (feed c s chunk).err ≠ some .assertion := by
  rw [feed_eq_loop]
  split
  · simp
  · exact loop_ne_assertion c _ _ _ rfl

/-- non-vacuity: the situation that raised `AssertionError` before the repair — a partial item
    (`01`, type byte still missing) is buffered and an empty delivery arrives -/
example : (feed ⟨false, 64⟩ ⟨[], [1]⟩ []).err = none ∧ (feed ⟨false, 64⟩ ⟨[], [1]⟩ []).st = ⟨[], [1]⟩ := by
  simp [feed]

/-! ## any segmentation -/

/-- **Segmentation independence.**  Two cuttings of the same byte stream into deliveries — any
    stream, valid or not; empty deliveries allowed — deliver the same expressions and end with the
    same exception (or none, and then in the same state). -/
theorem segmentation_independent (c : Cfg) (cs₁ cs₂ : List Bytes) (h : cs₁.flatten = cs₂.flatten) :
    (feedAll c State.init cs₁).outs = (feedAll c State.init cs₂).outs ∧
    (feedAll c State.init cs₁).err = (feedAll c State.init cs₂).err ∧
    ((feedAll c State.init cs₁).err = none → (feedAll c State.init cs₁).st = (feedAll c State.init cs₂).st) := by
  obtain ⟨a1, a2, a3⟩ := feedAll_eq_loop c cs₁ State.init (stuck_init c)
  obtain ⟨b1, b2, b3⟩ := feedAll_eq_loop c cs₂ State.init (stuck_init c)
  rw [h] at a1 a2 a3
  refine ⟨a1.trans b1.symm, a2.trans b2.symm, fun he => ?_⟩
  rw [a2] at he
  rw [a3 he, b3 he]

/-! ## round trip -/

theorem Result.ext' {r₁ r₂ : Result} (h1 : r₁.st = r₂.st) (h2 : r₁.outs = r₂.outs) (h3 : r₁.err = r₂.err) :
    r₁ = r₂ := by
  cases r₁; cases r₂; simp_all

/-- **Round trip (headline).**  For every dialect (`c.pb`), every prefix limit ≥ 3 and every
    expression within the limits: `_encode` accepts it, and for EVERY cutting of the encoded stream
    into deliveries (empty ones included) the decoder, started fresh, delivers exactly one
    expression — the same structure with tuples turned into lists, floats bit for bit — raises
    nothing and is left with an empty buffer and an empty list stack. -/
theorem decode_encode (c : Cfg) (hc : 3 ≤ c.lim) (e : Expr) (he : inLimits c.lim e = true) :
    ∃ bs, encode c e = .ok bs ∧
      ∀ chunks : List Bytes, chunks.flatten = bs →
        feedAll c State.init chunks = { st := State.init, outs := [listify e], err := none } := by
  obtain ⟨bs, hbs⟩ := (encode_spec c e).1 he
  refine ⟨bs, hbs, fun chunks hch => ?_⟩
  have hb := batch c hc e bs [] [] hbs
  simp only [List.append_nil, delivered, applyTok_atom_nil, loop_nil, R0] at hb
  obtain ⟨a1, a2, a3⟩ := feedAll_eq_loop c chunks State.init (stuck_init c)
  simp only [show State.init.stack = [] from rfl, show State.init.buffer = [] from rfl, List.nil_append, hch, hb]
    at a1 a2 a3
  exact Result.ext' (a3 (by simp [Result.prepend])) (by simpa [Result.prepend] using a1)
    (by simpa [Result.prepend] using a2)

/-- the same with the stream given: whatever `_encode` produced decodes back, however it is cut -/
theorem decode_of_encode (c : Cfg) (hc : 3 ≤ c.lim) (e : Expr) (chunks : List Bytes)
    (h : encode c e = .ok chunks.flatten) :
    feedAll c State.init chunks = { st := State.init, outs := [listify e], err := none } := by
  cases hl : inLimits c.lim e with
  | false => rw [(encode_spec c e).2 hl] at h; cases h
  | true =>
    obtain ⟨bs, hbs, H⟩ := decode_encode c hc e hl
    rw [hbs] at h
    injection h with h
    exact H chunks h.symm

/-- non-vacuity: a nested structure with a tuple, a NaN with payload, a vocabulary word, negative
    and long integers is within the limits of both dialects … -/
def sample : Expr :=
  .seq false [.int (-5), .seq true [.float 0x7FF8000000000001, .bytes (w "None")], .int (2 ^ 40), .seq false [],
    .bytes [0x80, 0xFF]]

example : inLimits 64 sample = true := by decide
example : listify sample = .seq false [.int (-5), .seq false [.float 0x7FF8000000000001, .bytes (w "None")],
    .int (2 ^ 40), .seq false [], .bytes [0x80, 0xFF]] := by
  simp [sample, listify, listify.listifyAll]

set_option exponentiation.threshold 512 in
/-- … and a concrete run: `[1, b"hi"]` encoded as `02 80 01 81 02 82 68 69`, delivered as
    `02 | 80 01 | (empty) | 81 02 82 68 | 69` -/
example : feedAll ⟨true, 64⟩ State.init [[2], [0x80, 1], [], [0x81, 2, 0x82, 0x68], [0x69]] =
    { st := State.init, outs := [.seq false [.int 1, .bytes [0x68, 0x69]]], err := none } := by
  refine decode_of_encode ⟨true, 64⟩ (by decide) (.seq true [.int 1, .bytes [0x68, 0x69]]) _ ?_
  simp [encode, encodeAll, int2b128, digits, outgoing, vocabulary, w, LIST, INT, STRING, largestLongInt,
    smallestLongInt, largestInt, smallestInt, SIZE_LIMIT]

/-! ## refusals when encoding -/

/-- **`_encode` accepts exactly the values within the limits** … -/
theorem encode_accepts_iff (c : Cfg) (e : Expr) : (∃ bs, encode c e = .ok bs) ↔ inLimits c.lim e = true := by
  constructor
  · rintro ⟨bs, h⟩
    cases hl : inLimits c.lim e with
    | true => rfl
    | false => rw [(encode_spec c e).2 hl] at h; cases h
  · exact (encode_spec c e).1

/-- … **and refuses everything else with `BananaError`** (nothing is written: `encode` has no
    partial output): an integer outside `±(2^(7·prefixLimit) − 1)`, a byte string or list longer than
    `SIZE_LIMIT`, an unsupported object — at any depth. -/
theorem encode_refuses_out_of_range (c : Cfg) (e : Expr) (h : inLimits c.lim e = false) :
    encode c e = .error .banana := (encode_spec c e).2 h

example : encode ⟨false, 64⟩ (.seq false [.int 1, .int (2 ^ 448)]) = .error .banana :=
  encode_refuses_out_of_range _ _ (by decide)
example : inLimits 64 (.int (2 ^ 448 - 1)) = true ∧ inLimits 64 (.int (-(2 ^ 448))) = false := by decide
example : inLimits 64 (.bytes (List.replicate 655360 0)) = true ∧
    inLimits 64 (.seq true [.bytes (List.replicate 655361 0)]) = false := by
  simp only [inLimits, allInLimits, List.length_replicate, SIZE_LIMIT]
  decide

/-! ## histories: one connection used again and again, values refused in between -/

/-- `_encode` transcribed WITH the fragments it has written when it raises (`encodeP`) agrees with `encode`: same acceptance, same
    bytes on success, same exception on refusal. -/
theorem encode_partial_output_agrees (c : Cfg) (e : Expr) :
    (∀ bs, encode c e = .ok bs → encodeP c e = (bs, none)) ∧
    (∀ er, encode c e = .error er → (encodeP c e).2 = some er) := by
  have := encodeP_agrees c e
  constructor
  · intro bs h; rw [h] at this; exact this
  · intro er h; rw [h] at this; exact this

set_option exponentiation.threshold 512 in
/-- non-vacuity: a value refused part-way through — `[1, 2**448]` — HAS produced output when `_encode` raises
    (the list header `02 80` and the element `01 81`) … -/
example : encodeP ⟨false, 64⟩ (.seq false [.int 1, .int (2 ^ 448)]) = ([2, 0x80, 1, 0x81], some .banana) := by
  simp [encodeP, encodeAllP, int2b128, digits, LIST, INT, largestLongInt, smallestLongInt, largestInt, smallestInt, SIZE_LIMIT]

/-- … **and `sendEncoded` leaves no trace of it**: a value outside the limits (at any depth) raises `BananaError`, the transport
    holds exactly what it held before, and there is no other state (`sendEncoded` is a function of the transport content and the
    value only). -/
theorem send_refused_leaves_no_trace (c : Cfg) (wire : Bytes) (e : Expr) (h : inLimits c.lim e = false) :
    sendEncoded c wire e = (wire, some .banana) :=
  sendEncoded_error ((encode_spec c e).2 h) wire

/-- a value within the limits: exactly its encoding is appended to the transport, whatever was sent or refused before -/
theorem send_accepted (c : Cfg) (wire : Bytes) (e : Expr) (h : inLimits c.lim e = true) :
    ∃ bs, encode c e = .ok bs ∧ sendEncoded c wire e = (wire ++ bs, none) := by
  obtain ⟨bs, hbs⟩ := (encode_spec c e).1 h
  exact ⟨bs, hbs, sendEncoded_ok hbs wire⟩

set_option exponentiation.threshold 512 in
example : sendEncoded ⟨false, 64⟩ [9, 0x81] (.seq false [.int 1, .int (2 ^ 448)]) = ([9, 0x81], some .banana) :=
  send_refused_leaves_no_trace _ _ _ (by decide)

/-- in a history on two connected Bananas, a `sendEncoded` raises `BananaError` exactly for a value outside the limits, and then
    the whole pair (both transports, both decoders) is as it was -/
theorem step_send_outcome (c : Cfg) (echo : Bool) (p : Pair) (side : Bool) (obj : Expr) :
    (p.step c echo (.send side obj)).2 = (if inLimits c.lim obj = true then none else some .banana) ∧
    (inLimits c.lim obj = false → (p.step c echo (.send side obj)).1 = p) := by
  cases h : inLimits c.lim obj with
  | false => cases side <;> simp [Pair.step, Link.send_refused h]
  | true => cases side <;> simp [Pair.step, Link.send_ok h]

/-- **several expressions, one stream, any cutting**: the encodings of any values within the limits, concatenated and cut into
    deliveries in any way (empty ones included), are delivered as exactly those values (list-ified), in order -/
theorem decode_encode_many (c : Cfg) (hc : 3 ≤ c.lim) (es : List Expr) (hes : ∀ e ∈ es, inLimits c.lim e = true)
    (chunks : List Bytes) (h : chunks.flatten = wireOf c es) :
    feedAll c State.init chunks = { st := State.init, outs := es.map listify, err := none } := by
  have hb := batchMany c hc [] es hes
  rw [List.append_nil, loop_nil] at hb
  obtain ⟨a1, a2, a3⟩ := feedAll_eq_loop c chunks State.init (stuck_init c)
  simp only [show State.init.stack = [] from rfl, show State.init.buffer = [] from rfl, List.nil_append, h, hb] at a1 a2 a3
  exact Result.ext' (a3 (by simp [R0])) (by simpa [R0] using a1) (by simpa [R0] using a2)

/-- **At every moment of any history** (any sequence of `sendEncoded` calls on either side — accepted, refused at the top, refused
    part-way through a structure — and deliveries of any sizes in either direction, with or without the second Banana answering
    from inside `expressionReceived`): no `dataReceived` has raised, and each side has been handed a prefix of what its peer's
    `sendEncoded` accepted, list-ified, in order.  For A → B that is exactly the in-limit values A was asked to send. -/
theorem history_safe (c : Cfg) (hc : 3 ≤ c.lim) (echo : Bool) (ops : List Op) :
    let p := (Pair.run c echo Pair.init ops).1
    p.ab.rerr = none ∧ p.ab.got <+: (accepted c (sendsOf false ops)).map listify ∧
    p.ba.rerr = none ∧ p.ba.got <+: p.ba.log.map listify := by
  intro p
  have hinv : PairInv c p := PairInv.run echo ops (PairInv.init c)
  have hl : p.ab.log = accepted c (sendsOf false ops) := by
    show (Pair.run c echo Pair.init ops).1.ab.log = _
    simpa [Pair.init, Link.init] using run_log_ab c echo ops Pair.init
  obtain ⟨s1, s2, _⟩ := hinv.ab.sound hc
  obtain ⟨t1, t2, _⟩ := hinv.ba.sound hc
  rw [hl] at s2
  exact ⟨s1, s2, t1, t2⟩

/-- **Round trip after any history (headline for histories).**  Same histories; once everything written has been delivered:
    B has been handed exactly the in-limit values A was asked to send — each as the equal structure, tuples as lists, in order,
    nothing from any refused value — and A exactly what B's `sendEncoded` accepted (without echo: the in-limit values B was asked
    to send); nothing was raised by a decoder, and both decoders are back in their initial state. -/
theorem history_roundtrip (c : Cfg) (hc : 3 ≤ c.lim) (echo : Bool) (ops : List Op) :
    let p := ((Pair.run c echo Pair.init ops).1).flush c echo
    p.ab.got = (accepted c (sendsOf false ops)).map listify ∧ p.ab.rerr = none ∧ p.ab.rx = State.init ∧
    p.ba.got = p.ba.log.map listify ∧ p.ba.rerr = none ∧ p.ba.rx = State.init ∧
    (echo = false → p.ba.log = accepted c (sendsOf true ops)) := by
  intro p
  have hrun : PairInv c (Pair.run c echo Pair.init ops).1 := PairInv.run echo ops (PairInv.init c)
  have hinv : PairInv c p := hrun.flush echo
  obtain ⟨pa, pb⟩ := flush_pending c hc echo hrun
  have hl : p.ab.log = accepted c (sendsOf false ops) := by
    show ((Pair.run c echo Pair.init ops).1.flush c echo).ab.log = _
    rw [flush_log_ab]
    simpa [Pair.init, Link.init] using run_log_ab c echo ops Pair.init
  obtain ⟨s1, _, s3⟩ := hinv.ab.sound hc
  obtain ⟨t1, _, t3⟩ := hinv.ba.sound hc
  obtain ⟨s4, s5⟩ := s3 pa
  obtain ⟨t4, t5⟩ := t3 pb
  rw [hl] at s4
  refine ⟨s4, s1, s5, t4, t1, t5, ?_⟩
  intro he
  subst he
  show ((Pair.run c false Pair.init ops).1.flush c false).ba.log = _
  rw [flush_log_ba]
  simpa [Pair.init, Link.init] using run_log_ba c ops Pair.init

/-- an integer just beyond the range of the default prefix limit -/
def tooBig : Expr := .int (2 ^ 448)

/-- non-vacuity: A is refused `[1, b"x", 2**448]` (after `_encode` wrote `03 80 01 81 01 82 78`), then sends `(7,)`, three bytes
    are delivered, B is refused `[[<unsupported object>]]` and sends `-1`: B receives `[7]` and only that, A receives `-1` -/
example :
    let ops := [Op.send false (.seq false [.int 1, .bytes [0x78], tooBig]), .send false (.seq true [.int 7]),
                .deliver false 3, .send true (.seq false [.seq false [.other]]), .send true (.int (-1)), .deliver true 0]
    let p := ((Pair.run ⟨true, 64⟩ false Pair.init ops).1).flush ⟨true, 64⟩ false
    p.ab.got = [.seq false [.int 7]] ∧ p.ba.got = [.int (-1)] := by
  intro ops p
  obtain ⟨h1, _, _, h4, _, _, h7⟩ := history_roundtrip ⟨true, 64⟩ (by decide) false ops
  have k1 : inLimits 64 (.seq false [.int 1, .bytes [0x78], tooBig]) = false := by decide
  have k2 : inLimits 64 (.seq true [.int 7]) = true := by decide
  have k3 : inLimits 64 (.seq false [.seq false [.other]]) = false := by decide
  have k4 : inLimits 64 (.int (-1)) = true := by decide
  have e1 : accepted ⟨true, 64⟩ (sendsOf false ops) = [.seq true [.int 7]] := by
    simp [ops, accepted, sendsOf, List.filter, k1, k2]
  have e2 : accepted ⟨true, 64⟩ (sendsOf true ops) = [.int (-1)] := by
    simp [ops, accepted, sendsOf, List.filter, k3, k4]
  rw [e1] at h1
  rw [h7 rfl, e2] at h4
  exact ⟨by simpa [listify, listify.listifyAll] using h1, by simpa [listify] using h4⟩

/-- **The echoing Banana.**  When B answers every expression it receives by `sendEncoded` from inside `expressionReceived`
    (re-entrantly from `dataReceived`), none of those answers is ever refused, and what B's `sendEncoded` accepted over the whole
    history is an interleaving of the in-limit values B was asked to send itself and of everything B received — which, by
    `history_roundtrip`, is what A ends up with, list-ified. -/
theorem history_echo (c : Cfg) (ops : List Op) :
    let p := ((Pair.run c true Pair.init ops).1).flush c true
    Merge (accepted c (sendsOf true ops)) p.ab.got p.ba.log := by
  intro p
  have hrun : PairInv c (Pair.run c true Pair.init ops).1 := PairInv.run true ops (PairInv.init c)
  have hm := run_merge ops (PairInv.init c) (x := []) (by simpa [Pair.init, Link.init] using Merge.nil)
  simpa using flush_merge hrun hm

/-- **The decoder never hands over a value outside the limits** — whatever the stream (valid or not), however it is cut, up to
    and including the delivery that raises: every integer is within `±(2^(7·prefixLimit) − 1)`, every byte string and every
    list (at any depth) within `SIZE_LIMIT`.  (Hence everything received can be sent again.) -/
theorem decoded_within_limits (c : Cfg) (chunks : List Bytes) :
    ∀ o ∈ (feedAll c State.init chunks).outs, inLimits c.lim o = true :=
  (feedAll_ok c chunks State.init (by simp [StackOk, State.init])).2

set_option exponentiation.threshold 512 in
/-- non-vacuity: a list of one 2-digit integer, cut in two, IS delivered (and is within the limits) -/
example : (feedAll ⟨false, 64⟩ State.init [[1, 0x80, 0x7f], [0x7f, 0x81]]).outs = [.seq false [.int 16383]] := by
  have := decode_of_encode ⟨false, 64⟩ (by decide) (.seq false [.int 16383]) [[1, 0x80, 0x7f], [0x7f, 0x81]]
    (by simp [encode, encodeAll, int2b128, digits, LIST, INT, largestLongInt, smallestLongInt, largestInt, smallestInt,
      SIZE_LIMIT])
  simp [this, listify, listify.listifyAll]

/-! ## the module-level helpers `banana.encode` / `banana.decode` (one shared instance) -/

/-- `banana.decode` leaves the shared instance in its initial state, whatever it was given and whether or not it raised -/
theorem mod_decode_resets (s : State) (st : Bytes) : (modDecode s st).1 = State.init := rfl

/-- `banana.encode` refuses exactly the values outside the limits (and, like `sendEncoded`, keeps nothing of them) -/
theorem mod_encode_refuses (e : Expr) (h : inLimits 64 e = false) : modEncode e = .error .banana := by
  simp [modEncode, send_refused_leaves_no_trace modCfg [] e h]

/-- **`banana.decode(banana.encode(v)) == v` after any history of the helpers**: whatever byte strings `banana.decode` was given
    before (truncated, refused, several expressions, junk) and whatever values `banana.encode` was given (accepted or refused) -/
theorem mod_roundtrip_after_history (raws : List Bytes) (e : Expr) (h : inLimits 64 e = true) :
    ∃ bs, modEncode e = .ok bs ∧
      modDecode (raws.foldl (fun s x => (modDecode s x).1) State.init) bs = (State.init, .value (listify e)) := by
  obtain ⟨bs, hbs, hsend⟩ := send_accepted modCfg [] e h
  have hs : raws.foldl (fun s x => (modDecode s x).1) State.init = State.init := by
    induction raws with
    | nil => rfl
    | cons x xs ih => simpa [List.foldl_cons, mod_decode_resets] using ih
  refine ⟨bs, by simp [modEncode, hsend], ?_⟩
  rw [hs]
  have := decode_of_encode modCfg (by decide) e [bs] (by simpa using hbs)
  rw [feedAll_single] at this
  simp [modDecode, this]

/-! ## refusals when decoding -/

/-- streams that must be refused at their first item: more than `prefixLimit` prefix bytes, or a
    LIST/STRING whose length exceeds `SIZE_LIMIT` -/
def Oversized (c : Cfg) (bad : Bytes) : Prop :=
  c.lim < scan bad ∨
  ∃ ds tb rest, bad = ds ++ tb :: rest ∧ (∀ d ∈ ds, d < HIGH_BIT_SET) ∧ (tb = LIST ∨ tb = STRING) ∧
    SIZE_LIMIT < b1282int ds

theorem parseItem_oversized {c : Cfg} {bad : Bytes} (h : Oversized c bad) : parseItem c bad = .error .banana := by
  rcases h with h | ⟨ds, tb, rest, rfl, hlow, htb, hbig⟩
  · unfold parseItem
    split
    · rw [if_pos h]
    · apply parseTyped_long
      rw [List.length_take]
      have := scan_le bad
      omega
  · have hlow' : ∀ d ∈ ds, low d = true := fun d hd => by simpa [low] using hlow d hd
    have hhigh : low tb = false := by rcases htb with rfl | rfl <;> decide
    rw [parseItem_low_high c ds tb rest hlow' hhigh]
    unfold parseTyped
    split
    · rfl
    · rcases htb with rfl | rfl <;> simp [LIST, STRING]

/-- **Oversized prefixes and lengths are refused when decoding**, at any nesting depth (any list
    stack), at any item boundary, however the bytes are cut into deliveries: `BananaError`, and
    nothing is delivered from the refused item on. -/
theorem decode_refuses_oversized (c : Cfg) (s : State) (hs : s.buffer = []) (chunks : List Bytes)
    (h : Oversized c chunks.flatten) :
    (feedAll c s chunks).err = some .banana ∧ (feedAll c s chunks).outs = [] := by
  obtain ⟨a1, a2, _⟩ := feedAll_eq_loop c chunks s (Or.inl hs)
  rw [hs, List.nil_append, loop_error _ (parseItem_oversized h)] at a1 a2
  exact ⟨a2, a1⟩

/-- the same after a complete, valid expression: it is delivered, then the stream is refused -/
theorem decode_refuses_after_expression (c : Cfg) (hc : 3 ≤ c.lim) (e : Expr) (bs bad : Bytes)
    (he : encode c e = .ok bs) (hbad : Oversized c bad) (chunks : List Bytes) (h : chunks.flatten = bs ++ bad) :
    (feedAll c State.init chunks).err = some .banana ∧ (feedAll c State.init chunks).outs = [listify e] := by
  obtain ⟨a1, a2, _⟩ := feedAll_eq_loop c chunks State.init (stuck_init c)
  have hb := batch c hc e bs [] bad he
  simp only [delivered, applyTok_atom_nil, loop_error _ (parseItem_oversized hbad), R0] at hb
  simp only [show State.init.stack = [] from rfl, show State.init.buffer = [] from rfl, List.nil_append, h, hb]
    at a1 a2
  exact ⟨by simpa [Result.prepend] using a2, by simpa [Result.prepend] using a1⟩

/-- non-vacuity: 65 prefix bytes (limit 64), cut in two, inside an open list; and a LIST header
    announcing `SIZE_LIMIT + 1 = 655361 = 01 00 28 (base 128, little endian)` elements -/
example : Oversized ⟨false, 64⟩ ([List.replicate 40 1, List.replicate 25 1 ++ [0x81]] : List Bytes).flatten :=
  Or.inl (by decide)
example : Oversized ⟨false, 64⟩ [1, 0, 40, 0x80] :=
  Or.inr ⟨[1, 0, 40], 0x80, [], rfl, by decide, Or.inl rfl, by decide⟩
example : ¬ SIZE_LIMIT < b1282int [0, 0, 40] := by decide

/-! ## boundary classes named by the white-box mutation audit (harness/mutants/C44)

The theorems above already quantify over every expression, depth, size and stream; the ones below name the corners at which
realistic regressions were found to hide (an exclusive size limit, a cap on the nesting depth, a prefix-length check that
ignores zero padding), so that each has a statement and a non-vacuity example of its own. -/

theorem allInLimits_replicate (lim n : Nat) (x : Expr) (hx : inLimits lim x = true) :
    allInLimits lim (List.replicate n x) = true := by
  induction n with
  | zero => simp [allInLimits]
  | succ n ih => simp [List.replicate_succ, allInLimits, hx, ih]

/-- **The size limit is inclusive**: a list or tuple of exactly `SIZE_LIMIT` acceptable elements is sent … -/
theorem encode_accepts_full_list (c : Cfg) (t : Bool) (x : Expr) (hx : inLimits c.lim x = true) :
    ∃ bs, encode c (.seq t (List.replicate SIZE_LIMIT x)) = .ok bs := by
  rw [encode_accepts_iff]
  simp [inLimits, allInLimits_replicate _ _ _ hx]

/-- … and one element more is refused, whatever the elements are. -/
theorem encode_refuses_overfull_list (c : Cfg) (t : Bool) (xs : List Expr) (h : SIZE_LIMIT < xs.length) :
    encode c (.seq t xs) = .error .banana := by
  apply encode_refuses_out_of_range
  simp only [inLimits, Bool.and_eq_false_imp, decide_eq_true_eq]
  omega

example : ∃ bs, encode ⟨false, 64⟩ (.seq true (List.replicate SIZE_LIMIT (.int (-1)))) = .ok bs :=
  encode_accepts_full_list _ _ _ (by decide)
example : encode ⟨true, 64⟩ (.seq false (List.replicate (SIZE_LIMIT + 1) (.int 0))) = .error .banana :=
  encode_refuses_overfull_list _ _ _ (by simp)

/-- `n` lists inside each other around `e` -/
def nest : Nat → Expr → Expr
  | 0, e => e
  | n + 1, e => .seq false [nest n e]

theorem nest_inLimits (lim n : Nat) (e : Expr) : inLimits lim (nest n e) = inLimits lim e := by
  induction n with
  | zero => rfl
  | succ n ih => simp [nest, inLimits, allInLimits, ih, SIZE_LIMIT]

/-- **No bound on the nesting depth**: `e` wrapped in any number of lists round-trips, for every cutting of the stream. -/
theorem decode_encode_nested (c : Cfg) (hc : 3 ≤ c.lim) (n : Nat) (e : Expr) (he : inLimits c.lim e = true) :
    ∃ bs, encode c (nest n e) = .ok bs ∧
      ∀ chunks : List Bytes, chunks.flatten = bs →
        feedAll c State.init chunks = { st := State.init, outs := [listify (nest n e)], err := none } :=
  decode_encode c hc (nest n e) (by rw [nest_inLimits]; exact he)

example : nest 3 (.int 7) = .seq false [.seq false [.seq false [.int 7]]] := rfl
example : inLimits 3 (nest 12 (.float 0)) = true := by rw [nest_inLimits]; rfl

theorem scan_low_prefix (ds rest : Bytes) (hd : ∀ d ∈ ds, d < HIGH_BIT_SET) : ds.length ≤ scan (ds ++ rest) := by
  induction ds with
  | nil => simp
  | cons x xs ih =>
    have hx : low x = true := by simpa [low] using hd x (by simp)
    rw [List.cons_append, scan_cons, if_pos hx]
    have := ih (fun d hd' => hd d (by simp [hd']))
    simp only [List.length_cons]
    omega

/-- **A prefix longer than the limit is oversized whatever its digits are** — zero padding included — and whatever follows
    it (a type byte or nothing yet). -/
theorem oversized_of_long_prefix (c : Cfg) (ds rest : Bytes) (hd : ∀ d ∈ ds, d < HIGH_BIT_SET) (h : c.lim < ds.length) :
    Oversized c (ds ++ rest) :=
  Or.inl (Nat.lt_of_lt_of_le h (scan_low_prefix ds rest hd))

example : Oversized ⟨false, 64⟩ (1 :: List.replicate 64 0 ++ [0x81]) :=
  oversized_of_long_prefix _ (1 :: List.replicate 64 0) [0x81] (by decide) (by decide)

end TwistedProps.C44
