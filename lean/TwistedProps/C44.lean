import TwistedProps.C44.Roundtrip
import TwistedProps.C44.Gen
/-!
C44 — Banana encoding round-trips and enforces its limits.

Statement (given): for any nested list of integers in the supported range, floats and byte
strings within the size limits, encoding then decoding yields an equal structure (tuples become
lists, floats bit for bit), for any segmentation of the stream and with or without the pb
vocabulary.  Values outside the limits are refused when encoding, and oversized prefixes or
lengths are refused when decoding.

Model: `TwistedModel/Spread/Banana.lean` (transcription of `twisted/spread/banana.py` *after*
the repair `fix: Banana.dataReceived ignores an empty delivery …`; on the unrepaired tree
`feed` on an empty chunk with a partial item buffered raised `AssertionError`, which is the
witness kept in `harness/corr/C44.py: corpus()`).

Shape of the proof:
  * `segmentation_independent` — the `while buffer:` loop commutes with extension of the buffer
    (`loop_append`, `loop_append_error`), hence ANY two cuttings of the same byte stream into
    deliveries (empty deliveries included) deliver the same expressions and raise the same
    exception.  No hypothesis on the stream.
  * `batch` (in `C44/Roundtrip.lean`) — structural induction over the expression: the loop on
    `encode e ++ tail` hands `listify e` to `gotItem` and continues on `tail`.
  * `decode_encode` — the two combined, for every `e` with `inLimits` and every dialect.

Hypotheses, all decidable and all forced by the code:
  * `inLimits c.lim e` — the property's own precondition (`encode_accepts_iff` shows it is exactly
    the set of values `_encode` accepts).
  * `3 ≤ c.lim` — `SIZE_LIMIT = 655360` needs 3 base-128 digits; with `prefixLimit < 3` a list or
    string whose length needs more digits than the limit is sent but refused by the peer
    (run on the real code by the tie: corpus case `lim = 2`, 16384 bytes).  The default is 64.
  * floats are their 64-bit pattern; `struct.pack/unpack("!d")` is trusted to be `be64/unbe64`.

`gen_*`: `int2b128` and `b1282int` are regenerated from banana.py on every run (`Generated.Banana`,
harness/py2lean.py: the `while integer:` loop as a recursive function, the for-loop as a fold) and proved equal to
the model's (`TwistedProps/C44/Gen.lean`).
-/
namespace TwistedProps.C44
open Twisted.Spread.Banana

/-! ## base-128 integers -/

/-- `b1282int(int2b128(n)) == n` for every non-negative integer -/
theorem b128_roundtrip (n : Nat) : b1282int (int2b128 n) = n := b1282int_int2b128 n

example : int2b128 300 = [44, 2] ∧ b1282int [44, 2] = 300 := by
  simp [int2b128, digits, b1282int, b1282intGo]

/-- the digits never have the high bit set and, below `2^(7·k)`, there are at most `k` of them -/
theorem b128_digits (n k : Nat) (hk : 1 ≤ k) (h : n < 2 ^ (k * 7)) :
    (int2b128 n).length ≤ k ∧ ∀ d ∈ int2b128 n, d < HIGH_BIT_SET := by
  refine ⟨int2b128_length k n hk (by rwa [← pow2_7]), fun d hd => ?_⟩
  simpa [low] using int2b128_low n d hd

example : (int2b128 (2 ^ 448 - 1)).length ≤ 64 := (b128_digits _ 64 (by decide) (by decide)).1

/-! ### the translator-regenerated `int2b128` / `b1282int` (see `TwistedProps/C44/Gen.lean`) -/

/-- `int2b128` as regenerated from banana.py (the bytes handed to `stream`) = the model's, for every `n ≥ 0` -/
theorem gen_int2b128 (n : Nat) : Generated.Banana.int2b128 (n : Int) = .ok (int2b128 n) := gen_int2b128_eq n

/-- `b1282int` as regenerated from banana.py = the model's, on every byte string -/
theorem gen_b1282int (st : Bytes) : Generated.Banana.b1282int st = b1282int st := gen_b1282int_eq st

/-- **b1282int ∘ int2b128 over the regenerated code**: for every `n ≥ 0` the translated encoder succeeds and the
    translated decoder returns `n` -/
theorem gen_b128_roundtrip (n : Nat) :
    ∃ enc, Generated.Banana.int2b128 (n : Int) = .ok enc ∧ Generated.Banana.b1282int enc = n :=
  ⟨int2b128 n, gen_int2b128_eq n, by rw [gen_b1282int_eq, b1282int_int2b128]⟩

example : (match Generated.Banana.int2b128 ((300 : Nat) : Int) with | .ok b => b == [44, 2] | _ => false) = true
    ∧ Generated.Banana.b1282int [44, 2] = 300 := by
  constructor
  · rw [gen_int2b128]; simp [int2b128, digits]
  · rw [gen_b1282int]; simp [b1282int, b1282intGo]

/-! ## the assertion in `dataReceived` is dead code (after the repair) -/

theorem parseItem_ne_assertion (c : Cfg) (buf : Bytes) : parseItem c buf ≠ .error .assertion := by
  unfold parseItem
  split
  · split <;> simp
  · unfold parseTyped
    repeat' split
    all_goals simp

theorem loop_ne_assertion (c : Cfg) : ∀ (n : Nat) (buf : Bytes) (stk : List Frame), buf.length = n →
    (loop c stk buf).err ≠ some .assertion := by
  intro n
  induction n using Nat.strongRecOn with
  | _ n ih =>
    intro buf stk hn
    by_cases hb : buf = []
    · subst hb; simp [loop_nil, R0]
    · cases hp : parseItem c buf with
      | incomplete => simp [loop_incomplete stk hp, R0]
      | error e =>
        rw [loop_error stk hp]
        intro h
        simp only [R0, Option.some.injEq] at h
        subst h
        exact parseItem_ne_assertion c buf hp
      | item t rest =>
        rw [loop_item stk hp]
        have := parseItem_rest_lt hp
        simpa using ih rest.length (by omega) rest _ rfl

/-- **No delivery trips `assert self.buffer != buffer`** — whatever the state and the bytes. -/
theorem assertion_unreachable (c : Cfg) (s : State) (chunk : Bytes) :
    (feed c s chunk).err ≠ some .assertion := by
  rw [feed_eq_loop]
  split
  · simp
  · exact loop_ne_assertion c _ _ _ rfl

/-- non-vacuity: the situation that raised `AssertionError` before the repair — a partial item
    (`01`, type byte still missing) is buffered and an empty delivery arrives -/
example : (feed ⟨false, 64⟩ ⟨[], [1]⟩ []).err = none ∧ (feed ⟨false, 64⟩ ⟨[], [1]⟩ []).st = ⟨[], [1]⟩ := by
  simp [feed]

/-! ## any segmentation -/

/-- **Segmentation independence.**  Two cuttings of the same byte stream into deliveries — any
    stream, valid or not; empty deliveries allowed — deliver the same expressions and end with the
    same exception (or none, and then in the same state). -/
theorem segmentation_independent (c : Cfg) (cs₁ cs₂ : List Bytes) (h : cs₁.flatten = cs₂.flatten) :
    (feedAll c State.init cs₁).outs = (feedAll c State.init cs₂).outs ∧
    (feedAll c State.init cs₁).err = (feedAll c State.init cs₂).err ∧
    ((feedAll c State.init cs₁).err = none → (feedAll c State.init cs₁).st = (feedAll c State.init cs₂).st) := by
  obtain ⟨a1, a2, a3⟩ := feedAll_eq_loop c cs₁ State.init (stuck_init c)
  obtain ⟨b1, b2, b3⟩ := feedAll_eq_loop c cs₂ State.init (stuck_init c)
  rw [h] at a1 a2 a3
  refine ⟨a1.trans b1.symm, a2.trans b2.symm, fun he => ?_⟩
  rw [a2] at he
  rw [a3 he, b3 he]

/-! ## round trip -/

theorem Result.ext' {r₁ r₂ : Result} (h1 : r₁.st = r₂.st) (h2 : r₁.outs = r₂.outs) (h3 : r₁.err = r₂.err) :
    r₁ = r₂ := by
  cases r₁; cases r₂; simp_all

/-- **Round trip (headline).**  For every dialect (`c.pb`), every prefix limit ≥ 3 and every
    expression within the limits: `_encode` accepts it, and for EVERY cutting of the encoded stream
    into deliveries (empty ones included) the decoder, started fresh, delivers exactly one
    expression — the same structure with tuples turned into lists, floats bit for bit — raises
    nothing and is left with an empty buffer and an empty list stack. -/
theorem decode_encode (c : Cfg) (hc : 3 ≤ c.lim) (e : Expr) (he : inLimits c.lim e = true) :
    ∃ bs, encode c e = .ok bs ∧
      ∀ chunks : List Bytes, chunks.flatten = bs →
        feedAll c State.init chunks = { st := State.init, outs := [listify e], err := none } := by
  obtain ⟨bs, hbs⟩ := (encode_spec c e).1 he
  refine ⟨bs, hbs, fun chunks hch => ?_⟩
  have hb := batch c hc e bs [] [] hbs
  simp only [List.append_nil, delivered, applyTok_atom_nil, loop_nil, R0] at hb
  obtain ⟨a1, a2, a3⟩ := feedAll_eq_loop c chunks State.init (stuck_init c)
  simp only [show State.init.stack = [] from rfl, show State.init.buffer = [] from rfl, List.nil_append, hch, hb]
    at a1 a2 a3
  exact Result.ext' (a3 (by simp [Result.prepend])) (by simpa [Result.prepend] using a1)
    (by simpa [Result.prepend] using a2)

/-- the same with the stream given: whatever `_encode` produced decodes back, however it is cut -/
theorem decode_of_encode (c : Cfg) (hc : 3 ≤ c.lim) (e : Expr) (chunks : List Bytes)
    (h : encode c e = .ok chunks.flatten) :
    feedAll c State.init chunks = { st := State.init, outs := [listify e], err := none } := by
  cases hl : inLimits c.lim e with
  | false => rw [(encode_spec c e).2 hl] at h; cases h
  | true =>
    obtain ⟨bs, hbs, H⟩ := decode_encode c hc e hl
    rw [hbs] at h
    injection h with h
    exact H chunks h.symm

/-- non-vacuity: a nested structure with a tuple, a NaN with payload, a vocabulary word, negative
    and long integers is within the limits of both dialects … -/
def sample : Expr :=
  .seq false [.int (-5), .seq true [.float 0x7FF8000000000001, .bytes (w "None")], .int (2 ^ 40), .seq false [],
    .bytes [0x80, 0xFF]]

example : inLimits 64 sample = true := by decide
example : listify sample = .seq false [.int (-5), .seq false [.float 0x7FF8000000000001, .bytes (w "None")],
    .int (2 ^ 40), .seq false [], .bytes [0x80, 0xFF]] := by
  simp [sample, listify, listify.listifyAll]

set_option exponentiation.threshold 512 in
/-- … and a concrete run: `[1, b"hi"]` encoded as `02 80 01 81 02 82 68 69`, delivered as
    `02 | 80 01 | (empty) | 81 02 82 68 | 69` -/
example : feedAll ⟨true, 64⟩ State.init [[2], [0x80, 1], [], [0x81, 2, 0x82, 0x68], [0x69]] =
    { st := State.init, outs := [.seq false [.int 1, .bytes [0x68, 0x69]]], err := none } := by
  refine decode_of_encode ⟨true, 64⟩ (by decide) (.seq true [.int 1, .bytes [0x68, 0x69]]) _ ?_
  simp [encode, encodeAll, int2b128, digits, outgoing, vocabulary, w, LIST, INT, STRING, largestLongInt,
    smallestLongInt, largestInt, smallestInt, SIZE_LIMIT]

/-! ## refusals when encoding -/

/-- **`_encode` accepts exactly the values within the limits** … -/
theorem encode_accepts_iff (c : Cfg) (e : Expr) : (∃ bs, encode c e = .ok bs) ↔ inLimits c.lim e = true := by
  constructor
  · rintro ⟨bs, h⟩
    cases hl : inLimits c.lim e with
    | true => rfl
    | false => rw [(encode_spec c e).2 hl] at h; cases h
  · exact (encode_spec c e).1

/-- … **and refuses everything else with `BananaError`** (nothing is written: `encode` has no
    partial output): an integer outside `±(2^(7·prefixLimit) − 1)`, a byte string or list longer than
    `SIZE_LIMIT`, an unsupported object — at any depth. -/
theorem encode_refuses_out_of_range (c : Cfg) (e : Expr) (h : inLimits c.lim e = false) :
    encode c e = .error .banana := (encode_spec c e).2 h

example : encode ⟨false, 64⟩ (.seq false [.int 1, .int (2 ^ 448)]) = .error .banana :=
  encode_refuses_out_of_range _ _ (by decide)
example : inLimits 64 (.int (2 ^ 448 - 1)) = true ∧ inLimits 64 (.int (-(2 ^ 448))) = false := by decide
example : inLimits 64 (.bytes (List.replicate 655360 0)) = true ∧
    inLimits 64 (.seq true [.bytes (List.replicate 655361 0)]) = false := by
  simp only [inLimits, allInLimits, List.length_replicate, SIZE_LIMIT]
  decide

/-! ## refusals when decoding -/

/-- streams that must be refused at their first item: more than `prefixLimit` prefix bytes, or a
    LIST/STRING whose length exceeds `SIZE_LIMIT` -/
def Oversized (c : Cfg) (bad : Bytes) : Prop :=
  c.lim < scan bad ∨
  ∃ ds tb rest, bad = ds ++ tb :: rest ∧ (∀ d ∈ ds, d < HIGH_BIT_SET) ∧ (tb = LIST ∨ tb = STRING) ∧
    SIZE_LIMIT < b1282int ds

theorem parseItem_oversized {c : Cfg} {bad : Bytes} (h : Oversized c bad) : parseItem c bad = .error .banana := by
  rcases h with h | ⟨ds, tb, rest, rfl, hlow, htb, hbig⟩
  · unfold parseItem
    split
    · rw [if_pos h]
    · apply parseTyped_long
      rw [List.length_take]
      have := scan_le bad
      omega
  · have hlow' : ∀ d ∈ ds, low d = true := fun d hd => by simpa [low] using hlow d hd
    have hhigh : low tb = false := by rcases htb with rfl | rfl <;> decide
    rw [parseItem_low_high c ds tb rest hlow' hhigh]
    unfold parseTyped
    split
    · rfl
    · rcases htb with rfl | rfl <;> simp [LIST, STRING]

/-- **Oversized prefixes and lengths are refused when decoding**, at any nesting depth (any list
    stack), at any item boundary, however the bytes are cut into deliveries: `BananaError`, and
    nothing is delivered from the refused item on. -/
theorem decode_refuses_oversized (c : Cfg) (s : State) (hs : s.buffer = []) (chunks : List Bytes)
    (h : Oversized c chunks.flatten) :
    (feedAll c s chunks).err = some .banana ∧ (feedAll c s chunks).outs = [] := by
  obtain ⟨a1, a2, _⟩ := feedAll_eq_loop c chunks s (Or.inl hs)
  rw [hs, List.nil_append, loop_error _ (parseItem_oversized h)] at a1 a2
  exact ⟨a2, a1⟩

/-- the same after a complete, valid expression: it is delivered, then the stream is refused -/
theorem decode_refuses_after_expression (c : Cfg) (hc : 3 ≤ c.lim) (e : Expr) (bs bad : Bytes)
    (he : encode c e = .ok bs) (hbad : Oversized c bad) (chunks : List Bytes) (h : chunks.flatten = bs ++ bad) :
    (feedAll c State.init chunks).err = some .banana ∧ (feedAll c State.init chunks).outs = [listify e] := by
  obtain ⟨a1, a2, _⟩ := feedAll_eq_loop c chunks State.init (stuck_init c)
  have hb := batch c hc e bs [] bad he
  simp only [delivered, applyTok_atom_nil, loop_error _ (parseItem_oversized hbad), R0] at hb
  simp only [show State.init.stack = [] from rfl, show State.init.buffer = [] from rfl, List.nil_append, h, hb]
    at a1 a2
  exact ⟨by simpa [Result.prepend] using a2, by simpa [Result.prepend] using a1⟩

/-- non-vacuity: 65 prefix bytes (limit 64), cut in two, inside an open list; and a LIST header
    announcing `SIZE_LIMIT + 1 = 655361 = 01 00 28 (base 128, little endian)` elements -/
example : Oversized ⟨false, 64⟩ ([List.replicate 40 1, List.replicate 25 1 ++ [0x81]] : List Bytes).flatten :=
  Or.inl (by decide)
example : Oversized ⟨false, 64⟩ [1, 0, 40, 0x80] :=
  Or.inr ⟨[1, 0, 40], 0x80, [], rfl, by decide, Or.inl rfl, by decide⟩
example : ¬ SIZE_LIMIT < b1282int [0, 0, 40] := by decide

end TwistedProps.C44
