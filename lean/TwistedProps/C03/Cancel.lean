import TwistedProps.C03.Fire
/-! C03 helper lemmas, part 3: `Deferred.cancel` on an unfired inner / outer Deferred. -/
namespace TwistedProps.C03
open Twisted.Defer.Cancel

/-- changing only `_suppressAlreadyCalled` / the canceller-call counter of an inner Deferred -/
theorem invW_touch (s : State) (i : Nat) (inn inn' : Inner) (h : InvW s) (hg : s.inners[i]? = some inn)
    (h1 : inn'.called = inn.called) (h2 : inn'.result = inn.result) (h3 : inn'.delivered = inn.delivered)
    (h4 : inn'.canc = inn.canc) (h5 : inn'.hasCont = inn.hasCont) :
    InvW { s with inners := s.inners.set i inn' } := by
  refine ⟨h.unf, h.fir, ?_, ?_⟩
  · intro j x hx
    have := h.inn
    unfold InnersOK InnerOK at *
    grind
  · show ChainOK s.result s.paused (s.inners.set i inn')
    have := h.chain
    unfold ChainOK OnlyCont NoCont at *
    grind

theorem fireInner_inv (s : State) (i : Nat) (r : Res) (h : InvW s) :
    InvW (fireInner s i r).1 ∧ OuterSame s (fireInner s i r).1 ∧
    (fireInner s i r).1.inners.length = s.inners.length := by
  cases hg : s.inners[i]? with
  | none => simp [fireInner, hg, h, OuterSame]
  | some inn =>
    cases hc : inn.called with
    | false =>
      obtain ⟨a, b, c, _⟩ := fireInner_fresh s i inn r h hg hc
      exact ⟨a, b, by rw [c.1]; simp⟩
    | true =>
      cases hs : inn.suppress with
      | true =>
        rw [fireInner_called_suppress s i inn r hg hc hs]
        exact ⟨invW_touch s i inn _ h hg rfl rfl rfl rfl rfl, ⟨rfl, rfl, rfl, rfl, rfl⟩, by simp⟩
      | false =>
        rw [fireInner_called_nosuppress s i inn r hg hc hs]
        exact ⟨h, ⟨rfl, rfl, rfl, rfl, rfl⟩, rfl⟩


theorem lt_of_get {l : List Inner} {i : Nat} {x : Inner} (h : l[i]? = some x) : i < l.length := by
  rcases Nat.lt_or_ge i l.length with h' | h'
  · exact h'
  · rw [List.getElem?_eq_none h'] at h; cases h

theorem fireInner_fresh' (t : State) (i : Nat) (x : Inner) (r : Res) (ht : InvW t)
    (hx : t.inners[i]? = some x) (hxc : x.called = false) :
    InvW (fireInner t i r).1 ∧ OuterSame t (fireInner t i r).1 ∧
    Frame (t.inners.set i (innFired x r)) (fireInner t i r).1.inners ∧
    innerCalled (fireInner t i r).1 i = true := by
  obtain ⟨a, b, c, _⟩ := fireInner_fresh t i x r ht hx hxc
  refine ⟨a, b, c, ?_⟩
  have hlt := lt_of_get hx
  obtain ⟨y, hy, hv⟩ := c.2 i (innFired x r) (by simp [hlt])
  unfold innerCalled
  rw [hy]
  exact hv.1

/-- what `cancel()` makes of an unfired inner Deferred, per canceller kind -/
def cancelTarget (catches : Bool) (inn : Inner) : Inner :=
  match inn.canc with
  | .none => innFired { inn with suppress := true } .cancelled
  | .noop => innFired { inn with cancCalls := inn.cancCalls + 1 } .cancelled
  | .firesOk v => innFired { inn with cancCalls := inn.cancCalls + 1 } (.val v)
  | .firesErr e => innFired { inn with cancCalls := inn.cancCalls + 1 } (.err e)
  | .raises =>
    if catches then innFired { inn with cancCalls := inn.cancCalls + 1 } .cancelled
    else { inn with cancCalls := inn.cancCalls + 1 }

def cancelOutcome (catches : Bool) (c : CancelSpec) : Outcome :=
  if c = .raises ∧ catches = false then .cancellerRaised else .ok

theorem outerSame_of_eq {s t u : State} (h : OuterSame t u) (h1 : t.called = s.called)
    (h2 : t.delivered = s.delivered) (h3 : t.suppress = s.suppress) (h4 : t.cancCalls = s.cancCalls)
    (h5 : t.canc = s.canc) : OuterSame s u := by
  unfold OuterSame at *
  grind

theorem canc_cases (c : CancelSpec) :
    c = .none ∨ c = .noop ∨ (∃ v, c = .firesOk v) ∨ (∃ e, c = .firesErr e) ∨ c = .raises := by
  cases c <;> simp

def touchInner (s : State) (i : Nat) (x : Inner) : State := { s with inners := s.inners.set i x }
def bumped (inn : Inner) : Inner := { inn with cancCalls := inn.cancCalls + 1 }
def suppressed (inn : Inner) : Inner := { inn with suppress := true }

theorem callCancellerInner_none (s : State) (i : Nat) (inn : Inner) (hc : inn.canc = .none) :
    callCancellerInner s i inn = (touchInner s i (suppressed inn), false) := by
  simp [callCancellerInner, hc, touchInner, suppressed]
theorem callCancellerInner_noop (s : State) (i : Nat) (inn : Inner) (hc : inn.canc = .noop) :
    callCancellerInner s i inn = (touchInner s i (bumped inn), false) := by
  simp [callCancellerInner, hc, touchInner, bumped]
theorem callCancellerInner_firesOk (s : State) (i : Nat) (inn : Inner) (v : Nat) (hc : inn.canc = .firesOk v) :
    callCancellerInner s i inn = ((fireInner (touchInner s i (bumped inn)) i (.val v)).1, false) := by
  simp [callCancellerInner, hc, touchInner, bumped]
theorem callCancellerInner_firesErr (s : State) (i : Nat) (inn : Inner) (e : Nat) (hc : inn.canc = .firesErr e) :
    callCancellerInner s i inn = ((fireInner (touchInner s i (bumped inn)) i (.err e)).1, false) := by
  simp [callCancellerInner, hc, touchInner, bumped]
theorem callCancellerInner_raises (s : State) (i : Nat) (inn : Inner) (hc : inn.canc = .raises) :
    callCancellerInner s i inn = (touchInner s i (bumped inn), true) := by
  simp [callCancellerInner, hc, touchInner, bumped]

theorem cancelInnerGen_unfired_eq (catches : Bool) (s : State) (i : Nat) (inn : Inner)
    (hg : s.inners[i]? = some inn) (hc : inn.called = false) :
    cancelInnerGen catches s i =
      if (callCancellerInner s i inn).2 && !catches then ((callCancellerInner s i inn).1, .cancellerRaised)
      else if !innerCalled (callCancellerInner s i inn).1 i then
        ((fireInner (callCancellerInner s i inn).1 i .cancelled).1, .ok)
      else ((callCancellerInner s i inn).1, .ok) := by
  simp [cancelInnerGen, hg, hc]

theorem cancelInner_unfired (catches : Bool) (s : State) (i : Nat) (inn : Inner) (h : InvW s)
    (hg : s.inners[i]? = some inn) (hc : inn.called = false) :
    InvW (cancelInnerGen catches s i).1 ∧ OuterSame s (cancelInnerGen catches s i).1 ∧
    Frame (s.inners.set i (cancelTarget catches inn)) (cancelInnerGen catches s i).1.inners ∧
    (cancelInnerGen catches s i).2 = cancelOutcome catches inn.canc := by
  have hlt := lt_of_get hg
  -- the state after `canceller(self)` returned (or raised) without firing
  have touch : ∀ x : Inner, x.called = inn.called → x.result = inn.result → x.delivered = inn.delivered →
      x.canc = inn.canc → x.hasCont = inn.hasCont →
      InvW (touchInner s i x) ∧ (touchInner s i x).inners[i]? = some x ∧
      innerCalled (touchInner s i x) i = false := by
    intro x h1 h2 h3 h4 h5
    exact ⟨invW_touch s i inn x h hg h1 h2 h3 h4 h5, by simp [touchInner, hlt],
      by simp [innerCalled, touchInner, hlt, h1, hc]⟩
  have same : ∀ x : Inner, ∀ u : State, OuterSame (touchInner s i x) u → OuterSame s u :=
    fun x u hu => outerSame_of_eq hu rfl rfl rfl rfl rfl
  have setset : ∀ x y : Inner, (touchInner s i x).inners.set i y = s.inners.set i y := by
    intro x y; simp [touchInner]
  rw [cancelInnerGen_unfired_eq catches s i inn hg hc]
  rcases canc_cases inn.canc with hcanc | hcanc | ⟨v, hcanc⟩ | ⟨e, hcanc⟩ | hcanc
  · obtain ⟨t1, t2, t3⟩ := touch (suppressed inn) rfl rfl rfl rfl rfl
    obtain ⟨a, b, c, d⟩ := fireInner_fresh' _ i _ .cancelled t1 t2 hc
    rw [callCancellerInner_none s i inn hcanc]
    simp only [Bool.false_and, Bool.false_eq_true, if_false, t3, Bool.not_false, if_true]
    rw [setset] at c
    refine ⟨a, same _ _ b, ?_, by simp [cancelOutcome, hcanc]⟩
    simpa [cancelTarget, hcanc, suppressed] using c
  · obtain ⟨t1, t2, t3⟩ := touch (bumped inn) rfl rfl rfl rfl rfl
    obtain ⟨a, b, c, d⟩ := fireInner_fresh' _ i _ .cancelled t1 t2 hc
    rw [callCancellerInner_noop s i inn hcanc]
    simp only [Bool.false_and, Bool.false_eq_true, if_false, t3, Bool.not_false, if_true]
    rw [setset] at c
    refine ⟨a, same _ _ b, ?_, by simp [cancelOutcome, hcanc]⟩
    simpa [cancelTarget, hcanc, bumped] using c
  · obtain ⟨t1, t2, t3⟩ := touch (bumped inn) rfl rfl rfl rfl rfl
    obtain ⟨a, b, c, d⟩ := fireInner_fresh' _ i _ (.val v) t1 t2 hc
    rw [callCancellerInner_firesOk s i inn v hcanc]
    simp only [Bool.false_and, Bool.false_eq_true, if_false, d, Bool.not_true]
    rw [setset] at c
    refine ⟨a, same _ _ b, ?_, by simp [cancelOutcome, hcanc]⟩
    simpa [cancelTarget, hcanc, bumped] using c
  · obtain ⟨t1, t2, t3⟩ := touch (bumped inn) rfl rfl rfl rfl rfl
    obtain ⟨a, b, c, d⟩ := fireInner_fresh' _ i _ (.err e) t1 t2 hc
    rw [callCancellerInner_firesErr s i inn e hcanc]
    simp only [Bool.false_and, Bool.false_eq_true, if_false, d, Bool.not_true]
    rw [setset] at c
    refine ⟨a, same _ _ b, ?_, by simp [cancelOutcome, hcanc]⟩
    simpa [cancelTarget, hcanc, bumped] using c
  · obtain ⟨t1, t2, t3⟩ := touch (bumped inn) rfl rfl rfl rfl rfl
    rw [callCancellerInner_raises s i inn hcanc]
    cases catches with
    | false =>
      simp only [Bool.not_false, Bool.and_self, if_true]
      refine ⟨t1, same _ _ ⟨rfl, rfl, rfl, rfl, rfl⟩, ?_, by simp [cancelOutcome, hcanc]⟩
      simpa [cancelTarget, hcanc, bumped, touchInner] using Frame.refl _
    | true =>
      obtain ⟨a, b, c, d⟩ := fireInner_fresh' _ i _ .cancelled t1 t2 hc
      simp only [Bool.not_true, Bool.and_false, Bool.false_eq_true, if_false, t3, Bool.not_false, if_true]
      rw [setset] at c
      refine ⟨a, same _ _ b, ?_, by simp [cancelOutcome, hcanc]⟩
      simpa [cancelTarget, hcanc, bumped] using c

/-- the result an unfired Deferred is given by `cancel()`: the canceller's, else `CancelledError` -/
def cancelDelivery : CancelSpec → Res
  | .firesOk v => .val v
  | .firesErr e => .err e
  | _ => .cancelled

def bumpedO (s : State) : State := { s with cancCalls := s.cancCalls + 1 }
def suppressedO (s : State) : State := { s with suppress := true }

theorem invW_bumpedO {s : State} (h : InvW s) : InvW (bumpedO s) := ⟨h.unf, h.fir, h.inn, h.chain⟩
theorem invW_suppressedO {s : State} (h : InvW s) : InvW (suppressedO s) := ⟨h.unf, h.fir, h.inn, h.chain⟩

theorem callCancellerOuter_none (s : State) (hc : s.canc = .none) :
    callCancellerOuter s = (suppressedO s, false) := by
  simp [callCancellerOuter, hc, suppressedO]
theorem callCancellerOuter_noop (s : State) (hc : s.canc = .noop) :
    callCancellerOuter s = (bumpedO s, false) := by
  simp [callCancellerOuter, hc, bumpedO]
theorem callCancellerOuter_firesOk (s : State) (v : Nat) (hc : s.canc = .firesOk v) :
    callCancellerOuter s = ((fireOuter (bumpedO s) (.val v)).1, false) := by
  simp [callCancellerOuter, hc, bumpedO]
theorem callCancellerOuter_firesErr (s : State) (e : Nat) (hc : s.canc = .firesErr e) :
    callCancellerOuter s = ((fireOuter (bumpedO s) (.err e)).1, false) := by
  simp [callCancellerOuter, hc, bumpedO]
theorem callCancellerOuter_raises (s : State) (hc : s.canc = .raises) :
    callCancellerOuter s = (bumpedO s, true) := by
  simp [callCancellerOuter, hc, bumpedO]

theorem cancelOuterGen_unfired_eq (catches : Bool) (s : State) (hc : s.called = false) :
    cancelOuterGen catches s =
      if (callCancellerOuter s).2 && !catches then ((callCancellerOuter s).1, .cancellerRaised)
      else if !(callCancellerOuter s).1.called then ((fireOuter (callCancellerOuter s).1 .cancelled).1, .ok)
      else ((callCancellerOuter s).1, .ok) := by
  simp [cancelOuterGen, hc]

/-- `cancel()` on the unfired outer Deferred whose canceller does not let an exception escape -/
theorem cancelOuter_unfired (catches : Bool) (s : State) (h : InvW s) (hc : s.called = false)
    (hr : ¬ (s.canc = .raises ∧ catches = false)) :
    InvW (cancelOuterGen catches s).1 ∧ Frame s.inners (cancelOuterGen catches s).1.inners ∧
    (cancelOuterGen catches s).2 = .ok ∧
    (cancelOuterGen catches s).1.called = true ∧
    (cancelOuterGen catches s).1.delivered = [cancelDelivery s.canc] ∧
    (cancelOuterGen catches s).1.cancCalls = s.cancCalls + (if s.canc = .none then 0 else 1) ∧
    (cancelOuterGen catches s).1.suppress = (if s.canc = .none then true else s.suppress) := by
  rw [cancelOuterGen_unfired_eq catches s hc]
  rcases canc_cases s.canc with hcanc | hcanc | ⟨v, hcanc⟩ | ⟨e, hcanc⟩ | hcanc
  · obtain ⟨a, b, c, d, e, f, g⟩ := fireOuter_fresh (suppressedO s) .cancelled (invW_suppressedO h) hc
    rw [callCancellerOuter_none s hcanc]
    have : (suppressedO s).called = false := hc
    simp only [Bool.false_and, Bool.false_eq_true, if_false, this, Bool.not_false, if_true]
    exact ⟨a, b, by trivial, by first | trivial | exact d, by simpa [cancelDelivery, hcanc] using e, by simpa [hcanc, suppressedO] using g,
      by simpa [hcanc, suppressedO] using f⟩
  · obtain ⟨a, b, c, d, e, f, g⟩ := fireOuter_fresh (bumpedO s) .cancelled (invW_bumpedO h) hc
    rw [callCancellerOuter_noop s hcanc]
    have : (bumpedO s).called = false := hc
    simp only [Bool.false_and, Bool.false_eq_true, if_false, this, Bool.not_false, if_true]
    exact ⟨a, b, by trivial, by first | trivial | exact d, by simpa [cancelDelivery, hcanc] using e, by simpa [hcanc, bumpedO] using g,
      by simpa [hcanc, bumpedO] using f⟩
  · obtain ⟨a, b, c, d, e, f, g⟩ := fireOuter_fresh (bumpedO s) (.val v) (invW_bumpedO h) hc
    rw [callCancellerOuter_firesOk s v hcanc]
    simp only [Bool.false_and, Bool.false_eq_true, if_false, d, Bool.not_true]
    exact ⟨a, b, by trivial, by first | trivial | exact d, by simpa [cancelDelivery, hcanc] using e, by simpa [hcanc, bumpedO] using g,
      by simpa [hcanc, bumpedO] using f⟩
  · obtain ⟨a, b, c, d, e', f, g⟩ := fireOuter_fresh (bumpedO s) (.err e) (invW_bumpedO h) hc
    rw [callCancellerOuter_firesErr s e hcanc]
    simp only [Bool.false_and, Bool.false_eq_true, if_false, d, Bool.not_true]
    exact ⟨a, b, by trivial, by first | trivial | exact d, by simpa [cancelDelivery, hcanc] using e', by simpa [hcanc, bumpedO] using g,
      by simpa [hcanc, bumpedO] using f⟩
  · have hcat : catches = true := by
      cases catches with
      | true => rfl
      | false => exact absurd ⟨hcanc, rfl⟩ hr
    subst hcat
    obtain ⟨a, b, c, d, e, f, g⟩ := fireOuter_fresh (bumpedO s) .cancelled (invW_bumpedO h) hc
    rw [callCancellerOuter_raises s hcanc]
    have : (bumpedO s).called = false := hc
    simp only [Bool.not_true, Bool.and_false, Bool.false_eq_true, if_false, this, Bool.not_false, if_true]
    exact ⟨a, b, by trivial, by first | trivial | exact d, by simpa [cancelDelivery, hcanc] using e, by simpa [hcanc, bumpedO] using g,
      by simpa [hcanc, bumpedO] using f⟩

/-- the code as it is: a raising canceller's exception leaves `cancel()`, nothing else happens -/
theorem cancelOuter_unfired_raises (s : State) (hc : s.called = false) (hcanc : s.canc = .raises) :
    cancelOuterGen false s = (bumpedO s, .cancellerRaised) := by
  rw [cancelOuterGen_unfired_eq false s hc, callCancellerOuter_raises s hcanc]
  simp

end TwistedProps.C03
