import TwistedModel.Defer.Cancel
/-! C03 helper lemmas, part 1: well-formedness of inner Deferreds, frame conditions, the `_runCallbacks` loop. -/
namespace TwistedProps.C03
open Twisted.Defer.Cancel

/-- well-formedness of one inner Deferred -/
def InnerOK (inn : Inner) : Prop :=
  (inn.called = false → inn.result = none ∧ inn.delivered = []) ∧
  (inn.called = true → inn.result ≠ none ∧ inn.delivered.length = 1 ∧ inn.canc = .none ∧ inn.hasCont = false)

def InnersOK (l : List Inner) : Prop := ∀ (j : Nat) (inn : Inner), l[j]? = some inn → InnerOK inn
def NoCont (l : List Inner) : Prop := ∀ (_j : Nat) (inn : Inner), l[_j]? = some inn → inn.hasCont = false
def OnlyCont (l : List Inner) (i : Nat) : Prop :=
  (∃ inn, l[i]? = some inn ∧ inn.called = false ∧ inn.hasCont = true) ∧
  ∀ (j : Nat) (inn : Inner), l[j]? = some inn → inn.hasCont = true → j = i

def ChainOK (res : OResult) (paused : Nat) (l : List Inner) : Prop :=
  match res with
  | .dref i => paused = 1 ∧ OnlyCont l i
  | _ => paused = 0 ∧ NoCont l

/-- the observable part of an inner Deferred -/
def SameView (a b : Inner) : Prop :=
  b.called = a.called ∧ b.delivered = a.delivered ∧ b.cancCalls = a.cancCalls ∧ b.canc = a.canc ∧
  b.suppress = a.suppress

def Frame (l l' : List Inner) : Prop :=
  l'.length = l.length ∧ ∀ (j : Nat) (inn : Inner), l[j]? = some inn → ∃ inn', l'[j]? = some inn' ∧ SameView inn inn'

theorem Frame.refl (l : List Inner) : Frame l l :=
  ⟨rfl, fun j inn h => ⟨inn, h, rfl, rfl, rfl, rfl, rfl⟩⟩

theorem Frame.trans {a b c : List Inner} (h1 : Frame a b) (h2 : Frame b c) : Frame a c := by
  refine ⟨h2.1.trans h1.1, fun j inn h => ?_⟩
  obtain ⟨x, hx, v1⟩ := h1.2 j inn h
  obtain ⟨y, hy, v2⟩ := h2.2 j x hx
  refine ⟨y, hy, ?_⟩
  unfold SameView at *
  grind

theorem runLoop_cons (both : Bool) (i : Nat) (rest : List (Bool × Nat)) (r : Res) (l : List Inner) :
    runLoop ((both, i) :: rest) r l =
      if r.isFailure && !both then runLoop rest r l
      else match l[i]? with
        | none => runLoop rest r l
        | some inn => match inn.result with
          | none => (rest, .dref i, l.set i { inn with hasCont := true }, true)
          | some r' => runLoop rest r' (l.set i { inn with result := some .pyNone }) := by
  rfl

theorem runLoop_skip (both : Bool) (i : Nat) (rest : List (Bool × Nat)) (r : Res) (l : List Inner)
    (hc : (r.isFailure && !both) = true) : runLoop ((both, i) :: rest) r l = runLoop rest r l := by
  rw [runLoop_cons]; simp only [hc, if_true]

theorem runLoop_missing (both : Bool) (i : Nat) (rest : List (Bool × Nat)) (r : Res) (l : List Inner)
    (hc : ¬ (r.isFailure && !both) = true) (hi : l[i]? = none) :
    runLoop ((both, i) :: rest) r l = runLoop rest r l := by
  rw [runLoop_cons]; simp [hc, hi]

theorem runLoop_chain (both : Bool) (i : Nat) (rest : List (Bool × Nat)) (r : Res) (l : List Inner)
    (inn : Inner) (hc : ¬ (r.isFailure && !both) = true) (hi : l[i]? = some inn) (hr : inn.result = none) :
    runLoop ((both, i) :: rest) r l = (rest, .dref i, l.set i { inn with hasCont := true }, true) := by
  rw [runLoop_cons]; simp [hc, hi, hr]

theorem runLoop_steal (both : Bool) (i : Nat) (rest : List (Bool × Nat)) (r r' : Res) (l : List Inner)
    (inn : Inner) (hc : ¬ (r.isFailure && !both) = true) (hi : l[i]? = some inn) (hr : inn.result = some r') :
    runLoop ((both, i) :: rest) r l = runLoop rest r' (l.set i { inn with result := some .pyNone }) := by
  rw [runLoop_cons]; simp [hc, hi, hr]

theorem runLoop_inv (cbs : List (Bool × Nat)) (r : Res) (l : List Inner)
    (h1 : InnersOK l) (h2 : NoCont l) :
    InnersOK (runLoop cbs r l).2.2.1 ∧ (runLoop cbs r l).2.1 ≠ .unset ∧
    ChainOK (runLoop cbs r l).2.1 (if (runLoop cbs r l).2.2.2 then 1 else 0) (runLoop cbs r l).2.2.1 ∧
    Frame l (runLoop cbs r l).2.2.1 := by
  induction cbs generalizing r l with
  | nil => simp [runLoop, ChainOK, h1, h2, Frame.refl]
  | cons e rest ih =>
    obtain ⟨both, i⟩ := e
    by_cases hc : (r.isFailure && !both) = true
    · rw [runLoop_skip _ _ _ _ _ hc]; exact ih r l h1 h2
    · cases hinn : l[i]? with
      | none => rw [runLoop_missing _ _ _ _ _ hc hinn]; exact ih r l h1 h2
      | some inn =>
        have hok := h1 i inn hinn
        cases hres : inn.result with
        | none =>
          rw [runLoop_chain _ _ _ _ _ _ hc hinn hres]
          have hcall : inn.called = false := by
            unfold InnerOK at hok; grind
          simp only [if_true]
          refine ⟨?_, by simp, ?_, ?_⟩
          · intro j x hx
            unfold InnersOK InnerOK at *
            grind
          · unfold ChainOK OnlyCont NoCont at *
            grind
          · unfold Frame SameView
            grind
        | some r' =>
          rw [runLoop_steal _ _ _ _ _ _ _ hc hinn hres]
          have hcall : inn.called = true := by
            unfold InnerOK at hok; grind
          have a1 : InnersOK (l.set i { inn with result := some .pyNone }) := by
            intro j x hx
            unfold InnersOK InnerOK at *
            grind
          have a2 : NoCont (l.set i { inn with result := some .pyNone }) := by
            unfold NoCont at *
            grind
          have a3 : Frame l (l.set i { inn with result := some .pyNone }) := by
            unfold Frame SameView
            grind
          obtain ⟨b1, b2, b3, b4⟩ := ih r' _ a1 a2
          exact ⟨b1, b2, b3, a3.trans b4⟩


theorem Frame.back {l l' : List Inner} (h : Frame l l') (j : Nat) (y : Inner) (hy : l'[j]? = some y) :
    ∃ x, l[j]? = some x ∧ SameView x y := by
  have hj : j < l.length := by
    have := h.1
    have : j < l'.length := by
      rcases Nat.lt_or_ge j l'.length with h' | h'
      · exact h'
      · rw [List.getElem?_eq_none h'] at hy; cases hy
    omega
  obtain ⟨y', hy', hv⟩ := h.2 j l[j] (by simp [hj])
  rw [hy] at hy'
  cases hy'
  exact ⟨l[j], by simp [hj], hv⟩

/-- the invariant without the `_suppressAlreadyCalled` clause (holds in intermediate states too) -/
structure InvW (s : State) : Prop where
  unf : s.called = false → s.result = .unset ∧ s.delivered = []
  fir : s.called = true → s.result ≠ .unset ∧ s.delivered.length = 1 ∧ s.canc = .none
  inn : InnersOK s.inners
  chain : ChainOK s.result s.paused s.inners

def OuterSame (s s' : State) : Prop :=
  s'.called = s.called ∧ s'.delivered = s.delivered ∧ s'.suppress = s.suppress ∧
  s'.cancCalls = s.cancCalls ∧ s'.canc = s.canc

theorem runOuter_outer (s : State) : OuterSame s (runOuter s) := by
  unfold runOuter OuterSame
  split
  · simp
  · split <;> simp

theorem runOuter_spec (s : State) (r : Res) (hc : s.called = true) (hp : s.paused = 0)
    (hr : s.result = .res r) (hd : s.delivered.length = 1) (hcanc : s.canc = .none)
    (hi : InnersOK s.inners) (hn : NoCont s.inners) :
    InvW (runOuter s) ∧ Frame s.inners (runOuter s).inners := by
  obtain ⟨a1, a2, a3, a4⟩ := runLoop_inv s.callbacks r s.inners hi hn
  unfold runOuter
  simp only [hp, hr, ne_eq, not_true_eq_false, if_false]
  refine ⟨⟨?_, ?_, a1, ?_⟩, a4⟩
  · intro h; simp [hc] at h
  · intro _; exact ⟨a2, hd, hcanc⟩
  · simpa using a3

end TwistedProps.C03
