import TwistedModel.Defer.Reenter
/-! C03 helper lemmas, part 5: re-entrant operations on one Deferred (model `TwistedModel/Defer/Reenter.lean`):
    the callback loop changes nothing but the ignore-flag and the log; invariant of every reachable state. -/
namespace TwistedProps.C03.Reent
open Twisted.Defer.Cancel (Res CancelSpec Outcome)
open Twisted.Defer.Reenter

/-- a record of a re-entrant `callback()/errback()` that was silently swallowed -/
def swallowedRec (r : Rec) : Bool :=
  match r.act, r.out with
  | .fire _, .ok => true
  | _, _ => false

def swallowed (l : List Rec) : Nat := (l.filter swallowedRec).length

/-- a record that obeys the statement for a Deferred that has its result and no ignore pending:
    `cancel()` returned without effect, `callback()/errback()` raised AlreadyCalledError -/
def refusedRec (r : Rec) : Prop :=
  match r.act with
  | .cancel => r.out = .ok
  | .fire _ => r.out = .alreadyCalled

/-- everything but the ignore-flag and the log -/
def Same (s t : State) : Prop :=
  t.called = s.called ∧ t.delivered = s.delivered ∧ t.cancCalls = s.cancCalls ∧ t.result = s.result ∧
  t.canc = s.canc ∧ t.callbacks = s.callbacks

theorem swallowed_snoc (l : List Rec) (x : Rec) :
    swallowed (l ++ [x]) = swallowed l + (if swallowedRec x then 1 else 0) := by
  unfold swallowed
  by_cases h : swallowedRec x = true <;> simp [List.filter_append, h]

theorem runAct_swallow (s : State) (a : Act) :
    swallowed (runAct s a).log + (if (runAct s a).suppress then 1 else 0)
      ≤ swallowed s.log + (if s.suppress then 1 else 0) := by
  cases a with
  | cancel =>
    show swallowed (s.log ++ [⟨.cancel, .ok⟩]) + (if s.suppress then 1 else 0) ≤ _
    rw [swallowed_snoc]; simp [swallowedRec]
  | fire r =>
    unfold runAct refire
    by_cases h : s.suppress = true
    · simp only [h, if_true]; rw [swallowed_snoc]; simp [swallowedRec]
    · simp only [h, Bool.false_eq_true, if_false]; rw [swallowed_snoc]; simp [swallowedRec]

theorem runAct_same (s : State) (a : Act) : Same s (runAct s a) := by
  cases a with
  | cancel => exact ⟨rfl, rfl, rfl, rfl, rfl, rfl⟩
  | fire r =>
    unfold runAct refire
    by_cases h : s.suppress = true <;> simp [h, Same]

/-- **Re-entrant operations change nothing.**  However many callbacks of a fired Deferred call
    `callback()`, `errback()` or `cancel()` on it: its `called`, the result it was given, its current
    result and its canceller count stay; at most ONE of the calls is swallowed, and only if the
    ignore-flag was set; if it was not set, every one is refused (`refusedRec`). -/
theorem foldl_runAct_spec (acts : List Act) (s : State) :
    let t := acts.foldl runAct s
    Same s t ∧
    swallowed t.log ≤ swallowed s.log + (if s.suppress then 1 else 0) ∧
    (s.suppress = false → t.suppress = false ∧ ∀ r ∈ t.log, r ∈ s.log ∨ refusedRec r) := by
  induction acts generalizing s with
  | nil =>
    refine ⟨⟨rfl, rfl, rfl, rfl, rfl, rfl⟩, by simp, fun h => ⟨h, fun r hr => Or.inl hr⟩⟩
  | cons a as ih =>
    simp only [List.foldl_cons]
    obtain ⟨hs, hw, hr⟩ := ih (runAct s a)
    have h1 := runAct_same s a
    refine ⟨?_, ?_, ?_⟩
    · obtain ⟨a1, a2, a3, a4, a5, a6⟩ := h1
      obtain ⟨b1, b2, b3, b4, b5, b6⟩ := hs
      exact ⟨b1.trans a1, b2.trans a2, b3.trans a3, b4.trans a4, b5.trans a5, b6.trans a6⟩
    · exact Nat.le_trans hw (runAct_swallow s a)
    · intro hsup
      have hsup' : (runAct s a).suppress = false := by
        cases a with
        | cancel => simpa [runAct] using hsup
        | fire r => simp [runAct, refire, hsup]
      obtain ⟨h2, h3⟩ := hr hsup'
      refine ⟨h2, fun r hr => ?_⟩
      rcases h3 r hr with h4 | h4
      · cases a with
        | cancel =>
          simp only [runAct, List.mem_append, List.mem_singleton] at h4
          rcases h4 with h4 | h4
          · exact Or.inl h4
          · right; subst h4; simp [refusedRec]
        | fire x =>
          simp only [runAct, refire, hsup, Bool.false_eq_true, if_false, List.mem_append, List.mem_singleton] at h4
          rcases h4 with h4 | h4
          · exact Or.inl h4
          · right; subst h4; simp [refusedRec]
      · exact Or.inr h4

theorem runCbs_spec (s : State) :
    let t := runCbs s
    t.called = s.called ∧ t.delivered = s.delivered ∧ t.cancCalls = s.cancCalls ∧ t.result = s.result ∧
    t.canc = s.canc ∧ t.callbacks = [] ∧
    swallowed t.log ≤ swallowed s.log + (if s.suppress then 1 else 0) ∧
    (s.suppress = false → t.suppress = false ∧ ∀ r ∈ t.log, r ∈ s.log ∨ refusedRec r) := by
  have h := foldl_runAct_spec s.callbacks { s with callbacks := [] }
  obtain ⟨⟨a1, a2, a3, a4, a5, a6⟩, hw, hr⟩ := h
  exact ⟨a1, a2, a3, a4, a5, a6, hw, hr⟩

/-- invariant of every reachable state -/
structure Inv (s : State) : Prop where
  unf : s.called = false → s.delivered = [] ∧ s.suppress = false ∧ s.result = none
  fir : s.called = true → s.delivered.length = 1 ∧ s.callbacks = [] ∧ s.canc = .none

theorem init_inv (spec : CancelSpec) : Inv (init spec) :=
  ⟨fun _ => ⟨rfl, rfl, rfl⟩, fun h => by simp [init] at h⟩

theorem fire_unfired_eq (s : State) (r : Res) (hc : s.called = false) :
    fire s r = (runCbs { s with called := true, canc := .none, result := some r, delivered := s.delivered ++ [r] }, .ok) := by
  unfold fire; simp [hc]

theorem fire_called_eq (s : State) (r : Res) (hc : s.called = true) : fire s r = refire s := by
  unfold fire; simp [hc]

/-- firing an unfired Deferred (from outside, from its canceller, or by `cancel()` itself) -/
theorem fire_fresh (s : State) (r : Res) (hc : s.called = false) (hd : s.delivered = []) :
    (fire s r).2 = .ok ∧ (fire s r).1.called = true ∧ (fire s r).1.delivered = [r] ∧
    (fire s r).1.cancCalls = s.cancCalls ∧ (fire s r).1.callbacks = [] ∧ (fire s r).1.canc = .none ∧
    swallowed (fire s r).1.log ≤ swallowed s.log + (if s.suppress then 1 else 0) ∧
    (s.suppress = false → (fire s r).1.suppress = false ∧ ∀ x ∈ (fire s r).1.log, x ∈ s.log ∨ refusedRec x) := by
  rw [fire_unfired_eq s r hc]
  obtain ⟨a1, a2, a3, _, a5, a6, a7, a8⟩ := runCbs_spec { s with called := true, canc := .none, result := some r, delivered := s.delivered ++ [r] }
  refine ⟨rfl, a1, ?_, a3, a6, a5, a7, a8⟩
  show (runCbs _).delivered = [r]
  rw [a2]; simp [hd]

theorem inv_of_fired {t : State} (b : t.called = true) (c : t.delivered.length = 1) (e : t.callbacks = [])
    (f : t.canc = .none) : Inv t :=
  ⟨fun h => (by rw [b] at h; cases h), fun _ => ⟨c, e, f⟩⟩

theorem fire_inv (s : State) (r : Res) (hi : Inv s) : Inv (fire s r).1 := by
  cases hc : s.called with
  | false =>
    obtain ⟨_, b, c, _, e, f, _⟩ := fire_fresh s r hc (hi.unf hc).1
    exact inv_of_fired b (by rw [c]; rfl) e f
  | true =>
    rw [fire_called_eq s r hc]
    unfold refire
    by_cases h : s.suppress = true
    · simp only [h, if_true]
      exact ⟨fun h' => (by simp [hc] at h'), fun _ => hi.fir hc⟩
    · simp only [h, Bool.false_eq_true, if_false]; exact hi

def bumped (s : State) : State := { s with cancCalls := s.cancCalls + 1 }
def flagged (s : State) : State := { s with suppress := true }

theorem cancel_called (s : State) (hc : s.called = true) : cancel s = (s, .ok) := by
  unfold cancel; simp [hc]
theorem cancel_none (s : State) (hc : s.called = false) (h : s.canc = .none) :
    cancel s = ((fire (flagged s) .cancelled).1, .ok) := by
  unfold cancel flagged; simp [hc, h]
theorem cancel_noop (s : State) (hc : s.called = false) (h : s.canc = .noop) :
    cancel s = ((fire (bumped s) .cancelled).1, .ok) := by
  unfold cancel bumped; simp [hc, h]
theorem cancel_firesOk (s : State) (v : Nat) (hc : s.called = false) (h : s.canc = .firesOk v) :
    cancel s = ((fire (bumped s) (.val v)).1, .ok) := by
  unfold cancel bumped; simp [hc, h]
theorem cancel_firesErr (s : State) (e : Nat) (hc : s.called = false) (h : s.canc = .firesErr e) :
    cancel s = ((fire (bumped s) (.err e)).1, .ok) := by
  unfold cancel bumped; simp [hc, h]
theorem cancel_raises (s : State) (hc : s.called = false) (h : s.canc = .raises) :
    cancel s = (bumped s, .cancellerRaised) := by
  unfold cancel bumped; simp [hc, h]

theorem bumped_inv {s : State} (hi : Inv s) : Inv (bumped s) := ⟨hi.unf, hi.fir⟩

theorem cancel_inv (s : State) (hi : Inv s) : Inv (cancel s).1 := by
  cases hc : s.called with
  | true => rw [cancel_called s hc]; exact hi
  | false =>
    cases hcc : s.canc with
    | none =>
      -- the flag is set on the unfired Deferred for the duration of the errback only
      rw [cancel_none s hc hcc]
      obtain ⟨_, b, c, _, e, f, _⟩ := fire_fresh (flagged s) .cancelled hc (hi.unf hc).1
      exact inv_of_fired b (by rw [c]; rfl) e f
    | noop => rw [cancel_noop s hc hcc]; exact fire_inv _ _ (bumped_inv hi)
    | firesOk v => rw [cancel_firesOk s v hc hcc]; exact fire_inv _ _ (bumped_inv hi)
    | firesErr e => rw [cancel_firesErr s e hc hcc]; exact fire_inv _ _ (bumped_inv hi)
    | raises => rw [cancel_raises s hc hcc]; exact bumped_inv hi

def pushed (s : State) (a : Act) : State := { s with callbacks := s.callbacks ++ [a] }

theorem add_unfired (s : State) (a : Act) (hc : s.called = false) : add s a = pushed s a := by
  unfold add pushed; simp [hc]
theorem add_fired (s : State) (a : Act) (hc : s.called = true) : add s a = runCbs (pushed s a) := by
  unfold add pushed; simp [hc]

theorem add_inv (s : State) (a : Act) (hi : Inv s) : Inv (add s a) := by
  cases hc : s.called with
  | false =>
    rw [add_unfired s a hc]
    exact ⟨hi.unf, fun h => (by have : s.called = true := h; rw [hc] at this; cases this)⟩
  | true =>
    rw [add_fired s a hc]
    obtain ⟨a1, a2, _, _, a5, a6, _, _⟩ := runCbs_spec (pushed s a)
    exact inv_of_fired (a1.trans hc) (by rw [a2]; exact (hi.fir hc).1) a6 (a5.trans (hi.fir hc).2.2)

theorem step_inv (s : State) (op : Op) (hi : Inv s) : Inv (step s op).1 := by
  have h0 : Inv { s with log := [] } := ⟨hi.unf, hi.fir⟩
  cases op with
  | callback v => exact fire_inv _ _ h0
  | errback e => exact fire_inv _ _ h0
  | cancel => exact cancel_inv _ h0
  | add a => exact add_inv _ a h0

theorem exec_inv (s : State) (h : List Op) (hi : Inv s) : Inv (exec s h) := by
  induction h generalizing s with
  | nil => exact hi
  | cons op ops ih => exact ih _ (step_inv s op hi)

end TwistedProps.C03.Reent
