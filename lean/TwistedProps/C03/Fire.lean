import TwistedProps.C03.Basic
/-! C03 helper lemmas, part 2: `_startRunCallbacks` on the outer and on an inner Deferred. -/
namespace TwistedProps.C03
open Twisted.Defer.Cancel

theorem chain_nocont {res : OResult} {p : Nat} {l : List Inner} (h : ChainOK res p l)
    (hr : ∀ i, res ≠ .dref i) : p = 0 ∧ NoCont l := by
  unfold ChainOK at h
  cases res with
  | dref i => exact absurd rfl (hr i)
  | unset => exact h
  | res r => exact h

theorem fireOuter_called_suppress (s : State) (r : Res) (hc : s.called = true) (hs : s.suppress = true) :
    fireOuter s r = ({ s with suppress := false }, .ok) := by
  simp [fireOuter, hc, hs]

theorem fireOuter_called_nosuppress (s : State) (r : Res) (hc : s.called = true) (hs : s.suppress = false) :
    fireOuter s r = (s, .alreadyCalled) := by
  simp [fireOuter, hc, hs]

/-- the assignments of `_startRunCallbacks` once the `called` check has passed -/
def accepted (s : State) (r : Res) : State :=
  { s with called := true, canc := .none, result := .res r, delivered := s.delivered ++ [r] }

theorem fireOuter_fresh_eq (s : State) (r : Res) (hc : s.called = false) :
    fireOuter s r = (runOuter (accepted s r), .ok) := by
  simp [fireOuter, hc, accepted]

/-- the one result an unfired outer Deferred accepts -/
theorem fireOuter_fresh (s : State) (r : Res) (h : InvW s) (hc : s.called = false) :
    InvW (fireOuter s r).1 ∧ Frame s.inners (fireOuter s r).1.inners ∧ (fireOuter s r).2 = .ok ∧
    (fireOuter s r).1.called = true ∧ (fireOuter s r).1.delivered = [r] ∧
    (fireOuter s r).1.suppress = s.suppress ∧ (fireOuter s r).1.cancCalls = s.cancCalls := by
  rw [fireOuter_fresh_eq s r hc]
  obtain ⟨hu1, hu2⟩ := h.unf hc
  have hch := h.chain
  rw [hu1] at hch
  obtain ⟨hp, hn⟩ := chain_nocont hch (by intro i; simp)
  have key := runOuter_spec (accepted s r) r rfl hp rfl (by simp [accepted, hu2]) rfl h.inn hn
  have ho := runOuter_outer (accepted s r)
  unfold OuterSame at ho
  refine ⟨key.1, key.2, rfl, ?_, ?_, ?_, ?_⟩
  · exact ho.1
  · show (runOuter (accepted s r)).delivered = [r]
    rw [ho.2.1]; simp [accepted, hu2]
  · exact ho.2.2.1
  · exact ho.2.2.2.1

theorem fireOuter_inv (s : State) (r : Res) (h : InvW s) :
    InvW (fireOuter s r).1 ∧ Frame s.inners (fireOuter s r).1.inners ∧
    (fireOuter s r).1.cancCalls = s.cancCalls := by
  cases hc : s.called with
  | false => have := fireOuter_fresh s r h hc; exact ⟨this.1, this.2.1, this.2.2.2.2.2.2⟩
  | true =>
    cases hs : s.suppress with
    | true =>
      rw [fireOuter_called_suppress s r hc hs]
      exact ⟨⟨h.unf, h.fir, h.inn, h.chain⟩, Frame.refl _, rfl⟩
    | false =>
      rw [fireOuter_called_nosuppress s r hc hs]
      exact ⟨h, Frame.refl _, rfl⟩


/-- an inner Deferred right after `_startRunCallbacks` accepted `r` -/
def innFired (inn : Inner) (r : Res) : Inner :=
  { inn with called := true, canc := .none, result := some r, delivered := inn.delivered ++ [r] }

/-- … and after its result was handed to the waiting outer Deferred -/
def innHanded (inn : Inner) (r : Res) : Inner :=
  { innFired inn r with result := some .pyNone, hasCont := false }

/-- the outer Deferred receiving the result through `_CONTINUE` -/
def resumed (s : State) (i : Nat) (inn : Inner) (r : Res) : State :=
  { s with inners := s.inners.set i (innHanded inn r), result := .res r, paused := s.paused - 1 }

theorem fireInner_called_suppress (s : State) (i : Nat) (inn : Inner) (r : Res)
    (hg : s.inners[i]? = some inn) (hc : inn.called = true) (hs : inn.suppress = true) :
    fireInner s i r = ({ s with inners := s.inners.set i { inn with suppress := false } }, .ok) := by
  simp [fireInner, hg, hc, hs]

theorem fireInner_called_nosuppress (s : State) (i : Nat) (inn : Inner) (r : Res)
    (hg : s.inners[i]? = some inn) (hc : inn.called = true) (hs : inn.suppress = false) :
    fireInner s i r = (s, .alreadyCalled) := by
  simp [fireInner, hg, hc, hs]

theorem fireInner_fresh_nocont (s : State) (i : Nat) (inn : Inner) (r : Res)
    (hg : s.inners[i]? = some inn) (hc : inn.called = false) (hk : inn.hasCont = false) :
    fireInner s i r = ({ s with inners := s.inners.set i (innFired inn r) }, .ok) := by
  simp [fireInner, hg, hc, hk, innFired]

theorem fireInner_fresh_cont (s : State) (i : Nat) (inn : Inner) (r : Res)
    (hg : s.inners[i]? = some inn) (hc : inn.called = false) (hk : inn.hasCont = true) :
    fireInner s i r = (runOuter (resumed s i inn r), .ok) := by
  simp [fireInner, hg, hc, hk, resumed, innHanded, innFired]

theorem fireInner_fresh (s : State) (i : Nat) (inn : Inner) (r : Res) (h : InvW s)
    (hg : s.inners[i]? = some inn) (hc : inn.called = false) :
    InvW (fireInner s i r).1 ∧ OuterSame s (fireInner s i r).1 ∧
    Frame (s.inners.set i (innFired inn r)) (fireInner s i r).1.inners ∧ (fireInner s i r).2 = .ok := by
  have hok := h.inn i inn hg
  have hch := h.chain
  cases hk : inn.hasCont with
  | false =>
    rw [fireInner_fresh_nocont s i inn r hg hc hk]
    refine ⟨⟨h.unf, h.fir, ?_, ?_⟩, ⟨rfl, rfl, rfl, rfl, rfl⟩, Frame.refl _, rfl⟩
    · intro j x hx
      have := h.inn
      unfold InnersOK InnerOK innFired at *
      grind
    · show ChainOK s.result s.paused (s.inners.set i (innFired inn r))
      unfold ChainOK OnlyCont NoCont innFired at *
      grind
  | true =>
    rw [fireInner_fresh_cont s i inn r hg hc hk]
    have hres : s.result = .dref i := by
      unfold ChainOK OnlyCont NoCont at hch
      grind
    rw [hres] at hch
    have hp : s.paused = 1 := hch.1
    have hcalled : s.called = true := by
      cases hcd : s.called with
      | true => rfl
      | false => have := (h.unf hcd).1; rw [hres] at this; cases this
    obtain ⟨f1, f2, f3⟩ := h.fir hcalled
    have hi : InnersOK (resumed s i inn r).inners := by
      intro j x hx
      have := h.inn
      unfold resumed innHanded innFired at hx
      unfold InnersOK InnerOK at *
      grind
    have hn : NoCont (resumed s i inn r).inners := by
      unfold resumed innHanded innFired
      unfold ChainOK OnlyCont at hch
      unfold NoCont
      grind
    have key := runOuter_spec (resumed s i inn r) r hcalled (by simp [resumed, hp]) rfl f2 f3 hi hn
    have ho := runOuter_outer (resumed s i inn r)
    refine ⟨key.1, ho, Frame.trans ?_ key.2, rfl⟩
    unfold Frame SameView resumed innHanded innFired
    grind

end TwistedProps.C03
