import TwistedProps.C03.Cancel
/-! C03 helper lemmas, part 4: `addCallback`, and the invariant of every reachable state. -/
namespace TwistedProps.C03
open Twisted.Defer.Cancel

def freshInner (spec : CancelSpec) : Inner := { canc := spec }

def appended (s : State) (both : Bool) (spec : CancelSpec) : State :=
  { s with inners := s.inners ++ [freshInner spec], callbacks := s.callbacks ++ [(both, s.inners.length)] }

theorem addInner_eq (s : State) (both : Bool) (spec : CancelSpec) :
    addInner s both spec = if s.called then runOuter (appended s both spec) else appended s both spec := by
  simp [addInner, appended, freshInner]

theorem invW_appended (s : State) (both : Bool) (spec : CancelSpec) (h : InvW s) :
    InvW (appended s both spec) := by
  refine ⟨h.unf, h.fir, ?_, ?_⟩
  · intro j x hx
    have := h.inn
    unfold appended freshInner at hx
    unfold InnersOK InnerOK at *
    grind
  · show ChainOK s.result s.paused (s.inners ++ [freshInner spec])
    have := h.chain
    unfold ChainOK OnlyCont NoCont freshInner at *
    grind

theorem addInner_spec (s : State) (both : Bool) (spec : CancelSpec) (h : InvW s) :
    InvW (addInner s both spec) ∧ OuterSame s (addInner s both spec) ∧
    Frame (s.inners ++ [freshInner spec]) (addInner s both spec).inners := by
  rw [addInner_eq]
  have ha := invW_appended s both spec h
  cases hc : s.called with
  | false => simp only [Bool.false_eq_true, if_false]; exact ⟨ha, ⟨rfl, rfl, rfl, rfl, rfl⟩, Frame.refl _⟩
  | true =>
    simp only [if_true]
    have ho := runOuter_outer (appended s both spec)
    obtain ⟨f1, f2, f3⟩ := h.fir hc
    cases hres : s.result with
    | unset => exact absurd hres f1
    | dref k =>
      have hch := h.chain
      rw [hres] at hch
      have hp : (appended s both spec).paused ≠ 0 := by
        show s.paused ≠ 0
        rw [hch.1]; simp
      have : runOuter (appended s both spec) = appended s both spec := by
        unfold runOuter; simp [hp]
      rw [this]
      exact ⟨ha, ⟨rfl, rfl, rfl, rfl, rfl⟩, Frame.refl _⟩
    | res r =>
      have hch := ha.chain
      have hres' : (appended s both spec).result = .res r := hres
      rw [hres'] at hch
      obtain ⟨hp, hn⟩ := chain_nocont hch (by intro i; simp)
      have key := runOuter_spec (appended s both spec) r hc hp hres' f2 f3 ha.inn hn
      exact ⟨key.1, outerSame_of_eq ho rfl rfl rfl rfl rfl, key.2⟩


/-- `_suppressAlreadyCalled` is only ever set on a fired Deferred -/
def SupInners (l : List Inner) : Prop :=
  ∀ (j : Nat) (x : Inner), l[j]? = some x → x.called = false → x.suppress = false

/-- the invariant of every reachable state -/
structure Inv (s : State) : Prop where
  w : InvW s
  supO : s.called = false → s.suppress = false
  supI : SupInners s.inners

theorem supInners_frame {L l' : List Inner} (hf : Frame L l') (h : SupInners L) : SupInners l' := by
  intro j y hy hyc
  obtain ⟨x, hx, hv⟩ := hf.back j y hy
  unfold SameView at hv
  have := h j x hx (by rw [← hv.1]; exact hyc)
  rw [hv.2.2.2.2]; exact this

theorem supInners_set {l : List Inner} {i : Nat} {y : Inner} (h : SupInners l)
    (hy : y.called = false → y.suppress = false) : SupInners (l.set i y) := by
  unfold SupInners at *
  grind

theorem fireOuter_called (s : State) (r : Res) (h : InvW s) : (fireOuter s r).1.called = true := by
  cases hc : s.called with
  | false => exact (fireOuter_fresh s r h hc).2.2.2.1
  | true =>
    cases hs : s.suppress with
    | true => rw [fireOuter_called_suppress s r hc hs]; exact hc
    | false => rw [fireOuter_called_nosuppress s r hc hs]; exact hc

theorem fireOuter_Inv (s : State) (r : Res) (h : Inv s) : Inv (fireOuter s r).1 := by
  obtain ⟨a, b, _⟩ := fireOuter_inv s r h.w
  refine ⟨a, ?_, supInners_frame b h.supI⟩
  intro hc
  rw [fireOuter_called s r h.w] at hc
  cases hc

theorem fireInner_Inv (s : State) (i : Nat) (r : Res) (h : Inv s) : Inv (fireInner s i r).1 := by
  obtain ⟨a, b, _⟩ := fireInner_inv s i r h.w
  have hO : (fireInner s i r).1.called = false → (fireInner s i r).1.suppress = false := by
    unfold OuterSame at b
    intro hc
    rw [b.2.2.1]
    exact h.supO (by rw [← b.1]; exact hc)
  refine ⟨a, hO, ?_⟩
  cases hg : s.inners[i]? with
  | none =>
    have : fireInner s i r = (s, .badIndex) := by simp [fireInner, hg]
    rw [this]; exact h.supI
  | some inn =>
    cases hc : inn.called with
    | false =>
      obtain ⟨_, _, c, _⟩ := fireInner_fresh s i inn r h.w hg hc
      exact supInners_frame c (supInners_set h.supI (by simp [innFired]))
    | true =>
      cases hs : inn.suppress with
      | true =>
        rw [fireInner_called_suppress s i inn r hg hc hs]
        exact supInners_set h.supI (by simp)
      | false =>
        rw [fireInner_called_nosuppress s i inn r hg hc hs]
        exact h.supI

theorem cancelTarget_sup (catches : Bool) (inn : Inner) (h : inn.called = false → inn.suppress = false) :
    (cancelTarget catches inn).called = false → (cancelTarget catches inn).suppress = false := by
  unfold cancelTarget
  rcases canc_cases inn.canc with hc | hc | ⟨v, hc⟩ | ⟨e, hc⟩ | hc <;> simp only [hc]
  · simp [innFired]
  · simp [innFired]
  · simp [innFired]
  · simp [innFired]
  · cases catches
    · simpa using h
    · simp [innFired]

theorem cancelInnerGen_called (catches : Bool) (s : State) (i : Nat) (inn : Inner)
    (hg : s.inners[i]? = some inn) (hc : inn.called = true) : cancelInnerGen catches s i = (s, .ok) := by
  simp [cancelInnerGen, hg, hc]

theorem cancelInnerGen_none (catches : Bool) (s : State) (i : Nat)
    (hg : s.inners[i]? = none) : cancelInnerGen catches s i = (s, .badIndex) := by
  simp [cancelInnerGen, hg]

theorem cancelInner_Inv (catches : Bool) (s : State) (i : Nat) (h : Inv s) :
    Inv (cancelInnerGen catches s i).1 := by
  cases hg : s.inners[i]? with
  | none => rw [cancelInnerGen_none catches s i hg]; exact h
  | some inn =>
    cases hc : inn.called with
    | true => rw [cancelInnerGen_called catches s i inn hg hc]; exact h
    | false =>
      obtain ⟨a, b, c, _⟩ := cancelInner_unfired catches s i inn h.w hg hc
      refine ⟨a, ?_, supInners_frame c (supInners_set h.supI (cancelTarget_sup catches inn (h.supI i inn hg)))⟩
      unfold OuterSame at b
      intro hcc
      rw [b.2.2.1]
      exact h.supO (by rw [← b.1]; exact hcc)

theorem cancelOuterGen_called_dref (catches : Bool) (s : State) (i : Nat) (hc : s.called = true)
    (hres : s.result = .dref i) : cancelOuterGen catches s = cancelInnerGen catches s i := by
  simp [cancelOuterGen, hc, hres]

theorem cancelOuterGen_called_other (catches : Bool) (s : State) (hc : s.called = true)
    (hres : ∀ i, s.result ≠ .dref i) : cancelOuterGen catches s = (s, .ok) := by
  unfold cancelOuterGen
  cases h : s.result with
  | dref i => exact absurd h (hres i)
  | unset => simp [hc]
  | res r => simp [hc]

theorem cancelOuter_Inv (catches : Bool) (s : State) (h : Inv s) : Inv (cancelOuterGen catches s).1 := by
  cases hc : s.called with
  | true =>
    cases hres : s.result with
    | dref i => rw [cancelOuterGen_called_dref catches s i hc hres]; exact cancelInner_Inv catches s i h
    | unset => rw [cancelOuterGen_called_other catches s hc (by simp [hres])]; exact h
    | res r => rw [cancelOuterGen_called_other catches s hc (by simp [hres])]; exact h
  | false =>
    by_cases hr : s.canc = .raises ∧ catches = false
    · obtain ⟨h1, h2⟩ := hr
      subst h2
      rw [cancelOuter_unfired_raises s hc h1]
      exact ⟨invW_bumpedO h.w, h.supO, h.supI⟩
    · obtain ⟨a, b, _, d, _⟩ := cancelOuter_unfired catches s h.w hc hr
      refine ⟨a, ?_, supInners_frame b h.supI⟩
      intro hcc; rw [d] at hcc; cases hcc

theorem addInner_Inv (s : State) (both : Bool) (spec : CancelSpec) (h : Inv s) :
    Inv (addInner s both spec) := by
  obtain ⟨a, b, c⟩ := addInner_spec s both spec h.w
  refine ⟨a, ?_, supInners_frame c ?_⟩
  · unfold OuterSame at b
    intro hcc
    rw [b.2.2.1]
    exact h.supO (by rw [← b.1]; exact hcc)
  · have := h.supI
    unfold SupInners freshInner at *
    grind

theorem step_Inv (catches : Bool) (s : State) (op : Op) (h : Inv s) : Inv (stepGen catches s op).1 := by
  cases op with
  | callback v => exact fireOuter_Inv s _ h
  | errback e => exact fireOuter_Inv s _ h
  | cancel => exact cancelOuter_Inv catches s h
  | add both spec => exact addInner_Inv s both spec h
  | fireInner i isErr n => exact fireInner_Inv s i _ h
  | cancelInner i => exact cancelInner_Inv catches s i h

theorem init_Inv (spec : CancelSpec) : Inv (init spec) := by
  refine ⟨⟨?_, ?_, ?_, ?_⟩, ?_, ?_⟩ <;> simp [init, InnersOK, ChainOK, NoCont, SupInners]

theorem exec_Inv (catches : Bool) (s : State) (h : List Op) (hs : Inv s) : Inv (execGen catches s h) := by
  induction h generalizing s with
  | nil => exact hs
  | cons op ops ih => exact ih _ (step_Inv catches s op hs)

end TwistedProps.C03
