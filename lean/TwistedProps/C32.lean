import TwistedProps.C32.Message
/-!
C32 — DNS messages round-trip through the wire format.

Model: `TwistedModel/Dns/Wire.lean` (transcription of `Name`, `Query`, `RRHeader`, every
`Record_*`, `Message`, `_OPTHeader`, `_EDNSMessage` of `twisted/names/dns.py`, after the two
repairs recorded in `known-findings.txt`).  Lemmas: `TwistedProps/C32/*.lean`.

Statement, clause by clause:

1. *encoding then decoding yields an equal message* — `decode_encode_message`: for every message
   whose queries and records are well-formed (`wfMsg`: supported record shapes, in-range fields,
   names of 1..63-byte labels) that is not over its size limit, whatever `Message.toStr` returns
   is decoded by `Message.fromStr` to the same header fields, queries and records (`maxSize`,
   which is not on the wire, reads back as 0).  No bound on sizes, counts or on how names share
   suffixes: the compression dictionary is handled by an invariant (`DictOK`) — every entry points
   at a place where a decoder reads exactly that name, and every pointer the encoder writes
   targets an offset before the start of the label run it is written in, so pointer chains
   strictly descend and the `visited` check of `Name.decode` never fires.
   (`name_roundtrip`, `field_rt`, `fields_good`, `rr_rt`, `rrs_rt`, `queries_rt` in `C32/*.lean` are the layers.)
   *an independent decoder reads the same content*: not a theorem — checked by the oracle of
   `harness/corr/C32.py` with the RFC 1035 reader of `TwistedModel/Dns/Rfc1035.lean` (partial).
2. *a name that cannot be represented is refused when encoding* — `unrepresentable_name_refused`.
3. *a message larger than its size limit is encoded within the limit with the truncation flag set
   and decodes to a prefix of the original records* — `truncated_encoding_within_limit_partial`
   proves: exactly `maxSize` bytes, TC set, the same header otherwise, and the bytes are the
   header followed by a prefix of the untruncated body.  NOT proved in Lean: that
   `Message.decode` of those bytes yields a prefix of the records (needs a second pass over every
   decoder showing "cut inside an item ⇒ EOFError"); that half is checked on the real code by
   the oracle (`truncation-prefix`) and on the model by the tie on every run.
4. `_EDNSMessage`: the size limit of an EDNS message is ignored by the code
   (`edns_maxsize_ignored_counterexample`; known finding `edns-maxsize-ignored`).
-/
namespace TwistedProps.C32
open Twisted.Py Twisted.Dns.Wire

/-- header fields in range; queries and records well-formed; section counts fit 16 bits -/
def wfMsg (m : Msg) : Bool :=
  decide (m.id < 65536) && decide (m.answer < 2) && decide (m.opCode < 16) && decide (m.recDes < 2) &&
  decide (m.recAv < 2) && decide (m.auth < 2) && decide (m.rCode < 16) && decide (m.trunc < 2) &&
  decide (m.authenticData < 2) && decide (m.checkingDisabled < 2) &&
  m.queries.all wfQuery && m.answers.all wfRR && m.authority.all wfRR && m.additional.all wfRR &&
  decide (m.queries.length < 65536) && decide (m.answers.length < 65536) &&
  decide (m.authority.length < 65536) && decide (m.additional.length < 65536)

/-- the 12 header bytes `Message.encode` writes, with `trunc` as given -/
def headerBytes (m : Msg) (trunc : Nat) : Bytes :=
  beN 2 m.id ++ [UInt8.ofNat (byte3 m trunc), UInt8.ofNat (byte4 m)] ++ beN 2 m.queries.length ++
    beN 2 m.answers.length ++ beN 2 m.authority.length ++ beN 2 m.additional.length

theorem headerBytes_length (m : Msg) (t : Nat) : (headerBytes m t).length = 12 := by
  simp [headerBytes, beN_length]

/-- `Message.encode` = header + (possibly cut) body -/
theorem encodeMsg_eq (m : Msg) (hwf : wfMsg m = true) (body : Bytes) (hbody : encodeBody m = .ok body) :
    encodeMsg m = .ok (
      if m.maxSize ≠ 0 ∧ body.length + headerSize > m.maxSize
      then headerBytes m 1 ++ pySliceTo body m.maxSize else headerBytes m m.trunc ++ body) := by
  simp only [wfMsg, Bool.and_eq_true, decide_eq_true_eq] at hwf
  obtain ⟨⟨⟨⟨⟨⟨⟨⟨⟨⟨⟨⟨⟨⟨⟨⟨⟨hid, _⟩, _⟩, _⟩, _⟩, _⟩, _⟩, _⟩, _⟩, _⟩, _⟩, _⟩, _⟩, _⟩, h1⟩, h2⟩, h3⟩, h4⟩ := hwf
  simp only [encodeMsg, hbody, packBE_ok (show m.id < 256 ^ 2 by omega),
    packBE_ok (show m.queries.length < 256 ^ 2 by omega), packBE_ok (show m.answers.length < 256 ^ 2 by omega),
    packBE_ok (show m.authority.length < 256 ^ 2 by omega), packBE_ok (show m.additional.length < 256 ^ 2 by omega)]
  split <;> simp [headerBytes, *]

/-- the decoder's reading of the 12 header bytes -/
theorem header_fields (m : Msg) (hwf : wfMsg m = true) (t : Nat) (ht : t < 2) :
    let h := headerBytes m t
    beToNat (slice h 0 2) = m.id ∧ beToNat (slice h 4 2) = m.queries.length ∧
    beToNat (slice h 6 2) = m.answers.length ∧ beToNat (slice h 8 2) = m.authority.length ∧
    beToNat (slice h 10 2) = m.additional.length ∧
    (h.getD 2 0).toNat = byte3 m t ∧ (h.getD 3 0).toNat = byte4 m := by
  simp only [wfMsg, Bool.and_eq_true, decide_eq_true_eq] at hwf
  obtain ⟨⟨⟨⟨⟨⟨⟨⟨⟨⟨⟨⟨⟨⟨⟨⟨⟨hid, ha⟩, ho⟩, hrd⟩, hra⟩, hau⟩, hrc⟩, htr⟩, had⟩, hcd⟩, _⟩, _⟩, _⟩, _⟩, h1⟩, h2⟩, h3⟩, h4⟩ := hwf
  have hp : Placed (headerBytes m t) 0 (beN 2 m.id ++ ([UInt8.ofNat (byte3 m t)] ++ ([UInt8.ofNat (byte4 m)] ++
      (beN 2 m.queries.length ++ (beN 2 m.answers.length ++ (beN 2 m.authority.length ++ beN 2 m.additional.length)))))) :=
    ⟨[], [], by simp [headerBytes], rfl⟩
  have pA := hp.append_left
  have p1 := hp.append_right
  have pB := p1.append_left
  have p2 := p1.append_right
  have pC := p2.append_left
  have p3 := p2.append_right
  have pD := p3.append_left
  have p4 := p3.append_right
  have pE := p4.append_left
  have p5 := p4.append_right
  have pF := p5.append_left
  have pG := p5.append_right
  simp only [beN_length, List.length_singleton, Nat.zero_add] at pA pB pC pD pE pF pG
  have sA := pA.slice
  have sD := pD.slice
  have sE := pE.slice
  have sF := pF.slice
  have sG := pG.slice
  simp only [beN_length] at sA sD sE sF sG
  have b3 : byte3 m t < 256 := by unfold byte3; omega
  have b4 : byte4 m < 256 := by unfold byte4; omega
  refine ⟨?_, ?_, ?_, ?_, ?_, ?_, ?_⟩
  · rw [sA, beToNat_beN _ _ (by omega)]
  · rw [sD, beToNat_beN _ _ (by omega)]
  · rw [sE, beToNat_beN _ _ (by omega)]
  · rw [sF, beToNat_beN _ _ (by omega)]
  · rw [sG, beToNat_beN _ _ (by omega)]
  · rw [pB.getD, UInt8.toNat_ofNat']; omega
  · rw [pC.getD, UInt8.toNat_ofNat']; omega

/-- **C32, clause 1.**  A well-formed message that is not over its size limit: whatever
    `Message.toStr` returns decodes, with `Message.fromStr`, to the same message
    (`maxSize`, which is not a wire field, reads back as 0). -/
theorem decode_encode_message (m : Msg) (hwf : wfMsg m = true) (body bs : Bytes)
    (hbody : encodeBody m = .ok body) (hfit : m.maxSize = 0 ∨ body.length + headerSize ≤ m.maxSize)
    (henc : encodeMsg m = .ok bs) : decodeMsg bs = .ok { m with maxSize := 0 } := by
  rw [encodeMsg_eq m hwf body hbody, if_neg (by omega)] at henc
  cases henc
  have hwf' := hwf
  simp only [wfMsg, Bool.and_eq_true, decide_eq_true_eq, List.all_eq_true] at hwf'
  obtain ⟨⟨⟨⟨⟨⟨⟨⟨⟨⟨⟨⟨⟨⟨⟨⟨⟨hid, ha⟩, ho⟩, hrd⟩, hra⟩, hau⟩, hrc⟩, htr⟩, had⟩, hcd⟩, wq⟩, wan⟩, wns⟩, wad⟩, _⟩, _⟩, _⟩, _⟩ := hwf'
  obtain ⟨f1, f2, f3, f4, f5, f6, f7⟩ := header_fields m hwf m.trunc htr
  -- the four sections of the body
  simp only [encodeBody] at hbody
  cases e1 : encodeQueries m.queries headerSize [] with
  | error e => simp [e1] at hbody
  | ok r1 =>
    obtain ⟨b1, d1⟩ := r1
    simp only [e1] at hbody
    cases e2 : encodeRRs m.answers (headerSize + b1.length) d1 with
    | error e => simp [e2] at hbody
    | ok r2 =>
      obtain ⟨b2, d2⟩ := r2
      simp only [e2] at hbody
      cases e3 : encodeRRs m.authority (headerSize + b1.length + b2.length) d2 with
      | error e => simp [e3] at hbody
      | ok r3 =>
        obtain ⟨b3, d3⟩ := r3
        simp only [e3] at hbody
        cases e4 : encodeRRs m.additional (headerSize + b1.length + b2.length + b3.length) d3 with
        | error e => simp [e4] at hbody
        | ok r4 =>
          obtain ⟨b4, d4⟩ := r4
          simp only [e4] at hbody
          cases hbody
          generalize hM : headerBytes m m.trunc ++ (b1 ++ b2 ++ b3 ++ b4) = M
          have hlen := headerBytes_length m m.trunc
          have hpl : Placed M headerSize (b1 ++ (b2 ++ (b3 ++ b4))) :=
            ⟨headerBytes m m.trunc, [], by simp [← hM], hlen⟩
          have hhdr : Placed M 0 (headerBytes m m.trunc) := ⟨[], b1 ++ b2 ++ b3 ++ b4, by simp [← hM], rfl⟩
          have hrd0 := readPrecisely_placed hhdr
          rw [hlen, Nat.zero_add] at hrd0
          obtain ⟨q1, dk1⟩ := queries_rt m.queries headerSize [] d1 b1 M wq e1 hpl.append_left (DictOK.nil _ _)
          obtain ⟨q2, dk2⟩ := rrs_rt m.answers _ d1 d2 b2 M wan e2 hpl.append_right.append_left dk1
          obtain ⟨q3, dk3⟩ := rrs_rt m.authority _ d2 d3 b3 M wns e3 hpl.append_right.append_right.append_left dk2
          obtain ⟨q4, _⟩ := rrs_rt m.additional _ d3 d4 b4 M wad e4 hpl.append_right.append_right.append_right dk3
          simp only [decodeMsg, show headerSize = 12 from rfl] at hrd0 q1 q2 q3 q4 ⊢
          have g1 : byte3 m m.trunc / 128 % 2 = m.answer := by unfold byte3; omega
          have g2 : byte3 m m.trunc / 8 % 16 = m.opCode := by unfold byte3; omega
          have g3 : byte3 m m.trunc % 2 = m.recDes := by unfold byte3; omega
          have g4 : byte4 m / 128 % 2 = m.recAv := by unfold byte4; omega
          have g5 : byte3 m m.trunc / 4 % 2 = m.auth := by unfold byte3; omega
          have g6 : byte4 m % 16 = m.rCode := by unfold byte4; omega
          have g7 : byte3 m m.trunc / 2 % 2 = m.trunc := by unfold byte3; omega
          have g8 : byte4 m / 32 % 2 = m.authenticData := by unfold byte4; omega
          have g9 : byte4 m / 16 % 2 = m.checkingDisabled := by unfold byte4; omega
          simp only [hrd0, hlen, ne_eq, not_true_eq_false, if_false, f1, f2, f3, f4, f5, f6, f7, q1, q2, q3, q4,
            Bool.false_eq_true, g1, g2, g3, g4, g5, g6, g7, g8, g9]

/-- **C32, clause 3 (the part proved).**  A message over its size limit (`maxSize ≥ 12`) is encoded
    in exactly `maxSize` bytes, the TC bit is set, and the bytes are the 12-byte header (TC = 1,
    otherwise that of the message) followed by a prefix of the untruncated body.
    Not proved here: `Message.decode` of these bytes returns a prefix of the records (see the
    header comment — checked on the real code by the oracle on every run). -/
theorem truncated_encoding_within_limit_partial (m : Msg) (hwf : wfMsg m = true) (body bs : Bytes)
    (hbody : encodeBody m = .ok body) (h12 : headerSize ≤ m.maxSize)
    (hover : body.length + headerSize > m.maxSize) (henc : encodeMsg m = .ok bs) :
    bs.length = m.maxSize ∧ (bs.getD 2 0).toNat / 2 % 2 = 1 ∧
      bs = headerBytes m 1 ++ body.take (m.maxSize - headerSize) := by
  have h0 : m.maxSize ≠ 0 := by simp only [headerSize] at h12; omega
  rw [encodeMsg_eq m hwf body hbody, if_pos ⟨h0, hover⟩] at henc
  cases henc
  have hs : pySliceTo body m.maxSize = body.take (m.maxSize - headerSize) := by simp [pySliceTo, h12]
  obtain ⟨_, _, _, _, _, f6, _⟩ := header_fields m hwf 1 (by decide)
  refine ⟨?_, ?_, by rw [hs]⟩
  · rw [hs, List.length_append, headerBytes_length, List.length_take]
    simp only [headerSize] at h12 hover ⊢
    omega
  · have : (headerBytes m 1 ++ pySliceTo body m.maxSize).getD 2 0 = (headerBytes m 1).getD 2 0 := by
      simp only [List.getD_eq_getElem?_getD]
      rw [List.getElem?_append_left (by rw [headerBytes_length]; decide)]
    rw [this, f6]
    unfold byte3
    omega

/-- **Names** (re-stated from `C32/Name.lean`): a name of 1..63-byte labels written by `Name.encode`
    at any offset, with or without compression, with any sound dictionary, into any message, is
    accepted, and `Name.decode` at that offset returns it and stops just after the written bytes;
    the dictionary stays sound. -/
theorem name_round_trip (ls : List Bytes) (hwf : WfLabels ls) (off : Nat) (comp : Bool) (d : Dict) :
    ∃ B d', encodeName (joinDots ls) off comp d = .ok (B, d') ∧
      ∀ M, Placed M off B → DictOK M off d →
        decodeName M off = .ok (joinDots ls, off + B.length) ∧ DictOK M (off + B.length) d' := by
  obtain ⟨B, d', h⟩ := name_encode_ok ls hwf off comp d
  exact ⟨B, d', h, fun M hpl hd => name_roundtrip ls hwf off comp d d' B M h hpl hd⟩

/-- **C32, clause 2** (re-stated from `C32/Name.lean`): a name of proper labels one of which has
    more than 63 bytes is refused by `Name.encode` with `ValueError`, with or without compression. -/
theorem unrepresentable_name_is_refused (ls : List Bytes) (hp : ProperLabels ls) (l : Bytes) (hl : l ∈ ls)
    (hlong : l.length > 63) (off : Nat) (comp : Bool) (d : Dict) (hd : KeysWf d) :
    encodeName (joinDots ls) off comp d = .error .value :=
  unrepresentable_name_refused ls hp l hl hlong off comp d hd

/-! ### non-vacuity: a concrete message with shared suffixes, a case variant and five record types -/

/-- ASCII text as bytes -/
def bs (s : String) : Bytes := s.toList.map fun c => UInt8.ofNat c.toNat

/-- `example.com MX 10 mail.example.com`, `EXAMPLE.com TXT "v=spf1" ""`, an SOA, an SRV, an A6 … -/
def exMsg : Msg :=
  { id := 4660, answer := 1, opCode := 0, recDes := 1, recAv := 1, auth := 1, rCode := 3, trunc := 0, maxSize := 0,
    authenticData := 0, checkingDisabled := 1,
    queries := [⟨bs "example.com", 15, 1⟩],
    answers := [⟨bs "example.com", 15, 1, 3600, some ⟨false, [.nat 10, .bytes (bs "mail.example.com")]⟩⟩,
                ⟨bs "EXAMPLE.com", 16, 1, 60, some ⟨false, [.strs [bs "v=spf1", []]]⟩⟩],
    authority := [⟨bs "example.com", 6, 1, 300, some ⟨false, [.bytes (bs "ns.example.com"), .bytes (bs "root.example.com"),
                    .nat 2024010101, .int (-1), .int 7200, .int 2147483647, .nat 4294967295]⟩⟩],
    additional := [⟨bs "_sip._tcp.example.com", 33, 1, 0, some ⟨false, [.nat 1, .nat 2, .nat 5060, .bytes (bs "mail.example.com")]⟩⟩,
                   ⟨bs "mail.example.com", 38, 1, 5, some ⟨false, [.a6 64 (zeros 8 ++ [1, 2, 3, 4, 5, 6, 7, 8]) (bs "net.example.com")]⟩⟩,
                   ⟨[], 41, 4096, 0, some ⟨true, [.bytes []]⟩⟩] }

example : wfMsg exMsg = true := by decide

/-- the hypotheses of `decode_encode_message` are satisfiable, compression pointers included -/
example : ∃ out, encodeMsg exMsg = .ok out ∧ out.contains 192 = true ∧
    decodeMsg out = .ok { exMsg with maxSize := 0 } := by
  have hw : wfMsg exMsg = true := by decide
  cases hb : encodeBody exMsg with
  | error e =>
    have : (match encodeBody exMsg with | .ok _ => true | .error _ => false) = true := by decide
    rw [hb] at this; cases this
  | ok body =>
    have he := encodeMsg_eq exMsg hw body hb
    rw [if_neg (by simp [exMsg])] at he
    have hptr : (match encodeBody exMsg with | .ok b => b.contains 192 | .error _ => false) = true := by decide
    rw [hb] at hptr
    refine ⟨_, he, ?_, decode_encode_message exMsg hw body _ hb (Or.inl rfl) he⟩
    simp only [List.contains_eq_mem, List.mem_append, decide_eq_true_eq] at hptr ⊢
    exact Or.inr hptr

set_option maxRecDepth 8000 in
/-- … and those of the truncation theorem: the same message with `maxSize = 64` -/
example : ∃ out, encodeMsg { exMsg with maxSize := 64 } = .ok out ∧ out.length = 64 ∧ (out.getD 2 0).toNat / 2 % 2 = 1 := by
  have hw : wfMsg { exMsg with maxSize := 64 } = true := by decide
  cases hb : encodeBody { exMsg with maxSize := 64 } with
  | error e =>
    have : (match encodeBody { exMsg with maxSize := 64 } with | .ok _ => true | .error _ => false) = true := by decide
    rw [hb] at this; cases this
  | ok body =>
    have hlen : (match encodeBody { exMsg with maxSize := 64 } with | .ok b => decide (b.length + headerSize > 64) | .error _ => false) = true := by
      decide
    rw [hb] at hlen
    have hover : body.length + headerSize > 64 := by simpa using hlen
    have he := encodeMsg_eq _ hw body hb
    obtain ⟨h1, h2, _⟩ := truncated_encoding_within_limit_partial _ hw body _ hb (by decide) hover he
    exact ⟨_, he, h1, h2⟩

instance (ls : List Bytes) : Decidable (ProperLabels ls) := by unfold ProperLabels; exact inferInstance

/-- … and of the refusal theorem -/
example : encodeName (joinDots [bs "a", List.replicate 64 120, bs "com"]) 12 true [] = .error .value :=
  unrepresentable_name_is_refused _ (by decide) (List.replicate 64 120) (by decide) (by decide) 12 true []
    (fun _ _ h => by cases h)

/-! ### `_EDNSMessage`: the size limit is not honoured (known finding `edns-maxsize-ignored`) -/

/-- an EDNS(0) message advertising / limited to 100 bytes, with one 100-byte TXT answer -/
def exEdns : EMsg :=
  { id := 3, answer := 1, opCode := 0, recDes := 0, recAv := 0, auth := 0, rCode := 0, trunc := 0, maxSize := 100,
    authenticData := 0, checkingDisabled := 0, ednsVersion := some 0, dnssecOK := 0, queries := [],
    answers := [⟨bs "x.example.com", 16, 1, 5, some ⟨false, [.strs [List.replicate 100 97]]⟩⟩],
    authority := [], additional := [] }

set_option maxRecDepth 8000 in
/-- The statement's "a message larger than its size limit is encoded within the limit" fails for
    `_EDNSMessage`: `_toMessage` builds the inner `Message` with the default `maxSize=512`, so the
    message's own `maxSize` (100 here) is ignored — 141 bytes are produced, TC clear. -/
theorem edns_maxsize_ignored_counterexample :
    ¬ (∀ (e : EMsg) (out : Bytes), encodeEMsg e = .ok out → headerSize ≤ e.maxSize → out.length ≤ e.maxSize) := by
  intro h
  cases hb : encodeEMsg exEdns with
  | error e =>
    have : (match encodeEMsg exEdns with | .ok _ => true | .error _ => false) = true := by decide
    rw [hb] at this; cases this
  | ok out =>
    have hlen : (match encodeEMsg exEdns with | .ok b => decide (b.length > 100) | .error _ => false) = true := by decide
    rw [hb] at hlen
    have h1 : out.length > 100 := by simpa using hlen
    have := h exEdns out hb (by decide)
    simp only [exEdns] at this
    omega

end TwistedProps.C32
