import TwistedProps.C32.Message
import TwistedProps.C32.TruncMessage
import TwistedProps.C32.Total
import TwistedProps.C32.Offsets
/-!
C32 — DNS messages round-trip through the wire format.

Model: `TwistedModel/Dns/Wire.lean` (transcription of `Name`, `Query`, `RRHeader`, every
`Record_*`, `Message`, `_OPTHeader`, `_EDNSMessage` of `twisted/names/dns.py`, after the two
repairs recorded in `known-findings.txt`).  Lemmas: `TwistedProps/C32/*.lean`.

`message_round_trip` puts clauses 1 and 3 together for `Message` with no hypothesis about what the
encoder returns.  Clause by clause:

1. *encoding then decoding yields an equal message* — `decode_encode_message`: for every message
   whose queries and records are well-formed (`wfMsg`: supported record shapes, in-range fields,
   names of 1..63-byte labels) that is not over its size limit, whatever `Message.toStr` returns
   is decoded by `Message.fromStr` to the same header fields, queries and records (`maxSize`,
   which is not on the wire, reads back as 0).  No bound on sizes, counts or on how names share
   suffixes: the compression dictionary is handled by an invariant (`DictOK`) — every entry points
   at a place where a decoder reads exactly that name, and every pointer the encoder writes
   targets an offset before the start of the label run it is written in, so pointer chains
   strictly descend and the `visited` check of `Name.decode` never fires.
   (`name_roundtrip`, `field_rt`, `fields_good`, `rr_rt`, `rrs_rt`, `queries_rt` in `C32/*.lean` are the layers.)
   *Names across the 14-bit limit of a compression pointer* (`C32/Offsets.lean`): none of the theorems
   bounds the message size or the offset of a name, so they hold for a name that starts below offset
   2^14 and ends beyond it.  What makes that case work is spelled out: `name_records_suffixes_at_their_own_offsets`
   — every entry `Name.encode` adds is *suffix i of the name ↦ the offset of label i*, and only when
   that offset (not the offset where the name starts) is below 2^14; `suffix_beyond_2_14_not_recorded`
   — for a suffix that starts at or beyond 2^14 the dictionary answers as before, so a later use
   of it is never a pointer to this occurrence; `fresh_name_records_exactly` — for a name with no
   suffix in the dictionary the new dictionary is given exactly (nothing below 2^14 is forgotten either);
   `two_names_round_trip` — a later name written with the dictionary an earlier one left behind
   (e.g. a suffix of a straddling name) is read back, whatever the offsets.
   *`toStr` does return something* — `encode_succeeds`: for every `wfMsg` none of whose RDATA can
   reach 64 KiB (`rdataMax`, the RDATA's size with names written in full); nothing is needed about
   compression offsets (`Name.encode` records an offset only when it is below 2^14).
   `encode_fails_only_on_oversize_rdata`: the only failure of `toStr` on a `wfMsg` is
   `struct.error` from packing the RDLENGTH of such a record; `encode_fails_on_oversize_rdata`: it does
   fail when an RDATA certainly has 64 KiB (`rdataMin`, names counted as one byte); `encode_succeeds_iff`:
   for messages whose RDATA hold no names the condition is exact.
   (`C32/Total.lean`: `name_total`, `field_total`, `fields_total`, `rr_total`, `rrs_total` give the
   encoder's outcome exactly, item by item.)
   *an independent decoder reads the same content*: not a theorem — checked by the oracle of
   `harness/corr/C32.py` with the RFC 1035 reader of `TwistedModel/Dns/Rfc1035.lean` (partial).
2. *a name that cannot be represented is refused when encoding* — `unrepresentable_name_refused`
   (`Name.encode`) and, at the message level, `unrepresentable_name_refused_message` /
   `unrepresentable_name_refused_valueError`: a message in range except that some label — of a question
   name, an owner name or a name inside an RDATA — has more than 63 bytes is never encoded;
   `Message.toStr` raises `ValueError` (unless a record with an RDATA of 64 KiB or more comes
   first and raises `struct.error`).
3. *a message larger than its size limit is encoded within the limit with the truncation flag set
   and decodes to a prefix of the original records* — `truncated_encoding_within_limit`: exactly
   `maxSize` bytes (`maxSize ≥ 12`), TC set, the bytes are the header followed by a prefix of the
   untruncated body, and `Message.fromStr` decodes them — without raising — to the message's
   header with TC set and a flat proper prefix of its questions and records (`decode_truncated`,
   for a cut at *any* byte of the body).  Layers (`C32/Trunc*.lean`): a name / field / RDATA /
   record / question cut by the end of the message raises `EOFError` and nothing else
   (`name_cut`, `field_cut`, `fields_cut`, `rr_cut`, `query_cut`); items wholly before the cut
   decode as in the full message (the round-trip lemmas applied to the truncated message);
   `parseRecords` / `Message.decode` catch the `EOFError` (`rrs_trunc`, `queries_trunc`).
4. `_EDNSMessage`: the size limit of an EDNS message is ignored by the code
   (`edns_maxsize_ignored_counterexample`; known finding `edns-maxsize-ignored`).
-/
namespace TwistedProps.C32
open Twisted.Py Twisted.Dns.Wire

/-- header fields in range; queries and records well-formed; section counts fit 16 bits -/
def wfMsg (m : Msg) : Bool :=
  decide (m.id < 65536) && decide (m.answer < 2) && decide (m.opCode < 16) && decide (m.recDes < 2) &&
  decide (m.recAv < 2) && decide (m.auth < 2) && decide (m.rCode < 16) && decide (m.trunc < 2) &&
  decide (m.authenticData < 2) && decide (m.checkingDisabled < 2) &&
  m.queries.all wfQuery && m.answers.all wfRR && m.authority.all wfRR && m.additional.all wfRR &&
  decide (m.queries.length < 65536) && decide (m.answers.length < 65536) &&
  decide (m.authority.length < 65536) && decide (m.additional.length < 65536)

/-- the 12 header bytes `Message.encode` writes, with `trunc` as given -/
def headerBytes (m : Msg) (trunc : Nat) : Bytes :=
  beN 2 m.id ++ [UInt8.ofNat (byte3 m trunc), UInt8.ofNat (byte4 m)] ++ beN 2 m.queries.length ++
    beN 2 m.answers.length ++ beN 2 m.authority.length ++ beN 2 m.additional.length

theorem headerBytes_length (m : Msg) (t : Nat) : (headerBytes m t).length = 12 := by
  simp [headerBytes, beN_length]

/-- `Message.encode` = header + (possibly cut) body -/
theorem encodeMsg_eq (m : Msg) (hwf : wfMsg m = true) (body : Bytes) (hbody : encodeBody m = .ok body) :
    encodeMsg m = .ok (
      if m.maxSize ≠ 0 ∧ body.length + headerSize > m.maxSize
      then headerBytes m 1 ++ pySliceTo body m.maxSize else headerBytes m m.trunc ++ body) := by
  simp only [wfMsg, Bool.and_eq_true, decide_eq_true_eq] at hwf
  obtain ⟨⟨⟨⟨⟨⟨⟨⟨⟨⟨⟨⟨⟨⟨⟨⟨⟨hid, _⟩, _⟩, _⟩, _⟩, _⟩, _⟩, _⟩, _⟩, _⟩, _⟩, _⟩, _⟩, _⟩, h1⟩, h2⟩, h3⟩, h4⟩ := hwf
  simp only [encodeMsg, hbody, packBE_ok (show m.id < 256 ^ 2 by omega),
    packBE_ok (show m.queries.length < 256 ^ 2 by omega), packBE_ok (show m.answers.length < 256 ^ 2 by omega),
    packBE_ok (show m.authority.length < 256 ^ 2 by omega), packBE_ok (show m.additional.length < 256 ^ 2 by omega)]
  split <;> simp [headerBytes, *]

/-- the decoder's reading of the 12 header bytes -/
theorem header_fields (m : Msg) (hwf : wfMsg m = true) (t : Nat) (ht : t < 2) :
    let h := headerBytes m t
    beToNat (slice h 0 2) = m.id ∧ beToNat (slice h 4 2) = m.queries.length ∧
    beToNat (slice h 6 2) = m.answers.length ∧ beToNat (slice h 8 2) = m.authority.length ∧
    beToNat (slice h 10 2) = m.additional.length ∧
    (h.getD 2 0).toNat = byte3 m t ∧ (h.getD 3 0).toNat = byte4 m := by
  simp only [wfMsg, Bool.and_eq_true, decide_eq_true_eq] at hwf
  obtain ⟨⟨⟨⟨⟨⟨⟨⟨⟨⟨⟨⟨⟨⟨⟨⟨⟨hid, ha⟩, ho⟩, hrd⟩, hra⟩, hau⟩, hrc⟩, htr⟩, had⟩, hcd⟩, _⟩, _⟩, _⟩, _⟩, h1⟩, h2⟩, h3⟩, h4⟩ := hwf
  have hp : Placed (headerBytes m t) 0 (beN 2 m.id ++ ([UInt8.ofNat (byte3 m t)] ++ ([UInt8.ofNat (byte4 m)] ++
      (beN 2 m.queries.length ++ (beN 2 m.answers.length ++ (beN 2 m.authority.length ++ beN 2 m.additional.length)))))) :=
    ⟨[], [], by simp [headerBytes], rfl⟩
  have pA := hp.append_left
  have p1 := hp.append_right
  have pB := p1.append_left
  have p2 := p1.append_right
  have pC := p2.append_left
  have p3 := p2.append_right
  have pD := p3.append_left
  have p4 := p3.append_right
  have pE := p4.append_left
  have p5 := p4.append_right
  have pF := p5.append_left
  have pG := p5.append_right
  simp only [beN_length, List.length_singleton, Nat.zero_add] at pA pB pC pD pE pF pG
  have sA := pA.slice
  have sD := pD.slice
  have sE := pE.slice
  have sF := pF.slice
  have sG := pG.slice
  simp only [beN_length] at sA sD sE sF sG
  have b3 : byte3 m t < 256 := by unfold byte3; omega
  have b4 : byte4 m < 256 := by unfold byte4; omega
  refine ⟨?_, ?_, ?_, ?_, ?_, ?_, ?_⟩
  · rw [sA, beToNat_beN _ _ (by omega)]
  · rw [sD, beToNat_beN _ _ (by omega)]
  · rw [sE, beToNat_beN _ _ (by omega)]
  · rw [sF, beToNat_beN _ _ (by omega)]
  · rw [sG, beToNat_beN _ _ (by omega)]
  · rw [pB.getD, UInt8.toNat_ofNat']; omega
  · rw [pC.getD, UInt8.toNat_ofNat']; omega

/-- **C32, clause 1.**  A well-formed message that is not over its size limit: whatever
    `Message.toStr` returns decodes, with `Message.fromStr`, to the same message
    (`maxSize`, which is not a wire field, reads back as 0). -/
theorem decode_encode_message (m : Msg) (hwf : wfMsg m = true) (body bs : Bytes)
    (hbody : encodeBody m = .ok body) (hfit : m.maxSize = 0 ∨ body.length + headerSize ≤ m.maxSize)
    (henc : encodeMsg m = .ok bs) : decodeMsg bs = .ok { m with maxSize := 0 } := by
  rw [encodeMsg_eq m hwf body hbody, if_neg (by omega)] at henc
  cases henc
  have hwf' := hwf
  simp only [wfMsg, Bool.and_eq_true, decide_eq_true_eq, List.all_eq_true] at hwf'
  obtain ⟨⟨⟨⟨⟨⟨⟨⟨⟨⟨⟨⟨⟨⟨⟨⟨⟨hid, ha⟩, ho⟩, hrd⟩, hra⟩, hau⟩, hrc⟩, htr⟩, had⟩, hcd⟩, wq⟩, wan⟩, wns⟩, wad⟩, _⟩, _⟩, _⟩, _⟩ := hwf'
  obtain ⟨f1, f2, f3, f4, f5, f6, f7⟩ := header_fields m hwf m.trunc htr
  -- the four sections of the body
  simp only [encodeBody] at hbody
  cases e1 : encodeQueries m.queries headerSize [] with
  | error e => simp [e1] at hbody
  | ok r1 =>
    obtain ⟨b1, d1⟩ := r1
    simp only [e1] at hbody
    cases e2 : encodeRRs m.answers (headerSize + b1.length) d1 with
    | error e => simp [e2] at hbody
    | ok r2 =>
      obtain ⟨b2, d2⟩ := r2
      simp only [e2] at hbody
      cases e3 : encodeRRs m.authority (headerSize + b1.length + b2.length) d2 with
      | error e => simp [e3] at hbody
      | ok r3 =>
        obtain ⟨b3, d3⟩ := r3
        simp only [e3] at hbody
        cases e4 : encodeRRs m.additional (headerSize + b1.length + b2.length + b3.length) d3 with
        | error e => simp [e4] at hbody
        | ok r4 =>
          obtain ⟨b4, d4⟩ := r4
          simp only [e4] at hbody
          cases hbody
          generalize hM : headerBytes m m.trunc ++ (b1 ++ b2 ++ b3 ++ b4) = M
          have hlen := headerBytes_length m m.trunc
          have hpl : Placed M headerSize (b1 ++ (b2 ++ (b3 ++ b4))) :=
            ⟨headerBytes m m.trunc, [], by simp [← hM], hlen⟩
          have hhdr : Placed M 0 (headerBytes m m.trunc) := ⟨[], b1 ++ b2 ++ b3 ++ b4, by simp [← hM], rfl⟩
          have hrd0 := readPrecisely_placed hhdr
          rw [hlen, Nat.zero_add] at hrd0
          obtain ⟨q1, dk1⟩ := queries_rt m.queries headerSize [] d1 b1 M wq e1 hpl.append_left (DictOK.nil _ _)
          obtain ⟨q2, dk2⟩ := rrs_rt m.answers _ d1 d2 b2 M wan e2 hpl.append_right.append_left dk1
          obtain ⟨q3, dk3⟩ := rrs_rt m.authority _ d2 d3 b3 M wns e3 hpl.append_right.append_right.append_left dk2
          obtain ⟨q4, _⟩ := rrs_rt m.additional _ d3 d4 b4 M wad e4 hpl.append_right.append_right.append_right dk3
          simp only [decodeMsg, show headerSize = 12 from rfl] at hrd0 q1 q2 q3 q4 ⊢
          have g1 : byte3 m m.trunc / 128 % 2 = m.answer := by unfold byte3; omega
          have g2 : byte3 m m.trunc / 8 % 16 = m.opCode := by unfold byte3; omega
          have g3 : byte3 m m.trunc % 2 = m.recDes := by unfold byte3; omega
          have g4 : byte4 m / 128 % 2 = m.recAv := by unfold byte4; omega
          have g5 : byte3 m m.trunc / 4 % 2 = m.auth := by unfold byte3; omega
          have g6 : byte4 m % 16 = m.rCode := by unfold byte4; omega
          have g7 : byte3 m m.trunc / 2 % 2 = m.trunc := by unfold byte3; omega
          have g8 : byte4 m / 32 % 2 = m.authenticData := by unfold byte4; omega
          have g9 : byte4 m / 16 % 2 = m.checkingDisabled := by unfold byte4; omega
          simp only [hrd0, hlen, ne_eq, not_true_eq_false, if_false, f1, f2, f3, f4, f5, f6, f7, q1, q2, q3, q4,
            Bool.false_eq_true, g1, g2, g3, g4, g5, g6, g7, g8, g9]

/-- what `Message.decode` makes of a truncated message: the header of `m` with TC set, the first
    `kq` questions and the first `ka` / `kn` / `kd` records of the three record sections -/
def truncatedTo (m : Msg) (kq ka kn kd : Nat) : Msg :=
  { m with maxSize := 0, trunc := 1, queries := m.queries.take kq, answers := m.answers.take ka,
           authority := m.authority.take kn, additional := m.additional.take kd }

/-- the four counts describe a *flat* proper prefix of the message's items: a section is cut only if
    every later section is empty, and at least one item is missing -/
def FlatCut (m : Msg) (kq ka kn kd : Nat) : Prop :=
  kq ≤ m.queries.length ∧ ka ≤ m.answers.length ∧ kn ≤ m.authority.length ∧ kd ≤ m.additional.length ∧
  (kq < m.queries.length → ka = 0 ∧ kn = 0 ∧ kd = 0) ∧ (ka < m.answers.length → kn = 0 ∧ kd = 0) ∧
  (kn < m.authority.length → kd = 0) ∧
  (kq < m.queries.length ∨ ka < m.answers.length ∨ kn < m.authority.length ∨ kd < m.additional.length)

/-- **Decoding a truncated body**: the 12-byte header (TC set) followed by a proper prefix of the
    encoded body — cut at *any* byte — is decoded by `Message.fromStr` without an exception to the
    message's header with TC set and a flat proper prefix of its questions and records: the item
    the cut falls in raises `EOFError` inside `Query.decode` / `RRHeader.decode` / the payload's
    `decode`, which `Message.decode` / `parseRecords` catch; at the end of the stream every later
    `RRHeader.decode` raises at once, so the later sections are empty. -/
theorem decode_truncated (m : Msg) (hwf : wfMsg m = true) (body : Bytes) (hbody : encodeBody m = .ok body)
    (c : Nat) (hc : c < body.length) :
    ∃ kq ka kn kd, FlatCut m kq ka kn kd ∧
      decodeMsg (headerBytes m 1 ++ body.take c) = .ok (truncatedTo m kq ka kn kd) := by
  have hwf' := hwf
  simp only [wfMsg, Bool.and_eq_true, decide_eq_true_eq, List.all_eq_true] at hwf'
  obtain ⟨⟨⟨⟨⟨⟨⟨⟨⟨⟨⟨⟨⟨⟨⟨⟨⟨hid, ha⟩, ho⟩, hrd⟩, hra⟩, hau⟩, hrc⟩, htr⟩, had⟩, hcd⟩, wq⟩, wan⟩, wns⟩, wad⟩, _⟩, _⟩, _⟩, _⟩ := hwf'
  obtain ⟨f1, f2, f3, f4, f5, f6, f7⟩ := header_fields m hwf 1 (by decide)
  simp only [encodeBody] at hbody
  cases e1 : encodeQueries m.queries headerSize [] with
  | error e => simp [e1] at hbody
  | ok r1 =>
    obtain ⟨b1, d1⟩ := r1
    simp only [e1] at hbody
    cases e2 : encodeRRs m.answers (headerSize + b1.length) d1 with
    | error e => simp [e2] at hbody
    | ok r2 =>
      obtain ⟨b2, d2⟩ := r2
      simp only [e2] at hbody
      cases e3 : encodeRRs m.authority (headerSize + b1.length + b2.length) d2 with
      | error e => simp [e3] at hbody
      | ok r3 =>
        obtain ⟨b3, d3⟩ := r3
        simp only [e3] at hbody
        cases e4 : encodeRRs m.additional (headerSize + b1.length + b2.length + b3.length) d3 with
        | error e => simp [e4] at hbody
        | ok r4 =>
          obtain ⟨b4, d4⟩ := r4
          simp only [e4] at hbody
          cases hbody
          generalize hM : headerBytes m 1 ++ (b1 ++ b2 ++ b3 ++ b4).take c = M
          have hlen := headerBytes_length m 1
          have hcut : CutAt M headerSize (b1 ++ (b2 ++ (b3 ++ b4))) c :=
            ⟨headerBytes m 1, by simp [← hM], hlen⟩
          have hhdr : Placed M 0 (headerBytes m 1) := ⟨[], (b1 ++ b2 ++ b3 ++ b4).take c, by simp [← hM], rfl⟩
          have hrd0 := readPrecisely_placed hhdr
          rw [hlen, Nat.zero_add] at hrd0
          simp only [List.length_append] at hc
          have g1 : byte3 m 1 / 128 % 2 = m.answer := by unfold byte3; omega
          have g2 : byte3 m 1 / 8 % 16 = m.opCode := by unfold byte3; omega
          have g3 : byte3 m 1 % 2 = m.recDes := by unfold byte3; omega
          have g4 : byte4 m / 128 % 2 = m.recAv := by unfold byte4; omega
          have g5 : byte3 m 1 / 4 % 2 = m.auth := by unfold byte3; omega
          have g6 : byte4 m % 16 = m.rCode := by unfold byte4; omega
          have g7 : byte3 m 1 / 2 % 2 = 1 := by unfold byte3; omega
          have g8 : byte4 m / 32 % 2 = m.authenticData := by unfold byte4; omega
          have g9 : byte4 m / 16 % 2 = m.checkingDisabled := by unfold byte4; omega
          by_cases h1 : c < b1.length
          · obtain ⟨k, p, hk, hdec⟩ := queries_trunc m.queries headerSize [] d1 b1 M c wq e1 h1
              (hcut.left (by omega)) (DictOK.nil _ _)
            refine ⟨k, 0, 0, 0, ⟨by omega, by omega, by omega, by omega, fun _ => ⟨rfl, rfl, rfl⟩,
              fun _ => ⟨rfl, rfl⟩, fun _ => rfl, Or.inl hk⟩, ?_⟩
            simp only [decodeMsg, show headerSize = 12 from rfl] at hrd0 hdec ⊢
            simp only [hrd0, hlen, ne_eq, not_true_eq_false, if_false, f1, f2, f3, f4, f5, f6, f7, hdec,
              if_true, g1, g2, g3, g4, g5, g6, g7, g8, g9, truncatedTo, List.take_zero]
          · obtain ⟨hp1, hc1⟩ := hcut.right (by omega)
            obtain ⟨q1, dk1⟩ := queries_rt m.queries headerSize [] d1 b1 M wq e1 hp1 (DictOK.nil _ _)
            by_cases h2 : c - b1.length < b2.length
            · obtain ⟨k, p, hk, hdec⟩ := rrs_trunc m.answers _ d1 d2 b2 M _ wan e2 h2 (hc1.left (by omega)) dk1
              refine ⟨m.queries.length, k, 0, 0, ⟨by omega, by omega, by omega, by omega, fun h => by omega,
                fun _ => ⟨rfl, rfl⟩, fun _ => rfl, Or.inr (Or.inl hk)⟩, ?_⟩
              simp only [decodeMsg, show headerSize = 12 from rfl] at hrd0 q1 hdec ⊢
              simp only [hrd0, hlen, ne_eq, not_true_eq_false, if_false, f1, f2, f3, f4, f5, f6, f7, q1, hdec,
                if_true, Bool.false_eq_true, g1, g2, g3, g4, g5, g6, g7, g8, g9, truncatedTo, List.take_zero,
                List.take_length]
            · obtain ⟨hp2, hc2⟩ := hc1.right (by omega)
              obtain ⟨q2, dk2⟩ := rrs_rt m.answers _ d1 d2 b2 M wan e2 hp2 dk1
              by_cases h3 : c - b1.length - b2.length < b3.length
              · obtain ⟨k, p, hk, hdec⟩ := rrs_trunc m.authority _ d2 d3 b3 M _ wns e3 h3 (hc2.left (by omega)) dk2
                refine ⟨m.queries.length, m.answers.length, k, 0, ⟨by omega, by omega, by omega, by omega,
                  fun h => by omega, fun h => by omega, fun _ => rfl, Or.inr (Or.inr (Or.inl hk))⟩, ?_⟩
                simp only [decodeMsg, show headerSize = 12 from rfl] at hrd0 q1 q2 hdec ⊢
                simp only [hrd0, hlen, ne_eq, not_true_eq_false, if_false, f1, f2, f3, f4, f5, f6, f7, q1, q2, hdec,
                  if_true, Bool.false_eq_true, g1, g2, g3, g4, g5, g6, g7, g8, g9, truncatedTo, List.take_zero,
                  List.take_length]
              · obtain ⟨hp3, hc3⟩ := hc2.right (by omega)
                obtain ⟨q3, dk3⟩ := rrs_rt m.authority _ d2 d3 b3 M wns e3 hp3 dk2
                obtain ⟨k, p, hk, hdec⟩ := rrs_trunc m.additional _ d3 d4 b4 M _ wad e4 (by omega) hc3 dk3
                refine ⟨m.queries.length, m.answers.length, m.authority.length, k, ⟨by omega, by omega, by omega,
                  by omega, fun h => by omega, fun h => by omega, fun h => by omega, Or.inr (Or.inr (Or.inr hk))⟩, ?_⟩
                simp only [decodeMsg, show headerSize = 12 from rfl] at hrd0 q1 q2 q3 hdec ⊢
                simp only [hrd0, hlen, ne_eq, not_true_eq_false, if_false, f1, f2, f3, f4, f5, f6, f7, q1, q2, q3, hdec,
                  Bool.false_eq_true, g1, g2, g3, g4, g5, g6, g7, g8, g9, truncatedTo, List.take_length]

/-- **C32, clause 3.**  A message over its size limit (`maxSize ≥ 12`) is encoded in exactly
    `maxSize` bytes, the TC bit is set, the bytes are the 12-byte header (TC = 1, otherwise that of
    the message) followed by a prefix of the untruncated body, and `Message.fromStr` decodes them
    — without raising — to the message's header with TC set and a flat proper prefix of its
    questions and records (`truncatedTo`, `FlatCut`). -/
theorem truncated_encoding_within_limit (m : Msg) (hwf : wfMsg m = true) (body bs : Bytes)
    (hbody : encodeBody m = .ok body) (h12 : headerSize ≤ m.maxSize)
    (hover : body.length + headerSize > m.maxSize) (henc : encodeMsg m = .ok bs) :
    bs.length = m.maxSize ∧ (bs.getD 2 0).toNat / 2 % 2 = 1 ∧
      bs = headerBytes m 1 ++ body.take (m.maxSize - headerSize) ∧
      ∃ kq ka kn kd, FlatCut m kq ka kn kd ∧ decodeMsg bs = .ok (truncatedTo m kq ka kn kd) := by
  have h0 : m.maxSize ≠ 0 := by simp only [headerSize] at h12; omega
  rw [encodeMsg_eq m hwf body hbody, if_pos ⟨h0, hover⟩] at henc
  cases henc
  have hs : pySliceTo body m.maxSize = body.take (m.maxSize - headerSize) := by simp [pySliceTo, h12]
  obtain ⟨_, _, _, _, _, f6, _⟩ := header_fields m hwf 1 (by decide)
  refine ⟨?_, ?_, by rw [hs], ?_⟩
  · rw [hs, List.length_append, headerBytes_length, List.length_take]
    simp only [headerSize] at h12 hover ⊢
    omega
  · have : (headerBytes m 1 ++ pySliceTo body m.maxSize).getD 2 0 = (headerBytes m 1).getD 2 0 := by
      simp only [List.getD_eq_getElem?_getD]
      rw [List.getElem?_append_left (by rw [headerBytes_length]; decide)]
    rw [this, f6]
    unfold byte3
    omega
  · rw [hs]
    exact decode_truncated m hwf body hbody _ (by simp only [headerSize] at h12 hover ⊢; omega)

/-- queries and records of supported shapes with in-range values and names of non-empty labels —
    `wfMsg`'s conditions on the sections with the 63-byte bound on labels left out -/
def looseMsg (m : Msg) : Bool :=
  m.queries.all looseQuery && m.answers.all looseRR && m.authority.all looseRR && m.additional.all looseRR

/-- some name of the message (question name, owner name, name inside an RDATA) has a label over 63 bytes -/
def msgLong (m : Msg) : Bool :=
  (m.queries.any fun q => hasLong q.name) || m.answers.any rrLong || m.authority.any rrLong || m.additional.any rrLong

/-- some record's RDATA may reach 64 KiB (`rdataMax`: its size with every name written in full) -/
def msgBig (m : Msg) : Prop := ∃ r ∈ m.answers ++ m.authority ++ m.additional, 65536 ≤ rdataMax r

/-- some record's RDATA certainly reaches 64 KiB (`rdataMin`: its size with every name counted as one
    byte — the exact size when the RDATA holds no name) -/
def msgSurelyBig (m : Msg) : Prop := ∃ r ∈ m.answers ++ m.authority ++ m.additional, 65536 ≤ rdataMin r

theorem wfMsg_loose {m : Msg} (h : wfMsg m = true) : looseMsg m = true ∧ msgLong m = false := by
  simp only [wfMsg, Bool.and_eq_true, decide_eq_true_eq, List.all_eq_true] at h
  obtain ⟨⟨⟨⟨⟨⟨⟨⟨_, wq⟩, wan⟩, wns⟩, wad⟩, _⟩, _⟩, _⟩, _⟩ := h
  simp only [looseMsg, msgLong, Bool.and_eq_true, List.all_eq_true, Bool.or_eq_false_iff, List.any_eq_false]
  exact ⟨⟨⟨⟨fun q hq => (wfQuery_loose (wq q hq)).1, fun r hr => (wfRR_loose (wan r hr)).1⟩,
    fun r hr => (wfRR_loose (wns r hr)).1⟩, fun r hr => (wfRR_loose (wad r hr)).1⟩,
    ⟨⟨⟨fun q hq => by simp [(wfQuery_loose (wq q hq)).2], fun r hr => by simp [(wfRR_loose (wan r hr)).2]⟩,
    fun r hr => by simp [(wfRR_loose (wns r hr)).2]⟩, fun r hr => by simp [(wfRR_loose (wad r hr)).2]⟩⟩

/-- **The body, exactly**: the four sections are written iff no name has a label over 63 bytes and
    no RDATA reaches 64 KiB; the first offending item decides between `ValueError` and `struct.error`. -/
theorem body_total (m : Msg) (hl : looseMsg m = true) :
    (msgLong m = false ∧ ¬ msgSurelyBig m ∧ ∃ body, encodeBody m = .ok body) ∨
    (msgLong m = true ∧ encodeBody m = .error .value) ∨ (encodeBody m = .error .struct ∧ msgBig m) := by
  simp only [looseMsg, Bool.and_eq_true, List.all_eq_true] at hl
  obtain ⟨⟨⟨lq, lan⟩, lns⟩, lad⟩ := hl
  have hk0 : KeysWf [] := fun _ _ h => by cases h
  simp only [encodeBody, msgLong, msgBig, msgSurelyBig]
  rcases queries_total m.queries lq headerSize [] hk0 with ⟨h1, _, b1, d1, e1, k1⟩ | ⟨h1, e1⟩ | ⟨_, hf⟩
  · rcases rrs_total m.answers lan (headerSize + b1.length) d1 k1 with
      ⟨h2, s2, b2, d2, e2, k2⟩ | ⟨h2, e2⟩ | ⟨e2, r, hr, hb⟩
    · rcases rrs_total m.authority lns (headerSize + b1.length + b2.length) d2 k2 with
        ⟨h3, s3, b3, d3, e3, k3⟩ | ⟨h3, e3⟩ | ⟨e3, r, hr, hb⟩
      · rcases rrs_total m.additional lad (headerSize + b1.length + b2.length + b3.length) d3 k3 with
          ⟨h4, s4, b4, d4, e4, k4⟩ | ⟨h4, e4⟩ | ⟨e4, r, hr, hb⟩
        · refine Or.inl ⟨by simp [h1, h2, h3, h4], ?_, b1 ++ b2 ++ b3 ++ b4, by simp [e1, e2, e3, e4]⟩
          rintro ⟨x, hx, hbx⟩
          simp only [List.mem_append] at hx
          rcases hx with (hx | hx) | hx
          · exact s2 ⟨x, hx, hbx⟩
          · exact s3 ⟨x, hx, hbx⟩
          · exact s4 ⟨x, hx, hbx⟩
        · exact Or.inr (Or.inl ⟨by simp [h4], by simp [e1, e2, e3, e4]⟩)
        · exact Or.inr (Or.inr ⟨by simp [e1, e2, e3, e4], r, by simp [hr], hb⟩)
      · exact Or.inr (Or.inl ⟨by simp [h3], by simp [e1, e2, e3]⟩)
      · exact Or.inr (Or.inr ⟨by simp [e1, e2, e3], r, by simp [hr], hb⟩)
    · exact Or.inr (Or.inl ⟨by simp [h2], by simp [e1, e2]⟩)
    · exact Or.inr (Or.inr ⟨by simp [e1, e2], r, by simp [hr], hb⟩)
  · exact Or.inr (Or.inl ⟨by simp [h1], by simp [e1]⟩)
  · exact hf.elim

theorem encodeMsg_body_error {m : Msg} {e : Err} (h : encodeBody m = .error e) : encodeMsg m = .error e := by
  simp [encodeMsg, h]

/-- **`Message.toStr` succeeds** for every well-formed message none of whose RDATA can reach 64 KiB
    (`rdataMax`: the RDATA's size with every name written in full).  Nothing about compression
    offsets is needed: `Name.encode` records an offset only when it is below 2^14. -/
theorem encode_succeeds (m : Msg) (hwf : wfMsg m = true)
    (hsz : ∀ r ∈ m.answers ++ m.authority ++ m.additional, rdataMax r < 65536) :
    ∃ body bs, encodeBody m = .ok body ∧ encodeMsg m = .ok bs := by
  obtain ⟨hl, hlong⟩ := wfMsg_loose hwf
  rcases body_total m hl with ⟨_, _, body, hb⟩ | ⟨h, _⟩ | ⟨_, r, hr, hbig⟩
  · exact ⟨body, _, hb, encodeMsg_eq m hwf body hb⟩
  · rw [hlong] at h; cases h
  · have := hsz r hr; omega

/-- … and the only way `Message.toStr` can fail on a well-formed message is `struct.error` from
    packing the RDLENGTH of a record whose RDATA has 64 KiB or more. -/
theorem encode_fails_only_on_oversize_rdata (m : Msg) (hwf : wfMsg m = true) (e : Err)
    (h : encodeMsg m = .error e) : e = .struct ∧ msgBig m := by
  obtain ⟨hl, hlong⟩ := wfMsg_loose hwf
  rcases body_total m hl with ⟨_, _, body, hb⟩ | ⟨h', _⟩ | ⟨hb, hbig⟩
  · rw [encodeMsg_eq m hwf body hb] at h; cases h
  · rw [hlong] at h'; cases h'
  · rw [encodeMsg_body_error hb] at h; cases h; exact ⟨rfl, hbig⟩

/-- … and it does fail when some RDATA certainly has 64 KiB or more (`rdataMin`; for an RDATA without
    names `rdataMin = rdataMax` is its exact size, so for such messages
    `toStr` succeeds ⇔ every RDATA is shorter than 65536 bytes). -/
theorem encode_fails_on_oversize_rdata (m : Msg) (hwf : wfMsg m = true) (hbig : msgSurelyBig m) :
    encodeMsg m = .error .struct := by
  obtain ⟨hl, hlong⟩ := wfMsg_loose hwf
  rcases body_total m hl with ⟨_, hs, _⟩ | ⟨h', _⟩ | ⟨hb, _⟩
  · exact absurd hbig hs
  · rw [hlong] at h'; cases h'
  · exact encodeMsg_body_error hb

/-- the exact condition when no RDATA holds a (compressible) name: `rdataMin = rdataMax` -/
theorem encode_succeeds_iff (m : Msg) (hwf : wfMsg m = true)
    (hexact : ∀ r ∈ m.answers ++ m.authority ++ m.additional, rdataMin r = rdataMax r) :
    (∃ bs, encodeMsg m = .ok bs) ↔ ∀ r ∈ m.answers ++ m.authority ++ m.additional, rdataMax r < 65536 := by
  constructor
  · rintro ⟨bs, hbs⟩ r hr
    rcases Nat.lt_or_ge (rdataMax r) 65536 with h | h
    · exact h
    · have := encode_fails_on_oversize_rdata m hwf ⟨r, hr, by rw [hexact r hr]; exact h⟩
      rw [this] at hbs; cases hbs
  · intro h
    obtain ⟨_, bs, _, he⟩ := encode_succeeds m hwf h
    exact ⟨bs, he⟩

/-- **C32, clause 2 at the message level.**  A message whose questions and records are in range and
    whose names are made of non-empty labels, one of which — in a question, an owner name or
    inside an RDATA — has more than 63 bytes, is never encoded: `Message.toStr` raises
    `ValueError`, unless an earlier record with an RDATA of 64 KiB or more raises `struct.error` first. -/
theorem unrepresentable_name_refused_message (m : Msg) (hl : looseMsg m = true) (hlong : msgLong m = true) :
    encodeMsg m = .error .value ∨ (encodeMsg m = .error .struct ∧ msgBig m) := by
  rcases body_total m hl with ⟨h, _⟩ | ⟨_, hb⟩ | ⟨hb, hbig⟩
  · rw [hlong] at h; cases h
  · exact Or.inl (encodeMsg_body_error hb)
  · exact Or.inr ⟨encodeMsg_body_error hb, hbig⟩

theorem unrepresentable_name_refused_valueError (m : Msg) (hl : looseMsg m = true) (hlong : msgLong m = true)
    (hsz : ∀ r ∈ m.answers ++ m.authority ++ m.additional, rdataMax r < 65536) :
    encodeMsg m = .error .value := by
  rcases unrepresentable_name_refused_message m hl hlong with h | ⟨_, r, hr, hb⟩
  · exact h
  · have := hsz r hr; omega

/-- the `struct.error` case is real: a NULL record with 64 KiB of data (or more) cannot be encoded —
    `struct.pack("!H", aft - prefix)` in `RRHeader.encode` -/
theorem oversize_rdata_struct_error (b : Bytes) (hb : 65536 ≤ b.length) (off : Nat) (d : Dict) :
    encodeRR ⟨[], 10, 1, 0, some ⟨false, [.bytes b]⟩⟩ off d = .error .struct := by
  have h1 : encodeName [] off true d = .ok ([0], d) := by simp [encodeName, encodeNameAux]
  have h2 : packBE 2 b.length = .error .struct := by simp [packBE, show ¬ b.length < 256 ^ 2 by omega]
  simp [encodeRR, h1, packBE_ok (show 10 < 256 ^ 2 by decide), packBE_ok (show 1 < 256 ^ 2 by decide),
    packBE_ok (show 0 < 256 ^ 4 by decide), payloadKinds, kindsOf, schema, encFields, encField, h2]

/-- **C32 for `Message`, all clauses together, no hypothesis on the encoder's result.**  A well-formed
    message none of whose RDATA can reach 64 KiB is encoded by `Message.toStr`; if it is within its
    size limit (or has none) `Message.fromStr` returns it (`maxSize`, not a wire field, reads back
    as 0); if it is over its limit (`maxSize ≥ 12`) exactly `maxSize` bytes are produced and they
    decode to the message's header with TC set and a flat proper prefix of its questions and records. -/
theorem message_round_trip (m : Msg) (hwf : wfMsg m = true)
    (hsz : ∀ r ∈ m.answers ++ m.authority ++ m.additional, rdataMax r < 65536) :
    ∃ body bs, encodeBody m = .ok body ∧ encodeMsg m = .ok bs ∧
      ((m.maxSize = 0 ∨ body.length + headerSize ≤ m.maxSize) → decodeMsg bs = .ok { m with maxSize := 0 }) ∧
      (headerSize ≤ m.maxSize → body.length + headerSize > m.maxSize →
        bs.length = m.maxSize ∧ (bs.getD 2 0).toNat / 2 % 2 = 1 ∧
        ∃ kq ka kn kd, FlatCut m kq ka kn kd ∧ decodeMsg bs = .ok (truncatedTo m kq ka kn kd)) := by
  obtain ⟨body, bs, hb, he⟩ := encode_succeeds m hwf hsz
  refine ⟨body, bs, hb, he, fun hfit => decode_encode_message m hwf body bs hb hfit he, fun h12 hover => ?_⟩
  obtain ⟨h1, h2, _, h4⟩ := truncated_encoding_within_limit m hwf body bs hb h12 hover he
  exact ⟨h1, h2, h4⟩

/-- **Names** (re-stated from `C32/Name.lean`): a name of 1..63-byte labels written by `Name.encode`
    at any offset, with or without compression, with any sound dictionary, into any message, is
    accepted, and `Name.decode` at that offset returns it and stops just after the written bytes;
    the dictionary stays sound. -/
theorem name_round_trip (ls : List Bytes) (hwf : WfLabels ls) (off : Nat) (comp : Bool) (d : Dict) :
    ∃ B d', encodeName (joinDots ls) off comp d = .ok (B, d') ∧
      ∀ M, Placed M off B → DictOK M off d →
        decodeName M off = .ok (joinDots ls, off + B.length) ∧ DictOK M (off + B.length) d' := by
  obtain ⟨B, d', h⟩ := name_encode_ok ls hwf off comp d
  exact ⟨B, d', h, fun M hpl hd => name_roundtrip ls hwf off comp d d' B M h hpl hd⟩

/-- **C32, clause 2** (re-stated from `C32/Name.lean`): a name of proper labels one of which has
    more than 63 bytes is refused by `Name.encode` with `ValueError`, with or without compression. -/
theorem unrepresentable_name_is_refused (ls : List Bytes) (hp : ProperLabels ls) (l : Bytes) (hl : l ∈ ls)
    (hlong : l.length > 63) (off : Nat) (comp : Bool) (d : Dict) (hd : KeysWf d) :
    encodeName (joinDots ls) off comp d = .error .value :=
  unrepresentable_name_refused ls hp l hl hlong off comp d hd

/-- **What `Name.encode` records** (re-stated from `C32/Offsets.lean`): the dictionary after a name of
    1..63-byte labels written at `off` is the old one with new entries in front; each new entry is
    suffix `i` of the name ↦ `off + labelOff ls i`, the offset of label `i` itself, and it is there
    only when *that* offset is below 2^14 — a name that starts below 2^14 and continues beyond it
    has only its first suffixes recorded. -/
theorem name_records_suffixes_at_their_own_offsets (ls : List Bytes) (hwf : WfLabels ls) (off : Nat) (comp : Bool)
    (d : Dict) (B : Bytes) (d' : Dict) (henc : encodeName (joinDots ls) off comp d = .ok (B, d')) :
    ∃ pre, d' = pre ++ d ∧ ∀ k t, (k, t) ∈ pre →
      comp = true ∧ ∃ i, i < ls.length ∧ k = joinDots (ls.drop i) ∧ t = off + labelOff ls i ∧ t < 16384 :=
  recorded_entries ls hwf off comp d B d' henc

/-- a suffix of a name that starts at or beyond offset 2^14 is not recorded, wherever the name itself starts -/
theorem suffix_beyond_2_14_not_recorded (ls : List Bytes) (hwf : WfLabels ls) (off : Nat) (comp : Bool) (d : Dict)
    (B : Bytes) (d' : Dict) (henc : encodeName (joinDots ls) off comp d = .ok (B, d'))
    (i : Nat) (hi : i < ls.length) (hbig : 16384 ≤ off + labelOff ls i) :
    d'.lookup (joinDots (ls.drop i)) = d.lookup (joinDots (ls.drop i)) :=
  straddling_suffix_not_recorded ls hwf off comp d B d' henc i hi hbig

/-- a name none of whose suffixes is in the dictionary is written in full and the dictionary gains
    exactly the suffixes whose own offsets are below 2^14 (`recorded`; `recorded_complete`: none is forgotten) -/
theorem fresh_name_records_exactly (ls : List Bytes) (hwf : WfLabels ls) (off : Nat) (d : Dict)
    (hfresh : ∀ i, i < ls.length → d.lookup (joinDots (ls.drop i)) = none) :
    encodeName (joinDots ls) off true d = .ok (fullName ls, recorded ls off d) ∧
    (∀ i, i < ls.length → off + labelOff ls i < 16384 →
      (joinDots (ls.drop i), off + labelOff ls i) ∈ recorded ls off d) :=
  ⟨fresh_name_encoding ls hwf off d hfresh, fun i hi h => recorded_complete ls off d i hi h⟩

/-- two names, one dictionary, any offsets (below, across or beyond 2^14): both are read back -/
theorem two_names_round_trip (ls1 ls2 : List Bytes) (hwf1 : WfLabels ls1) (hwf2 : WfLabels ls2)
    (off1 off2 : Nat) (c1 c2 : Bool) (d d1 d2 : Dict) (B1 B2 M : Bytes)
    (h1 : encodeName (joinDots ls1) off1 c1 d = .ok (B1, d1)) (h2 : encodeName (joinDots ls2) off2 c2 d1 = .ok (B2, d2))
    (hlater : off1 + B1.length ≤ off2) (hp1 : Placed M off1 B1) (hp2 : Placed M off2 B2) (hd : DictOK M off1 d) :
    decodeName M off1 = .ok (joinDots ls1, off1 + B1.length) ∧
    decodeName M off2 = .ok (joinDots ls2, off2 + B2.length) ∧ DictOK M (off2 + B2.length) d2 :=
  later_use_round_trip ls1 ls2 hwf1 hwf2 off1 off2 c1 c2 d d1 d2 B1 B2 M h1 h2 hlater hp1 hp2 hd

/-! ### a decoded message is encoded again (the forwarder's / the cache's path)

The model's messages are values: `encodeMsg` cannot depend on where a record came from.  What remains to be said is
that the value `Message.fromStr` hands back, given its size limit again, is encoded to the very same bytes - so a
message may go through any number of decode / encode rounds (`C32 rt2` in the driver is one such round; the tie runs
it on the real code, where a decoded `RRHeader` carries an `rdlength` and a decoded payload its own attributes). -/

theorem restore_maxSize (m : Msg) : { ({ m with maxSize := 0 } : Msg) with maxSize := m.maxSize } = m := by
  cases m; rfl

/-- A well-formed message within its size limit: the decoded message, with the size limit put back, is encoded to
    the same bytes, which decode to the same message. -/
theorem reencode_decoded_message (m : Msg) (hwf : wfMsg m = true) (body bs : Bytes)
    (hbody : encodeBody m = .ok body) (hfit : m.maxSize = 0 ∨ body.length + headerSize ≤ m.maxSize)
    (henc : encodeMsg m = .ok bs) :
    ∃ d, decodeMsg bs = .ok d ∧ encodeMsg { d with maxSize := m.maxSize } = .ok bs ∧
      { d with maxSize := m.maxSize } = m := by
  refine ⟨{ m with maxSize := 0 }, decode_encode_message m hwf body bs hbody hfit henc, ?_, restore_maxSize m⟩
  rw [restore_maxSize m]; exact henc

/-- The same with no hypothesis on the encoder's result, for any number `n` of decode / encode rounds: every round
    produces the first round's bytes. -/
def reencode (maxSize : Nat) : Nat → Bytes → Except Err Bytes
  | 0, bs => .ok bs
  | n + 1, bs =>
    match decodeMsg bs with
    | .error e => .error e
    | .ok d =>
      match encodeMsg { d with maxSize := maxSize } with
      | .error e => .error e
      | .ok bs' => reencode maxSize n bs'

theorem reencode_any_number_of_times (m : Msg) (hwf : wfMsg m = true)
    (hsz : ∀ r ∈ m.answers ++ m.authority ++ m.additional, rdataMax r < 65536) :
    ∃ body bs, encodeBody m = .ok body ∧ encodeMsg m = .ok bs ∧
      ((m.maxSize = 0 ∨ body.length + headerSize ≤ m.maxSize) → ∀ n, reencode m.maxSize n bs = .ok bs) := by
  obtain ⟨body, bs, hb, he⟩ := encode_succeeds m hwf hsz
  refine ⟨body, bs, hb, he, fun hfit n => ?_⟩
  obtain ⟨d, hd, hre, _⟩ := reencode_decoded_message m hwf body bs hb hfit he
  induction n with
  | zero => rfl
  | succ n ih => simp only [reencode, hd, hre]; exact ih

/-! ### non-vacuity: a concrete message with shared suffixes, a case variant and five record types -/

/-- ASCII text as bytes -/
def bs (s : String) : Bytes := s.toList.map fun c => UInt8.ofNat c.toNat

/-- `example.com MX 10 mail.example.com`, `EXAMPLE.com TXT "v=spf1" ""`, an SOA, an SRV, an A6 … -/
def exMsg : Msg :=
  { id := 4660, answer := 1, opCode := 0, recDes := 1, recAv := 1, auth := 1, rCode := 3, trunc := 0, maxSize := 0,
    authenticData := 0, checkingDisabled := 1,
    queries := [⟨bs "example.com", 15, 1⟩],
    answers := [⟨bs "example.com", 15, 1, 3600, some ⟨false, [.nat 10, .bytes (bs "mail.example.com")]⟩⟩,
                ⟨bs "EXAMPLE.com", 16, 1, 60, some ⟨false, [.strs [bs "v=spf1", []]]⟩⟩],
    authority := [⟨bs "example.com", 6, 1, 300, some ⟨false, [.bytes (bs "ns.example.com"), .bytes (bs "root.example.com"),
                    .nat 2024010101, .int (-1), .int 7200, .int 2147483647, .nat 4294967295]⟩⟩],
    additional := [⟨bs "_sip._tcp.example.com", 33, 1, 0, some ⟨false, [.nat 1, .nat 2, .nat 5060, .bytes (bs "mail.example.com")]⟩⟩,
                   ⟨bs "mail.example.com", 38, 1, 5, some ⟨false, [.a6 64 (zeros 8 ++ [1, 2, 3, 4, 5, 6, 7, 8]) (bs "net.example.com")]⟩⟩,
                   ⟨[], 41, 4096, 0, some ⟨true, [.bytes []]⟩⟩] }

example : wfMsg exMsg = true := by decide

/-- the hypotheses of `decode_encode_message` are satisfiable, compression pointers included -/
example : ∃ out, encodeMsg exMsg = .ok out ∧ out.contains 192 = true ∧
    decodeMsg out = .ok { exMsg with maxSize := 0 } := by
  have hw : wfMsg exMsg = true := by decide
  cases hb : encodeBody exMsg with
  | error e =>
    have : (match encodeBody exMsg with | .ok _ => true | .error _ => false) = true := by decide
    rw [hb] at this; cases this
  | ok body =>
    have he := encodeMsg_eq exMsg hw body hb
    rw [if_neg (by simp [exMsg])] at he
    have hptr : (match encodeBody exMsg with | .ok b => b.contains 192 | .error _ => false) = true := by decide
    rw [hb] at hptr
    refine ⟨_, he, ?_, decode_encode_message exMsg hw body _ hb (Or.inl rfl) he⟩
    simp only [List.contains_eq_mem, List.mem_append, decide_eq_true_eq] at hptr ⊢
    exact Or.inr hptr

set_option maxRecDepth 8000 in
/-- … and those of the truncation theorem: the same message with `maxSize = 64` -/
example : ∃ out, encodeMsg { exMsg with maxSize := 64 } = .ok out ∧ out.length = 64 ∧ (out.getD 2 0).toNat / 2 % 2 = 1 ∧
    ∃ kq ka kn kd, FlatCut { exMsg with maxSize := 64 } kq ka kn kd ∧
      decodeMsg out = .ok (truncatedTo { exMsg with maxSize := 64 } kq ka kn kd) := by
  have hw : wfMsg { exMsg with maxSize := 64 } = true := by decide
  cases hb : encodeBody { exMsg with maxSize := 64 } with
  | error e =>
    have : (match encodeBody { exMsg with maxSize := 64 } with | .ok _ => true | .error _ => false) = true := by decide
    rw [hb] at this; cases this
  | ok body =>
    have hlen : (match encodeBody { exMsg with maxSize := 64 } with | .ok b => decide (b.length + headerSize > 64) | .error _ => false) = true := by
      decide
    rw [hb] at hlen
    have hover : body.length + headerSize > 64 := by simpa using hlen
    have he := encodeMsg_eq _ hw body hb
    obtain ⟨h1, h2, _, h4⟩ := truncated_encoding_within_limit _ hw body _ hb (by decide) hover he
    exact ⟨_, he, h1, h2, h4⟩

instance (ls : List Bytes) : Decidable (ProperLabels ls) := by unfold ProperLabels; exact inferInstance

/-- … and of the refusal theorem -/
example : encodeName (joinDots [bs "a", List.replicate 64 120, bs "com"]) 12 true [] = .error .value :=
  unrepresentable_name_is_refused _ (by decide) (List.replicate 64 120) (by decide) (by decide) 12 true []
    (fun _ _ h => by cases h)

/-- … of the message-level refusal: a 64-byte label inside the RDATA of the second answer -/
def exBad : Msg :=
  { exMsg with answers := exMsg.answers ++
      [⟨bs "example.com", 15, 1, 60, some ⟨false, [.nat 5, .bytes (bs "mx." ++ List.replicate 64 120 ++ bs ".example.com")]⟩⟩] }

example : encodeMsg exBad = .error .value :=
  unrepresentable_name_refused_valueError exBad (by decide) (by decide) (by decide)

/-- … and of `message_round_trip` (hence of `encode_succeeds`) -/
example : ∃ out, encodeMsg exMsg = .ok out ∧ decodeMsg out = .ok { exMsg with maxSize := 0 } := by
  obtain ⟨body, out, _, he, hrt, _⟩ := message_round_trip exMsg (by decide) (by decide)
  exact ⟨out, he, hrt (Or.inl rfl)⟩

/-- `reencode_any_number_of_times` on the concrete message: three decode / encode rounds give the first bytes -/
example : ∃ out, encodeMsg exMsg = .ok out ∧ reencode exMsg.maxSize 3 out = .ok out := by
  have hw : wfMsg exMsg = true := by decide
  have hs : ∀ r ∈ exMsg.answers ++ exMsg.authority ++ exMsg.additional, rdataMax r < 65536 := by decide
  obtain ⟨body, out, _, he, h⟩ := reencode_any_number_of_times exMsg hw hs
  exact ⟨out, he, h (Or.inl rfl) 3⟩

example : encodeRR ⟨[], 10, 1, 0, some ⟨false, [.bytes (List.replicate 65536 0)]⟩⟩ 12 [] = .error .struct :=
  oversize_rdata_struct_error _ (Nat.le_of_eq List.length_replicate.symm) 12 []

/-! ### non-vacuity across offset 2^14: a name that starts at 16379 and whose second label starts at 16384 -/

instance (ls : List Bytes) : Decidable (WfLabels ls) := by unfold WfLabels WfLabel; exact inferInstance

def exStraddler : List Bytes := [bs "aaaa", bs "straddle", bs "example"]

example : joinDots exStraddler = bs "aaaa.straddle.example" := by decide

/-- only the whole name (offset 16379) is recorded; `straddle.example` (16384) and `example` (16393) are not -/
example : encodeName (joinDots exStraddler) 16379 true [] = .ok (fullName exStraddler, [(joinDots exStraddler, 16379)]) :=
  (fresh_name_records_exactly exStraddler (by decide) 16379 [] (fun _ _ => rfl)).1

/-- … so `straddle.example`, used again later, is written in full -/
example : encodeName (joinDots (exStraddler.drop 1)) 16420 true [(joinDots exStraddler, 16379)] =
    .ok (fullName (exStraddler.drop 1), [(joinDots exStraddler, 16379)]) :=
  (fresh_name_records_exactly (exStraddler.drop 1) (by decide) 16420 _ (by decide)).1

example : List.lookup (joinDots (exStraddler.drop 1)) [(joinDots exStraddler, 16379)] = none :=
  suffix_beyond_2_14_not_recorded exStraddler (by decide) 16379 true [] _ _
    (fresh_name_records_exactly exStraddler (by decide) 16379 [] (fun _ _ => rfl)).1 1 (by decide) (by decide)

/-- a 16.4 KiB message: a NULL record of 16354 bytes puts `aaaa.straddle.example` at offset 16379; then
    `straddle.example` and `mail.straddle.example` (inside an MX, owner in another case) are used -/
def exBig : Msg :=
  { id := 4660, answer := 1, opCode := 0, recDes := 0, recAv := 0, auth := 0, rCode := 0, trunc := 0, maxSize := 0,
    authenticData := 0, checkingDisabled := 0, queries := [],
    answers := [⟨bs "f", 10, 1, 60, some ⟨false, [.bytes (List.replicate 16354 0)]⟩⟩,
                ⟨bs "aaaa.straddle.example", 1, 1, 60, some ⟨false, [.bytes [10, 0, 0, 1]]⟩⟩,
                ⟨bs "straddle.example", 1, 1, 60, some ⟨false, [.bytes [10, 0, 0, 2]]⟩⟩,
                ⟨bs "bbbb.Straddle.example", 15, 1, 60, some ⟨false, [.nat 10, .bytes (bs "mail.straddle.example")]⟩⟩],
    authority := [], additional := [] }

set_option maxRecDepth 100000 in
/-- `message_round_trip` applies to it -/
example : ∃ out, encodeMsg exBig = .ok out ∧ decodeMsg out = .ok exBig := by
  obtain ⟨body, out, _, he, hrt, _⟩ := message_round_trip exBig (by decide) (by decide)
  exact ⟨out, he, hrt (Or.inl rfl)⟩

/-! ### `_EDNSMessage`: the size limit is not honoured (known finding `edns-maxsize-ignored`) -/

/-- an EDNS(0) message advertising / limited to 100 bytes, with one 100-byte TXT answer -/
def exEdns : EMsg :=
  { id := 3, answer := 1, opCode := 0, recDes := 0, recAv := 0, auth := 0, rCode := 0, trunc := 0, maxSize := 100,
    authenticData := 0, checkingDisabled := 0, ednsVersion := some 0, dnssecOK := 0, queries := [],
    answers := [⟨bs "x.example.com", 16, 1, 5, some ⟨false, [.strs [List.replicate 100 97]]⟩⟩],
    authority := [], additional := [] }

set_option maxRecDepth 8000 in
/-- The statement's "a message larger than its size limit is encoded within the limit" fails for
    `_EDNSMessage`: `_toMessage` builds the inner `Message` with the default `maxSize=512`, so the
    message's own `maxSize` (100 here) is ignored — 141 bytes are produced, TC clear. -/
theorem edns_maxsize_ignored_counterexample :
    ¬ (∀ (e : EMsg) (out : Bytes), encodeEMsg e = .ok out → headerSize ≤ e.maxSize → out.length ≤ e.maxSize) := by
  intro h
  cases hb : encodeEMsg exEdns with
  | error e =>
    have : (match encodeEMsg exEdns with | .ok _ => true | .error _ => false) = true := by decide
    rw [hb] at this; cases this
  | ok out =>
    have hlen : (match encodeEMsg exEdns with | .ok b => decide (b.length > 100) | .error _ => false) = true := by decide
    rw [hb] at hlen
    have h1 : out.length > 100 := by simpa using hlen
    have := h exEdns out hb (by decide)
    simp only [exEdns] at this
    omega

end TwistedProps.C32
