import TwistedModel.Http.Chunked
namespace TwistedProps.C22
open Twisted.Http.Chunked

/-! ### bytes without a CRLF -/

/-- no `\r\n` anywhere in `b` (a trailing lone `\r` is allowed) -/
def noCRLF : Bytes → Bool
  | [] => true
  | c :: rest => !(c == CR && rest.head? == some LF) && noCRLF rest

theorem noCRLF_cons (c : UInt8) (rest : Bytes) :
    noCRLF (c :: rest) = true ↔ ¬(c = CR ∧ rest.head? = some LF) ∧ noCRLF rest = true := by
  simp only [noCRLF, Bool.and_eq_true, Bool.not_eq_true', Bool.and_eq_false_iff, beq_eq_false_iff_ne,
    ne_eq]
  constructor
  · rintro ⟨h1 | h1, h2⟩
    · exact ⟨fun hh => h1 hh.1, h2⟩
    · exact ⟨fun hh => by simp [hh.2] at h1, h2⟩
  · rintro ⟨h1, h2⟩
    refine ⟨?_, h2⟩
    by_cases hc : c = CR
    · right
      by_cases hl : rest.head? = some LF
      · exact absurd ⟨hc, hl⟩ h1
      · simpa using hl
    · exact Or.inl hc

theorem noCRLF_prefix (a b : Bytes) (h : noCRLF (a ++ b) = true) : noCRLF a = true := by
  induction a with
  | nil => rfl
  | cons c a ih =>
    rw [List.cons_append, noCRLF_cons] at h
    rw [noCRLF_cons]
    refine ⟨?_, ih h.2⟩
    intro hh
    apply h.1
    refine ⟨hh.1, ?_⟩
    cases a with
    | nil => simp at hh
    | cons x a => simpa using hh.2

theorem noCRLF_append_CR (a : Bytes) (h : noCRLF a = true) : noCRLF (a ++ [CR]) = true := by
  induction a with
  | nil => decide
  | cons c a ih =>
    rw [noCRLF_cons] at h
    rw [List.cons_append, noCRLF_cons]
    refine ⟨?_, ih h.2⟩
    intro hh
    cases a with
    | nil => simp at hh; exact absurd hh.2 (by decide)
    | cons x a => exact h.1 ⟨hh.1, by simpa using hh.2⟩

theorem find_none_of_noCRLF (b : Bytes) (i : Nat) (h : noCRLF b = true) : findCRLFFrom b i = none := by
  induction b generalizing i with
  | nil => rfl
  | cons c b ih =>
    rw [noCRLF_cons] at h
    simp only [findCRLFFrom, h.1, if_false]
    exact ih _ h.2

theorem find_line (line rest : Bytes) (i : Nat) (h : noCRLF line = true) :
    findCRLFFrom (line ++ CR :: LF :: rest) i = some (i + line.length) := by
  induction line generalizing i with
  | nil => simp [findCRLFFrom]
  | cons c line ih =>
    rw [noCRLF_cons] at h
    have hne : ¬(c = CR ∧ (line ++ CR :: LF :: rest).head? = some LF) := by
      intro hh
      cases line with
      | nil => simp at hh; exact absurd hh.2 (by decide)
      | cons x l => exact h.1 ⟨hh.1, by simpa using hh.2⟩
    simp only [List.cons_append, findCRLFFrom, hne, if_false]
    rw [ih _ h.2]
    simp; omega

/-- resuming the search at `_start` finds what a search from 0 finds, when no CRLF lies in the
    first `start + 1` bytes -/
theorem find_from_start (b : Bytes) (k i : Nat) (h : noCRLF (b.take (k + 1)) = true) :
    findCRLFFrom (b.drop k) (i + k) = findCRLFFrom b i := by
  induction k generalizing b i with
  | zero => simp
  | succ k ih =>
    cases b with
    | nil => simp [findCRLFFrom]
    | cons c b =>
      rw [List.take_succ_cons, noCRLF_cons] at h
      have hne : ¬(c = CR ∧ b.head? = some LF) := by
        intro hh; apply h.1; refine ⟨hh.1, ?_⟩
        cases b with
        | nil => simp at hh
        | cons x b => simpa using hh.2
      simp only [List.drop_succ_cons, findCRLFFrom, hne, if_false]
      have := ih b (i + 1) h.2
      rw [← this]; congr 1; omega

theorem append_split_left {α} (a b c d : List α) (h : a ++ b = c ++ d) (hl : c.length ≤ a.length) :
    ∃ r, a = c ++ r ∧ r ++ b = d := by
  rcases List.append_eq_append_iff.mp h with ⟨a', h1, h2⟩ | ⟨c', h1, h2⟩
  · have : a' = [] := by
      have := congrArg List.length h1; simp at this
      exact List.eq_nil_of_length_eq_zero (by omega)
    subst this
    exact ⟨[], by simpa using h1.symm, by simpa using h2⟩
  · exact ⟨c', h1, h2.symm⟩

theorem append_split_right {α} (a b c d : List α) (h : a ++ b = c ++ d) (hl : a.length ≤ c.length) :
    ∃ r, c = a ++ r ∧ b = r ++ d := by
  rcases append_split_left c d a b h.symm hl with ⟨r, h1, h2⟩
  exact ⟨r, h1, h2.symm⟩

end TwistedProps.C22
