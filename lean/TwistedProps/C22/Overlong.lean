import TwistedProps.C22.Trailer
namespace TwistedProps.C22
open Twisted.Http.Chunked

/-!
CHUNK_LENGTH when the CRLF of the size line does not arrive: the exact bound of
`_dataReceived_CHUNK_LENGTH`

    eolIndex >= maxChunkSizeLineLength or (eolIndex == -1 and len(self._buffer) > maxChunkSizeLineLength)

* `run_partialLine`  — up to 1024 buffered bytes without a CRLF are tolerated (the decoder waits);
* `run_overlongNoCRLF` — as soon as the stream holds 1025 bytes without a CRLF, whatever follows
  them, every segmentation ends in `_MalformedChunkedDataError`.
-/

/-- the search from `0` never reports an index below its offset -/
theorem findCRLFFrom_ge (b : Bytes) (i e : Nat) (h : findCRLFFrom b i = some e) : i ≤ e := by
  induction b generalizing i with
  | nil => simp [findCRLFFrom] at h
  | cons c rest ih =>
    simp only [findCRLFFrom] at h
    split at h
    · simp at h; omega
    · have := ih (i + 1) h; omega

/-- a CRLF found in `a ++ b`, `a` CRLF-free, starts at the last byte of `a` at the earliest -/
theorem find_ge_of_noCRLF_prefix (a b : Bytes) (i e : Nat) (h : noCRLF a = true)
    (hf : findCRLFFrom (a ++ b) i = some e) : i + a.length ≤ e + 1 := by
  induction a generalizing i with
  | nil => simp only [List.nil_append] at hf; have := findCRLFFrom_ge _ _ _ hf; simp; omega
  | cons c a ih =>
    rw [noCRLF_cons] at h
    simp only [List.cons_append, findCRLFFrom] at hf
    split at hf
    · rename_i hc
      cases a with
      | nil => simp at hf; simp; omega
      | cons x a => exact absurd ⟨hc.1, by simpa using hc.2⟩ h.1
    · have := ih (i + 1) h.2 hf
      simp; omega

/-- two lists that are prefixes of the same list agree on their common length -/
theorem take_eq_of_append_eq {α} (a b c d : List α) (n : Nat) (h : a ++ b = c ++ d)
    (ha : n ≤ a.length) (hc : n ≤ c.length) : a.take n = c.take n := by
  have := congrArg (List.take n) h
  rwa [List.take_append_of_le_length ha, List.take_append_of_le_length hc] at this

/-- CHUNK_LENGTH: 1025 bytes without a CRLF (followed by anything) are refused under every
    segmentation, at the latest by the delivery that brings the 1025th byte -/
theorem run_overlongNoCRLF (junk rest : Bytes) (hno : noCRLF junk = true) (hlen : 1025 ≤ junk.length) :
    ∀ (cs : List Bytes) (s : Dec), s.state = .chunkLength → startOK s →
      s.buffer ++ cs.flatten = junk ++ rest →
      ∃ s', sameOut s s' ∧ run s cs = .error (.malformed, s') := by
  have now : ∀ (cs : List Bytes) (s : Dec), s.state = .chunkLength → startOK s →
      s.buffer ++ cs.flatten = junk ++ rest → 1025 ≤ s.buffer.length →
      ∃ s', sameOut s s' ∧ run s cs = .error (.malformed, s') := by
    intro cs s hst hso hb hlong
    have hne : s.buffer ≠ [] := by intro h; rw [h] at hlong; simp at hlong
    have htk : s.buffer.take 1025 = junk.take 1025 := take_eq_of_append_eq _ _ _ _ 1025 hb hlong hlen
    have hnoT : noCRLF (s.buffer.take 1025) = true := by
      rw [htk]
      exact noCRLF_prefix _ (junk.drop 1025) (by rw [List.take_append_drop]; exact hno)
    have hh : handler s = .error .malformed := by
      simp only [handler, hst, handleChunkLength, findCRLF_eq s hso]
      cases hf : findCRLFFrom s.buffer 0 with
      | none => simp [maxChunkSizeLineLength]; omega
      | some e =>
        have hsplit : s.buffer = s.buffer.take 1025 ++ s.buffer.drop 1025 := (List.take_append_drop _ _).symm
        rw [hsplit] at hf
        have := find_ge_of_noCRLF_prefix _ _ 0 e hnoT hf
        simp only [List.length_take] at this
        have he : e ≥ maxChunkSizeLineLength := by simp only [maxChunkSizeLineLength]; omega
        simp [he]
    exact ⟨s, ⟨rfl, rfl, rfl⟩, run_err s _ cs hne hh⟩
  intro cs
  induction cs with
  | nil =>
    intro s hst hso hb
    refine now [] s hst hso hb ?_
    have := congrArg List.length hb
    simp at this; omega
  | cons d cs ih =>
    intro s hst hso hb
    by_cases hlong : 1025 ≤ s.buffer.length
    · exact now (d :: cs) s hst hso hb hlong
    · -- at most 1024 bytes buffered: a prefix of `junk`, so no CRLF, and within the tolerance
      obtain ⟨r, h1, _⟩ := append_split_right s.buffer _ junk rest hb (by omega)
      have hnoB : noCRLF s.buffer = true := noCRLF_prefix _ r (h1 ▸ hno)
      by_cases hnil : s.buffer = []
      · rw [run_nil_cons s d cs hnil (by simp [hst])]
        exact ih (s.append d) hst (startOK_append s d hso)
          (by simpa [Dec.append, List.append_assoc] using hb)
      · have hf : findCRLF s.buffer s.start = none := by
          rw [findCRLF_eq s hso]; exact find_none_of_noCRLF _ _ hnoB
        have hh : handler s = .ok (false, { s with start := s.buffer.length - 1 }) := by
          simp only [handler, hst, handleChunkLength, hf]
          simp [maxChunkSizeLineLength]; omega
        rw [run_stop_cons s _ d cs hnil hh (by simp [hst])]
        have hpos : 0 < s.buffer.length := List.length_pos_iff.mpr hnil
        have hso' : startOK ({ s with start := s.buffer.length - 1 } : Dec) := by
          refine ⟨?_, by simp⟩
          simp only
          rw [List.take_of_length_le (by omega)]; exact hnoB
        obtain ⟨s', ⟨g1, g2, g3⟩, g4⟩ := ih (({ s with start := s.buffer.length - 1 } : Dec).append d) hst
          (startOK_append _ d hso') (by simpa [Dec.append, List.append_assoc] using hb)
        exact ⟨s', ⟨g1, g2, g3⟩, g4⟩

/-- CHUNK_LENGTH: a CRLF-free partial size line of at most 1024 bytes is tolerated under every
    segmentation — no raise, nothing delivered, every delivery consumed, the decoder still waits in
    CHUNK_LENGTH with the partial line buffered -/
theorem run_partialLine (part : Bytes) (hno : noCRLF part = true) (hlen : part.length ≤ 1024) :
    ∀ (cs : List Bytes) (s : Dec), s.state = .chunkLength → startOK s →
      s.buffer ++ cs.flatten = part →
      ∃ s', sameOut s s' ∧ s'.state = .chunkLength ∧ s'.buffer = part ∧ run s cs = .ok (s', []) := by
  intro cs
  induction cs with
  | nil =>
    intro s hst hso hb
    have hB : s.buffer = part := by simpa using hb
    by_cases hnil : s.buffer = []
    · refine ⟨s, ⟨rfl, rfl, rfl⟩, hst, hB, ?_⟩
      unfold run; rw [loop_eq s]; simp [hnil, Except.bind, feed]
    · have hf : findCRLF s.buffer s.start = none := by
        rw [findCRLF_eq s hso]; exact find_none_of_noCRLF _ _ (hB ▸ hno)
      have hh : handler s = .ok (false, { s with start := s.buffer.length - 1 }) := by
        simp only [handler, hst, handleChunkLength, hf]
        simp [maxChunkSizeLineLength]; rw [hB]; omega
      refine ⟨{ s with start := s.buffer.length - 1 }, ⟨rfl, rfl, rfl⟩, hst, hB, ?_⟩
      unfold run; rw [loop_eq s]; simp [hnil, hh, Except.bind, feed]
  | cons d cs ih =>
    intro s hst hso hb
    have hBlen : s.buffer.length ≤ part.length := by
      have := congrArg List.length hb; simp at this; omega
    have hnoB : noCRLF s.buffer = true := noCRLF_prefix _ (d :: cs).flatten (hb ▸ hno)
    by_cases hnil : s.buffer = []
    · rw [run_nil_cons s d cs hnil (by simp [hst])]
      exact ih (s.append d) hst (startOK_append s d hso)
        (by simpa [Dec.append, List.append_assoc] using hb)
    · have hf : findCRLF s.buffer s.start = none := by
        rw [findCRLF_eq s hso]; exact find_none_of_noCRLF _ _ hnoB
      have hh : handler s = .ok (false, { s with start := s.buffer.length - 1 }) := by
        simp only [handler, hst, handleChunkLength, hf]
        simp [maxChunkSizeLineLength]; omega
      rw [run_stop_cons s _ d cs hnil hh (by simp [hst])]
      have hpos : 0 < s.buffer.length := List.length_pos_iff.mpr hnil
      have hso' : startOK ({ s with start := s.buffer.length - 1 } : Dec) := by
        refine ⟨?_, by simp⟩
        simp only
        rw [List.take_of_length_le (by omega)]; exact hnoB
      obtain ⟨s', ⟨g1, g2, g3⟩, g4, g5, g6⟩ := ih (({ s with start := s.buffer.length - 1 } : Dec).append d) hst
        (startOK_append _ d hso') (by simpa [Dec.append, List.append_assoc] using hb)
      exact ⟨s', ⟨g1, g2, g3⟩, g4, g5, g6⟩

end TwistedProps.C22
