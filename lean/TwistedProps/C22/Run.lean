import TwistedProps.C22.Bytes
namespace TwistedProps.C22
open Twisted.Http.Chunked

/-! ### the loop, one handler call at a time -/

theorem loop_eq (s : Dec) : loop s =
    if s.buffer = [] then .ok s else
    match handler s with
    | .error e => .error (e, s)
    | .ok (false, s') => .ok s'
    | .ok (true, s') => loop s' := by
  rw [loop]
  split
  · rfl
  · split <;> simp_all

/-- run the loop on what is buffered, then hand the remaining deliveries over under the callers'
    discipline (`feed`) -/
def run (s : Dec) (cs : List Bytes) : Except (Err × Dec) (Dec × List Bytes) :=
  (loop s).bind fun s' => feed s' cs

theorem run_go (s s' : Dec) (cs : List Bytes) (hne : s.buffer ≠ []) (h : handler s = .ok (true, s')) :
    run s cs = run s' cs := by
  unfold run; rw [loop_eq s]; simp [hne, h]

theorem run_err (s : Dec) (e : Err) (cs : List Bytes) (hne : s.buffer ≠ []) (h : handler s = .error e) :
    run s cs = .error (e, s) := by
  unfold run; rw [loop_eq s]; simp [hne, h, Except.bind]

theorem feed_cons (s : Dec) (d : Bytes) (cs : List Bytes) (h : s.state ≠ .finished) :
    feed s (d :: cs) = run (s.append d) cs := by
  simp [feed, h, run, dataReceived]

theorem run_stop_cons (s s' : Dec) (d : Bytes) (cs : List Bytes) (hne : s.buffer ≠ [])
    (h : handler s = .ok (false, s')) (hs : s'.state ≠ .finished) :
    run s (d :: cs) = run (s'.append d) cs := by
  rw [← feed_cons s' d cs hs]
  unfold run; rw [loop_eq s]; simp [hne, h, Except.bind]

theorem run_nil_cons (s : Dec) (d : Bytes) (cs : List Bytes) (he : s.buffer = []) (hs : s.state ≠ .finished) :
    run s (d :: cs) = run (s.append d) cs := by
  rw [← feed_cons s d cs hs]
  unfold run; rw [loop_eq s]; simp [he, Except.bind]

theorem feed_finished (s : Dec) (cs : List Bytes) (h : s.state = .finished) : feed s cs = .ok (s, cs) := by
  cases cs <;> simp [feed, h]

theorem run_fin (s s' : Dec) (cs : List Bytes) (hne : s.buffer ≠ [])
    (h : handler s = .ok (false, s')) (hs : s'.state = .finished) :
    run s cs = .ok (s', cs) := by
  unfold run; rw [loop_eq s]; simp [hne, h, Except.bind, feed_finished s' cs hs]

theorem feed_eq_run (s : Dec) (cs : List Bytes) (he : s.buffer = []) : feed s cs = run s cs := by
  unfold run; rw [loop_eq s]; simp [he, Except.bind]

/-- the `_start` invariant of the CHUNK_LENGTH state -/
def startOK (s : Dec) : Prop := noCRLF (s.buffer.take (s.start + 1)) = true ∧ s.start ≤ s.buffer.length - 1

theorem noCRLF_short (b : Bytes) (h : b.length ≤ 1) : noCRLF b = true := by
  match b, h with
  | [], _ => rfl
  | [c], _ => simp [noCRLF]

theorem startOK_zero (s : Dec) (h : s.start = 0) : startOK s := by
  refine ⟨noCRLF_short _ (by simp [h]; omega), by omega⟩

theorem startOK_append (s : Dec) (d : Bytes) (h : startOK s) : startOK (s.append d) := by
  obtain ⟨h1, h2⟩ := h
  simp only [startOK, Dec.append, List.length_append]
  refine ⟨?_, by omega⟩
  by_cases hb : s.buffer = []
  · have : s.start = 0 := by simp [hb] at h2; exact h2
    exact noCRLF_short _ (by simp [this]; omega)
  · have hpos : 0 < s.buffer.length := List.length_pos_iff.mpr hb
    rw [List.take_append_of_le_length (by omega)]
    exact h1

theorem findCRLF_eq (s : Dec) (h : startOK s) : findCRLF s.buffer s.start = findCRLFFrom s.buffer 0 := by
  unfold findCRLF
  have := find_from_start s.buffer s.start 0 h.1
  simpa using this

end TwistedProps.C22
