import TwistedProps.C22.Run
namespace TwistedProps.C22
open Twisted.Http.Chunked

/-- a chunk-size line (without its CRLF) the decoder accepts as announcing `n` bytes -/
def lineOK (line : Bytes) (n : Nat) : Prop :=
  noCRLF line = true ∧ line.length ≤ 1023 ∧ hexint (splitSemi line).1 = some n ∧
    (splitSemi line).2.all chunkExtChar = true

/-- what the lemmas preserve -/
def sameOut (s s' : Dec) : Prop := s'.data = s.data ∧ s'.fin = s.fin ∧ s'.recvTrailer = s.recvTrailer

theorem cs_nonempty_of_short (B : Bytes) (cs : List Bytes) (X : Bytes) (h : B ++ cs.flatten = X)
    (hl : B.length < X.length) : ∃ d cs', cs = d :: cs' := by
  cases cs with
  | nil => simp at h; subst h; omega
  | cons d cs' => exact ⟨d, cs', rfl⟩

/-- the decoder after `_dataReceived_CHUNK_LENGTH` consumed a line of `k` bytes announcing `n` -/
def afterLine (s : Dec) (n k : Nat) : Dec :=
  { s with state := (if n = 0 then .trailer else .body), length := n, buffer := s.buffer.drop (k + 2), start := 0 }

/-- CHUNK_LENGTH with the whole line buffered -/
theorem sizeLine_now (line rest : Bytes) (n : Nat) (hl : lineOK line n) (cs : List Bytes) (s : Dec)
    (hst : s.state = .chunkLength) (hso : startOK s)
    (hb : s.buffer ++ cs.flatten = line ++ CR :: LF :: rest) (hlong : line.length + 2 ≤ s.buffer.length) :
    ∃ s' cs', s'.state = (if n = 0 then St.trailer else St.body) ∧ s'.length = n ∧ s'.start = 0 ∧
      s'.buffer ++ cs'.flatten = rest ∧ sameOut s s' ∧ run s cs = run s' cs' := by
  obtain ⟨hno, hlen, hhex, hext⟩ := hl
  obtain ⟨r, h1, h2⟩ := append_split_left s.buffer _ (line ++ [CR, LF]) rest (by simpa using hb) (by simpa using hlong)
  have hf : findCRLF s.buffer s.start = some line.length := by
    rw [findCRLF_eq s hso, h1]
    have := find_line line r 0 hno
    simpa using this
  have hne : s.buffer ≠ [] := by rw [h1]; simp
  have htake : s.buffer.take line.length = line := by rw [h1]; simp
  have hh : handler s = .ok (true, afterLine s n line.length) := by
    simp only [afterLine, handler, hst, handleChunkLength, hf, htake, hhex, hext]
    simp [maxChunkSizeLineLength]; omega
  refine ⟨afterLine s n line.length, cs, rfl, rfl, rfl, ?_, ⟨rfl, rfl, rfl⟩, run_go _ _ _ hne hh⟩
  simp only [afterLine, h1]
  have : List.drop (line.length + 2) (line ++ [CR, LF] ++ r) = r := by
    rw [List.drop_append_of_le_length (by simp)]; simp
  rw [this]; exact h2

/-- CHUNK_LENGTH: an acceptable size line followed by CRLF is consumed under every segmentation -/
theorem run_sizeLine (line rest : Bytes) (n : Nat) (hl : lineOK line n) :
    ∀ (cs : List Bytes) (s : Dec), s.state = .chunkLength → startOK s →
      s.buffer ++ cs.flatten = line ++ CR :: LF :: rest →
      ∃ s' cs', s'.state = (if n = 0 then St.trailer else St.body) ∧ s'.length = n ∧ s'.start = 0 ∧
        s'.buffer ++ cs'.flatten = rest ∧ sameOut s s' ∧ run s cs = run s' cs' := by
  have hl' := hl
  obtain ⟨hno, hlen, hhex, hext⟩ := hl
  intro cs
  induction cs with
  | nil =>
    intro s hst hso hb
    refine sizeLine_now line rest n hl' [] s hst hso hb ?_
    have := congrArg List.length hb
    simp at this; omega
  | cons d cs ih =>
    intro s hst hso hb
    by_cases hlong : line.length + 2 ≤ s.buffer.length
    · exact sizeLine_now line rest n hl' (d :: cs) s hst hso hb hlong
    · -- the line is not complete yet: wait for the next delivery
      have hshort : s.buffer.length ≤ (line ++ [CR]).length := by simp; omega
      obtain ⟨r, h1, _⟩ := append_split_right s.buffer _ (line ++ [CR]) (LF :: rest) (by simpa using hb) hshort
      have hnoB : noCRLF s.buffer = true := noCRLF_prefix _ r (h1 ▸ noCRLF_append_CR _ hno)
      by_cases hnil : s.buffer = []
      · rw [run_nil_cons s d cs hnil (by simp [hst])]
        obtain ⟨s', cs', g1, g2, g3, g4, g5, g6⟩ := ih (s.append d) hst (startOK_append s d hso)
          (by simpa [Dec.append, List.append_assoc] using hb)
        exact ⟨s', cs', g1, g2, g3, g4, g5, g6⟩
      · have hf : findCRLF s.buffer s.start = none := by
          rw [findCRLF_eq s hso]; exact find_none_of_noCRLF _ _ hnoB
        have hh : handler s = .ok (false, { s with start := s.buffer.length - 1 }) := by
          simp only [handler, hst, handleChunkLength, hf]
          simp [maxChunkSizeLineLength]; simp at hshort; omega
        rw [run_stop_cons s _ d cs hnil hh (by simp [hst])]
        have hpos : 0 < s.buffer.length := List.length_pos_iff.mpr hnil
        have hso' : startOK ({ s with start := s.buffer.length - 1 } : Dec) := by
          refine ⟨?_, by simp⟩
          simp only
          rw [List.take_of_length_le (by omega)]; exact hnoB
        obtain ⟨s', cs', g1, g2, g3, g4, g5, g6⟩ := ih (({ s with start := s.buffer.length - 1 } : Dec).append d) hst
          (startOK_append _ d hso') (by simpa [Dec.append, List.append_assoc] using hb)
        exact ⟨s', cs', g1, g2, g3, g4, g5, g6⟩

end TwistedProps.C22
