import TwistedProps.C22.Body
namespace TwistedProps.C22
open Twisted.Http.Chunked

def afterCRLF (s : Dec) (rest : Bytes) : Dec := { s with state := .chunkLength, buffer := rest }

theorem length_lt_two (b : Bytes) (h : b.length < 2) : b = [] ∨ ∃ c, b = [c] := by
  match b, h with
  | [], _ => exact Or.inl rfl
  | [c], _ => exact Or.inr ⟨c, rfl⟩

/-- CRLF: the CRLF after chunk data is consumed under every segmentation -/
theorem run_crlf (rest : Bytes) :
    ∀ (cs : List Bytes) (s : Dec), s.state = .crlf → s.start = 0 →
      s.buffer ++ cs.flatten = CR :: LF :: rest →
      ∃ s' cs', s'.state = .chunkLength ∧ s'.start = 0 ∧ s'.buffer ++ cs'.flatten = rest ∧
        sameOut s s' ∧ run s cs = run s' cs' := by
  have now : ∀ (cs : List Bytes) (s : Dec), s.state = .crlf → s.start = 0 →
      s.buffer ++ cs.flatten = CR :: LF :: rest → 2 ≤ s.buffer.length →
      ∃ s' cs', s'.state = .chunkLength ∧ s'.start = 0 ∧ s'.buffer ++ cs'.flatten = rest ∧
        sameOut s s' ∧ run s cs = run s' cs' := by
    intro cs s hst hs0 hb hlong
    obtain ⟨r, h1, h2⟩ := append_split_left s.buffer _ [CR, LF] rest (by simpa using hb) (by simpa using hlong)
    have hne : s.buffer ≠ [] := by rw [h1]; simp
    have hh : handler s = .ok (true, afterCRLF s r) := by
      simp only [handler, hst, handleCRLF, afterCRLF, h1]
      simp
    exact ⟨afterCRLF s r, cs, rfl, hs0, h2, ⟨rfl, rfl, rfl⟩, run_go _ _ _ hne hh⟩
  intro cs
  induction cs with
  | nil =>
    intro s hst hs0 hb
    refine now [] s hst hs0 hb ?_
    have := congrArg List.length hb
    simp at this; omega
  | cons d cs ih =>
    intro s hst hs0 hb
    by_cases hlong : 2 ≤ s.buffer.length
    · exact now (d :: cs) s hst hs0 hb hlong
    · rcases length_lt_two s.buffer (by omega) with hnil | ⟨c, hc⟩
      · rw [run_nil_cons s d cs hnil (by simp [hst])]
        exact ih (s.append d) hst hs0 (by simpa [Dec.append, List.append_assoc] using hb)
      · have hh : handler s = .ok (false, s) := by
          simp only [handler, hst, handleCRLF, hc]
        rw [run_stop_cons s s d cs (by simp [hc]) hh (by simp [hst])]
        exact ih (s.append d) hst hs0 (by simpa [Dec.append, List.append_assoc] using hb)

/-- CRLF: two bytes other than CRLF after chunk data are refused under every segmentation -/
theorem run_badCrlf (x y : UInt8) (rest : Bytes) (hxy : ¬(x = CR ∧ y = LF)) :
    ∀ (cs : List Bytes) (s : Dec), s.state = .crlf →
      s.buffer ++ cs.flatten = x :: y :: rest →
      ∃ s', sameOut s s' ∧ run s cs = .error (.malformed, s') := by
  have now : ∀ (cs : List Bytes) (s : Dec), s.state = .crlf →
      s.buffer ++ cs.flatten = x :: y :: rest → 2 ≤ s.buffer.length →
      ∃ s', sameOut s s' ∧ run s cs = .error (.malformed, s') := by
    intro cs s hst hb hlong
    obtain ⟨r, h1, h2⟩ := append_split_left s.buffer _ [x, y] rest (by simpa using hb) (by simpa using hlong)
    have hne : s.buffer ≠ [] := by rw [h1]; simp
    have hh : handler s = .error .malformed := by
      simp only [handler, hst, handleCRLF, h1]
      simp [hxy]
    exact ⟨s, ⟨rfl, rfl, rfl⟩, run_err s _ cs hne hh⟩
  intro cs
  induction cs with
  | nil =>
    intro s hst hb
    refine now [] s hst hb ?_
    have := congrArg List.length hb
    simp at this; omega
  | cons d cs ih =>
    intro s hst hb
    by_cases hlong : 2 ≤ s.buffer.length
    · exact now (d :: cs) s hst hb hlong
    · rcases length_lt_two s.buffer (by omega) with hnil | ⟨c, hc⟩
      · rw [run_nil_cons s d cs hnil (by simp [hst])]
        exact ih (s.append d) hst (by simpa [Dec.append, List.append_assoc] using hb)
      · have hh : handler s = .ok (false, s) := by
          simp only [handler, hst, handleCRLF, hc]
        rw [run_stop_cons s s d cs (by simp [hc]) hh (by simp [hst])]
        exact ih (s.append d) hst (by simpa [Dec.append, List.append_assoc] using hb)

def afterTrailer (s : Dec) (k : Nat) : Dec :=
  { s with buffer := s.buffer.drop (k + 2), start := 0, recvTrailer := s.recvTrailer + (k + 2) }

theorem getLast_append_CR (a : Bytes) : (a ++ [CR]).getLast? = some CR := by simp

/-- TRAILER: a non-empty CRLF-free trailer line within the size limit is consumed under every
    segmentation -/
theorem run_trailerLine (line rest : Bytes) (hno : noCRLF line = true) (hne0 : line ≠ []) :
    ∀ (cs : List Bytes) (s : Dec), s.state = .trailer → s.start = 0 →
      s.recvTrailer + line.length + 2 ≤ maxTrailerHeadersSize →
      s.buffer ++ cs.flatten = line ++ CR :: LF :: rest →
      ∃ s' cs', s'.state = .trailer ∧ s'.start = 0 ∧ s'.buffer ++ cs'.flatten = rest ∧
        s'.data = s.data ∧ s'.fin = s.fin ∧ s'.recvTrailer = s.recvTrailer + line.length + 2 ∧
        run s cs = run s' cs' := by
  have hlpos : 0 < line.length := List.length_pos_iff.mpr hne0
  have now : ∀ (cs : List Bytes) (s : Dec), s.state = .trailer → s.start = 0 →
      s.recvTrailer + line.length + 2 ≤ maxTrailerHeadersSize →
      s.buffer ++ cs.flatten = line ++ CR :: LF :: rest → line.length + 2 ≤ s.buffer.length →
      ∃ s' cs', s'.state = .trailer ∧ s'.start = 0 ∧ s'.buffer ++ cs'.flatten = rest ∧
        s'.data = s.data ∧ s'.fin = s.fin ∧ s'.recvTrailer = s.recvTrailer + line.length + 2 ∧
        run s cs = run s' cs' := by
    intro cs s hst hs0 hlim hb hlong
    obtain ⟨r, h1, h2⟩ := append_split_left s.buffer _ (line ++ [CR, LF]) rest (by simpa using hb) (by simpa using hlong)
    have hf : findCRLF s.buffer s.start = some (line.length - 1 + 1) := by
      rw [findCRLF_eq s (startOK_zero s hs0), h1]
      have := find_line line r 0 hno
      simp at this; simp [this]; omega
    have hne : s.buffer ≠ [] := by rw [h1]; simp
    have hh : handler s = .ok (true, afterTrailer s line.length) := by
      simp only [handler, hst, handleTrailer, hf, afterTrailer]
      have e : line.length - 1 + 1 = line.length := by omega
      simp only [e]
      simp; omega
    refine ⟨afterTrailer s line.length, cs, hst, rfl, ?_, rfl, rfl, by simp [afterTrailer]; omega, run_go _ _ _ hne hh⟩
    simp only [afterTrailer, h1]
    have : List.drop (line.length + 2) (line ++ [CR, LF] ++ r) = r := by
      rw [List.drop_append_of_le_length (by simp)]; simp
    rw [this]; exact h2
  intro cs
  induction cs with
  | nil =>
    intro s hst hs0 hlim hb
    refine now [] s hst hs0 hlim hb ?_
    have := congrArg List.length hb
    simp at this; omega
  | cons d cs ih =>
    intro s hst hs0 hlim hb
    by_cases hlong : line.length + 2 ≤ s.buffer.length
    · exact now (d :: cs) s hst hs0 hlim hb hlong
    · have hshort : s.buffer.length ≤ (line ++ [CR]).length := by simp; omega
      obtain ⟨r, h1, _⟩ := append_split_right s.buffer _ (line ++ [CR]) (LF :: rest) (by simpa using hb) hshort
      have hnoB : noCRLF s.buffer = true := noCRLF_prefix _ r (h1 ▸ noCRLF_append_CR _ hno)
      by_cases hnil : s.buffer = []
      · rw [run_nil_cons s d cs hnil (by simp [hst])]
        exact ih (s.append d) hst hs0 hlim (by simpa [Dec.append, List.append_assoc] using hb)
      · have hf : findCRLF s.buffer s.start = none := by
          rw [findCRLF_eq s (startOK_zero s hs0)]; exact find_none_of_noCRLF _ _ hnoB
        have hsl : s.recvTrailer + s.buffer.length + trailerSlack s.buffer ≤ maxTrailerHeadersSize := by
          by_cases hfull : s.buffer.length = line.length + 1
          · have hr : r = [] := by
              have := congrArg List.length h1; simp at this
              exact List.eq_nil_of_length_eq_zero (by omega)
            have hB : s.buffer = line ++ [CR] := by rw [hr] at h1; simpa using h1.symm
            have : trailerSlack s.buffer = 1 := by simp [trailerSlack, hB]
            omega
          · have : trailerSlack s.buffer ≤ 2 := by unfold trailerSlack; split <;> omega
            simp at hshort; omega
        have hh : handler s = .ok (false, s) := by
          simp only [handler, hst, handleTrailer, hf]
          have : ¬ (s.recvTrailer + s.buffer.length + trailerSlack s.buffer > maxTrailerHeadersSize) := by omega
          simp [this]
        rw [run_stop_cons s s d cs hnil hh (by simp [hst])]
        exact ih (s.append d) hst hs0 hlim (by simpa [Dec.append, List.append_assoc] using hb)

def afterFinal (s : Dec) : Dec :=
  { s with state := .finished, buffer := [], fin := s.fin ++ [s.buffer.drop 2] }

/-- TRAILER: the terminating CRLF fires `finishCallback` once with what follows it in the same
    delivery; the deliveries after it are not consumed -/
theorem run_final (extra : Bytes) :
    ∀ (cs : List Bytes) (s : Dec), s.state = .trailer → s.start = 0 →
      s.buffer ++ cs.flatten = CR :: LF :: extra →
      ∃ s' cs' e, run s cs = .ok (s', cs') ∧ s'.state = .finished ∧ s'.buffer = [] ∧ s'.data = s.data ∧
        s'.fin = s.fin ++ [e] ∧ e ++ cs'.flatten = extra := by
  have now : ∀ (cs : List Bytes) (s : Dec), s.state = .trailer → s.start = 0 →
      s.buffer ++ cs.flatten = CR :: LF :: extra → 2 ≤ s.buffer.length →
      ∃ s' cs' e, run s cs = .ok (s', cs') ∧ s'.state = .finished ∧ s'.buffer = [] ∧ s'.data = s.data ∧
        s'.fin = s.fin ++ [e] ∧ e ++ cs'.flatten = extra := by
    intro cs s hst hs0 hb hlong
    obtain ⟨r, h1, h2⟩ := append_split_left s.buffer _ [CR, LF] extra (by simpa using hb) (by simpa using hlong)
    have hf : findCRLF s.buffer s.start = some 0 := by
      rw [findCRLF_eq s (startOK_zero s hs0), h1]
      simp [findCRLFFrom]
    have hne : s.buffer ≠ [] := by rw [h1]; simp
    have hh : handler s = .ok (false, afterFinal s) := by
      simp only [handler, hst, handleTrailer, hf, afterFinal]
    refine ⟨afterFinal s, cs, r, run_fin s _ cs hne hh rfl, rfl, rfl, rfl, ?_, h2⟩
    simp [afterFinal, h1]
  intro cs
  induction cs with
  | nil =>
    intro s hst hs0 hb
    refine now [] s hst hs0 hb ?_
    have := congrArg List.length hb
    simp at this; omega
  | cons d cs ih =>
    intro s hst hs0 hb
    by_cases hlong : 2 ≤ s.buffer.length
    · exact now (d :: cs) s hst hs0 hb hlong
    · rcases length_lt_two s.buffer (by omega) with hnil | ⟨c, hc⟩
      · rw [run_nil_cons s d cs hnil (by simp [hst])]
        exact ih (s.append d) hst hs0 (by simpa [Dec.append, List.append_assoc] using hb)
      · have hcr : c = CR := by rw [hc] at hb; simp at hb; exact hb.1
        have hf : findCRLF s.buffer s.start = none := by
          rw [findCRLF_eq s (startOK_zero s hs0), hc]; simp [findCRLFFrom]
        have hh : handler s = .ok (false, s) := by
          simp only [handler, hst, handleTrailer, hf]
          simp [hc, hcr]
        rw [run_stop_cons s s d cs (by simp [hc]) hh (by simp [hst])]
        exact ih (s.append d) hst hs0 (by simpa [Dec.append, List.append_assoc] using hb)

end TwistedProps.C22
