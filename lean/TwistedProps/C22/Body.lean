import TwistedProps.C22.SizeLine
namespace TwistedProps.C22
open Twisted.Http.Chunked

/-- a CRLF-free size line the decoder must refuse: too long, size not hexadecimal, or a
    disallowed byte in the extension -/
def lineBad (line : Bytes) : Prop :=
  noCRLF line = true ∧ (1024 ≤ line.length ∨ hexint (splitSemi line).1 = none ∨
    (splitSemi line).2.all chunkExtChar = false)

/-- CHUNK_LENGTH: a bad size line is refused under every segmentation -/
theorem run_badLine (line rest : Bytes) (hl : lineBad line) :
    ∀ (cs : List Bytes) (s : Dec), s.state = .chunkLength → startOK s →
      s.buffer ++ cs.flatten = line ++ CR :: LF :: rest →
      ∃ s', sameOut s s' ∧ run s cs = .error (.malformed, s') := by
  obtain ⟨hno, hbad⟩ := hl
  have now : ∀ (cs : List Bytes) (s : Dec), s.state = .chunkLength → startOK s →
      s.buffer ++ cs.flatten = line ++ CR :: LF :: rest → line.length + 2 ≤ s.buffer.length →
      ∃ s', sameOut s s' ∧ run s cs = .error (.malformed, s') := by
    intro cs s hst hso hb hlong
    obtain ⟨r, h1, h2⟩ := append_split_left s.buffer _ (line ++ [CR, LF]) rest (by simpa using hb) (by simpa using hlong)
    have hf : findCRLF s.buffer s.start = some line.length := by
      rw [findCRLF_eq s hso, h1]
      have := find_line line r 0 hno
      simpa using this
    have hne : s.buffer ≠ [] := by rw [h1]; simp
    have htake : s.buffer.take line.length = line := by rw [h1]; simp
    have hh : handler s = .error .malformed := by
      simp only [handler, hst, handleChunkLength, hf, htake]
      by_cases h1024 : line.length ≥ maxChunkSizeLineLength
      · simp [h1024]
      · simp only [h1024, if_false]
        rcases hbad with hb1 | hb2 | hb3
        · exact absurd hb1 (by simpa [maxChunkSizeLineLength] using h1024)
        · simp [hb2]
        · cases hx : hexint (splitSemi line).1 <;> simp [hb3]
    exact ⟨s, ⟨rfl, rfl, rfl⟩, run_err s _ cs hne hh⟩
  intro cs
  induction cs with
  | nil =>
    intro s hst hso hb
    refine now [] s hst hso hb ?_
    have := congrArg List.length hb
    simp at this; omega
  | cons d cs ih =>
    intro s hst hso hb
    by_cases hlong : line.length + 2 ≤ s.buffer.length
    · exact now (d :: cs) s hst hso hb hlong
    · have hshort : s.buffer.length ≤ (line ++ [CR]).length := by simp; omega
      obtain ⟨r, h1, _⟩ := append_split_right s.buffer _ (line ++ [CR]) (LF :: rest) (by simpa using hb) hshort
      have hnoB : noCRLF s.buffer = true := noCRLF_prefix _ r (h1 ▸ noCRLF_append_CR _ hno)
      by_cases hnil : s.buffer = []
      · rw [run_nil_cons s d cs hnil (by simp [hst])]
        obtain ⟨s', g1, g2⟩ := ih (s.append d) hst (startOK_append s d hso)
          (by simpa [Dec.append, List.append_assoc] using hb)
        exact ⟨s', g1, g2⟩
      · have hf : findCRLF s.buffer s.start = none := by
          rw [findCRLF_eq s hso]; exact find_none_of_noCRLF _ _ hnoB
        by_cases hbig : s.buffer.length > maxChunkSizeLineLength
        · have hh : handler s = .error .malformed := by
            simp only [handler, hst, handleChunkLength, hf]; simp [hbig]
          exact ⟨s, ⟨rfl, rfl, rfl⟩, run_err s _ _ hnil hh⟩
        · have hh : handler s = .ok (false, { s with start := s.buffer.length - 1 }) := by
            simp only [handler, hst, handleChunkLength, hf]; simp [hbig]
          rw [run_stop_cons s _ d cs hnil hh (by simp [hst])]
          have hpos : 0 < s.buffer.length := List.length_pos_iff.mpr hnil
          have hso' : startOK ({ s with start := s.buffer.length - 1 } : Dec) := by
            refine ⟨?_, by simp⟩
            simp only
            rw [List.take_of_length_le (by omega)]; exact hnoB
          obtain ⟨s', g1, g2⟩ := ih (({ s with start := s.buffer.length - 1 } : Dec).append d) hst
            (startOK_append _ d hso') (by simpa [Dec.append, List.append_assoc] using hb)
          exact ⟨s', g1, g2⟩

/-- the decoder after `_dataReceived_BODY` delivered the last `k` bytes of a chunk -/
def afterBody (s : Dec) (k : Nat) : Dec :=
  { s with state := .crlf, buffer := s.buffer.drop k, data := s.data ++ s.buffer.take k }

/-- the decoder after `_dataReceived_BODY` delivered a whole buffer that is only part of the chunk -/
def afterPartBody (s : Dec) : Dec :=
  { s with length := s.length - s.buffer.length, buffer := [], data := s.data ++ s.buffer }

/-- BODY: exactly `length` bytes are delivered, under every segmentation -/
theorem run_body (rest : Bytes) :
    ∀ (cs : List Bytes) (s : Dec) (dat : Bytes), s.state = .body → s.start = 0 → s.length = dat.length →
      0 < dat.length → s.buffer ++ cs.flatten = dat ++ rest →
      ∃ s' cs', s'.state = .crlf ∧ s'.start = 0 ∧ s'.buffer ++ cs'.flatten = rest ∧
        s'.data = s.data ++ dat ∧ s'.fin = s.fin ∧ s'.recvTrailer = s.recvTrailer ∧ run s cs = run s' cs' := by
  have now : ∀ (cs : List Bytes) (s : Dec) (dat : Bytes), s.state = .body → s.start = 0 → s.length = dat.length →
      0 < dat.length → s.buffer ++ cs.flatten = dat ++ rest → dat.length ≤ s.buffer.length →
      ∃ s' cs', s'.state = .crlf ∧ s'.start = 0 ∧ s'.buffer ++ cs'.flatten = rest ∧
        s'.data = s.data ++ dat ∧ s'.fin = s.fin ∧ s'.recvTrailer = s.recvTrailer ∧ run s cs = run s' cs' := by
    intro cs s dat hst hs0 hlen hpos hb hlong
    obtain ⟨r, h1, h2⟩ := append_split_left s.buffer _ dat rest hb hlong
    have hne : s.buffer ≠ [] := by
      intro h
      have : s.buffer.length = 0 := by rw [h]; rfl
      omega
    have hh : handler s = .ok (true, afterBody s s.length) := by
      simp only [handler, hst, handleBody, afterBody]
      simp [hlen, hlong]
    refine ⟨afterBody s s.length, cs, rfl, hs0, ?_, ?_, rfl, rfl, run_go _ _ _ hne hh⟩
    · simp [afterBody, hlen, h1, h2]
    · simp [afterBody, hlen, h1]
  intro cs
  induction cs with
  | nil =>
    intro s dat hst hs0 hlen hpos hb
    refine now [] s dat hst hs0 hlen hpos hb ?_
    have := congrArg List.length hb
    simp at this; omega
  | cons d cs ih =>
    intro s dat hst hs0 hlen hpos hb
    by_cases hlong : dat.length ≤ s.buffer.length
    · exact now (d :: cs) s dat hst hs0 hlen hpos hb hlong
    · obtain ⟨r, h1, h2⟩ := append_split_right s.buffer _ dat rest hb (by omega)
      by_cases hnil : s.buffer = []
      · rw [run_nil_cons s d cs hnil (by simp [hst])]
        exact ih (s.append d) dat hst hs0 hlen hpos (by simpa [Dec.append, List.append_assoc] using hb)
      · have hh : handler s = .ok (true, afterPartBody s) := by
          simp only [handler, hst, handleBody, afterPartBody]
          simp [hlen]; omega
        rw [run_go s _ _ hnil hh, run_nil_cons (afterPartBody s) d cs rfl (by simp [afterPartBody, hst])]
        have hrlen : r.length = dat.length - s.buffer.length := by
          have := congrArg List.length h1; simp at this; omega
        obtain ⟨s', cs', g1, g2, g3, g4, g5, g6, g7⟩ := ih ((afterPartBody s).append d) r
          (by simp [afterPartBody, Dec.append, hst]) (by simp [afterPartBody, Dec.append, hs0])
          (by simp [afterPartBody, Dec.append, hlen, hrlen]) (by omega)
          (by simp [afterPartBody, Dec.append]; simpa using h2)
        refine ⟨s', cs', g1, g2, g3, ?_, g5, g6, g7⟩
        rw [g4, h1]; simp [afterPartBody, Dec.append]

end TwistedProps.C22
