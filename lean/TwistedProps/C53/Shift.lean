import TwistedProps.C52.FsLemmas
import TwistedProps.C51.FsMore
import TwistedModel.Fs.LogFile
/-!
C53 — lemmas.  `retained` (the rotated files oldest first, then the current file); the state after the
first `t` renames/removes of `rotate()` (`get_stepsFrom`); re-indexing of the concatenation
(`flatMap_shift`, `flatMap_drop_top`); every cut of rotate-then-write on the padded trace
(`padded_crash`); the real `rotate()` (only the files `listLogs()` found) reaches no crash state the
padded one does not (`real_sub_padded`); one operation at every cut (`op_crash`).
-/
namespace TwistedProps.C53
open Twisted.Fs Twisted.Fs.LogFile

theorem rot_length (i : Nat) : (rot i).length = i := by simp [rot]

theorem rot_inj {i j : Nat} : rot i = rot j ↔ i = j := by
  constructor
  · intro h; have := congrArg List.length h; simpa [rot_length] using this
  · intro h; rw [h]

/-- content of the file with index `i` (absent = empty) -/
def content (fs : Fs) (i : Nat) : Bytes := (get fs (rot i)).getD []

/-- rotated files `M, M-1, …, 1` (oldest first), then the current file -/
def retainedUpTo (M : Nat) (fs : Fs) : Bytes := (descFrom M).flatMap (content fs) ++ content fs 0

/-- **the retained data**: every rotated file, oldest (largest index) first, then the current file -/
def retained (fs : Fs) : Bytes := retainedUpTo (maxIdx fs) fs

theorem mem_descFrom {j M : Nat} : j ∈ descFrom M ↔ 1 ≤ j ∧ j ≤ M := by
  induction M with
  | zero => simp [descFrom]; omega
  | succ M ih => simp [descFrom, ih]; omega

theorem foldl_max_ge (l : List Name) (m : Nat) : m ≤ l.foldl (fun m n => max m n.length) m ∧
    ∀ n ∈ l, n.length ≤ l.foldl (fun m n => max m n.length) m := by
  induction l generalizing m with
  | nil => simp
  | cons a l ih =>
    simp only [List.foldl_cons, List.mem_cons]
    have h := ih (max m a.length)
    refine ⟨by omega, ?_⟩
    intro n hn
    rcases hn with rfl | hn
    · omega
    · exact h.2 n hn

/-- nothing above `maxIdx` -/
theorem get_above_maxIdx (fs : Fs) (j : Nat) (h : maxIdx fs < j) : get fs (rot j) = none := by
  cases hg : get fs (rot j) with
  | none => rfl
  | some c =>
    have hm : rot j ∈ names fs := (mem_names_iff fs _).mpr (by rw [hg]; rfl)
    have := (foldl_max_ge (names fs) 0).2 _ hm
    rw [rot_length] at this
    unfold maxIdx at h; omega

def Bounded (M : Nat) (fs : Fs) : Prop := ∀ j, M < j → get fs (rot j) = none

theorem bounded_maxIdx (fs : Fs) : Bounded (maxIdx fs) fs := fun j h => get_above_maxIdx fs j h

theorem retainedUpTo_succ_of_bounded {M : Nat} {fs : Fs} (h : Bounded M fs) :
    retainedUpTo (M + 1) fs = retainedUpTo M fs := by
  simp [retainedUpTo, descFrom, content, h (M + 1) (by omega)]

theorem retainedUpTo_of_bounded {M : Nat} {fs : Fs} (h : Bounded M fs) (d : Nat) :
    retainedUpTo (M + d) fs = retainedUpTo M fs := by
  induction d with
  | zero => rfl
  | succ d ih =>
    have : Bounded (M + d) fs := fun j hj => h j (by omega)
    rw [← Nat.add_assoc, retainedUpTo_succ_of_bounded this, ih]

/-- any bound computes the retained data -/
theorem retained_eq {M : Nat} {fs : Fs} (h : Bounded M fs) : retained fs = retainedUpTo M fs := by
  unfold retained
  by_cases hle : M ≤ maxIdx fs
  · obtain ⟨d, hd⟩ := Nat.exists_eq_add_of_le hle
    rw [hd, retainedUpTo_of_bounded h]
  · obtain ⟨d, hd⟩ := Nat.exists_eq_add_of_le (Nat.le_of_not_le hle)
    rw [hd, retainedUpTo_of_bounded (bounded_maxIdx fs)]

theorem descFrom_succ_eq (M : Nat) : descFrom (M + 1) = (descFrom M).map (· + 1) ++ [1] := by
  induction M with
  | zero => rfl
  | succ M ih =>
    show (M + 2) :: descFrom (M + 1) = List.map (· + 1) ((M + 1) :: descFrom M) ++ [1]
    simp only [List.map_cons, List.cons_append]
    rw [← ih]

/-- what arrives at index `i+1` when `rotate()` processes index `i` -/
def keepGet (mr : Option Nat) (fs : Fs) (i : Nat) : Option Bytes :=
  match mr with
  | some n => if n ≤ i then none else get fs (rot i)
  | none => get fs (rot i)

/-- the steps of `rotate()` for indices `M, M-1, …, M-t+1` (whether or not the file exists) -/
def stepsFrom (mr : Option Nat) : Nat → Nat → List Prim
  | _, 0 => []
  | M, t + 1 => stepPrim mr M :: stepsFrom mr (M - 1) t

theorem get_stepPrim (mr : Option Nat) (fs : Fs) (i : Nat) (hfree : get fs (rot (i + 1)) = none) (n : Name) :
    get ((stepPrim mr i).apply fs) n =
      if n = rot (i + 1) then keepGet mr fs i else if n = rot i then none else get fs n := by
  have hne : rot i ≠ rot (i + 1) := fun h => by have := rot_inj.mp h; omega
  unfold stepPrim keepGet
  cases mr with
  | none =>
    simp only [get_apply_rename]
    cases hg : get fs (rot i) with
    | none =>
      by_cases h1 : n = rot (i + 1)
      · simp [h1, hfree]
      · by_cases h2 : n = rot i <;> simp [h1, h2, hg]
    | some c => simp
  | some m =>
    by_cases hm : m ≤ i
    · simp only [hm, if_true, get_apply_remove]
      by_cases h1 : n = rot (i + 1)
      · simp [h1, hfree, hne.symm]
      · simp [h1]
    · simp only [hm, if_false, get_apply_rename]
      cases hg : get fs (rot i) with
      | none =>
        by_cases h1 : n = rot (i + 1)
        · simp [h1, hfree]
        · by_cases h2 : n = rot i <;> simp [h1, h2, hg]
      | some c => simp

/-- **state after the first `t` steps of `rotate()`** (`b = M - t` is the next index to be processed):
    indices above `b+1` hold what was one below, `b+1` is free, the rest is untouched -/
theorem get_stepsFrom (mr : Option Nat) : ∀ (t M : Nat) (fs : Fs), t ≤ M → get fs (rot (M + 1)) = none →
    ∀ j, get (run (stepsFrom mr M t) fs) (rot j) =
      if M - t + 1 < j ∧ j ≤ M + 1 then keepGet mr fs (j - 1)
      else if j = M - t + 1 then none else get fs (rot j)
  | 0, M, fs, _, hfree, j => by
    simp only [stepsFrom, run_nil]
    by_cases h : j = M + 1
    · subst h; simp [hfree]
    · have : ¬ (M + 1 < j ∧ j ≤ M + 1) := by omega
      simp only [Nat.sub_zero, this, if_false, h]
  | t + 1, M, fs, ht, hfree, j => by
    have hM : M - 1 + 1 = M := by omega
    have hfree1 : get ((stepPrim mr M).apply fs) (rot (M - 1 + 1)) = none := by
      rw [hM, get_stepPrim mr fs M hfree]
      have : rot M ≠ rot (M + 1) := fun h => by have := rot_inj.mp h; omega
      simp [this]
    have ih := get_stepsFrom mr t (M - 1) ((stepPrim mr M).apply fs) (by omega) hfree1 j
    simp only [stepsFrom, run_cons]
    rw [ih]
    have e1 : M - 1 - t + 1 = M - (t + 1) + 1 := by omega
    rw [e1, hM]
    by_cases hA : M - (t + 1) + 1 < j ∧ j ≤ M
    · have hB : M - (t + 1) + 1 < j ∧ j ≤ M + 1 := by omega
      simp only [hA, hB, and_self, if_true]
      -- keepGet on the stepped state = keepGet on fs for indices below M
      have hj : get ((stepPrim mr M).apply fs) (rot (j - 1)) = get fs (rot (j - 1)) := by
        rw [get_stepPrim mr fs M hfree]
        have h1 : rot (j - 1) ≠ rot (M + 1) := fun h => by have := rot_inj.mp h; omega
        have h2 : rot (j - 1) ≠ rot M := fun h => by have := rot_inj.mp h; omega
        simp [h1, h2]
      unfold keepGet
      cases mr <;> simp [hj]
    · simp only [hA, if_false]
      by_cases hj : j = M + 1
      · subst hj
        have h1 : ¬ (M + 1 = M - (t + 1) + 1) := by omega
        have h2 : M - (t + 1) + 1 < M + 1 ∧ M + 1 ≤ M + 1 := by omega
        simp only [h1, if_false, h2, and_self, if_true, Nat.add_sub_cancel]
        rw [get_stepPrim mr fs M hfree]; simp
      · have h2 : ¬ (M - (t + 1) + 1 < j ∧ j ≤ M + 1) := by omega
        simp only [h2, if_false]
        by_cases hb : j = M - (t + 1) + 1
        · simp [hb]
        · simp only [hb, if_false]
          rw [get_stepPrim mr fs M hfree]
          have h3 : rot j ≠ rot (M + 1) := fun h => hj (rot_inj.mp h)
          have h4 : rot j ≠ rot M := fun h => by have := rot_inj.mp h; omega
          simp [h3, h4]

theorem flatMap_congr_mem {α β} (l : List α) (f g : α → List β) (h : ∀ x ∈ l, f x = g x) :
    l.flatMap f = l.flatMap g := by
  induction l with
  | nil => rfl
  | cons a l ih =>
    simp only [List.flatMap_cons]
    rw [h a (by simp), ih (fun x hx => h x (by simp [hx]))]

/-- re-indexing: after the top block has moved up by one, the concatenation is unchanged -/
theorem flatMap_shift (u w : Nat → Bytes) (b : Nat) : ∀ d : Nat,
    (descFrom (b + d + 1)).flatMap (fun j => if b + 1 < j then u (j - 1) else if j = b + 1 then [] else w j) =
    (descFrom (b + d)).flatMap (fun i => if b < i then u i else w i)
  | 0 => by
    simp only [Nat.add_zero, descFrom, List.flatMap_cons]
    have h1 : ¬ (b + 1 < b + 1) := by omega
    simp only [h1, if_false, if_true, List.nil_append]
    apply flatMap_congr_mem
    intro j hj
    have := mem_descFrom.mp hj
    have h2 : ¬ (b + 1 < j) := by omega
    have h3 : ¬ (j = b + 1) := by omega
    have h4 : ¬ (b < j) := by omega
    simp [h2, h3, h4]
  | d + 1 => by
    have ih := flatMap_shift u w b d
    show (List.flatMap _ ((b + (d + 1) + 1) :: descFrom (b + d + 1))) = List.flatMap _ ((b + d + 1) :: descFrom (b + d))
    simp only [List.flatMap_cons]
    rw [ih]
    have h1 : b + 1 < b + (d + 1) + 1 := by omega
    have h2 : b < b + d + 1 := by omega
    simp only [h1, h2, if_true]
    have e : b + (d + 1) + 1 - 1 = b + d + 1 := by omega
    rw [e]

/-- dropping an upward-closed set of (oldest) files leaves a suffix -/
theorem flatMap_drop_top (c : Nat → Bytes) (P : Nat → Prop) [DecidablePred P] (hP : ∀ i, P i → P (i + 1)) :
    ∀ M : Nat, (descFrom M).flatMap (fun i => if P i then [] else c i) <:+ (descFrom M).flatMap c
  | 0 => by simp [descFrom]
  | M + 1 => by
    simp only [descFrom, List.flatMap_cons]
    by_cases h : P (M + 1)
    · simp only [h, if_true, List.nil_append]
      exact List.IsSuffix.trans (flatMap_drop_top c P hP M) (List.suffix_append _ _)
    · have : ∀ i ∈ descFrom M, ¬ P i := by
        intro i hi hPi
        have hle := (mem_descFrom.mp hi).2
        -- upward closure from i to M+1
        have : ∀ e, P (i + e) := by
          intro e; induction e with
          | zero => exact hPi
          | succ e ih => exact hP _ ih
        obtain ⟨e, he⟩ := Nat.exists_eq_add_of_le (Nat.le_succ_of_le hle)
        have hh := this e
        rw [← he] at hh
        exact h hh
      simp only [h, if_false]
      rw [flatMap_congr_mem (descFrom M) _ c (fun i hi => by simp [this i hi])]
      exact List.suffix_refl _

/-- kept content of index `i` -/
def kc (mr : Option Nat) (fs : Fs) (i : Nat) : Bytes := (keepGet mr fs i).getD []

theorem kc_none (fs : Fs) (i : Nat) : kc none fs i = content fs i := rfl

theorem kc_some (n : Nat) (fs : Fs) (i : Nat) : kc (some n) fs i = if n ≤ i then [] else content fs i := by
  unfold kc keepGet content
  by_cases h : n ≤ i <;> simp [h]

/-- the rotated part of the retained data after the first `t` steps of `rotate()` -/
theorem rotated_after_steps (mr : Option Nat) (t M : Nat) (fs : Fs) (ht : t ≤ M) (hb : Bounded M fs) :
    let S := run (stepsFrom mr M t) fs
    (descFrom (M + 1)).flatMap (content S) =
      (descFrom M).flatMap (fun i => if M - t < i then kc mr fs i else content fs i) ∧
    content S 0 = content fs 0 ∧ Bounded (M + 1) S := by
  intro S
  have hG := get_stepsFrom mr t M fs ht (hb (M + 1) (by omega))
  refine ⟨?_, ?_, ?_⟩
  · have hM : M = (M - t) + t := by omega
    have := flatMap_shift (kc mr fs) (content fs) (M - t) t
    rw [← hM] at this
    rw [← this]
    apply flatMap_congr_mem
    intro j hj
    have hj' := mem_descFrom.mp hj
    show (get S (rot j)).getD [] = _
    rw [hG j]
    by_cases h1 : M - t + 1 < j
    · have : M - t + 1 < j ∧ j ≤ M + 1 := ⟨h1, hj'.2⟩
      simp [this, h1, kc]
    · have : ¬ (M - t + 1 < j ∧ j ≤ M + 1) := fun h => h1 h.1
      simp only [this, if_false, h1]
      by_cases h2 : j = M - t + 1 <;> simp [h2, content]
  · show (get S (rot 0)).getD [] = _
    rw [hG 0]
    have h1 : ¬ (M - t + 1 < 0 ∧ 0 ≤ M + 1) := by omega
    have h2 : ¬ (0 = M - t + 1) := by omega
    simp [h1, h2, content]
  · intro j hj
    rw [hG j]
    have h1 : ¬ (M - t + 1 < j ∧ j ≤ M + 1) := by omega
    have h2 : ¬ (j = M - t + 1) := by omega
    simp only [h1, h2, if_false]
    exact hb j (by omega)

/-- …which is a suffix of what was there, all of it without a retention count -/
theorem kept_suffix (mr : Option Nat) (b M : Nat) (fs : Fs) :
    (descFrom M).flatMap (fun i => if b < i then kc mr fs i else content fs i) <:+ (descFrom M).flatMap (content fs) ∧
    (mr = none → (descFrom M).flatMap (fun i => if b < i then kc mr fs i else content fs i) =
      (descFrom M).flatMap (content fs)) := by
  cases mr with
  | none =>
    have : (fun i => if b < i then kc none fs i else content fs i) = content fs := by
      funext i; simp [kc_none]
    rw [this]; exact ⟨List.suffix_refl _, fun _ => rfl⟩
  | some n =>
    refine ⟨?_, fun h => by cases h⟩
    have : (fun i => if b < i then kc (some n) fs i else content fs i) =
        (fun i => if (b < i ∧ n ≤ i) then [] else content fs i) := by
      funext i; rw [kc_some]
      by_cases h1 : b < i <;> by_cases h2 : n ≤ i <;> simp [h1, h2]
    rw [this]
    exact flatMap_drop_top (content fs) (fun i => b < i ∧ n ≤ i) (fun i h => ⟨by omega, by omega⟩) M

theorem crashAt_cons_succ (x : Prim) (tr : List Prim) (k p : Nat) (fs : Fs) :
    crashAt (x :: tr) (k + 1) p fs = crashAt tr k p (x.apply fs) := by
  simp [crashAt]

theorem crashAt_append_ge (A B : List Prim) (k p : Nat) (fs : Fs) :
    crashAt (A ++ B) (A.length + k) p fs = crashAt B k p (run A fs) := by
  induction A generalizing fs with
  | nil => simp
  | cons x A ih =>
    have : (x :: A).length + k = (A.length + k) + 1 := by simp; omega
    rw [List.cons_append, this, crashAt_cons_succ, ih]; rfl

def isStep (x : Prim) : Prop := ∀ n d, x ≠ .write n d

theorem stepPrim_isStep (mr : Option Nat) (i : Nat) : isStep (stepPrim mr i) := by
  intro n d h
  unfold stepPrim at h
  cases mr with
  | none => cases h
  | some m => simp only at h; split at h <;> cases h

theorem crashAt_zero_step (x : Prim) (hx : isStep x) (tr : List Prim) (p : Nat) (fs : Fs) :
    crashAt (x :: tr) 0 p fs = fs := by
  cases x with
  | write n d => exact absurd rfl (hx n d)
  | create n => simp [crashAt]
  | remove n => simp [crashAt]
  | rename a b => simp [crashAt]

theorem stepsFrom_length (mr : Option Nat) (M t : Nat) : (stepsFrom mr M t).length = t := by
  induction t generalizing M with
  | zero => rfl
  | succ t ih => simp [stepsFrom, ih]

/-- a cut inside the renaming phase: exactly the first `k` steps have happened -/
theorem crashAt_steps (mr : Option Nat) (B : List Prim) (p : Nat) :
    ∀ (k t M : Nat) (fs : Fs), k < t → crashAt (stepsFrom mr M t ++ B) k p fs = run (stepsFrom mr M k) fs
  | 0, t + 1, M, fs, _ => by
    simp only [stepsFrom, List.cons_append]
    exact crashAt_zero_step _ (stepPrim_isStep mr M) _ p fs
  | k + 1, t + 1, M, fs, h => by
    simp only [stepsFrom, List.cons_append, crashAt_cons_succ, run_cons]
    exact crashAt_steps mr B p k t (M - 1) _ (by omega)

/-- the end of `rotate()` and the write that follows -/
def tailTrace (d : Bytes) : List Prim := [.rename (rot 0) (rot 1), .create (rot 0), .write (rot 0) d]

/-- `rotate()` with every index `M … 1` visited (absent files are no-ops), then the write -/
def padded (mr : Option Nat) (M : Nat) (d : Bytes) : List Prim := stepsFrom mr M M ++ tailTrace d

theorem flatMap_descFrom_succ (f : Nat → Bytes) (M : Nat) :
    (descFrom (M + 1)).flatMap f = (descFrom M).flatMap (fun i => f (i + 1)) ++ f 1 := by
  rw [descFrom_succ_eq]; simp [List.flatMap_append, List.flatMap_map]

theorem suffix_append_right {a b : Bytes} (x : Bytes) (h : a <:+ b) : a ++ x <:+ b ++ x := by
  obtain ⟨t, ht⟩ := h
  exact ⟨t, by rw [← List.append_assoc, ht]⟩

/-- **every cut of rotate-then-write** (padded form): the retained data is a suffix of what was retained
    (all of it without a retention count) followed by a prefix of the data being written -/
theorem padded_crash (mr : Option Nat) (M : Nat) (fs : Fs) (d : Bytes) (k p : Nat) (hb : Bounded M fs) :
    let S := crashAt (padded mr M d) k p fs
    Bounded (M + 1) S ∧
    ∃ R q, R <:+ retainedUpTo M fs ∧ (mr = none → R = retainedUpTo M fs) ∧ q <+: d ∧
      (M + 3 ≤ k → q = d ∧ get S (rot 0) = some d ∧
        ∀ i, get S (rot (i + 1)) = if i = 0 then get fs (rot 0) else keepGet mr fs i) ∧
      retainedUpTo (M + 1) S = R ++ q := by
  intro S
  by_cases hk : k < M
  · -- inside the renaming phase
    have hS : S = run (stepsFrom mr M k) fs := crashAt_steps mr _ p k M M fs hk
    obtain ⟨h1, h2, h3⟩ := rotated_after_steps mr k M fs (by omega) hb
    obtain ⟨s1, s2⟩ := kept_suffix mr (M - k) M fs
    refine ⟨hS ▸ h3, (descFrom M).flatMap (fun i => if M - k < i then kc mr fs i else content fs i) ++ content fs 0,
      [], suffix_append_right _ s1, fun h => by rw [s2 h]; rfl, List.nil_prefix, fun h => by omega, ?_⟩
    rw [hS]; unfold retainedUpTo; rw [h1, h2]; simp
  · -- all renames done: S0, then the tail
    obtain ⟨k', rfl⟩ : ∃ k', k = M + k' := ⟨k - M, by omega⟩
    have hS : S = crashAt (tailTrace d) k' p (run (stepsFrom mr M M) fs) := by
      have := crashAt_append_ge (stepsFrom mr M M) (tailTrace d) k' p fs
      rw [stepsFrom_length] at this
      exact this
    obtain ⟨h1, h2, h3⟩ := rotated_after_steps mr M M fs (Nat.le_refl _) hb
    obtain ⟨s1, s2⟩ := kept_suffix mr (M - M) M fs
    have hG := get_stepsFrom mr M M fs (Nat.le_refl _) (hb (M + 1) (by omega))
    -- abbreviations
    generalize hS0 : run (stepsFrom mr M M) fs = S0 at hS h1 h2 h3 hG
    have hfree1 : get S0 (rot 1) = none := by
      rw [hG 1]
      have : ¬ (M - M + 1 < 1 ∧ 1 ≤ M + 1) := by omega
      simp [this]
    have hc1 : content S0 1 = [] := by simp [content, hfree1]
    rw [flatMap_descFrom_succ, hc1, List.append_nil] at h1
    have hne01 : rot 0 ≠ rot 1 := fun h => by have := rot_inj.mp h; omega
    have hR : (descFrom M).flatMap (fun i => if M - M < i then kc mr fs i else content fs i) ++ content fs 0
        <:+ retainedUpTo M fs := suffix_append_right _ s1
    -- indices ≥ 2 are not touched by the tail
    have key : ∀ (T : Fs), (∀ j, 2 ≤ j → get T (rot j) = get S0 (rot j)) → Bounded (M + 1) T ∧
        retainedUpTo (M + 1) T =
          (descFrom M).flatMap (fun i => if M - M < i then kc mr fs i else content fs i) ++ content T 1 ++ content T 0 := by
      intro T hT
      refine ⟨fun j hj => by rw [hT j (by omega)]; exact h3 j hj, ?_⟩
      unfold retainedUpTo
      rw [flatMap_descFrom_succ, ← h1]
      congr 2
      apply flatMap_congr_mem
      intro i hi
      have := (mem_descFrom.mp hi).1
      simp [content, hT (i + 1) (by omega)]
    have hj2 : ∀ j, 2 ≤ j → rot j ≠ rot 0 ∧ rot j ≠ rot 1 := fun j hj =>
      ⟨fun h => by have := rot_inj.mp h; omega, fun h => by have := rot_inj.mp h; omega⟩
    have hren : ∀ n, get (Prim.apply S0 (.rename (rot 0) (rot 1))) n =
        if n = rot 1 then get S0 (rot 0) else if n = rot 0 then none else get S0 n := by
      intro n; rw [get_apply_rename]
      cases h0 : get S0 (rot 0) with
      | none =>
        by_cases h1 : n = rot 1
        · simp [h1, hfree1]
        · by_cases h2 : n = rot 0 <;> simp [h1, h2, h0]
      | some c => simp
    have hx : (get S0 (rot 0)).getD [] = content fs 0 := h2
    rcases k' with _ | _ | _ | k'
    · -- before the rename of the current file
      have : S = S0 := by rw [hS]; simp [tailTrace, crashAt]
      obtain ⟨b1, b2⟩ := key S0 (fun _ _ => rfl)
      refine ⟨this ▸ b1, _, [], hR, fun h => by rw [s2 h]; rfl, List.nil_prefix, fun h => by omega, ?_⟩
      rw [this, b2, hc1, h2]; simp
    · -- current file renamed to index 1, no new current file yet
      have hT : S = Prim.apply S0 (.rename (rot 0) (rot 1)) := by rw [hS]; simp [tailTrace, crashAt]
      obtain ⟨b1, b2⟩ := key S (fun j hj => by rw [hT, hren]; simp [(hj2 j hj).1, (hj2 j hj).2])
      have c1 : content S 1 = content fs 0 := by simp [content, hT, hren, hx]
      have c0 : content S 0 = [] := by simp [content, hT, hren, hne01]
      refine ⟨b1, _, [], hR, fun h => by rw [s2 h]; rfl, List.nil_prefix, fun h => by omega, ?_⟩
      rw [b2, c1, c0]
    · -- new current file created, (part of) the data written
      have hT : S = Prim.apply (Prim.apply (Prim.apply S0 (.rename (rot 0) (rot 1))) (.create (rot 0)))
          (.write (rot 0) (d.take p)) := by rw [hS]; simp [tailTrace, crashAt]
      have hg : ∀ n, get S n = if n = rot 0 then some (d.take p) else
          if n = rot 1 then get S0 (rot 0) else get S0 n := by
        intro n; simp only [hT, get_apply_write, get_apply_create, hren]
        by_cases hn : n = rot 0 <;> simp [hn]
      obtain ⟨b1, b2⟩ := key S (fun j hj => by rw [hg]; simp [(hj2 j hj).1, (hj2 j hj).2])
      have c1 : content S 1 = content fs 0 := by simp [content, hg, hne01.symm, hx]
      have c0 : content S 0 = d.take p := by simp [content, hg]
      refine ⟨b1, _, d.take p, hR, fun h => by rw [s2 h]; rfl, List.take_prefix _ _, fun h => by omega, ?_⟩
      rw [b2, c1, c0]
    · -- complete
      have hT : S = Prim.apply (Prim.apply (Prim.apply S0 (.rename (rot 0) (rot 1))) (.create (rot 0)))
          (.write (rot 0) d) := by
        rw [hS, crashAt_ge _ _ _ _ (by simp [tailTrace])]; rfl
      have hg : ∀ n, get S n = if n = rot 0 then some d else
          if n = rot 1 then get S0 (rot 0) else get S0 n := by
        intro n; simp only [hT, get_apply_write, get_apply_create, hren]
        by_cases hn : n = rot 0 <;> simp [hn]
      obtain ⟨b1, b2⟩ := key S (fun j hj => by rw [hg]; simp [(hj2 j hj).1, (hj2 j hj).2])
      have c1 : content S 1 = content fs 0 := by simp [content, hg, hne01.symm, hx]
      have c0 : content S 0 = d := by simp [content, hg]
      have hfull : ∀ i, get S (rot (i + 1)) = if i = 0 then get fs (rot 0) else keepGet mr fs i := by
        intro i
        have n0 : rot (i + 1) ≠ rot 0 := fun h => by have := rot_inj.mp h; omega
        rw [hg]; simp only [n0, if_false]
        by_cases hi : i = 0
        · subst hi
          have h00 := hG 0
          have e1 : ¬ (M - M + 1 < 0 ∧ 0 ≤ M + 1) := by omega
          have e2 : ¬ (0 = M - M + 1) := by omega
          simp only [e1, e2, if_false] at h00
          simp [h00]
        · have n1 : rot (i + 1) ≠ rot 1 := fun h => by have := rot_inj.mp h; omega
          simp only [n1, if_false, hi]
          rw [hG (i + 1)]
          by_cases hle : i + 1 ≤ M + 1
          · have : M - M + 1 < i + 1 ∧ i + 1 ≤ M + 1 := by omega
            rw [if_pos this, Nat.add_sub_cancel]
          · have e1 : ¬ (M - M + 1 < i + 1 ∧ i + 1 ≤ M + 1) := fun h => hle h.2
            have e2 : ¬ (i + 1 = M - M + 1) := by omega
            simp only [e1, e2, if_false]
            rw [hb (i + 1) (by omega)]
            have : get fs (rot i) = none := hb i (by omega)
            unfold keepGet
            cases mr with
            | none => simp [this]
            | some n => by_cases hn : n ≤ i <;> simp [hn, this]
      refine ⟨b1, _, d, hR, fun h => by rw [s2 h]; rfl, List.prefix_refl _,
        fun _ => ⟨rfl, by simp [hg], hfull⟩, ?_⟩
      rw [b2, c1, c0]

theorem stepsFrom_eq_map (mr : Option Nat) : ∀ M, stepsFrom mr M M = (descFrom M).map (stepPrim mr)
  | 0 => rfl
  | M + 1 => by
    show stepPrim mr (M + 1) :: stepsFrom mr (M + 1 - 1) M = _
    rw [Nat.add_sub_cancel, stepsFrom_eq_map mr M]; rfl

theorem erase_of_get_none (fs : Fs) (n : Name) (h : get fs n = none) : erase fs n = fs := by
  induction fs with
  | nil => rfl
  | cons e rest ih =>
    obtain ⟨m, c⟩ := e
    rw [get_cons] at h
    by_cases hm : m = n
    · simp [hm] at h
    · simp only [hm, if_false] at h
      have := ih h
      simp only [erase] at this ⊢
      rw [List.filter_cons]
      simp only [ne_eq, hm, not_false_eq_true, decide_true, if_true]
      rw [this]

/-- `rotate()` visiting an index whose file does not exist does nothing -/
theorem stepPrim_noop (mr : Option Nat) (fs : Fs) (i : Nat) (h : exists_ fs (rot i) = false) :
    (stepPrim mr i).apply fs = fs := by
  have hg : get fs (rot i) = none := by
    simp only [exists_] at h
    cases hh : get fs (rot i) with
    | none => rfl
    | some c => simp [hh] at h
  unfold stepPrim
  cases mr with
  | none => simp [Prim.apply, hg]
  | some m =>
    by_cases hm : m ≤ i
    · simp [hm, Prim.apply, erase_of_get_none fs _ hg]
    · simp [hm, Prim.apply, hg]

theorem get_stepPrim_other (mr : Option Nat) (fs : Fs) (i : Nat) (n : Name) (h1 : n ≠ rot i) (h2 : n ≠ rot (i + 1)) :
    get ((stepPrim mr i).apply fs) n = get fs n := by
  unfold stepPrim
  cases mr with
  | none =>
    rw [get_apply_rename]
    cases get fs (rot i) <;> simp [h1, h2]
  | some m =>
    by_cases hm : m ≤ i
    · simp [hm, get_apply_remove, h1]
    · simp only [hm, if_false]
      rw [get_apply_rename]
      cases get fs (rot i) <;> simp [h1, h2]

/-- every crash state of the real `rotate()` (which visits only the files `listLogs()` found) is a crash
    state of the padded one -/
theorem real_sub_padded (mr : Option Nat) (fs0 : Fs) (B : List Prim) (p : Nat) :
    ∀ (M : Nat) (fs : Fs) (k : Nat),
      (∀ i, 1 ≤ i → i ≤ M → exists_ fs (rot i) = exists_ fs0 (rot i)) →
      ∃ k', crashAt (((descFrom M).filter fun i => exists_ fs0 (rot i)).map (stepPrim mr) ++ B) k p fs =
            crashAt ((descFrom M).map (stepPrim mr) ++ B) k' p fs
  | 0, fs, k, _ => ⟨k, rfl⟩
  | M + 1, fs, k, h => by
    have hrest : ∀ (fs' : Fs), (∀ i, 1 ≤ i → i ≤ M → exists_ fs' (rot i) = exists_ fs (rot i)) →
        ∀ i, 1 ≤ i → i ≤ M → exists_ fs' (rot i) = exists_ fs0 (rot i) :=
      fun fs' h' i h1 h2 => (h' i h1 h2).trans (h i h1 (by omega))
    cases hex : exists_ fs0 (rot (M + 1)) with
    | true =>
      simp only [descFrom, List.filter_cons, hex, if_true, List.map_cons, List.cons_append]
      rcases k with _ | k
      · exact ⟨0, by rw [crashAt_zero_step _ (stepPrim_isStep mr _), crashAt_zero_step _ (stepPrim_isStep mr _)]⟩
      · obtain ⟨k', hk'⟩ := real_sub_padded mr fs0 B p M ((stepPrim mr (M + 1)).apply fs) k
          (hrest _ (fun i h1 h2 => by
            simp only [exists_]
            rw [get_stepPrim_other mr fs (M + 1) (rot i) (fun hh => by have := rot_inj.mp hh; omega)
              (fun hh => by have := rot_inj.mp hh; omega)]))
        exact ⟨k' + 1, by rw [crashAt_cons_succ, crashAt_cons_succ, hk']⟩
    | false =>
      simp only [descFrom, List.filter_cons, hex, Bool.false_eq_true, if_false, List.map_cons, List.cons_append]
      obtain ⟨k', hk'⟩ := real_sub_padded mr fs0 B p M fs k (fun i h1 h2 => h i h1 (by omega))
      have hno : (stepPrim mr (M + 1)).apply fs = fs :=
        stepPrim_noop mr fs (M + 1) (by rw [h (M + 1) (by omega) (Nat.le_refl _)]; exact hex)
      exact ⟨k' + 1, by rw [crashAt_cons_succ, hno, hk']⟩

theorem run_real_eq_padded (mr : Option Nat) (fs0 : Fs) (B : List Prim) :
    ∀ (M : Nat) (fs : Fs),
      (∀ i, 1 ≤ i → i ≤ M → exists_ fs (rot i) = exists_ fs0 (rot i)) →
      run (((descFrom M).filter fun i => exists_ fs0 (rot i)).map (stepPrim mr) ++ B) fs =
      run ((descFrom M).map (stepPrim mr) ++ B) fs
  | 0, fs, _ => rfl
  | M + 1, fs, h => by
    cases hex : exists_ fs0 (rot (M + 1)) with
    | true =>
      simp only [descFrom, List.filter_cons, hex, if_true, List.map_cons, List.cons_append, run_cons]
      exact run_real_eq_padded mr fs0 B M _ (fun i h1 h2 => by
        simp only [exists_]
        rw [get_stepPrim_other mr fs (M + 1) (rot i) (fun hh => by have := rot_inj.mp hh; omega)
          (fun hh => by have := rot_inj.mp hh; omega)]
        exact h i h1 (by omega))
    | false =>
      simp only [descFrom, List.filter_cons, hex, Bool.false_eq_true, if_false, List.map_cons, List.cons_append, run_cons]
      have hno : (stepPrim mr (M + 1)).apply fs = fs :=
        stepPrim_noop mr fs (M + 1) (by rw [h (M + 1) (by omega) (Nat.le_refl _)]; exact hex)
      rw [hno]
      exact run_real_eq_padded mr fs0 B M fs (fun i h1 h2 => h i h1 (by omega))

/-- the bytes an operation writes -/
def dataOf : Op → Bytes
  | .write d _ => d
  | .reopen => []

/-- does `write()` rotate first? -/
def rotates (cfg : Cfg) (size : Nat) : Op → Bool
  | .write _ _ => decide (cfg.rotateLength ≠ 0 ∧ cfg.rotateLength ≤ size)
  | .reopen => false

theorem rotating_trace (mr : Option Nat) (fs : Fs) (d : Bytes) :
    rotateTrace mr fs ++ [.write (rot 0) d] =
      ((descFrom (maxIdx fs)).filter fun i => exists_ fs (rot i)).map (stepPrim mr) ++ tailTrace d := by
  simp [rotateTrace, listLogsDesc, tailTrace]

theorem padded_eq (mr : Option Nat) (M : Nat) (d : Bytes) :
    padded mr M d = (descFrom M).map (stepPrim mr) ++ tailTrace d := by
  rw [padded, stepsFrom_eq_map]

/-- **C53, one operation, every crash point** (`hcur`: the log file is open, i.e. the current file exists —
    `_openFile` guarantees it).  The retained data after the crash is a suffix `R` of the data retained
    before — all of it when there is no retention count — followed by a prefix `q` of the data being
    written; nothing is reordered, nothing inside is lost or duplicated.  When the operation completes,
    `q` is all of its data and the current file holds `d` (after a rotation) or its old content plus `d`. -/
theorem op_crash (cfg : Cfg) (size : Nat) (fs : Fs) (op : Op) (k p : Nat) (hcur : exists_ fs (rot 0) = true) :
    let tr := (opTrace cfg size fs op).1
    let S := crashAt tr k p fs
    ∃ R q, R <:+ retained fs ∧ (cfg.maxRot = none → R = retained fs) ∧ q <+: dataOf op ∧
      (tr.length ≤ k → q = dataOf op ∧
        get S (rot 0) = some (if rotates cfg size op then dataOf op else content fs 0 ++ dataOf op) ∧
        (∀ i, get S (rot (i + 1)) =
          if rotates cfg size op then (if i = 0 then get fs (rot 0) else keepGet cfg.maxRot fs i)
          else get fs (rot (i + 1)))) ∧
      retained S = R ++ q := by
  intro tr S
  obtain ⟨c0, hc0⟩ : ∃ c, get fs (rot 0) = some c := by
    simp only [exists_] at hcur
    cases h : get fs (rot 0) with
    | none => simp [h] at hcur
    | some c => exact ⟨c, rfl⟩
  have hcont0 : content fs 0 = c0 := by simp [content, hc0]
  cases op with
  | reopen =>
    have htr : tr = [] := by simp [tr, opTrace, openFile, hc0]
    have hS : S = fs := by simp [S, htr, crashAt]
    refine ⟨retained fs, [], List.suffix_refl _, fun _ => rfl, List.nil_prefix, fun _ => ⟨rfl, ?_, ?_⟩, by simp [hS]⟩
    · simp [hS, rotates, dataOf, hc0, hcont0]
    · intro i; simp [hS, rotates]
  | write d n =>
    by_cases hrot : cfg.rotateLength ≠ 0 ∧ cfg.rotateLength ≤ size
    · -- rotate, then write
      have htr : tr = ((descFrom (maxIdx fs)).filter fun i => exists_ fs (rot i)).map (stepPrim cfg.maxRot) ++ tailTrace d := by
        have : (opTrace cfg size fs (.write d n)).1 = rotateTrace cfg.maxRot fs ++ [.write (rot 0) d] := by
          simp only [opTrace]; rw [if_pos hrot]
        show (opTrace cfg size fs (.write d n)).1 = _
        rw [this]; exact rotating_trace _ _ _
      have hrt : rotates cfg size (.write d n) = true := by simp [rotates, hrot]
      -- find the corresponding cut of the padded trace
      obtain ⟨k', hk', hkc⟩ : ∃ k', S = crashAt (padded cfg.maxRot (maxIdx fs) d) k' p fs ∧
          (tr.length ≤ k → maxIdx fs + 3 ≤ k') := by
        by_cases hlen : tr.length ≤ k
        · refine ⟨maxIdx fs + 3, ?_, fun _ => Nat.le_refl _⟩
          have e1 : S = run tr fs := crashAt_ge _ _ _ _ hlen
          have e2 : crashAt (padded cfg.maxRot (maxIdx fs) d) (maxIdx fs + 3) p fs = run (padded cfg.maxRot (maxIdx fs) d) fs :=
            crashAt_ge _ _ _ _ (by simp [padded, stepsFrom_length, tailTrace])
          rw [e1, e2, htr, padded_eq]
          exact run_real_eq_padded cfg.maxRot fs (tailTrace d) (maxIdx fs) fs (fun _ _ _ => rfl)
        · obtain ⟨k', h⟩ := real_sub_padded cfg.maxRot fs (tailTrace d) p (maxIdx fs) fs k (fun _ _ _ => rfl)
          exact ⟨k', by rw [padded_eq, ← h, ← htr], fun h' => absurd h' hlen⟩
      obtain ⟨hbS, R, q, r1, r2, r3, r4, r5⟩ := padded_crash cfg.maxRot (maxIdx fs) fs d k' p (bounded_maxIdx fs)
      rw [← hk'] at hbS r4 r5
      refine ⟨R, q, r1, r2, r3, ?_, by rw [retained_eq hbS, r5]⟩
      intro hlen
      obtain ⟨a1, a2, a3⟩ := r4 (hkc hlen)
      refine ⟨a1, by simp [hrt, dataOf, a2], fun i => by simp [hrt, a3 i]⟩
    · -- plain write
      have htr : tr = [.write (rot 0) d] := by
        show (opTrace cfg size fs (.write d n)).1 = _
        simp only [opTrace]; rw [if_neg hrot]
      have hrt : rotates cfg size (.write d n) = false := by simp [rotates, hrot]
      have hSq : ∃ q, q <+: d ∧ (tr.length ≤ k → q = d) ∧ S = Prim.apply fs (.write (rot 0) q) := by
        rcases k with _ | k
        · exact ⟨d.take p, List.take_prefix _ _, fun h => by simp [htr] at h, by simp [S, htr, crashAt]⟩
        · exact ⟨d, List.prefix_refl _, fun _ => rfl, by
            have : S = run tr fs := crashAt_ge _ _ _ _ (by simp [htr])
            rw [this, htr]; rfl⟩
      obtain ⟨q, q1, q2, hS⟩ := hSq
      have hg : ∀ m, get S m = if m = rot 0 then some (c0 ++ q) else get fs m := by
        intro m; rw [hS, get_apply_write, hc0]; rfl
      have hbS : Bounded (maxIdx fs) S := by
        intro j hj
        have : rot j ≠ rot 0 := fun h => by have := rot_inj.mp h; omega
        rw [hg, if_neg this]; exact bounded_maxIdx fs j hj
      refine ⟨retained fs, q, List.suffix_refl _, fun _ => rfl, q1, ?_, ?_⟩
      · intro hlen
        have := q2 hlen
        subst this
        refine ⟨rfl, by simp [hg, hrt, dataOf, hcont0], fun i => ?_⟩
        have : rot (i + 1) ≠ rot 0 := fun h => by have := rot_inj.mp h; omega
        simp [hg, this, hrt]
      · rw [retained_eq hbS, retained_eq (bounded_maxIdx fs)]
        unfold retainedUpTo
        have e1 : (descFrom (maxIdx fs)).flatMap (content S) = (descFrom (maxIdx fs)).flatMap (content fs) := by
          apply flatMap_congr_mem
          intro j hj
          have := (mem_descFrom.mp hj).1
          have hne : rot j ≠ rot 0 := fun h => by have := rot_inj.mp h; omega
          simp [content, hg, hne]
        have e2 : content S 0 = content fs 0 ++ q := by simp [content, hg, hc0]
        rw [e1, e2, List.append_assoc]

end TwistedProps.C53
