import TwistedModel.Mail.Xtext
import Generated.Xtext
/-!
C41 — `mail/smtp.py` `xtext_encode`, regenerated from the Python source by `harness/py2lean.py` on every run
(`lean/Generated/Xtext.lean`) and proved equal to the hand model's `encode` (`TwistedModel/Mail/Xtext.lean`).

The translator renders the loop `for ch in iterbytes(s)` as `List.foldl` of the generated loop body over the bytes,
`o = ord(ch)` as the byte's value (statically `< 256`, which is what licenses `bytes((o,))` as `[UInt8.ofNat o]` and
`f"+{o:02X}"` as `43 :: pyFmt02X o`), the test `o == ord("+") or o == ord("=") or o < 33 or o > 126` literally, and
`(b"".join(r), len(s))` as `(r.flatten, s.length)`.  Here: the generated per-byte rule is the model's
(`gen_xtextStep_eq`: same test, `pyFmt02X = hexEsc`'s two digits), and a fold that appends one piece per byte, then
flattens, is the model's `flatMap`.
-/
namespace TwistedProps.C41
open Twisted.Mail.Xtext

theorem toUInt8_eq_ofNat (n : Nat) : n.toUInt8 = UInt8.ofNat n := rfl

/-- the piece the generated loop body appends for one byte = the model's per-byte rule -/
theorem gen_xtextStep_eq (r : List Bytes) (ch : UInt8) :
    Generated.Xtext.xtextEncodeStep r ch = r ++ [encode [ch]] := by
  have hch : UInt8.ofNat ch.toNat = ch := by simp
  have h43 : (ch.toNat = 43) = (ch = 43) := by
    apply propext; constructor
    · intro h; rw [← hch, h]; rfl
    · intro h; rw [h]; rfl
  have h61 : (ch.toNat = 61) = (ch = 61) := by
    apply propext; constructor
    · intro h; rw [← hch, h]; rfl
    · intro h; rw [h]; rfl
  simp only [Generated.Xtext.xtextEncodeStep, encode, encodeWith, List.flatMap_cons, List.flatMap_nil,
    List.append_nil, Generated.Xtext.pyFmt02X, hexEsc, hexDigit, toUInt8_eq_ofNat, hch, h43, h61,
    Bool.or_eq_true, decide_eq_true_eq, or_assoc]
  by_cases h : ch = 43 ∨ ch = 61 ∨ ch.toNat < 33 ∨ ch.toNat > 126
  · rw [if_pos h, if_pos h]; rfl
  · rw [if_neg h, if_neg h]

theorem encode_append (a b : Bytes) : encode (a ++ b) = encode a ++ encode b := by
  simp [encode, encodeWith]

/-- the fold of the generated loop body, flattened = what was there, followed by the model's encoding -/
theorem gen_xtext_fold (s : Bytes) (r : List Bytes) :
    (List.foldl Generated.Xtext.xtextEncodeStep r s).flatten = r.flatten ++ encode s := by
  induction s generalizing r with
  | nil => simp [encode, encodeWith]
  | cons ch s ih =>
    rw [List.foldl_cons, ih, gen_xtextStep_eq]
    have : ch :: s = [ch] ++ s := rfl
    rw [this, encode_append]
    simp

/-- generated `xtext_encode` = (the model's `encode`, `len(s)`), on every byte string -/
theorem gen_xtextEncode_eq (s : Bytes) : Generated.Xtext.xtextEncode s = (encode s, s.length) := by
  unfold Generated.Xtext.xtextEncode
  simp only [gen_xtext_fold, List.flatten_nil, List.nil_append]

end TwistedProps.C41
